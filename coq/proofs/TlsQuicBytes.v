(* C11, connection level: the receive buffer of a reachable connection holds bytes whenever the CRYPTO frames it was sent
   held bytes (the premise [bytes_ok (q_rbuf c)] of fragmentation_independent, derived instead of assumed). *)
From Coq Require Import ZArith List Bool Lia.
From AQ Require Import lib.Base model.RangeSet model.StreamRecv model.StreamSpec gen.TlsDispatch model.TlsSM gen.TlsQuicGen model.TlsQuic.
From AQ Require Import proofs.ListZ proofs.TlsQuicP proofs.TlsQuicStream proofs.TlsQuicFrag.

Lemma bytes_ok_zeros : forall n, bytes_ok (zeros n).
Proof. intros n. unfold zeros, bytes_ok. apply Forall_forall. intros x H. apply repeat_spec in H. subst. lia. Qed.

Lemma bytes_ok_splice : forall buf pos data, bytes_ok buf -> bytes_ok data -> bytes_ok (splice buf pos data).
Proof.
  intros buf pos data Hb Hd. unfold splice.
  assert (X : bytes_ok (if pos - Zlen buf >? 0 then buf ++ zeros (pos - Zlen buf) else buf)).
  { destruct (_ >? 0); [apply bytes_ok_app; [exact Hb|apply bytes_ok_zeros]|exact Hb]. }
  apply bytes_ok_app; [apply bytes_ok_ztake, X|]. apply bytes_ok_app; [exact Hd|apply bytes_ok_zdrop, X].
Qed.

Lemma pull_data_bytes : forall s, bytes_ok (r_buf s) ->
  bytes_ok (fst (pull_data s)) /\ bytes_ok (r_buf (snd (pull_data s))).
Proof.
  intros s H. unfold pull_data. destruct (r_ranges s) as [|[a e] rest]; [split; [constructor|exact H]|].
  destruct (a =? r_start s); cbn [fst snd r_buf]; [split; [apply bytes_ok_ztake, H|apply bytes_ok_zdrop, H]|split; [constructor|exact H]].
Qed.

Lemma handle_frame_bytes : forall st off data fin, bytes_ok (r_buf st) -> bytes_ok data ->
  bytes_ok (r_buf (snd (handle_frame st off data fin))) /\ bytes_ok (bytes_of (fst (handle_frame st off data fin))).
Proof.
  intros st off data fin Hb Hd. unfold handle_frame.
  destruct (match r_final st with Some f => _ | None => false end); [split; [exact Hb|constructor]|].
  destruct ((off - r_start st =? 0) && negb (Zlen data =? 0) && _); [split; [exact Hb|exact Hd]|].
  destruct (off - r_start st <? 0); cbv beta iota zeta.
  - match goal with |- context [pull_data ?x] =>
      assert (Hx : bytes_ok (r_buf x)) by (cbn [r_buf]; apply bytes_ok_splice; [exact Hb|apply bytes_ok_zdrop, Hd]);
      destruct (pull_data_bytes x Hx) as [P1 P2]; destruct (pull_data x) as [out st1] end.
    cbn [fst snd] in P1, P2. destruct out; destruct (opt_eqb (r_final st1) (r_start st1)); cbn; split; try assumption; constructor.
  - match goal with |- context [pull_data ?x] =>
      assert (Hx : bytes_ok (r_buf x)) by (cbn [r_buf]; apply bytes_ok_splice; [exact Hb|exact Hd]);
      destruct (pull_data_bytes x Hx) as [P1 P2]; destruct (pull_data x) as [out st1] end.
    cbn [fst snd] in P1, P2. destruct out; destruct (opt_eqb (r_final st1) (r_start st1)); cbn; split; try assumption; constructor.
Qed.

Record BInv (c : conn) : Prop := {
  b_rbuf : bytes_ok (q_rbuf c);
  b_si : bytes_ok (r_buf (q_si c));
  b_sh : bytes_ok (r_buf (q_sh c));
  b_sa : bytes_ok (r_buf (q_sa c))
}.

Lemma binv_ext : forall c c', BInv c -> q_rbuf c' = q_rbuf c -> q_si c' = q_si c -> q_sh c' = q_sh c -> q_sa c' = q_sa c -> BInv c'.
Proof. intros c c' [A B C D] E1 E2 E3 E4. constructor; congruence. Qed.

Lemma binv_stream_of : forall c e, BInv c -> bytes_ok (r_buf (stream_of c e)).
Proof. intros c e [A B C D]. unfold stream_of. destruct (e =? EP_INITIAL); [exact B|]. destruct (e =? EP_HANDSHAKE); assumption. Qed.

Lemma binv_set_stream : forall c e r, BInv c -> bytes_ok (r_buf r) -> BInv (set_stream c e r).
Proof.
  intros c e r [A B C D] H. constructor; unfold set_stream; cbn; try assumption;
    destruct (e =? EP_INITIAL); try assumption; destruct (e =? EP_HANDSHAKE); assumption.
Qed.

Lemma binv_tls_feed : forall p e c d, BInv c -> bytes_ok d -> BInv (snd (tls_feed p e c d)).
Proof.
  intros p e c d I Hd. pose proof (tls_feed_streams p e c d) as SS.
  assert (Str : q_si (snd (tls_feed p e c d)) = q_si c /\ q_sh (snd (tls_feed p e c d)) = q_sh c /\ q_sa (snd (tls_feed p e c d)) = q_sa c).
  { pose proof (SS EP_INITIAL) as S0. pose proof (SS EP_HANDSHAKE) as S2. pose proof (SS EP_ONE_RTT) as S3.
    unfold stream_of in S0, S2, S3. cbn in S0, S2, S3. repeat split; assumption. }
  destruct Str as (S1 & S2 & S3). destruct I as [A B C D].
  constructor; rewrite ?S1, ?S2, ?S3; try assumption.
  unfold tls_feed.
  assert (L : forall x, bytes_ok (q_rbuf (snd (tls_loop (S (length (q_rbuf c ++ d))) p e (set_rbuf c (q_rbuf c ++ d) x))))).
  { intros x. destruct (tls_loop (S (length (q_rbuf c ++ d))) p e (set_rbuf c (q_rbuf c ++ d) x)) as [r c1] eqn:E.
    assert (Hb : bytes_ok (q_rbuf (set_rbuf c (q_rbuf c ++ d) x))) by (cbn; apply bytes_ok_app; assumption).
    destruct (tls_loop_after _ _ _ _ _ _ Hb E) as (_ & X & _). exact X. }
  destruct (s_state (q_tls c)); try (destruct (p && _ && _ && _); [exact A|apply L]).
  destruct (client_send_hello (q_cfg c) (q_tls c)) as [[o s'] ks]. cbn [snd].
  match goal with |- context [install ?x ks] => destruct (install_fields ks x) as (_ & _ & _ & _ & _ & _ & F7 & _) end.
  rewrite F7. exact A.
Qed.

Lemma binv_complete_check : forall c, BInv c -> BInv (complete_check c).
Proof.
  intros c I. unfold complete_check. destruct (_ && _); [|exact I].
  destruct (q_client c); apply (binv_ext _ _ I); reflexivity.
Qed.

Definition frames_bytes (fs : list (Z * list Z)) : Prop := Forall (fun f => bytes_ok (snd f)) fs.

Lemma binv_crypto_frame : forall p e c off d, BInv c -> bytes_ok d -> BInv (snd (crypto_frame p e c off d)).
Proof.
  intros p e c off d I Hd. unfold crypto_frame.
  destruct (_ >? UINT_VAR_MAX); [exact I|]. destruct (_ >? MAX_PENDING_CRYPTO); [exact I|].
  destruct (handle_frame_bytes (stream_of c e) off d false (binv_stream_of c e I) Hd) as [H1 H2].
  destruct (handle_frame (stream_of c e) off d false) as [o r']. cbn [fst snd] in H1, H2.
  pose proof (binv_set_stream c e r' I H1) as I1.
  destruct o; try exact I1. cbn [bytes_of] in H2.
  pose proof (binv_tls_feed p e _ data I1 H2) as I2.
  destruct (tls_feed p e (set_stream c e r') data) as [tr c2]. cbn [snd] in I2.
  destruct tr; cbn [snd]; [apply binv_complete_check| |]; exact I2.
Qed.

Lemma binv_frames_loop : forall p e fs c, BInv c -> frames_bytes fs -> BInv (snd (frames_loop p e c fs)).
Proof.
  intros p e fs. induction fs as [|[off d] fs IH]; intros c I H; cbn [frames_loop]; [exact I|].
  inversion H as [|? ? Hd Hr]; subst. cbn [snd] in Hd.
  pose proof (binv_crypto_frame p e c off d I Hd) as I1.
  destruct (crypto_frame p e c off d) as [x c1]. cbn [snd] in I1.
  destruct x; cbn [snd]; [apply IH; assumption|exact I1|exact I1].
Qed.

Lemma binv_receive_packet : forall p c pt frames, BInv c -> frames_bytes frames -> BInv (snd (receive_packet p c pt frames)).
Proof.
  intros p c pt frames I H. unfold receive_packet.
  destruct (q_closed c); [exact I|].
  destruct (lookup_epoch pt get_epoch_table) as [e|]; [|exact I].
  destruct (negb (kget (q_rk c) e)); [exact I|].
  set (c0 := if negb (q_client c) && (e =? EP_HANDSHAKE) then discard c EP_INITIAL else c).
  assert (I0 : BInv c0) by (unfold c0; destruct (_ && _); [apply (binv_ext _ _ I); reflexivity|exact I]).
  assert (CW : forall cc code, BInv cc -> BInv (close_with cc code)).
  { intros cc code Ic. unfold close_with. cbv zeta. destruct (q_client (set_closed cc code) && _); apply (binv_ext _ _ Ic); reflexivity. }
  destruct frames as [|f fr]; [apply CW, I0|].
  destruct (negb (zin e crypto_frame_epochs)); [apply CW, I0|].
  pose proof (binv_frames_loop p e (f :: fr) c0 I0 H) as I1.
  destruct (frames_loop p e c0 (f :: fr)) as [r c1]. cbn [snd] in I1.
  destruct r; cbn [snd]; [|apply CW, I1|exact I1].
  unfold transmit. destruct (_ && _ && _); apply (binv_ext _ _ I1); reflexivity.
Qed.

Definition ops_bytes (ops : list qop) : Prop := Forall (fun op => frames_bytes (snd op)) ops.

Lemma binv_init : forall cl cfg0 orcs, BInv (conn_init cl cfg0 orcs).
Proof.
  intros cl cfg0 orcs. unfold conn_init. destruct cl.
  - unfold client_send_hello, init_client. cbn [s_resumed s_creq].
    match goal with |- BInv (install ?x ?ks) =>
      destruct (install_fields ks x) as (_ & _ & _ & _ & _ & _ & F7 & _ & _ & F10 & F11 & F12 & _) end.
    constructor; rewrite ?F7, ?F10, ?F11, ?F12; constructor.
  - constructor; constructor.
Qed.

Lemma reachable_bytes_lemma : forall p cl cfg0 orcs ops, ops_bytes ops ->
  bytes_ok (q_rbuf (run_conn p (conn_init cl cfg0 orcs) ops)).
Proof.
  intros p cl cfg0 orcs ops H.
  assert (G : forall ops c, BInv c -> ops_bytes ops -> BInv (run_conn p c ops)).
  { induction ops0 as [|[pt fr] r IH]; intros c I Ho; [exact I|]. inversion Ho as [|? ? Hf Hr]; subst. cbn [run_conn].
    apply IH; [apply binv_receive_packet; assumption|exact Hr]. }
  apply (b_rbuf _ (G ops _ (binv_init cl cfg0 orcs) H)).
Qed.

(* the fragmentation theorems with the premise on the packets sent so far instead of on the state reached *)
Lemma fragmentation_independent_reach : forall patched cl cfg0 orcs ops e base B fs,
  let c := run_conn patched (conn_init cl cfg0 orcs) ops in
  ops_bytes ops -> stream_of c e = flat base -> 0 <= base ->
  bytes_ok B -> B <> [] -> base + Zlen B <= UINT_VAR_MAX -> Zlen B <= MAX_PENDING_CRYPTO ->
  Forall (fun f => slice_of B base (fst f) (snd f)) fs ->
  (forall o, base <= o < base + Zlen B -> Exists (covers o) fs) ->
  fview (frames_loop patched e c fs) = fview (frames_loop patched e c [(base, B)]).
Proof.
  intros patched cl cfg0 orcs ops e base B fs c Hops. apply fragmentation_independent_lemma.
  apply reachable_bytes_lemma, Hops.
Qed.

Lemma fragmentation_independent_packets_reach : forall patched cfg0 orcs ops base B pkts,
  let c := run_conn patched (conn_init true cfg0 orcs) ops in
  ops_bytes ops -> q_closed c = None -> kget (q_rk c) EP_HANDSHAKE = true ->
  stream_of c EP_HANDSHAKE = flat base -> 0 <= base ->
  bytes_ok B -> B <> [] -> base + Zlen B <= UINT_VAR_MAX -> Zlen B <= MAX_PENDING_CRYPTO ->
  Forall (fun f : list (Z * list Z) => f <> []) pkts ->
  Forall (fun f => slice_of B base (fst f) (snd f)) (concat pkts) ->
  (forall o, base <= o < base + Zlen B -> Exists (covers o) (concat pkts)) ->
  let W := frames_loop patched EP_HANDSHAKE c [(base, B)] in
  let cf := run_conn patched c (map (fun f => (PT_HANDSHAKE, f)) pkts) in
  match fst W with
  | FOk => q_closed cf = None /\ tlsproj cf = tlsproj (snd W)
  | FClose code => q_closed cf = Some code /\ tlsproj (forget cf) = tlsproj (forget (snd W))
  | FExn _ => True
  end.
Proof.
  intros patched cfg0 orcs ops base B pkts c Hops Hcl Hk. apply fragmentation_independent_packets_lemma; try assumption.
  apply reachable_bytes_lemma, Hops.
Qed.

(* the premises are satisfiable together: a client that has taken the ServerHello (one Initial packet) and then gets
   EncryptedExtensions cut over two Handshake packets, second half first *)
Example packets_example :
  let orcs := [mkMsg 2 0 0 false true false true true true true 0 true; mkMsg 8 0 0 false true false true true true true 0 true] in
  let ops := [(PT_INITIAL, [(0, [2; 0; 0; 0])])] in
  let c := run_conn false (conn_init true (mkCfg false false true false) orcs) ops in
  let pkts := [[(2, [0; 0])]; [(0, [8; 0])]] in
  ops_bytes ops /\ q_closed c = None /\ kget (q_rk c) EP_HANDSHAKE = true /\ stream_of c EP_HANDSHAKE = flat 0 /\
  Forall (fun f => slice_of [8; 0; 0; 0] 0 (fst f) (snd f)) (concat pkts) /\
  s_state (q_tls (run_conn false c (map (fun f => (PT_HANDSHAKE, f)) pkts))) = CLIENT_EXPECT_CERTIFICATE_REQUEST_OR_CERTIFICATE.
Proof.
  cbv zeta. split; [repeat constructor; lia|]. split; [vm_compute; reflexivity|]. split; [vm_compute; reflexivity|].
  split; [vm_compute; reflexivity|]. split.
  - repeat constructor; unfold slice_of; cbn; repeat split; try lia; reflexivity.
  - vm_compute. reflexivity.
Qed.
