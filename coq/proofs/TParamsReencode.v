(* Decode, then re-encode (second sentence of C17) for transport parameters: whatever
   pull_quic_transport_parameters accepts from at most 65536 bytes is a well-formed object (qtp_wf), so
   by tparams_roundtrip it re-encodes and decodes to the same object.  The bound is the inner
   Buffer(capacity=65536) of the encoder: a longer value decodes but cannot be re-encoded. *)
From AQ Require Import lib.Base model.Codec model.Varint model.TParams
  proofs.CodecProofs proofs.VarintProofs proofs.HeaderProofs proofs.TParamsProofs proofs.TParamsRoundtrip
  proofs.TlsListProofs.
From Coq Require Import ZifyBool.

Definition inv (acc : tparams) : Prop :=
  forall id v, assoc id acc = Some v -> exists kind, assoc id PARAMS = Some kind /\ pval_wf kind v = true.

Lemma assoc_app {A} k (a b : list (Z * A)) :
  assoc k (a ++ b) = match assoc k a with Some v => Some v | None => assoc k b end.
Proof. induction a as [|[k' v] t IH]; [reflexivity|]. cbn [app assoc]. destruct (k' =? k); auto. Qed.

Lemma assoc_filter_ne {A} id k (l : list (Z * A)) :
  assoc k (filter (fun p => negb (fst p =? id)) l) = if id =? k then None else assoc k l.
Proof.
  induction l as [|[k' v] t IH]; [destruct (id =? k); reflexivity|]. cbn [filter fst assoc].
  destruct (k' =? id) eqn:E1; cbn [negb assoc].
  - rewrite IH. destruct (id =? k) eqn:E2; [reflexivity|]. destruct (k' =? k) eqn:E3; [lia|reflexivity].
  - rewrite IH. destruct (id =? k) eqn:E2; destruct (k' =? k) eqn:E3; try reflexivity; lia.
Qed.

Lemma assoc_tp_set id v acc k : assoc k (tp_set id v acc) = if id =? k then Some v else assoc k acc.
Proof.
  unfold tp_set. rewrite assoc_app, assoc_filter_ne. cbn [assoc].
  destruct (id =? k); [reflexivity|]. destruct (assoc k acc); reflexivity.
Qed.

Lemma inv_set id v kind acc : inv acc -> assoc id PARAMS = Some kind -> pval_wf kind v = true -> inv (tp_set id v acc).
Proof.
  intros I A W k v' H. rewrite assoc_tp_set in H. destruct (id =? k) eqn:E.
  - injection H as <-. assert (id = k) as <- by lia. eauto.
  - eauto.
Qed.

(* lengths along a successful read *)
Lemma pull_u32s_spec fuel : forall count bs vs r, bytes_ok bs -> pull_u32s fuel count bs = Ok (vs, r) ->
  Zlen bs - Zlen r = 4 * Zlen vs /\ Forall (fun v => 0 <= v < 2 ^ 32) vs /\ bytes_ok r.
Proof.
  induction fuel as [|f IH]; intros count bs vs r Hb H; cbn [pull_u32s] in H; destruct (count <=? 0).
  - injection H as <- <-. split; [cbn; lia|]. split; [constructor|exact Hb].
  - discriminate.
  - injection H as <- <-. split; [cbn; lia|]. split; [constructor|exact Hb].
  - unfold pull_uint32 in H. pose proof (pull_be_spec 4 bs Hb) as S.
    destruct (pull_be 4 bs) as [[v r1]|k] eqn:E1; cbn [bind] in H; [|discriminate].
    destruct S as [S1 S2]. pose proof (suffix_ok _ _ S1 Hb) as B1.
    destruct (pull_u32s f (count - 1) r1) as [[vs' r2]|k] eqn:E2; cbn [bind] in H; [|discriminate].
    injection H as <- <-. destruct (IH _ _ _ _ B1 E2) as (L & F & B2).
    apply pull_be_len in E1. unfold Zlen in *. cbn [length].
    split; [lia|]. split; [constructor; [exact S2|exact F]|exact B2].
Qed.

Lemma pull_be_Zlen n bs v r : pull_be n bs = Ok (v, r) -> Zlen bs = Z.of_nat n + Zlen r.
Proof. intros H. apply pull_be_len in H. unfold Zlen. lia. Qed.

Lemma pull_bytes_Zlen n bs v r : pull_bytes n bs = Ok (v, r) -> Zlen bs = n + Zlen r /\ Zlen v = n /\ 0 <= n.
Proof. intros H. apply pull_bytes_len in H. unfold Zlen in *. lia. Qed.

Lemma addr_wf_decoded n h p : Zlen h = n -> 0 <= p < 65536 ->
  addr_wf n (if all_zero h then None else Some (h, p)) = true.
Proof. intros Hh Hp. destruct (all_zero h) eqn:E; cbn [addr_wf]; [reflexivity|]. rewrite E. lia. Qed.

Lemma pull_pref_wf bs v r : bytes_ok bs -> pull_preferred_address bs = Ok (v, r) -> pval_wf 3 v = true.
Proof.
  intros Hb H. unfold pull_preferred_address, pull_uint16, pull_uint8 in H.
  bind_inv H. pose proof (pull_bytes_spec 4 bs) as S0. rewrite E in S0. destruct S0 as (S0 & L0 & _).
  pose proof (suffix_ok _ _ S0 Hb) as B0.
  bind_inv H. pose proof (pull_be_spec 2 l0 B0) as S1. rewrite E0 in S1. destruct S1 as [S1 R1].
  pose proof (suffix_ok _ _ S1 B0) as B1.
  bind_inv H. pose proof (pull_bytes_spec 16 l1) as S2. rewrite E1 in S2. destruct S2 as (S2 & L2 & _).
  pose proof (suffix_ok _ _ S2 B1) as B2.
  bind_inv H. pose proof (pull_be_spec 2 l3 B2) as S3. rewrite E2 in S3. destruct S3 as [S3 R3].
  pose proof (suffix_ok _ _ S3 B2) as B3.
  bind_inv H. pose proof (pull_be_spec 1 l4 B3) as S4. rewrite E3 in S4. destruct S4 as [S4 R4].
  bind_inv H. apply pull_bytes_Zlen in E4 as (_ & L5 & _).
  bind_inv H. apply pull_bytes_Zlen in E4 as (_ & L6 & _).
  injection H as <- _. cbn [pval_wf].
  change (256 ^ Z.of_nat 2) with 65536 in *. change (256 ^ Z.of_nat 1) with 256 in *.
  repeat (apply andb_true_intro; split);
    [reflexivity|exact (addr_wf_decoded 4 l z L0 R1)|exact (addr_wf_decoded 16 l2 z0 L2 R3)|lia|lia].
Qed.

Lemma forallb_u32_pos vs : Forall (fun v => 0 <= v < 2 ^ 32) vs -> existsb (fun v => v =? 0) vs = false ->
  forallb u32_posb vs = true.
Proof.
  induction 1 as [|v t Hv _ IH]; [reflexivity|]. cbn [existsb forallb]. intros H.
  apply orb_false_elim in H as [H1 H2]. rewrite (IH H2). unfold u32_posb. lia.
Qed.

Lemma pull_ver_wf len bs v r : bytes_ok bs -> Zlen bs <= 65536 -> pull_version_information len bs = Ok (v, r) ->
  pval_wf 4 v = true.
Proof.
  intros Hb Hl H. unfold pull_version_information, pull_uint32 in H.
  bind_inv H. pose proof (pull_be_spec 4 bs Hb) as S0. rewrite E in S0. destruct S0 as [S0 R0].
  pose proof (suffix_ok _ _ S0 Hb) as B0. apply pull_be_Zlen in E.
  bind_inv H. apply pull_u32s_spec in E0 as (L1 & F1 & _); [|exact B0].
  destruct ((z =? 0) || existsb (fun v0 => v0 =? 0) l0) eqn:Ez; [discriminate|].
  apply orb_false_elim in Ez as [Ez1 Ez2]. injection H as <- _. cbn [pval_wf].
  rewrite (forallb_u32_pos l0 F1 Ez2). unfold u32_posb.
  change (256 ^ Z.of_nat 4) with (2 ^ 32) in R0. pose proof (Zlen_nonneg l1). lia.
Qed.

(* a decoded known parameter is well-formed when it was read from at most 65536 bytes *)
Lemma pull_param_value_wf id len b2 v b3 : bytes_ok b2 -> Zlen b2 <= 65536 ->
  pull_param_value id len b2 = Ok (Some v, b3) ->
  exists kind, assoc id PARAMS = Some kind /\ pval_wf kind v = true.
Proof.
  intros Hb Hl H. unfold pull_param_value in H.
  destruct (assoc id PARAMS) as [k|] eqn:A; [|bind_inv H; discriminate H].
  exists k. split; [reflexivity|]. destruct (assoc_PARAMS_kind id k A) as [Hk _].
  destruct (k =? 0) eqn:K0.
  { bind_inv H. injection H as <- _. pose proof (pull_uint_var_spec b2 Hb) as S. rewrite E in S.
    cbn [pval_wf]. lia. }
  destruct (k =? 1) eqn:K1.
  { bind_inv H. injection H as <- _. apply pull_bytes_Zlen in E as (L1 & L2 & L3).
    pose proof (Zlen_nonneg l0). cbn [pval_wf]. lia. }
  destruct (k =? 3) eqn:K3.
  { bind_inv H. injection H as <- _. assert (k = 3) as -> by lia. eapply pull_pref_wf; eauto. }
  destruct (k =? 4) eqn:K4.
  { bind_inv H. injection H as <- _. assert (k = 4) as -> by lia. eapply pull_ver_wf; eauto. }
  injection H as <- _. cbn [pval_wf]. lia.
Qed.

Lemma pull_tparams_inv fuel : forall acc bs p, bytes_ok bs -> Zlen bs <= 65536 -> inv acc ->
  pull_tparams fuel acc bs = Ok p -> inv p.
Proof.
  induction fuel as [|f IH]; intros acc bs p Hb Hl I H; destruct bs as [|b0 t]; cbn [pull_tparams] in H;
    try (injection H as <-; exact I); try discriminate.
  pose proof (good_var _ Hb) as G1.
  destruct (pull_uint_var (b0 :: t)) as [[id b1]|k] eqn:E1; cbn [bind good] in *; [|discriminate].
  pose proof (suffix_ok _ _ G1 Hb) as B1. pose proof (suffix_len _ _ G1) as L1. pose proof (good_var _ B1) as G2.
  destruct (pull_uint_var b1) as [[len b2]|k] eqn:E2; cbn [bind good] in *; [|discriminate].
  pose proof (suffix_ok _ _ G2 B1) as B2. pose proof (suffix_len _ _ G2) as L2.
  pose proof (good_param id len _ B2) as G3.
  destruct (pull_param_value id len b2) as [[v b3]|k] eqn:E3; cbn [bind good] in *; [|discriminate].
  pose proof (suffix_ok _ _ G3 B2) as B3. pose proof (suffix_len _ _ G3) as L3.
  destruct (negb (Zlen b2 - Zlen b3 =? len)); [discriminate|].
  apply (IH _ b3 p B3 ltac:(lia)) in H; [exact H|].
  destruct v as [v|]; [|exact I].
  destruct (pull_param_value_wf id len b2 v b3 B2 ltac:(lia) E3) as (kind & A & W).
  eapply inv_set; eauto.
Qed.

(* each attribute of the decoded object is well-formed *)
Lemma wf_get_int id p : inv p -> assoc id PARAMS = Some 0 ->
  match opt_pv PInt (get_int id p) with Some v => pval_wf 0 v | None => true end = true.
Proof.
  intros I A. unfold get_int. destruct (assoc id p) as [[x|b| |a4 a6 cid tok|c a]|] eqn:E; cbn [opt_pv]; try reflexivity.
  destruct (I _ _ E) as (k & Hk & Hw). rewrite A in Hk. injection Hk as <-. exact Hw.
Qed.

Lemma wf_get_bytes id p : inv p -> assoc id PARAMS = Some 1 ->
  match opt_pv PBytes (get_bytes id p) with Some v => pval_wf 1 v | None => true end = true.
Proof.
  intros I A. unfold get_bytes. destruct (assoc id p) as [[x|b| |a4 a6 cid tok|c a]|] eqn:E; cbn [opt_pv]; try reflexivity.
  destruct (I _ _ E) as (k & Hk & Hw). rewrite A in Hk. injection Hk as <-. exact Hw.
Qed.

Lemma wf_get_pref id p : inv p -> assoc id PARAMS = Some 3 ->
  match opt_pv pv_pref (get_pref id p) with Some v => pval_wf 3 v | None => true end = true.
Proof.
  intros I A. unfold get_pref. destruct (assoc id p) as [[x|b| |a4 a6 cid tok|c a]|] eqn:E; cbn [opt_pv pv_pref]; try reflexivity.
  destruct (I _ _ E) as (k & Hk & Hw). rewrite A in Hk. injection Hk as <-. exact Hw.
Qed.

Lemma wf_get_ver id p : inv p -> assoc id PARAMS = Some 4 ->
  match opt_pv pv_ver (get_ver id p) with Some v => pval_wf 4 v | None => true end = true.
Proof.
  intros I A. unfold get_ver. destruct (assoc id p) as [[x|b| |a4 a6 cid tok|c a]|] eqn:E; cbn [opt_pv pv_ver fst snd]; try reflexivity.
  destruct (I _ _ E) as (k & Hk & Hw). rewrite A in Hk. injection Hk as <-. exact Hw.
Qed.

Lemma wf_get_flag id p :
  match pv_flag (get_flag id p) with Some v => pval_wf 2 v | None => true end = true.
Proof. unfold get_flag. destruct (assoc id p); reflexivity. Qed.

Lemma inv_qtp_wf p : inv p -> qtp_wf (qtp_of_tp p) = true.
Proof.
  intros I. unfold qtp_wf. apply andb_true_intro. split; [|unfold qtp_of_tp, get_flag; cbn [q_disable_active_migration]; destruct (assoc 12 p); reflexivity].
  unfold qtp_of_tp, qtp_fields, PARAMS.
  cbn [fields_wf q_original_destination_connection_id q_max_idle_timeout q_stateless_reset_token
       q_max_udp_payload_size q_initial_max_data q_initial_max_stream_data_bidi_local
       q_initial_max_stream_data_bidi_remote q_initial_max_stream_data_uni q_initial_max_streams_bidi
       q_initial_max_streams_uni q_ack_delay_exponent q_max_ack_delay q_disable_active_migration
       q_preferred_address q_active_connection_id_limit q_initial_source_connection_id
       q_retry_source_connection_id q_version_information q_max_datagram_frame_size q_quantum_readiness].
  repeat (apply andb_true_intro; split);
    first [ apply wf_get_int; [exact I|reflexivity] | apply wf_get_bytes; [exact I|reflexivity]
          | apply wf_get_pref; [exact I|reflexivity] | apply wf_get_ver; [exact I|reflexivity]
          | apply wf_get_flag | reflexivity ].
Qed.

Lemma inv_nil : inv [].
Proof. intros id v H. discriminate H. Qed.

(* decoding at most 65536 bytes gives a well-formed object, which re-encodes and decodes to itself *)
Theorem tparams_reencode bs r : bytes_ok bs -> Zlen bs <= 65536 -> pull_qtp bs = Ok r ->
  qtp_wf r = true /\ exists bytes', flatten (push_qtp r) = Ok bytes' /\ pull_qtp bytes' = Ok r.
Proof.
  intros Hb Hl H. unfold pull_qtp, pull_quic_transport_parameters in H.
  destruct (pull_tparams (length bs) [] bs) as [p|k] eqn:E; cbn [bind] in H; [|discriminate]. injection H as <-.
  assert (W : qtp_wf (qtp_of_tp p) = true) by (apply inv_qtp_wf; eapply pull_tparams_inv; eauto using inv_nil).
  split; [exact W|]. now apply tparams_roundtrip.
Qed.

(* the bound is the encoder's inner Buffer(capacity=65536): a longer byte-string parameter (which the
   decoder accepts, see docs/C17.md for the replay) makes push raise BufferWriteError *)
Lemma tparams_reencode_limit b : 65536 < Zlen b ->
  flatten (push_quic_transport_parameters [(0, PBytes b)]) = Err E_WRITE.
Proof.
  intros L. unfold push_quic_transport_parameters, PARAMS.
  cbn [flat_map fst assoc Z.eqb Pos.eqb app]. unfold push_param. cbn [push_pval w_chunks push_bytes].
  change (Zlen (@nil Z)) with 0. destruct (0 + Zlen b >? 65536) eqn:E; [reflexivity|lia].
Qed.
