(* C07, bursts that arrive faster than the endpoint drains its queues: the late-arrival path of
   _handle_new_connection_id_frame (a never-seen sequence number below the already processed Retire Prior To is
   retired at once, Retire Prior To does not move) is under the cap on pending retirements.
   - late_arrival_step: in EVERY state whose connection IDs are at or above Retire Prior To, the complete verdict on a
     late arrival: one more pending retirement, or CONNECTION_ID_LIMIT_ERROR when that would exceed
     min(4 * active_connection_id_limit, MAX_PENDING_RETIRES); nothing else changes but the set of known numbers.
   - late_burst_capped: the concrete history [NEW_CONNECTION_ID(J, J); NEW_CONNECTION_ID(8.., 0) x 30] without any write
     pass: the 25th late arrival closes, 32 retirements pending.
   - retire_cap_skipped_unbounded_refuted: in a tree that evaluates the cap only when the frame moved Retire Prior To
     forward (NCID_RETIRE_CAP_ONLY_WHEN_RAISED = true, probed) the same history leaves 38 retirements pending and the
     connection open: the bound of buffer_bounded is false there (conditional, vacuous on a tree with the cap on every path).
   This file does not depend on proofs/ConnLimitsP.v, so it still compiles on such a tree (where ConnLimitsP.v does not). *)
From Coq Require Import ZArith List Bool Lia ZifyBool.
From AQ Require Import lib.Base model.RangeSet model.StreamRecv model.ConnLimits gen.C07Consts proofs.ListZ.
Import ListNotations.
Open Scope Z_scope.

Lemma filter_none_below R (l : list Z) : forallb (fun q => R <=? q) l = true -> filter (fun q => q <? R) l = [].
Proof.
  induction l as [|a t IH]; cbn [forallb filter]; [reflexivity|]. intros H. apply andb_prop in H. destruct H as (Ha & Ht).
  destruct (a <? R) eqn:E; [lia|]. apply IH, Ht.
Qed.

Lemma filter_all_above R (l : list Z) : forallb (fun q => R <=? q) l = true -> filter (fun q => R <=? q) l = l.
Proof.
  induction l as [|a t IH]; cbn [forallb filter]; [reflexivity|]. intros H. apply andb_prop in H. destruct H as (Ha & Ht).
  rewrite Ha. f_equal. apply IH, Ht.
Qed.

Lemma late_arrival_step c seq rpt :
  NCID_RETIRE_CAP_ONLY_WHEN_RAISED = false -> NCID_LATE_RETIRED = true ->
  rpt <= seq -> seq < c_cid_rpt c -> existsb (Z.eqb seq) (c_cid_seen c) = false ->
  c_cid_rpt c <= c_cid_active c -> forallb (fun q => c_cid_rpt c <=? q) (c_cid_avail c) = true ->
  1 + Zlen (c_cid_avail c) <= LOCAL_ACTIVE_CID_LIMIT ->
  handle_new_cid c seq rpt =
    if Zlen (c_retire c) + 1 >? retire_cap then (OErr E_CONNECTION_ID_LIMIT_ERROR FT_NEW_CONNECTION_ID, c)
    else (OOk RNone, set_cids c (c_cid_active c) (c_cid_avail c) (seq :: c_cid_seen c) (c_cid_rpt c) (c_retire c ++ [seq])).
Proof.
  intros Cap L H1 H2 Hs Ha Hv Hn. unfold handle_new_cid.
  replace (rpt >? seq) with false by lia.
  replace (Z.max rpt (c_cid_rpt c)) with (c_cid_rpt c) by lia.
  rewrite (filter_none_below _ _ Hv), (filter_all_above _ _ Hv), Hs, L.
  replace (c_cid_active c <? c_cid_rpt c) with false by lia.
  replace (c_cid_rpt c <=? seq) with false by lia.
  cbn [andb negb orb app].
  replace (1 + Zlen (c_cid_avail c) >? LOCAL_ACTIVE_CID_LIMIT) with false by lia.
  unfold over_retire_cap. rewrite Cap. cbn [negb orb andb].
  rewrite Zlen_app. change (Zlen [seq]) with 1. reflexivity.
Qed.

(* one frame moves Retire Prior To to J (the handshake's connection IDs 0..7 are retired: 8 pending), then n never-seen
   sequence numbers 8, 9, ... below it, no write pass in between *)
Definition late_burst (J : Z) (n : nat) : list op :=
  NewConnectionId J J :: map (fun k => NewConnectionId (Z.of_nat k) 0) (seq 8 n).

Definition after_handshake : conn :=
  snd (run (conn_init false 1000 4000 0) (map (fun k => NewConnectionId (Z.of_nat k) 0) (seq 1 7))).

Lemma late_burst_capped :
  NCID_RETIRE_CAP_ONLY_WHEN_RAISED = false -> NCID_LATE_RETIRED = true ->
  Zlen (fst (run after_handshake (late_burst 1000 30))) = 26 /\
  last (fst (run after_handshake (late_burst 1000 30))) OExn = OErr E_CONNECTION_ID_LIMIT_ERROR FT_NEW_CONNECTION_ID /\
  Zlen (c_retire (snd (run after_handshake (late_burst 1000 30)))) = retire_cap.
Proof.
  intros H1 H2. vm_compute in H1, H2.
  first [ discriminate H1 | discriminate H2 | vm_compute; repeat split; reflexivity ].
Qed.

Lemma retire_cap_skipped_unbounded_refuted :
  NCID_RETIRE_CAP_ONLY_WHEN_RAISED = true -> NCID_LATE_RETIRED = true ->
  exists ops, forallb (fun o => negb (closes o)) (fst (run after_handshake ops)) = true /\
              Zlen (c_retire (snd (run after_handshake ops))) > retire_cap.
Proof.
  intros H1 H2. vm_compute in H1, H2.
  first [ discriminate H1 | discriminate H2 | exists (late_burst 1000 30); vm_compute; split; reflexivity ].
Qed.
