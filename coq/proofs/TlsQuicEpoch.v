(* C11, connection level: the epoch rule of RFC 9001 4.1.3 -- every handshake message is taken from the CRYPTO stream of
   the encryption level the TLS state expects (ServerHello / ClientHello: Initial; the rest of the flights: Handshake;
   post-handshake messages: 1-RTT).
     crypto_epoch_isolated_stmt false   REFUTED: the tree as it is feeds all CRYPTO streams into one receive buffer and
                                        never looks at the epoch: a client completes the handshake on a server flight
                                        carried entirely by Initial packets, a server on a client Finished in an Initial
                                        packet (concrete runs of the model; replayed on real connections by the harness,
                                        corpus/C11/quic-*-initial*.json).
     crypto_epoch_isolated_stmt true    proved for the repaired handle_message (docs/C11-fix-1.patch). *)
From Coq Require Import ZArith List Bool Lia.
From AQ Require Import lib.Base model.StreamRecv gen.TlsDispatch model.TlsSM gen.TlsQuicGen model.TlsQuic.
From AQ Require Import proofs.TlsDispatchLegal proofs.TlsNoSkip proofs.TlsKeys proofs.TlsQuicP.

(* the log of dispatched messages respects the epoch rule, started in TLS state s *)
Fixpoint epochs_ok (s : st) (log : list (Z * event)) : Prop :=
  match log with
  | [] => True
  | (e, ev) :: r => e = expected_epoch (s_state s) /\ epochs_ok (ev_st ev) r
  end.

Definition crypto_epoch_isolated_stmt (patched : bool) : Prop :=
  forall cl cfg0 orcs ops,
    epochs_ok (start_of cl cfg0) (q_log (run_conn patched (conn_init cl cfg0 orcs) ops)).

Lemma epochs_ok_snoc : forall log s e ev,
  epochs_ok s log -> e = expected_epoch (s_state (final s (map snd log))) -> epochs_ok s (log ++ [(e, ev)]).
Proof.
  induction log as [|[e0 ev0] log IH]; intros s e ev H E; cbn in *.
  - split; [exact E|exact I].
  - destruct H as [H1 H2]. split; [exact H1|]. apply IH; assumption.
Qed.

(* ---------- refutation (the tree as it is) ------------------------------------------------------------------- *)
Definition good (t : Z) : msg := mkMsg t 0 0 false true false true true true true 0 true.
Definition wit_cfg : cfg := mkCfg false false true false.
(* ServerHello, EncryptedExtensions, Certificate, CertificateVerify, Finished with empty bodies (the body is not read by
   the model: the oracle records say that every check on them passes), in ONE CRYPTO frame of ONE Initial packet *)
Definition wit_client_ops : list qop := [(PT_INITIAL, [(0, [2;0;0;0; 8;0;0;0; 11;0;0;0; 15;0;0;0; 20;0;0;0])])].
Definition wit_client : conn :=
  run_conn false (conn_init true wit_cfg [good 2; good 8; good 11; good 15; good 20]) wit_client_ops.
(* ClientHello, Finished in Initial packets *)
Definition wit_server_ops : list qop := [(PT_INITIAL, [(0, [1;0;0;0])]); (PT_INITIAL, [(4, [20;0;0;0])])].
Definition wit_server : conn := run_conn false (conn_init false wit_cfg [good 1; good 20]) wit_server_ops.

Lemma wit_client_facts :
  q_complete wit_client = true /\ s_state (q_tls wit_client) = CLIENT_POST_HANDSHAKE /\
  kget (q_rk wit_client) EP_ONE_RTT = true /\ kget (q_sk wit_client) EP_ONE_RTT = true /\ q_closed wit_client = None /\
  map fst (q_log wit_client) = [EP_INITIAL; EP_INITIAL; EP_INITIAL; EP_INITIAL; EP_INITIAL] /\
  map (fun x => m_type (ev_msg (snd x))) (q_log wit_client) = [2; 8; 11; 15; 20] /\
  client_legal wit_cfg (accepted (tls_log wit_client)).
Proof.
  repeat split; try (vm_compute; reflexivity).
  exact (proj1 (proj2 (proj2 (proj2 (proj2 (keys_after_authentication_quic_lemma false true wit_cfg
           [good 2; good 8; good 11; good 15; good 20] wit_client_ops))))) ltac:(vm_compute; reflexivity)).
Qed.

Lemma wit_server_facts :
  q_complete wit_server = true /\ s_state (q_tls wit_server) = SERVER_POST_HANDSHAKE /\
  kget (q_rk wit_server) EP_ONE_RTT = true /\ q_closed wit_server = None /\
  map fst (q_log wit_server) = [EP_INITIAL; EP_INITIAL] /\
  map (fun x => m_type (ev_msg (snd x))) (q_log wit_server) = [1; 20].
Proof. repeat split; vm_compute; reflexivity. Qed.

Lemma crypto_epoch_isolated_refuted_lemma :
  ~ crypto_epoch_isolated_stmt false /\
  (* the witnesses: handshakes COMPLETED on flights that never left the Initial encryption level *)
  (exists cfg0 orcs ops, let c := run_conn false (conn_init true cfg0 orcs) ops in
     Forall (fun op => fst op = PT_INITIAL) ops /\ q_complete c = true /\ s_state (q_tls c) = CLIENT_POST_HANDSHAKE /\
     kget (q_rk c) EP_ONE_RTT = true /\ map (fun x => m_type (ev_msg (snd x))) (q_log c) = [2; 8; 11; 15; 20] /\
     Forall (fun x => fst x = EP_INITIAL) (q_log c)) /\
  (exists cfg0 orcs ops, let c := run_conn false (conn_init false cfg0 orcs) ops in
     Forall (fun op => fst op = PT_INITIAL) ops /\ q_complete c = true /\ s_state (q_tls c) = SERVER_POST_HANDSHAKE /\
     kget (q_rk c) EP_ONE_RTT = true /\ map (fun x => m_type (ev_msg (snd x))) (q_log c) = [1; 20] /\
     Forall (fun x => fst x = EP_INITIAL) (q_log c)).
Proof.
  split; [|split].
  - intros H. specialize (H true wit_cfg [good 2; good 8; good 11; good 15; good 20] wit_client_ops).
    vm_compute in H. destruct H as (_ & H & _). discriminate H.
  - exists wit_cfg, [good 2; good 8; good 11; good 15; good 20], wit_client_ops.
    repeat split; try (vm_compute; reflexivity); vm_compute; repeat constructor.
  - exists wit_cfg, [good 1; good 20], wit_server_ops.
    repeat split; try (vm_compute; reflexivity); vm_compute; repeat constructor.
Qed.

(* ---------- the repaired handle_message ------------------------------------------------------------------------ *)
Definition EInv (cl : bool) (cfg0 : cfg) (c : conn) : Prop :=
  QInv cl cfg0 c /\ epochs_ok (start_of cl cfg0) (q_log c).

Lemma einv_same_log : forall cl cfg0 c c', epochs_ok (start_of cl cfg0) (q_log c) -> q_log c' = q_log c ->
  epochs_ok (start_of cl cfg0) (q_log c').
Proof. intros cl cfg0 c c' H E. rewrite E. exact H. Qed.

Lemma einv_dispatch_one : forall cl cfg0 e c t rest o c1,
  EInv cl cfg0 c -> e = expected_epoch (s_state (q_tls c)) -> dispatch_one e c t rest = (o, c1) -> EInv cl cfg0 c1.
Proof.
  intros cl cfg0 e c t rest o c1 [I E] He H. split; [eapply qinv_dispatch_one; eauto|].
  unfold dispatch_one in H. destruct (step (q_cfg c) (q_tls c) _) as [[o' s'] ks]. inversion H; subst o' c1; clear H.
  match goal with |- context [install ?x ks] => destruct (install_fields ks x) as (_ & _ & _ & F4 & _) end.
  rewrite F4. cbn [q_log]. apply epochs_ok_snoc; [exact E|].
  rewrite He, (qi_final _ _ _ I). reflexivity.
Qed.

Lemma einv_tls_loop : forall cl cfg0 e fuel c r c',
  EInv cl cfg0 c -> tls_loop fuel true e c = (r, c') -> EInv cl cfg0 c'.
Proof.
  intros cl cfg0 e fuel. induction fuel as [|fuel IH]; intros c r c' I H; cbn [tls_loop] in H.
  - inversion H; subst; exact I.
  - destruct (q_rbuf c) as [|t [|l1 [|l2 [|l3 tl]]]]; try (inversion H; subst; exact I).
    destruct (_ >? MAX_HANDSHAKE_MESSAGE_SIZE); [inversion H; subst; exact I|].
    destruct (_ <? _); [inversion H; subst; exact I|].
    cbn [andb] in H.
    destruct (e =? expected_epoch (s_state (q_tls c))) eqn:X; cbn [negb] in H; [|inversion H; subst; exact I].
    apply Z.eqb_eq in X.
    destruct (dispatch_one e c t _) as [o c1] eqn:D.
    pose proof (einv_dispatch_one _ _ _ _ _ _ _ _ I X D) as I1.
    destruct o; [eapply IH; eauto| |]; inversion H; subst; exact I1.
Qed.

Lemma einv_tls_feed : forall cl cfg0 e c data r c',
  EInv cl cfg0 c -> tls_feed true e c data = (r, c') -> EInv cl cfg0 c'.
Proof.
  intros cl cfg0 e c data r c' [I E] H.
  pose proof (qinv_tls_feed _ _ _ _ _ _ _ _ I H) as I'.
  unfold tls_feed in H.
  pose proof (inv_no_start _ _ _ _ (qinv_role _ _ _ I)) as NS.
  destruct (s_state (q_tls c)) eqn:S; try (exfalso; apply NS; reflexivity).
  all: destruct (true && _ && _ && _); [inversion H; subst; split; [exact I|exact E]|];
    eapply einv_tls_loop; [|exact H]; split;
    [apply (qinv_weaken _ _ _ _ I); try reflexivity; [apply keys_le_refl; reflexivity|intro Y; left; exact Y]|exact E].
Qed.

Lemma complete_check_log : forall c, q_log (complete_check c) = q_log c.
Proof. intros c. unfold complete_check. destruct (_ && _); [|reflexivity]. destruct (q_client c); reflexivity. Qed.

Lemma einv_crypto_frame : forall cl cfg0 e c off data r c',
  EInv cl cfg0 c -> crypto_frame true e c off data = (r, c') -> EInv cl cfg0 c'.
Proof.
  intros cl cfg0 e c off data r c' [I E] H. unfold crypto_frame in H.
  destruct (_ >? UINT_VAR_MAX); [inversion H; subst; split; assumption|].
  destruct (_ >? MAX_PENDING_CRYPTO); [inversion H; subst; split; assumption|].
  destruct (handle_frame (stream_of c e) off data false) as [o r'].
  assert (I1 : EInv cl cfg0 (set_stream c e r')) by (split; [apply qinv_set_stream, I|exact E]).
  destruct o; try (inversion H; subst; exact I1).
  destruct (tls_feed true e (set_stream c e r') data0) as [tr c2] eqn:T.
  destruct (einv_tls_feed _ _ _ _ _ _ _ I1 T) as [I2 E2].
  destruct tr; inversion H; subst; try (split; assumption).
  split; [apply qinv_complete_check, I2|rewrite complete_check_log; exact E2].
Qed.

Lemma einv_frames_loop : forall cl cfg0 e frames c r c',
  EInv cl cfg0 c -> frames_loop true e c frames = (r, c') -> EInv cl cfg0 c'.
Proof.
  intros cl cfg0 e frames. induction frames as [|[off d] fr IH]; intros c r c' I H; cbn [frames_loop] in H.
  - inversion H; subst; exact I.
  - destruct (crypto_frame true e c off d) as [x c1] eqn:C.
    pose proof (einv_crypto_frame _ _ _ _ _ _ _ _ I C) as I1.
    destruct x; [eapply IH; eauto| |]; inversion H; subst; exact I1.
Qed.

Lemma transmit_log : forall c, q_log (transmit c) = q_log c.
Proof. intros c. unfold transmit. destruct (_ && _ && _); reflexivity. Qed.
Lemma close_with_log : forall c code, q_log (close_with c code) = q_log c.
Proof. intros c code. unfold close_with. destruct (_ && _); reflexivity. Qed.

Lemma einv_receive_packet : forall cl cfg0 c pt frames,
  EInv cl cfg0 c -> EInv cl cfg0 (snd (receive_packet true c pt frames)).
Proof.
  intros cl cfg0 c pt frames [I E]. split; [apply qinv_receive_packet, I|].
  unfold receive_packet.
  destruct (q_closed c); [exact E|].
  destruct (lookup_epoch pt get_epoch_table) as [e|]; [|exact E].
  destruct (negb (kget (q_rk c) e)); [exact E|].
  set (c0 := if negb (q_client c) && (e =? EP_HANDSHAKE) then discard c EP_INITIAL else c).
  assert (I0 : EInv cl cfg0 c0).
  { unfold c0. destruct (_ && _); split; try assumption. apply qinv_discard, I. }
  destruct frames as [|f fr]; [cbn [snd]; rewrite close_with_log; exact (proj2 I0)|].
  destruct (negb (zin e crypto_frame_epochs)); [cbn [snd]; rewrite close_with_log; exact (proj2 I0)|].
  destruct (frames_loop true e c0 (f :: fr)) as [r c1] eqn:F.
  destruct (einv_frames_loop _ _ _ _ _ _ _ I0 F) as [I1 E1].
  destruct r; cbn [snd]; [rewrite transmit_log|rewrite close_with_log|]; exact E1.
Qed.

Lemma crypto_epoch_isolated_patched_lemma : crypto_epoch_isolated_stmt true.
Proof.
  intros cl cfg0 orcs ops.
  assert (G : forall ops c, EInv cl cfg0 c -> EInv cl cfg0 (run_conn true c ops)).
  { induction ops0 as [|[pt fr] r IH]; intros c I; [exact I|]. cbn [run_conn]. apply IH, einv_receive_packet, I. }
  apply G. split; [apply qinv_init|].
  unfold conn_init. destruct cl; [|exact I].
  unfold client_send_hello, init_client. cbn [s_resumed s_creq].
  match goal with |- context [install ?x ?ks] => destruct (install_fields ks x) as (_ & _ & _ & F4 & _) end.
  rewrite F4. exact I.
Qed.

(* the repaired model still completes the honest handshake (every message at its own level) *)
Example patched_completes :
  let c := run_conn true (conn_init true wit_cfg [good 2; good 8; good 11; good 15; good 20])
             [(PT_INITIAL, [(0, [2;0;0;0])]); (PT_HANDSHAKE, [(0, [8;0;0;0; 11;0;0;0])]);
              (PT_HANDSHAKE, [(12, [20;0;0;0]); (8, [15;0;0;0])])] in
  q_complete c = true /\ q_closed c = None.
Proof. vm_compute. split; reflexivity. Qed.

(* ... and refuses the witness with unexpected_message *)
Example patched_refuses_witness :
  q_closed (run_conn true (conn_init true wit_cfg [good 2; good 8; good 11; good 15; good 20]) wit_client_ops)
  = Some (QEC_CRYPTO_ERROR + AD_unexpected_message).
Proof. vm_compute. reflexivity. Qed.
