(* Refinement: the receive half (model/StreamRecv.v) behaves like the offset->byte map of
   model/StreamSpec.v, for every sequence of frames, until a reset is accepted. *)
From Coq Require Import ZArith List Bool Lia ZifyBool.
From AQ Require Import lib.Base model.RangeSet model.StreamRecv model.StreamSpec proofs.RangeSetP proofs.ListZ.

(* [strict] = no reset accepted so far: then the end marker / is_finished are tied to the map as well *)
Record Inv (strict : bool) (st : recv) (sp : rspec) : Prop := {
  i_start : r_start st = sp_del sp;
  i_final : r_final st = sp_final sp;
  i_high : r_highest st = sp_hi sp;
  i_wf : wf_from (r_start st) (r_ranges st);                 (* buffered ranges lie strictly above the delivered prefix, never touch *)
  i_inbuf : forall o, mem o (r_ranges st) -> o < r_start st + Zlen (r_buf st);
  i_val : forall o, mem o (r_ranges st) -> sp_map sp o = Some (nthZ (r_buf st) (o - r_start st));
  i_none : forall o, r_start st <= o -> ~ mem o (r_ranges st) -> sp_map sp o = None;
  i_below_hi : forall o, mem o (r_ranges st) -> o < r_highest st;
  i_final_buf : strict = true -> match r_final st with Some f => f <= r_start st + Zlen (r_buf st) | None => True end;
  i_finished : strict = true -> r_finished st = opt_eqb (r_final st) (r_start st);
  i_noreset : strict = true -> sp_reset sp = false
}.

Lemma inv_init : Inv true recv_init rspec_init.
Proof. constructor; cbn; try tauto; try reflexivity; try lia. Qed.

Lemma mem_first_ge lo l o : wf_from lo l -> mem o l -> lo < o.
Proof. apply mem_above. Qed.

Lemma empty_buf_no_ranges strict st sp : Inv strict st sp -> r_buf st = [] -> r_ranges st = [].
Proof.
  intros I E. destruct (r_ranges st) as [|[s e] t] eqn:R; [reflexivity|exfalso].
  pose proof (i_wf _ _ _ I) as W. pose proof (i_inbuf _ _ _ I s) as B. rewrite R in *. cbn in W, B.
  rewrite E, Zlen_nil in B. lia.
Qed.

(* trimmed data *)
Lemma nthZ_zdrop_data data k i : 0 <= k -> 0 <= i -> nthZ (zdrop k data) i = nthZ data (i + k).
Proof. intros; apply nthZ_zdrop; lia. Qed.

Definition same_obs (st : recv) (sp : rspec) : Prop :=
  r_highest st = sp_hi sp /\ r_finished st = spec_finished sp /\ r_start st = sp_del sp.

Lemma inv_obs st sp : Inv true st sp -> same_obs st sp.
Proof.
  intros I. unfold same_obs, spec_finished. rewrite (i_noreset _ _ _ I eq_refl), (i_finished _ _ _ I eq_refl), (i_final _ _ _ I), (i_start _ _ _ I), (i_high _ _ _ I).
  auto.
Qed.

(* same delivered bytes / same error, end marker ignored *)
Definition weak_eq (o o' : rout) : Prop := bytes_of o = bytes_of o' /\ is_fse o = is_fse o' /\ is_reset o = is_reset o'.
Lemma weak_eq_refl o : weak_eq o o. Proof. repeat split. Qed.

(* ------------------------------------------------------------------------------------ *)
Lemma frame_refines strict st sp off data fin :
  Inv strict st sp ->
  let '(o, st') := handle_frame st off data fin in
  let '(o', sp') := spec_frame sp off data fin in
  weak_eq o o' /\ (strict = true -> o = o') /\ Inv strict st' sp'.
Proof.
  intros I.
  pose proof (i_start _ _ _ I) as Hs. pose proof (i_final _ _ _ I) as Hf. pose proof (i_high _ _ _ I) as Hh.
  pose proof (i_final_buf _ _ _ I) as FB0. pose proof (i_finished _ _ _ I) as FI0. pose proof (i_noreset _ _ _ I) as NR.
  pose proof (Zlen_nonneg data) as Hdl. pose proof (Zlen_nonneg (r_buf st)) as Hbl.
  unfold handle_frame, spec_frame. rewrite <- Hf, <- Hs, <- Hh.
  set (e := off + Zlen data).
  destruct (match r_final st with Some f => (e >? f) || (fin && negb (e =? f)) | None => false end) eqn:Ebad.
  { split; [apply weak_eq_refl|split; [reflexivity|exact I]]. }
  set (final' := if fin then Some e else r_final st).
  set (hi' := if e >? r_highest st then e else r_highest st).
  set (m' := fun o => if (off <=? o) && (o <? e) && (r_start st <=? o) then Some (nthZ data (o - off)) else sp_map sp o).
  destruct ((off - r_start st =? 0) && negb (Zlen data =? 0) && match r_buf st with [] => true | _ => false end) eqn:Efast.
  - (* fast path *)
    assert (Hp : off = r_start st) by lia. assert (Hc : 0 < Zlen data) by lia.
    assert (Hb : r_buf st = []) by (destruct (r_buf st); [reflexivity|rewrite andb_false_r in Efast; discriminate]).
    pose proof (empty_buf_no_ranges _ _ _ I Hb) as Hr.
    assert (Hnone : forall o, r_start st <= o -> sp_map sp o = None).
    { intros o Ho. apply (i_none _ _ _ I o Ho). rewrite Hr. cbn. tauto. }
    assert (Hfin : strict = true -> r_final st = None \/ fin = true).
    { intros Hstrict. destruct (r_final st) as [f|] eqn:F; [|tauto]. pose proof (FB0 Hstrict) as FB. rewrite Hb, Zlen_nil in FB.
      destruct fin; [tauto|]. exfalso. unfold e in Ebad. lia. }
    assert (Hrun : run m' (r_start st) (Z.to_nat (hi' - r_start st)) = data).
    { apply run_exact.
      - intros i Hi. unfold m'. subst off. replace (r_start st + i - r_start st) with i by lia.
        assert (E1 : (r_start st <=? r_start st + i) && (r_start st + i <? e) && (r_start st <=? r_start st + i) = true) by (unfold e; lia).
        rewrite E1. reflexivity.
      - unfold m'. assert (E1 : (off <=? r_start st + Zlen data) && (r_start st + Zlen data <? e) && (r_start st <=? r_start st + Zlen data) = false) by (unfold e; lia).
        rewrite E1. apply Hnone. lia.
      - unfold hi', e, Zlen in *. destruct (off + Z.of_nat (length data) >? r_highest st) eqn:E2; lia. }
    rewrite Hrun.
    assert (Hcomp : strict = true -> opt_eqb final' (r_start st + Zlen data) = fin).
    { intros Hstrict. unfold final'. destruct fin; cbn; [unfold e; lia|]. destruct (Hfin Hstrict) as [Hn|Hn]; [rewrite Hn; reflexivity|discriminate]. }
    split; [|split].
    + destruct data; [unfold Zlen in Hc; cbn in Hc; lia|]. repeat split.
    + intros Hstrict. rewrite (Hcomp Hstrict). destruct data; [unfold Zlen in Hc; cbn in Hc; lia|]. destruct fin; reflexivity.
    + constructor; cbn; rewrite ?Hr, ?Hb; cbn; try tauto; try lia; try reflexivity.
      * intros o Ho _. unfold m'. assert (E1 : (off <=? o) && (o <? e) && (r_start st <=? o) = false) by (unfold e; lia).
        rewrite E1. apply Hnone. lia.
      * intros Hstrict. unfold final'. destruct fin; [unfold e; lia|]. destruct (Hfin Hstrict) as [Hn|Hn]; [rewrite Hn; exact Logic.I|discriminate].
      * intros Hstrict. rewrite (Hcomp Hstrict). destruct fin; [reflexivity|]. destruct (Hfin Hstrict) as [Hn|Hn]; [|discriminate].
        rewrite (FI0 Hstrict), Hn. reflexivity.
  - (* slow path *)
    clear Efast.
    set (pos0 := off - r_start st).
    assert (Htrim : exists data1 off1 pos1,
      (if pos0 <? 0 then (zdrop (- pos0) data, off - pos0, 0) else (data, off, pos0)) = (data1, off1, pos1) /\
      off1 = Z.max off (r_start st) /\ pos1 = off1 - r_start st /\ 0 <= pos1 /\
      Zlen data1 = Z.max 0 (e - off1) /\
      (forall i, 0 <= i -> nthZ data1 i = nthZ data (i + (off1 - off)))).
    { destruct (pos0 <? 0) eqn:E1.
      - exists (zdrop (- pos0) data), (off - pos0), 0. unfold pos0 in *. rewrite Zlen_zdrop.
        repeat split; try lia; try (unfold e; lia).
        intros i Hi. rewrite nthZ_zdrop by lia. f_equal. lia.
      - exists data, off, pos0. unfold pos0 in *.
        repeat split; try lia; try (unfold e; lia).
        intros i Hi. f_equal. lia. }
    destruct Htrim as (data1 & off1 & pos1 & Htrim & Hoff1 & Hpos1 & Hpos1nn & Hd1len & Hd1nth).
    rewrite Htrim. clear Htrim. cbv beta iota.
    set (ranges1 := if e >? off1 then add off1 e (r_ranges st) else r_ranges st).
    set (buf1 := splice (r_buf st) pos1 data1).
    (* m' in terms of the trimmed frame *)
    assert (Hm' : forall o, m' o = if (off1 <=? o) && (o <? e) then Some (nthZ data1 (o - off1)) else sp_map sp o).
    { intros o. unfold m'. destruct ((off1 <=? o) && (o <? e)) eqn:E1.
      - assert (E2 : (off <=? o) && (o <? e) && (r_start st <=? o) = true) by lia. rewrite E2. rewrite Hd1nth by lia. do 2 f_equal. lia.
      - assert (E2 : (off <=? o) && (o <? e) && (r_start st <=? o) = false) by lia. rewrite E2. reflexivity. }
    pose proof (i_wf _ _ _ I) as W.
    assert (W1 : wf_from (r_start st - 1) ranges1 /\ forall x, mem x ranges1 <-> ((off1 <= x < e) \/ mem x (r_ranges st))).
    { unfold ranges1. destruct (e >? off1) eqn:E1.
      - apply add_spec; try lia. eapply wf_from_weaken; [exact W|lia].
      - split; [eapply wf_from_weaken; [exact W|lia]|]. intros x. split; [tauto|]. intros [Hx|Hx]; [lia|exact Hx]. }
    destruct W1 as (W1 & M1).
    assert (Hlen1 : Zlen buf1 = Z.max (Zlen (r_buf st)) (pos1 + Zlen data1)) by (apply Zlen_splice; exact Hpos1nn).
    assert (Hinbuf1 : forall o, mem o ranges1 -> o < r_start st + Zlen buf1).
    { intros o Ho. apply M1 in Ho. destruct Ho as [Ho|Ho]; [lia|]. pose proof (i_inbuf _ _ _ I o Ho). lia. }
    assert (Hval1 : forall o, mem o ranges1 -> m' o = Some (nthZ buf1 (o - r_start st))).
    { intros o Ho. rewrite Hm'. apply M1 in Ho. destruct ((off1 <=? o) && (o <? e)) eqn:E1.
      - f_equal. unfold buf1. rewrite nthZ_splice_mid by lia. f_equal. lia.
      - destruct Ho as [Ho|Ho]; [lia|]. rewrite (i_val _ _ _ I o Ho). f_equal. unfold buf1.
        pose proof (i_inbuf _ _ _ I o Ho). pose proof (mem_above _ _ _ W Ho).
        destruct (Z_lt_dec o off1).
        + rewrite nthZ_splice_before by lia. reflexivity.
        + rewrite nthZ_splice_after by lia. reflexivity. }
    assert (Hnone1 : forall o, r_start st <= o -> ~ mem o ranges1 -> m' o = None).
    { intros o Ho Hn. rewrite Hm'. destruct ((off1 <=? o) && (o <? e)) eqn:E1.
      - exfalso. apply Hn, M1. left. lia.
      - apply (i_none _ _ _ I o Ho). intros Hm. apply Hn, M1. tauto. }
    assert (Hhi1 : forall o, mem o ranges1 -> o < hi').
    { intros o Ho. apply M1 in Ho. unfold hi'. destruct Ho as [Ho|Ho]; [|pose proof (i_below_hi _ _ _ I o Ho)]; destruct (e >? r_highest st) eqn:E2; lia. }
    assert (Hfb1 : strict = true -> match final' with Some f => f <= r_start st + Zlen buf1 | None => True end).
    { intros Hstrict. unfold final'. destruct fin.
      - (* e <= start + len buf1 *) unfold buf1 in *. rewrite Hlen1. 
        assert (Zlen (splice (r_buf st) pos1 data1) >= pos1) by lia. lia.
      - pose proof (FB0 Hstrict) as FB. destruct (r_final st); [lia|exact Logic.I]. }
    (* was the stream already complete? then nothing new can be buffered at the front *)
    assert (Hold : strict = true -> r_finished st = true -> opt_eqb final' (r_start st) = true /\ ranges1 = r_ranges st).
    { intros Hstrict Hfi. rewrite (FI0 Hstrict) in Hfi. destruct (r_final st) as [f|] eqn:F; [|discriminate]. cbn in Hfi.
      assert (f = r_start st) by lia. subst f.
      assert (e <= r_start st) by (unfold e in *; lia).
      split.
      - unfold final'. destruct fin; cbn; [|lia]. unfold e in *. lia.
      - unfold ranges1. assert (E1 : e >? off1 = false) by lia. rewrite E1. reflexivity. }
    unfold pull_data. cbn [r_ranges r_start r_buf r_highest r_finished r_final].
    fold ranges1 buf1.
    destruct ranges1 as [|[s e1] rest] eqn:R1.
    + (* nothing buffered *)
      cbn [r_final r_start r_highest r_finished r_buf r_ranges].
      rewrite (run_none m') by (apply Hnone1; [lia|cbn; tauto]).
      rewrite Zlen_nil, Z.add_0_r.
      assert (Hfl : strict = true -> (if opt_eqb final' (r_start st) then true else r_finished st) = opt_eqb final' (r_start st)).
      { intros Hstrict. destruct (opt_eqb final' (r_start st)) eqn:E1; [reflexivity|]. destruct (r_finished st) eqn:Fi; [|reflexivity].
        destruct (Hold Hstrict eq_refl) as (H1 & _). congruence. }
      destruct (opt_eqb final' (r_start st)) eqn:Eend; cbv beta iota; (split; [apply weak_eq_refl|split; [intros _; reflexivity|]]);
      (constructor; cbn [r_final r_start r_highest r_finished r_buf r_ranges sp_map sp_del sp_final sp_hi sp_reset];
       [ reflexivity | reflexivity | reflexivity | exact Logic.I | intros o Ho; destruct Ho | intros o Ho; destruct Ho
       | intros o Ho _; apply Hnone1; [exact Ho|cbn; tauto] | intros o Ho; destruct Ho | exact Hfb1
       | intros Hstrict; specialize (Hfl Hstrict); rewrite ?Eend in *; first [reflexivity | exact Hfl] | exact NR ]).
    + destruct (s =? r_start st) eqn:Es.
      * (* deliver the first range *)
        assert (s = r_start st) by lia. subst s. clear Es.
        cbn in W1. destruct W1 as (_ & Hse & Wrest).
        pose proof (Hinbuf1 (e1 - 1)) as Hin. cbn in Hin. specialize (Hin ltac:(left; lia)).
        set (n := e1 - r_start st).
        assert (Hn : 0 < n <= Zlen buf1) by (unfold n; lia).
        cbn [r_final r_start r_highest r_finished r_buf r_ranges].
        assert (Hrun : run m' (r_start st) (Z.to_nat (hi' - r_start st)) = ztake n buf1).
        { apply run_exact.
          - intros i Hi. rewrite Zlen_ztake in Hi. rewrite Hval1 by (cbn; left; lia). rewrite nthZ_ztake by lia. do 2 f_equal. lia.
          - rewrite Zlen_ztake. replace (r_start st + Z.max 0 (Z.min n (Zlen buf1))) with e1 by (unfold n; lia).
            apply Hnone1; [lia|]. cbn. intros [Hx|Hx]; [lia|]. pose proof (mem_above _ _ _ Wrest Hx). lia.
          - pose proof (Hhi1 (e1 - 1)) as Hh1. cbn in Hh1. specialize (Hh1 ltac:(left; lia)).
            assert (Z.of_nat (length (ztake n buf1)) = n) by (change (Zlen (ztake n buf1) = n); rewrite Zlen_ztake; lia). lia. }
        rewrite Hrun. assert (Hlt : Zlen (ztake n buf1) = n) by (rewrite Zlen_ztake; lia). rewrite Hlt.
        replace (r_start st + n) with e1 by (unfold n; lia).
        assert (Hfl : strict = true -> (if opt_eqb final' e1 then true else r_finished st) = opt_eqb final' e1).
        { intros Hstrict. destruct (opt_eqb final' e1) eqn:E1; [reflexivity|]. destruct (r_finished st) eqn:Fi; [|reflexivity].
          destruct (Hold Hstrict eq_refl) as (_ & H2). exfalso. rewrite <- H2 in W. cbn in W. lia. }
        destruct (ztake n buf1) as [|b0 out] eqn:Eout; destruct (opt_eqb final' e1) eqn:Eend; cbv beta iota; (split; [apply weak_eq_refl|split; [intros _; reflexivity|]]);
        (constructor; cbn [r_final r_start r_highest r_finished r_buf r_ranges sp_map sp_del sp_final sp_hi sp_reset];
         [ reflexivity | reflexivity | reflexivity | exact Wrest
         | intros o Ho; specialize (Hinbuf1 o); cbn in Hinbuf1; specialize (Hinbuf1 (or_intror Ho)); rewrite Zlen_zdrop; lia
         | intros o Ho; rewrite Hval1 by (cbn; right; exact Ho); f_equal; pose proof (mem_above _ _ _ Wrest Ho);
           rewrite nthZ_zdrop by lia; f_equal; unfold n; lia
         | intros o Ho Hnm; apply Hnone1; [lia|]; cbn; intros [Hx|Hx]; [lia|tauto]
         | intros o Ho; apply Hhi1; cbn; right; exact Ho
         | intros Hstrict; specialize (Hfb1 Hstrict); rewrite Zlen_zdrop; destruct final'; [lia|exact Logic.I]
         | intros Hstrict; specialize (Hfl Hstrict); rewrite ?Eend in *; first [reflexivity | exact Hfl]
         | exact NR ]).
      * (* first buffered range does not start at the delivered prefix *)
        cbn in W1. destruct W1 as (Hlo & Hse & Wrest). assert (Hgt : r_start st < s) by lia.
        cbn [r_final r_start r_highest r_finished r_buf r_ranges].
        assert (Hnm : ~ mem (r_start st) ((s, e1) :: rest)).
        { cbn. intros [Hx|Hx]; [lia|]. pose proof (mem_above _ _ _ Wrest Hx). lia. }
        rewrite (run_none m') by (apply Hnone1; [lia|exact Hnm]).
        rewrite Zlen_nil, Z.add_0_r.
        assert (Hfl : strict = true -> (if opt_eqb final' (r_start st) then true else r_finished st) = opt_eqb final' (r_start st)).
        { intros Hstrict. destruct (opt_eqb final' (r_start st)) eqn:E1; [reflexivity|]. destruct (r_finished st) eqn:Fi; [|reflexivity].
          destruct (Hold Hstrict eq_refl) as (H1 & _). congruence. }
        destruct (opt_eqb final' (r_start st)) eqn:Eend; cbv beta iota; (split; [apply weak_eq_refl|split; [intros _; reflexivity|]]);
        (constructor; cbn [r_final r_start r_highest r_finished r_buf r_ranges sp_map sp_del sp_final sp_hi sp_reset];
         [ reflexivity | reflexivity | reflexivity | cbn; tauto | exact Hinbuf1 | exact Hval1 | exact Hnone1 | exact Hhi1 | exact Hfb1
         | intros Hstrict; specialize (Hfl Hstrict); rewrite ?Eend in *; first [reflexivity | exact Hfl] | exact NR ]).
Qed.

Lemma frame_refines_strict st sp off data fin :
  Inv true st sp ->
  let '(o, st') := handle_frame st off data fin in
  let '(o', sp') := spec_frame sp off data fin in
  o = o' /\ Inv true st' sp'.
Proof.
  intros I. pose proof (frame_refines true st sp off data fin I) as H.
  destruct (handle_frame st off data fin) as [o st']. destruct (spec_frame sp off data fin) as [o' sp'].
  destruct H as (_ & Ho & I'). split; [exact (Ho eq_refl)|exact I'].
Qed.

Lemma inv_weaken strict st sp : Inv strict st sp -> Inv false st sp.
Proof.
  intros I. constructor; try discriminate.
  - exact (i_start _ _ _ I). - exact (i_final _ _ _ I). - exact (i_high _ _ _ I). - exact (i_wf _ _ _ I).
  - exact (i_inbuf _ _ _ I). - exact (i_val _ _ _ I). - exact (i_none _ _ _ I). - exact (i_below_hi _ _ _ I).
Qed.

Lemma reset_refines st sp fs :
  Inv true st sp ->
  let '(o, st') := handle_reset st fs in
  let '(o', sp') := spec_reset sp fs in
  o = o' /\ same_obs st' sp' /\ (is_reset o = false -> Inv true st' sp').
Proof.
  intros I. unfold handle_reset, spec_reset. rewrite <- (i_final _ _ _ I).
  pose proof (inv_obs _ _ I) as (O1 & O2 & O3).
  destruct (r_final st) as [f|] eqn:F.
  - destruct (negb (f =? fs)) eqn:E.
    + split; [reflexivity|]. split; [repeat split; assumption|]. intros _. exact I.
    + split; [reflexivity|]. split; [|discriminate]. unfold same_obs, spec_finished. cbn. repeat split; assumption.
  - split; [reflexivity|]. split; [|discriminate]. unfold same_obs, spec_finished. cbn. repeat split; assumption.
Qed.

Lemma reset_refines_weak strict st sp fs :
  Inv strict st sp ->
  let '(o, st') := handle_reset st fs in
  let '(o', sp') := spec_reset sp fs in
  o = o' /\ Inv false st' sp'.
Proof.
  intros I. apply inv_weaken in I. unfold handle_reset, spec_reset. rewrite <- (i_final _ _ _ I).
  assert (I' : Inv false (mkRecv (r_highest st) true (r_buf st) (r_start st) (Some fs) (r_ranges st))
                         (mkRSpec (sp_map sp) (sp_del sp) (Some fs) (sp_hi sp) true)).
  { constructor; cbn; try discriminate.
    - exact (i_start _ _ _ I). - reflexivity. - exact (i_high _ _ _ I). - exact (i_wf _ _ _ I).
    - exact (i_inbuf _ _ _ I). - exact (i_val _ _ _ I). - exact (i_none _ _ _ I). - exact (i_below_hi _ _ _ I). }
  destruct (r_final st) as [f|] eqn:F.
  - destruct (negb (f =? fs)) eqn:E; split; try reflexivity; assumption.
  - split; [reflexivity|assumption].
Qed.

Lemma recv_refines_from : forall ops st sp, Inv true st sp -> recv_trace st ops = spec_trace sp ops.
Proof.
  induction ops as [|op ops IH]; intros st sp I; [reflexivity|].
  cbn [recv_trace spec_trace]. destruct op as [off data fin|fs]; cbn [recv_step spec_step].
  - pose proof (frame_refines true st sp off data fin I) as H.
    destruct (handle_frame st off data fin) as [o st']. destruct (spec_frame sp off data fin) as [o' sp'].
    destruct H as (_ & Ho & I'). specialize (Ho eq_refl). subst o'. pose proof (inv_obs _ _ I') as (O1 & O2 & O3).
    rewrite O1, O2, O3. f_equal. destruct (is_reset o); [reflexivity|]. apply IH, I'.
  - pose proof (reset_refines st sp fs I) as H.
    destruct (handle_reset st fs) as [o st']. destruct (spec_reset sp fs) as [o' sp'].
    destruct H as (Ho & (O1 & O2 & O3) & I'). subst o'. rewrite O1, O2, O3. f_equal.
    destruct (is_reset o) eqn:R; [reflexivity|]. apply IH, I'. reflexivity.
Qed.

(* C10, receive half: for every sequence of frames and resets, the events (bytes, end marker,
   FinalSizeError) and the public observables of the receiver equal those of the offset->byte map,
   up to and including the first accepted reset. *)
Lemma recv_refines : forall ops, recv_trace recv_init ops = spec_trace rspec_init ops.
Proof. intros ops. apply recv_refines_from, inv_init. Qed.

(* ... and over the WHOLE history, resets included, the delivered bytes, the FinalSizeError
   verdicts, highest_offset and starting_offset agree (only the end marker / is_finished are
   unspecified once a reset has been accepted). *)
Lemma recv_refines_bytes_from : forall ops strict st sp, Inv strict st sp -> recv_wtrace st ops = spec_wtrace sp ops.
Proof.
  induction ops as [|op ops IH]; intros strict st sp I; [reflexivity|].
  cbn [recv_wtrace spec_wtrace]. destruct op as [off data fin|fs]; cbn [recv_step spec_step].
  - pose proof (frame_refines strict st sp off data fin I) as H.
    destruct (handle_frame st off data fin) as [o st']. destruct (spec_frame sp off data fin) as [o' sp'].
    destruct H as ((W1 & W2 & W3) & _ & I'). unfold wobs. rewrite W1, W2, W3, (i_high _ _ _ I'), (i_start _ _ _ I').
    f_equal. exact (IH _ _ _ I').
  - pose proof (reset_refines_weak strict st sp fs I) as H.
    destruct (handle_reset st fs) as [o st']. destruct (spec_reset sp fs) as [o' sp'].
    destruct H as (Ho & I'). subst o'. unfold wobs. rewrite (i_high _ _ _ I'), (i_start _ _ _ I').
    f_equal. exact (IH _ _ _ I').
Qed.

Lemma recv_refines_bytes : forall ops, recv_wtrace recv_init ops = spec_wtrace rspec_init ops.
Proof. intros ops. exact (recv_refines_bytes_from ops true _ _ inv_init). Qed.

(* non-vacuity / sanity: a history with overlap, out-of-order data, a duplicate and a FIN *)
Example recv_example :
  map fst (recv_trace recv_init
    [OFrame 2 [12; 13] false; OFrame 0 [10; 11; 99] false; OFrame 3 [13; 14] true; OFrame 3 [13; 14] true]) =
  [RNone; RData [10; 11; 99; 13] false; RData [14] true; RData [] true].
Proof. vm_compute. reflexivity. Qed.
