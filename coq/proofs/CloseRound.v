(* C16: the closing round in general -- any sequence of INITIAL / HANDSHAKE / 1-RTT packets (handshake not confirmed yet:
   datagrams_to_send writes a CONNECTION_CLOSE into every packet number space whose send keys are valid), any Retry token,
   client or server: no exception escapes, every datagram fits, and the 1-RTT packet is always written. *)
From AQ Require Import lib.Base lib.Tok gen.C13Consts gen.C16Close model.Builder model.CloseFrame proofs.BuilderProofs
  proofs.CloseEmit.
From Coq Require Import ZifyBool.

Definition close_ptype (t : Z) : Prop := t = PT_INITIAL \/ t = PT_HANDSHAKE \/ t = PT_ONE_RTT.

Section Round.
Variable c : cfg.
Hypothesis Hok : close_cfg_ok c.

(* between two packets of the round: capacities are the datagram size, the write position is inside the datagram, the
   open packet (if any) is empty, or holds at least two payload bytes and leaves room for the AEAD tag *)
Definition K (s : st) : Prop :=
  b_bcap s = c_mds c /\ b_fcap s = c_mds c /\ 0 <= b_tell s <= c_mds c /\
  match b_cur s with
  | None => True
  | Some p => 0 <= p_start p /\ 0 <= p_hdr p /\ b_hascrypto s = true /\
      ((b_tell s = p_start p + p_hdr p /\ b_tell s < c_mds c) \/
       (p_start p + p_hdr p + 2 <= b_tell s /\ b_tell s + AEAD_TAG_SIZE <= c_mds c))
  end.

Lemma K_init : forall pn, K (init_st c pn).
Proof.
  destruct Hok as (Hm & _). intros pn. unfold K, init_st. cbn. repeat split; lia.
Qed.

Ltac split_ifs E :=
  repeat match type of E with
  | context[let '(_, _) := (if ?b then _ else _) in _] => destruct b eqn:?
  end;
  repeat match type of E with
  | context[if ?b then _ else _] => destruct b eqn:?
  end.

Lemma K_end_packet : forall s p o s', K s -> b_cur s = Some p ->
  end_packet c s p = (o, s') -> o = ODone /\ K s' /\ b_cur s' = None /\
  (p_type p = PT_ONE_RTT -> p_start p + p_hdr p < b_tell s -> b_dgrams s' <> []).
Proof.
  destruct Hok as (Hm & Hp & Hh & Ht & Hf & Htot & Hc).
  intros s p o s' (K1 & K2 & K3 & K4) Hcur E. rewrite Hcur in K4. destruct K4 as (P1 & P2 & P3 & P4).
  unfold end_packet in E. unfold remaining_flight_space in E. rewrite K2 in E.
  unfold AEAD_TAG_SIZE, PACKET_NUMBER_MAX_SIZE, PACKET_NUMBER_SEND_SIZE in *.
  assert (Hcm : forall x, x <= c_mds c -> match c_cmax c with Some m => x >? m | None => false end = false).
  { intros x Hx. unfold crypto_fits in Hc. destruct (c_cmax c); [lia|reflexivity]. }
  destruct (b_tell s - p_start p >? p_hdr p) eqn:E0.
  2:{ inversion E; subst. unfold K, set_cur, set_tell; cbn. repeat split; auto; try lia; intros; try (unfold PT_ONE_RTT in *; lia); try (destruct (b_dgrams s); discriminate). }
  destruct P4 as [(Q1 & Q2) | (Q1 & Q2)]; [lia|].
  set (is_init := (c_client c || p_ackel p) && (p_type p =? PT_INITIAL)) in *.
  destruct ((b_dgpad s || is_init) && (p_type p =? PT_ONE_RTT)) eqn:E1.
  - (* a 1-RTT packet in a datagram that needs padding: padded up to the flight capacity *)
    cbv beta iota zeta in E.
    set (pad := if c_mds c - b_tell s - 16 >? 4 - 2 + p_hdr p - (b_tell s - p_start p)
                then c_mds c - b_tell s - 16 else 4 - 2 + p_hdr p - (b_tell s - p_start p)) in *.
    assert (Hpad : 0 <= pad /\ b_tell s + pad + 16 <= c_mds c) by (unfold pad; destruct (c_mds c - b_tell s - 16 >? 4 - 2 + p_hdr p - (b_tell s - p_start p)) eqn:G; lia).
    replace ((pad >? 0) && (b_tell s + pad >? c_mds c)) with false in E by lia.
    assert (T5 : (p_type p =? PT_ONE_RTT) = true) by (apply andb_true_iff in E1; tauto).
    destruct (pad >? 0) eqn:Gp.
    + rewrite Hcm in E by lia.
      replace (p_start p + (b_tell s - p_start p + pad + 16) >? c_mds c) with false in E by lia.
      rewrite T5 in E. unfold flush_current, set_dgpad in E. cbn in E.
      replace (p_start p + (b_tell s - p_start p + pad + 16) =? 0) with false in E by lia.
      cbn in E.
      replace (p_start p + (b_tell s - p_start p + pad + 16) + 0 >? c_mds c) with false in E by lia.
      inversion E; subst. unfold K; cbn. repeat split; auto; try lia; intros; try (unfold PT_ONE_RTT in *; lia); try (destruct (b_dgrams s); discriminate).
    + rewrite Hcm in E by lia.
      replace (p_start p + (b_tell s - p_start p + 16) >? c_mds c) with false in E by lia.
      rewrite T5 in E. unfold flush_current, set_dgpad in E. cbn in E.
      replace (p_start p + (b_tell s - p_start p + 16) =? 0) with false in E by lia.
      cbn in E.
      replace (p_start p + (b_tell s - p_start p + 16) + 0 >? c_mds c) with false in E by lia.
      inversion E; subst. unfold K; cbn. repeat split; auto; try lia; intros; try (unfold PT_ONE_RTT in *; lia); try (destruct (b_dgrams s); discriminate).
  - cbv beta iota zeta in E.
    replace ((4 - 2 + p_hdr p - (b_tell s - p_start p) >? 0) && (b_tell s + (4 - 2 + p_hdr p - (b_tell s - p_start p)) >? c_mds c))
      with false in E by lia.
    replace (4 - 2 + p_hdr p - (b_tell s - p_start p) >? 0) with false in E by lia.
    rewrite Hcm in E by lia.
    replace (p_start p + (b_tell s - p_start p + 16) >? c_mds c) with false in E by lia.
    destruct (p_type p =? PT_ONE_RTT) eqn:T5.
    + assert (Hpadoff : (b_dgpad s || is_init) = false) by (rewrite andb_true_r in E1; assumption).
      unfold flush_current, set_dgpad in E. cbn in E. rewrite Hpadoff in E.
      replace (p_start p + (b_tell s - p_start p + 16) =? 0) with false in E by lia.
      cbn in E.
      replace (p_start p + (b_tell s - p_start p + 16) + 0 >? c_mds c) with false in E by lia.
      inversion E; subst. unfold K; cbn. repeat split; auto; try lia; intros; try (unfold PT_ONE_RTT in *; lia); try (destruct (b_dgrams s); discriminate).
    + inversion E; subst. unfold K, set_dgpad; cbn. repeat split; auto; try lia; intros; try (unfold PT_ONE_RTT in *; lia); try (destruct (b_dgrams s); discriminate).
Qed.

Lemma K_end_current : forall s o s', K s -> end_current c s = (o, s') -> o = ODone /\ K s' /\ b_cur s' = None.
Proof.
  intros s o s' HK E. unfold end_current in E. destruct (b_cur s) as [p|] eqn:Hc.
  - destruct (K_end_packet s p o s' HK Hc E) as (A & B & C & _). split; [exact A|]. split; [exact B|exact C].
  - inversion E; subst. split; [reflexivity|]. split; assumption.
Qed.

Lemma K_flush_current : forall s o s', K s -> b_cur s = None -> flush_current c s = (o, s') ->
  o = ODone /\ K s' /\ b_cur s' = None /\ b_tell s' = 0.
Proof.
  intros s o s' (K1 & K2 & K3 & K4) Hc E. unfold flush_current in E.
  destruct (b_tell s =? 0) eqn:E0; [inversion E; subst; unfold K; rewrite Hc; repeat split; auto; lia|].
  rewrite K2 in E.
  set (extra := if (if b_dgpad s then c_mds c - b_tell s else 0) >? 0 then (if b_dgpad s then c_mds c - b_tell s else 0) else 0) in *.
  assert (He : 0 <= extra /\ b_tell s + extra <= c_mds c) by (unfold extra; destruct (b_dgpad s); [destruct (c_mds c - b_tell s >? 0) eqn:G | cbn]; lia).
  replace (b_tell s + extra >? c_mds c) with false in E by lia.
  inversion E; subst. unfold K; cbn. rewrite Hc. repeat split; auto; lia.
Qed.

(* start_packet: either the packet is open and empty, or its header does not fit (QuicPacketBuilderStop) and no packet is open *)
Lemma K_start_packet : forall s t o s', K s -> close_ptype t -> start_packet c s t = (o, s') ->
  K s' /\
  ((o = ODone /\ exists p, b_cur s' = Some p /\ p_type p = t /\ b_tell s' = p_start p + p_hdr p /\ (t = PT_ONE_RTT -> b_tell s' + 41 <= c_mds c)) \/
   (o = OStop /\ b_cur s' = None /\ t <> PT_ONE_RTT)).
Proof.
  destruct Hok as (Hm & Hp & Hh & Ht & Hf & Htot & Hc).
  intros s t o s' HK Ht' E. unfold start_packet in E.
  assert (Hv : valid_ptype t = true) by (destruct Ht' as [-> | [-> | ->]]; reflexivity).
  rewrite Hv in E. cbn [negb] in E.
  destruct (end_current c s) as [o1 s1] eqn:E1.
  destruct (K_end_current _ _ _ HK E1) as (-> & K1 & C1).
  assert (Tail : forall s2, K s2 -> b_cur s2 = None -> (b_tell s2 = 0 \/ c_mds c - b_tell s2 >= DATAGRAM_MIN_SPACE) ->
            (let packet_start := b_tell s2 in
             let s3 := datagram_init c s2 in
             let h := header_size c t in
             if packet_start + h >=? b_bcap s3 then (OStop, s3) else
             (ODone, mkSt (packet_start + h) (b_bcap s3) (b_fcap s3) (b_dgflight s3) (b_dginit s3) (b_dgpad s3) (b_flight s3)
                          (b_total s3) (Some (mkPkt t packet_start h false false false (b_pn s3))) true (b_pn s3)
                          (b_dgrams s3) (b_pkts s3) (g_hasinit s3) (g_log s3))) = (o, s') ->
            K s' /\
            ((o = ODone /\ exists p, b_cur s' = Some p /\ p_type p = t /\ b_tell s' = p_start p + p_hdr p /\ (t = PT_ONE_RTT -> b_tell s' + 41 <= c_mds c)) \/
             (o = OStop /\ b_cur s' = None /\ t <> PT_ONE_RTT))).
  { intros s2 (A1 & A2 & A3 & A4) C2 Sp E2. cbv zeta in E2.
    assert (Hh0 : 0 <= header_size c t) by (apply header_size_nonneg; unfold wf_cfg; lia).
    assert (DI : b_bcap (datagram_init c s2) = c_mds c /\ b_fcap (datagram_init c s2) = c_mds c /\
                 b_tell (datagram_init c s2) = b_tell s2 /\ b_cur (datagram_init c s2) = None).
    { unfold datagram_init. rewrite Hf, Htot. destruct (b_dginit s2); cbn; repeat split; auto. }
    destruct DI as (D1 & D2 & D3 & D4). rewrite D1 in E2.
    destruct (b_tell s2 + header_size c t >=? c_mds c) eqn:G.
    - inversion E2; subst. split; [unfold K; rewrite D1, D2, D3, D4; repeat split; auto; lia|].
      right. repeat split; auto. intros ->. unfold header_size, PT_ONE_RTT, SHORT_HEADER_FIXED, DATAGRAM_MIN_SPACE in *.
      cbn [negb Z.eqb Pos.eqb] in G. lia.
    - inversion E2; subst. split.
      + unfold K; cbn [b_bcap b_fcap b_tell b_cur b_hascrypto p_start p_hdr]. rewrite ?D1, ?D2. repeat split; auto; try lia; try (left; split; lia).
      + left. split; [reflexivity|]. eexists. cbn [b_cur b_tell b_pkts p_type p_start p_hdr]. repeat split; try reflexivity.
        intros ->. unfold header_size, PT_ONE_RTT, SHORT_HEADER_FIXED, DATAGRAM_MIN_SPACE in *.
        cbn [negb Z.eqb Pos.eqb] in *. lia. }
  destruct (b_bcap s1 - b_tell s1 <? DATAGRAM_MIN_SPACE) eqn:G.
  - destruct (flush_current c s1) as [o2 s2] eqn:F.
    destruct (K_flush_current _ _ _ K1 C1 F) as (-> & K2 & C2 & T2).
    apply (Tail s2 K2 C2); [|exact E].
    left. assumption.
  - apply (Tail s1 K1 C1); [|exact E]. right. destruct K1 as (B1 & _). unfold DATAGRAM_MIN_SPACE in *. lia.
Qed.


Lemma push_ok : forall s n, 0 <= n -> b_tell s + n <= c_mds c -> push c s n = (ODone, set_tell s (b_tell s + n)).
Proof.
  intros s n H0 H1. unfold push. replace (n <? 0) with false by lia. replace (b_tell s + n >? c_mds c) with false by lia. reflexivity.
Qed.

Lemma push_var_ok : forall s v, 0 <= v < 4611686018427387904 -> b_tell s + 8 <= c_mds c ->
  exists n, 1 <= n <= 8 /\ push_var c s v = (ODone, set_tell s (b_tell s + n)).
Proof.
  intros s v Hv HT. destruct (size_uint_var_some v Hv) as (n & E & Hn). exists n. split; [assumption|].
  unfold push_var. rewrite E. apply push_ok; lia.
Qed.

(* start_frame for a CONNECTION_CLOSE frame in an empty open packet *)
Lemma start_frame_close : forall s p ft cap, K s -> b_cur s = Some p -> b_tell s = p_start p + p_hdr p ->
  (ft = FT_APPLICATION_CLOSE \/ ft = FT_TRANSPORT_CLOSE) -> 2 <= cap ->
  start_frame c s ft cap =
  if c_mds c - b_tell s - AEAD_TAG_SIZE <? cap then (OStop, s)
  else (ODone, set_cur (set_tell s (b_tell s + 1))
                 (Some (mkPkt (p_type p) (p_start p) (p_hdr p) (p_inflight p || false) (p_ackel p || false)
                              (p_crypto p || false) (p_pn p)))).
Proof.
  intros s p ft cap (K1 & K2 & K3 & K4) Hc He Hft Hcap. rewrite Hc in K4. destruct K4 as (P1 & P2 & P3 & P4).
  unfold start_frame, remaining_buffer_space, remaining_flight_space. rewrite Hc, K1, K2, P3.
  unfold START_FRAME_EMPTY_RESERVE, AEAD_TAG_SIZE in *.
  replace (b_tell s - p_start p <=? p_hdr p) with true by lia. replace (cap <? 2) with false by lia. cbn [negb].
  destruct Hft as [-> | ->].
  - change (zmem FT_APPLICATION_CLOSE NON_IN_FLIGHT) with true. change (zmem FT_APPLICATION_CLOSE NON_ACK_ELICITING) with true.
    change (size_uint_var (FT_APPLICATION_CLOSE mod 18446744073709551616)) with (Some 1).
    change (FT_APPLICATION_CLOSE =? FT_CRYPTO) with false. cbn [negb andb orb]. rewrite orb_false_r.
    destruct (c_mds c - b_tell s - 16 <? cap) eqn:G; [reflexivity|].
    replace (b_tell s + 1 >? c_mds c) with false by lia. reflexivity.
  - change (zmem FT_TRANSPORT_CLOSE NON_IN_FLIGHT) with true. change (zmem FT_TRANSPORT_CLOSE NON_ACK_ELICITING) with true.
    change (size_uint_var (FT_TRANSPORT_CLOSE mod 18446744073709551616)) with (Some 1).
    change (FT_TRANSPORT_CLOSE =? FT_CRYPTO) with false. cbn [negb andb orb]. rewrite orb_false_r.
    destruct (c_mds c - b_tell s - 16 <? cap) eqn:G; [reflexivity|].
    replace (b_tell s + 1 >? c_mds c) with false by lia. reflexivity.
Qed.

(* the frame is written completely into the empty open packet, or refused by start_frame with nothing changed *)
Lemma K_write_close : forall s p t code ftype reason o s',
  K s -> b_cur s = Some p -> b_tell s = p_start p + p_hdr p ->
  0 <= code < 4611686018427387904 ->
  match ftype with Some ft => 0 <= ft < 4611686018427387904 | None => True end ->
  widths_ok reason ->
  write_close c s t code ftype reason = (o, s') ->
  K s' /\ ((o = OStop /\ s' = s /\ c_mds c - b_tell s - AEAD_TAG_SIZE < TRANSPORT_CLOSE_FRAME_CAPACITY) \/
           (o = ODone /\ b_pkts s' = b_pkts s /\
            exists p', b_cur s' = Some p' /\ p_type p' = p_type p /\ p_start p' + p_hdr p' + 2 <= b_tell s')).
Proof.
  destruct Hok as (Hm & Hp & Hh & Ht & Hf & Htot & Hc).
  intros s p t code ftype reason o s' HK Hcur Hemp Hcode Hft Hw E.
  pose proof HK as (K1 & K2 & K3 & K4). rewrite Hcur in K4. destruct K4 as (P1 & P2 & P3 & P4).
  unfold write_close in E. cbv zeta in E.
  set (conv := match ftype with Some _ => false | None => (t =? PT_INITIAL) || (t =? PT_HANDSHAKE) end) in *.
  set (code' := if conv then QUIC_APPLICATION_ERROR else code) in *.
  set (ftype' := if conv then Some FT_CLOSE_PADDING else ftype) in *.
  set (reason' := if conv then [] else reason) in *.
  assert (Hcode' : 0 <= code' < 4611686018427387904) by (unfold code', QUIC_APPLICATION_ERROR; destruct conv; lia).
  assert (Hft' : match ftype' with Some ft => 0 <= ft < 4611686018427387904 | None => True end)
    by (unfold ftype', FT_CLOSE_PADDING; destruct conv; [lia | assumption]).
  assert (Hw' : widths_ok reason') by (unfold reason'; destruct conv; [constructor | assumption]).
  unfold remaining_buffer_space in E. rewrite K1 in E.
  set (room := Z.max 0 (c_mds c - b_tell s - AEAD_TAG_SIZE - TRANSPORT_CLOSE_FRAME_CAPACITY)) in *.
  set (rl := if zsum reason' >? room then utf8_prefix reason' room else zsum reason') in *.
  assert (Hrl : 0 <= rl <= room).
  { unfold rl. pose proof (zsum_nonneg _ Hw'). pose proof (utf8_prefix_bound reason' room Hw').
    assert (0 <= room) by (unfold room; lia). destruct (zsum reason' >? room) eqn:G; lia. }
  unfold AEAD_TAG_SIZE, TRANSPORT_CLOSE_FRAME_CAPACITY, APPLICATION_CLOSE_FRAME_CAPACITY in *.
  clearbody code' reason' ftype'. clear conv.
  destruct ftype' as [ft|].
  - rewrite (start_frame_close s p FT_TRANSPORT_CLOSE (25 + rl) HK Hcur Hemp) in E by (auto; lia).
    unfold AEAD_TAG_SIZE in E.
    destruct (c_mds c - b_tell s - 16 <? 25 + rl) eqn:G.
    { cbn [seq] in E. inversion E; subst. split; [assumption|]. left. repeat split; try reflexivity. unfold room in Hrl. lia. }
    assert (Hroom : room = c_mds c - b_tell s - 16 - 25) by (unfold room; lia).
    cbn [seq] in E.
    set (s1 := set_cur (set_tell s (b_tell s + 1)) _) in E.
    assert (T1 : b_tell s1 = b_tell s + 1) by reflexivity.
    destruct (push_var_ok s1 code' Hcode') as (n1 & B1 & E1); [rewrite T1; lia|]. rewrite E1 in E. cbn [seq] in E.
    set (s2 := set_tell s1 (b_tell s1 + n1)) in E. assert (T2 : b_tell s2 = b_tell s + 1 + n1) by (subst s2; cbn; lia).
    destruct (push_var_ok s2 ft Hft') as (n3 & B3 & E3); [rewrite T2; lia|]. rewrite E3 in E. cbn [seq] in E.
    set (s3 := set_tell s2 (b_tell s2 + n3)) in E. assert (T3 : b_tell s3 = b_tell s + 1 + n1 + n3) by (subst s3; cbn; lia).
    destruct (push_var_ok s3 rl) as (n2 & B2 & E2); [lia | rewrite T3; lia|]. rewrite E2 in E. cbn [seq] in E.
    set (s4 := set_tell s3 (b_tell s3 + n2)) in E. assert (T4 : b_tell s4 = b_tell s + 1 + n1 + n3 + n2) by (subst s4; cbn; lia).
    rewrite push_ok in E by (rewrite ?T4; lia). inversion E; subst o s'. clear E E1 E2 E3.
    split.
    + unfold K, AEAD_TAG_SIZE. cbn. repeat split; auto; try lia; try (right; split; lia).
    + right. split; [reflexivity|]. split; [reflexivity|]. eexists.
      unfold set_tell, set_cur;
      cbn [b_cur b_bcap b_tell b_dginit b_total b_flight b_dgflight b_dgpad b_hascrypto b_pn b_dgrams b_pkts g_hasinit g_log b_fcap
           p_start p_hdr p_type].
      split; [reflexivity|]. split; [reflexivity|]. cbn [p_start p_hdr p_type]. rewrite ?T4, ?T1 in *. lia.
  - rewrite (start_frame_close s p FT_APPLICATION_CLOSE (17 + rl) HK Hcur Hemp) in E by (auto; lia).
    unfold AEAD_TAG_SIZE in E.
    destruct (c_mds c - b_tell s - 16 <? 17 + rl) eqn:G.
    { cbn [seq] in E. inversion E; subst. split; [assumption|]. left. repeat split; try reflexivity. unfold room in Hrl. lia. }
    assert (Hroom : rl <= c_mds c - b_tell s - 16 - 17) by lia.
    cbn [seq] in E.
    set (s1 := set_cur (set_tell s (b_tell s + 1)) _) in E.
    assert (T1 : b_tell s1 = b_tell s + 1) by reflexivity.
    destruct (push_var_ok s1 code' Hcode') as (n1 & B1 & E1); [rewrite T1; lia|]. rewrite E1 in E. cbn [seq] in E.
    set (s2 := set_tell s1 (b_tell s1 + n1)) in E. assert (T2 : b_tell s2 = b_tell s + 1 + n1) by (subst s2; cbn; lia).
    destruct (push_var_ok s2 rl) as (n2 & B2 & E2); [lia | rewrite T2; lia|]. rewrite E2 in E. cbn [seq] in E.
    set (s4 := set_tell s2 (b_tell s2 + n2)) in E. assert (T4 : b_tell s4 = b_tell s + 1 + n1 + n2) by (subst s4; cbn; lia).
    rewrite push_ok in E by (rewrite ?T4; lia). inversion E; subst o s'. clear E E1 E2.
    split.
    + unfold K, AEAD_TAG_SIZE. cbn. repeat split; auto; try lia; try (right; split; lia).
    + right. split; [reflexivity|]. split; [reflexivity|]. eexists.
      unfold set_tell, set_cur;
      cbn [b_cur b_bcap b_tell b_dginit b_total b_flight b_dgflight b_dgpad b_hascrypto b_pn b_dgrams b_pkts g_hasinit g_log b_fcap
           p_start p_hdr p_type].
      split; [reflexivity|]. split; [reflexivity|]. cbn [p_start p_hdr p_type]. rewrite ?T4, ?T1 in *. lia.
Qed.


Definition args_ok (code : Z) (ftype : option Z) (reason : list Z) : Prop :=
  0 <= code < 4611686018427387904 /\
  match ftype with Some ft => 0 <= ft < 4611686018427387904 | None => True end /\ widths_ok reason.

(* one packet of the round: never an exception; the 1-RTT packet always carries its frame *)
Lemma K_close_packet : forall s t code ftype reason o s', K s -> close_ptype t -> args_ok code ftype reason ->
  close_packet c s t code ftype reason = (o, s') ->
  o = ODone /\ K s' /\
  (t = PT_ONE_RTT -> exists p', b_cur s' = Some p' /\ p_type p' = PT_ONE_RTT /\ p_start p' + p_hdr p' < b_tell s').
Proof.
  intros s t code ftype reason o s' HK Ht (A1 & A2 & A3) E. unfold close_packet in E.
  destruct (start_packet c s t) as [o1 s1] eqn:E1.
  destruct (K_start_packet _ _ _ _ HK Ht E1) as (K1 & [(-> & p & C1 & T1 & M1 & R1) | (-> & C1 & N1)]).
  - cbn [seq] in E.
    destruct (write_close c s1 t code ftype reason) as [o2 s2] eqn:E2.
    destruct (K_write_close _ _ _ _ _ _ _ _ K1 C1 M1 A1 A2 A3 E2) as (K2 & [(-> & -> & Small) | (-> & _ & p' & C2 & T2 & N2)]).
    + inversion E; subst o s'. split; [reflexivity|]. split; [assumption|]. intros Ht5. exfalso. specialize (R1 Ht5).
      unfold AEAD_TAG_SIZE, TRANSPORT_CLOSE_FRAME_CAPACITY in Small. lia.
    + inversion E; subst o s'. split; [reflexivity|]. split; [assumption|]. intros Ht5. exists p'.
      split; [assumption|]. split; [congruence | lia].
  - cbn [seq] in E. inversion E; subst o s'. split; [reflexivity|]. split; [assumption|]. intros Ht5. congruence.
Qed.

Lemma K_close_packets : forall ptypes s code ftype reason o s', K s -> Forall close_ptype ptypes -> args_ok code ftype reason ->
  close_packets c s ptypes code ftype reason = (o, s') -> o = ODone /\ K s'.
Proof.
  induction ptypes as [|t rest IH]; intros s code ftype reason o s' HK Hall Ha E; cbn [close_packets] in E.
  - inversion E; subst. split; auto.
  - inversion Hall; subst.
    destruct (close_packet c s t code ftype reason) as [o1 s1] eqn:E1.
    destruct (K_close_packet _ _ _ _ _ _ _ HK H1 Ha E1) as (-> & K1 & _). cbn [seq] in E. eapply IH; eauto.
Qed.

(* J (C13): every datagram handed out is at most max_datagram_size *)
Lemma write_close_J : forall s t code ftype reason o s', J c s -> write_close c s t code ftype reason = (o, s') -> J c s'.
Proof.
  intros s t code ftype reason o s' HJ E. unfold write_close in E. cbv zeta in E.
  assert (PV : forall s v o s', J c s -> push_var c s v = (o, s') -> J c s').
  { intros s0 v o0 s0' H0 E0. unfold push_var in E0. destruct (size_uint_var v); [eapply push_J; eauto | inversion E0; subst; auto]. }
  repeat match type of E with
  | match ?ft with Some _ => _ | None => _ end = _ => destruct ft
  | seq (start_frame c ?a ?b ?d) _ = _ =>
      let o1 := fresh "o" in let s1 := fresh "s" in let F := fresh "F" in
      destruct (start_frame c a b d) as [o1 s1] eqn:F; apply (start_frame_J c) in F; [|assumption];
      destruct o1; cbn [seq] in E; try (inversion E; subst; assumption)
  | seq (push_var c ?a ?b) _ = _ =>
      let o1 := fresh "o" in let s1 := fresh "s" in let F := fresh "F" in
      destruct (push_var c a b) as [o1 s1] eqn:F; apply PV in F; [|assumption];
      destruct o1; cbn [seq] in E; try (inversion E; subst; assumption)
  end; eapply push_J; eauto.
Qed.

Lemma close_packets_J : forall ptypes s code ftype reason o s', J c s ->
  close_packets c s ptypes code ftype reason = (o, s') -> J c s'.
Proof.
  induction ptypes as [|t rest IH]; intros s code ftype reason o s' HJ E; cbn [close_packets] in E.
  - inversion E; subst; auto.
  - unfold close_packet in E.
    destruct (start_packet c s t) as [o1 s1] eqn:E1. pose proof (start_packet_J c _ _ _ _ HJ E1) as J1.
    destruct o1; cbn [seq] in E; try (inversion E; subst; assumption); try (eapply IH; eauto; fail).
    destruct (write_close c s1 t code ftype reason) as [o2 s2] eqn:E2. pose proof (write_close_J _ _ _ _ _ _ _ J1 E2) as J2.
    destruct o2; cbn [seq] in E; try (inversion E; subst; assumption); eapply IH; eauto.
Qed.

(* THE CLOSING ROUND IN GENERAL: INITIAL / HANDSHAKE packets (any of them, any order, any Retry token -- a packet whose
   header leaves no room is skipped) followed by the 1-RTT packet: the round returns normally, hands back at least one
   datagram, and no datagram exceeds max_datagram_size *)
Theorem close_round_general : forall pn pre code ftype reason,
  Forall (fun t => t = PT_INITIAL \/ t = PT_HANDSHAKE) pre -> args_ok code ftype reason ->
  exists d pk, close_round c pn (pre ++ [PT_ONE_RTT]) code ftype reason = (ODone, d, pk) /\
               d <> [] /\ Forall (fun n => n <= c_mds c) d.
Proof.
  intros pn pre code ftype reason Hpre Ha. unfold close_round.
  assert (Hall : Forall close_ptype pre) by (eapply Forall_impl; [|exact Hpre]; intros t [H|H]; unfold close_ptype; tauto).
  destruct (close_packets c (init_st c pn) (pre ++ [PT_ONE_RTT]) code ftype reason) as [o s] eqn:E.
  assert (JS : J c s) by (eapply close_packets_J; [apply init_J | exact E]).
  (* split the round: the prefix, then the 1-RTT packet *)
  assert (Split : forall l1 l2 s0 o0 s0', close_packets c s0 (l1 ++ l2) code ftype reason = (o0, s0') ->
            exists o1 s1, close_packets c s0 l1 code ftype reason = (o1, s1) /\
                          (o1 = ODone -> close_packets c s1 l2 code ftype reason = (o0, s0'))).
  { induction l1 as [|t l1 IH]; intros l2 s0 o0 s0' E0; cbn [app close_packets] in *.
    - exists ODone, s0. split; [reflexivity|]. intros _. exact E0.
    - destruct (close_packet c s0 t code ftype reason) as [o1 s1] eqn:E1. destruct o1; cbn [seq] in *;
        try (eexists _, _; split; [reflexivity|]; intros; discriminate).
      apply IH. exact E0. }
  destruct (Split pre [PT_ONE_RTT] _ _ _ E) as (o1 & s1 & E1 & E2).
  destruct (K_close_packets _ _ _ _ _ _ _ (K_init pn) Hall Ha E1) as (-> & K1). specialize (E2 eq_refl).
  cbn [close_packets] in E2.
  destruct (close_packet c s1 PT_ONE_RTT code ftype reason) as [o2 s2] eqn:E3.
  assert (H5 : close_ptype PT_ONE_RTT) by (unfold close_ptype; tauto).
  destruct (K_close_packet _ _ _ _ _ _ _ K1 H5 Ha E3) as (-> & K2 & P2). cbn [seq] in E2. inversion E2; subst o s.
  destruct (P2 eq_refl) as (p' & C2 & T2 & N2).
  (* flush: the 1-RTT packet is ended, its datagram is handed out *)
  unfold flush, end_current. rewrite C2.
  destruct (end_packet c s2 p') as [o3 s3] eqn:E4.
  destruct (K_end_packet _ _ _ _ K2 C2 E4) as (-> & K3 & C3 & D3). specialize (D3 T2 N2).
  destruct (flush_current c s3) as [o4 s4] eqn:E5.
  destruct (K_flush_current _ _ _ K3 C3 E5) as (-> & K4 & C4 & T4).
  assert (J3 : J c s3) by (eapply end_packet_J; eauto).
  assert (J4 : J c s4) by (eapply flush_current_J; eauto).
  assert (D4 : b_dgrams s4 <> []).
  { clear - E5 D3. unfold flush_current in E5. destruct (b_tell s3 =? 0); [inversion E5; subst; assumption|].
    match type of E5 with (if ?b then _ else _) = _ => destruct b end.
    - inversion E5; subst; assumption.
    - inversion E5; subst. cbn. destruct (b_dgrams s3); [congruence | discriminate]. }
  eexists _, _. split; [reflexivity|]. split; [assumption|]. apply J4.
Qed.

End Round.
