(* C05: the TLS message parsers of model/TlsParse.v raise only BufferReadError, AlertDecodeError or
   AlertIllegalParameter on ANY byte string whose first byte is the dispatched handshake type, and a parser
   that returns has consumed the framed message exactly (so `assert input_buf.eof()` cannot fire). *)
From AQ Require Import lib.Base model.Codec model.TlsCodec model.TlsParse gen.C05Tls.
From Coq Require Import ZifyBool.

Definition perr (k : Z) : Prop := k = E_READ \/ k = E_ALERT_DECODE \/ k = E_ALERT_ILLEGAL.
Definition pres {A} (r : Res A) : Prop := match r with Ok _ => True | Err k => perr k end.

Lemma pres_bind {A B} (r : Res A) (f : A -> Res B) :
  pres r -> (forall a, pres (f a)) -> pres (bind r f).
Proof. destruct r as [a|k]; cbn [bind pres]; auto. Qed.

Lemma pres_ok {A} (a : A) : pres (Ok a).
Proof. exact I. Qed.

Lemma perr_read : perr E_READ. Proof. left. reflexivity. Qed.
Lemma perr_decode : perr E_ALERT_DECODE. Proof. right. left. reflexivity. Qed.
Lemma perr_illegal : perr E_ALERT_ILLEGAL. Proof. right. right. reflexivity. Qed.
#[export] Hint Resolve pres_ok perr_read perr_decode perr_illegal : tlsp.

Lemma pres_pull_be n bs : pres (pull_be n bs).
Proof. unfold pull_be. destruct (Zlen bs <? Z.of_nat n); cbn [pres]; auto with tlsp. Qed.

Lemma pres_pull_bytes n bs : pres (Codec.pull_bytes n bs).
Proof. unfold Codec.pull_bytes. destruct ((n <? 0) || (Zlen bs <? n)); cbn [pres]; auto with tlsp. Qed.

Lemma pres_pull_uint8 bs : pres (pull_uint8 bs). Proof. apply pres_pull_be. Qed.
Lemma pres_pull_uint16 bs : pres (pull_uint16 bs). Proof. apply pres_pull_be. Qed.
Lemma pres_pull_uint32 bs : pres (pull_uint32 bs). Proof. apply pres_pull_be. Qed.

Lemma pres_pull_block {A} cap (body : Z -> list Z -> Res (A * list Z)) bs :
  (forall len b, pres (body len b)) -> pres (pull_block cap body bs).
Proof.
  intros Hb. unfold pull_block. apply pres_bind; [apply pres_pull_be|]. intros [len b1].
  apply pres_bind; [apply Hb|]. intros [v b2].
  destruct (Zlen b1 - Zlen b2 =? len); cbn [pres]; auto with tlsp.
Qed.

Lemma pres_pull_opaque cap bs : pres (pull_opaque cap bs).
Proof. unfold pull_opaque. apply pres_pull_block. intros. apply pres_pull_bytes. Qed.

Lemma pres_pull_fold {S} (item : S -> list Z -> Res (S * list Z)) :
  (forall s b, pres (item s b)) ->
  forall fuel rem st bs, pres (pull_fold item fuel rem st bs).
Proof.
  intros Hi. induction fuel as [|f IH]; intros rem st bs; cbn [pull_fold].
  - destruct (rem <=? 0); [exact I|]. apply pres_bind; [apply Hi|]. intros [s b]. cbn [pres]. auto with tlsp.
  - destruct (rem <=? 0); [exact I|]. apply pres_bind; [apply Hi|]. intros [s b]. apply IH.
Qed.

Lemma pres_pull_list {S} cap (item : S -> list Z -> Res (S * list Z)) st bs :
  (forall s b, pres (item s b)) -> pres (pull_list cap item st bs).
Proof. intros Hi. unfold pull_list. apply pres_pull_block. intros. apply pres_pull_fold. exact Hi. Qed.

(* ---- items ---- *)
Lemma pres_it_uint w acc bs : pres (it_uint w acc bs).
Proof. unfold it_uint. apply pres_bind; [apply pres_pull_be|]. intros [v r]. exact I. Qed.

Lemma pres_pull_key_share bs : pres (pull_key_share bs).
Proof.
  unfold pull_key_share. apply pres_bind; [apply pres_pull_uint16|]. intros [g b1].
  apply pres_bind; [apply pres_pull_opaque|]. intros [d b2]. exact I.
Qed.

Lemma pres_it_key_share acc bs : pres (it_key_share acc bs).
Proof. unfold it_key_share. apply pres_bind; [apply pres_pull_key_share|]. intros [k r]. exact I. Qed.

Lemma pres_it_alpn acc bs : pres (it_alpn acc bs).
Proof. unfold it_alpn. apply pres_bind; [apply pres_pull_opaque|]. intros [d r]. exact I. Qed.

Lemma pres_it_psk_identity acc bs : pres (it_psk_identity acc bs).
Proof.
  unfold it_psk_identity. apply pres_bind; [apply pres_pull_opaque|]. intros [d b1].
  apply pres_bind; [apply pres_pull_uint32|]. intros [a b2]. exact I.
Qed.

Lemma pres_it_psk_binder acc bs : pres (it_psk_binder acc bs).
Proof. unfold it_psk_binder. apply pres_bind; [apply pres_pull_opaque|]. intros [d r]. exact I. Qed.

Lemma pres_it_certificate_entry acc bs : pres (it_certificate_entry acc bs).
Proof.
  unfold it_certificate_entry. apply pres_bind; [apply pres_pull_opaque|]. intros [d b1].
  apply pres_bind; [apply pres_pull_opaque|]. intros [e b2]. exact I.
Qed.

Lemma pres_pull_server_name bs : pres (pull_server_name bs).
Proof.
  unfold pull_server_name. apply pres_pull_block. intros len b.
  apply pres_bind; [apply pres_pull_uint8|]. intros [nt b1].
  destruct (negb (nt =? 0)); [cbn [pres]; auto with tlsp|].
  apply pres_bind; [apply pres_pull_opaque|]. intros [d b2].
  destruct (is_ascii d); cbn [pres]; auto with tlsp.
Qed.

Lemma pres_pull_hello_head bs : pres (pull_hello_head bs).
Proof.
  unfold pull_hello_head. apply pres_bind; [apply pres_pull_uint16|]. intros [ver b1].
  destruct (negb (ver =? TLS_VERSION_1_2)); [cbn [pres]; auto with tlsp|].
  apply pres_bind; [apply pres_pull_bytes|]. intros [r b2].
  apply pres_bind; [apply pres_pull_opaque|]. intros [sid b3]. exact I.
Qed.

#[export] Hint Resolve pres_pull_be pres_pull_bytes pres_pull_uint8 pres_pull_uint16 pres_pull_uint32
  pres_pull_opaque pres_it_uint pres_pull_key_share pres_it_key_share pres_it_alpn pres_it_psk_identity
  pres_it_psk_binder pres_it_certificate_entry pres_pull_server_name pres_pull_hello_head : tlsp.

Ltac pstep :=
  match goal with
  | |- pres (bind _ _) => apply pres_bind; [auto with tlsp | intros [? ?]]
  | |- pres (if ?c then _ else _) => destruct c
  | |- pres (Ok _) => exact I
  | |- pres (Err _) => cbn [pres]; auto with tlsp
  | |- pres (pull_list _ _ _ _) => apply pres_pull_list; intros; auto with tlsp
  | |- pres (match ?l with [] => _ | _ :: _ => _ end) => destruct l
  end.

(* ---- extension items ---- *)
Lemma pres_ch_extension s bs : pres (ch_extension s bs).
Proof. unfold ch_extension. destruct s as [h after]. repeat pstep. Qed.

Lemma pres_sh_extension h bs : pres (sh_extension h bs).
Proof. unfold sh_extension. repeat pstep. Qed.

Lemma pres_ee_extension o bs : pres (ee_extension o bs).
Proof. unfold ee_extension. repeat pstep. Qed.

Lemma pres_cr_extension o bs : pres (cr_extension o bs).
Proof. unfold cr_extension. repeat pstep. Qed.

Lemma pres_nst_extension o bs : pres (nst_extension o bs).
Proof. unfold nst_extension. repeat pstep. Qed.

#[export] Hint Resolve pres_ch_extension pres_sh_extension pres_ee_extension pres_cr_extension pres_nst_extension : tlsp.

(* ---- framed messages: type byte, 3-byte length, body ---- *)
Definition head_is (T : Z) (msg : list Z) : Prop :=
  match msg with [] => True | x :: _ => x = T end.

Definition framed {A} (T : Z) (body : Z -> list Z -> Res (A * list Z)) (msg : list Z) : Res (A * list Z) :=
  '(_, b0) <- pull_handshake_type T msg ;; pull_block 3 body b0.

Lemma pres_framed {A} T (body : Z -> list Z -> Res (A * list Z)) msg :
  head_is T msg -> (forall len b, pres (body len b)) -> pres (framed T body msg).
Proof.
  intros Hh Hb. unfold framed, pull_handshake_type, pull_uint8, pull_be.
  destruct msg as [|x tl].
  - cbn. auto with tlsp.
  - cbn [head_is] in Hh. subst x.
    replace (Zlen (T :: tl) <? Z.of_nat 1) with false by (unfold Zlen; cbn [length]; lia).
    cbn [bind firstn skipn be_dec]. replace (0 * 256 + T =? T) with true by lia. cbn [bind].
    apply pres_pull_block. exact Hb.
Qed.

(* a framed parser that returns has read a message of at least 4 bytes up to the length its header declares *)
Lemma framed_exact {A} T (body : Z -> list Z -> Res (A * list Z)) msg v rest :
  framed T body msg = Ok (v, rest) ->
  exists t l1 l2 l3 tl, msg = t :: l1 :: l2 :: l3 :: tl /\ Zlen tl - Zlen rest = be_dec 0 [l1; l2; l3].
Proof.
  unfold framed, pull_handshake_type, pull_uint8, pull_be. intros H.
  destruct msg as [|t m1]; [cbn in H; discriminate|].
  replace (Zlen (t :: m1) <? Z.of_nat 1) with false in H by (unfold Zlen; cbn [length]; lia).
  cbn [bind firstn skipn be_dec] in H.
  destruct (0 * 256 + t =? T); [|cbn in H; discriminate]. cbn [bind] in H.
  unfold pull_block in H.
  destruct (pull_be 3 m1) as [[len b1]|k] eqn:E1; cbn [bind] in H; [|discriminate].
  destruct (body len b1) as [[v' b2]|k] eqn:E2; cbn [bind] in H; [|discriminate].
  destruct (Zlen b1 - Zlen b2 =? len) eqn:E3; [|discriminate].
  injection H as <- <-.
  unfold pull_be in E1. destruct (Zlen m1 <? Z.of_nat 3) eqn:E4; [discriminate|].
  destruct m1 as [|l1 [|l2 [|l3 tl]]]; try (unfold Zlen in E4; cbn [length] in E4; lia).
  cbn [firstn skipn] in E1. injection E1 as <- <-.
  exists t, l1, l2, l3, tl. split; [reflexivity|]. cbn [be_dec]. lia.
Qed.

(* ---- the eight parsers are framed ---- *)
Lemma pull_client_hello_framed msg : pull_client_hello msg = framed 1 (fun _ b =>
    '(sid, b1) <- pull_hello_head b ;;
    '(cs, b2) <- pull_list 2 (it_uint 2) [] b1 ;;
    '(cm, b3) <- pull_list 1 (it_uint 1) [] b2 ;;
    '(s, b4) <- pull_list 2 ch_extension (mkCH sid cs cm None false None None None None None [], false) b3 ;;
    Ok (fst s, b4)) msg.
Proof. reflexivity. Qed.

Lemma pull_finished_framed msg : pull_finished msg = framed 20 (fun len b => Codec.pull_bytes len b) msg.
Proof. reflexivity. Qed.

Theorem pres_pull_client_hello msg : head_is 1 msg -> pres (pull_client_hello msg).
Proof. intros H. rewrite pull_client_hello_framed. apply pres_framed; [exact H|]. intros. repeat pstep. Qed.

Theorem pres_pull_server_hello msg : head_is 2 msg -> pres (pull_server_hello msg).
Proof. intros H. apply (pres_framed 2); [exact H|]. intros. repeat pstep. Qed.

Theorem pres_pull_encrypted_extensions msg : head_is 8 msg -> pres (pull_encrypted_extensions msg).
Proof. intros H. apply (pres_framed 8); [exact H|]. intros. repeat pstep. Qed.

Theorem pres_pull_certificate msg : head_is 11 msg -> pres (pull_certificate msg).
Proof. intros H. apply (pres_framed 11); [exact H|]. intros. repeat pstep. Qed.

Theorem pres_pull_certificate_request msg : head_is 13 msg -> pres (pull_certificate_request msg).
Proof. intros H. apply (pres_framed 13); [exact H|]. intros. repeat pstep. Qed.

Theorem pres_pull_certificate_verify msg : head_is 15 msg -> pres (pull_certificate_verify msg).
Proof. intros H. apply (pres_framed 15); [exact H|]. intros. repeat pstep. Qed.

Theorem pres_pull_finished msg : head_is 20 msg -> pres (pull_finished msg).
Proof. intros H. rewrite pull_finished_framed. apply pres_framed; [exact H|]. intros. auto with tlsp. Qed.

Theorem pres_pull_new_session_ticket msg : head_is 4 msg -> pres (pull_new_session_ticket msg).
Proof. intros H. apply (pres_framed 4); [exact H|]. intros. repeat pstep. Qed.

(* exactness, one statement for all eight: whatever a parser returns, the unread rest is what the
   3-byte length left over *)
Definition exact_rest (msg rest : list Z) : Prop :=
  exists t l1 l2 l3 tl, msg = t :: l1 :: l2 :: l3 :: tl /\ Zlen tl - Zlen rest = be_dec 0 [l1; l2; l3].

Theorem pull_client_hello_exact msg v rest : pull_client_hello msg = Ok (v, rest) -> exact_rest msg rest.
Proof. rewrite pull_client_hello_framed. apply framed_exact. Qed.
Theorem pull_server_hello_exact msg v rest : pull_server_hello msg = Ok (v, rest) -> exact_rest msg rest.
Proof. apply (framed_exact 2). Qed.
Theorem pull_encrypted_extensions_exact msg v rest : pull_encrypted_extensions msg = Ok (v, rest) -> exact_rest msg rest.
Proof. apply (framed_exact 8). Qed.
Theorem pull_certificate_exact msg v rest : pull_certificate msg = Ok (v, rest) -> exact_rest msg rest.
Proof. apply (framed_exact 11). Qed.
Theorem pull_certificate_request_exact msg v rest : pull_certificate_request msg = Ok (v, rest) -> exact_rest msg rest.
Proof. apply (framed_exact 13). Qed.
Theorem pull_certificate_verify_exact msg v rest : pull_certificate_verify msg = Ok (v, rest) -> exact_rest msg rest.
Proof. apply (framed_exact 15). Qed.
Theorem pull_finished_exact msg v rest : pull_finished msg = Ok (v, rest) -> exact_rest msg rest.
Proof. rewrite pull_finished_framed. apply framed_exact. Qed.
Theorem pull_new_session_ticket_exact msg v rest : pull_new_session_ticket msg = Ok (v, rest) -> exact_rest msg rest.
Proof. apply (framed_exact 4). Qed.

(* a message cut out of the receive buffer by handle_message is framed: exact_rest gives rest = [] *)
Lemma exact_rest_cut buf t l1 l2 l3 r rest :
  buf = t :: l1 :: l2 :: l3 :: r ->
  Zlen buf >= 4 + be_dec 0 [l1; l2; l3] ->
  exact_rest (ztake (4 + be_dec 0 [l1; l2; l3]) buf) rest -> rest = [].
Proof.
  intros -> Hlen (t' & a & b & c & tl & Hm & Hx).
  unfold ztake in Hm. remember (be_dec 0 [l1; l2; l3]) as n eqn:En.
  destruct (Z.to_nat (4 + n)) as [|[|[|[|k]]]] eqn:Ek; cbn [firstn] in Hm; try discriminate.
  injection Hm as <- <- <- <- Htl.
  rewrite <- En in Hx.
  assert (Hk : Z.of_nat k = n) by lia.
  assert (Hr : (k <= length r)%nat).
  { unfold Zlen in Hlen. cbn [length] in Hlen. lia. }
  assert (Ztl : Zlen tl = n).
  { rewrite <- Htl. unfold Zlen. rewrite firstn_length. lia. }
  assert (Zlen rest = 0) by lia.
  destruct rest; [reflexivity|]. unfold Zlen in H. cbn [length] in H. lia.
Qed.

Theorem tls_parsers_all : forall msg,
  (head_is 1 msg -> pres (pull_client_hello msg)) /\
  (head_is 2 msg -> pres (pull_server_hello msg)) /\
  (head_is 8 msg -> pres (pull_encrypted_extensions msg)) /\
  (head_is 11 msg -> pres (pull_certificate msg)) /\
  (head_is 13 msg -> pres (pull_certificate_request msg)) /\
  (head_is 15 msg -> pres (pull_certificate_verify msg)) /\
  (head_is 20 msg -> pres (pull_finished msg)) /\
  (head_is 4 msg -> pres (pull_new_session_ticket msg)).
Proof.
  intros msg. repeat split.
  - apply pres_pull_client_hello.
  - apply pres_pull_server_hello.
  - apply pres_pull_encrypted_extensions.
  - apply pres_pull_certificate.
  - apply pres_pull_certificate_request.
  - apply pres_pull_certificate_verify.
  - apply pres_pull_finished.
  - apply pres_pull_new_session_ticket.
Qed.
