(* Proofs about model/AckFrame.v: pull_ack_frame inverts push_ack_frame on every well-formed,
   non-empty range set; the decoder is total. *)
From AQ Require Import lib.Base model.Codec model.Varint model.RangeSet model.AckFrame
  proofs.CodecProofs proofs.VarintProofs.
From Coq Require Import ZifyBool.

(* descending view used by the encoder loop: ranges inside (lo, hi], highest first *)
Fixpoint desc (hi : Z) (d : rs) (lo : Z) : bool :=
  match d with
  | [] => true
  | (s, e) :: t => (e <=? hi) && (s <? e) && (lo <=? s) && desc (s - 1) t lo
  end.

Lemma desc_app_last d : forall hi lo s e,
  desc hi (d ++ [(s, e)]) lo = desc hi d (e + 1) && (e <=? hi) && (s <? e) && (lo <=? s).
Proof.
  induction d as [|[s0 e0] t IH]; intros; cbn [app desc].
  - lia.
  - rewrite IH. destruct (desc (s0 - 1) t (e + 1)); lia.
Qed.

Lemma asc_rev l : forall lo hi, asc lo l hi = desc hi (rev l) lo.
Proof.
  induction l as [|[s e] t IH]; intros; cbn [asc rev desc]; auto.
  rewrite desc_app_last, IH. destruct (desc hi (rev t) (e + 1)); lia.
Qed.

Lemma asc_len l : forall lo hi, asc lo l hi = true -> l <> [] -> lo + 2 * Zlen l - 1 <= hi.
Proof.
  induction l as [|[s e] t IH]; intros lo hi H N; [congruence|].
  cbn [asc] in H. rewrite Zlen_cons.
  destruct t as [|p t'].
  - unfold Zlen; cbn [length]. lia.
  - assert (A : asc (e + 1) (p :: t') hi = true) by lia.
    specialize (IH _ _ A ltac:(congruence)). lia.
Qed.

Lemma flatten_cons_ok bs cs r : flatten cs = Ok r -> flatten (Ok bs :: cs) = Ok (bs ++ r).
Proof. intros H. cbn [flatten]. rewrite H. reflexivity. Qed.

(* the gap/length loop *)
Lemma pull_ack_ranges_push d : forall start lo,
  desc (start - 1) d lo = true -> 0 <= lo -> start <= 2 ^ 62 ->
  exists bytes, flatten (push_ack_ranges start d) = Ok bytes /\ (2 * length d <= length bytes)%nat /\
    forall rest fuel e0 acc', (length d <= fuel)%nat ->
      pull_ack_ranges fuel (Zlen d) start ((start, e0) :: acc') (bytes ++ rest)
      = Ok (rev d ++ (start, e0) :: acc', rest).
Proof.
  induction d as [|[s e] t IH]; intros start lo H Hlo Hst.
  - exists []. split; [reflexivity|]. split; [cbn; lia|]. intros. destruct fuel; reflexivity.
  - cbn [desc] in H.
    assert (H1 : e <= start - 1) by lia. assert (H2 : s < e) by lia. assert (H3 : lo <= s) by lia.
    assert (H4 : desc (s - 1) t lo = true) by lia.
    destruct (IH s lo H4 Hlo ltac:(lia)) as (bt & Ft & Lt & Pt).
    assert (G1 : 0 <= start - e - 1 < 2 ^ 62) by lia.
    assert (G2 : 0 <= e - s - 1 < 2 ^ 62) by lia.
    destruct (varint_length_prefix _ G1) as (b1 & E1 & Z1 & _).
    destruct (varint_length_prefix _ G2) as (b2 & E2 & Z2 & _).
    exists (b1 ++ b2 ++ bt). split; [|split].
    + cbn [push_ack_ranges]. rewrite E1, E2. now apply flatten_cons_ok, flatten_cons_ok.
    + assert (1 <= Zlen b1) by (rewrite Z1; unfold var_size; repeat destruct (_ <? _); lia).
      assert (1 <= Zlen b2) by (rewrite Z2; unfold var_size; repeat destruct (_ <? _); lia).
      unfold Zlen in *. cbn [length]. rewrite !app_length. lia.
    + intros rest fuel e0 acc' Hf. destruct fuel as [|fuel']; [cbn [length] in Hf; lia|].
      cbn [pull_ack_ranges]. rewrite Zlen_cons.
      pose proof (Zlen_nonneg t).
      destruct (1 + Zlen t <=? 0) eqn:E0; [lia|].
      rewrite <- !app_assoc.
      destruct (varint_roundtrip _ (b2 ++ bt ++ rest) G1) as (b1' & E1' & R1). rewrite E1 in E1'. injection E1' as <-.
      destruct (varint_roundtrip _ (bt ++ rest) G2) as (b2' & E2' & R2). rewrite E2 in E2'. injection E2' as <-.
      rewrite R1. cbn [bind]. rewrite R2. cbn [bind].
      replace (start - (start - e - 1 + 2) - (e - s - 1)) with s by lia.
      replace (start - (start - e - 1 + 2) + 1) with e by lia.
      unfold rs_add_checked. destruct (e >? s) eqn:E3; [|lia]. cbn [bind add].
      destruct (e <? start) eqn:E4; [|lia].
      replace (1 + Zlen t - 1) with (Zlen t) by lia.
      rewrite Pt by (cbn [length] in Hf; lia).
      cbn [rev]. now rewrite <- app_assoc.
Qed.

(* ACK frames round-trip for EVERY well-formed non-empty range set and every delay *)
Theorem ack_roundtrip l delay : ack_wf l = true -> 0 <= delay < 2 ^ 62 ->
  exists bytes, flatten (push_ack_frame l delay) = Ok bytes /\
    forall rest, pull_ack_frame (bytes ++ rest) = Ok ((l, delay), rest).
Proof.
  intros W Hd. unfold ack_wf in W.
  assert (N : l <> []) by (destruct l; congruence).
  assert (A : asc 0 l (2 ^ 62) = true) by (destruct l; auto; congruence).
  pose proof (asc_len _ _ _ A N) as Hlen.
  rewrite asc_rev in A. unfold push_ack_frame.
  assert (RL : rev (rev l) = l) by apply rev_involutive.
  destruct (rev l) as [|[s e] d] eqn:R.
  { cbn in RL. congruence. }
  cbn [desc] in A.
  assert (D : desc (s - 1) d 0 = true) by lia.
  destruct (pull_ack_ranges_push d s 0 D ltac:(lia) ltac:(lia)) as (bt & Ft & Lt & Pt).
  pose proof (Zlen_nonneg l).
  assert (G1 : 0 <= e - 1 < 2 ^ 62) by lia.
  assert (G3 : 0 <= Zlen l - 1 < 2 ^ 62) by (destruct l; [congruence|rewrite Zlen_cons in *; pose proof (Zlen_nonneg l); lia]).
  assert (G4 : 0 <= e - 1 - s < 2 ^ 62) by lia.
  destruct (varint_roundtrip _ [] G1) as (b1 & E1 & _).
  destruct (varint_roundtrip _ [] Hd) as (b2 & E2 & _).
  destruct (varint_roundtrip _ [] G3) as (b3 & E3 & _).
  destruct (varint_roundtrip _ [] G4) as (b4 & E4 & _).
  exists (b1 ++ b2 ++ b3 ++ b4 ++ bt). split.
  - rewrite E1, E2, E3, E4. now repeat apply flatten_cons_ok.
  - intros rest. unfold pull_ack_frame. rewrite <- !app_assoc.
    destruct (varint_roundtrip _ (b2 ++ b3 ++ b4 ++ bt ++ rest) G1) as (x & Ex & R1). rewrite E1 in Ex. injection Ex as <-.
    destruct (varint_roundtrip _ (b3 ++ b4 ++ bt ++ rest) Hd) as (x & Ex & R2). rewrite E2 in Ex. injection Ex as <-.
    destruct (varint_roundtrip _ (b4 ++ bt ++ rest) G3) as (x & Ex & R3). rewrite E3 in Ex. injection Ex as <-.
    destruct (varint_roundtrip _ (bt ++ rest) G4) as (x & Ex & R4). rewrite E4 in Ex. injection Ex as <-.
    rewrite R1. cbn [bind]. rewrite R2. cbn [bind]. rewrite R3. cbn [bind]. rewrite R4. cbn [bind].
    replace (e - 1 - (e - 1 - s)) with s by lia. replace (e - 1 + 1) with e by lia.
    unfold rs_add_checked. destruct (e >? s) eqn:E5; [|lia]. cbn [bind add].
    assert (Zl : Zlen l - 1 = Zlen d).
    { rewrite <- RL. unfold Zlen. cbn [rev length]. rewrite app_length, rev_length. cbn [length]. lia. }
    rewrite Zl, Pt by (rewrite app_length; lia).
    cbn [bind]. rewrite <- RL. cbn [rev]. reflexivity.
Qed.

Example ack_wf_example : ack_wf [(0, 3); (5, 6); (4611686018427387900, 4611686018427387904)] = true.
Proof. reflexivity. Qed.

(* RFC 9000 section 19.3: Largest Acknowledged, ACK Delay, ACK Range Count, First ACK Range,
   then (Gap, ACK Range Length)*: packets 0-2, 5 and 9-10 acknowledged with delay 7 *)
Example ack_rfc_layout :
  flatten (push_ack_frame [(0, 3); (5, 6); (9, 11)] 7) = Ok [10; 7; 2; 1; 2; 0; 1; 2].
Proof. reflexivity. Qed.

(* ---- decoder totality -------------------------------------------------------------------- *)
Lemma pull_uint_var_ok_or_read bs :
  bytes_ok bs ->
  (exists v rest, pull_uint_var bs = Ok (v, rest) /\ 0 <= v < 2 ^ 62 /\ bytes_ok rest /\
                  (length rest < length bs)%nat /\ exists used, bs = used ++ rest)
  \/ pull_uint_var bs = Err E_READ.
Proof.
  intros Hb. destruct (varint_pull_total bs Hb) as [(v & r & u & H1 & H2 & H3 & H4 & H5 & _)|H]; [left|now right].
  exists v, r. repeat split; auto; try lia.
  - rewrite H2, app_length. lia.
  - eauto.
Qed.

Lemma pull_ack_ranges_total fuel : forall count end_ acc bs,
  bytes_ok bs ->
  (exists l rest, pull_ack_ranges fuel count end_ acc bs = Ok (l, rest) /\ exists used, bs = used ++ rest)
  \/ pull_ack_ranges fuel count end_ acc bs = Err E_READ.
Proof.
  induction fuel as [|fuel IH]; intros count end_ acc bs Hb; cbn [pull_ack_ranges];
    destruct (count <=? 0); try (left; exists acc, bs; split; [reflexivity|exists []; reflexivity]);
    try (now right).
  destruct (pull_uint_var_ok_or_read bs Hb) as [(g & r1 & E1 & G1 & B1 & _ & (u1 & U1))|E1]; rewrite E1; cbn [bind]; [|now right].
  destruct (pull_uint_var_ok_or_read r1 B1) as [(c & r2 & E2 & G2 & B2 & _ & (u2 & U2))|E2]; rewrite E2; cbn [bind]; [|now right].
  unfold rs_add_checked.
  destruct (end_ - (g + 2) + 1 >? end_ - (g + 2) - c) eqn:E3; [|lia]. cbn [bind].
  destruct (IH (count - 1) (end_ - (g + 2) - c) (add (end_ - (g + 2) - c) (end_ - (g + 2) + 1) acc) r2 B2)
    as [(l & rest & E4 & (u3 & U3))|E4]; rewrite E4; [left|now right].
  exists l, rest. split; auto. exists (u1 ++ u2 ++ u3). subst bs r1 r2. now rewrite <- !app_assoc.
Qed.

(* pull_ack_frame on arbitrary bytes: a (range set, delay) and the unread suffix, or
   BufferReadError -- never AssertionError, never anything else, never past the end *)
Theorem ack_pull_total bs : bytes_ok bs ->
  (exists l delay rest, pull_ack_frame bs = Ok ((l, delay), rest) /\ 0 <= delay < 2 ^ 62 /\
                        exists used, bs = used ++ rest)
  \/ pull_ack_frame bs = Err E_READ.
Proof.
  intros Hb. unfold pull_ack_frame.
  destruct (pull_uint_var_ok_or_read bs Hb) as [(v1 & r1 & E1 & G1 & B1 & _ & (u1 & U1))|E1]; rewrite E1; cbn [bind]; [|now right].
  destruct (pull_uint_var_ok_or_read r1 B1) as [(v2 & r2 & E2 & G2 & B2 & _ & (u2 & U2))|E2]; rewrite E2; cbn [bind]; [|now right].
  destruct (pull_uint_var_ok_or_read r2 B2) as [(v3 & r3 & E3 & G3 & B3 & _ & (u3 & U3))|E3]; rewrite E3; cbn [bind]; [|now right].
  destruct (pull_uint_var_ok_or_read r3 B3) as [(v4 & r4 & E4 & G4 & B4 & _ & (u4 & U4))|E4]; rewrite E4; cbn [bind]; [|now right].
  unfold rs_add_checked. destruct (v1 + 1 >? v1 - v4) eqn:E5; [|lia]. cbn [bind].
  destruct (pull_ack_ranges_total (length r4) v3 (v1 - v4) (add (v1 - v4) (v1 + 1) []) r4 B4)
    as [(l & rest & E6 & (u5 & U5))|E6]; rewrite E6; cbn [bind]; [left|now right].
  exists l, v2, rest. split; auto. split; auto.
  exists (u1 ++ u2 ++ u3 ++ u4 ++ u5). subst bs r1 r2 r3 r4. now rewrite <- !app_assoc.
Qed.
