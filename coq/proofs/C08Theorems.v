(* C08: closed statements of the theorems exported by props/C08.v, instantiations for the two
   controllers and for the executable PrimFloat instance, and satisfiability examples. *)
From AQ Require Import lib.Base lib.Tok model.RangeSet model.RecBase model.Pacer model.Reno model.Cubic
  model.Recovery model.RecoveryFloat gen.C08Consts
  proofs.RecoveryLemmas proofs.RecoveryProofs proofs.RecoveryPres proofs.RenoProofs proofs.CubicProofs.
From Coq Require Import ZifyBool.

Section Gen.
Context {T C : Type} (F : fops T) (cc : ccops T C).

Lemma flight_nonneg : forall l : list (pkt T), nnl l -> 0 <= flight l.
Proof.
  induction l as [|p l IH]; intros H; [cbn; lia|].
  rewrite flight_cons. unfold contrib.
  assert (0 <= p_bytes p) by (apply H; left; reflexivity).
  assert (0 <= flight l) by (apply IH; intros q Hq; apply H; right; exact Hq).
  destruct (p_inflight p); lia.
Qed.

Lemma tot_flight_nonneg : forall sps : list (space (T:=T)), nn sps -> 0 <= tot_flight sps.
Proof.
  induction sps as [|s t IH]; intros H; [cbn; lia|].
  cbn [tot_flight fold_right]. fold (tot_flight t).
  assert (0 <= flight (sp_sent s)) by (apply flight_nonneg; apply H; left; reflexivity).
  assert (0 <= tot_flight t) by (apply IH; intros x Hx; apply H; right; exact Hx). lia.
Qed.

Lemma true_pres : cc_pres cc (fun _ => True).
Proof. constructor; auto. Qed.

Theorem bytes_in_flight_nonneg_gen : forall n irtt mss pcav c0 ops st evs,
  cc_spec cc -> cc_bif cc c0 = 0 -> fresh_ops [] ops -> Forall (op_nn (T:=T)) ops ->
  run F cc (rec_init F n irtt mss pcav c0) ops = (st, evs) ->
  0 <= cc_bif cc (r_cc st).
Proof.
  intros n irtt mss pcav c0 ops st evs SP H0 Fr Hn Hr.
  destruct (ledger_exact_gen F cc SP _ _ _ _ _ _ _ _ H0 Fr Hr) as (L & _). rewrite L.
  apply tot_flight_nonneg.
  exact (proj2 (run_pres F cc (fun _ => True) true_pres ops _ _ _
                 (init_pgood F (fun _ => True) n irtt mss pcav c0 Logic.I) Hn Hr)).
Qed.
End Gen.

(* ---------- instantiations ---------- *)
Lemma ledger_exact_reno_cubic : forall (T : Type) (F : fops T) n irtt mss pcav o ops,
  fresh_ops [] ops ->
  (forall st evs, run F (reno_cc F) (rec_init F n irtt mss pcav (reno_init F mss)) ops = (st, evs) ->
     rn_bif (r_cc st) = tot_flight (r_spaces st) /\
     (forall i s, nth_error (r_spaces st) i = Some s -> sp_aeif s = aecount (sp_sent s) /\ NoDup (keys (sp_sent s)))) /\
  (forall st evs, run F (cubic_cc F) (rec_init F n irtt mss pcav (cubic_init F mss o)) ops = (st, evs) ->
     cb_bif (r_cc st) = tot_flight (r_spaces st) /\
     (forall i s, nth_error (r_spaces st) i = Some s -> sp_aeif s = aecount (sp_sent s) /\ NoDup (keys (sp_sent s)))).
Proof.
  intros T F n irtt mss pcav o ops Fr. split; intros st evs Hr.
  - exact (ledger_exact_gen F (reno_cc F) (reno_spec F) n irtt mss pcav (reno_init F mss) ops st evs eq_refl Fr Hr).
  - exact (ledger_exact_gen F (cubic_cc F) (cubic_spec F) n irtt mss pcav (cubic_init F mss o) ops st evs eq_refl Fr Hr).
Qed.

Lemma callbacks_at_most_once_reno_cubic : forall (T : Type) (F : fops T) n irtt mss pcav o ops,
  fresh_ops [] ops ->
  (forall st evs, run F (reno_cc F) (rec_init F n irtt mss pcav (reno_init F mss)) ops = (st, evs) ->
     NoDup (map evkey evs) /\
     (forall e, In e evs -> In (evkey e) (sent_keys ops) /\ ~ tracked (r_spaces st) (evkey e))) /\
  (forall st evs, run F (cubic_cc F) (rec_init F n irtt mss pcav (cubic_init F mss o)) ops = (st, evs) ->
     NoDup (map evkey evs) /\
     (forall e, In e evs -> In (evkey e) (sent_keys ops) /\ ~ tracked (r_spaces st) (evkey e))).
Proof.
  intros T F n irtt mss pcav o ops Fr. split; intros st evs Hr.
  - exact (callbacks_at_most_once_gen F (reno_cc F) (reno_spec F) n irtt mss pcav (reno_init F mss) ops st evs eq_refl Fr Hr).
  - exact (callbacks_at_most_once_gen F (cubic_cc F) (cubic_spec F) n irtt mss pcav (cubic_init F mss o) ops st evs eq_refl Fr Hr).
Qed.

(* the executable model (PrimFloat instance used by the correspondence harness) *)
Lemma float_instance_reno : forall n irtt mss pcav ops st evs,
  0 < mss -> fresh_ops [] ops -> Forall (op_nn (T:=PrimFloat.float)) ops ->
  run FF (reno_cc FF) (rec_init FF n irtt mss pcav (reno_init FF mss)) ops = (st, evs) ->
  rn_bif (r_cc st) = tot_flight (r_spaces st) /\ 0 <= rn_bif (r_cc st) /\
  NoDup (map evkey evs) /\ 2 * mss <= rn_cwnd (r_cc st).
Proof.
  intros n irtt mss pcav ops st evs Hm Fr Hn Hr.
  split; [exact (proj1 (ledger_exact_gen FF (reno_cc FF) (reno_spec FF) n irtt mss pcav (reno_init FF mss) ops st evs eq_refl Fr Hr))|].
  split; [exact (bytes_in_flight_nonneg_gen FF (reno_cc FF) n irtt mss pcav (reno_init FF mss) ops st evs (reno_spec FF) eq_refl Fr Hn Hr)|].
  split; [exact (proj1 (callbacks_at_most_once_gen FF (reno_cc FF) (reno_spec FF) n irtt mss pcav (reno_init FF mss) ops st evs eq_refl Fr Hr))|].
  exact (proj1 (cwnd_floor_reno_gen FF _ _ _ _ _ _ _ Hm Hn Hr)).
Qed.

(* ---------- satisfiability of the hypotheses: a concrete history over an integer clock ---------- *)
Definition ZF : fops Z :=
  mkFops Z Z.add Z.sub Z.mul Z.div Z.opp Z.abs Z.ltb Z.leb Z.eqb Z.eqb (fun z => z) (fun z => Some z)
         (fun c => match c with CInf => 1000000000 | _ => 1 end).

Definition ex_ops : list (rop (T:=Z)) :=
  [OSend 0 0 true true true 10 1200; OSend 0 1 true true false 11 1200; OSend 0 2 true false false 12 50;
   OSend 0 3 true true false 13 1200; OSend 0 4 true true false 14 1200; OSend 1 0 true true true 15 1200;
   OAck 0 [(4, 5); (9, 12)] 0 40; OTimeout 500; OAck 0 [(0, 5)] 0 600; ODiscard 1].

Example ex_hypotheses :
  fresh_ops [] ex_ops /\ Forall (op_nn (T:=Z)) ex_ops /\
  map evkey (snd (run ZF (reno_cc ZF) (rec_init ZF 3 100 1200 true (reno_init ZF 1200)) ex_ops))
    = [(0%nat, 4); (0%nat, 0); (0%nat, 1); (0%nat, 2); (0%nat, 3); (1%nat, 0)].
Proof.
  split; [|split].
  - cbn. repeat split; intro H; repeat (destruct H as [H|H]; [discriminate H|]); exact H.
  - repeat constructor; cbn; lia.
  - vm_compute. reflexivity.
Qed.

Example ex_cc_spec_nontrivial :
  cc_spec (reno_cc ZF) /\ cc_spec (cubic_cc ZF) /\ cc_pres (reno_cc ZF) (reno_P 1200).
Proof. split; [apply reno_spec|split; [apply cubic_spec|apply reno_pres; lia]]. Qed.
