(* C01: NetSys + connection-level flow control (model/NetSysFC.v).
   With BASE = sender.highest_offset (the rule of the source, [BaseHighest]): the credit is never negative, the
   receiver never raises FLOW_CONTROL_ERROR, a retransmission needs no credit, and the completing continuation
   [fc_complete] finishes the stream from every reachable state.
   With BASE = sender.next_offset ([BaseNext]) a reachable state exists from which no schedule that does not
   deliver the lost frame late makes any progress at all. *)
From Coq Require Import ZArith List Bool Lia ZifyBool Permutation.
From AQ Require Import lib.Base model.RangeSet model.StreamRecv model.StreamSpec model.StreamSend model.NetSys model.NetSysLive model.NetSysFC
  proofs.RangeSetP proofs.ListZ proofs.StreamRecvP proofs.StreamSendP proofs.NetSysP proofs.NetSysP2 proofs.NetSysP3 proofs.NetSysP4 proofs.NetSysP6.
Import ListNotations. Open Scope Z_scope.

Inductive fc_reach (b : fcbase) (w : Z) : fc -> Prop :=
| fr_init : fc_reach b w (fc_init w)
| fr_step s op o s' : fc_reach b w s -> fc_step b s op = Some (o, s') -> fc_reach b w s'.

Lemma run_fc_reach b w : forall ops s s', fc_reach b w s -> run_fc b s ops = Some s' -> fc_reach b w s'.
Proof.
  induction ops as [|op t IH]; intros s s' R H; cbn [run_fc] in H.
  - inversion H; subst. exact R.
  - destruct (fc_step b s op) as [[o s1]|] eqn:E; [|discriminate].
    destruct o as [no|]; [|discriminate].
    assert (R1 : fc_reach b w s1) by (eapply fr_step; eassumption).
    destruct no; try discriminate; exact (IH _ _ R1 H).
Qed.

Lemma run_fc_app b a : forall s c, run_fc b s (a ++ c) =
  match run_fc b s a with Some s1 => run_fc b s1 c | None => None end.
Proof.
  induction a as [|op t IH]; intros s c; cbn [app run_fc]; [reflexivity|].
  destruct (fc_step b s op) as [[o s1]|]; [|reflexivity].
  destruct o as [no|]; [|reflexivity]. destruct no; try apply IH; reflexivity.
Qed.

(* ================= T3: BASE = next_offset deadlocks ================= *)
Definition stuck_send : send :=
  mkSend false 4 false false [] false [1; 2; 3; 4] (Some 4) 0 4 [(0, 4)] true None.
Definition stuck_net : net :=
  mkNet stuck_send recv_init [1; 2; 3; 4] false [mkEF 0 [1; 2; 3; 4] true false (Some false)] [] false [] [] 0.
Definition stuck : fc := mkFC stuck_net 4 4 4 0 [4].

Lemma stuck_run : run_fc BaseNext (fc_init 4) [FWrite [1; 2; 3; 4] true; FEmit 4; FOutcome 0 false] = Some stuck.
Proof. vm_compute. reflexivity. Qed.

Lemma stuck_reachable : fc_reach BaseNext 4 stuck.
Proof. exact (run_fc_reach BaseNext 4 _ _ _ (fr_init BaseNext 4) stuck_run). Qed.

Lemma stuck_incomplete :
  n_dbytes (f_net stuck) = [] /\ n_written (f_net stuck) = [1; 2; 3; 4] /\
  s_finished (n_send (f_net stuck)) = false /\ f_max stuck - f_used stuck = 0.
Proof. vm_compute. auto. Qed.

Lemma stuck_get_frame ms : get_frame stuck_send ms (Some 0) = (SNone, stuck_send).
Proof.
  unfold get_frame. cbn [stuck_send s_reset s_pending].
  destruct (Z.min 4 (0 + ms) >? 0) eqn:E.
  - reflexivity.
  - assert (X : Z.min 4 (0 + ms) <=? 0 = true) by lia. rewrite X. reflexivity.
Qed.

Lemma stuck_emit ms : fc_step BaseNext stuck (FEmit ms) = Some (FOk ONone, stuck).
Proof.
  cbn [fc_step]. change (fc_max_offset BaseNext stuck) with 0. change (f_net stuck) with stuck_net.
  cbn [net_step]. change (n_send stuck_net) with stuck_send. change (is_noneb (s_reset stuck_send)) with true.
  cbv iota. rewrite stuck_get_frame. reflexivity.
Qed.

Lemma stuck_nthE i : i <> 0 -> nthE (n_emitted stuck_net) i = None.
Proof.
  intros Hi. unfold nthE. destruct (i <? 0) eqn:E; [reflexivity|].
  destruct (Z.to_nat i) as [|k] eqn:Ek; [lia|]. cbn [stuck_net n_emitted nth_error]. destruct k; reflexivity.
Qed.

Lemma stuck_step op o s' : op <> FDeliver 0 -> fc_step BaseNext stuck op = Some (o, s') -> s' = stuck.
Proof.
  intros Hop H. destruct op as [d fin|ms|i|i a| |v|].
  - vm_compute in H. discriminate.
  - rewrite stuck_emit in H. inversion H. reflexivity.
  - assert (Hi : i <> 0) by (intros ->; apply Hop; reflexivity).
    cbn [fc_step] in H. change (f_net stuck) with stuck_net in H. rewrite (stuck_nthE i Hi) in H. discriminate.
  - destruct (Z.eq_dec i 0) as [->|Hi].
    + vm_compute in H. discriminate.
    + cbn [fc_step] in H. change (f_net stuck) with stuck_net in H. cbn [net_step] in H.
      rewrite (stuck_nthE i Hi) in H. discriminate.
  - vm_compute in H. inversion H. reflexivity.
  - destruct (Z.eq_dec v 4) as [->|Hv].
    + vm_compute in H. inversion H. reflexivity.
    + cbn [fc_step] in H. change (f_adv stuck) with [4] in H. cbn [existsb] in H.
      assert (X : v =? 4 = false) by lia. rewrite X in H. discriminate.
  - vm_compute in H. discriminate.
Qed.

Lemma stuck_run_fixed : forall ops s', ~ In (FDeliver 0) ops -> run_fc BaseNext stuck ops = Some s' -> s' = stuck.
Proof.
  induction ops as [|op t IH]; intros s' Hn H; cbn [run_fc] in H.
  - inversion H. reflexivity.
  - destruct (fc_step BaseNext stuck op) as [[o s1]|] eqn:E; [|discriminate].
    assert (Hop : op <> FDeliver 0) by (intros ->; apply Hn; left; reflexivity).
    pose proof (stuck_step op o s1 Hop E) as ->.
    assert (Hn' : ~ In (FDeliver 0) t) by (intros X; apply Hn; right; exact X).
    destruct o as [no|]; [|discriminate]. destruct no; try discriminate; exact (IH s' Hn' H).
Qed.

(* the liveness statement of [fair_schedule_completes_fc] is false for BASE = next_offset: a reachable state with
   unreported data from which every schedule without a late arrival of the lost frame changes nothing *)
Theorem fair_schedule_completes_fc_next_refuted :
  exists w s, 0 < w /\ fc_reach BaseNext w s /\ n_dbytes (f_net s) <> n_written (f_net s) /\
    forall ops s', ~ In (FDeliver 0) ops -> run_fc BaseNext s ops = Some s' ->
      s' = s /\ n_dbytes (f_net s') = [] /\ s_finished (n_send (f_net s')) = false.
Proof.
  exists 4, stuck. split; [lia|]. split; [exact stuck_reachable|]. split; [vm_compute; discriminate|].
  intros ops s' Hn H. pose proof (stuck_run_fixed ops s' Hn H) as ->. repeat split; reflexivity.
Qed.

Example stuck_completes_with_highest :
  exists s', run_fc BaseHighest stuck (fc_complete BaseHighest 2 stuck) = Some s' /\ fc_done s' = true.
Proof. eexists. split; vm_compute; reflexivity. Qed.

(* ================= T0: the invariant for BASE = highest_offset ================= *)
Lemma write_keeps_high st d f : s_highest (snd (write st d f)) = s_highest st.
Proof. unfold write. split_ifs; cbn; auto. Qed.

Lemma get_frame_cap st ms mo :
  s_highest st <= s_highest (snd (get_frame st ms (Some mo))) <= Z.max (s_highest st) mo.
Proof.
  unfold get_frame, set_empty. destruct (s_reset st); [cbn [snd]; lia|].
  destruct (s_pending st) as [|[start rstop] rest].
  - destruct (s_pending_eof st); cbn [snd s_highest]; lia.
  - destruct (Z.min rstop (start + ms) >? mo) eqn:E1.
    + destruct (mo <=? start) eqn:E2; cbn [snd s_highest]; [lia|]. destruct (mo >? s_highest st) eqn:E3; lia.
    + destruct (Z.min rstop (start + ms) <=? start) eqn:E2; cbn [snd s_highest]; [lia|].
      destruct (Z.min rstop (start + ms) >? s_highest st) eqn:E3; lia.
Qed.

Lemma pull_data_highest st : r_highest (snd (pull_data st)) = r_highest st.
Proof. unfold pull_data. destruct (r_ranges st) as [|[s e] rest]; [|destruct (s =? r_start st)]; cbn; auto. Qed.

Lemma handle_frame_highest st off data fin :
  fst (handle_frame st off data fin) <> RFinalSizeError ->
  r_highest (snd (handle_frame st off data fin)) = Z.max (r_highest st) (off + Zlen data).
Proof.
  unfold handle_frame.
  destruct (match r_final st with Some f => (off + Zlen data >? f) || (fin && negb (off + Zlen data =? f)) | None => false end);
    [intros H; contradiction H; reflexivity|]. intros _.
  destruct ((off - r_start st =? 0) && negb (Zlen data =? 0) && match r_buf st with [] => true | _ => false end).
  - cbn [snd r_highest]. destruct (off + Zlen data >? r_highest st) eqn:E; lia.
  - destruct (off - r_start st <? 0); cbv beta iota;
    destruct (pull_data _) as [out st1] eqn:P1;
    apply (f_equal (fun p => r_highest (snd p))) in P1; cbv beta in P1; rewrite pull_data_highest in P1;
    cbn [snd r_highest] in P1; cbv beta iota;
    destruct (opt_eqb (r_final st1) (r_start st1)) eqn:Eend; destruct out as [|b0 out0];
    cbn [snd r_highest]; rewrite <- P1; destruct (off + Zlen data >? r_highest st) eqn:E; lia.
Qed.

Lemma deliver_recv s i f o s' : nthE (n_emitted s) i = Some f -> net_step s (NDeliver i) = Some (o, s') ->
  o <> OFinalSizeError ->
  r_highest (n_recv s') = Z.max (r_highest (n_recv s)) (ef_off f + Zlen (ef_data f)).
Proof.
  intros E H Hne. cbn [net_step] in H. rewrite E in H.
  pose proof (handle_frame_highest (n_recv s) (ef_off f) (ef_data f) (ef_fin f)) as HH.
  destruct (handle_frame (n_recv s) (ef_off f) (ef_data f) (ef_fin f)) as [ro r']. cbn [fst snd] in HH.
  destruct ro; inversion H; subst; try (contradiction Hne; reflexivity);
    rewrite (proj1 (proj2 (report_fields _ _ _ _ _ _))); apply HH; discriminate.
Qed.

(* the shape of an FDeliver step *)
Definition newly_of (s : fc) (f : eframe) : Z :=
  Z.max 0 (ef_off f + Zlen (ef_data f) - r_highest (n_recv (f_net s))).

Lemma fc_deliver_cases b s i o s' : fc_step b s (FDeliver i) = Some (o, s') ->
  exists f, nthE (n_emitted (f_net s)) i = Some f /\
    (((f_lused s + newly_of s f >? f_lval s) = true /\ o = FFlowControlError /\ s' = s) \/
     ((f_lused s + newly_of s f >? f_lval s) = false /\
      exists no n', net_step (f_net s) (NDeliver i) = Some (no, n') /\ o = FOk no /\
        ((no = OFinalSizeError /\ s' = s) \/
         (no <> OFinalSizeError /\
          s' = mkFC n' (f_max s) (f_used s) (f_lval s) (f_lused s + newly_of s f) (f_adv s))))).
Proof.
  intros H. cbn [fc_step] in H. destruct (nthE (n_emitted (f_net s)) i) as [f|] eqn:E; [|discriminate].
  exists f. split; [reflexivity|]. fold (newly_of s f) in H.
  destruct (f_lused s + newly_of s f >? f_lval s) eqn:G.
  - left. inversion H. auto.
  - right. split; [reflexivity|].
    destruct (net_step (f_net s) (NDeliver i)) as [[no n']|] eqn:S; [|discriminate].
    exists no, n'. split; [reflexivity|].
    destruct no; inversion H; subst; (split; [reflexivity|]);
      try (right; split; [discriminate|reflexivity]). left. auto.
Qed.

(* every fc step is a NetSys data step (or leaves the NetSys state alone) *)
Lemma fc_step_nreach b s op o s' : nreach (f_net s) -> fc_step b s op = Some (o, s') -> nreach (f_net s').
Proof.
  intros R H. destruct op as [d fin|ms|i|i a| |v|].
  - cbn [fc_step] in H. destruct (net_step (f_net s) (NWrite d fin)) as [[no n']|] eqn:S; [|discriminate].
    cbn [lift_net] in H. inversion H; subst. cbn [with_net f_net]. eapply nreach_step; [exact R| |exact S]. exact Logic.I.
  - cbn [fc_step] in H.
    destruct (net_step (f_net s) (NEmit ms (Some (fc_max_offset b s)))) as [[no n']|] eqn:S; [|discriminate].
    inversion H; subst. cbn [f_net]. eapply nreach_step; [exact R| |exact S]. exact Logic.I.
  - destruct (fc_deliver_cases _ _ _ _ _ H) as (f & E & [(_ & _ & ->)|(_ & no & n' & S & _ & [(_ & ->)|(_ & ->)])]);
      try exact R. cbn [f_net]. eapply nreach_step; [exact R| |exact S]. exact Logic.I.
  - cbn [fc_step] in H. destruct (net_step (f_net s) (NOutcome i a)) as [[no n']|] eqn:S; [|discriminate].
    cbn [lift_net] in H. inversion H; subst. cbn [with_net f_net]. eapply nreach_step; [exact R| |exact S]. exact Logic.I.
  - cbn [fc_step] in H. inversion H; subst. exact R.
  - cbn [fc_step] in H. destruct (existsb (Z.eqb v) (f_adv s)); [|discriminate]. inversion H; subst. exact R.
  - cbn [fc_step] in H. destruct (net_step (f_net s) NPop) as [[no n']|] eqn:S; [|discriminate].
    cbn [lift_net] in H. inversion H; subst. cbn [with_net f_net]. eapply nreach_step; [exact R| |exact S]. exact Logic.I.
Qed.

Lemma fc_reach_nreach b w s : fc_reach b w s -> nreach (f_net s).
Proof. induction 1; [exact nreach_init|]. eapply fc_step_nreach; eassumption. Qed.

Record FInv (s : fc) : Prop := {
  fi_reach : nreach (f_net s);
  fi_used : f_used s = s_highest (n_send (f_net s));
  fi_cred : f_used s <= f_max s;
  fi_max : f_max s <= f_lval s;
  fi_adv : forall v, In v (f_adv s) -> v <= f_lval s;
  fi_lval_adv : In (f_lval s) (f_adv s);
  fi_lpos : 0 < f_lval s;
  fi_lused : f_lused s = r_highest (n_recv (f_net s));
  fi_rhigh : r_highest (n_recv (f_net s)) <= s_highest (n_send (f_net s));
  fi_deliv : forall f, In f (n_emitted (f_net s)) -> ef_deliv f = true -> ef_off f + Zlen (ef_data f) <= f_lused s;
  fi_acked : forall o, 0 <= o -> acked_at (n_send (f_net s)) o -> o < f_lused s
}.

Lemma finv_init w : 0 < w -> FInv (fc_init w).
Proof.
  intros Hw. constructor; cbn [fc_init f_net f_max f_used f_lval f_lused f_adv].
  - exact nreach_init.
  - reflexivity.
  - lia.
  - lia.
  - intros v [<-|[]]. lia.
  - left. reflexivity.
  - exact Hw.
  - reflexivity.
  - cbn. lia.
  - cbn. tauto.
  - unfold acked_at. cbn. intros o Ho [H|[]]. lia.
Qed.

(* the receiver's flow-control test never fires *)
Lemma fc_deliver_ok s i f : FInv s -> nthE (n_emitted (f_net s)) i = Some f ->
  (f_lused s + newly_of s f >? f_lval s) = false /\
  f_lused s + newly_of s f = Z.max (r_highest (n_recv (f_net s))) (ef_off f + Zlen (ef_data f)) /\
  f_lused s + newly_of s f <= s_highest (n_send (f_net s)).
Proof.
  intros I E. pose proof (nreach_hinv _ (fi_reach _ I)) as Hv.
  pose proof (h_end _ Hv f (nthE_In _ _ _ E)) as He.
  pose proof (fi_lused _ I). pose proof (fi_rhigh _ I). pose proof (fi_used _ I). pose proof (fi_cred _ I).
  pose proof (fi_max _ I). unfold newly_of. lia.
Qed.

Lemma outcome_in_outs s i f outs : nthE (n_emitted s) i = Some f -> is_noneb (ef_out f) = true ->
  Permutation outs (outs_of (n_emitted s)) -> In (ef_key f) outs.
Proof.
  intros Ei Gn P. destruct (nthE_split _ _ _ Ei) as (l1 & l2 & El & _).
  eapply Permutation_in; [apply Permutation_sym, P|]. rewrite El, outs_of_app. apply in_or_app. right.
  unfold outs_of. cbn [filter]. unfold noout. rewrite Gn. left. reflexivity.
Qed.

Lemma finv_step s op o s' : FInv s -> fc_step BaseHighest s op = Some (o, s') -> FInv s'.
Proof.
  intros I H. pose proof (fc_step_nreach _ _ _ _ _ (fi_reach _ I) H) as R'.
  destruct I as [R U C M A LA LP LU RH DL AK].
  destruct op as [d fin|ms|i|i a| |v|].
  - (* write *)
    cbn [fc_step] in H. destruct (net_step (f_net s) (NWrite d fin)) as [[no n']|] eqn:S; [|discriminate].
    cbn [lift_net] in H. inversion H; subst o s'. clear H. cbn [net_step] in S.
    destruct (is_noneb (s_fin (n_send (f_net s))) && is_noneb (s_reset (n_send (f_net s)))); [|discriminate].
    pose proof (write_keeps_high (n_send (f_net s)) d fin) as K0.
    destruct (write_keeps_acked (n_send (f_net s)) d fin) as (K1 & K2 & K3).
    destruct (write (n_send (f_net s)) d fin) as [so st']. cbn [snd] in *. inversion S; subst no n'. clear S.
    constructor; cbn [with_net f_net f_max f_used f_lval f_lused f_adv n_send n_recv n_emitted] in *;
      rewrite ?K0; try assumption.
    intros o0 Ho Ha. apply AK; [exact Ho|]. unfold acked_at in *. rewrite K1, K2 in Ha. exact Ha.
  - (* emit *)
    cbn [fc_step] in H.
    destruct (net_step (f_net s) (NEmit ms (Some (fc_max_offset BaseHighest s)))) as [[no n']|] eqn:S; [|discriminate].
    inversion H; subst o s'. clear H. cbn [net_step] in S.
    destruct (is_noneb (s_reset (n_send (f_net s)))); [|discriminate].
    pose proof (get_frame_cap (n_send (f_net s)) ms (fc_max_offset BaseHighest s)) as K0.
    destruct (get_frame_keeps_acked (n_send (f_net s)) ms (Some (fc_max_offset BaseHighest s))) as (K1 & K2 & K3).
    unfold fc_max_offset, base_off in *.
    destruct (get_frame (n_send (f_net s)) ms (Some (s_highest (n_send (f_net s)) + f_max s - f_used s))) as [so st'].
    cbn [snd] in *.
    assert (Hacked : forall o0, 0 <= o0 -> acked_at st' o0 -> o0 < f_lused s).
    { intros o0 Ho Ha. apply AK; [exact Ho|]. unfold acked_at in *. rewrite K1, K2 in Ha. exact Ha. }
    destruct so as [|off d fin|c fs|]; inversion S; subst no n'; clear S;
      (constructor; cbn [with_send f_net f_max f_used f_lval f_lused f_adv n_send n_recv n_emitted] in *;
       try assumption; try lia).
    intros f Hf Hd. apply in_app_or in Hf. destruct Hf as [Hf|[<-|[]]]; [exact (DL f Hf Hd)|discriminate Hd].
  - (* deliver *)
    assert (I : FInv s) by (constructor; assumption).
    destruct (fc_deliver_cases _ _ _ _ _ H) as (f & E & [(_ & _ & ->)|(G & no & n' & S & _ & [(_ & ->)|(Hne & ->)])]);
      try exact I.
    destruct (fc_deliver_ok s i f I E) as (_ & G2 & G3).
    destruct (deliver_result _ _ _ _ _ E S Hne) as (B1 & B2 & B3).
    pose proof (deliver_recv _ _ _ _ _ E S Hne) as B4.
    constructor; cbn [f_net f_max f_used f_lval f_lused f_adv] in *; rewrite ?B1; try assumption; try lia.
    + intros x Hx Hd. rewrite B3 in Hx. destruct (in_set_nth _ _ _ _ _ E Hx) as [->|Hx'].
      * cbn [ef_off ef_data]. lia.
      * pose proof (DL x Hx' Hd). unfold newly_of. lia.
    + intros o0 Ho Ha. pose proof (AK o0 Ho Ha). unfold newly_of. lia.
  - (* outcome *)
    cbn [fc_step] in H. destruct (net_step (f_net s) (NOutcome i a)) as [[no n']|] eqn:S; [|discriminate].
    cbn [lift_net] in H. inversion H; subst o s'. clear H. cbn [net_step] in S.
    destruct (nthE (n_emitted (f_net s)) i) as [f|] eqn:Ei; [|discriminate].
    destruct (is_noneb (ef_out f) && (negb a || ef_deliv f)) eqn:G; [|discriminate].
    assert (Gn : is_noneb (ef_out f) = true) by (destruct (is_noneb (ef_out f)); [reflexivity|discriminate]).
    unfold ef_key in S.
    pose proof (nreach_inv _ R) as NI. destruct (ni_reach _ NI) as (outs & Rs & P). destruct (ni_noreset _ NI) as (N1 & _).
    pose proof (outcome_in_outs _ _ _ _ Ei Gn P) as Hin. unfold ef_key in Hin.
    destruct (deliv_keeps_high (n_send (f_net s)) a (ef_off f) (ef_off f + Zlen (ef_data f)) (ef_fin f)) as (K1 & _).
    assert (Hacked : forall o0, 0 <= o0 ->
              acked_at (snd (on_data_delivery (n_send (f_net s)) a (ef_off f) (ef_off f + Zlen (ef_data f)) (ef_fin f))) o0 ->
              o0 < f_lused s).
    { intros o0 Ho Ha. destruct a.
      - destruct (ack_grows _ _ _ _ _ Rs N1 Hin) as (X & _). destruct (X o0 Ha) as [Y|Y]; [exact (AK o0 Ho Y)|].
        assert (Hd : ef_deliv f = true) by (rewrite Gn in G; cbn [negb orb andb] in G; exact G).
        pose proof (DL f (nthE_In _ _ _ Ei) Hd). lia.
      - destruct (lost_keeps_acked (n_send (f_net s)) (ef_off f) (ef_off f + Zlen (ef_data f)) (ef_fin f)) as (L1 & L2 & _).
        apply AK; [exact Ho|]. unfold acked_at in *. rewrite L1, L2 in Ha. exact Ha. }
    destruct (on_data_delivery (n_send (f_net s)) a (ef_off f) (ef_off f + Zlen (ef_data f)) (ef_fin f)) as [so st'].
    cbn [snd] in *. inversion S; subst no n'. clear S.
    constructor; cbn [with_net f_net f_max f_used f_lval f_lused f_adv n_send n_recv n_emitted] in *;
      rewrite ?K1; try assumption.
    intros x Hx Hd. destruct (in_set_nth _ _ _ _ _ Ei Hx) as [->|Hx']; [|exact (DL x Hx' Hd)].
    cbn [ef_off ef_data ef_deliv] in *. exact (DL f (nthE_In _ _ _ Ei) Hd).
  - (* raise *)
    cbn [fc_step] in H. inversion H; subst o s'. clear H.
    assert (Hr : f_lval s <= raised s) by (unfold raised; destruct (f_lused s * 2 >? f_lval s); lia).
    constructor; cbn [f_net f_max f_used f_lval f_lused f_adv] in *; try assumption; try lia.
    + intros v Hv. destruct (f_lused s * 2 >? f_lval s).
      * apply in_app_or in Hv. destruct Hv as [Hv|[<-|[]]]; [pose proof (A v Hv); lia|lia].
      * pose proof (A v Hv). lia.
    + unfold raised. destruct (f_lused s * 2 >? f_lval s); [apply in_or_app; right; left; reflexivity|exact LA].
  - (* max_data *)
    cbn [fc_step] in H. destruct (existsb (Z.eqb v) (f_adv s)) eqn:Ev; [|discriminate]. inversion H; subst o s'. clear H.
    apply existsb_exists in Ev. destruct Ev as (x & Hx & Hxv). assert (x = v) by lia. subst x. pose proof (A v Hx).
    constructor; cbn [f_net f_max f_used f_lval f_lused f_adv] in *; try assumption;
      destruct (v >? f_max s) eqn:Evm; lia.
  - (* pop *)
    cbn [fc_step] in H. destruct (net_step (f_net s) NPop) as [[no n']|] eqn:S; [|discriminate].
    cbn [lift_net] in H. inversion H; subst o s'. clear H. cbn [net_step] in S.
    destruct (n_queue (f_net s)); [discriminate|]. inversion S; subst no n'. clear S.
    constructor; cbn [with_net f_net f_max f_used f_lval f_lused f_adv n_send n_recv n_emitted] in *; assumption.
Qed.

Lemma fc_reach_inv w s : 0 < w -> fc_reach BaseHighest w s -> FInv s.
Proof. intros Hw R. induction R; [exact (finv_init w Hw)|]. eapply finv_step; eassumption. Qed.

Theorem no_flow_control_error w s op o s' : 0 < w -> fc_reach BaseHighest w s ->
  fc_step BaseHighest s op = Some (o, s') -> o <> FFlowControlError.
Proof.
  intros Hw R H. pose proof (fc_reach_inv w s Hw R) as I.
  destruct op as [d fin|ms|i|i a| |v|]; cbn [fc_step] in H.
  - destruct (net_step (f_net s) (NWrite d fin)) as [[no n']|]; [|discriminate]. inversion H. discriminate.
  - destruct (net_step (f_net s) (NEmit ms (Some (fc_max_offset BaseHighest s)))) as [[no n']|]; [|discriminate].
    inversion H. discriminate.
  - change (fc_step BaseHighest s (FDeliver i) = Some (o, s')) in H.
    destruct (fc_deliver_cases _ _ _ _ _ H) as (f & E & [(G & _)|(_ & no & n' & _ & -> & _)]); [|discriminate].
    destruct (fc_deliver_ok s i f I E) as (G2 & _). congruence.
  - destruct (net_step (f_net s) (NOutcome i a)) as [[no n']|]; [|discriminate]. inversion H. discriminate.
  - inversion H. discriminate.
  - destruct (existsb (Z.eqb v) (f_adv s)); [|discriminate]. inversion H. discriminate.
  - destruct (net_step (f_net s) NPop) as [[no n']|]; [|discriminate]. inversion H. discriminate.
Qed.

(* ================= T1: a retransmission needs no credit ================= *)
Lemma get_frame_emits st g ms mo start rstop rest : SInv st g -> s_reset st = None -> 0 < ms ->
  s_pending st = (start, rstop) :: rest -> start < mo ->
  exists d fin st', get_frame st ms (Some mo) = (SFrame start d fin, st') /\
    Zlen d = Z.min rstop (Z.min (start + ms) mo) - start /\ 0 < Zlen d /\
    s_highest st' = Z.max (s_highest st) (start + Zlen d) /\
    s_pending st' = (if start + Zlen d =? rstop then rest else (start + Zlen d, rstop) :: rest) /\
    (s_pending_eof st' = true -> s_pending_eof st = true).
Proof.
  intros V Lr Hm EP Hmo. pose proof (v_pwf _ _ V) as W. rewrite EP in W. pose proof W as W0.
  cbn [wf_from] in W. destruct W as (W1 & W2 & W3).
  assert (Hrs : rstop <= s_stop st).
  { pose proof (v_pmax _ _ V (rstop - 1)) as P. rewrite EP in P. cbn [mem] in P.
    assert (Hq : start <= rstop - 1 < rstop) by lia. specialize (P (or_introl Hq)). lia. }
  pose proof (v_start _ _ V) as Hst.
  unfold get_frame. rewrite Lr, EP. cbv beta iota.
  assert (Es : (if Z.min rstop (start + ms) >? mo then mo else Z.min rstop (start + ms)) =
               Z.min rstop (Z.min (start + ms) mo))
    by (destruct (Z.min rstop (start + ms) >? mo) eqn:E1; lia).
  rewrite Es. set (stop := Z.min rstop (Z.min (start + ms) mo)).
  assert (Hs : start < stop <= rstop) by (unfold stop; lia).
  assert (E : stop <=? start = false) by lia. rewrite E.
  assert (Hq1 : s_start st <= start) by lia. assert (Hq2 : start <= stop) by lia. assert (Hq3 : stop <= s_stop st) by lia.
  destruct (buf_slice st g start stop V Hq1 Hq2 Hq3) as (Hdata & Hlen).
  rewrite Hdata. eexists _, _, _. split; [reflexivity|].
  cbn [s_highest s_pending s_pending_eof]. rewrite Hlen.
  replace (start + (stop - start)) with stop by lia.
  split; [reflexivity|]. split; [lia|].
  split; [destruct (stop >? s_highest st) eqn:E3; lia|].
  split; [apply (subtract_head start stop rstop rest _ W0); lia|].
  destruct (match s_fin st with Some f => f =? stop | None => false end); [discriminate|auto].
Qed.

Lemma retransmission_needs_no_credit w s ms start rstop rest :
  0 < w -> fc_reach BaseHighest w s -> 0 < ms ->
  s_pending (n_send (f_net s)) = (start, rstop) :: rest -> start < s_highest (n_send (f_net s)) ->
  exists d fin s', fc_step BaseHighest s (FEmit ms) = Some (FOk (OFrame start d fin), s') /\ 0 < Zlen d /\
    Zlen d = Z.min rstop (Z.min (start + ms) (s_highest (n_send (f_net s)) + (f_max s - f_used s))) - start /\
    Zlen d >= Z.min (rstop - start) (Z.min ms (s_highest (n_send (f_net s)) - start)) /\
    (start + Zlen d <= s_highest (n_send (f_net s)) -> f_used s' = f_used s).
Proof.
  intros Hw R Hm EP Hlt. pose proof (fc_reach_inv w s Hw R) as I.
  pose proof (nreach_inv _ (fi_reach _ I)) as NI. destruct (ni_reach _ NI) as (outs & Rs & _).
  destruct (ni_noreset _ NI) as (N1 & _). pose proof (reach_inv _ _ Rs) as V. pose proof (fi_cred _ I) as Hc.
  assert (Hmo : start < fc_max_offset BaseHighest s) by (unfold fc_max_offset, base_off; lia).
  destruct (get_frame_emits _ _ ms _ start rstop rest V N1 Hm EP Hmo) as (d & fin & st' & G & Hl & Hp & Hh & _ & _).
  exists d, fin. eexists. split.
  - cbn [fc_step net_step]. rewrite N1. cbn [is_noneb]. rewrite G. reflexivity.
  - split; [exact Hp|]. unfold fc_max_offset, base_off in Hl. split; [rewrite Hl; f_equal; f_equal; f_equal; lia|].
    split; [lia|]. cbn [f_used f_net n_send]. lia.
Qed.

(* ================= T2: the completing continuation under flow control ================= *)
Definition meas (st : send) : Z := psize (s_pending st) + b2z (s_pending_eof st).

Lemma pbytes_psize l : pbytes l = psize l.
Proof. induction l as [|[a b] t IH]; cbn [pbytes psize]; [reflexivity|rewrite IH; reflexivity]. Qed.

Lemma get_frame_progress st g ms mo : SInv st g -> s_reset st = None -> 0 < ms ->
  (forall start rstop rest, s_pending st = (start, rstop) :: rest -> start < mo) ->
  (s_pending st <> [] \/ s_pending_eof st = true) ->
  exists off d fin st', get_frame st ms (Some mo) = (SFrame off d fin, st') /\ meas st' <= meas st - 1.
Proof.
  intros V Lr Hm Hmo Hne. destruct (s_pending st) as [|[start rstop] rest] eqn:EP.
  - destruct Hne as [Hne|Hne]; [contradiction Hne; reflexivity|].
    unfold get_frame. rewrite Lr, EP, Hne. eexists _, _, _, _. split; [reflexivity|].
    unfold meas. cbn [s_pending s_pending_eof]. rewrite EP, Hne. cbn [psize b2z]. lia.
  - destruct (get_frame_emits st g ms mo start rstop rest V Lr Hm EP (Hmo _ _ _ eq_refl)) as (d & fin & st' & G & Hl & Hp & Hh & Hpe & He).
    exists start, d, fin, st'. split; [exact G|]. unfold meas. rewrite Hpe, EP.
    assert (Hb : b2z (s_pending_eof st') <= b2z (s_pending_eof st)).
    { destruct (s_pending_eof st'); [rewrite (He eq_refl); lia|destruct (s_pending_eof st); cbn [b2z]; lia]. }
    destruct (start + Zlen d =? rstop) eqn:E3; cbn [psize]; lia.
Qed.

Lemma round_run_mo s ms mo : nreach s -> quiet s -> 0 < ms ->
  (forall start rstop rest, s_pending (n_send s) = (start, rstop) :: rest -> start < mo) ->
  (s_pending (n_send s) <> [] \/ s_pending_eof (n_send s) = true) ->
  exists off d fin sa ob sb sc,
    net_step s (NEmit ms (Some mo)) = Some (OFrame off d fin, sa) /\
    nthE (n_emitted sa) (Zlen (n_emitted s)) = Some (mkEF off d fin false None) /\
    net_step sa (NDeliver (Zlen (n_emitted s))) = Some (ob, sb) /\ ob <> OFinalSizeError /\
    net_step sb (NOutcome (Zlen (n_emitted s)) true) = Some (ONone, sc) /\
    quiet sc /\ n_written sc = n_written s /\ s_fin (n_send sc) = s_fin (n_send s) /\
    meas (n_send sc) <= meas (n_send s) - 1.
Proof.
  intros R Q Hm Hmo Hne. pose proof (nreach_inv _ R) as I. destruct (ni_reach _ I) as (outs & Rs & _).
  destruct (ni_noreset _ I) as (N1 & _). pose proof (reach_inv _ _ Rs) as V.
  destruct (get_frame_progress _ _ ms mo V N1 Hm Hmo Hne) as (off & d & fin & st' & G & GR).
  destruct (get_frame_keeps (n_send s) ms (Some mo)) as (K1 & _). rewrite G in K1. cbn [snd] in K1.
  set (f0 := mkEF off d fin false None).
  set (sa := mkNet st' (n_recv s) (n_written s) (n_racked s) (n_emitted s ++ [f0]) (n_resets s) (n_rreset s)
                   (n_queue s) (n_dbytes s) (n_ends s)).
  assert (S1 : net_step s (NEmit ms (Some mo)) = Some (OFrame off d fin, sa)).
  { cbn [net_step]. rewrite N1. cbn [is_noneb]. rewrite G. reflexivity. }
  assert (Ra : nreach sa) by (eapply nreach_step; [exact R| |exact S1]; exact Logic.I).
  assert (Ea : nthE (n_emitted sa) (Zlen (n_emitted s)) = Some f0) by (unfold sa; cbn [n_emitted]; apply nthE_mid).
  destruct (deliver_enabled sa _ _ Ea) as (ob & sb & S2).
  pose proof (no_spurious_final_size_error sa _ _ _ Ra S2) as Hne2.
  destruct (deliver_result sa _ _ _ _ Ea S2 Hne2) as (B1 & B2 & B3).
  unfold sa in B1, B2, B3. cbn [n_send n_written n_emitted] in B1, B2, B3. rewrite set_nth_mid in B3.
  cbn [ef_off ef_data ef_fin ef_out f0] in B3.
  set (f1 := mkEF off d fin true None) in *.
  assert (Eb : nthE (n_emitted sb) (Zlen (n_emitted s)) = Some f1) by (rewrite B3; apply nthE_mid).
  destruct (ack_keeps_pending st' off (off + Zlen d) fin) as (A1 & A2).
  destruct (deliv_keeps st' true off (off + Zlen d) fin) as (A3 & _).
  assert (S3 : exists sc, net_step sb (NOutcome (Zlen (n_emitted s)) true) = Some (ONone, sc) /\
             n_send sc = snd (on_data_delivery st' true off (off + Zlen d) fin) /\ n_written sc = n_written s /\
             n_emitted sc = n_emitted s ++ [mkEF off d fin true (Some true)]).
  { cbn [net_step]. rewrite Eb. cbn [f1 ef_out ef_deliv is_noneb negb orb andb ef_key ef_off ef_data ef_fin]. rewrite B1.
    destruct (on_data_delivery st' true off (off + Zlen d) fin) as [so2 st2]. eexists. split; [reflexivity|].
    cbn [n_send n_written n_emitted snd]. rewrite B3, set_nth_mid. auto. }
  destruct S3 as (sc & S3 & C1 & C2 & C3).
  exists off, d, fin, sa, ob, sb, sc.
  split; [exact S1|]. split; [exact Ea|]. split; [exact S2|]. split; [exact Hne2|]. split; [exact S3|].
  split; [unfold quiet; rewrite C3, outs_of_app; unfold quiet in Q; rewrite Q; reflexivity|].
  split; [exact C2|]. rewrite C1. split; [rewrite A3; exact K1|].
  unfold meas in *. rewrite A1, A2. exact GR.
Qed.

Lemma mem_first lo a b t o : wf_from lo ((a, b) :: t) -> mem o ((a, b) :: t) -> a <= o.
Proof.
  cbn [wf_from mem]. intros (W1 & W2 & W3) [H|H]; [lia|]. pose proof (mem_above _ _ _ W3 H). lia.
Qed.

(* in a quiet state the first pending offset is a retransmission, or the round's MAX_DATA gives credit for it *)
Lemma credit_for_first_pending s start rstop rest : FInv s -> quiet (f_net s) ->
  s_pending (n_send (f_net s)) = (start, rstop) :: rest ->
  start < s_highest (n_send (f_net s)) \/ start < raised s.
Proof.
  intros I Q EP. destruct (Z_lt_dec start (s_highest (n_send (f_net s)))) as [Hlt|Hge]; [left; exact Hlt|right].
  pose proof (fi_reach _ I) as R. pose proof (nreach_inv _ R) as NI. destruct (ni_reach _ NI) as (outs & Rs & _).
  pose proof (reach_inv _ _ Rs) as V. pose proof (v_pwf _ _ V) as W. rewrite EP in W.
  pose proof (v_stop _ _ V) as Hsp. cbn [g_written] in Hsp.
  destruct (h_hs _ (nreach_hinv _ R)) as [H1 H2].
  assert (Hrs : rstop <= s_stop (n_send (f_net s))).
  { pose proof (v_pmax _ _ V (rstop - 1)) as P. rewrite EP in P. cbn [mem] in P. cbn [wf_from] in W.
    assert (Hq : start <= rstop - 1 < rstop) by lia. specialize (P (or_introl Hq)). lia. }
  assert (Hw2 : start < rstop) by (cbn [wf_from] in W; lia).
  assert (Heq : start = s_highest (n_send (f_net s))).
  { destruct (Z.eq_dec start (s_highest (n_send (f_net s)))) as [|Hn]; [assumption|exfalso].
    assert (X : s_highest (n_send (f_net s)) < s_highest (n_send (f_net s))); [|lia].
    apply H2; [lia|]. rewrite EP. intros Hm. pose proof (mem_first _ _ _ _ _ W Hm). lia. }
  pose proof (fi_used _ I). pose proof (fi_cred _ I). pose proof (fi_max _ I). pose proof (fi_lpos _ I).
  pose proof (fi_lused _ I). pose proof (fi_rhigh _ I).
  assert (Hlu : start = 0 \/ start <= f_lused s).
  { destruct (Z.eq_dec start 0) as [|Hn]; [left; assumption|right].
    destruct (quiet_partition _ R Q) as (P1 & _).
    destruct (P1 (start - 1) ltac:(lia)) as [Ha|Hm].
    - pose proof (fi_acked _ I (start - 1) ltac:(lia) Ha). lia.
    - rewrite EP in Hm. pose proof (mem_first _ _ _ _ _ W Hm). lia. }
  unfold raised. destruct (f_lused s * 2 >? f_lval s) eqn:E; lia.
Qed.

Lemma run_fc_cons b s op o s1 t : fc_step b s op = Some (FOk o, s1) -> o <> OFinalSizeError ->
  run_fc b s (op :: t) = run_fc b s1 t.
Proof. intros H Hn. cbn [run_fc]. rewrite H. destruct o; try reflexivity. contradiction Hn. reflexivity. Qed.

Lemma fc_deliver_enabled b s i f ob nb : FInv s -> nthE (n_emitted (f_net s)) i = Some f ->
  net_step (f_net s) (NDeliver i) = Some (ob, nb) -> ob <> OFinalSizeError ->
  fc_step b s (FDeliver i) =
    Some (FOk ob, mkFC nb (f_max s) (f_used s) (f_lval s) (f_lused s + newly_of s f) (f_adv s)).
Proof.
  intros I E S Hne. destruct (fc_deliver_ok s i f I E) as (G & _).
  cbn [fc_step]. rewrite E. fold (newly_of s f). rewrite G, S. destruct ob; try reflexivity. contradiction Hne. reflexivity.
Qed.

Lemma fc_idle_false s : fc_idle s = false ->
  s_pending (n_send (f_net s)) <> [] \/ s_pending_eof (n_send (f_net s)) = true.
Proof.
  unfold fc_idle. destruct (s_pending (n_send (f_net s))); [|intros _; left; discriminate].
  destruct (s_pending_eof (n_send (f_net s))); [intros _; right; reflexivity|discriminate].
Qed.

Lemma fc_idle_true s : fc_idle s = true ->
  s_pending (n_send (f_net s)) = [] /\ s_pending_eof (n_send (f_net s)) = false.
Proof.
  unfold fc_idle. destruct (s_pending (n_send (f_net s))); [|discriminate].
  destruct (s_pending_eof (n_send (f_net s))); [discriminate|auto].
Qed.

(* one round: raise, MAX_DATA, emit, deliver, acknowledge *)
Lemma fc_round_progress w s ms : 0 < w -> fc_reach BaseHighest w s -> quiet (f_net s) -> 0 < ms -> fc_idle s = false ->
  exists s', run_fc BaseHighest s (fc_round ms s) = Some s' /\ quiet (f_net s') /\
    n_written (f_net s') = n_written (f_net s) /\ s_fin (n_send (f_net s')) = s_fin (n_send (f_net s)) /\
    meas (n_send (f_net s')) <= meas (n_send (f_net s)) - 1.
Proof.
  intros Hw R Q Hm Hidle. pose proof (fc_reach_inv w s Hw R) as I.
  (* FRaise *)
  set (sa := mkFC (f_net s) (f_max s) (f_used s) (raised s) (f_lused s)
                  (if f_lused s * 2 >? f_lval s then f_adv s ++ [raised s] else f_adv s)).
  assert (S1 : fc_step BaseHighest s FRaise = Some (FOk ONone, sa)) by reflexivity.
  assert (Ra : fc_reach BaseHighest w sa) by (eapply fr_step; [exact R|exact S1]).
  pose proof (fc_reach_inv w sa Hw Ra) as Ia.
  (* FMaxData *)
  set (sb := mkFC (f_net s) (if raised s >? f_max s then raised s else f_max s) (f_used s) (raised s) (f_lused s) (f_adv sa)).
  assert (S2 : fc_step BaseHighest sa (FMaxData (raised s)) = Some (FOk ONone, sb)).
  { cbn [fc_step]. assert (X : existsb (Z.eqb (raised s)) (f_adv sa) = true).
    { apply existsb_exists. exists (raised s). split; [exact (fi_lval_adv _ Ia)|lia]. }
    rewrite X. reflexivity. }
  assert (Rb : fc_reach BaseHighest w sb) by (eapply fr_step; [exact Ra|exact S2]).
  (* FEmit *)
  assert (Hmo : forall start rstop rest, s_pending (n_send (f_net s)) = (start, rstop) :: rest ->
                  start < fc_max_offset BaseHighest sb).
  { intros start rstop rest EP. pose proof (fi_used _ I). pose proof (fi_cred _ I).
    unfold fc_max_offset, base_off. cbn [sb f_net f_max f_used].
    destruct (credit_for_first_pending s start rstop rest I Q EP) as [X|X];
      destruct (raised s >? f_max s) eqn:E; lia. }
  destruct (round_run_mo (f_net s) ms (fc_max_offset BaseHighest sb) (fi_reach _ I) Q Hm Hmo (fc_idle_false s Hidle))
    as (off & d & fin & na & ob & nb & nc & E1 & Ea & E2 & Hne & E3 & Qc & Wc & Fc & Mc).
  set (sc := mkFC na (f_max sb) (f_used sb + (s_highest (n_send na) - s_highest (n_send (f_net sb))))
                  (f_lval sb) (f_lused sb) (f_adv sb)).
  assert (S3 : fc_step BaseHighest sb (FEmit ms) = Some (FOk (OFrame off d fin), sc)).
  { cbn [fc_step]. change (f_net sb) with (f_net s). rewrite E1. reflexivity. }
  assert (Rc : fc_reach BaseHighest w sc) by (eapply fr_step; [exact Rb|exact S3]).
  pose proof (fc_reach_inv w sc Hw Rc) as Ic.
  (* FDeliver *)
  pose proof (fc_deliver_enabled BaseHighest sc (Zlen (n_emitted (f_net s))) _ ob nb Ic Ea E2 Hne) as S4.
  set (sd := mkFC nb (f_max sc) (f_used sc) (f_lval sc)
                  (f_lused sc + newly_of sc (mkEF off d fin false None)) (f_adv sc)) in S4.
  (* FOutcome *)
  assert (S5 : fc_step BaseHighest sd (FOutcome (Zlen (n_emitted (f_net s))) true) = Some (FOk ONone, with_net sd nc)).
  { cbn [fc_step]. change (f_net sd) with nb. rewrite E3. reflexivity. }
  exists (with_net sd nc). split.
  - unfold fc_round.
    rewrite (run_fc_cons _ _ _ _ _ _ S1) by discriminate.
    rewrite (run_fc_cons _ _ _ _ _ _ S2) by discriminate.
    rewrite (run_fc_cons _ _ _ _ _ _ S3) by discriminate.
    rewrite (run_fc_cons _ _ _ _ _ _ S4 Hne).
    rewrite (run_fc_cons _ _ _ _ _ _ S5) by discriminate. reflexivity.
  - cbn [with_net f_net]. auto.
Qed.

Lemma meas_zero_idle st g : SInv st g -> meas st <= 0 -> s_pending st = [] /\ s_pending_eof st = false.
Proof.
  intros V H. unfold meas in H. pose proof (v_pwf _ _ V) as W.
  destruct (s_pending st) as [|[a b] t].
  - split; [reflexivity|]. destruct (s_pending_eof st); [cbn in H; lia|reflexivity].
  - exfalso. cbn [wf_from] in W. destruct W as (W1 & W2 & W3). pose proof (psize_nonneg t b W3).
    cbn [psize] in H. destruct (s_pending_eof st); cbn [b2z] in H; lia.
Qed.

Lemma fc_pump_run w ms : 0 < w -> 0 < ms -> forall n s, fc_reach BaseHighest w s -> quiet (f_net s) ->
  meas (n_send (f_net s)) <= Z.of_nat n ->
  exists s', run_fc BaseHighest s (fc_pump n BaseHighest ms s) = Some s' /\ fc_reach BaseHighest w s' /\
    quiet (f_net s') /\ fc_idle s' = true /\
    n_written (f_net s') = n_written (f_net s) /\ s_fin (n_send (f_net s')) = s_fin (n_send (f_net s)).
Proof.
  intros Hw Hm. induction n as [|n IH]; intros s R Q Hn.
  - cbn [fc_pump run_fc]. exists s. split; [reflexivity|]. split; [exact R|]. split; [exact Q|].
    split; [|auto]. pose proof (nreach_inv _ (fc_reach_nreach _ _ _ R)) as NI.
    destruct (ni_reach _ NI) as (outs & Rs & _).
    destruct (meas_zero_idle _ _ (reach_inv _ _ Rs) ltac:(lia)) as (P1 & P2). unfold fc_idle. rewrite P1, P2. reflexivity.
  - cbn [fc_pump]. destruct (fc_idle s) eqn:Ei.
    + cbn [run_fc]. exists s. auto 10.
    + destruct (fc_round_progress w s ms Hw R Q Hm Ei) as (s1 & Hrun & Q1 & W1 & F1 & M1). rewrite Hrun.
      pose proof (run_fc_reach _ _ _ _ _ R Hrun) as R1.
      destruct (IH s1 R1 Q1 ltac:(lia)) as (s' & Hrun' & R' & Q' & I' & W' & F').
      exists s'. split; [rewrite run_fc_app, Hrun; exact Hrun'|]. split; [exact R'|]. split; [exact Q'|].
      split; [exact I'|]. split; congruence.
Qed.

(* phase A: LOST for every frame without outcome *)
Definition is_outcome (op : nop) : Prop := match op with NOutcome _ _ => True | _ => False end.
Definition fop_of (op : nop) : fop := match op with NOutcome i a => FOutcome i a | _ => FPop end.

Lemma lose_from_outcomes : forall l i, Forall is_outcome (lose_from i l).
Proof.
  induction l as [|f t IH]; intros i; cbn [lose_from]; [constructor|].
  destruct (noout f); cbn [app]; [constructor; [exact Logic.I|]|]; apply IH.
Qed.

Lemma outcome_out s i a o s' : net_step s (NOutcome i a) = Some (o, s') -> o = ONone.
Proof.
  cbn [net_step]. destruct (nthE (n_emitted s) i) as [f|]; [|discriminate].
  destruct (is_noneb (ef_out f) && (negb a || ef_deliv f)); [|discriminate]. unfold ef_key.
  destruct (on_data_delivery (n_send s) a (ef_off f) (ef_off f + Zlen (ef_data f)) (ef_fin f)) as [so st'].
  intros H. inversion H. reflexivity.
Qed.

Lemma with_net_same s : with_net s (f_net s) = s.
Proof. destruct s; reflexivity. Qed.

Lemma run_fc_outcomes b : forall ops s n1, Forall is_outcome ops -> run_sched (f_net s) ops = Some n1 ->
  run_fc b s (map fop_of ops) = Some (with_net s n1).
Proof.
  induction ops as [|op t IH]; intros s n1 F H; cbn [map run_fc run_sched] in *.
  - inversion H; subst. rewrite with_net_same. reflexivity.
  - inversion F as [|x l Fo Ft]; subst. destruct op; try contradiction. cbn [fop_of fc_step].
    destruct (net_step (f_net s) (NOutcome i acked)) as [[o n2]|] eqn:S; [|discriminate].
    pose proof (outcome_out _ _ _ _ _ S) as ->. cbn [lift_net].
    exact (IH (with_net s n2) n1 Ft H).
Qed.

Theorem fair_schedule_completes_fc w s ms : 0 < w -> fc_reach BaseHighest w s -> 0 < ms ->
  exists s', run_fc BaseHighest s (fc_complete BaseHighest ms s) = Some s' /\
    n_written (f_net s') = n_written (f_net s) /\ n_dbytes (f_net s') = n_written (f_net s) /\
    (eof (f_net s) -> n_ends (f_net s') = 1 /\ s_finished (n_send (f_net s')) = true) /\
    (~ eof (f_net s) -> n_ends (f_net s') = 0 /\ s_finished (n_send (f_net s')) = false).
Proof.
  intros Hw R Hm. pose proof (fc_reach_nreach _ _ _ R) as Rn.
  destruct (lose_all_run (f_net s) Rn) as (n1 & Hr1 & R1 & Q1 & (_ & W1 & _ & F1 & _ & _) & _).
  assert (HrA : run_fc BaseHighest s (fc_lose_all s) = Some (with_net s n1)).
  { unfold fc_lose_all. change (fun op : nop => match op with NOutcome i a => FOutcome i a | _ => FPop end) with fop_of.
    apply run_fc_outcomes; [apply lose_from_outcomes|exact Hr1]. }
  set (s1 := with_net s n1) in *.
  pose proof (run_fc_reach _ _ _ _ _ R HrA) as Rs1.
  pose proof (nreach_inv _ R1) as I1. destruct (ni_reach _ I1) as (outs1 & Rsn & _). pose proof (reach_inv _ _ Rsn) as V1.
  assert (Hfuel : meas (n_send (f_net s1)) <= Z.of_nat (Z.to_nat (pbytes (s_pending (n_send (f_net s1))) + 1))).
  { cbn [s1 with_net f_net]. rewrite pbytes_psize. pose proof (psize_nonneg _ _ (v_pwf _ _ V1)). unfold meas.
    pose proof (b2z_range (s_pending_eof (n_send n1))). lia. }
  destruct (fc_pump_run w ms Hw Hm _ s1 Rs1 Q1 Hfuel) as (s' & Hr2 & R' & Q' & Id' & W' & F').
  unfold fc_complete. rewrite HrA. exists s'. split; [rewrite run_fc_app, HrA; exact Hr2|].
  destruct (fc_idle_true _ Id') as (P1 & P2).
  destruct (quiet_idle_complete (f_net s') (fc_reach_nreach _ _ _ R') Q' P1 P2) as (D & E1 & E2).
  cbn [s1 with_net f_net] in W', F'.
  assert (Heof : eof (f_net s') <-> eof (f_net s)) by (unfold eof; rewrite F', F1; tauto).
  split; [congruence|]. split; [congruence|].
  split; [intros H; apply E1, Heof, H|intros H; apply E2; intros X; apply H, Heof, X].
Qed.

(* non-vacuity / executability: w = 4, ten bytes and a FIN written, three bytes emitted and lost *)
Definition fc_mid : fc :=
  match run_fc BaseHighest (fc_init 4) [FWrite [1; 2; 3; 4; 5; 6; 7; 8; 9; 10] true; FEmit 3; FOutcome 0 false] with
  | Some s => s | None => fc_init 4 end.

Example fc_mid_reach : fc_reach BaseHighest 4 fc_mid.
Proof.
  apply (run_fc_reach BaseHighest 4 [FWrite [1; 2; 3; 4; 5; 6; 7; 8; 9; 10] true; FEmit 3; FOutcome 0 false] (fc_init 4));
    [apply fr_init|vm_compute; reflexivity].
Qed.

Example fc_complete_example :
  n_dbytes (f_net fc_mid) = [] /\ f_max fc_mid - f_used fc_mid = 1 /\
  match run_fc BaseHighest fc_mid (fc_complete BaseHighest 2 fc_mid) with
  | Some s => n_dbytes (f_net s) = [1; 2; 3; 4; 5; 6; 7; 8; 9; 10] /\ n_ends (f_net s) = 1 /\
              s_finished (n_send (f_net s)) = true /\ fc_done s = true
  | None => False
  end.
Proof. vm_compute. repeat split; reflexivity. Qed.
