(* C14: unidirectional streams, ANY number of deliveries (model of the patched code): an invariant of the stream
   between two deliveries that is true of a new stream and kept by every delivery, and chunks = whole by induction
   on the list of deliveries from the two-delivery theorem uni_two. *)
From AQ Require Import lib.Base lib.Tok model.H3Parse proofs.H3Chunk proofs.H3Split proofs.H3Loop proofs.H3Recv proofs.H3Fin
  proofs.H3Uni.
From Coq Require Import ZifyBool.

(* not blocked, no frame open, no WebTransport session: a stream whose type is not known yet, a control / QPACK / unknown
   stream, a push stream whose push id is still incomplete, a WebTransport stream whose session id is still incomplete *)
Definition plain (st : hstream) : Prop := s_blocked st = false /\ s_cur st = None /\ s_session st = None.

(* what holds of a unidirectional stream between two deliveries *)
Definition uinv (st : hstream) : Prop :=
  s_ended st = false /\
  ((s_stype st = Some 1 /\ s_push st <> None /\ stream_ok st) \/
   plain st \/
   (s_stype st = Some 84 /\ s_blocked st = false /\ s_cur st = None /\ s_session st <> None /\ s_buf st = [])).

Lemma uinv_fresh : forall sid, uinv (new_stream sid).
Proof. intros sid. split; [reflexivity|]. right; left. repeat split. Qed.

Lemma uinv_ok : forall st, uinv st -> stream_ok st.
Proof.
  intros st (He & [(_ & _ & H) | [(B & C & S) | (_ & B & C & S & F)]]); [assumption| |].
  - repeat split; [assumption| |]; intros; congruence.
  - repeat split; [assumption| |]; intros; congruence.
Qed.

Lemma is_ctrl_same : forall st st1 d x, s_stype st1 = s_stype st -> (s_stype st = None -> s_buf st1 = s_buf st ++ d) ->
  is_ctrl st1 x = is_ctrl st (d ++ x).
Proof.
  intros st st1 d x H1 H2. unfold is_ctrl. rewrite H1. destruct (s_stype st); [reflexivity|].
  rewrite H2 by reflexivity. rewrite app_assoc. reflexivity.
Qed.

Lemma is_ctrl_typed : forall st st1 d x t r, s_stype st = None -> pull_uint_var (s_buf st ++ d) = Some (t, r) ->
  s_stype st1 = Some t -> is_ctrl st1 x = is_ctrl st (d ++ x).
Proof.
  intros st st1 d x t r H1 H2 H3. unfold is_ctrl. rewrite H1, H3, app_assoc, (pull_app _ x _ _ H2). reflexivity.
Qed.

Lemma sb_stype : forall st b t, s_stype (set_stype (set_buf st b) t) = t.
Proof. destruct st; reflexivity. Qed.
Lemma sb_push : forall st b t, s_push (set_stype (set_buf st b) t) = s_push st.
Proof. destruct st; reflexivity. Qed.
Lemma sb_ended : forall st b t, s_ended (set_stype (set_buf st b) t) = s_ended st.
Proof. destruct st; reflexivity. Qed.
Lemma sp_stype : forall s p, s_stype (set_push s p) = s_stype s.
Proof. destruct s; reflexivity. Qed.
Lemma sp_push : forall s p, s_push (set_push s p) = p.
Proof. destruct s; reflexivity. Qed.
Lemma sp_ended : forall s p, s_ended (set_push s p) = s_ended s.
Proof. destruct s; reflexivity. Qed.
Lemma sp_same : forall s p, s_push s = Some p -> set_push s (Some p) = s.
Proof. destruct s; cbn; intros; subst; reflexivity. Qed.

Section UniN.
Variable fx : fixes.
Variable O : oracle.
Hypothesis Htr : fx_trunc fx = true.
Hypothesis Hem : fx_endmark fx = true.

(* the type of the stream after the delivery, and the bytes behind the type *)
Lemma typed_of_shape : forall st c buf t b1 c',
  typed_of st c buf = Some (inl (t, b1, c')) ->
  (s_stype st = Some t /\ b1 = buf) \/ (s_stype st = None /\ pull_uint_var buf = Some (t, b1)).
Proof.
  intros st c buf t b1 c' H. unfold typed_of in H. destruct (s_stype st) as [t0|].
  - inversion H; subst. left; split; reflexivity.
  - right. split; [reflexivity|]. destruct (pull_uint_var buf) as [[t' b']|]; [|discriminate].
    destruct (t' =? 0); [destruct (is_none (c_ctrl c)); inversion H; subst; reflexivity|].
    destruct (t' =? 3); [destruct (is_none (c_qdec c)); inversion H; subst; reflexivity|].
    destruct (t' =? 2); [destruct (is_none (c_qenc c)); inversion H; subst; reflexivity|].
    inversion H; subst; reflexivity.
Qed.

(* one delivery without FIN keeps the invariant, and tells the later deliveries whether this is the control stream *)
Lemma uni_step_inv : forall st c d e st1 c1 u, uinv st ->
  uni_spec fx O st c d false = UF e st1 c1 u ->
  uinv st1 /\ forall x, is_ctrl st1 x = is_ctrl st (d ++ x).
Proof.
  intros st c d e st1 c1 u Hinv H. pose proof (uinv_ok _ Hinv) as Hok. destruct Hinv as (He & Hsh).
  unfold uni_spec in H. cbv zeta in H.
  assert (Hst' : ustart st d false = set_buf st (s_buf st ++ d)).
  { unfold ustart. rewrite He. destruct st; cbn in *; subst; reflexivity. }
  rewrite Hst' in H.
  set (buf := s_buf st ++ d) in *.
  (* a plain stream stays plain when only its type / buffer change *)
  assert (PL : forall ty r, plain st -> uinv (set_buf (set_stype (set_buf st buf) ty) r)).
  { intros ty r (B & C & S). split; [destruct st; cbn in *; assumption|]. right; left.
    destruct st; cbn in *. repeat split; assumption. }
  assert (PL0 : plain st -> uinv (set_buf st buf)).
  { intros (B & C & S). split; [destruct st; cbn in *; assumption|]. right; left. destruct st; cbn in *. repeat split; assumption. }
  destruct (negb (stream_loops (s_stype st) || negb (is_nil buf))) eqn:E0.
  { inversion H; subst. split.
    - destruct Hsh as [(T & _) | [P | (T & _)]]; [rewrite T in E0; discriminate | apply PL0; assumption | rewrite T in E0; discriminate].
    - intros x. apply is_ctrl_same; destruct st; reflexivity. }
  destruct (typed_of (set_buf st buf) c buf) as [[[[t b1] c']|[]]|] eqn:Et; [| discriminate |].
  2:{ (* the type is still incomplete *)
      inversion H; subst. unfold typed_of in Et.
      replace (s_stype (set_buf st buf)) with (s_stype st) in Et by (destruct st; reflexivity).
      destruct (s_stype st) eqn:Ety; [discriminate|]. split.
      - destruct Hsh as [(T & _) | [P | (T & _)]]; [congruence | apply PL0; assumption | congruence].
      - intros x. apply is_ctrl_same; destruct st; cbn in *; congruence. }
  pose proof (typed_of_shape _ _ _ _ _ _ Et) as Shape.
  replace (s_stype (set_buf st buf)) with (s_stype st) in Shape by (destruct st; reflexivity).
  (* the control-stream flag seen by later deliveries *)
  assert (IC : forall s2, s_stype s2 = Some t -> forall x, is_ctrl s2 x = is_ctrl st (d ++ x)).
  { intros s2 H2 x. destruct Shape as [(T & _) | (T & P)].
    - unfold is_ctrl. rewrite H2, T. reflexivity.
    - eapply is_ctrl_typed; eauto. }
  (* which shape the stream had, given its (new) type *)
  assert (NP : t <> 1 -> t <> 84 -> plain st).
  { intros N1 N84. destruct Hsh as [(T & _) | [P | (T & _)]]; [|assumption|];
      destruct Shape as [(T' & _) | (T' & _)]; congruence. }
  unfold tspec in H.
  destruct (t =? 0) eqn:E0t.
  { assert (t = 0) by lia. subst t. cbn [negb] in H.
    destruct (ctrl_loop fx (S (length b1)) c' b1) as [c2 r| |]; cbn [of_cres] in H; try discriminate.
    inversion H; subst. split; [apply PL; apply NP; lia | apply IC; destruct st; reflexivity]. }
  destruct (t =? 1) eqn:E1t.
  { assert (t = 1) by lia. subst t.
    unfold push_parse in H.
    replace (s_push (set_stype (set_buf st buf) (Some 1))) with (s_push st) in H by (destruct st; reflexivity).
    assert (Recv : forall s2 r, s_stype s2 = Some 1 -> s_push s2 <> None -> s_ended s2 = false ->
              stream_ok (set_ended (set_buf s2 []) false) ->
              of_rres c' (rq_recv fx O (c_client c') (set_buf s2 r) [] false) = UF e st1 c1 u ->
              uinv st1 /\ forall x, is_ctrl st1 x = is_ctrl st (d ++ x)).
    { intros s2 r T2 P2 E2 OK2 HR.
      rewrite rq_recv_norm in HR by (right; destruct s2; assumption).
      replace (set_ended (set_buf (set_buf s2 r) []) false) with (set_ended (set_buf s2 []) false) in HR
        by (destruct s2; reflexivity).
      destruct (rq_recv fx O (c_client c') (set_ended (set_buf s2 []) false) (s_buf (set_buf s2 r) ++ []) false)
        as [e3 s3| |] eqn:ER; cbn [of_rres] in HR; try discriminate.
      inversion HR; subst.
      pose proof (rq_recv_keeps fx O _ _ _ _ _ _ ER) as (K1 & K2).
      pose proof (recv_ok fx O (c_client c1) Htr Hem _ _ _ _ OK2 ER) as OK3.
      assert (T3 : s_stype st1 = Some 1) by (rewrite K1; destruct s2; cbn in *; assumption).
      split; [| apply IC; assumption].
      split; [apply OK3|]. left. repeat split; try assumption; try apply OK3.
      rewrite K2. destruct s2; cbn in *; assumption. }
    assert (BaseOK : forall z, stream_ok (set_ended (set_buf (set_push (set_stype (set_buf st buf) (Some 1)) z) []) false)).
    { intros z. pose proof (ok_push_base st (Some 1) z Hok) as B.
      replace (set_ended (set_buf (set_push (set_stype (set_buf st buf) (Some 1)) z) []) false)
        with (set_ended (set_buf (set_push (set_stype st (Some 1)) z) []) false) by (destruct st; reflexivity).
      assumption. }
    destruct (s_push st) as [p|] eqn:Ep.
    - apply (Recv (set_stype (set_buf st buf) (Some 1)) b1).
      + apply sb_stype.
      + rewrite sb_push, Ep. discriminate.
      + rewrite sb_ended. assumption.
      + rewrite <- (sp_same (set_stype (set_buf st buf) (Some 1)) p) by (rewrite sb_push; assumption). apply BaseOK.
      + assumption.
    - destruct (pull_uint_var b1) as [[p r]|] eqn:Pp.
      + apply (Recv (set_push (set_stype (set_buf st buf) (Some 1)) (Some p)) r).
        * rewrite sp_stype. apply sb_stype.
        * rewrite sp_push. discriminate.
        * rewrite sp_ended, sb_ended. assumption.
        * apply BaseOK.
        * assumption.
      + inversion H; subst. split; [| apply IC; destruct st; reflexivity].
        apply PL. destruct Hsh as [(_ & P & _) | [P | (T & _)]]; [congruence | assumption |].
        destruct Shape as [(T' & _) | (T' & _)]; congruence. }
  destruct (t =? 84) eqn:E84t.
  { assert (t = 84) by lia. subst t.
    unfold sess_parse in H.
    replace (s_session (set_stype (set_buf st buf) (Some 84))) with (s_session st) in H by (destruct st; reflexivity).
    assert (NB : s_blocked st = false /\ s_cur st = None).
    { destruct Hsh as [(T & _) | [(B & C & _) | (_ & B & C & _)]]; [|split; assumption|split; assumption].
      destruct Shape as [(T' & _) | (T' & _)]; congruence. }
    destruct NB as (NB1 & NB2).
    destruct (s_session st) as [p|] eqn:Es.
    - inversion H; subst. split; [| apply IC; destruct st; reflexivity].
      split; [destruct st; cbn in *; assumption|]. right; right.
      destruct st; cbn in *. repeat split; try assumption; congruence.
    - destruct (pull_uint_var b1) as [[p r]|] eqn:Pp.
      + inversion H; subst. split; [| apply IC; destruct st; reflexivity].
        split; [destruct st; cbn in *; assumption|]. right; right.
        destruct st; cbn in *. repeat split; try assumption; congruence.
      + inversion H; subst. split; [| apply IC; destruct st; reflexivity].
        apply PL. repeat split; assumption. }
  assert (Pl : plain st) by (apply NP; lia).
  destruct (t =? 3).
  { destruct (o_ds O b1); [|discriminate]. inversion H; subst.
    split; [apply PL; assumption | apply IC; destruct st; reflexivity]. }
  destruct (t =? 2).
  { destruct (o_enc O b1); [|discriminate]. inversion H; subst.
    split; [apply PL; assumption | apply IC; destruct st; reflexivity]. }
  inversion H; subst. split; [apply PL; assumption | apply IC; destruct st; reflexivity].
Qed.

(* ------------------------------------------------------------------ any number of deliveries *)
Fixpoint ufeed (st : hstream) (c : conn) (chunks : list (list Z * bool)) : ufull :=
  match chunks with
  | [] => UF [] st c []
  | (d, f) :: rest => ubind (uni_full fx O st c d f) (fun st1 c1 => ufeed st1 c1 rest)
  end.

Lemma uequiv_trans : forall a b c, uequiv a b -> uequiv b c -> uequiv a c.
Proof.
  intros [e1 s1 c1 u1|k1 c1|k1] [e2 s2 c2 u2|k2 c2|k2] [e3 s3 c3 u3|k3 c3|k3]; cbn; try tauto; try congruence.
  intros (A1 & A2 & A3 & A4) (B1 & B2 & B3 & B4). repeat split; congruence.
Qed.

Lemma uequiv_sym : forall a b, uequiv a b -> uequiv b a.
Proof.
  intros [e1 s1 c1 u1|k1 c1|k1] [e2 s2 c2 u2|k2 c2|k2]; cbn; try tauto; try congruence.
  intros (A1 & A2 & A3 & A4). repeat split; congruence.
Qed.

Lemma ubind_ret : forall r, uequiv (ubind r (fun s c => UF [] s c [])) r.
Proof. destruct r; cbn; auto. rewrite !app_nil_r. auto. Qed.

(* the continuations only need to agree on what the first delivery can return *)
Lemma ubind_cong : forall r k1 k2,
  (forall e st c u, r = UF e st c u -> uequiv (k1 st c) (k2 st c)) -> uequiv (ubind r k1) (ubind r k2).
Proof.
  intros r k1 k2 H. destruct r as [e st c u| |]; cbn; auto.
  specialize (H e st c u eq_refl). destruct (k1 st c), (k2 st c); cbn in *; try tauto.
  destruct H as (H1 & H2 & H3 & H4). rewrite !norm_app. repeat split; congruence.
Qed.

Theorem uni_chunks : ds_seq O -> enc_seq O ->
  forall parts st c first fin, uinv st ->
  (fin = true -> is_ctrl st (first ++ concat parts) = false) ->
  uequiv (ufeed st c (mk_chunks first parts fin)) (uni_full fx O st c (first ++ concat parts) fin).
Proof.
  intros Hds Henc. induction parts as [|p ps IH]; intros st c first fin Hinv Hc.
  - cbn [mk_chunks ufeed concat]. rewrite app_nil_r. apply ubind_ret.
  - cbn [mk_chunks ufeed concat].
    eapply uequiv_trans;
      [| apply uequiv_sym; apply (uni_two fx O st c first (p ++ concat ps) fin Htr Hem (uinv_ok _ Hinv) Hds Henc Hc)].
    apply ubind_cong. intros e st1 c1 u E.
    rewrite uni_full_spec in E. destruct (uni_step_inv _ _ _ _ _ _ _ Hinv E) as (I1 & IC).
    apply IH; [assumption|]. intros Hf. rewrite IC. apply Hc. assumption.
Qed.

(* the invariant is kept by every delivery without FIN (so it holds of every state a unidirectional stream can be in
   between two deliveries, starting from a new stream) *)
Lemma uinv_preserved : forall st c d e st1 c1 u, uinv st -> uni_full fx O st c d false = UF e st1 c1 u -> uinv st1.
Proof. intros st c d e st1 c1 u H E. rewrite uni_full_spec in E. apply (uni_step_inv _ _ _ _ _ _ _ H E). Qed.

End UniN.
