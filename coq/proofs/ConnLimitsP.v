(* Proofs about model/ConnLimits.v (C07): the order and codes of the limit checks, and the
   boundedness of everything a peer can make this endpoint hold. *)
From Coq Require Import ZArith List Bool Lia ZifyBool.
From AQ Require Import lib.Base model.RangeSet model.StreamRecv model.ConnLimits gen.C07Consts
  proofs.RangeSetP proofs.ListZ.

(* ------------------------------------------------------------------------------------ *)
(* Receiver: a bound invariant that (unlike C10's Inv) also survives an accepted reset.   *)

Definition top (st : recv) : Z := r_start st + Zlen (r_buf st).

Record RB (st : recv) : Prop := {
  b_start : 0 <= r_start st;
  b_wf : wf_from (r_start st) (r_ranges st);
  b_inbuf : forall o, mem o (r_ranges st) -> o < top st;
  b_top : top st <= r_highest st
}.

Lemma RB_init : RB recv_init.
Proof. constructor; unfold top; cbn; try tauto; lia. Qed.

Lemma RB_at base : 0 <= base -> RB (recv_at base).
Proof. intros; constructor; unfold top; cbn; try tauto; lia. Qed.

Ltac hf_finish G :=
  split; [apply G|]; split; [cbn [r_start]; lia|]; split; [unfold top in *; cbn [r_start r_buf]; lia|];
  split; [discriminate|]; intros _; cbn [r_highest]; lia.

Lemma hf_bounds st off data fin :
  RB st ->
  let '(o, st') := handle_frame st off data fin in
  RB st' /\ r_start st <= r_start st' /\ top st' <= Z.max (top st) (off + Zlen data) /\
  (o = RFinalSizeError -> st' = st) /\
  (o <> RFinalSizeError -> r_highest st' = Z.max (r_highest st) (off + Zlen data)).
Proof.
  intros B. pose proof (Zlen_nonneg data) as Hdl. pose proof (Zlen_nonneg (r_buf st)) as Hbl.
  pose proof (b_start _ B) as Hs0. pose proof (b_top _ B) as Ht.
  unfold handle_frame. set (e := off + Zlen data).
  destruct (match r_final st with Some f => (e >? f) || (fin && negb (e =? f)) | None => false end) eqn:Ebad.
  { split; [exact B|]. split; [lia|]. split; [lia|]. split; [reflexivity|]. intros H; exfalso; apply H; reflexivity. }
  set (final' := if fin then Some e else r_final st).
  set (hi' := if e >? r_highest st then e else r_highest st).
  assert (Hhi : hi' = Z.max (r_highest st) e) by (unfold hi'; destruct (e >? r_highest st) eqn:E; lia).
  destruct ((off - r_start st =? 0) && negb (Zlen data =? 0) && match r_buf st with [] => true | _ => false end) eqn:Efast.
  - assert (Hp : off = r_start st) by lia.
    assert (Hb : r_buf st = []) by (destruct (r_buf st); [reflexivity|rewrite andb_false_r in Efast; discriminate]).
    assert (Hr : r_ranges st = []).
    { destruct (r_ranges st) as [|[s e1] t] eqn:R; [reflexivity|exfalso].
      pose proof (b_wf _ B) as W. pose proof (b_inbuf _ B s) as I. unfold top in I. rewrite R in *. cbn in W, I.
      rewrite Hb, Zlen_nil in I. lia. }
    assert (G : RB (mkRecv hi' (if fin then true else r_finished st) (r_buf st) (r_start st + Zlen data) final' (r_ranges st))).
    { unfold top in *. rewrite Hb, Zlen_nil in *.
      constructor; unfold top; cbn [r_start r_buf r_highest r_ranges]; rewrite ?Hb, ?Hr, ?Zlen_nil; cbn; try tauto; lia. }
    unfold top in *. rewrite Hb, Zlen_nil in *.
    split; [exact G|]. split; [cbn [r_start]; lia|]. split; [cbn [r_start r_buf]; rewrite ?Hb, ?Zlen_nil; lia|].
    split; [discriminate|]. intros _. cbn [r_highest]. lia.
  - clear Efast.
    set (pos0 := off - r_start st).
    assert (Htrim : exists data1 off1 pos1,
      (if pos0 <? 0 then (zdrop (- pos0) data, off - pos0, 0) else (data, off, pos0)) = (data1, off1, pos1) /\
      off1 = Z.max off (r_start st) /\ pos1 = off1 - r_start st /\ 0 <= pos1 /\
      Zlen data1 = Z.max 0 (e - off1)).
    { destruct (pos0 <? 0) eqn:E1.
      - exists (zdrop (- pos0) data), (off - pos0), 0. unfold pos0 in *. rewrite Zlen_zdrop.
        repeat split; try lia; try (unfold e; lia).
      - exists data, off, pos0. unfold pos0 in *. repeat split; try lia; try (unfold e; lia). }
    destruct Htrim as (data1 & off1 & pos1 & Htrim & Hoff1 & Hpos1 & Hpos1nn & Hd1len).
    rewrite Htrim. clear Htrim. cbv beta iota.
    set (ranges1 := if e >? off1 then add off1 e (r_ranges st) else r_ranges st).
    set (buf1 := splice (r_buf st) pos1 data1).
    pose proof (b_wf _ B) as W.
    assert (W1 : wf_from (r_start st - 1) ranges1 /\ forall x, mem x ranges1 <-> ((off1 <= x < e) \/ mem x (r_ranges st))).
    { unfold ranges1. destruct (e >? off1) eqn:E1.
      - apply add_spec; try lia. eapply wf_from_weaken; [exact W|lia].
      - split; [eapply wf_from_weaken; [exact W|lia]|]. intros x. split; [tauto|]. intros [Hx|Hx]; [lia|exact Hx]. }
    destruct W1 as (W1 & M1).
    assert (Hlen1 : Zlen buf1 = Z.max (Zlen (r_buf st)) (pos1 + Zlen data1)) by (apply Zlen_splice; exact Hpos1nn).
    assert (Htop1 : r_start st + Zlen buf1 <= Z.max (top st) e) by (unfold top; lia).
    assert (Hinbuf1 : forall o, mem o ranges1 -> o < r_start st + Zlen buf1).
    { intros o Ho. apply M1 in Ho. destruct Ho as [Ho|Ho]; [lia|]. pose proof (b_inbuf _ B o Ho). unfold top in *. lia. }
    unfold pull_data. cbn [r_ranges r_start r_buf r_highest r_finished r_final].
    fold ranges1 buf1.
    destruct ranges1 as [|[s e1] rest] eqn:R1.
    + cbn [r_final r_start r_highest r_finished r_buf r_ranges].
      assert (G : RB (mkRecv hi' (if opt_eqb final' (r_start st) then true else r_finished st) buf1 (r_start st) final' []) /\
                  r_start st <= r_start st /\ r_start st + Zlen buf1 <= Z.max (top st) e).
      { split; [|lia]. constructor; unfold top; cbn; try tauto; unfold top in *; lia. }
      destruct G as (G1 & _ & G3).
      destruct (opt_eqb final' (r_start st)); cbv beta iota; hf_finish G1.
    + destruct (s =? r_start st) eqn:Es.
      * assert (s = r_start st) by lia. subst s. clear Es.
        cbn in W1. destruct W1 as (_ & Hse & Wrest).
        pose proof (Hinbuf1 (e1 - 1)) as Hin. cbn in Hin. specialize (Hin ltac:(left; lia)).
        set (n := e1 - r_start st). assert (Hn : 0 < n <= Zlen buf1) by (unfold n; lia).
        cbn [r_final r_start r_highest r_finished r_buf r_ranges].
        assert (G : RB (mkRecv hi' (if opt_eqb final' e1 then true else r_finished st) (zdrop n buf1) e1 final' rest) /\
                    e1 + Zlen (zdrop n buf1) <= Z.max (top st) e).
        { assert (Hz : Zlen (zdrop n buf1) = Zlen buf1 - n) by (rewrite Zlen_zdrop; lia).
          split; [|unfold n in *; lia]. constructor; unfold top; cbn [r_start r_buf r_highest r_ranges].
          - lia.
          - exact Wrest.
          - intros o Ho. specialize (Hinbuf1 o). cbn in Hinbuf1. specialize (Hinbuf1 (or_intror Ho)). unfold n in *. lia.
          - unfold top in *. unfold n in *. lia. }
        destruct G as (G1 & G2).
        destruct (ztake n buf1) as [|b0 out]; destruct (opt_eqb final' e1); cbv beta iota; hf_finish G1.
      * cbn in W1. destruct W1 as (Hlo & Hse & Wrest). assert (Hgt : r_start st < s) by lia.
        cbn [r_final r_start r_highest r_finished r_buf r_ranges].
        assert (G : RB (mkRecv hi' (if opt_eqb final' (r_start st) then true else r_finished st) buf1 (r_start st) final' ((s, e1) :: rest))).
        { constructor; unfold top in *; cbn [r_start r_buf r_highest r_ranges];
            [lia | cbn; repeat split; (assumption || lia) | exact Hinbuf1 | lia]. }
        destruct (opt_eqb final' (r_start st)); cbv beta iota; hf_finish G.
Qed.

Lemma hr_bounds st fs :
  RB st ->
  let '(o, st') := handle_reset st fs in
  RB st' /\ r_start st' = r_start st /\ r_buf st' = r_buf st /\ r_highest st' = r_highest st.
Proof.
  intros B. unfold handle_reset.
  assert (G : RB (mkRecv (r_highest st) true (r_buf st) (r_start st) (Some fs) (r_ranges st))).
  { destruct B; constructor; unfold top in *; cbn; assumption. }
  destruct (r_final st) as [f|]; [destruct (negb (f =? fs))|]; cbn; auto.
Qed.

(* ------------------------------------------------------------------------------------ *)
(* Connection invariant                                                                   *)

Definition hi_of (p : Z * strm) : Z := r_highest (sm_recv (snd p)).
Definition buf_of (p : Z * strm) : Z := Zlen (r_buf (sm_recv (snd p))).
Definition sum_hi (l : list (Z * strm)) : Z := fold_right (fun p a => hi_of p + a) 0 l.
Definition sum_buf (l : list (Z * strm)) : Z := fold_right (fun p a => buf_of p + a) 0 l.

Definition SOK (s : strm) : Prop := RB (sm_recv s) /\ r_highest (sm_recv s) <= sm_msd s.

Record CInv (c : conn) : Prop := {
  ci_msd : 0 <= c_msd c;
  ci_streams : Forall (fun p => SOK (snd p)) (c_streams c);
  ci_sum : sum_hi (c_streams c) <= l_used (c_data c);
  ci_used : l_used (c_data c) <= l_value (c_data c);
  ci_bidi : 0 <= l_used (c_bidi c) <= l_value (c_bidi c);
  ci_uni : 0 <= l_used (c_uni c) <= l_value (c_uni c);
  ci_crypto : RB (c_crypto c) /\ Zlen (r_buf (c_crypto c)) <= MAX_PENDING_CRYPTO;
  ci_chal : Zlen (c_chal c) <= MAX_REMOTE_CHALLENGES;
  ci_lchal : Zlen (c_lchal c) <= MAX_LOCAL_CHALLENGES;
  ci_retire : Zlen (c_retire c) <= Z.min (LOCAL_ACTIVE_CID_LIMIT * 4) MAX_PENDING_RETIRES;
  ci_avail : 1 + Zlen (c_cid_avail c) <= LOCAL_ACTIVE_CID_LIMIT
}.

Lemma CInv_init cl msd md cb : 0 <= msd -> 0 <= md -> 0 <= cb -> CInv (conn_init cl msd md cb).
Proof.
  intros. constructor; cbn; try lia; try constructor; try (apply RB_at; assumption); try reflexivity; try discriminate.
  all: vm_compute; try discriminate; try (split; discriminate).
Qed.

Lemma sget_In sid l s : sget sid l = Some s -> In (sid, s) l.
Proof.
  induction l as [|[k s0] t IH]; cbn; [discriminate|]. destruct (k =? sid) eqn:E.
  - intros H; inversion H; subst. left. f_equal. lia.
  - intros H. right. apply IH, H.
Qed.

Lemma sget_app_new sid l s : sget sid l = None -> sget sid (l ++ [(sid, s)]) = Some s.
Proof.
  induction l as [|[k s0] t IH]; cbn; [rewrite Z.eqb_refl; reflexivity|]. destruct (k =? sid); [discriminate|exact IH].
Qed.

Lemma sum_hi_cons p t : sum_hi (p :: t) = hi_of p + sum_hi t.
Proof. reflexivity. Qed.
Lemma sum_buf_cons p t : sum_buf (p :: t) = buf_of p + sum_buf t.
Proof. reflexivity. Qed.

Lemma sum_hi_app l1 l2 : sum_hi (l1 ++ l2) = sum_hi l1 + sum_hi l2.
Proof. induction l1 as [|p t IH]; [reflexivity|]. cbn [app]. rewrite !sum_hi_cons, IH. lia. Qed.

Lemma sum_hi_sset sid l old s' : sget sid l = Some old ->
  sum_hi (sset sid s' l) = sum_hi l - r_highest (sm_recv old) + r_highest (sm_recv s').
Proof.
  induction l as [|[k s0] t IH]; cbn [sget sset]; [discriminate|]. destruct (k =? sid) eqn:E.
  - intros H; inversion H; subst. rewrite !sum_hi_cons. unfold hi_of; cbn. lia.
  - intros H. rewrite !sum_hi_cons, (IH H). unfold hi_of; cbn. lia.
Qed.

Lemma Forall_sset (P : Z * strm -> Prop) sid s' l :
  Forall P l -> (forall k, P (k, s')) -> Forall P (sset sid s' l).
Proof.
  induction l as [|[k s0] t IH]; cbn; intros H Hs.
  - constructor; [apply Hs|constructor].
  - inversion H; subst. destruct (k =? sid); constructor; auto.
Qed.

Lemma sum_hi_nonneg l : Forall (fun p => SOK (snd p)) l -> 0 <= sum_hi l.
Proof.
  induction 1 as [|p t H _ IH]; [cbn; lia|]. rewrite sum_hi_cons. destruct H as (B & _). destruct B. unfold hi_of, top in *.
  pose proof (Zlen_nonneg (r_buf (sm_recv (snd p)))). lia.
Qed.

(* _get_or_create_stream keeps the invariant; the stream it returns is in the table *)
Lemma goc_inv c sid s c1 :
  CInv c -> get_or_create c sid = GStream s c1 ->
  CInv c1 /\ sget sid (c_streams c1) = Some s /\ SOK s /\ c_data c1 = c_data c.
Proof.
  intros I. unfold get_or_create.
  destruct (existsb (Z.eqb sid) (c_done c)); [discriminate|].
  destruct (sget sid (c_streams c)) as [s0|] eqn:G.
  - intros H; inversion H; subst. split; [assumption|]. split; [assumption|]. split; [|reflexivity].
    pose proof (ci_streams _ I) as F. rewrite Forall_forall in F. apply (F (sid, s)), sget_In, G.
  - destruct (Bool.eqb (client_initiated sid) (c_client c)); [discriminate|].
    set (lim := if unidirectional sid then c_uni c else c_bidi c).
    destruct (sid / 4 + 1 >? l_value lim) eqn:E; [discriminate|].
    intros H; inversion H; subst. clear H.
    assert (SK : SOK (mkStrm (c_msd c) (c_msd c) (unidirectional sid) recv_init)).
    { split; [apply RB_init|cbn; apply (ci_msd _ I)]. }
    assert (L : 0 <= l_used lim <= l_value lim) by (unfold lim; destruct (unidirectional sid); [apply (ci_uni _ I)|apply (ci_bidi _ I)]).
    split; [|split; [|split; [exact SK|]]].
    + destruct I. destruct (unidirectional sid) eqn:U; constructor; cbn; try assumption;
        try (apply Forall_app; split; [assumption|constructor; [exact SK|constructor]]);
        try (rewrite sum_hi_app, sum_hi_cons; unfold hi_of; cbn; lia);
        try (fold lim; destruct (sid / 4 + 1 >? l_used lim) eqn:E2; cbn; unfold lim in *; lia).
    + destruct (unidirectional sid); cbn; apply sget_app_new, G.
    + destruct (unidirectional sid); reflexivity.
Qed.

(* replacing the receiver of the stream returned by get_or_create and charging [n] more bytes *)
Lemma update_inv c1 sid s r' n :
  CInv c1 -> sget sid (c_streams c1) = Some s ->
  RB r' -> r_highest r' <= sm_msd s ->
  r_highest r' - r_highest (sm_recv s) <= n -> 0 <= n ->
  l_used (c_data c1) + n <= l_value (c_data c1) ->
  CInv (add_used (set_streams c1 (sset sid (with_recv s r') (c_streams c1))) n).
Proof.
  intros I G B Hm Hn Hn0 Hv. destruct I. constructor; cbn; try assumption; try lia.
  - apply Forall_sset; [assumption|]. intros k. split; cbn; assumption.
  - rewrite (sum_hi_sset _ _ _ _ G). cbn. lia.
Qed.

Lemma handle_stream_inv c ft sid off data r c' :
  CInv c -> handle_stream c ft sid off data = (r, c') -> CInv c'.
Proof.
  intros I. unfold handle_stream.
  destruct (off + Zlen data >? UINT_VAR_MAX); [intros H; inversion H; subst; exact I|].
  destruct (negb (can_receive c sid)); [intros H; inversion H; subst; exact I|].
  destruct (get_or_create c sid) as [s c1| |code] eqn:G; try (intros H; inversion H; subst; exact I).
  destruct (goc_inv _ _ _ _ I G) as (I1 & G1 & (B & Hm) & D).
  destruct (off + Zlen data >? sm_msd s) eqn:E1; [intros H; inversion H; subst; exact I|].
  destruct (l_used (c_data c1) + Z.max 0 (off + Zlen data - r_highest (sm_recv s)) >? l_value (c_data c1)) eqn:E2;
    [intros H; inversion H; subst; exact I|].
  pose proof (hf_bounds (sm_recv s) off data (Z.odd ft) B) as HB.
  destruct (handle_frame (sm_recv s) off data (Z.odd ft)) as [o r'].
  destruct HB as (B' & _ & _ & _ & Hh).
  assert (U : o <> RFinalSizeError ->
              CInv (add_used (set_streams c1 (sset sid (with_recv s r') (c_streams c1))) (Z.max 0 (off + Zlen data - r_highest (sm_recv s))))).
  { intros Ho. specialize (Hh Ho). apply update_inv; try assumption; lia. }
  destruct o; intros H; inversion H; subst; try exact I; apply U; discriminate.
Qed.

Lemma handle_reset_stream_inv c sid fs r c' :
  CInv c -> handle_reset_stream c sid fs = (r, c') -> CInv c'.
Proof.
  intros I. unfold handle_reset_stream.
  destruct (negb (can_receive c sid)); [intros H; inversion H; subst; exact I|].
  destruct (get_or_create c sid) as [s c1| |code] eqn:G; try (intros H; inversion H; subst; exact I).
  destruct (goc_inv _ _ _ _ I G) as (I1 & G1 & (B & Hm) & D).
  destruct (fs >? sm_msd s) eqn:E1; [intros H; inversion H; subst; exact I|].
  destruct (l_used (c_data c1) + Z.max 0 (fs - r_highest (sm_recv s)) >? l_value (c_data c1)) eqn:E2;
    [intros H; inversion H; subst; exact I|].
  pose proof (hr_bounds (sm_recv s) fs B) as HB.
  destruct (handle_reset (sm_recv s) fs) as [o r'].
  destruct HB as (B' & _ & _ & Hh).
  assert (U : CInv (add_used (set_streams c1 (sset sid (with_recv s r') (c_streams c1))) (Z.max 0 (fs - r_highest (sm_recv s))))).
  { apply update_inv; try assumption; lia. }
  destruct o; intros H; inversion H; subst; try exact I; apply U.
Qed.

Lemma handle_touch_inv c ft sid r c' : CInv c -> handle_touch c ft sid = (r, c') -> CInv c'.
Proof.
  intros I. unfold handle_touch.
  destruct (negb (if ft =? FT_MAX_STREAM_DATA then can_send c sid else can_receive c sid)); [intros H; inversion H; subst; exact I|].
  destruct (get_or_create c sid) as [s c1| |code] eqn:G; try (intros H; inversion H; subst; exact I).
  destruct (goc_inv _ _ _ _ I G) as (I1 & _). intros H; inversion H; subst; exact I1.
Qed.

Lemma local_open_inv c sid : CInv c -> CInv (local_open c sid).
Proof.
  intros I. unfold local_open. destruct (sget sid (c_streams c)); [exact I|].
  destruct I. constructor; cbn; try assumption.
  - apply Forall_app; split; [assumption|]. constructor; [|constructor]. split; [apply RB_init|].
    cbn. match goal with |- context[if ?b then _ else _] => destruct b end; lia.
  - rewrite sum_hi_app, sum_hi_cons. unfold hi_of; cbn. lia.
Qed.
