(* Proofs about model/ConnLimits.v (C07): the order and codes of the limit checks, and the
   boundedness of everything a peer can make this endpoint hold. *)
From Coq Require Import ZArith List Bool Lia ZifyBool.
From AQ Require Import lib.Base model.RangeSet model.StreamRecv model.ConnLimits gen.C07Consts
  proofs.RangeSetP proofs.ListZ.

(* ------------------------------------------------------------------------------------ *)
(* Receiver: a bound invariant that (unlike C10's Inv) also survives an accepted reset.   *)

Definition top (st : recv) : Z := r_start st + Zlen (r_buf st).

Record RB (st : recv) : Prop := {
  b_start : 0 <= r_start st;
  b_wf : wf_from (r_start st) (r_ranges st);
  b_inbuf : forall o, mem o (r_ranges st) -> o < top st;
  b_top : top st <= r_highest st
}.

Lemma RB_init : RB recv_init.
Proof. constructor; unfold top; cbn; try tauto; lia. Qed.

Lemma RB_at base : 0 <= base -> RB (recv_at base).
Proof. intros; constructor; unfold top; cbn; try tauto; lia. Qed.

Ltac hf_finish G :=
  split; [apply G|]; split; [cbn [r_start]; lia|]; split; [unfold top in *; cbn [r_start r_buf]; lia|];
  split; [discriminate|]; intros _; cbn [r_highest]; lia.

Lemma hf_bounds st off data fin :
  RB st ->
  let '(o, st') := handle_frame st off data fin in
  RB st' /\ r_start st <= r_start st' /\ top st' <= Z.max (top st) (off + Zlen data) /\
  (o = RFinalSizeError -> st' = st) /\
  (o <> RFinalSizeError -> r_highest st' = Z.max (r_highest st) (off + Zlen data)).
Proof.
  intros B. pose proof (Zlen_nonneg data) as Hdl. pose proof (Zlen_nonneg (r_buf st)) as Hbl.
  pose proof (b_start _ B) as Hs0. pose proof (b_top _ B) as Ht.
  unfold handle_frame. set (e := off + Zlen data).
  destruct (match r_final st with Some f => (e >? f) || (fin && negb (e =? f)) | None => false end) eqn:Ebad.
  { split; [exact B|]. split; [lia|]. split; [lia|]. split; [reflexivity|]. intros H; exfalso; apply H; reflexivity. }
  set (final' := if fin then Some e else r_final st).
  set (hi' := if e >? r_highest st then e else r_highest st).
  assert (Hhi : hi' = Z.max (r_highest st) e) by (unfold hi'; destruct (e >? r_highest st) eqn:E; lia).
  destruct ((off - r_start st =? 0) && negb (Zlen data =? 0) && match r_buf st with [] => true | _ => false end) eqn:Efast.
  - assert (Hp : off = r_start st) by lia.
    assert (Hb : r_buf st = []) by (destruct (r_buf st); [reflexivity|rewrite andb_false_r in Efast; discriminate]).
    assert (Hr : r_ranges st = []).
    { destruct (r_ranges st) as [|[s e1] t] eqn:R; [reflexivity|exfalso].
      pose proof (b_wf _ B) as W. pose proof (b_inbuf _ B s) as I. unfold top in I. rewrite R in *. cbn in W, I.
      rewrite Hb, Zlen_nil in I. lia. }
    assert (G : RB (mkRecv hi' (if fin then true else r_finished st) (r_buf st) (r_start st + Zlen data) final' (r_ranges st))).
    { unfold top in *. rewrite Hb, Zlen_nil in *.
      constructor; unfold top; cbn [r_start r_buf r_highest r_ranges]; rewrite ?Hb, ?Hr, ?Zlen_nil; cbn; try tauto; lia. }
    unfold top in *. rewrite Hb, Zlen_nil in *.
    split; [exact G|]. split; [cbn [r_start]; lia|]. split; [cbn [r_start r_buf]; rewrite ?Hb, ?Zlen_nil; lia|].
    split; [discriminate|]. intros _. cbn [r_highest]. lia.
  - clear Efast.
    set (pos0 := off - r_start st).
    assert (Htrim : exists data1 off1 pos1,
      (if pos0 <? 0 then (zdrop (- pos0) data, off - pos0, 0) else (data, off, pos0)) = (data1, off1, pos1) /\
      off1 = Z.max off (r_start st) /\ pos1 = off1 - r_start st /\ 0 <= pos1 /\
      Zlen data1 = Z.max 0 (e - off1)).
    { destruct (pos0 <? 0) eqn:E1.
      - exists (zdrop (- pos0) data), (off - pos0), 0. unfold pos0 in *. rewrite Zlen_zdrop.
        repeat split; try lia; try (unfold e; lia).
      - exists data, off, pos0. unfold pos0 in *. repeat split; try lia; try (unfold e; lia). }
    destruct Htrim as (data1 & off1 & pos1 & Htrim & Hoff1 & Hpos1 & Hpos1nn & Hd1len).
    rewrite Htrim. clear Htrim. cbv beta iota.
    set (ranges1 := if e >? off1 then add off1 e (r_ranges st) else r_ranges st).
    set (buf1 := splice (r_buf st) pos1 data1).
    pose proof (b_wf _ B) as W.
    assert (W1 : wf_from (r_start st - 1) ranges1 /\ forall x, mem x ranges1 <-> ((off1 <= x < e) \/ mem x (r_ranges st))).
    { unfold ranges1. destruct (e >? off1) eqn:E1.
      - apply add_spec; try lia. eapply wf_from_weaken; [exact W|lia].
      - split; [eapply wf_from_weaken; [exact W|lia]|]. intros x. split; [tauto|]. intros [Hx|Hx]; [lia|exact Hx]. }
    destruct W1 as (W1 & M1).
    assert (Hlen1 : Zlen buf1 = Z.max (Zlen (r_buf st)) (pos1 + Zlen data1)) by (apply Zlen_splice; exact Hpos1nn).
    assert (Htop1 : r_start st + Zlen buf1 <= Z.max (top st) e) by (unfold top; lia).
    assert (Hinbuf1 : forall o, mem o ranges1 -> o < r_start st + Zlen buf1).
    { intros o Ho. apply M1 in Ho. destruct Ho as [Ho|Ho]; [lia|]. pose proof (b_inbuf _ B o Ho). unfold top in *. lia. }
    unfold pull_data. cbn [r_ranges r_start r_buf r_highest r_finished r_final].
    fold ranges1 buf1.
    destruct ranges1 as [|[s e1] rest] eqn:R1.
    + cbn [r_final r_start r_highest r_finished r_buf r_ranges].
      assert (G : RB (mkRecv hi' (if opt_eqb final' (r_start st) then true else r_finished st) buf1 (r_start st) final' []) /\
                  r_start st <= r_start st /\ r_start st + Zlen buf1 <= Z.max (top st) e).
      { split; [|lia]. constructor; unfold top; cbn; try tauto; unfold top in *; lia. }
      destruct G as (G1 & _ & G3).
      destruct (opt_eqb final' (r_start st)); cbv beta iota; hf_finish G1.
    + destruct (s =? r_start st) eqn:Es.
      * assert (s = r_start st) by lia. subst s. clear Es.
        cbn in W1. destruct W1 as (_ & Hse & Wrest).
        pose proof (Hinbuf1 (e1 - 1)) as Hin. cbn in Hin. specialize (Hin ltac:(left; lia)).
        set (n := e1 - r_start st). assert (Hn : 0 < n <= Zlen buf1) by (unfold n; lia).
        cbn [r_final r_start r_highest r_finished r_buf r_ranges].
        assert (G : RB (mkRecv hi' (if opt_eqb final' e1 then true else r_finished st) (zdrop n buf1) e1 final' rest) /\
                    e1 + Zlen (zdrop n buf1) <= Z.max (top st) e).
        { assert (Hz : Zlen (zdrop n buf1) = Zlen buf1 - n) by (rewrite Zlen_zdrop; lia).
          split; [|unfold n in *; lia]. constructor; unfold top; cbn [r_start r_buf r_highest r_ranges].
          - lia.
          - exact Wrest.
          - intros o Ho. specialize (Hinbuf1 o). cbn in Hinbuf1. specialize (Hinbuf1 (or_intror Ho)). unfold n in *. lia.
          - unfold top in *. unfold n in *. lia. }
        destruct G as (G1 & G2).
        destruct (ztake n buf1) as [|b0 out]; destruct (opt_eqb final' e1); cbv beta iota; hf_finish G1.
      * cbn in W1. destruct W1 as (Hlo & Hse & Wrest). assert (Hgt : r_start st < s) by lia.
        cbn [r_final r_start r_highest r_finished r_buf r_ranges].
        assert (G : RB (mkRecv hi' (if opt_eqb final' (r_start st) then true else r_finished st) buf1 (r_start st) final' ((s, e1) :: rest))).
        { constructor; unfold top in *; cbn [r_start r_buf r_highest r_ranges];
            [lia | cbn; repeat split; (assumption || lia) | exact Hinbuf1 | lia]. }
        destruct (opt_eqb final' (r_start st)); cbv beta iota; hf_finish G.
Qed.

Lemma hr_bounds st fs :
  RB st ->
  let '(o, st') := handle_reset st fs in
  RB st' /\ r_start st' = r_start st /\ r_buf st' = r_buf st /\ r_highest st' = r_highest st.
Proof.
  intros B. unfold handle_reset.
  assert (G : RB (mkRecv (r_highest st) true (r_buf st) (r_start st) (Some fs) (r_ranges st))).
  { destruct B; constructor; unfold top in *; cbn; assumption. }
  destruct (r_final st) as [f|]; [destruct (negb (f =? fs))|]; cbn; auto.
Qed.

Lemma bump_bounds r fs :
  RB r -> RB (bump_highest r fs) /\ r_highest r <= r_highest (bump_highest r fs) <= Z.max (r_highest r) fs /\
  r_start (bump_highest r fs) = r_start r /\ r_buf (bump_highest r fs) = r_buf r /\
  (RESET_ADVANCES_HIGHEST = true -> r_highest (bump_highest r fs) = Z.max (r_highest r) fs).
Proof.
  intros B. unfold bump_highest. destruct (RESET_ADVANCES_HIGHEST && (fs >? r_highest r)) eqn:E.
  - split; [destruct B; constructor; unfold top in *; cbn in *; try assumption; lia|]. cbn. intuition lia.
  - split; [exact B|]. split; [lia|]. split; [reflexivity|]. split; [reflexivity|]. intros F. rewrite F in E. cbn in E. lia.
Qed.

(* ------------------------------------------------------------------------------------ *)
(* Connection invariant                                                                   *)

Definition hi_of (p : Z * strm) : Z := r_highest (sm_recv (snd p)).
Definition buf_of (p : Z * strm) : Z := Zlen (r_buf (sm_recv (snd p))).
Definition sum_hi (l : list (Z * strm)) : Z := fold_right (fun p a => hi_of p + a) 0 l.
Definition sum_buf (l : list (Z * strm)) : Z := fold_right (fun p a => buf_of p + a) 0 l.

Definition SOK (s : strm) : Prop := RB (sm_recv s) /\ r_highest (sm_recv s) <= sm_msd s.

Record CInv (c : conn) : Prop := {
  ci_msd : 0 <= c_msd c;
  ci_streams : Forall (fun p => SOK (snd p)) (c_streams c);
  ci_sum : sum_hi (c_streams c) + c_gone c <= l_used (c_data c);
  ci_gone : 0 <= c_gone c;
  ci_used : l_used (c_data c) <= l_value (c_data c);
  ci_bidi : 0 <= l_used (c_bidi c) <= l_value (c_bidi c);
  ci_uni : 0 <= l_used (c_uni c) <= l_value (c_uni c);
  ci_crypto : RB (c_crypto c) /\ Zlen (r_buf (c_crypto c)) <= MAX_PENDING_CRYPTO;
  ci_chal : Zlen (c_chal c) <= MAX_REMOTE_CHALLENGES;
  ci_lchal : Zlen (c_lchal c) <= MAX_LOCAL_CHALLENGES;
  ci_retire : Zlen (c_retire c) <= Z.min (LOCAL_ACTIVE_CID_LIMIT * 4) MAX_PENDING_RETIRES;
  ci_avail : 1 + Zlen (c_cid_avail c) <= LOCAL_ACTIVE_CID_LIMIT;
  ci_tls : forall m, TLS_MESSAGE_CAP = Some m -> Zlen (c_tls c) < Z.max 4 m;
  ci_pathq : Forall (fun p => Zlen (snd p) <= MAX_REMOTE_CHALLENGES) (c_paths c);
  ci_pathn : forall m, NETWORK_PATHS_CAP = Some m -> Zlen (c_paths c) <= Z.max 0 (m - 1)
}.

Lemma CInv_init cl msd md cb : 0 <= msd -> 0 <= md -> 0 <= cb -> CInv (conn_init cl msd md cb).
Proof.
  intros. constructor; cbn; try lia; try constructor; try (apply RB_at; assumption); try reflexivity; try discriminate.
  all: vm_compute; try discriminate; try (split; discriminate).
Qed.

Lemma sget_In sid l s : sget sid l = Some s -> In (sid, s) l.
Proof.
  induction l as [|[k s0] t IH]; cbn; [discriminate|]. destruct (k =? sid) eqn:E.
  - intros H; inversion H; subst. left. f_equal. lia.
  - intros H. right. apply IH, H.
Qed.

Lemma sget_app_new sid l s : sget sid l = None -> sget sid (l ++ [(sid, s)]) = Some s.
Proof.
  induction l as [|[k s0] t IH]; cbn; [rewrite Z.eqb_refl; reflexivity|]. destruct (k =? sid); [discriminate|exact IH].
Qed.

Lemma sum_hi_cons p t : sum_hi (p :: t) = hi_of p + sum_hi t.
Proof. reflexivity. Qed.
Lemma sum_buf_cons p t : sum_buf (p :: t) = buf_of p + sum_buf t.
Proof. reflexivity. Qed.

Lemma sum_hi_app l1 l2 : sum_hi (l1 ++ l2) = sum_hi l1 + sum_hi l2.
Proof. induction l1 as [|p t IH]; [reflexivity|]. cbn [app]. rewrite !sum_hi_cons, IH. lia. Qed.

Lemma sum_hi_sset sid l old s' : sget sid l = Some old ->
  sum_hi (sset sid s' l) = sum_hi l - r_highest (sm_recv old) + r_highest (sm_recv s').
Proof.
  induction l as [|[k s0] t IH]; cbn [sget sset]; [discriminate|]. destruct (k =? sid) eqn:E.
  - intros H; inversion H; subst. rewrite !sum_hi_cons. unfold hi_of; cbn. lia.
  - intros H. rewrite !sum_hi_cons, (IH H). unfold hi_of; cbn. lia.
Qed.

Lemma Forall_sset (P : Z * strm -> Prop) sid s' l :
  Forall P l -> (forall k, P (k, s')) -> Forall P (sset sid s' l).
Proof.
  induction l as [|[k s0] t IH]; cbn; intros H Hs.
  - constructor; [apply Hs|constructor].
  - inversion H; subst. destruct (k =? sid); constructor; auto.
Qed.

Lemma sum_hi_nonneg l : Forall (fun p => SOK (snd p)) l -> 0 <= sum_hi l.
Proof.
  induction 1 as [|p t H _ IH]; [cbn; lia|]. rewrite sum_hi_cons. destruct H as (B & _). destruct B. unfold hi_of, top in *.
  pose proof (Zlen_nonneg (r_buf (sm_recv (snd p)))). lia.
Qed.

(* _get_or_create_stream keeps the invariant; the stream it returns is in the table *)
Lemma goc_inv c sid s c1 :
  CInv c -> get_or_create c sid = GStream s c1 ->
  CInv c1 /\ sget sid (c_streams c1) = Some s /\ SOK s /\ c_data c1 = c_data c.
Proof.
  intros I. unfold get_or_create.
  destruct (existsb (Z.eqb sid) (c_done c)); [discriminate|].
  destruct (sget sid (c_streams c)) as [s0|] eqn:G.
  - intros H; inversion H; subst. split; [assumption|]. split; [assumption|]. split; [|reflexivity].
    pose proof (ci_streams _ I) as F. rewrite Forall_forall in F. apply (F (sid, s)), sget_In, G.
  - destruct (Bool.eqb (client_initiated sid) (c_client c)); [discriminate|].
    set (lim := if unidirectional sid then c_uni c else c_bidi c).
    destruct (sid / 4 + 1 >? l_value lim) eqn:E; [discriminate|].
    intros H; inversion H; subst. clear H.
    assert (SK : SOK (mkStrm (c_msd c) (c_msd c) (unidirectional sid) recv_init)).
    { split; [apply RB_init|cbn; apply (ci_msd _ I)]. }
    assert (L : 0 <= l_used lim <= l_value lim) by (unfold lim; destruct (unidirectional sid); [apply (ci_uni _ I)|apply (ci_bidi _ I)]).
    split; [|split; [|split; [exact SK|]]].
    + destruct I. destruct (unidirectional sid) eqn:U; constructor; cbn; try assumption;
        try (apply Forall_app; split; [assumption|constructor; [exact SK|constructor]]);
        try (rewrite sum_hi_app, sum_hi_cons; unfold hi_of; cbn; lia);
        try (fold lim; destruct (sid / 4 + 1 >? l_used lim) eqn:E2; cbn; unfold lim in *; lia).
    + destruct (unidirectional sid); cbn; apply sget_app_new, G.
    + destruct (unidirectional sid); reflexivity.
Qed.

(* replacing the receiver of the stream returned by get_or_create and charging [n] more bytes *)
Lemma update_inv c1 sid s r' n :
  CInv c1 -> sget sid (c_streams c1) = Some s ->
  RB r' -> r_highest r' <= sm_msd s ->
  r_highest r' - r_highest (sm_recv s) <= n -> 0 <= n ->
  l_used (c_data c1) + n <= l_value (c_data c1) ->
  CInv (add_used (set_streams c1 (sset sid (with_recv s r') (c_streams c1))) n).
Proof.
  intros I G B Hm Hn Hn0 Hv. destruct I. constructor; cbn; try assumption; try lia.
  - apply Forall_sset; [assumption|]. intros k. split; cbn; assumption.
  - rewrite (sum_hi_sset _ _ _ _ G). cbn. lia.
Qed.

Lemma handle_stream_inv c ft sid off data r c' :
  CInv c -> handle_stream c ft sid off data = (r, c') -> CInv c'.
Proof.
  intros I. unfold handle_stream.
  destruct (off + Zlen data >? UINT_VAR_MAX); [intros H; inversion H; subst; exact I|].
  destruct (negb (can_receive c sid)); [intros H; inversion H; subst; exact I|].
  destruct (get_or_create c sid) as [s c1| |code] eqn:G; try (intros H; inversion H; subst; exact I).
  destruct (goc_inv _ _ _ _ I G) as (I1 & G1 & (B & Hm) & D).
  destruct (off + Zlen data >? sm_msd s) eqn:E1; [intros H; inversion H; subst; exact I|].
  destruct (l_used (c_data c1) + Z.max 0 (off + Zlen data - r_highest (sm_recv s)) >? l_value (c_data c1)) eqn:E2;
    [intros H; inversion H; subst; exact I|].
  pose proof (hf_bounds (sm_recv s) off data (Z.odd ft) B) as HB.
  destruct (handle_frame (sm_recv s) off data (Z.odd ft)) as [o r'].
  destruct HB as (B' & _ & _ & _ & Hh).
  assert (U : o <> RFinalSizeError ->
              CInv (add_used (set_streams c1 (sset sid (with_recv s r') (c_streams c1))) (Z.max 0 (off + Zlen data - r_highest (sm_recv s))))).
  { intros Ho. specialize (Hh Ho). apply update_inv; try assumption; lia. }
  destruct o; intros H; inversion H; subst; try exact I; apply U; discriminate.
Qed.

Lemma handle_reset_stream_inv c sid fs r c' :
  CInv c -> handle_reset_stream c sid fs = (r, c') -> CInv c'.
Proof.
  intros I. unfold handle_reset_stream.
  destruct (negb (can_receive c sid)); [intros H; inversion H; subst; exact I|].
  destruct (get_or_create c sid) as [s c1| |code] eqn:G; try (intros H; inversion H; subst; exact I).
  destruct (goc_inv _ _ _ _ I G) as (I1 & G1 & (B & Hm) & D).
  destruct (fs >? sm_msd s) eqn:E1; [intros H; inversion H; subst; exact I|].
  destruct (l_used (c_data c1) + Z.max 0 (fs - r_highest (sm_recv s)) >? l_value (c_data c1)) eqn:E2;
    [intros H; inversion H; subst; exact I|].
  pose proof (hr_bounds (sm_recv s) fs B) as HB.
  destruct (handle_reset (sm_recv s) fs) as [o r'].
  destruct HB as (B' & _ & _ & Hh).
  destruct (bump_bounds r' fs B') as (B'' & Hb & _).
  assert (U : CInv (add_used (set_streams c1 (sset sid (with_recv s (bump_highest r' fs)) (c_streams c1))) (Z.max 0 (fs - r_highest (sm_recv s))))).
  { apply update_inv; try assumption; lia. }
  destruct o; intros H; inversion H; subst; try exact I; apply U.
Qed.

Lemma handle_touch_inv c ft sid r c' : CInv c -> handle_touch c ft sid = (r, c') -> CInv c'.
Proof.
  intros I. unfold handle_touch.
  destruct (negb (if ft =? FT_MAX_STREAM_DATA then can_send c sid else can_receive c sid)); [intros H; inversion H; subst; exact I|].
  destruct (get_or_create c sid) as [s c1| |code] eqn:G; try (intros H; inversion H; subst; exact I).
  destruct (goc_inv _ _ _ _ I G) as (I1 & _). intros H; inversion H; subst; exact I1.
Qed.

Lemma local_open_inv c sid : CInv c -> CInv (local_open c sid).
Proof.
  intros I. unfold local_open. destruct (negb (can_send c sid)); [exact I|]. destruct (sget sid (c_streams c)); [exact I|].
    destruct (negb (Bool.eqb (client_initiated sid) (c_client c))); [exact I|].
  destruct I. constructor; cbn; try assumption.
  - apply Forall_app; split; [assumption|]. constructor; [|constructor]. split; [apply RB_init|].
    cbn. match goal with |- context[if ?b then _ else _] => destruct b end; lia.
  - rewrite sum_hi_app, sum_hi_cons. unfold hi_of; cbn. lia.
Qed.

(* ---------- the write pass ---------- *)
Lemma raise_limit_props ft l : 0 <= l_used l <= l_value l ->
  let l' := fst (raise_limit ft l) in
  l_used l' = l_used l /\ l_value l <= l_value l' /\ l_used l' <= l_value l'.
Proof.
  intros H. unfold raise_limit. destruct (l_used l * 2 >? l_value l) eqn:E;
    match goal with |- context[if ?b then _ else _] => destruct b end; cbn; lia.
Qed.

Lemma raise_stream_props sid s : SOK s ->
  let s' := fst (raise_stream sid s) in SOK s' /\ sm_recv s' = sm_recv s /\ sm_msd s <= sm_msd s'.
Proof.
  intros (B & Hm). unfold raise_stream.
  assert (0 <= r_highest (sm_recv s)).
  { destruct B. unfold top in *. pose proof (Zlen_nonneg (r_buf (sm_recv s))). lia. }
  destruct (negb (sm_msd s =? 0) && (r_highest (sm_recv s) * 2 >? sm_msd s)) eqn:E;
    match goal with |- context[if ?b then _ else _] => destruct b end; cbn; (split; [split; cbn; [assumption|lia]|split; [reflexivity|lia]]).
Qed.

Lemma raise_streams_props l : Forall (fun p => SOK (snd p)) l ->
  let l' := fst (raise_streams l) in
  Forall (fun p => SOK (snd p)) l' /\ sum_hi l' = sum_hi l /\ sum_buf l' = sum_buf l /\
  Forall2 (fun p p' => fst p' = fst p /\ sm_recv (snd p') = sm_recv (snd p) /\ sm_msd (snd p) <= sm_msd (snd p')) l l'.
Proof.
  induction 1 as [|[sid s] t H _ IH]; [cbn; repeat split; constructor|].
  cbn [raise_streams]. pose proof (raise_stream_props sid s H) as P.
  destruct (raise_stream sid s) as [s' w]. destruct (raise_streams t) as [t' w']. cbn [fst snd] in *.
  destruct P as (P1 & P2 & P3). destruct IH as (I1 & I2 & I3 & I4).
  split; [constructor; assumption|]. rewrite !sum_hi_cons, !sum_buf_cons. unfold hi_of, buf_of. cbn [snd]. rewrite P2, I2, I3.
  split; [reflexivity|]. split; [reflexivity|]. constructor; [cbn; auto|assumption].
Qed.

Lemma sum_hi_filter f l : Forall (fun p => SOK (snd p)) l -> sum_hi (filter f l) <= sum_hi l.
Proof.
  induction 1 as [|p t H F IH]; [cbn; lia|]. cbn [filter]. 
  assert (0 <= hi_of p).
  { destruct H as (B & _). destruct B. unfold hi_of, top in *. pose proof (Zlen_nonneg (r_buf (sm_recv (snd p)))). lia. }
  destruct (f p); rewrite !sum_hi_cons; lia.
Qed.

Lemma sum_hi_split f l : sum_hi l = sum_hi (filter (fun p => negb (f p)) l) + sum_hi (filter f l).
Proof.
  induction l as [|p t IH]; [reflexivity|]. cbn [filter]. destruct (f p); cbn [negb]; rewrite !sum_hi_cons; lia.
Qed.

Lemma Forall_filter {A} (P : A -> Prop) f l : Forall P l -> Forall P (filter f l).
Proof. induction 1; cbn; [constructor|]. destruct (f x); [constructor|]; assumption. Qed.

Lemma write_inv c r c' : CInv c -> write c = (r, c') -> CInv c'.
Proof.
  intros I. unfold write.
  assert (Hu : 0 <= l_used (c_data c)).
  { pose proof (sum_hi_nonneg _ (ci_streams _ I)). pose proof (ci_sum _ I). pose proof (ci_gone _ I). lia. }
  pose proof (raise_limit_props FT_MAX_DATA (c_data c) ltac:(pose proof (ci_used _ I); lia)) as PD.
  pose proof (raise_limit_props FT_MAX_STREAMS_BIDI (c_bidi c) (ci_bidi _ I)) as PB.
  pose proof (raise_limit_props FT_MAX_STREAMS_UNI (c_uni c) (ci_uni _ I)) as PU.
  pose proof (raise_streams_props _ (ci_streams _ I)) as PS.
  destruct (raise_limit FT_MAX_DATA (c_data c)) as [d wd].
  destruct (raise_limit FT_MAX_STREAMS_BIDI (c_bidi c)) as [b wb].
  destruct (raise_limit FT_MAX_STREAMS_UNI (c_uni c)) as [u wu].
  destruct (raise_streams (c_streams c)) as [ss ws]. cbv zeta in PD, PB, PU, PS. cbn [fst] in *.
  destruct PD as (PD1 & PD2 & PD3). destruct PB as (PB1 & PB2 & PB3). destruct PU as (PU1 & PU2 & PU3).
  destruct PS as (S1 & S2 & _). pose proof (ci_bidi _ I). pose proof (ci_uni _ I).
  intros Hw; inversion Hw; subst; clear Hw.
  pose proof (sum_hi_split (fun p => stream_finished (snd p)) ss) as SP. cbv beta in SP.
  pose proof (sum_hi_nonneg _ (Forall_filter _ (fun p => stream_finished (snd p)) _ S1)) as SN.
  change (fold_right (fun p a => r_highest (sm_recv (snd p)) + a) 0) with sum_hi.
  destruct I. constructor;
    cbn [c_msd c_streams c_data c_bidi c_uni c_crypto c_chal c_lchal c_retire c_cid_avail c_gone c_tls c_paths];
    try assumption; try lia.
  all: try (apply Forall_filter, S1); try (vm_compute; discriminate).
Qed.

Lemma limit_lost_inv c k : CInv c -> CInv (limit_lost c k).
Proof.
  intros I. unfold limit_lost. destruct I. destruct (k =? 0); [|destruct (k =? 1)]; constructor; cbn; assumption.
Qed.

Lemma stream_limit_lost_inv c sid : CInv c -> CInv (stream_limit_lost c sid).
Proof.
  intros I. unfold stream_limit_lost. destruct (sget sid (c_streams c)) as [s|] eqn:G; [|exact I].
  pose proof (ci_streams _ I) as F. rewrite Forall_forall in F. pose proof (F _ (sget_In _ _ _ G)) as (B & Hm). cbn in B, Hm.
  destruct I. constructor; cbn; try assumption.
  - apply Forall_sset; [assumption|]. intros k. split; cbn; assumption.
  - rewrite (sum_hi_sset _ _ _ _ G). cbn. lia.
Qed.

(* ---------- CRYPTO ---------- *)
Lemma byte_at_range l i : 0 <= byte_at l i < 256.
Proof. unfold byte_at. apply Z.mod_pos_bound. lia. Qed.

Lemma tls_parse_bound m : TLS_MESSAGE_CAP = Some m ->
  forall fuel buf t, (length buf <= fuel)%nat -> tls_parse fuel buf = Some t -> Zlen t < Z.max 4 m.
Proof.
  intros Hc. induction fuel as [|fuel IH]; intros buf t Hl; cbn [tls_parse].
  - intros H; inversion H; subst. destruct t; [cbn; lia|cbn in Hl; lia].
  - destruct (Zlen buf <? 4) eqn:E4; [intros H; inversion H; subst; lia|].
    pose proof (byte_at_range buf 1). pose proof (byte_at_range buf 2). pose proof (byte_at_range buf 3).
    set (mlen := 4 + (byte_at buf 1 * 65536 + byte_at buf 2 * 256 + byte_at buf 3)).
    rewrite Hc. destruct (mlen >? m) eqn:Em; [discriminate|].
    destruct (Zlen buf <? mlen) eqn:El; [intros Hq; inversion Hq; subst; lia|].
    apply IH. pose proof (Zlen_zdrop mlen buf) as Z. unfold Zlen in *. lia.
Qed.

Lemma handle_crypto_inv c off data r c' : CInv c -> handle_crypto c off data = (r, c') -> CInv c'.
Proof.
  intros I. unfold handle_crypto.
  destruct (off + Zlen data >? UINT_VAR_MAX); [intros H; inversion H; subst; exact I|].
  destruct (off + Zlen data - r_start (c_crypto c) >? MAX_PENDING_CRYPTO) eqn:E; [intros H; inversion H; subst; exact I|].
  destruct (ci_crypto _ I) as (B & Hl).
  pose proof (hf_bounds (c_crypto c) off data false B) as HB.
  destruct (handle_frame (c_crypto c) off data false) as [o r'].
  destruct HB as (B' & Hs & Ht & _ & _).
  assert (U : CInv (set_crypto c r')).
  { destruct I. constructor; cbn; try assumption. split; [exact B'|]. unfold top in *. lia. }
  destruct o as [|d0 f0| |]; try (intros H; inversion H; subst; try exact I; exact U).
  destruct (tls_parse (length (c_tls c ++ d0)) (c_tls c ++ d0)) as [t|] eqn:T; intros H; inversion H; subst; [|exact I].
  pose proof (fun m Hm => tls_parse_bound m Hm _ _ _ (le_n _) T) as TB.
  destruct I. constructor; cbn; try assumption. split; [exact B'|]. unfold top in *. lia.
Qed.

(* ---------- queues ---------- *)
Lemma handle_path_challenge_inv c d r c' : CInv c -> handle_path_challenge c d = (r, c') -> CInv c'.
Proof.
  intros I. unfold handle_path_challenge. intros H; inversion H; subst; clear H.
  destruct (Zlen (c_chal c) <? MAX_REMOTE_CHALLENGES) eqn:E; [|exact I].
  destruct I. constructor; cbn; try assumption. rewrite Zlen_app. change (Zlen [d]) with 1. lia.
Qed.

Lemma add_local_challenge_inv c d : CInv c -> CInv (add_local_challenge c d).
Proof.
  intros I. unfold add_local_challenge. destruct I. constructor; cbn; try assumption.
  rewrite Zlen_zdrop, Zlen_app. change (Zlen [d]) with 1. pose proof (Zlen_nonneg (c_lchal c)). lia.
Qed.

Lemma Zlen_filter_le {A} f (l : list A) : Zlen (filter f l) <= Zlen l.
Proof.
  unfold Zlen. induction l as [|a t IH]; cbn; [lia|]. destruct (f a); cbn [length]; lia.
Qed.

(* The tree under test evaluates the cap on pending retirements on EVERY path of _handle_new_connection_id_frame
   (probed: tools/gen/c07_consts.py).  On a tree that evaluates it only on some paths (e.g. only when the frame moved
   Retire Prior To forward, so that a burst of late arrivals below it is never capped) this is false, [reflexivity]
   fails, and nothing below -- buffer_bounded in particular -- checks any more. *)
Lemma retire_cap_on_every_path : NCID_RETIRE_CAP_ONLY_WHEN_RAISED = false.
Proof. reflexivity. Qed.

Lemma over_retire_cap_false raised pend : over_retire_cap raised pend = false -> Zlen pend <= retire_cap.
Proof.
  unfold over_retire_cap. rewrite retire_cap_on_every_path. cbn [negb orb andb]. intros H. lia.
Qed.

Lemma handle_new_cid_inv c seq rpt r c' : CInv c -> handle_new_cid c seq rpt = (r, c') -> CInv c'.
Proof.
  intros I. unfold handle_new_cid.
  destruct (rpt >? seq); [intros H; inversion H; subst; exact I|].
  match goal with |- context[match ?x with Some _ => _ | None => _ end] => destruct x as [[active' avail3]|] end;
    [|destruct NCID_EMPTY_CLOSES; intros H; inversion H; subst; exact I].
  destruct (1 + Zlen avail3 >? LOCAL_ACTIVE_CID_LIMIT) eqn:E1; [intros H; inversion H; subst; exact I|].
  match goal with |- context[if over_retire_cap ?g ?p then _ else _] => set (pend := p); destruct (over_retire_cap g pend) eqn:E2 end; [intros H; inversion H; subst; exact I|].
  apply over_retire_cap_false in E2. unfold retire_cap in E2.
  intros H; inversion H; subst; clear H. destruct I.
  constructor; cbn [c_msd c_streams c_data c_bidi c_uni c_crypto c_chal c_lchal c_retire c_cid_avail c_gone c_tls c_paths set_cids]; try assumption; lia.
Qed.

Lemma add_chals_len ds : forall q, Zlen q <= MAX_REMOTE_CHALLENGES -> Zlen (add_chals q ds) <= MAX_REMOTE_CHALLENGES.
Proof.
  unfold add_chals. induction ds as [|d t IH]; intros q H; cbn [fold_left]; [exact H|]. apply IH.
  destruct (Zlen q <? MAX_REMOTE_CHALLENGES) eqn:E; [|exact H]. rewrite Zlen_app. change (Zlen [d]) with 1. lia.
Qed.

Lemma pset_props a q l : Zlen q <= MAX_REMOTE_CHALLENGES ->
  Forall (fun p => Zlen (snd p) <= MAX_REMOTE_CHALLENGES) l ->
  Forall (fun p => Zlen (snd p) <= MAX_REMOTE_CHALLENGES) (pset a q l) /\ Zlen (pset a q l) = Zlen l.
Proof.
  intros Hq. induction 1 as [|[k q0] t H F IH]; cbn [pset]; [split; [constructor|reflexivity]|].
  destruct IH as (I1 & I2). destruct (k =? a).
  - split; [constructor; [exact Hq|exact F]|reflexivity].
  - split; [constructor; [exact H|exact I1]|]. unfold Zlen in *. cbn [length]. lia.
Qed.

Lemma pfind_In a l q : pfind a l = Some q -> exists k, In (k, q) l.
Proof.
  induction l as [|[k q0] t IH]; cbn; [discriminate|]. destruct (k =? a).
  - intros H; inversion H; subst. exists k. left. reflexivity.
  - intros H. destruct (IH H) as (k' & Hk). exists k'. right. exact Hk.
Qed.

Lemma handle_path_packet_inv c addr ds r c' : CInv c -> handle_path_packet c addr ds = (r, c') -> CInv c'.
Proof.
  intros I. unfold handle_path_packet. pose proof (ci_pathq _ I) as F. pose proof (ci_pathn _ I) as N.
  destruct (pfind addr (c_paths c)) as [q|] eqn:P.
  - destruct (pfind_In _ _ _ P) as (k & Hk). rewrite Forall_forall in F. pose proof (F _ Hk) as Hq. cbn in Hq.
    rewrite <- Forall_forall in F.
    destruct (pset_props addr (add_chals q ds) (c_paths c) (add_chals_len ds q Hq) F) as (P1 & P2).
    intros H; inversion H; subst. destruct I.
    constructor; cbn [c_msd c_streams c_data c_bidi c_uni c_crypto c_chal c_lchal c_retire c_cid_avail c_gone c_tls c_paths set_paths];
      try assumption. intros m Hm. rewrite P2. apply N, Hm.
  - assert (FA : Forall (fun p => Zlen (snd p) <= MAX_REMOTE_CHALLENGES) (c_paths c ++ [(addr, add_chals [] ds)])).
    { apply Forall_app; split; [exact F|]. constructor; [|constructor]. cbn. apply add_chals_len. vm_compute. discriminate. }
    assert (LA : Zlen (c_paths c ++ [(addr, add_chals [] ds)]) = Zlen (c_paths c) + 1) by (rewrite Zlen_app; reflexivity).
    remember (c_paths c ++ [(addr, add_chals [] ds)]) as l eqn:Hl. clear Hl.
    destruct NETWORK_PATHS_CAP as [m|] eqn:Cap.
    + specialize (N m eq_refl).
      destruct (1 + Zlen l >? m) eqn:E; intros H; inversion H; subst; clear H; destruct I;
        constructor; cbn [c_msd c_streams c_data c_bidi c_uni c_crypto c_chal c_lchal c_retire c_cid_avail c_gone c_tls c_paths set_paths];
        try assumption.
      * destruct l as [|p0 t]; cbn [tl]; [constructor|]. inversion FA; assumption.
      * intros m0 Hm0. rewrite Cap in Hm0. inversion Hm0; subst. destruct l as [|p0 t]; [cbn; lia|]. cbn [tl].
        unfold Zlen in *. cbn [length] in *. lia.
      * intros m0 Hm0. rewrite Cap in Hm0. inversion Hm0; subst. lia.
    + intros H; inversion H; subst; clear H; destruct I.
      constructor; cbn [c_msd c_streams c_data c_bidi c_uni c_crypto c_chal c_lchal c_retire c_cid_avail c_gone c_tls c_paths set_paths];
        try assumption. intros m0 Hm0. rewrite Cap in Hm0. discriminate.
Qed.

Lemma step_inv c o r c' : CInv c -> step c o = (r, c') -> CInv c'.
Proof.
  intros I. destruct o; cbn [step].
  - apply handle_stream_inv, I.
  - apply handle_reset_stream_inv, I.
  - apply handle_touch_inv, I.
  - intros H; inversion H; subst. apply local_open_inv, I.
  - apply write_inv, I.
  - intros H; inversion H; subst. apply limit_lost_inv, I.
  - intros H; inversion H; subst. apply stream_limit_lost_inv, I.
  - apply handle_crypto_inv, I.
  - apply handle_path_challenge_inv, I.
  - intros H; inversion H; subst. apply add_local_challenge_inv, I.
  - apply handle_new_cid_inv, I.
  - apply handle_path_packet_inv, I.
Qed.

Lemma run_inv : forall ops c os c', CInv c -> run c ops = (os, c') -> CInv c'.
Proof.
  induction ops as [|o t IH]; intros c os c' I; cbn [run].
  - intros H; inversion H; subst; exact I.
  - destruct (step c o) as [r c1] eqn:S. pose proof (step_inv _ _ _ _ I S) as I1.
    destruct (closes r); [intros H; inversion H; subst; exact I1|].
    destruct (run c1 t) as [rs c2] eqn:R. intros H; inversion H; subst. eapply IH; eassumption.
Qed.

(* ------------------------------------------------------------------------------------ *)
(* buffer_bounded                                                                         *)
Lemma sum_buf_le_hi l : Forall (fun p => SOK (snd p)) l -> sum_buf l <= sum_hi l.
Proof.
  induction 1 as [|p t H _ IH]; [cbn; lia|]. rewrite sum_buf_cons, sum_hi_cons.
  destruct H as (B & _). destruct B. unfold buf_of, hi_of, top in *. lia.
Qed.

Definition sum_chal (l : list (Z * list Z)) : Z := fold_right (fun p a => Zlen (snd p) + a) 0 l.

Lemma sum_chal_le l : Forall (fun p => Zlen (snd p) <= MAX_REMOTE_CHALLENGES) l -> sum_chal l <= MAX_REMOTE_CHALLENGES * Zlen l.
Proof.
  induction 1 as [|p t H _ IH]; [cbn; lia|]. change (sum_chal (p :: t)) with (Zlen (snd p) + sum_chal t).
  unfold Zlen in *. cbn [length]. lia.
Qed.

Lemma buffer_bounded_run : forall cl msd md cb ops os c,
  0 <= msd -> 0 <= md -> 0 <= cb ->
  run (conn_init cl msd md cb) ops = (os, c) ->
  (forall sid s, In (sid, s) (c_streams c) ->
     0 <= r_start (sm_recv s) /\
     Zlen (r_buf (sm_recv s)) <= r_highest (sm_recv s) - r_start (sm_recv s) /\
     r_highest (sm_recv s) <= sm_msd s) /\
  sum_buf (c_streams c) <= sum_hi (c_streams c) /\
  sum_hi (c_streams c) + c_gone c <= l_used (c_data c) /\ 0 <= c_gone c /\
  l_used (c_data c) <= l_value (c_data c) /\
  Zlen (r_buf (c_crypto c)) <= MAX_PENDING_CRYPTO /\
  (forall m, TLS_MESSAGE_CAP = Some m -> Zlen (c_tls c) < Z.max 4 m) /\
  Zlen (c_chal c) <= MAX_REMOTE_CHALLENGES /\
  (forall m, NETWORK_PATHS_CAP = Some m -> 1 <= m ->
     Zlen (c_chal c) + sum_chal (c_paths c) <= m * MAX_REMOTE_CHALLENGES) /\
  Zlen (c_lchal c) <= MAX_LOCAL_CHALLENGES /\
  Zlen (c_retire c) <= Z.min (LOCAL_ACTIVE_CID_LIMIT * 4) MAX_PENDING_RETIRES /\
  1 + Zlen (c_cid_avail c) <= LOCAL_ACTIVE_CID_LIMIT.
Proof.
  intros cl msd md cb ops os c H1 H2 H3 R.
  pose proof (run_inv _ _ _ _ (CInv_init cl msd md cb H1 H2 H3) R) as I. destruct I.
  split.
  { intros sid s Hin. rewrite Forall_forall in ci_streams0. destruct (ci_streams0 _ Hin) as (B & Hm). cbn in B, Hm.
    destruct B. unfold top in *. lia. }
  split; [apply sum_buf_le_hi; assumption|]. split; [assumption|]. split; [assumption|]. split; [assumption|].
  split; [apply ci_crypto0|]. split; [assumption|]. split; [assumption|].
  split.
  { intros m Hm Hm1. pose proof (sum_chal_le _ ci_pathq0). specialize (ci_pathn0 m Hm).
    assert (0 <= MAX_REMOTE_CHALLENGES) by (vm_compute; discriminate). nia. }
  repeat split; assumption.
Qed.

(* the caps exist in the tree under test (fails to check on a tree without them) *)
Lemma caps_present :
  (exists m, TLS_MESSAGE_CAP = Some m) /\ (exists m, NETWORK_PATHS_CAP = Some m /\ 1 <= m) /\ RESET_ADVANCES_HIGHEST = true.
Proof. split; [eexists; reflexivity|]. split; [eexists; split; [reflexivity|vm_compute; discriminate]|reflexivity]. Qed.

(* a run that pushes the buffered bytes of one never-completed stream to 2^n * the configured limit with n
   one-byte frames (the window is doubled on highest_offset, not on delivery to the application) *)
Example window_doubles_without_delivery :
  let ops := [StreamFrame 14 0 499 [1]; Write; StreamFrame 14 0 999 [1]; Write; StreamFrame 14 0 1999 [1]; Write] in
  let c := snd (run (conn_init false 500 500 0) ops) in
  sum_buf (c_streams c) = 2000 /\ l_value (c_data c) = 4000 /\
  match sget 0 (c_streams c) with Some s => r_start (sm_recv s) = 0 /\ sm_msd s = 4000 | None => False end.
Proof. vm_compute. repeat split; reflexivity. Qed.

(* ------------------------------------------------------------------------------------ *)
(* over_limit_closes: which check fires, in which order, with which code (for EVERY state) *)

Definition stream_limit_of (c : conn) (sid : Z) : limit := if unidirectional sid then c_uni c else c_bidi c.

Definition is_new (c : conn) (sid : Z) : Prop :=
  existsb (Z.eqb sid) (c_done c) = false /\ sget sid (c_streams c) = None /\
  Bool.eqb (client_initiated sid) (c_client c) = false.

Lemma goc_over_count c sid :
  is_new c sid -> sid / 4 + 1 > l_value (stream_limit_of c sid) -> get_or_create c sid = GErr E_STREAM_LIMIT_ERROR.
Proof.
  intros (H1 & H2 & H3) H. unfold get_or_create, stream_limit_of in *. rewrite H1, H2, H3.
  destruct (unidirectional sid); (destruct (_ >? _) eqn:E; [reflexivity|lia]).
Qed.

Lemma goc_cases c sid s c1 : get_or_create c sid = GStream s c1 ->
  c_data c1 = c_data c /\
  ((sget sid (c_streams c) = Some s /\ c1 = c) \/
   (is_new c sid /\ sid / 4 + 1 <= l_value (stream_limit_of c sid) /\
    s = mkStrm (c_msd c) (c_msd c) (unidirectional sid) recv_init)).
Proof.
  unfold get_or_create, is_new, stream_limit_of.
  destruct (existsb (Z.eqb sid) (c_done c)); [discriminate|].
  destruct (sget sid (c_streams c)) as [s0|]; [intros H; inversion H; subst; auto|].
  destruct (Bool.eqb (client_initiated sid) (c_client c)); [discriminate|].
  destruct (unidirectional sid); (destruct (_ >? _) eqn:E; [discriminate|]); intros H; inversion H; subst;
    (split; [reflexivity|right; repeat split; lia]).
Qed.

(* a frame that makes a new peer-initiated stream beyond the stream limit: STREAM_LIMIT_ERROR, whatever else it carries *)
Lemma new_stream_over_limit c sid :
  is_new c sid -> sid / 4 + 1 > l_value (stream_limit_of c sid) ->
  (forall ft off data, off + Zlen data <= UINT_VAR_MAX -> can_receive c sid = true ->
     fst (handle_stream c ft sid off data) = OErr E_STREAM_LIMIT_ERROR ft) /\
  (forall fs, can_receive c sid = true -> fst (handle_reset_stream c sid fs) = OErr E_STREAM_LIMIT_ERROR FT_RESET_STREAM) /\
  (forall ft, (if ft =? FT_MAX_STREAM_DATA then can_send c sid else can_receive c sid) = true ->
     fst (handle_touch c ft sid) = OErr E_STREAM_LIMIT_ERROR ft).
Proof.
  intros N H. pose proof (goc_over_count c sid N H) as G. repeat split.
  - intros ft off data H1 H2. unfold handle_stream. rewrite G, H2.
    destruct (off + Zlen data >? UINT_VAR_MAX) eqn:E; [lia|reflexivity].
  - intros fs H2. unfold handle_reset_stream. rewrite G, H2. reflexivity.
  - intros ft H2. unfold handle_touch. rewrite G, H2. reflexivity.
Qed.

Definition fs_conflict (r : recv) (e : Z) (fin : bool) : Prop :=
  match r_final r with Some f => e > f \/ (fin = true /\ e <> f) | None => False end.

Lemma hf_conflict r off data fin :
  (fs_conflict r (off + Zlen data) fin -> fst (handle_frame r off data fin) = RFinalSizeError) /\
  (~ fs_conflict r (off + Zlen data) fin -> fst (handle_frame r off data fin) <> RFinalSizeError).
Proof.
  unfold fs_conflict, handle_frame. set (e := off + Zlen data).
  destruct (r_final r) as [f|].
  - destruct ((e >? f) || (fin && negb (e =? f))) eqn:E.
    + split; [reflexivity|]. intros H. exfalso. apply H. destruct fin; lia.
    + split; [intros H; exfalso; destruct fin; lia|]. intros _.
      repeat match goal with
             | |- context[if ?b then _ else _] => destruct b
             | |- context[let '(_, _) := ?x in _] => destruct x
             | |- context[match ?x with [] => _ | _ :: _ => _ end] => destruct x
             end; cbn; discriminate.
  - split; [tauto|]. intros _.
    repeat match goal with
           | |- context[if ?b then _ else _] => destruct b
           | |- context[let '(_, _) := ?x in _] => destruct x
           | |- context[match ?x with [] => _ | _ :: _ => _ end] => destruct x
           end; cbn; discriminate.
Qed.

(* STREAM on a stream that exists or may be created: stream data limit, then connection data limit with
   newly_received, then the final size; otherwise accepted *)
Lemma stream_frame_checks c ft sid off data s c1 :
  off + Zlen data <= UINT_VAR_MAX -> can_receive c sid = true -> get_or_create c sid = GStream s c1 ->
  let e := off + Zlen data in
  let newly := Z.max 0 (e - r_highest (sm_recv s)) in
  let out := fst (handle_stream c ft sid off data) in
  (e > sm_msd s -> out = OErr E_FLOW_CONTROL_ERROR ft) /\
  (e <= sm_msd s -> l_used (c_data c) + newly > l_value (c_data c) -> out = OErr E_FLOW_CONTROL_ERROR ft) /\
  (e <= sm_msd s -> l_used (c_data c) + newly <= l_value (c_data c) -> fs_conflict (sm_recv s) e (Z.odd ft) ->
     out = OErr E_FINAL_SIZE_ERROR ft) /\
  (e <= sm_msd s -> l_used (c_data c) + newly <= l_value (c_data c) -> ~ fs_conflict (sm_recv s) e (Z.odd ft) ->
     exists ev, out = OOk ev).
Proof.
  intros H1 H2 G. cbv zeta. unfold handle_stream. rewrite G, H2.
  destruct (goc_cases _ _ _ _ G) as (D & _). rewrite D.
  destruct (off + Zlen data >? UINT_VAR_MAX) eqn:E0; [lia|]. cbn [negb].
  pose proof (hf_conflict (sm_recv s) off data (Z.odd ft)) as (C1 & C2).
  destruct (off + Zlen data >? sm_msd s) eqn:E1.
  { repeat split; intros; try lia; reflexivity. }
  destruct (l_used (c_data c) + Z.max 0 (off + Zlen data - r_highest (sm_recv s)) >? l_value (c_data c)) eqn:E2.
  { repeat split; intros; try lia; reflexivity. }
  destruct (handle_frame (sm_recv s) off data (Z.odd ft)) as [o r'] eqn:HF. cbn [fst] in *.
  split; [intros; lia|]. split; [intros; lia|]. split.
  - intros _ _ Hc. rewrite (C1 Hc). reflexivity.
  - intros _ _ Hc. specialize (C2 Hc). destruct o; try (eexists; reflexivity). exfalso; apply C2; reflexivity.
Qed.

Lemma reset_stream_checks c sid fs s c1 :
  can_receive c sid = true -> get_or_create c sid = GStream s c1 ->
  let newly := Z.max 0 (fs - r_highest (sm_recv s)) in
  let out := fst (handle_reset_stream c sid fs) in
  let ft := FT_RESET_STREAM in
  (fs > sm_msd s -> out = OErr E_FLOW_CONTROL_ERROR ft) /\
  (fs <= sm_msd s -> l_used (c_data c) + newly > l_value (c_data c) -> out = OErr E_FLOW_CONTROL_ERROR ft) /\
  (fs <= sm_msd s -> l_used (c_data c) + newly <= l_value (c_data c) ->
     (exists f, r_final (sm_recv s) = Some f /\ f <> fs) -> out = OErr E_FINAL_SIZE_ERROR ft) /\
  (fs <= sm_msd s -> l_used (c_data c) + newly <= l_value (c_data c) ->
     ~ (exists f, r_final (sm_recv s) = Some f /\ f <> fs) -> out = OOk RReset).
Proof.
  intros H2 G. cbv zeta. unfold handle_reset_stream. rewrite G, H2.
  destruct (goc_cases _ _ _ _ G) as (D & _). rewrite D. cbn [negb].
  destruct (fs >? sm_msd s) eqn:E1.
  { repeat split; intros; try lia; reflexivity. }
  destruct (l_used (c_data c) + Z.max 0 (fs - r_highest (sm_recv s)) >? l_value (c_data c)) eqn:E2.
  { repeat split; intros; try lia; reflexivity. }
  unfold handle_reset. destruct (r_final (sm_recv s)) as [f|].
  - destruct (negb (f =? fs)) eqn:E3; cbn [fst]; (split; [intros; lia|]); (split; [intros; lia|]); split.
    + intros _ _ _. reflexivity.
    + intros _ _ Hn. exfalso. apply Hn. exists f. split; [reflexivity|lia].
    + intros _ _ (f0 & Hf & Hn). inversion Hf; subst. lia.
    + intros _ _ _. reflexivity.
  - cbn [fst]. (split; [intros; lia|]); (split; [intros; lia|]); split.
    + intros _ _ (f0 & Hf & _). discriminate.
    + intros _ _ _. reflexivity.
Qed.
