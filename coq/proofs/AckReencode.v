(* C17: decode -> re-encode for ACK frames.  Whatever pull_ack_frame accepts (ranges may even go below 0: the decoder
   does not check) re-encodes with push_ack_frame to the minimal varints of the SAME values: the re-encoding is never
   longer and decodes to the same (ranges, delay) whatever follows; it differs from the input exactly when the input
   used a non-minimal varint (witness). *)
From AQ Require Import lib.Base model.Codec model.Varint model.RangeSet model.AckFrame
  proofs.CodecProofs proofs.VarintProofs proofs.AckFrameProofs.
From Coq Require Import ZifyBool.

(* a varint whose re-encoding has the same length IS its re-encoding: only the minimal encoding has the minimal length *)
Lemma varint_same_length_same_bytes bs v r b : bytes_ok bs -> pull_uint_var bs = Ok (v, r) -> push_uint_var v = Ok b ->
  Zlen b + Zlen r = Zlen bs -> bs = b ++ r.
Proof.
  intros Hb H P L.
  destruct (varint_pull_total bs Hb) as [(v' & r' & u & H1 & H2 & H3 & H4 & H5 & H6)|H1]; [|congruence].
  rewrite H in H1. injection H1 as <- <-.
  unfold pull_uint_var in H. destruct bs as [|b0 t]; [discriminate|].
  destruct (Zlen (b0 :: t) <? Z.of_nat (var_len b0)) eqn:E; [discriminate|]. injection H as Hv Hr.
  set (n := var_len b0) in *.
  assert (Hsplit : b0 :: t = firstn n (b0 :: t) ++ skipn n (b0 :: t)) by (symmetry; apply firstn_skipn).
  rewrite Hr in Hsplit.
  assert (U : u = firstn n (b0 :: t)) by (rewrite H2 in Hsplit at 1; apply app_inv_tail in Hsplit; exact Hsplit).
  rewrite H2. f_equal.
  assert (Hlen : length u = n) by (rewrite U; apply firstn_length_le; unfold Zlen in E; lia).
  assert (Lb : Zlen b = Z.of_nat n) by (rewrite H2, Zlen_app in L; unfold Zlen in *; lia).
  rewrite H2 in Hb. apply bytes_ok_app in Hb as [Hu _].
  destruct u as [|u0 ut]; [cbn [length] in Hlen; pose proof (var_len_cases b0); fold n in H; lia|].
  assert (u0 = b0) by (cbn [app] in H2; congruence). subst u0.
  pose proof (Forall_inv Hu) as Hb0. pose proof (Forall_inv_tail Hu) as Hut.
  assert (Hm : bytes_ok (b0 mod 64 :: ut)).
  { constructor; [|exact Hut]. pose proof (Z.mod_pos_bound b0 64 ltac:(lia)). unfold byte_ok in *. lia. }
  assert (Ev : v = be_dec 0 (b0 mod 64 :: ut)) by (rewrite <- Hv, <- U; reflexivity).
  pose proof (be_enc_dec _ Hm 0) as BE. rewrite <- Ev in BE. cbn [length] in BE, Hlen. rewrite Hlen in BE.
  unfold push_uint_var, UINT_VAR_MAX in P. rewrite (Z.mod_small v (2 ^ 64)) in P by lia.
  unfold byte_ok in Hb0.
  assert (K : n = 1%nat /\ b0 / 64 = 0 \/ n = 2%nat /\ b0 / 64 = 1 \/ n = 4%nat /\ b0 / 64 = 2 \/ n = 8%nat /\ b0 / 64 = 3).
  { unfold n, var_len. assert (0 <= b0 / 64 < 4) by (split; [apply Z.div_pos; lia|apply Z.div_lt_upper_bound; lia]).
    destruct (b0 / 64 =? 0) eqn:K0; [left; lia|]. destruct (b0 / 64 =? 1) eqn:K1; [right; left; lia|].
    destruct (b0 / 64 =? 2) eqn:K2; [right; right; left; lia|]. right; right; right. lia. }
  pose proof (Z.div_mod b0 64 ltac:(lia)) as DM.
  destruct (v <=? 63) eqn:C1.
  { assert (Eb : b = be_enc 1 v) by congruence. subst b. rewrite be_enc_Zlen in Lb. destruct K as [[Kn Kd]|[[Kn _]|[[Kn _]|[Kn _]]]]; try lia.
    rewrite Kn in BE. rewrite BE. f_equal. lia. }
  destruct (v <=? 16383) eqn:C2.
  { assert (Eb : b = with_prefix 64 (be_enc 2 v)) by congruence. subst b.
    assert (Zlen (with_prefix 64 (be_enc 2 v)) = 2) by reflexivity.
    destruct K as [[Kn _]|[[Kn Kd]|[[Kn _]|[Kn _]]]]; try lia.
    rewrite Kn in BE. rewrite BE. cbn [with_prefix]. f_equal. lia. }
  destruct (v <=? 1073741823) eqn:C3.
  { assert (Eb : b = with_prefix 128 (be_enc 4 v)) by congruence. subst b.
    assert (Zlen (with_prefix 128 (be_enc 4 v)) = 4) by reflexivity.
    destruct K as [[Kn _]|[[Kn _]|[[Kn Kd]|[Kn _]]]]; try lia.
    rewrite Kn in BE. rewrite BE. cbn [with_prefix]. f_equal. lia. }
  destruct (v <=? 2 ^ 62 - 1) eqn:C4; [|discriminate].
  assert (Eb : b = with_prefix 192 (be_enc 8 v)) by congruence. subst b.
  assert (Zlen (with_prefix 192 (be_enc 8 v)) = 8) by reflexivity.
  destruct K as [[Kn _]|[[Kn _]|[[Kn _]|[Kn Kd]]]]; try lia.
  rewrite Kn in BE. rewrite BE. cbn [with_prefix]. f_equal. lia.
Qed.

Lemma varint_step bs v r : bytes_ok bs -> pull_uint_var bs = Ok (v, r) ->
  0 <= v < 2 ^ 62 /\ bytes_ok r /\
  exists b, push_uint_var v = Ok b /\ 1 <= Zlen b /\ Zlen b + Zlen r <= Zlen bs /\
            (Zlen b + Zlen r = Zlen bs -> bs = b ++ r) /\
            forall rest', pull_uint_var (b ++ rest') = Ok (v, rest').
Proof.
  intros Hb H. destruct (varint_pull_total bs Hb) as [(v' & r' & u & H1 & H2 & H3 & H4 & _)|H1]; [|congruence].
  rewrite H in H1. injection H1 as <- <-.
  destruct (varint_reencode bs v r Hb H) as (b & E & _ & L).
  split; [exact H3|]. split; [exact H4|]. exists b. split; [exact E|].
  split. { destruct (varint_length_prefix v H3) as (b' & E' & Z' & _). rewrite E in E'. injection E' as <-. rewrite Z'.
           unfold var_size. repeat destruct (_ <? _); lia. }
  split; [exact L|]. split; [exact (varint_same_length_same_bytes bs v r b Hb H E)|]. intros rest'.
  destruct (varint_roundtrip v rest' H3) as (b' & E' & R). rewrite E in E'. injection E' as <-. exact R.
Qed.

Definition head_start (acc : rs) (end_ : Z) : Prop := match acc with (s, _) :: _ => s = end_ | [] => False end.

Lemma ranges_reenc fuel : forall count end_ acc bs l rest, bytes_ok bs -> head_start acc end_ ->
  pull_ack_ranges fuel count end_ acc bs = Ok (l, rest) ->
  exists d bytes, l = rev d ++ acc /\ Zlen d = Z.max 0 count /\
    flatten (push_ack_ranges end_ d) = Ok bytes /\ Zlen bytes + Zlen rest <= Zlen bs /\ bytes_ok rest /\
    Zlen d <= Zlen bytes /\ (Zlen bytes + Zlen rest = Zlen bs -> bs = bytes ++ rest) /\
    forall rest' fuel', (length d <= fuel')%nat ->
      pull_ack_ranges fuel' (Zlen d) end_ acc (bytes ++ rest') = Ok (l, rest').
Proof.
  assert (Z0 : forall count end_ acc (bs : list Z), (count <=? 0) = true -> bytes_ok bs ->
    exists d bytes, acc = rev d ++ acc /\ Zlen d = Z.max 0 count /\
      flatten (push_ack_ranges end_ d) = Ok bytes /\ Zlen bytes + Zlen bs <= Zlen bs /\ bytes_ok bs /\
      Zlen d <= Zlen bytes /\ (Zlen bytes + Zlen bs = Zlen bs -> bs = bytes ++ bs) /\
      forall rest' fuel', (length d <= fuel')%nat ->
        pull_ack_ranges fuel' (Zlen d) end_ acc (bytes ++ rest') = Ok (acc, rest')).
  { intros count end_ acc bs C Hb. exists [], []. cbn [rev app push_ack_ranges flatten].
    change (Zlen (@nil (Z * Z))) with 0. change (Zlen (@nil Z)) with 0. repeat split; auto; try lia.
    intros rest' fuel' _. destruct fuel'; reflexivity. }
  induction fuel as [|f IH]; intros count end_ acc bs l rest Hb Hh H; cbn [pull_ack_ranges] in H.
  - destruct (count <=? 0) eqn:C; [|discriminate]. injection H as <- <-. now apply Z0.
  - destruct (count <=? 0) eqn:C; [injection H as <- <-; now apply Z0|].
    destruct (pull_uint_var bs) as [[gap bs1]|e] eqn:E1; cbn [bind] in H; [|discriminate].
    destruct (pull_uint_var bs1) as [[cnt bs2]|e] eqn:E2; cbn [bind] in H; [|discriminate].
    destruct (varint_step _ _ _ Hb E1) as (G1 & Hb1 & b1 & P1 & N1 & L1 & Q1 & R1).
    destruct (varint_step _ _ _ Hb1 E2) as (G2 & Hb2 & b2 & P2 & N2 & L2 & Q2 & R2).
    unfold rs_add_checked in H. destruct (end_ - (gap + 2) + 1 >? end_ - (gap + 2) - cnt) eqn:E3; [|lia]. cbn [bind] in H.
    destruct acc as [|[s0 e0] t]; [destruct Hh|]. cbn [head_start] in Hh. subst s0.
    cbn [add] in H. destruct (end_ - (gap + 2) + 1 <? end_) eqn:E4; [|lia].
    destruct (IH _ _ _ _ _ _ Hb2 (eq_refl : head_start ((end_ - (gap + 2) - cnt, end_ - (gap + 2) + 1) :: (end_, e0) :: t)
                                                          (end_ - (gap + 2) - cnt)) H)
      as (d' & bt & -> & Zd & Ft & Lt & Hr & Nt & Qt & Pt).
    exists ((end_ - (gap + 2) - cnt, end_ - (gap + 2) + 1) :: d'), (b1 ++ b2 ++ bt).
    split; [cbn [rev]; rewrite <- app_assoc; reflexivity|].
    split; [rewrite Zlen_cons; lia|].
    split.
    { cbn [push_ack_ranges]. replace (end_ - (end_ - (gap + 2) + 1) - 1) with gap by lia.
      replace (end_ - (gap + 2) + 1 - (end_ - (gap + 2) - cnt) - 1) with cnt by lia.
      rewrite P1, P2. now apply flatten_cons_ok, flatten_cons_ok. }
    split; [rewrite !Zlen_app; lia|]. split; [exact Hr|].
    split; [rewrite Zlen_cons, !Zlen_app; lia|].
    split. { rewrite !Zlen_app. intros EQ. rewrite (Q1 ltac:(lia)), (Q2 ltac:(lia)), (Qt ltac:(lia)), <- !app_assoc. reflexivity. }
    intros rest' fuel' Hf. destruct fuel' as [|f']; [cbn [length] in Hf; lia|].
    cbn [pull_ack_ranges]. rewrite Zlen_cons. pose proof (Zlen_nonneg d').
    destruct (1 + Zlen d' <=? 0) eqn:E0; [lia|].
    rewrite <- !app_assoc, R1. cbn [bind]. rewrite R2. cbn [bind].
    unfold rs_add_checked. rewrite E3. cbn [bind add]. rewrite E4.
    replace (1 + Zlen d' - 1) with (Zlen d') by lia.
    apply Pt. cbn [length] in Hf. lia.
Qed.

Lemma ack_reencode_strong bs l delay rest : bytes_ok bs -> pull_ack_frame bs = Ok ((l, delay), rest) ->
  exists bytes', flatten (push_ack_frame l delay) = Ok bytes' /\ Zlen bytes' + Zlen rest <= Zlen bs /\
    (Zlen bytes' + Zlen rest = Zlen bs -> bs = bytes' ++ rest) /\
    forall rest', pull_ack_frame (bytes' ++ rest') = Ok ((l, delay), rest').
Proof.
  intros Hb H. unfold pull_ack_frame in H.
  destruct (pull_uint_var bs) as [[end_ bs1]|e] eqn:E1; cbn [bind] in H; [|discriminate].
  destruct (pull_uint_var bs1) as [[dl bs2]|e] eqn:E2; cbn [bind] in H; [|discriminate].
  destruct (pull_uint_var bs2) as [[count bs3]|e] eqn:E3; cbn [bind] in H; [|discriminate].
  destruct (pull_uint_var bs3) as [[first bs4]|e] eqn:E4; cbn [bind] in H; [|discriminate].
  destruct (varint_step _ _ _ Hb E1) as (G1 & Hb1 & b1 & P1 & N1 & L1 & Q1 & R1).
  destruct (varint_step _ _ _ Hb1 E2) as (G2 & Hb2 & b2 & P2 & N2 & L2 & Q2 & R2).
  destruct (varint_step _ _ _ Hb2 E3) as (G3 & Hb3 & b3 & P3 & N3 & L3 & Q3 & R3).
  destruct (varint_step _ _ _ Hb3 E4) as (G4 & Hb4 & b4 & P4 & N4 & L4 & Q4 & R4).
  unfold rs_add_checked in H. destruct (end_ + 1 >? end_ - first) eqn:E5; [|lia]. cbn [bind add] in H.
  destruct (pull_ack_ranges (length bs4) count (end_ - first) [(end_ - first, end_ + 1)] bs4) as [[l' rest0]|e] eqn:E6;
    cbn [bind] in H; [|discriminate].
  injection H as <- <- <-.
  destruct (ranges_reenc _ _ _ _ _ _ _ Hb4 (eq_refl : head_start [(end_ - first, end_ + 1)] (end_ - first)) E6)
    as (d & bt & -> & Zd & Ft & Lt & Hr & Nt & Qt & Pt).
  assert (Zl : Zlen (rev d ++ [(end_ - first, end_ + 1)]) - 1 = count).
  { rewrite Zlen_app. unfold Zlen at 1. rewrite rev_length. fold (Zlen d). change (Zlen [(end_ - first, end_ + 1)]) with 1. lia. }
  unfold push_ack_frame. rewrite rev_app_distr, rev_involutive. cbn [rev app]. rewrite Zl.
  replace (end_ + 1 - 1) with end_ by lia. replace (end_ - (end_ - first)) with first by lia.
  exists (b1 ++ b2 ++ b3 ++ b4 ++ bt). split; [|split; [|split]].
  - rewrite P1, P2, P3, P4. now repeat apply flatten_cons_ok.
  - rewrite !Zlen_app. lia.
  - rewrite !Zlen_app. intros EQ.
    rewrite (Q1 ltac:(lia)), (Q2 ltac:(lia)), (Q3 ltac:(lia)), (Q4 ltac:(lia)), (Qt ltac:(lia)), <- !app_assoc. reflexivity.
  - intros rest'. unfold pull_ack_frame. rewrite <- !app_assoc.
    rewrite R1. cbn [bind]. rewrite R2. cbn [bind]. rewrite R3. cbn [bind]. rewrite R4. cbn [bind].
    unfold rs_add_checked. rewrite E5. cbn [bind add].
    assert (Zc : count = Zlen d) by lia. rewrite Zc at 1.
    rewrite Pt by (rewrite app_length; unfold Zlen in Nt; lia). reflexivity.
Qed.

Theorem ack_reencode bs l delay rest : bytes_ok bs -> pull_ack_frame bs = Ok ((l, delay), rest) ->
  exists bytes', flatten (push_ack_frame l delay) = Ok bytes' /\ Zlen bytes' + Zlen rest <= Zlen bs /\
    forall rest', pull_ack_frame (bytes' ++ rest') = Ok ((l, delay), rest').
Proof.
  intros Hb H. destruct (ack_reencode_strong bs l delay rest Hb H) as (b & F & L & _ & R). exists b. auto.
Qed.

(* the re-encoding reproduces the consumed bytes exactly when it is not shorter, i.e. when every varint of the input
   already had the minimal width *)
Theorem ack_reencode_canonical_iff bs l delay rest bytes' : bytes_ok bs -> pull_ack_frame bs = Ok ((l, delay), rest) ->
  flatten (push_ack_frame l delay) = Ok bytes' ->
  (bs = bytes' ++ rest <-> Zlen bytes' + Zlen rest = Zlen bs).
Proof.
  intros Hb H F. destruct (ack_reencode_strong bs l delay rest Hb H) as (b & F' & _ & Q & _).
  rewrite F in F'. injection F' as <-. split; [intros ->; rewrite Zlen_app; reflexivity|exact Q].
Qed.

Definition reenc_ack (bs : list Z) : option (list Z) :=
  match pull_ack_frame bs with
  | Ok ((l, delay), _) => match flatten (push_ack_frame l delay) with Ok b => Some b | Err _ => None end
  | Err _ => None
  end.

(* pull_uint_var accepts non-minimal varints: largest acknowledged 10 written on two bytes (40 0a) re-encodes as 0a;
   the frame of ack_rfc_layout itself is reproduced; a frame whose first range goes below zero (largest 3, first range
   length 5: packets -2..3) is accepted and re-encodes to itself *)
Theorem ack_reencode_nonminimal_refuted :
  (let bs := [64; 10; 7; 2; 1; 2; 0; 1; 2] in
   exists b, reenc_ack bs = Some b /\ b <> bs /\ Zlen b < Zlen bs /\ pull_ack_frame b = pull_ack_frame bs) /\
  reenc_ack [10; 7; 2; 1; 2; 0; 1; 2] = Some [10; 7; 2; 1; 2; 0; 1; 2] /\
  pull_ack_frame [3; 0; 0; 5] = Ok (([(-2, 4)], 0), []) /\ reenc_ack [3; 0; 0; 5] = Some [3; 0; 0; 5].
Proof.
  split; [|repeat split; vm_compute; reflexivity].
  eexists. split; [vm_compute; reflexivity|]. split; [intros X; discriminate X|]. split; vm_compute; reflexivity.
Qed.
