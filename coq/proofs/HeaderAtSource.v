(* model/HeaderAt.v computes exactly the position arithmetic that tools/gen/c17_header.py reads from
   pull_quic_header on this run (gen/C17Header.v): [pull_quic_header_src] is the header parser assembled from the
   source's own expressions for the truncation test, the returned packet_length and the Retry token size; it is
   proved equal to the hand-written offset-explicit model, hence (header_buf_is_suffix) to the suffix model, hence
   header_pull_total_at_offset / walk_total hold of it.  A test that compares a length with buf.capacity where an
   end offset is meant makes [src_matches_model] unprovable. *)
From AQ Require Import lib.Base lib.Tok model.Codec model.Varint model.Header model.HeaderAt gen.C17Header.

Definition finish_long_src (cap start version ptype : Z) (dcid scid token tag : list Z) (rl : Z) (rest : list Z)
  : Res (header * list Z) :=
  if src_long_truncated start (tell cap rest) cap rl then Err E_VALUE
  else Ok (mkHeader (Some version) ptype (src_long_packet_length start (tell cap rest) cap rl) dcid scid token tag [], rest).

Definition finish_retry_src (cap start version ptype : Z) (dcid scid token tag : list Z) (rest : list Z)
  : Res (header * list Z) :=
  if src_retry_truncated start (tell cap rest) cap then Err E_VALUE
  else Ok (mkHeader (Some version) ptype (src_retry_packet_length start (tell cap rest) cap) dcid scid token tag [], rest).

Definition pull_quic_header_src (host_cid_length cap : Z) (bs : list Z) : Res (header * list Z) :=
  let start := tell cap bs in
  '(first, b1) <- pull_uint8 bs ;;
  if is_long_header first then
    '(version, b2) <- pull_uint32 b1 ;;
    '(dl, b3) <- pull_uint8 b2 ;;
    if dl >? CONNECTION_ID_MAX_SIZE then Err E_VALUE else
    '(dcid, b4) <- pull_bytes dl b3 ;;
    '(sl, b5) <- pull_uint8 b4 ;;
    if sl >? CONNECTION_ID_MAX_SIZE then Err E_VALUE else
    '(scid, b6) <- pull_bytes sl b5 ;;
    if version =? 0 then
      vs <- pull_versions b6 ;;
      Ok (mkHeader (Some version) PT_VERSION_NEGOTIATION (src_vn_packet_length start (tell cap []) cap) dcid scid [] [] vs, [])
    else if negb (has_fixed_bit first) then Err E_VALUE
    else
      let ptype := decode_long_type version (Z.shiftr (Z.land first 48) 4) in
      if ptype =? PT_INITIAL then
        '(tl, b7) <- pull_uint_var b6 ;;
        '(token, b8) <- pull_bytes tl b7 ;;
        '(rl, b9) <- pull_uint_var b8 ;;
        finish_long_src cap start version ptype dcid scid token [] rl b9
      else if (ptype =? PT_ZERO_RTT) || (ptype =? PT_HANDSHAKE) then
        '(rl, b7) <- pull_uint_var b6 ;;
        finish_long_src cap start version ptype dcid scid [] [] rl b7
      else
        '(token, b7) <- pull_bytes (src_retry_token_length start (tell cap b6) cap) b6 ;;
        '(tag, b8) <- pull_bytes RETRY_INTEGRITY_TAG_SIZE b7 ;;
        finish_retry_src cap start version ptype dcid scid token tag b8
  else if negb (has_fixed_bit first) then Err E_VALUE
  else
    '(dcid, b2) <- pull_bytes host_cid_length b1 ;;
    Ok (mkHeader None PT_ONE_RTT (src_short_packet_length start (tell cap b2) cap) dcid [] [] [] [], b2).

Lemma finish_long_src_eq cap start version ptype dcid scid token tag rl rest :
  finish_long_src cap start version ptype dcid scid token tag rl rest =
  finish_long_at cap start version ptype dcid scid token tag rl rest.
Proof.
  unfold finish_long_src, finish_long_at, src_long_truncated, src_long_packet_length.
  destruct (tell cap rest + rl >? cap); reflexivity.
Qed.

Lemma finish_retry_src_eq cap start version ptype dcid scid token tag rest :
  finish_retry_src cap start version ptype dcid scid token tag rest =
  finish_long_at cap start version ptype dcid scid token tag 0 rest.
Proof.
  unfold finish_retry_src, finish_long_at, src_retry_truncated, src_retry_packet_length.
  destruct (tell cap rest + 0 >? cap); reflexivity.
Qed.

Theorem src_matches_model hcl cap bs : pull_quic_header_src hcl cap bs = pull_quic_header_buf hcl cap bs.
Proof.
  unfold pull_quic_header_src, pull_quic_header_buf.
  destruct (pull_uint8 bs) as [[first b1]|]; cbn [bind]; [|reflexivity].
  destruct (is_long_header first).
  2:{ destruct (negb (has_fixed_bit first)); [reflexivity|].
      destruct (pull_bytes hcl b1) as [[dcid b2]|]; cbn [bind]; reflexivity. }
  destruct (pull_uint32 b1) as [[version b2]|]; cbn [bind]; [|reflexivity].
  destruct (pull_uint8 b2) as [[dl b3]|]; cbn [bind]; [|reflexivity].
  destruct (dl >? CONNECTION_ID_MAX_SIZE); [reflexivity|].
  destruct (pull_bytes dl b3) as [[dcid b4]|]; cbn [bind]; [|reflexivity].
  destruct (pull_uint8 b4) as [[sl b5]|]; cbn [bind]; [|reflexivity].
  destruct (sl >? CONNECTION_ID_MAX_SIZE); [reflexivity|].
  destruct (pull_bytes sl b5) as [[scid b6]|]; cbn [bind]; [|reflexivity].
  destruct (version =? 0).
  { destruct (pull_versions b6); cbn [bind]; reflexivity. }
  destruct (negb (has_fixed_bit first)); [reflexivity|].
  destruct (decode_long_type version (Z.shiftr (Z.land first 48) 4) =? PT_INITIAL).
  { destruct (pull_uint_var b6) as [[tl b7]|]; cbn [bind]; [|reflexivity].
    destruct (pull_bytes tl b7) as [[token b8]|]; cbn [bind]; [|reflexivity].
    destruct (pull_uint_var b8) as [[rl b9]|]; cbn [bind]; [|reflexivity].
    apply finish_long_src_eq. }
  destruct ((_ =? PT_ZERO_RTT) || (_ =? PT_HANDSHAKE)).
  { destruct (pull_uint_var b6) as [[rl b7]|]; cbn [bind]; [|reflexivity]. apply finish_long_src_eq. }
  change (src_retry_token_length (tell cap bs) (tell cap b6) cap) with (cap - tell cap b6 - RETRY_INTEGRITY_TAG_SIZE).
  destruct (pull_bytes _ b6) as [[token b7]|]; cbn [bind]; [|reflexivity].
  destruct (pull_bytes _ b7) as [[tag b8]|]; cbn [bind]; [|reflexivity].
  apply finish_retry_src_eq.
Qed.
