(* Proofs about coq/model/KeyPhase.v (key-phase state machine of crypto.py). *)
From AQ Require Import lib.Base lib.Tok model.KeyPhase.

(* ---------------------------------------------------------------- a rejected packet changes nothing *)
Lemma rejected_packet_no_state_change_lemma : forall s p s', pair_decrypt s p = (s', Rejected) -> s' = s.
Proof.
  intros s p s' H. unfold pair_decrypt in H. destruct (ctx_decrypt (p_recv s) p); inversion H; reflexivity.
Qed.

Lemma inauthentic_rejected_lemma : forall s p, q_auth p = None -> pair_decrypt s p = (s, Rejected).
Proof.
  intros s p H. unfold pair_decrypt, ctx_decrypt. destruct (k_select (p_recv s) p) as [cr upd].
  unfold auth_under. rewrite H. reflexivity.
Qed.

Lemma set_ep_same : forall s x, set_ep s x (ep s x) = s.
Proof. intros [a b ha hb] [|]; reflexivity. Qed.

Lemma rejected_step_no_state_change_lemma : forall s e s', step s e = (s', Some Rejected) -> s' = s.
Proof.
  intros s e s' H. destruct e as [x|x|x k|y p]; cbn [step] in H.
  - inversion H.
  - destruct (pair_send (ep s x)); inversion H.
  - destruct (nth_error (hist s x) (Z.to_nat k)) as [p|]; [|inversion H].
    destruct (pair_decrypt (ep s (negb x)) p) as [e' v] eqn:E. inversion H; subst.
    apply rejected_packet_no_state_change_lemma in E. subst. apply set_ep_same.
  - destruct (pair_decrypt (ep s y) p) as [e' v] eqn:E. inversion H; subst.
    apply rejected_packet_no_state_change_lemma in E. subst. apply set_ep_same.
Qed.

(* whatever happens afterwards -- local key updates, peer key updates, any deliveries, any further injections --
   the run with the rejected packet is the run without it (plus the one "rejected" verdict) *)
Lemma rejected_no_later_effect_lemma : forall s e s' evs,
  step s e = (s', Some Rejected) ->
  run s (e :: evs) = (fst (run s evs), Some Rejected :: snd (run s evs)).
Proof.
  intros s e s' evs H. pose proof (rejected_step_no_state_change_lemma _ _ _ H) as E. subst s'.
  cbn [run]. rewrite H. destruct (run s evs); reflexivity.
Qed.

(* ---------------------------------------------------------------- generations stay in step *)
Definition gen (e : kpair) : Z := k_gen (p_recv e).

Definition wf_ctx (c : kctx) : Prop := 0 <= k_gen c /\ k_phase c = k_gen c mod 2.
Definition wf_pair (e : kpair) : Prop := wf_ctx (p_recv e) /\ wf_ctx (p_send e) /\ k_gen (p_send e) = k_gen (p_recv e).

(* every packet of x's history is a genuine sealing under a generation x has reached, with that generation's bit *)
Definition genuine_pkt (bound : Z) (p : kpkt) : Prop :=
  exists g, q_auth p = Some g /\ 0 <= g <= bound /\ q_phase p = g mod 2 /\ q_long p = false.

Definition inv (s : sys) : Prop :=
  wf_pair (s_a s) /\ wf_pair (s_b s) /\
  -1 <= gen (s_a s) - gen (s_b s) <= 1 /\
  Forall (genuine_pkt (gen (s_a s))) (h_a s) /\ Forall (genuine_pkt (gen (s_b s))) (h_b s) /\
  (p_req (s_a s) = true -> gen (s_a s) <= gen (s_b s)) /\
  (p_req (s_b s) = true -> gen (s_b s) <= gen (s_a s)).

(* what the environment may do: an endpoint starts a key update only when it is not already ahead of its peer
   (RFC 9001 6.1: not before the previous update is acknowledged -- aioquic leaves this to the application);
   injected packets are not authentic (genuine ones travel through EDeliver) *)
Definition allowed (s : sys) (e : event) : Prop :=
  match e with
  | ERequest x => gen (ep s x) <= gen (ep s (negb x))
  | EInject _ p => q_auth p = None
  | _ => True
  end.

Fixpoint allowed_run (s : sys) (evs : list event) : Prop :=
  match evs with
  | [] => True
  | e :: t => allowed s e /\ allowed_run (fst (step s e)) t
  end.

Lemma mod2_succ : forall g, (g + 1) mod 2 = if g mod 2 =? 0 then 1 else 0.
Proof.
  intros g. destruct (g mod 2 =? 0) eqn:E; [apply Z.eqb_eq in E | apply Z.eqb_neq in E];
    Z.div_mod_to_equations; lia.
Qed.

Lemma wf_next : forall c, wf_ctx c -> wf_ctx (k_next c).
Proof.
  intros c [H0 H1]. unfold wf_ctx, k_next; cbn [k_gen k_phase]. split; [lia|].
  rewrite mod2_succ, <- H1. reflexivity.
Qed.

Lemma wf_update : forall e, wf_pair e -> wf_pair (pair_update e) /\ gen (pair_update e) = gen e + 1.
Proof.
  intros e (Hr & Hs & Hg). unfold pair_update, wf_pair, gen; cbn [p_recv p_send p_req].
  repeat split; try (apply wf_next; assumption); cbn [k_next k_gen]; lia.
Qed.

Lemma genuine_weaken : forall b b' h, b <= b' -> Forall (genuine_pkt b) h -> Forall (genuine_pkt b') h.
Proof.
  intros b b' h Hb H. induction H; constructor; auto.
  destruct H as (g & ? & ? & ? & ?). exists g. repeat split; auto; lia.
Qed.

(* the receiving half: what pair_decrypt does to a well-formed pair given a genuine packet of generation g *)
Lemma decrypt_genuine : forall e p g, wf_pair e -> q_auth p = Some g -> q_phase p = g mod 2 -> q_long p = false ->
  0 <= g <= gen e + 1 ->
  (g = gen e /\ pair_decrypt e p = (e, Accepted false)) \/
  (g = gen e + 1 /\ pair_decrypt e p = (pair_update e, Accepted true)) \/
  (g < gen e /\ pair_decrypt e p = (e, Rejected)).
Proof.
  intros e p g (Hr & Hs & Hg) Ha Hp Hl Hb. destruct Hr as [Hr0 Hr1]. unfold gen in *.
  unfold pair_decrypt, ctx_decrypt, k_select, auth_under. rewrite Hl, Ha, Hp, Hr1.
  destruct (g mod 2 =? k_gen (p_recv e) mod 2) eqn:E; [apply Z.eqb_eq in E | apply Z.eqb_neq in E].
  - destruct (g =? k_gen (p_recv e)) eqn:E2; [apply Z.eqb_eq in E2 | apply Z.eqb_neq in E2].
    + left. auto.
    + right; right. split; [|reflexivity]. Z.div_mod_to_equations; lia.
  - cbn [k_next k_gen]. destruct (g =? k_gen (p_recv e) + 1) eqn:E2; [apply Z.eqb_eq in E2 | apply Z.eqb_neq in E2].
    + right; left. auto.
    + right; right. split; [|reflexivity]. Z.div_mod_to_equations; lia.
Qed.

Lemma inv_init : inv sys_init.
Proof.
  unfold inv, sys_init, pair_init, wf_pair, wf_ctx, gen; cbn. repeat split; try lia; try constructor; intros; lia.
Qed.

Lemma nth_error_Forall : forall {A} (P : A -> Prop) l n x, Forall P l -> nth_error l n = Some x -> P x.
Proof.
  intros A P l n x H E. apply nth_error_In in E. rewrite Forall_forall in H. auto.
Qed.

(* one received packet at endpoint y (y = B when [yb]), coming from a history bounded by the peer's generation *)
Lemma inv_after_decrypt : forall s (y : bool) p e' v,
  inv s -> (genuine_pkt (gen (ep s (negb y))) p \/ q_auth p = None) ->
  pair_decrypt (ep s y) p = (e', v) -> inv (set_ep s y e').
Proof.
  intros s y p e' v I Hp E.
  destruct Hp as [(g & Ha & Hb & Hph & Hl) | Hn].
  2:{ rewrite inauthentic_rejected_lemma in E by assumption. inversion E; subst. rewrite set_ep_same. exact I. }
  destruct s as [a b ha hb]. pose proof I as I0.
  destruct I as (Wa & Wb & D & Fa & Fb & Ra & Rb). cbn [s_a s_b h_a h_b] in *.
  destruct y; cbn [ep negb set_ep s_a s_b h_a h_b] in *.
  - (* receiver B, sender A *)
    destruct (decrypt_genuine b p g Wb Ha Hph Hl ltac:(lia)) as [[? E1] | [[? E1] | [? E1]]];
      rewrite E1 in E; inversion E; subst e' v.
    + exact I0.
    + destruct (wf_update b Wb) as [Wb' G']. unfold inv; cbn [s_a s_b h_a h_b].
      split; [exact Wa|]. split; [exact Wb'|]. split; [lia|]. split; [exact Fa|].
      split; [eapply genuine_weaken; [|exact Fb]; lia|]. split; [intros _; lia|]. cbn. discriminate.
    + exact I0.
  - destruct (decrypt_genuine a p g Wa Ha Hph Hl ltac:(lia)) as [[? E1] | [[? E1] | [? E1]]];
      rewrite E1 in E; inversion E; subst e' v.
    + exact I0.
    + destruct (wf_update a Wa) as [Wa' G']. unfold inv; cbn [s_a s_b h_a h_b].
      split; [exact Wa'|]. split; [exact Wb|]. split; [lia|].
      split; [eapply genuine_weaken; [|exact Fa]; lia|]. split; [exact Fb|]. split; [cbn; discriminate|]. intros _; lia.
    + exact I0.
Qed.

Lemma Forall_app_one : forall {A} (P : A -> Prop) l x, Forall P l -> P x -> Forall P (l ++ [x]).
Proof. intros. apply Forall_app. split; auto. Qed.

Lemma key_phase_of_send : forall e, wf_pair e ->
  let '(e', p) := pair_send e in
  wf_pair e' /\ genuine_pkt (gen e') p /\ q_auth p = Some (gen e') /\
  gen e' = (if p_req e then gen e + 1 else gen e) /\ p_req e' = false.
Proof.
  intros e W. unfold pair_send, pair_key_phase. destruct (p_req e) eqn:R.
  - destruct (wf_update e W) as [W' G']. pose proof W' as (Wr' & Ws' & Hg'). destruct W as (Wr & Ws & Hg).
    destruct Wr as [Wr0 Wr1]. destruct Wr' as [Wr0' Wr1']. unfold gen in *.
    split; [exact W'|]. split.
    + exists (k_gen (p_recv (pair_update e))). cbn [q_auth q_phase q_long].
      split; [rewrite Hg'; reflexivity|]. split; [lia|]. split; [|reflexivity].
      rewrite G', mod2_succ, <- Wr1. reflexivity.
    + split; [cbn [q_auth]; rewrite Hg'; reflexivity|]. split; [exact G'|]. reflexivity.
  - destruct W as (Wr & Ws & Hg). pose proof Wr as [Wr0 Wr1]. unfold gen.
    split; [exact (conj Wr (conj Ws Hg))|]. split.
    + exists (k_gen (p_recv e)). cbn [q_auth q_phase q_long].
      split; [rewrite Hg; reflexivity|]. split; [lia|]. split; [exact Wr1 | reflexivity].
    + split; [cbn [q_auth]; rewrite Hg; reflexivity|]. split; [reflexivity | exact R].
Qed.

Lemma inv_step_lemma : forall s e, inv s -> allowed s e -> inv (fst (step s e)).
Proof.
  intros s e I A. destruct e as [x|x|x k|y p]; cbn [step].
  - (* request *)
    cbn [fst]. destruct s as [a b ha hb]. destruct I as (Wa & Wb & D & Fa & Fb & Ra & Rb).
    cbn [s_a s_b h_a h_b] in *.
    destruct x; cbn [allowed ep negb set_ep s_a s_b h_a h_b] in *.
    + exact (conj Wa (conj Wb (conj D (conj Fa (conj Fb (conj Ra (fun _ => A))))))).
    + exact (conj Wa (conj Wb (conj D (conj Fa (conj Fb (conj (fun _ => A) Rb)))))).
  - (* send *)
    destruct (pair_send (ep s x)) as [e' p] eqn:E. cbn [fst].
    destruct s as [a b ha hb]. destruct I as (Wa & Wb & D & Fa & Fb & Ra & Rb). cbn [s_a s_b h_a h_b] in *.
    destruct x; cbn [ep set_ep push_hist s_a s_b h_a h_b] in *.
    + pose proof (key_phase_of_send b Wb) as K. rewrite E in K. destruct K as (W' & Gp & _ & G' & R').
      unfold inv; cbn [s_a s_b h_a h_b].
      assert (Hge : gen b <= gen e' /\ -1 <= gen a - gen e' <= 1 /\ (p_req a = true -> gen a <= gen e')).
      { destruct (p_req b) eqn:R; [specialize (Rb eq_refl)|]; (split; [lia|]); (split; [lia|]); intros H; try specialize (Ra H); lia. }
      destruct Hge as (H1 & H2 & H3).
      split; [exact Wa|]. split; [exact W'|]. split; [exact H2|]. split; [exact Fa|].
      split; [apply Forall_app_one; [eapply genuine_weaken; [exact H1 | exact Fb] | exact Gp]|].
      split; [exact H3|]. rewrite R'. discriminate.
    + pose proof (key_phase_of_send a Wa) as K. rewrite E in K. destruct K as (W' & Gp & _ & G' & R').
      unfold inv; cbn [s_a s_b h_a h_b].
      assert (Hge : gen a <= gen e' /\ -1 <= gen e' - gen b <= 1 /\ (p_req b = true -> gen b <= gen e')).
      { destruct (p_req a) eqn:R; [specialize (Ra eq_refl)|]; (split; [lia|]); (split; [lia|]); intros H; try specialize (Rb H); lia. }
      destruct Hge as (H1 & H2 & H3).
      split; [exact W'|]. split; [exact Wb|]. split; [exact H2|].
      split; [apply Forall_app_one; [eapply genuine_weaken; [exact H1 | exact Fa] | exact Gp]|].
      split; [exact Fb|]. split; [rewrite R'; discriminate | exact H3].
  - (* deliver *)
    destruct (nth_error (hist s x) (Z.to_nat k)) as [p|] eqn:N; [|exact I].
    destruct (pair_decrypt (ep s (negb x)) p) as [e' v] eqn:E. cbn [fst].
    eapply inv_after_decrypt; [exact I | | exact E]. left. rewrite Bool.negb_involutive.
    destruct I as (_ & _ & _ & Fa & Fb & _). destruct x; cbn [hist ep] in *; eapply nth_error_Forall; eauto.
  - (* inject *)
    destruct (pair_decrypt (ep s y) p) as [e' v] eqn:E. cbn [fst].
    eapply inv_after_decrypt; [exact I | right; exact A | exact E].
Qed.

Lemma inv_run_lemma : forall evs s, inv s -> allowed_run s evs -> inv (fst (run s evs)).
Proof.
  induction evs as [|e t IH]; intros s I A; [exact I|].
  destruct A as [A1 A2]. cbn [run]. destruct (step s e) as [s1 o] eqn:E.
  specialize (IH s1). cbn [fst] in A2. pose proof (inv_step_lemma s e I A1) as I1. rewrite E in I1. cbn [fst] in I1.
  specialize (IH I1 A2). destruct (run s1 t). exact IH.
Qed.

(* ---------------------------------------------------------------- the statements of props/C02.v *)
Definition reachable (s : sys) : Prop := exists evs, allowed_run sys_init evs /\ s = fst (run sys_init evs).

Lemma reachable_inv : forall s, reachable s -> inv s.
Proof. intros s (evs & A & ->). apply inv_run_lemma; [apply inv_init | exact A]. Qed.

Lemma generations_in_step_lemma : forall s, reachable s ->
  -1 <= gen (s_a s) - gen (s_b s) <= 1 /\
  k_gen (p_send (s_a s)) = k_gen (p_recv (s_a s)) /\ k_gen (p_send (s_b s)) = k_gen (p_recv (s_b s)) /\
  k_phase (p_recv (s_a s)) = gen (s_a s) mod 2 /\ k_phase (p_recv (s_b s)) = gen (s_b s) mod 2.
Proof.
  intros s R. apply reachable_inv in R. destruct R as ((Wra & _ & Ga) & (Wrb & _ & Gb) & D & _).
  destruct Wra, Wrb. unfold gen in *. repeat split; try assumption; lia.
Qed.

(* a genuine packet (any packet the peer has ever sent, delivered at any later time) is rejected ONLY when it was
   sealed under a generation the receiver has already left; otherwise it is accepted and the receiver is then in
   the packet's generation *)
Lemma genuine_packet_verdict_lemma : forall s x k p, reachable s -> nth_error (hist s x) (Z.to_nat k) = Some p ->
  exists g, q_auth p = Some g /\
    let y := ep s (negb x) in
    (g < gen y /\ pair_decrypt y p = (y, Rejected)) \/
    (gen y <= g /\ exists y' upd, pair_decrypt y p = (y', Accepted upd) /\ gen y' = g /\ upd = negb (g =? gen y)).
Proof.
  intros s x k p R N. apply reachable_inv in R. destruct s as [a b ha hb].
  destruct R as (Wa & Wb & D & Fa & Fb & _). cbn [s_a s_b h_a h_b] in *.
  destruct x; cbn [hist ep negb] in *.
  - pose proof (nth_error_Forall _ _ _ _ Fb N) as (g & Ha & Hb & Hp & Hl). exists g. split; [exact Ha|]. cbv zeta; cbn [s_a s_b h_a h_b ep negb].
    destruct (decrypt_genuine a p g Wa Ha Hp Hl ltac:(lia)) as [[? E1] | [[? E1] | [? E1]]].
    + right. split; [lia|]. exists a, false. subst g. rewrite Z.eqb_refl. auto.
    + right. split; [lia|]. exists (pair_update a), true. destruct (wf_update a Wa) as [_ G].
      repeat split; auto; try lia; try (symmetry; apply Bool.negb_true_iff; apply Z.eqb_neq; lia).
    + left. auto.
  - pose proof (nth_error_Forall _ _ _ _ Fa N) as (g & Ha & Hb & Hp & Hl). exists g. split; [exact Ha|]. cbv zeta; cbn [s_a s_b h_a h_b ep negb].
    destruct (decrypt_genuine b p g Wb Ha Hp Hl ltac:(lia)) as [[? E1] | [[? E1] | [? E1]]].
    + right. split; [lia|]. exists b, false. subst g. rewrite Z.eqb_refl. auto.
    + right. split; [lia|]. exists (pair_update b), true. destruct (wf_update b Wb) as [_ G].
      repeat split; auto; try lia; try (symmetry; apply Bool.negb_true_iff; apply Z.eqb_neq; lia).
    + left. auto.
Qed.

(* a packet sent now by an endpoint that is not behind its peer is accepted if it arrives next *)
Lemma fresh_packet_accepted_lemma : forall s x, reachable s ->
  let s1 := fst (step s (ESend x)) in
  gen (ep s1 (negb x)) <= gen (ep s1 x) ->
  exists s2 upd, step s1 (EDeliver x (Zlen (hist s x))) = (s2, Some (Accepted upd)) /\
    gen (ep s2 (negb x)) = gen (ep s2 x).
Proof.
  intros s x R s1 Hge. apply reachable_inv in R. subst s1. cbn [step] in *.
  destruct (pair_send (ep s x)) as [e' p] eqn:E. cbn [fst] in *.
  destruct s as [a b ha hb]. destruct R as (Wa & Wb & D & Fa & Fb & Ra & Rb). cbn [s_a s_b h_a h_b] in *.
  unfold Zlen. rewrite Nat2Z.id.
  destruct x; cbn [ep set_ep push_hist hist negb s_a s_b h_a h_b] in *.
  - pose proof (key_phase_of_send b Wb) as K. rewrite E in K. destruct K as (W' & (g & Ha & Hb & Hp & Hl) & Hq & G' & R').
    rewrite nth_error_app2 by lia. rewrite Nat.sub_diag. cbn [nth_error].
    rewrite Ha in Hq. inversion Hq; subst g.
    destruct (decrypt_genuine a p (gen e') Wa Ha Hp Hl) as [[? E1] | [[? E1] | [? E1]]].
    + destruct (p_req b); [specialize (Rb eq_refl)|]; lia.
    + rewrite E1. eexists; eexists; split; [reflexivity|]. cbn [s_a s_b]. lia.
    + rewrite E1. eexists; eexists; split; [reflexivity|]. cbn [s_a s_b]. destruct (wf_update a Wa) as [_ G]. lia.
    + exfalso. lia.
  - pose proof (key_phase_of_send a Wa) as K. rewrite E in K. destruct K as (W' & (g & Ha & Hb & Hp & Hl) & Hq & G' & R').
    rewrite nth_error_app2 by lia. rewrite Nat.sub_diag. cbn [nth_error].
    rewrite Ha in Hq. inversion Hq; subst g.
    destruct (decrypt_genuine b p (gen e') Wb Ha Hp Hl) as [[? E1] | [[? E1] | [? E1]]].
    + destruct (p_req a); [specialize (Ra eq_refl)|]; lia.
    + rewrite E1. eexists; eexists; split; [reflexivity|]. cbn [s_a s_b]. lia.
    + rewrite E1. eexists; eexists; split; [reflexivity|]. cbn [s_a s_b]. destruct (wf_update b Wb) as [_ G]. lia.
    + exfalso. lia.
Qed.

(* ---------------------------------------------------------------- the hypotheses are satisfiable *)
(* A requests and sends (generation 1), an attacker's copy with the phase bit flipped and B's stale packet are
   thrown at both sides, B follows on A's packet, B itself updates (generation 2), A follows. *)
Definition demo_events : list event :=
  [ESend true; ERequest false; ESend false; EInject true (mkQ None 1 false); EInject true (mkQ None 0 false);
   EDeliver false 0; EDeliver true 0; ERequest true; ESend true; EInject false (mkQ None 0 false);
   EDeliver true 1; EDeliver true 0; ESend false; EDeliver false 1].

Example demo_allowed : allowed_run sys_init demo_events.
Proof. cbn. unfold gen; cbn. repeat split; lia. Qed.

Example demo_outcome :
  snd (run sys_init demo_events) =
    [None; None; None; Some Rejected; Some Rejected; Some (Accepted true); Some Rejected; None; None; Some Rejected;
     Some (Accepted true); Some Rejected; None; Some (Accepted false)]
  /\ out_sys (fst (run sys_init demo_events)) = [2; 0; 2; 0; 0; 2; 0; 2; 0; 0].
Proof. vm_compute. split; reflexivity. Qed.
