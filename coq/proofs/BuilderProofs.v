(* Proofs about the packet builder model (coq/model/Builder.v). *)
From Coq Require Import ZArith List Bool Lia ZifyBool.
From AQ Require Import lib.Base lib.Tok gen.C13Consts model.Builder.
Import ListNotations.
Open Scope Z_scope.

Ltac destr :=
  repeat match goal with
  | |- context[if ?b then _ else _] => destruct b eqn:?
  | |- context[match ?x with _ => _ end] => destruct x eqn:?
  end.

Ltac inv_pairs :=
  repeat match goal with
  | H : (_, _) = (_, _) |- _ => inversion H; subst; clear H
  end.

(* ------------------------------------------------------------------ datagram_le_max *)
Section LeMax.
Variable c : cfg.

(* every datagram appended to self._datagrams / the log is at most max_datagram_size long *)
Definition J (s : st) : Prop :=
  Forall (fun n => n <= c_mds c) (b_dgrams s) /\ Forall (fun d => d_len d <= c_mds c) (g_log s).

Lemma flush_current_J s o s' : J s -> flush_current c s = (o, s') -> J s'.
Proof.
  unfold flush_current, J. intros [H1 H2] E.
  destruct (b_tell s =? 0); [inversion E; subst; auto|].
  match type of E with context[if ?b then _ else _] => destruct b eqn:G end; [inversion E; subst; auto|].
  inversion E; subst; clear E; simpl.
  split; apply Forall_app; split; auto; constructor; auto; simpl; lia.
Qed.

Lemma end_packet_J s p o s' : J s -> end_packet c s p = (o, s') -> J s'.
Proof.
  unfold end_packet. intros HJ E.
  destruct (b_tell s - p_start p >? p_hdr p); [|inversion E; subst; exact HJ].
  repeat match type of E with
  | context[let '(_, _) := (if ?b then _ else _) in _] => destruct b eqn:?
  end;
  repeat match type of E with
  | context[if ?b then _ else _] => destruct b eqn:?
  end; try (inversion E; subst; exact HJ).
  all: try match type of E with
  | context[flush_current c ?s2] =>
      destruct (flush_current c s2) as [o3 s3] eqn:F;
      assert (J s3) by (eapply flush_current_J; [|exact F]; destruct HJ; split; simpl; auto);
      destruct o3; inversion E; subst; auto; destruct H; split; simpl; auto
  end.
  all: inversion E; subst; destruct HJ; split; simpl; auto.
Qed.

Lemma end_current_J s o s' : J s -> end_current c s = (o, s') -> J s'.
Proof.
  unfold end_current. intros HJ E. destruct (b_cur s); [eapply end_packet_J; eauto|inversion E; subst; auto].
Qed.

Lemma datagram_init_J s : J s -> J (datagram_init c s).
Proof. unfold datagram_init, J. intros [H1 H2]. destruct (b_dginit s); simpl; auto. Qed.

Lemma start_packet_J s t o s' : J s -> start_packet c s t = (o, s') -> J s'.
Proof.
  unfold start_packet. intros HJ E.
  destruct (negb (valid_ptype t)); [inversion E; subst; auto|].
  destruct (end_current c s) as [o1 s1] eqn:E1.
  assert (J1 : J s1) by (eapply end_current_J; eauto).
  destruct o1; try (inversion E; subst; exact J1).
  destruct (b_bcap s1 - b_tell s1 <? DATAGRAM_MIN_SPACE).
  - destruct (flush_current c s1) as [o2 s2] eqn:E2.
    assert (J2 : J s2) by (eapply flush_current_J; eauto).
    destruct o2; try (inversion E; subst; exact J2).
    pose proof (datagram_init_J s2 J2) as J3.
    destruct (_ >=? _); inversion E; subst; auto; destruct J3; split; simpl; auto.
  - pose proof (datagram_init_J s1 J1) as J3.
    destruct (_ >=? _); inversion E; subst; auto; destruct J3; split; simpl; auto.
Qed.

Lemma start_frame_J s ft cap o s' : J s -> start_frame c s ft cap = (o, s') -> J s'.
Proof.
  unfold start_frame. intros HJ E.
  repeat match type of E with
  | context[if ?b then _ else _] => destruct b
  | context[match ?x with _ => _ end] => destruct x
  end; inversion E; subst; auto.
Qed.

Lemma push_J s n o s' : J s -> push c s n = (o, s') -> J s'.
Proof.
  unfold push. intros HJ E.
  repeat match type of E with context[if ?b then _ else _] => destruct b end; inversion E; subst; auto.
Qed.

Lemma flush_J s o s' d p : J s -> flush c s = (o, s', d, p) -> J s' /\ Forall (fun n => n <= c_mds c) d.
Proof.
  unfold flush. intros HJ E.
  destruct (end_current c s) as [o1 s1] eqn:E1.
  assert (J1 : J s1) by (eapply end_current_J; eauto).
  destruct o1; try (inversion E; subst; split; [exact J1|constructor]).
  destruct (flush_current c s1) as [o2 s2] eqn:E2.
  assert (J2 : J s2) by (eapply flush_current_J; eauto).
  destruct o2; inversion E; subst; try (split; [exact J2|constructor]).
  destruct J2; split; [split; simpl; auto|auto].
Qed.

Lemma step_J s o r s' d : J s -> step c s o = (r, s', d) -> J s' /\ Forall (fun n => n <= c_mds c) d.
Proof.
  intros HJ E. destruct o; simpl in E.
  - destruct (start_packet c s t) eqn:F. inversion E; subst. split; [eapply start_packet_J; eauto|constructor].
  - destruct (start_frame c s ft cap) eqn:F. inversion E; subst. split; [eapply start_frame_J; eauto|constructor].
  - destruct (push c s n) eqn:F. inversion E; subst. split; [eapply push_J; eauto|constructor].
  - destruct (flush c s) as [[[r0 s0] d0] p0] eqn:F. inversion E; subst. eapply flush_J; eauto.
Qed.

Lemma run_J ops : forall s, J s -> J (fst (run c s ops)) /\ Forall (fun n => n <= c_mds c) (snd (run c s ops)).
Proof.
  induction ops as [|o t IH]; intros s HJ; simpl; [split; auto|].
  destruct (step c s o) as [[r s'] d] eqn:E.
  destruct (step_J _ _ _ _ _ HJ E) as [J' Hd].
  destruct (run c s' t) as [s'' d'] eqn:R. specialize (IH s' J'). rewrite R in IH. simpl in *.
  destruct IH. split; auto. apply Forall_app; auto.
Qed.

Lemma init_J pn : J (init_st c pn).
Proof. split; constructor. Qed.
End LeMax.

(* For ALL configurations (any max_datagram_size, budgets, CID/token lengths) and ALL op sequences, including
   API misuse: every datagram handed out by flush(), and every datagram ever appended, is <= max_datagram_size. *)
Theorem datagram_le_max_all :
  forall (c : cfg) (pn : Z) (ops : list op),
    Forall (fun n => n <= c_mds c) (snd (run c (init_st c pn) ops)) /\
    Forall (fun d => d_len d <= c_mds c) (g_log (fst (run c (init_st c pn) ops))).
Proof.
  intros. destruct (run_J c ops (init_st c pn) (init_J c pn)) as [[_ H] H']. split; auto.
Qed.

(* ------------------------------------------------------------------ total_le_budget *)
Lemma zsum_app a b : zsum (a ++ b) = zsum a + zsum b.
Proof. induction a; simpl; lia. Qed.

Definition wf_cfg (c : cfg) : Prop := 0 <= c_peer c /\ 0 <= c_host c /\ 0 <= c_token c.

(* the CryptoPair can encrypt every packet that fits a datagram: it has no size limit, or max_datagram_size does
   not exceed its limit (aioquic's CryptoPair: 1500).  Otherwise encrypt_packet raises CryptoError in the middle of
   _end_packet for full-size packets, datagrams_to_send propagates it and the builder is abandoned. *)
Definition crypto_fits (c : cfg) : Prop :=
  match c_cmax c with Some m => c_mds c <= m | None => True end.

Lemma header_size_nonneg c t : wf_cfg c -> 0 <= header_size c t.
Proof.
  unfold wf_cfg, header_size, LONG_HEADER_FIXED, SHORT_HEADER_FIXED. intros (?&?&?).
  assert (0 <= match size_uint_var (c_token c) with Some s => s | None => 8 end)
    by (unfold size_uint_var; destr; lia).
  destr; lia.
Qed.

(* the reservation made by start_frame for an empty packet covers the sample padding of _end_packet:
   START_FRAME_EMPTY_RESERVE is read from the source by tools/gen/c13_consts.py *)
Lemma reserve_covers_sample : PACKET_NUMBER_MAX_SIZE - PACKET_NUMBER_SEND_SIZE <= START_FRAME_EMPTY_RESERVE.
Proof. unfold PACKET_NUMBER_MAX_SIZE, PACKET_NUMBER_SEND_SIZE, START_FRAME_EMPTY_RESERVE. lia. Qed.

(* smallest payload _end_packet ever sends (shorter payloads are padded up to it) *)
Definition MIN_PAYLOAD : Z := PACKET_NUMBER_MAX_SIZE - PACKET_NUMBER_SEND_SIZE.

Section Budget.
Variable c : cfg.
Variable mt : Z.
Hypothesis Hmt : c_max_total c = Some mt.
Hypothesis Hwf : wf_cfg c.
Hypothesis Hfit : crypto_fits c.

Definition Inv (s : st) : Prop :=
  0 <= b_tell s /\
  b_fcap s <= b_bcap s /\
  0 <= b_total s /\
  (b_total s = 0 \/ b_total s <= mt) /\
  Forall (fun n => 0 <= n) (b_dgrams s) /\
  (b_dginit s = true -> b_tell s = 0 /\ b_cur s = None) /\
  (b_dginit s = false -> b_bcap s <= mt - b_total s) /\
  (b_cur s = None -> b_tell s = 0 \/ b_tell s <= b_bcap s) /\
  b_bcap s <= c_mds c /\
  (forall p, b_cur s = Some p ->
     0 <= p_start p /\ 0 <= p_hdr p /\ p_start p + p_hdr p < b_bcap s /\
     (b_tell s <= p_start p + p_hdr p \/ b_tell s + AEAD_TAG_SIZE <= b_bcap s) /\ p_start p + p_hdr p <= b_tell s /\
     (* a non-empty packet was started with room for the padded minimum payload and the tag *)
     (p_start p + p_hdr p < b_tell s -> p_start p + p_hdr p + MIN_PAYLOAD + AEAD_TAG_SIZE <= b_bcap s)).

(* flush of a datagram whose length respects the slack *)
Lemma flush_current_inv s o s' :
  Inv s -> b_cur s = None -> flush_current c s = (o, s') -> Inv s' /\ b_cur s' = None.
Proof.
  unfold flush_current. intros HI Hc E.
  destruct (b_tell s =? 0) eqn:T0; [inversion E; subst; auto|].
  cbv zeta in E.
  destruct HI as (H0&H1&H2&H3&H4&H5&H6&H7&HM&H8).
  destruct (b_dginit s) eqn:DI; [destruct (H5 eq_refl); lia|].
  specialize (H6 eq_refl). specialize (H7 Hc).
  assert (Hnone : forall (P : pkt -> Prop) p, @None pkt = Some p -> P p) by (intros; discriminate).
  destruct (b_dgpad s); [destruct (b_fcap s - b_tell s >? 0) eqn:X|simpl in E];
  match type of E with context[if ?b then _ else _] => destruct b eqn:G end;
  inversion E; subst; clear E; simpl;
  try (split; [unfold Inv; rewrite ?DI, ?Hc; repeat split; auto; intros; discriminate|exact Hc]);
  (split; [|exact Hc]); unfold Inv; simpl; rewrite Hc;
  repeat split; try lia; auto; try discriminate; try (apply Hnone);
  try (apply Forall_app; split; auto; constructor; auto; lia).
Qed.

Lemma flush_current_gen s o s' :
  0 <= b_tell s -> b_fcap s <= b_bcap s -> 0 <= b_total s ->
  Forall (fun n => 0 <= n) (b_dgrams s) ->
  b_dginit s = false -> b_bcap s <= mt - b_total s ->
  b_tell s <= b_bcap s ->
  flush_current c s = (o, s') ->
  (s' = s /\ (o = ODone /\ b_tell s = 0 \/ o = OBufferWrite /\ (b_dgpad s = false -> b_tell s > c_mds c))) \/
  (o = ODone /\ b_tell s' = 0 /\ b_dginit s' = true /\ b_cur s' = b_cur s /\ b_bcap s' = b_bcap s /\
   b_fcap s' = b_fcap s /\ 0 <= b_total s' /\ b_total s' <= mt /\ Forall (fun n => 0 <= n) (b_dgrams s')).
Proof.
  unfold flush_current. intros H0 H1 H2 H4 DI H6 H7 E.
  destruct (b_tell s =? 0) eqn:T0; [inversion E; subst; left; split; auto; left; split; auto; lia|].
  cbv zeta in E.
  destruct (b_dgpad s); [destruct (b_fcap s - b_tell s >? 0) eqn:X|simpl in E];
  match type of E with context[if ?b then _ else _] => destruct b eqn:G end;
  inversion E; subst; clear E; simpl;
  try (left; split; [reflexivity|right; split; [reflexivity|intros; try discriminate; lia]]);
  right; repeat split; try lia; auto;
  try (apply Forall_app; split; auto; constructor; auto; lia).
Qed.

Ltac solve_inv Hnone :=
  repeat split; try lia; auto; try discriminate; try (apply Hnone);
  try (match goal with H : Some _ = Some _ |- _ => inversion H; subst; clear H end; simpl; auto; lia);
  try (let q := fresh "q" in let Hq := fresh "Hq" in
       intros q Hq; inversion Hq; subst; simpl; repeat split; auto; lia);
  try (apply Forall_app; split; auto; constructor; auto; lia).

Lemma end_packet_inv s p o s' :
  Inv s -> b_cur s = Some p ->
  end_packet c s p = (o, s') -> Inv s' /\ (o = ODone -> b_cur s' = None).
Proof.
  intros HI Hc E.
  destruct HI as (H0&H1&H2&H3&H4&H5&H6&H7&HM&H8).
  destruct (H8 p Hc) as (P0&P1&P2&P3&P4&P5).
  destruct (b_dginit s) eqn:DI; [destruct (H5 eq_refl); congruence|].
  specialize (H6 eq_refl).
  assert (Hnone : forall (P : pkt -> Prop) q, @None pkt = Some q -> P q) by (intros; discriminate).
  unfold end_packet in E.
  destruct (b_tell s - p_start p >? p_hdr p) eqn:SZ.
  2:{ inversion E; subst; clear E. split; [|reflexivity].
      unfold Inv, set_cur, set_tell; simpl. rewrite DI. solve_inv Hnone. }
  cbv zeta in E.
  (* stage A: the padding amount *)
  match type of E with context[let '(_, _) := ?X in _] => destruct X as [padding pad2] eqn:PP end.
  assert (PB : padding <= 0 \/ (0 < padding /\ b_tell s + padding + AEAD_TAG_SIZE <= b_bcap s)).
  { assert (P5' := P5). unfold MIN_PAYLOAD in P5'.
    unfold remaining_flight_space in *.
    destruct (_ && (p_type p =? PT_ONE_RTT)) in PP.
    - destruct (_ >? _) eqn:RF in PP; apply pair_equal_spec in PP; destruct PP as [<- <-]; lia.
    - apply pair_equal_spec in PP; destruct PP as [<- <-]. lia. }
  assert (PB2 : (p_type p =? PT_ONE_RTT) = true -> pad2 = false).
  { intros T1. rewrite T1 in PP. rewrite andb_true_r in PP.
    destruct (b_dgpad s || _) in PP; apply pair_equal_spec in PP; destruct PP as [_ <-]; reflexivity. }
  assert (TB : b_tell s + AEAD_TAG_SIZE <= b_bcap s) by lia.
  clear PP.
  (* stage B: padding push *)
  destruct ((padding >? 0) && (b_tell s + padding >? c_mds c)) eqn:PE.
  { inversion E; subst; clear E. split; [|intros; discriminate].
    unfold Inv, set_dgpad; simpl. rewrite DI, Hc. solve_inv Hnone. }
  (* stage C: size after padding *)
  match type of E with context[let '(_, _) := ?X in _] => destruct X as [psz infl] eqn:PS end.
  assert (PZ : psz = b_tell s - p_start p + Z.max padding 0).
  { destruct (padding >? 0) eqn:G in PS; apply pair_equal_spec in PS; destruct PS as [<- <-]; lia. }
  clear PS.
  (* stage C': encrypt_packet cannot raise CryptoError, the packet fits the datagram *)
  destruct (match c_cmax c with Some m => psz + AEAD_TAG_SIZE >? m | None => false end) eqn:CE.
  { exfalso. unfold crypto_fits in Hfit. destruct (c_cmax c); [|discriminate]. lia. }
  (* stage D: encrypted packet push *)
  destruct (p_start p + (psz + AEAD_TAG_SIZE) >? c_mds c) eqn:EE.
  { inversion E; subst; clear E. split; [|intros; discriminate].
    unfold Inv, set_dgpad, set_cur, set_tell; simpl. rewrite DI. solve_inv Hnone. }
  (* stage E: completion *)
  unfold AEAD_TAG_SIZE in *.
  destruct (p_type p =? PT_ONE_RTT) eqn:T1.
  - match type of E with context[flush_current c ?s2] => destruct (flush_current c s2) as [o3 s3] eqn:F end.
    apply flush_current_gen in F; simpl; auto; try lia.
    destruct F as [ [ES [ [EO Z0] | [EO GT] ] ] | (EO & F1 & F2 & F3 & F4 & F5 & F6 & F7 & F8) ]; subst o3; try subst s3; simpl in *.
    + lia.
    + (* the Buffer check of the datagram flush repeats the check of the packet push *)
      inversion E; subst; clear E. split; [|intros; discriminate]. exfalso.
      specialize (GT (PB2 eq_refl)). lia.
    + inversion E; subst; clear E. split; [|reflexivity].
      unfold Inv; simpl. rewrite F1, F2, F4, F5. solve_inv Hnone.
  - inversion E; subst; clear E. split; [|reflexivity].
    unfold Inv; simpl. rewrite DI. solve_inv Hnone.
Qed.

Lemma end_current_inv s o s' :
  Inv s -> end_current c s = (o, s') -> Inv s' /\ (o = ODone -> b_cur s' = None).
Proof.
  unfold end_current. intros HI E. destruct (b_cur s) as [p|] eqn:Hc.
  - eapply end_packet_inv; eauto.
  - inversion E; subst. auto.
Qed.

Lemma datagram_init_inv s :
  Inv s -> b_cur s = None -> Inv (datagram_init c s) /\ b_cur (datagram_init c s) = None /\
                             b_dginit (datagram_init c s) = false /\ b_tell (datagram_init c s) = b_tell s.
Proof.
  unfold datagram_init. intros HI Hc. destruct (b_dginit s) eqn:DI; [|auto].
  destruct HI as (H0&H1&H2&H3&H4&H5&H6&H7&HM&H8). destruct (H5 DI) as [T0 _].
  rewrite Hmt. simpl. repeat split; auto; unfold Inv; simpl; rewrite ?Hc, ?T0.
  all: repeat split; try lia; auto; try discriminate;
    try (destruct (c_max_flight c); destr; lia); try (destr; lia); try (intros; simpl in *; congruence).
Qed.

Lemma start_packet_tail s2 t o s' :
  Inv s2 -> b_cur s2 = None ->
  (let packet_start := b_tell s2 in
   let s3 := datagram_init c s2 in
   let h := header_size c t in
   if packet_start + h >=? b_bcap s3 then (OStop, s3) else
   (ODone,
    mkSt (packet_start + h) (b_bcap s3) (b_fcap s3) (b_dgflight s3) (b_dginit s3) (b_dgpad s3) (b_flight s3)
         (b_total s3) (Some (mkPkt t packet_start h false false false (b_pn s3))) true (b_pn s3)
         (b_dgrams s3) (b_pkts s3) (g_hasinit s3) (g_log s3))) = (o, s') -> Inv s'.
Proof.
  intros I2 C2 E. cbv zeta in E.
  destruct (datagram_init_inv s2 I2 C2) as (I3 & C3 & D3 & T3).
  destruct (b_tell s2 + header_size c t >=? b_bcap (datagram_init c s2)) eqn:G; inversion E; subst; clear E; auto.
  destruct I3 as (H0&H1&H2&H3&H4&H5&H6&H7&HM&H8).
  pose proof (header_size_nonneg c t Hwf).
  unfold Inv; simpl. rewrite D3 in *. rewrite T3 in *.
  repeat split; try lia; auto; try discriminate.
  all: match goal with H : Some _ = Some _ |- _ => inversion H; subst; clear H end; simpl; lia.
Qed.

Lemma start_packet_inv s t o s' :
  Inv s -> start_packet c s t = (o, s') -> Inv s'.
Proof.
  unfold start_packet. intros HI E.
  destruct (negb (valid_ptype t)); [inversion E; subst; auto|].
  destruct (end_current c s) as [o1 s1] eqn:E1.
  destruct (end_current_inv _ _ _ HI E1) as [I1 C1].
  destruct o1; try (inversion E; subst; exact I1). specialize (C1 eq_refl).
  destruct (b_bcap s1 - b_tell s1 <? DATAGRAM_MIN_SPACE).
  - destruct (flush_current c s1) as [o2 s2] eqn:F. destruct (flush_current_inv _ _ _ I1 C1 F) as [I2 C2].
    destruct o2; try (inversion E; subst; exact I2).
    eapply start_packet_tail; eauto.
  - eapply start_packet_tail; eauto.
Qed.

Lemma start_frame_inv s ft cap o s' :
  Inv s -> op_disciplined s (OpStartFrame ft cap) = true -> start_frame c s ft cap = (o, s') -> Inv s'.
Proof.
  unfold start_frame, op_disciplined, remaining_buffer_space, remaining_flight_space. intros HI HD E.
  destruct (b_cur s) as [p|] eqn:Hc; [|discriminate].
  destruct (size_uint_var _) as [sz|] eqn:SZ; [|discriminate].
  assert (1 <= sz) by (unfold size_uint_var in SZ; revert SZ; destr; intros SZ; inversion SZ; lia).
  cbv zeta in E.
  destruct (negb (b_hascrypto s)); [inversion E; subst; auto|].
  destruct (_ || _) eqn:ST in E; [inversion E; subst; auto|].
  destruct (b_tell s + sz >? c_mds c); inversion E; subst; clear E; auto.
  destruct HI as (H0&H1&H2&H3&H4&H5&H6&H7&HM&H8). destruct (H8 p Hc) as (P0&P1&P2&P3&P4&P5).
  pose proof reserve_covers_sample as RS. fold MIN_PAYLOAD in RS.
  (* the space check, with the capacity raised to the reserve when the packet is empty *)
  assert (SP : b_tell s + sz + AEAD_TAG_SIZE <= b_bcap s /\
               (b_tell s <= p_start p + p_hdr p -> b_tell s + MIN_PAYLOAD + AEAD_TAG_SIZE <= b_bcap s)).
  { apply orb_false_iff in ST. destruct ST as [ST _].
    destruct (b_tell s - p_start p <=? p_hdr p) eqn:EM.
    - destruct (cap <? START_FRAME_EMPTY_RESERVE) eqn:CR; lia.
    - lia. }
  destruct SP as [SP1 SP2].
  unfold Inv, set_cur, set_tell; simpl.
  repeat split; try lia; auto; try discriminate.
  all: try (match goal with DI : b_dginit _ = true |- _ => destruct (H5 DI); simpl in *; try congruence; lia end).
  all: match goal with H : Some _ = Some _ |- _ => inversion H; subst; clear H end; simpl; try lia.
Qed.

Lemma push_inv s n o s' :
  Inv s -> op_disciplined s (OpPush n) = true -> push c s n = (o, s') -> Inv s'.
Proof.
  unfold push, op_disciplined, cur_nonempty, remaining_buffer_space. intros HI HD E.
  destruct (b_cur s) as [p|] eqn:Hc; [|discriminate].
  destruct (n <? 0); [inversion E; subst; auto|].
  destruct (b_tell s + n >? c_mds c); inversion E; subst; clear E; auto.
  destruct HI as (H0&H1&H2&H3&H4&H5&H6&H7&HM&H8). destruct (H8 p Hc) as (P0&P1&P2&P3&P4&P5).
  unfold Inv, set_tell; simpl. rewrite Hc.
  repeat split; try lia; auto; try discriminate.
  all: try (match goal with DI : b_dginit _ = true |- _ => destruct (H5 DI); simpl in *; try congruence; lia end).
  all: match goal with H : Some _ = Some _ |- _ => inversion H; subst; clear H end; simpl; try lia.
Qed.

Lemma flush_inv s o s' dg pk :
  Inv s -> flush c s = (o, s', dg, pk) -> Inv s'.
Proof.
  unfold flush. intros HI E.
  destruct (end_current c s) as [o1 s1] eqn:E1.
  destruct (end_current_inv _ _ _ HI E1) as [I1 C1].
  destruct o1; try (inversion E; subst; exact I1). specialize (C1 eq_refl).
  destruct (flush_current c s1) as [o2 s2] eqn:F. destruct (flush_current_inv _ _ _ I1 C1 F) as [I2 C2].
  destruct o2; inversion E; subst; clear E; auto.
  destruct I2 as (H0&H1&H2&H3&H4&H5&H6&H7&HM&H8).
  unfold Inv; simpl. repeat split; auto.
  all: try (match goal with DI : b_dginit _ = true |- _ => destruct (H5 DI); auto end).
  all: match goal with H : b_cur _ = Some ?p |- _ => destruct (H8 p H) as (?&?&?&?&?&?); auto end.
Qed.

Lemma step_inv s o r s' dg :
  Inv s -> op_disciplined s o = true -> step c s o = (r, s', dg) -> Inv s'.
Proof.
  intros HI HD E. destruct o; simpl in E.
  - destruct (start_packet c s t) eqn:F. inversion E; subst. eapply start_packet_inv; eauto.
  - destruct (start_frame c s ft cap) eqn:F. inversion E; subst. eapply start_frame_inv; eauto.
  - destruct (push c s n) eqn:F. inversion E; subst. eapply push_inv; eauto.
  - destruct (flush c s) as [[[r0 s0] d0] p0] eqn:F. inversion E; subst. eapply flush_inv; eauto.
Qed.

Lemma run_inv ops : forall s,
  Inv s -> disciplined c s ops = true -> Inv (fst (run c s ops)).
Proof.
  induction ops as [|o t IH]; intros s HI HD; simpl; auto.
  simpl in HD. apply andb_true_iff in HD. destruct HD as [HD1 HD2].
  destruct (step c s o) as [[r s'] dg] eqn:E.
  pose proof (step_inv _ _ _ _ _ HI HD1 E) as I'.
  specialize (IH s' I' HD2). destruct (run c s' t); simpl in *; auto.
Qed.

Lemma init_inv pn : Inv (init_st c pn).
Proof.
  unfold Inv, init_st; simpl. repeat split; try lia; auto; try discriminate.
Qed.
End Budget.

(* ------------------------------------------------------------------ bytes returned = _total_bytes *)
Section Sum.
Variable c : cfg.

(* U = bytes of datagrams already handed out by flush() *)
Definition U (s : st) : Z := b_total s - zsum (b_dgrams s).

Lemma flush_current_U s o s' : flush_current c s = (o, s') -> U s' = U s.
Proof.
  unfold flush_current, U. intros E. cbv zeta in E.
  repeat match type of E with context[if ?b then _ else _] => destruct b eqn:? end;
  inversion E; subst; simpl; rewrite ?zsum_app; simpl; lia.
Qed.

Lemma end_packet_U s p o s' : end_packet c s p = (o, s') -> U s' = U s.
Proof.
  unfold end_packet. intros E. cbv zeta in E.
  destruct (b_tell s - p_start p >? p_hdr p); [|inversion E; subst; reflexivity].
  match type of E with context[let '(_, _) := ?X in _] => destruct X as [padding pad2] end.
  destruct (_ && _) in E; [inversion E; subst; reflexivity|].
  match type of E with context[let '(_, _) := ?X in _] => destruct X as [psz infl] end.
  destruct (match c_cmax c with Some m => _ | None => false end) in E; [inversion E; subst; reflexivity|].
  destruct (_ >? c_mds c) in E; [inversion E; subst; reflexivity|].
  destruct (p_type p =? PT_ONE_RTT).
  - match type of E with context[flush_current c ?s2] => destruct (flush_current c s2) as [o3 s3] eqn:F end.
    apply flush_current_U in F. unfold U in *; simpl in *.
    destruct o3; inversion E; subst; simpl; lia.
  - inversion E; subst; reflexivity.
Qed.

Lemma end_current_U s o s' : end_current c s = (o, s') -> U s' = U s.
Proof.
  unfold end_current. intros E. destruct (b_cur s); [eapply end_packet_U; eauto|inversion E; subst; auto].
Qed.

Lemma datagram_init_U s : U (datagram_init c s) = U s.
Proof. unfold datagram_init, U. destruct (b_dginit s); reflexivity. Qed.

Lemma step_U s o r s' dg : step c s o = (r, s', dg) -> U s' = U s + zsum dg.
Proof.
  intros E. destruct o; simpl in E.
  - destruct (start_packet c s t) as [r0 s0] eqn:F. inversion E; subst; clear E. simpl.
    unfold start_packet in F.
    destruct (negb (valid_ptype t)); [inversion F; subst; lia|].
    destruct (end_current c s) as [o1 s1] eqn:E1. apply end_current_U in E1.
    destruct o1; try (inversion F; subst; lia).
    destruct (b_bcap s1 - b_tell s1 <? DATAGRAM_MIN_SPACE).
    + destruct (flush_current c s1) as [o2 s2] eqn:E2. apply flush_current_U in E2.
      destruct o2; try (inversion F; subst; lia).
      pose proof (datagram_init_U s2).
      destruct (_ >=? _) in F; inversion F; subst; unfold U in *; simpl in *; lia.
    + pose proof (datagram_init_U s1).
      destruct (_ >=? _) in F; inversion F; subst; unfold U in *; simpl in *; lia.
  - destruct (start_frame c s ft cap) as [r0 s0] eqn:F. inversion E; subst; clear E. simpl.
    unfold start_frame in F.
    repeat match type of F with
    | context[if ?b then _ else _] => destruct b
    | context[match ?x with _ => _ end] => destruct x
    end; inversion F; subst; unfold U; simpl; lia.
  - destruct (push c s n) as [r0 s0] eqn:F. inversion E; subst; clear E. simpl.
    unfold push in F.
    repeat match type of F with context[if ?b then _ else _] => destruct b end;
    inversion F; subst; unfold U; simpl; lia.
  - destruct (flush c s) as [[[r0 s0] d0] p0] eqn:F. inversion E; subst; clear E.
    unfold flush in F.
    destruct (end_current c s) as [o1 s1] eqn:E1. apply end_current_U in E1.
    destruct o1; try (inversion F; subst; simpl; lia).
    destruct (flush_current c s1) as [o2 s2] eqn:E2. apply flush_current_U in E2.
    destruct o2; inversion F; subst; unfold U in *; simpl in *; lia.
Qed.

Lemma run_U ops : forall s, U (fst (run c s ops)) = U s + zsum (snd (run c s ops)).
Proof.
  induction ops as [|o t IH]; intros s; simpl; [lia|].
  destruct (step c s o) as [[r s'] dg] eqn:E. apply step_U in E.
  specialize (IH s'). destruct (run c s' t); simpl in *. rewrite zsum_app. lia.
Qed.
End Sum.

Lemma zsum_nonneg l : Forall (fun n => 0 <= n) l -> 0 <= zsum l.
Proof. induction 1; simpl; lia. Qed.

(* total_le_budget (strict).  For every configuration with max_total_bytes = mt (any max_datagram_size, any
   max_flight_bytes, any CID / token lengths, any first packet number) and every op sequence that respects the caller
   discipline: the bytes of all datagrams handed out are <= mt.  (When mt <= 0 nothing is sent at all.)
   Before fix e93c691 the bound was mt + 1 (header-protection sample padding of a one-byte packet); start_frame now
   reserves START_FRAME_EMPTY_RESERVE bytes in an empty packet, and reserve_covers_sample ties that constant to
   the padding computed by _end_packet. *)
Theorem total_le_budget_strict :
  forall (c : cfg) (mt pn : Z) (ops : list op),
    c_max_total c = Some mt -> wf_cfg c -> crypto_fits c ->
    disciplined c (init_st c pn) ops = true ->
    zsum (snd (run c (init_st c pn) ops)) <= Z.max 0 mt.
Proof.
  intros c mt pn ops Hmt Hwf Hfit HD.
  assert (HI : Inv c mt (fst (run c (init_st c pn) ops))).
  { apply (run_inv c mt Hmt Hwf Hfit); auto. apply init_inv. }
  pose proof (run_U c ops (init_st c pn)) as HU. unfold U in HU; simpl in HU.
  destruct HI as (H0&H1&H2&H3&H4&_). apply zsum_nonneg in H4. lia.
Qed.

(* the history that exceeded max_total_bytes by one byte before the fix (a 1-RTT packet carrying a single PING when
   exactly header + 1 + tag bytes of budget remain): start_frame now raises QuicPacketBuilderStop, nothing is sent *)
Definition overshoot_cfg : cfg := mkCfg false 1200 8 8 0 None (Some 28) (Some 1500).
Definition overshoot_ops : list op := [OpStartPacket PT_ONE_RTT; OpStartFrame FT_PING 1; OpFlush].

Example former_overshoot_now_stops :
  disciplined overshoot_cfg (init_st overshoot_cfg 0) overshoot_ops = true /\
  fst (fst (step overshoot_cfg (fst (run overshoot_cfg (init_st overshoot_cfg 0) [OpStartPacket PT_ONE_RTT]))
                 (OpStartFrame FT_PING 1))) = OStop /\
  snd (run overshoot_cfg (init_st overshoot_cfg 0) overshoot_ops) = [] /\
  snd (run (mkCfg false 1200 8 8 0 None (Some 29) (Some 1500)) (init_st (mkCfg false 1200 8 8 0 None (Some 29) (Some 1500)) 0) overshoot_ops) = [29].
Proof. repeat split; vm_compute; reflexivity. Qed.

(* why the discipline says "bytes are pushed only after a frame was started": the reservation is made by start_frame,
   a byte pushed into an EMPTY packet (something connection.py never does) still gets the unreserved sample padding *)
Example push_without_frame_overshoots :
  let ops := [OpStartPacket PT_ONE_RTT; OpPush 1; OpFlush] in
  disciplined overshoot_cfg (init_st overshoot_cfg 0) ops = false /\
  snd (run overshoot_cfg (init_st overshoot_cfg 0) ops) = [29].
Proof. split; vm_compute; reflexivity. Qed.

(* hypotheses of the budget theorem are satisfiable by a non-trivial history; the last packet has a one-byte payload *)
Example budget_hyps_satisfiable :
  let c := mkCfg true 1200 8 8 0 (Some 5000) (Some 2500) (Some 1500) in
  let ops := [OpStartPacket PT_INITIAL; OpStartFrame FT_CRYPTO 4; OpPush 300; OpStartPacket PT_HANDSHAKE;
              OpStartFrame FT_CRYPTO 4; OpPush 600; OpStartPacket PT_ONE_RTT; OpStartFrame 8 4; OpPush 50; OpFlush;
              OpStartPacket PT_ONE_RTT; OpStartFrame FT_PING 1; OpFlush] in
  wf_cfg c /\ crypto_fits c /\ disciplined c (init_st c 0) ops = true /\
  snd (run c (init_st c 0) ops) = [1200; 29].
Proof.
  cbv zeta. split; [unfold wf_cfg; cbn; lia|]. split; [unfold crypto_fits; cbn; lia|]. split; vm_compute; reflexivity.
Qed.
