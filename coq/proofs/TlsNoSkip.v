(* C11, theorems no_skip (client and server) and keys_after_authentication: for EVERY sequence of
   messages and EVERY valuation of the oracle fields, by induction over the sequence with a state
   invariant that ties Context.state to the list of messages accepted so far. *)
From AQ Require Import lib.Base gen.TlsDispatch model.TlsSM proofs.TlsDispatchLegal.

(* ---------- traces ---------------------------------------------------------------------- *)
Definition ev_msg (e : event) : msg := fst (fst (fst e)).
Definition ev_out (e : event) : outcome := snd (fst (fst e)).
Definition ev_st (e : event) : st := snd (fst e).
Definition ev_keys (e : event) : list key := snd e.

Definition is_ok (o : outcome) : bool := match o with OOk => true | _ => false end.

(* the messages the Context accepted (handler returned normally), in order *)
Definition accepted (tr : list event) : list msg :=
  map ev_msg (filter (fun e => is_ok (ev_out e)) tr).

Fixpoint final (s : st) (tr : list event) : st :=
  match tr with [] => s | e :: r => final (ev_st e) r end.

Definition push (acc : list msg) (o : outcome) (m : msg) : list msg :=
  if is_ok o then acc ++ [m] else acc.

Lemma accepted_app : forall a b, accepted (a ++ b) = accepted a ++ accepted b.
Proof. intros. unfold accepted. rewrite filter_app, map_app. reflexivity. Qed.

Lemma accepted_cons : forall m o s ks r,
  accepted ((m, o, s, ks) :: r) = push [] o m ++ accepted r.
Proof. intros. unfold accepted, push. simpl. unfold ev_out. simpl. destruct (is_ok o); reflexivity. Qed.

Definition all_nst (l : list msg) : Prop := Forall (fun m => m_type m = 4) l.

(* ---------- the specification: the legal flights (RFC 8446 section 2, figure 1 and 2.2) ------ *)
(* full handshake: ServerHello, EncryptedExtensions, [CertificateRequest], Certificate,
   CertificateVerify, Finished - signature, certificate (if the client verifies at all) and MAC pass,
   and the ServerHello did not select a PSK *)
Definition full_ok (c : cfg) (sh ee cert cv fin : msg) : Prop :=
  m_type sh = 2 /\ m_type ee = 8 /\ m_type cert = 11 /\ m_type cv = 15 /\ m_type fin = 20 /\
  m_psk sh = false /\ m_sig cv = true /\ (c_verify c = true -> m_cert cv = 0) /\ m_mac fin = true.

(* resumption: ServerHello(pre_shared_key), EncryptedExtensions, Finished - the client offered a
   PSK, the server selected it (index and suite as offered), MAC passes *)
Definition resumed_ok (c : cfg) (sh ee fin : msg) : Prop :=
  m_type sh = 2 /\ m_type ee = 8 /\ m_type fin = 20 /\
  c_psk c = true /\ m_psk sh = true /\ m_psk_ok sh = true /\ m_mac fin = true.

Definition client_legal (c : cfg) (acc : list msg) : Prop :=
  (exists sh ee cert cv fin nsts,
     acc = [sh; ee; cert; cv; fin] ++ nsts /\ full_ok c sh ee cert cv fin /\ all_nst nsts) \/
  (exists sh ee cr cert cv fin nsts,
     acc = [sh; ee; cr; cert; cv; fin] ++ nsts /\ m_type cr = 13 /\ full_ok c sh ee cert cv fin /\ all_nst nsts) \/
  (exists sh ee fin nsts,
     acc = [sh; ee; fin] ++ nsts /\ resumed_ok c sh ee fin /\ all_nst nsts).

(* server: ClientHello, [Certificate, [CertificateVerify]], Finished; a client Certificate is
   accepted only if the server asked for one, a non-empty one must be followed by a verified
   CertificateVerify *)
Definition server_legal (c : cfg) (acc : list msg) : Prop :=
  (exists ch fin, acc = [ch; fin] /\ c_reqcert c = false /\
     m_type ch = 1 /\ m_type fin = 20 /\ m_mac fin = true) \/
  (exists ch cert fin, acc = [ch; cert; fin] /\ c_reqcert c = true /\
     m_type ch = 1 /\ m_type cert = 11 /\ m_type fin = 20 /\ m_nonempty cert = false /\ m_mac fin = true) \/
  (exists ch cert cv fin, acc = [ch; cert; cv; fin] /\ c_reqcert c = true /\
     m_type ch = 1 /\ m_type cert = 11 /\ m_type cv = 15 /\ m_type fin = 20 /\
     m_nonempty cert = true /\ m_sig cv = true /\ m_mac fin = true).

(* ---------- invariants ------------------------------------------------------------------------- *)
Definition sh_ok (c : cfg) (sh : msg) (resumed : bool) : Prop :=
  m_type sh = 2 /\ resumed = m_psk sh /\ (m_psk sh = true -> c_psk c = true /\ m_psk_ok sh = true).

Definition cinv (c : cfg) (s : st) (acc : list msg) : Prop :=
  match s_state s with
  | CLIENT_EXPECT_SERVER_HELLO =>
      acc = [] /\ s_creq s = false /\
      ((s_kproxy s = true /\ s_resumed s = false /\ (s_kpsk s = true -> c_psk c = true)) \/
       (s_kproxy s = false /\ s_kpsk s = false))
  | CLIENT_EXPECT_ENCRYPTED_EXTENSIONS =>
      exists sh, acc = [sh] /\ sh_ok c sh (s_resumed s)
  | CLIENT_EXPECT_CERTIFICATE_REQUEST_OR_CERTIFICATE =>
      exists sh ee, acc = [sh; ee] /\ sh_ok c sh false /\ m_type ee = 8
  | CLIENT_EXPECT_CERTIFICATE =>
      exists sh ee cr, acc = [sh; ee; cr] /\ sh_ok c sh false /\ m_type ee = 8 /\ m_type cr = 13
  | CLIENT_EXPECT_CERTIFICATE_VERIFY =>
      (exists sh ee cert, acc = [sh; ee; cert] /\ sh_ok c sh false /\ m_type ee = 8 /\ m_type cert = 11) \/
      (exists sh ee cr cert, acc = [sh; ee; cr; cert] /\ sh_ok c sh false /\ m_type ee = 8 /\ m_type cr = 13 /\
                             m_type cert = 11)
  | CLIENT_EXPECT_FINISHED =>
      (exists sh ee, acc = [sh; ee] /\ sh_ok c sh true /\ m_type ee = 8) \/
      (exists sh ee cert cv, acc = [sh; ee; cert; cv] /\ sh_ok c sh false /\ m_type ee = 8 /\ m_type cert = 11 /\
                             m_type cv = 15 /\ m_sig cv = true /\ (c_verify c = true -> m_cert cv = 0)) \/
      (exists sh ee cr cert cv, acc = [sh; ee; cr; cert; cv] /\ sh_ok c sh false /\ m_type ee = 8 /\
                                m_type cr = 13 /\ m_type cert = 11 /\
                                m_type cv = 15 /\ m_sig cv = true /\ (c_verify c = true -> m_cert cv = 0))
  | CLIENT_POST_HANDSHAKE => client_legal c acc
  | _ => False
  end.

Definition sinv (c : cfg) (s : st) (acc : list msg) : Prop :=
  match s_state s with
  | SERVER_EXPECT_CLIENT_HELLO => acc = []
  | SERVER_EXPECT_CERTIFICATE => exists ch, acc = [ch] /\ m_type ch = 1 /\ c_reqcert c = true
  | SERVER_EXPECT_CERTIFICATE_VERIFY =>
      exists ch cert, acc = [ch; cert] /\ m_type ch = 1 /\ c_reqcert c = true /\ m_type cert = 11 /\
                      m_nonempty cert = true
  | SERVER_EXPECT_FINISHED =>
      (exists ch, acc = [ch] /\ m_type ch = 1 /\ c_reqcert c = false) \/
      (exists ch cert, acc = [ch; cert] /\ m_type ch = 1 /\ c_reqcert c = true /\ m_type cert = 11 /\
                       m_nonempty cert = false) \/
      (exists ch cert cv, acc = [ch; cert; cv] /\ m_type ch = 1 /\ c_reqcert c = true /\ m_type cert = 11 /\
                          m_nonempty cert = true /\ m_type cv = 15 /\ m_sig cv = true)
  | SERVER_POST_HANDSHAKE => server_legal c acc
  | _ => False
  end.

(* ---------- tactics ---------------------------------------------------------------------------- *)
Ltac brk H :=
  repeat match type of H with
  | context [if ?b then _ else _] => let E := fresh "E" in destruct b eqn:E
  end.

Ltac unpack :=
  repeat match goal with
  | H : _ /\ _ |- _ => destruct H
  | H : exists _, _ |- _ => destruct H
  | H : (_ =? _) = true |- _ => apply Z.eqb_eq in H
  | H : negb _ = true |- _ => apply negb_true_iff in H
  | H : negb _ = false |- _ => apply negb_false_iff in H
  | H : _ && _ = true |- _ => apply andb_true_iff in H
  | H : _ || _ = false |- _ => apply orb_false_iff in H
  end.

Ltac fin := solve [ repeat first [ reflexivity | assumption | split | eexists ] ].
Ltac solve_inv := first [ fin | left; solve_inv | right; solve_inv ].

Ltac open_step H :=
  unfold step in H; cbn [s_state] in H; rewrite ?dispatch_all in H; cbn [legal_next] in H.

Ltac done_step H :=
  brk H; cbn [run_handler] in H;
  unfold client_handle_hello, client_handle_encrypted_extensions, client_handle_certificate_request,
    client_handle_certificate, client_handle_certificate_verify, client_handle_finished,
    client_handle_new_session_ticket, server_handle_hello, server_handle_certificate,
    server_handle_certificate_verify, server_handle_finished, check_cv, parsed, set_state in H;
  cbn [s_state s_resumed s_kpsk s_kproxy s_creq] in H;
  brk H; inversion H; subst; clear H; unfold push; cbn [is_ok].

(* ---------- one step preserves the invariant ------------------------------------------------------ *)
Lemma all_nst_snoc : forall l m, all_nst l -> m_type m = 4 -> all_nst (l ++ [m]).
Proof. intros. unfold all_nst in *. apply Forall_app. split; auto. Qed.

Lemma client_legal_snoc : forall c acc m, client_legal c acc -> m_type m = 4 -> client_legal c (acc ++ [m]).
Proof.
  intros c acc m H Hm. unfold client_legal in *.
  destruct H as [(sh & ee & cert & cv & fin & nsts & -> & Hf & Hn)
                | [(sh & ee & cr & cert & cv & fin & nsts & -> & Hcr & Hf & Hn)
                  | (sh & ee & fin & nsts & -> & Hf & Hn)]].
  - left. exists sh, ee, cert, cv, fin, (nsts ++ [m]).
    split; [rewrite <- app_assoc; reflexivity | split; [exact Hf | apply all_nst_snoc; assumption]].
  - right; left. exists sh, ee, cr, cert, cv, fin, (nsts ++ [m]).
    split; [rewrite <- app_assoc; reflexivity | split; [exact Hcr | split; [exact Hf | apply all_nst_snoc; assumption]]].
  - right; right. exists sh, ee, fin, (nsts ++ [m]).
    split; [rewrite <- app_assoc; reflexivity | split; [exact Hf | apply all_nst_snoc; assumption]].
Qed.

Lemma cinv_step : forall c s m acc o s' ks,
  cinv c s acc -> step c s m = (o, s', ks) -> cinv c s' (push acc o m).
Proof.
  intros c [x r kp kx cq] m acc o s' ks Hinv Hstep.
  unfold cinv in Hinv; cbn [s_state s_resumed s_kpsk s_kproxy s_creq] in Hinv.
  destruct x; try contradiction; open_step Hstep.
  - (* EXPECT_SERVER_HELLO *)
    done_step Hstep; unfold cinv, sh_ok; cbn [s_state s_resumed s_kpsk s_kproxy s_creq]; unpack; subst;
      try (split; [reflexivity | split; [reflexivity | assumption]]).
    all: try (split; [reflexivity | split; [reflexivity | right; split; reflexivity]]).
    all: exists m; split; [reflexivity | split; [assumption |]].
    all: destruct kp, kx, (m_psk_ok m); simpl in *; try discriminate;
      destruct H1 as [H1 | H1]; unpack; subst; try discriminate;
      repeat split; auto; intros; try discriminate; try congruence.
  - (* EXPECT_ENCRYPTED_EXTENSIONS *)
    done_step Hstep; unfold cinv, sh_ok in *; cbn [s_state s_resumed s_kpsk s_kproxy s_creq]; unpack; subst;
      solve_inv.
  - (* EXPECT_CERTIFICATE_REQUEST_OR_CERTIFICATE *)
    done_step Hstep; unfold cinv, sh_ok in *; cbn [s_state s_resumed s_kpsk s_kproxy s_creq]; unpack; subst;
      solve_inv.
  - (* EXPECT_CERTIFICATE *)
    done_step Hstep; unfold cinv, sh_ok in *; cbn [s_state s_resumed s_kpsk s_kproxy s_creq]; unpack; subst;
      solve_inv.
  - (* EXPECT_CERTIFICATE_VERIFY *)
    done_step Hstep; unfold cinv, sh_ok in *; cbn [s_state s_resumed s_kpsk s_kproxy s_creq]; try assumption.
    all: assert (Hc : c_verify c = true -> m_cert m = 0)
        by (intro Hv; rewrite Hv in *; simpl in *; unpack; assumption).
    all: destruct Hinv as [Hinv | Hinv]; unpack; subst; solve_inv.
  - (* EXPECT_FINISHED *)
    done_step Hstep; unfold cinv in *; cbn [s_state s_resumed s_kpsk s_kproxy s_creq]; try assumption.
    unfold client_legal, full_ok, resumed_ok, sh_ok, all_nst in *.
    destruct Hinv as [Hinv | [Hinv | Hinv]]; unpack; subst.
    + right; right. exists x, x0, m, []. destruct (H3 (eq_sym H2)) as [Hp Hq].
      repeat split; auto; try (symmetry; assumption).
    + left. exists x, x0, x1, x2, m, []. repeat split; auto; try (symmetry; assumption).
    + right; left. exists x, x0, x1, x2, x3, m, []. repeat split; auto; try (symmetry; assumption).
  - (* POST_HANDSHAKE *)
    done_step Hstep; unfold cinv in *; cbn [s_state s_resumed s_kpsk s_kproxy s_creq]; try assumption.
    apply client_legal_snoc; unpack; auto.
Qed.

Lemma sinv_step : forall c s m acc o s' ks,
  sinv c s acc -> step c s m = (o, s', ks) -> sinv c s' (push acc o m).
Proof.
  intros c [x r kp kx cq] m acc o s' ks Hinv Hstep.
  unfold sinv in Hinv; cbn [s_state s_resumed s_kpsk s_kproxy s_creq] in Hinv.
  destruct x; try contradiction; open_step Hstep.
  - (* EXPECT_CLIENT_HELLO *)
    done_step Hstep; unfold sinv; cbn [s_state s_resumed s_kpsk s_kproxy s_creq]; unpack; subst;
      try reflexivity.
    all: solve_inv.
  - (* EXPECT_CERTIFICATE *)
    done_step Hstep; unfold sinv in *; cbn [s_state s_resumed s_kpsk s_kproxy s_creq]; unpack; subst;
      solve_inv.
  - (* EXPECT_CERTIFICATE_VERIFY *)
    done_step Hstep; unfold sinv in *; cbn [s_state s_resumed s_kpsk s_kproxy s_creq]; unpack; subst;
      solve_inv.
  - (* EXPECT_FINISHED *)
    done_step Hstep; unfold sinv in *; cbn [s_state s_resumed s_kpsk s_kproxy s_creq]; try assumption.
    unfold server_legal.
    destruct Hinv as [Hinv | [Hinv | Hinv]]; unpack; subst; solve_inv.
  - (* POST_HANDSHAKE *)
    inversion Hstep; subst. unfold push; cbn [is_ok]. exact Hinv.
Qed.

(* ---------- from one step to whole runs ---------------------------------------------------------- *)
Lemma push_app : forall acc o m, acc ++ push [] o m = push acc o m.
Proof. intros. unfold push. destruct (is_ok o); simpl; auto using app_nil_r. Qed.

Lemma inv_run :
  forall (I : cfg -> st -> list msg -> Prop),
    (forall c s m acc o s' ks, I c s acc -> step c s m = (o, s', ks) -> I c s' (push acc o m)) ->
    forall c ms s acc, I c s acc -> I c (final s (run c s ms)) (acc ++ accepted (run c s ms)).
Proof.
  intros I Hstep c ms. induction ms as [| m r IH]; intros s acc Hi.
  - simpl. rewrite app_nil_r. exact Hi.
  - simpl. destruct (step c s m) as [[o s1] ks] eqn:E.
    rewrite accepted_cons. cbn [final ev_st fst snd].
    rewrite app_assoc, push_app. apply IH. eapply Hstep; eauto.
Qed.

Lemma keys_run :
  forall (I : cfg -> st -> list msg -> Prop) (K : cfg -> list msg -> msg -> outcome -> key -> Prop),
    (forall c s m acc o s' ks, I c s acc -> step c s m = (o, s', ks) -> I c s' (push acc o m)) ->
    (forall c s m acc o s' ks, I c s acc -> step c s m = (o, s', ks) -> Forall (K c acc m o) ks) ->
    forall c pre ms s acc m o s' ks post,
      I c s acc -> run c s ms = pre ++ (m, o, s', ks) :: post ->
      Forall (K c (acc ++ accepted pre) m o) ks.
Proof.
  intros I K Hstep Hkeys c pre. induction pre as [| e pre IH]; intros ms s acc m o s' ks post Hi Hrun.
  - destruct ms as [| m1 r]; [discriminate |].
    simpl in Hrun. destruct (step c s m1) as [[o1 s1] ks1] eqn:E.
    inversion Hrun; subst. simpl. rewrite app_nil_r. eapply Hkeys; eauto.
  - destruct ms as [| m1 r]; [discriminate |].
    simpl in Hrun. destruct (step c s m1) as [[o1 s1] ks1] eqn:E.
    inversion Hrun; subst.
    rewrite accepted_cons, app_assoc, push_app.
    eapply IH; [| eassumption]. eapply Hstep; eauto.
Qed.

(* ---------- start states --------------------------------------------------------------------------- *)
(* the client after handle_message sent the ClientHello *)
Definition client_started (c : cfg) : st := mkSt CLIENT_EXPECT_SERVER_HELLO false (c_psk c) true false.

Lemma client_start_step : forall c m,
  step c init_client m =
  (OOk, client_started c, if c_psk c && c_early c then [(DIR_ENCRYPT, EP_ZERO_RTT)] else []).
Proof. reflexivity. Qed.

Lemma cinv_started : forall c, cinv c (client_started c) [].
Proof. intro c. unfold cinv; simpl. repeat split; auto. Qed.

Lemma sinv_init : forall c, sinv c init_server [].
Proof. reflexivity. Qed.

(* ---------- no_skip ------------------------------------------------------------------------------------ *)
Lemma no_skip_client_lemma : forall c ms,
  let tr := run c (client_started c) ms in
  s_state (final (client_started c) tr) = CLIENT_POST_HANDSHAKE ->
  client_legal c (accepted tr).
Proof.
  intros c ms tr H.
  pose proof (inv_run cinv cinv_step c ms _ _ (cinv_started c)) as Hi.
  fold tr in Hi. unfold cinv in Hi. rewrite H in Hi. exact Hi.
Qed.

Lemma no_skip_server_lemma : forall c ms,
  let tr := run c init_server ms in
  s_state (final init_server tr) = SERVER_POST_HANDSHAKE ->
  server_legal c (accepted tr).
Proof.
  intros c ms tr H.
  pose proof (inv_run sinv sinv_step c ms _ _ (sinv_init c)) as Hi.
  fold tr in Hi. unfold sinv in Hi. rewrite H in Hi. exact Hi.
Qed.

(* "Finished is never accepted without a verified CertificateVerify unless a PSK was offered and selected" *)
Lemma finished_needs_cv_or_psk : forall c ms,
  let tr := run c (client_started c) ms in
  s_state (final (client_started c) tr) = CLIENT_POST_HANDSHAKE ->
  (exists cv, In cv (accepted tr) /\ m_type cv = 15 /\ m_sig cv = true /\ (c_verify c = true -> m_cert cv = 0)) \/
  (c_psk c = true /\ exists sh, In sh (accepted tr) /\ m_type sh = 2 /\ m_psk sh = true /\ m_psk_ok sh = true).
Proof.
  intros c ms tr H. pose proof (no_skip_client_lemma c ms H) as L. fold tr in L.
  destruct L as [(sh & ee & cert & cv & fin & nsts & -> & Hf & Hn)
                | [(sh & ee & cr & cert & cv & fin & nsts & -> & Hcr & Hf & Hn)
                  | (sh & ee & fin & nsts & -> & Hf & Hn)]];
    unfold full_ok, resumed_ok in Hf; unpack.
  - left. exists cv. split; [simpl; tauto | repeat split; auto].
  - left. exists cv. split; [simpl; tauto | repeat split; auto].
  - right. split; auto. exists sh. split; [simpl; tauto | repeat split; auto].
Qed.
