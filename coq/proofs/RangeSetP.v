(* Proofs about model/RangeSet.v: well-formedness and membership of add / subtract / shift. *)
From Coq Require Import ZArith List Bool Lia ZifyBool.
From AQ Require Import lib.Base model.RangeSet.

(* sorted, non-empty ranges, each starting strictly above the previous stop (so never touching),
   and the first one starting strictly above [lo] *)
Fixpoint wf_from (lo : Z) (l : rs) : Prop :=
  match l with
  | [] => True
  | (s, e) :: t => lo < s /\ s < e /\ wf_from e t
  end.

Definition wf (l : rs) : Prop :=
  match l with
  | [] => True
  | (s, _) :: _ => wf_from (s - 1) l
  end.

Fixpoint mem (x : Z) (l : rs) : Prop :=
  match l with
  | [] => False
  | (s, e) :: t => (s <= x < e) \/ mem x t
  end.

Lemma wf_from_weaken lo lo' l : wf_from lo l -> lo' <= lo -> wf_from lo' l.
Proof. destruct l as [|[s e] t]; cbn; intuition lia. Qed.

Lemma wf_from_wf lo l : wf_from lo l -> wf l.
Proof. destruct l as [|[s e] t]; cbn; intuition lia. Qed.

Lemma wf_wf_from l : wf l -> exists lo, wf_from lo l.
Proof. destruct l as [|[s e] t]; cbn; intros H; [exists 0; exact I | exists (s - 1); exact H]. Qed.

Lemma mem_above lo l x : wf_from lo l -> mem x l -> lo < x.
Proof.
  revert lo; induction l as [|[s e] t IH]; cbn; intros lo H Hm; [tauto|].
  destruct H as (H1 & H2 & H3). destruct Hm as [Hm|Hm]; [lia|]. specialize (IH e H3 Hm). lia.
Qed.

(* ---- absorb ---- *)
Lemma absorb_spec : forall l lo stop,
  wf_from lo l ->
  let '(stop', l') := absorb stop l in
  stop <= stop' /\ wf_from stop' l' /\
  (forall x, (x < stop \/ mem x l) <-> (x < stop' \/ mem x l')) /\
  (forall x, mem x l' -> mem x l).
Proof.
  induction l as [|[s e] t IH]; intros lo stop H.
  - cbn. repeat split; try tauto; try lia.
  - cbn [absorb]. cbn in H. destruct H as (H1 & H2 & H3).
    destruct (s <=? stop) eqn:E.
    + specialize (IH e (Z.max e stop) H3). destruct (absorb (Z.max e stop) t) as [stop' l'].
      destruct IH as (I1 & I2 & I3 & I4). repeat split; try lia; auto.
      * intros [Hx|Hx]; [apply I3; left; lia|]. cbn in Hx. destruct Hx as [Hx|Hx]; apply I3; [left; lia|right; exact Hx].
      * intros Hx. apply I3 in Hx. cbn. destruct Hx as [Hx|Hx]; [|tauto].
        destruct (Z_lt_dec x stop); [tauto|]. right. left. lia.
      * intros x Hx. cbn. right. apply I4, Hx.
    + repeat split; try tauto; try lia.
Qed.

(* ---- add ---- *)
Lemma add_spec : forall l lo start stop,
  wf_from lo l -> lo < start -> start < stop ->
  wf_from lo (add start stop l) /\
  (forall x, mem x (add start stop l) <-> (start <= x < stop \/ mem x l)).
Proof.
  induction l as [|[s e] t IH]; intros lo start stop H Hlo Hlt.
  - cbn [add subtract mem wf_from]. split; [lia|]. intros x; tauto.
  - cbn [add]. cbn in H. destruct H as (H1 & H2 & H3).
    destruct (stop <? s) eqn:E1.
    + cbn [add subtract mem wf_from]. split; [repeat split; try lia; exact H3|]. intros x; tauto.
    + destruct (start >? e) eqn:E2.
      * destruct (IH e start stop H3 ltac:(lia) Hlt) as (W & M). cbn [add subtract mem wf_from]. split; [repeat split; try lia; exact W|].
        intros x. rewrite M. tauto.
      * pose proof (absorb_spec t e (Z.max stop e) H3) as A.
        destruct (absorb (Z.max stop e) t) as [stop' t']. destruct A as (A1 & A2 & A3 & A4).
        cbn [add subtract mem wf_from]. split; [repeat split; try lia; exact A2|].
        intros x. split.
        -- intros [Hx|Hx].
           ++ assert (Hc : x < stop' \/ mem x t') by (left; lia). apply A3 in Hc.
              destruct Hc as [Hy|Hy]; [|tauto]. assert (start <= x < stop \/ s <= x < e) by lia. tauto.
           ++ right. right. apply A4, Hx.
        -- intros Hx.
           assert (Hc : x < Z.max stop e \/ mem x t) by (destruct Hx as [Hx|[Hx|Hx]]; [left; lia|left; lia|right; exact Hx]).
           apply A3 in Hc. destruct Hc as [Hc|Hc]; [|tauto].
           left. split; [|lia]. destruct Hx as [Hx|[Hx|Hx]]; try lia.
           pose proof (mem_above _ _ _ H3 Hx). lia.
Qed.

Lemma add_wf l start stop : wf l -> start < stop -> wf (add start stop l).
Proof.
  intros H Hlt. destruct (wf_wf_from l H) as [lo Hlo].
  apply (wf_from_wf (Z.min lo (start - 1) - 1)).
  apply add_spec; try lia. eapply wf_from_weaken; [exact Hlo|lia].
Qed.

Lemma add_mem l start stop x : wf l -> start < stop ->
  (mem x (add start stop l) <-> (start <= x < stop \/ mem x l)).
Proof.
  intros H Hlt. destruct (wf_wf_from l H) as [lo Hlo].
  apply (add_spec l (Z.min lo (start - 1) - 1)); try lia. eapply wf_from_weaken; [exact Hlo|lia].
Qed.

(* ---- subtract ---- *)
Lemma subtract_spec : forall l lo start stop,
  wf_from lo l -> start < stop ->
  wf_from lo (subtract start stop l) /\
  (forall x, mem x (subtract start stop l) <-> (mem x l /\ ~ (start <= x < stop))).
Proof.
  induction l as [|[s e] t IH]; intros lo start stop H Hlt.
  - cbn [add subtract mem wf_from]. split; [exact I|]. intros x; tauto.
  - cbn [subtract]. cbn in H. destruct H as (H1 & H2 & H3).
    destruct (IH e start stop H3 Hlt) as (W & M).
    assert (Habove : forall x, mem x t -> e < x) by (intros x Hx; exact (mem_above e t x H3 Hx)).
    destruct (stop <=? s) eqn:E1.
    + cbn [add subtract mem wf_from]. split; [tauto|]. intros x. split; [|tauto]. intros [Hx|Hx]; [split; [tauto|lia]|].
      split; [tauto|]. specialize (Habove x Hx). lia.
    + destruct (start >=? e) eqn:E2.
      * cbn [add subtract mem wf_from]. split; [tauto|]. intros x. rewrite M. split; [|tauto]. intros [Hx|Hx]; [|tauto]. split; [tauto|lia].
      * destruct ((start <=? s) && (stop >=? e)) eqn:E3.
        -- split; [eapply wf_from_weaken; [exact W|lia]|]. intros x. rewrite M. cbn [add subtract mem wf_from]. split; [tauto|].
           intros [[Hx|Hx] Hn]; [lia|tauto].
        -- destruct (start >? s) eqn:E4.
           ++ destruct (stop <? e) eqn:E5.
              ** cbn [add subtract mem wf_from]. split; [repeat split; try lia; eapply wf_from_weaken; [exact H3|lia]|].
                 intros x. split.
                 --- intros [Hx|[Hx|Hx]]; [split; [left; lia|lia]|split; [left; lia|lia]|].
                     split; [tauto|]. specialize (Habove x Hx). lia.
                 --- intros [[Hx|Hx] Hn]; [|tauto]. lia.
              ** cbn [add subtract mem wf_from]. split; [repeat split; try lia; eapply wf_from_weaken; [exact W|lia]|].
                 intros x. rewrite M. split.
                 --- intros [Hx|Hx]; [split; [left; lia|lia]|tauto].
                 --- intros [[Hx|Hx] Hn]; [left; lia|right; tauto].
           ++ cbn [add subtract mem wf_from]. split; [repeat split; try lia; exact W|].
              intros x. rewrite M. split.
              ** intros [Hx|Hx]; [split; [left; lia|lia]|tauto].
              ** intros [[Hx|Hx] Hn]; [left; lia|right; tauto].
Qed.

Lemma subtract_wf l start stop : wf l -> start < stop -> wf (subtract start stop l).
Proof.
  intros H Hlt. destruct (wf_wf_from l H) as [lo Hlo].
  apply (wf_from_wf lo). apply subtract_spec; assumption.
Qed.

Lemma subtract_mem l start stop x : wf l -> start < stop ->
  (mem x (subtract start stop l) <-> (mem x l /\ ~ (start <= x < stop))).
Proof.
  intros H Hlt. destruct (wf_wf_from l H) as [lo Hlo]. apply (subtract_spec l lo); assumption.
Qed.

(* ---- shift ---- *)
Lemma shift_spec l r l' : wf l -> shift l = Some (r, l') ->
  wf l' /\ fst r < snd r /\ (forall x, mem x l <-> (fst r <= x < snd r \/ mem x l')) /\
  (forall x, mem x l' -> snd r < x).
Proof.
  destruct l as [|[s e] t]; cbn; intros H E; [discriminate|]. inversion E; subst; clear E. cbn.
  destruct H as (H1 & H2 & H3). split; [eapply wf_from_wf; eauto|]. split; [lia|]. split; [tauto|].
  intros x Hx. eapply mem_above; eauto.
Qed.

(* contains decides mem *)
Lemma contains_mem x l : contains x l = true <-> mem x l.
Proof.
  unfold contains. induction l as [|[s e] t IH]; cbn; [split; [discriminate|tauto]|].
  rewrite orb_true_iff, IH. cbn. split; intros [H|H]; try tauto; left; lia.
Qed.

(* non-vacuity *)
Example wf_example : wf [(1, 3); (5, 9)] /\ add 3 5 [(1, 3); (5, 9)] = [(1, 9)] /\
  subtract 2 6 [(1, 3); (5, 9)] = [(1, 2); (6, 9)].
Proof. cbn. repeat split; lia. Qed.
