(* C08 (round e08): the decisions of model/ProbeBudget.v tied to C13's writer model (model/Writers.v on model/Builder.v)
   through model/ProbeWriters.v. *)
From AQ Require Import lib.Base lib.Tok gen.C13Consts gen.C13Writers model.Builder model.StreamSend model.Writers
  model.ProbeWriters.
From AQ Require Import gen.C08Probe.
From AQ Require model.ProbeBudget proofs.ProbeBudgetProofs proofs.ProbeQuiet.
From Coq Require Import String ZifyBool.
Module PB := ProbeBudget.

(* ---------- the generated writer order: ahead of the probe PING / after it ---------- *)
Lemma order_pinned_lemma :
  ORDER_write_application = [0; 7; 5; 8; 6; 11; 15; 15; 2; 14; 9] ++ [9] ++ [3; 4; 12; 10; 13] /\
  map writer_name [0; 7; 5; 8; 6; 11; 15; 15; 2; 14; 9] = app_writers_before /\
  map writer_name [3; 4; 12; 10; 13] = app_writers_after.
Proof. repeat split; reflexivity. Qed.

Lemma wseq_assoc r f g : wseq (wseq r f) g = wseq r (fun s => wseq (f s) g).
Proof.
  destruct r as [[o s] tr]. destruct o; simpl; try reflexivity.
  destruct (f s) as [[o2 s2] tr2]. destruct o2; simpl; try reflexivity.
  destruct (g s2) as [[o3 s3] tr3]. rewrite app_assoc. reflexivity.
Qed.

Lemma wseq_ext r f g : (forall s, f s = g s) -> wseq r f = wseq r g.
Proof. intros H. destruct r as [[o s] tr]. destruct o; simpl; try reflexivity. rewrite H. reflexivity. Qed.

(* Writers.w_app_iter is: the writers ahead of the probe PING, the probe PING, the writers after it *)
Lemma app_iter_split c s d :
  w_app_iter c s d = wseq (w_before c s d) (fun s2 => wseq (w_probe c s2 d) (fun s3 => w_after c s3 d)).
Proof.
  unfold w_app_iter, w_before, w_probe, w_after.
  repeat (rewrite wseq_assoc; apply wseq_ext; intros ?; cbv beta).
  reflexivity.
Qed.

Lemma w_before_ack c s d : w_before c s d = wseq (w_opt (w_ack_in c) s (ai_ack d)) (fun s1 => w_before_ctl c s1 d).
Proof. reflexivity. Qed.

(* ---------- start_packet opens a packet that is not ack-eliciting ---------- *)
Lemma start_packet_fresh c s t s' : start_packet c s t = (ODone, s') -> cur_ackel s' = false.
Proof.
  unfold start_packet. destruct (negb (valid_ptype t)); [discriminate|].
  destruct (end_current c s) as [o s1]. destruct o; try discriminate.
  destruct (if b_bcap s1 - b_tell s1 <? DATAGRAM_MIN_SPACE then flush_current c s1 else (ODone, s1)) as [o2 s2].
  destruct o2; try discriminate.
  destruct (_ >=? _); [discriminate|]. intros H; inversion H; subst. reflexivity.
Qed.

(* ---------- the probe PING ---------- *)
Lemma w_probe_outcome c sb d : ai_ping_probe d = true ->
  is_done (fst (fst (w_probe c sb d))) = is_done (fst (start_frame c sb W_ping_frame_0_ft W_ping_frame_0_cap)).
Proof.
  intros H. unfold w_probe, w_if, w_ping, do_frame. rewrite H.
  destruct (start_frame c sb W_ping_frame_0_ft W_ping_frame_0_cap) as [o s']. destruct o; reflexivity.
Qed.

(* PRESTOP CHARACTERISED.  One iteration of _write_application's packet loop in the writer model, probe pending
   (ai_ping_probe = the flag = true), nothing ack-eliciting written by this call so far, start_packet returned.  Running
   ProbeBudget's iteration on the decisions computed from the writer model ends with the flag STILL SET and an
   ack-eliciting frame written (= the situation of C08-F3; then [prestop] holds) exactly when the open packet is
   ack-eliciting after the writers ahead of the probe PING and either one of them left by an exception
   (QuicPacketBuilderStop: its capacity exceeds the room left) or they all returned and the PING's own start_frame does
   not return. *)
Theorem prestop_characterised_thm : forall c s pt d ce s0 s1 tr1 ob sb trb,
  PB.pp s0 = true -> PB.halted s0 = false -> PB.ae s0 = false ->
  ai_ping_probe d = true ->
  do_start_packet c s pt = (ODone, s1, tr1) ->
  w_before c s1 d = (ob, sb, trb) ->
  let r := PB.app_iteration ce (abs_iter c s pt d) s0 in
  (PB.pp r = true /\ PB.ae r = true /\ PB.prestop r = true) <->
  (cur_ackel sb = true /\
   (ob <> ODone \/ fst (start_frame c sb W_ping_frame_0_ft W_ping_frame_0_cap) <> ODone)).
Proof.
  intros c s pt d ce s0 s1 tr1 ob sb trb Hp Hh Ha Hd Hs Hb r.
  subst r. unfold abs_iter. rewrite Hs, Hb.
  pose proof (w_probe_outcome c sb d Hd) as Hpo.
  destruct (w_probe c sb d) as [[op sp] trp]. cbn [fst] in Hpo.
  destruct (w_after c sp d) as [[oa sa] tra].
  destruct (start_frame c sb W_ping_frame_0_ft W_ping_frame_0_cap) as [of sf]. cbn [fst] in *.
  assert (E2 : of <> ODone <-> is_done of = false) by (destruct of; cbn; split; congruence).
  assert (E1 : ob <> ODone <-> is_done ob = false) by (destruct ob; cbn; split; congruence).
  rewrite Hpo.
  destruct s0 as [p a h x rz]. cbn in Hp, Hh, Ha. subst p h a.
  unfold classify.
  destruct (is_done ob), (is_done of); cbn [negb];
    unfold PB.app_iteration; cbn [PB.ai_start PB.ai_before PB.ai_ping_ok PB.ai_after is_done];
    change (PB.nonempty app_writers_before) with true; change (PB.nonempty app_writers_after) with true;
    change app_probe_guard with (GAtom APending); change app_probe_body with [SPing; SClear];
    destruct x, (cur_ackel sb); try destruct (is_done oa); try destruct (cur_ackel sa); cbn; intuition congruence.
Qed.

(* ... and "the PING's start_frame raises QuicPacketBuilderStop" is an inequality on the room left in the open packet *)
Lemma ping_stop_room c s p :
  b_cur s = Some p -> b_hascrypto s = true ->
  let cap := if b_tell s - p_start p <=? p_hdr p then START_FRAME_EMPTY_RESERVE else W_ping_frame_0_cap in
  (fst (start_frame c s W_ping_frame_0_ft W_ping_frame_0_cap) = OStop <-> room s < cap).
Proof.
  intros Hc Hk cap. unfold start_frame. rewrite Hc, Hk. cbn [negb].
  change (zmem W_ping_frame_0_ft NON_IN_FLIGHT) with false. cbn [negb andb].
  change (W_ping_frame_0_cap <? START_FRAME_EMPTY_RESERVE) with true. cbv iota.
  fold cap.
  destruct ((remaining_buffer_space s <? cap) || (remaining_flight_space s <? cap)) eqn:ST.
  - cbn [fst]. split; [intros _|reflexivity]. unfold room. apply orb_true_iff in ST. lia.
  - apply orb_false_iff in ST. change (W_ping_frame_0_ft mod 18446744073709551616) with 1.
    change (Builder.size_uint_var 1) with (Some 1).
    cbv iota beta. split.
    + destruct (b_tell s + 1 >? c_mds c); cbn [fst]; discriminate.
    + unfold room. lia.
Qed.

(* ---------- no control frame pending ---------- *)
Lemma w_before_no_control c s d : no_control d = true -> w_before c s d = wskip s.
Proof.
  intros H. unfold no_control in H. destruct d as [pc ak ch hd rs nc rt bl cl sl pu pr cr dg stx].
  cbn [ai_ack ai_challenge ai_hs_done ai_responses ai_new_cids ai_retire ai_blocked ai_conn_limits ai_stream_limits
       ai_ping_user] in H.
  destruct ak; [discriminate H|]. destruct ch; [discriminate H|]. destruct hd; [discriminate H|].
  destruct rs; [|discriminate H]. destruct nc; [|discriminate H]. destruct rt; [|discriminate H].
  destruct bl; [|discriminate H]. destruct cl; [|discriminate H]. destruct sl; [|discriminate H].
  destruct pu; [discriminate H|]. reflexivity.
Qed.

Lemma abs_iter_quiet c s pt d : no_control d = true -> ProbeQuiet.iter_quiet (abs_iter c s pt d) = true.
Proof.
  intros H. unfold abs_iter, do_start_packet.
  destruct (start_packet c s pt) as [o1 s1] eqn:E.
  rewrite (w_before_no_control c s1 d H). unfold wskip. cbn [is_done negb].
  destruct (w_probe c s1 d) as [[op sp] trp]. destruct (w_after c sp d) as [[oa sa] tra].
  unfold ProbeQuiet.iter_quiet.
  destruct o1; [|destruct (negb (is_done op)); reflexivity ..].
  pose proof (start_packet_fresh c s pt s1 E) as F.
  destruct (negb (is_done op)); cbn [PB.ai_start PB.ai_before classify is_done negb orb]; rewrite F; reflexivity.
Qed.

(* the 1-RTT decisions of a call come from the writer model with no control frame pending in any packet *)
Definition call_from_writers (d : PB.call_in) : Prop :=
  match PB.c_app d with
  | None => True
  | Some its => exists ws : list (cfg * st * Z * app_iter), its = map abs_iter4 ws /\ Forall (fun w => no_control (snd w) = true) ws
  end.

Lemma call_from_writers_quiet d : call_from_writers d -> ProbeQuiet.call_quiet d = true.
Proof.
  unfold call_from_writers, ProbeQuiet.call_quiet. destruct (PB.c_app d) as [its|]; [|reflexivity].
  intros (ws & -> & F). induction F as [|[[[c s] pt] w] t Hw _ IH]; [reflexivity|].
  cbn [map forallb abs_iter4]. cbn [snd] in Hw. rewrite (abs_iter_quiet c s pt w Hw), IH. reflexivity.
Qed.

(* ONE PROBE PER TIMEOUT WITHOUT THE PRESTOP EXCLUSION when no control frame is pending: every datagrams_to_send call of
   the history takes the decisions of its 1-RTT / 0-RTT packets from the writer model, on ANY builder configuration and state
   (budgets), any packet type, any pending CRYPTO / DATAGRAM / stream frames and the probe PING, but no frame of a writer that
   runs ahead of the probe PING.  The handshake-level decisions and everything else stay free.  Then ALL calls with a raised
   budget that wrote an ack-eliciting frame are at most the grants. *)
Theorem one_probe_no_control_thm : forall h,
  (forall d, In (PB.ECall d) h -> call_from_writers d) ->
  PB.s_over (PB.run h) <= PB.s_grants (PB.run h) /\ PB.s_grants (PB.run h) <= PB.s_timeouts (PB.run h) + 1.
Proof.
  intros h H. apply ProbeQuiet.one_probe_quiet_thm. apply forallb_forall. intros e He.
  destruct e as [| | |d]; try reflexivity. cbn [ProbeQuiet.ev_quiet]. apply call_from_writers_quiet, H, He.
Qed.

(* ---------- how much a C08-F3 call must write ahead of the PING ---------- *)
Definition caps_eq (s s' : st) : Prop := b_bcap s' = b_bcap s /\ b_fcap s' = b_fcap s.

Lemma caps_eq_refl s : caps_eq s s. Proof. split; reflexivity. Qed.
Lemma caps_eq_trans a b c : caps_eq a b -> caps_eq b c -> caps_eq a c.
Proof. intros [A1 A2] [B1 B2]. split; congruence. Qed.

Lemma push_caps c s n o s' : push c s n = (o, s') -> caps_eq s s' /\ o <> OStop.
Proof.
  unfold push. destruct (n <? 0); [intros H; inversion H; subst; split; [apply caps_eq_refl|discriminate]|].
  destruct (b_tell s + n >? c_mds c); intros H; inversion H; subst; (split; [split; reflexivity|discriminate]).
Qed.

Lemma do_pushes_caps c ps : forall s o s' tr, do_pushes c s ps = (o, s', tr) -> caps_eq s s' /\ o <> OStop.
Proof.
  induction ps as [|p t IH]; intros s o s' tr H; cbn [do_pushes] in H.
  - inversion H; subst. split; [apply caps_eq_refl|discriminate].
  - destruct (push_size p) as [n|]; [|inversion H; subst; split; [apply caps_eq_refl|discriminate]].
    destruct (push c s n) as [o1 s1] eqn:P. apply push_caps in P. destruct P as [P1 P3].
    destruct o1; try (inversion H; subst; split; assumption).
    destruct (do_pushes c s1 t) as [[o2 s2] tr2] eqn:D. inversion H; subst.
    destruct (IH _ _ _ _ D) as [I1 I3]. split; [eapply caps_eq_trans; eassumption|assumption].
Qed.

(* one frame: the capacities are untouched; QuicPacketBuilderStop comes from start_frame only, leaves the state as it was,
   and for a frame type that counts as in flight the room left is below max(capacity, 2) *)
Lemma do_frame_stop c s ft cap ps o s' tr :
  do_frame c s ft cap ps = (o, s', tr) ->
  caps_eq s s' /\ (o = OStop -> s' = s /\ (zmem ft NON_IN_FLIGHT = false -> room s < Z.max cap 2)).
Proof.
  intros H. unfold do_frame in H.
  destruct (start_frame c s ft cap) as [o1 s1] eqn:SF.
  unfold start_frame in SF.
  destruct (b_cur s) as [p|];
    [|inversion SF; subst; inversion H; subst; split; [apply caps_eq_refl|discriminate]].
  cbv zeta in SF.
  destruct (negb (b_hascrypto s)); [inversion SF; subst; inversion H; subst; split; [apply caps_eq_refl|discriminate]|].
  set (cap' := if b_tell s - p_start p <=? p_hdr p
               then (if cap <? START_FRAME_EMPTY_RESERVE then START_FRAME_EMPTY_RESERVE else cap) else cap) in SF.
  assert (Hcap' : cap' <= Z.max cap 2).
  { unfold cap', START_FRAME_EMPTY_RESERVE. destruct (_ <=? _); [destruct (cap <? 2) eqn:?|]; lia. }
  destruct ((remaining_buffer_space s <? cap') || (negb (zmem ft NON_IN_FLIGHT) && (remaining_flight_space s <? cap'))) eqn:ST.
  - inversion SF; subst. inversion H; subst. split; [apply caps_eq_refl|]. intros _. split; [reflexivity|].
    intros Hn. rewrite Hn in ST. cbn [negb andb] in ST. apply orb_true_iff in ST. unfold room. lia.
  - destruct (Builder.size_uint_var (ft mod 18446744073709551616)) as [sz|];
      [|inversion SF; subst; inversion H; subst; split; [apply caps_eq_refl|discriminate]].
    destruct (b_tell s + sz >? c_mds c);
      [inversion SF; subst; inversion H; subst; split; [apply caps_eq_refl|discriminate]|].
    inversion SF; subst. clear SF.
    match type of H with context [do_pushes c ?sx ps] => destruct (do_pushes c sx ps) as [[o2 s2] tr2] eqn:D end.
    inversion H; subst. apply do_pushes_caps in D. destruct D as [[D1 D2] D3].
    cbn [b_bcap b_fcap set_cur set_tell] in D1, D2. split; [split; assumption|intros E; contradiction].
Qed.

(* BI K: capacities untouched; QuicPacketBuilderStop only with less than K bytes of room *)
Definition BI (K : Z) (s : st) (r : wres) : Prop :=
  let '(o, s', _) := r in caps_eq s s' /\ (o = OStop -> room s' < K).

Lemma BI_frame K c s ft cap ps : zmem ft NON_IN_FLIGHT = false -> cap <= K -> 2 <= K -> BI K s (do_frame c s ft cap ps).
Proof.
  intros Hn Hc HK. destruct (do_frame c s ft cap ps) as [[o s'] tr] eqn:E. apply do_frame_stop in E.
  destruct E as [E1 E2]. split; [exact E1|]. intros Ho. destruct (E2 Ho) as [-> E3]. specialize (E3 Hn). lia.
Qed.

Lemma BI_skip K s : BI K s (wskip s).
Proof. split; [apply caps_eq_refl|discriminate]. Qed.

Lemma BI_seq K s r f : BI K s r -> (forall s1, BI K s1 (f s1)) -> BI K s (wseq r f).
Proof.
  destruct r as [[o s1] tr]. intros [H1 H2] Hf. unfold wseq.
  destruct o; try (split; [exact H1|exact H2]).
  specialize (Hf s1). destruct (f s1) as [[o2 s2] tr2]. destruct Hf as [G1 G2].
  split; [eapply caps_eq_trans; eassumption|exact G2].
Qed.

Lemma BI_list K {A} (w : st -> A -> wres) (Q : A -> Prop) :
  (forall s a, Q a -> BI K s (w s a)) -> forall l, Forall Q l -> forall s, BI K s (w_list w s l).
Proof.
  intros Hw l HQ. induction HQ as [|a t Ha Ht IH]; intros s; cbn [w_list]; [apply BI_skip|].
  apply BI_seq; [apply Hw; exact Ha|exact IH].
Qed.

Lemma BI_if K (b : bool) w s : (BI K s (w s)) -> BI K s (w_if b w s).
Proof. intros H. unfold w_if. destruct b; [exact H|apply BI_skip]. Qed.

Lemma Forall_triv {A} (l : list A) : Forall (fun _ => True) l.
Proof. induction l; constructor; auto. Qed.

(* the frame types handed to STREAMS_BLOCKED / MAX_DATA / MAX_STREAMS count as in flight (they are constants of the
   callers: STREAMS_BLOCKED_BIDI / _UNI, MAX_DATA, MAX_STREAMS_BIDI / _UNI) *)
Definition ctl_fts_ok (d : app_iter) : Prop :=
  Forall (fun x : Z * Z => zmem (fst x) NON_IN_FLIGHT = false) (ai_blocked d) /\
  Forall (fun x : Z * Z => zmem (fst x) NON_IN_FLIGHT = false) (ai_conn_limits d).

Lemma BI_before_ctl c d : ctl_fts_ok d -> forall s, BI CAP_BEFORE s (w_before_ctl c s d).
Proof.
  intros [F1 F2] s. unfold w_before_ctl.
  assert (K2 : 2 <= CAP_BEFORE) by (unfold CAP_BEFORE, NEW_CONNECTION_ID_FRAME_CAPACITY; lia).
  assert (FR : forall s ft cap ps, zmem ft NON_IN_FLIGHT = false -> cap <= CAP_BEFORE -> BI CAP_BEFORE s (do_frame c s ft cap ps))
    by (intros; apply BI_frame; assumption).
  apply BI_seq; [apply BI_if, FR; [reflexivity|cbv; discriminate]|intros s1].
  apply BI_seq; [apply BI_if, FR; [reflexivity|cbv; discriminate]|intros s2].
  apply BI_seq; [apply (BI_list _ _ (fun _ => True)); [intros; apply FR; [reflexivity|cbv; discriminate]|apply Forall_triv]|intros s3].
  apply BI_seq; [apply (BI_list _ _ (fun _ => True)); [intros; apply FR; [reflexivity|cbv; discriminate]|apply Forall_triv]|intros s4].
  apply BI_seq; [apply (BI_list _ _ (fun _ => True)); [intros; apply FR; [reflexivity|cbv; discriminate]|apply Forall_triv]|intros s5].
  apply BI_seq; [apply (BI_list _ _ (fun x : Z * Z => zmem (fst x) NON_IN_FLIGHT = false));
                 [intros sx x Hx; apply FR; [exact Hx|cbv; discriminate]|exact F1]|intros s6].
  apply BI_seq; [apply (BI_list _ _ (fun x : Z * Z => zmem (fst x) NON_IN_FLIGHT = false));
                 [intros sx x Hx; apply FR; [exact Hx|cbv; discriminate]|exact F2]|intros s7].
  apply BI_seq; [apply (BI_list _ _ (fun _ => True)); [intros; apply FR; [reflexivity|cbv; discriminate]|apply Forall_triv]|intros s8].
  apply BI_if, FR; [reflexivity|cbv; discriminate].
Qed.

(* the ACK writer (the ACK frame, then a PING in one case): QuicPacketBuilderStop leaves the state as it was (the ACK's own
   start_frame) or comes from the PING with less than 2 bytes of room *)
Lemma ack_stop c s o : forall oo s' tr, w_opt (w_ack_in c) s o = (oo, s', tr) ->
  caps_eq s s' /\ (oo = OStop -> s' = s \/ room s' < 2).
Proof.
  intros oo s' tr H. destruct o as [[[[lg dl] fs] rest]|]; cbn [w_opt w_ack_in] in H;
    [|inversion H; subst; split; [apply caps_eq_refl|discriminate]].
  unfold w_ack in H.
  match type of H with context [wseq ?r _] => destruct r as [[o1 s1] tr1] eqn:E end.
  apply do_frame_stop in E. destruct E as [E1 E2]. unfold wseq in H.
  destruct o1; try (inversion H; subst; split; [exact E1|intros Ho; left; apply E2; exact Ho]).
  match type of H with context [if ?b then _ else _] => destruct b end.
  - pose proof (BI_frame 2 c s1 W_ping_frame_0_ft W_ping_frame_0_cap W_ping_frame_0_pushes eq_refl ltac:(cbv; discriminate) ltac:(lia)) as B.
    unfold w_ping in H. destruct (do_frame c s1 W_ping_frame_0_ft W_ping_frame_0_cap W_ping_frame_0_pushes) as [[o2 s2] tr2].
    inversion H; subst. destruct B as [B1 B2]. split; [eapply caps_eq_trans; eassumption|intros Ho; right; apply B2; exact Ho].
  - unfold wskip in H. inversion H; subst. split; [exact E1|discriminate].
Qed.

(* A C08-F3 ITERATION FILLS ITS PACKET.  Fresh packet (not yet ack-eliciting); after the writers ahead of the probe PING the
   packet is ack-eliciting and either one of them raised QuicPacketBuilderStop or they returned and the PING's start_frame
   raises it.  Then the bytes they wrote exceed the room the packet had when it was started minus CAP_BEFORE (= 54, the
   capacity of NEW_CONNECTION_ID, the largest declared ahead of the PING apart from the ACK). *)
Theorem prestop_fills_packet_thm : forall c s1 d ob sb trb,
  cur_ackel s1 = false -> ctl_fts_ok d ->
  w_before c s1 d = (ob, sb, trb) ->
  cur_ackel sb = true ->
  (ob = OStop \/ (ob = ODone /\ fst (start_frame c sb W_ping_frame_0_ft W_ping_frame_0_cap) = OStop)) ->
  caps_eq s1 sb /\ room sb < CAP_BEFORE /\ b_tell sb - b_tell s1 > room s1 - CAP_BEFORE.
Proof.
  intros c s1 d ob sb trb Hf Hft Hb Hae Hst.
  assert (K : caps_eq s1 sb /\ room sb < CAP_BEFORE).
  { rewrite w_before_ack in Hb.
    destruct (w_opt (w_ack_in c) s1 (ai_ack d)) as [[oa sa] tra] eqn:EA.
    apply ack_stop in EA. destruct EA as [A1 A2]. unfold wseq in Hb.
    assert (K2 : 2 <= CAP_BEFORE) by (unfold CAP_BEFORE, NEW_CONNECTION_ID_FRAME_CAPACITY; lia).
    destruct oa.
    - pose proof (BI_before_ctl c d Hft sa) as B. destruct (w_before_ctl c sa d) as [[o2 s2] tr2].
      inversion Hb; subst. destruct B as [B1 B2]. split; [eapply caps_eq_trans; eassumption|].
      destruct Hst as [->|[-> Hp]]; [apply B2; reflexivity|].
      destruct (start_frame c sb W_ping_frame_0_ft W_ping_frame_0_cap) as [o' s''] eqn:SF. cbn [fst] in Hp. subst o'.
      assert (DF : do_frame c sb W_ping_frame_0_ft W_ping_frame_0_cap [] = (OStop, s'', [OpStartFrame W_ping_frame_0_ft W_ping_frame_0_cap]))
        by (unfold do_frame; rewrite SF; reflexivity).
      apply do_frame_stop in DF. destruct DF as [_ DF]. destruct (DF eq_refl) as [_ R]. specialize (R eq_refl).
      change (Z.max W_ping_frame_0_cap 2) with 2 in R. lia.
    - inversion Hb; subst. destruct Hst as [_|[Hx _]]; [|discriminate Hx].
      destruct (A2 eq_refl) as [->|R]; [congruence|]. split; [exact A1|lia].
    - inversion Hb; subst. destruct Hst as [Hx|[Hx _]]; discriminate Hx.
    - inversion Hb; subst. destruct Hst as [Hx|[Hx _]]; discriminate Hx.
    - inversion Hb; subst. destruct Hst as [Hx|[Hx _]]; discriminate Hx.
    - inversion Hb; subst. destruct Hst as [Hx|[Hx _]]; discriminate Hx.
    - inversion Hb; subst. destruct Hst as [Hx|[Hx _]]; discriminate Hx. }
  destruct K as [[K1 K2] K3]. split; [split; assumption|]. split; [exact K3|].
  unfold room, remaining_buffer_space, remaining_flight_space in *. rewrite K1, K2 in K3. lia.
Qed.

(* HOW MANY EXTRA DATAGRAMS.  A list of C08-F3 iterations (each keeps the allowance for one more raised call), each in a
   packet that started with at least R bytes of room: their number is at most the bytes of control frames they wrote
   ahead of the PING, divided by R - CAP_BEFORE + 1.  For the first 1-RTT packet of a raised call with a confirmed handshake
   R = max_datagram_size - header - tag ([raised_first_packet_room]). *)
Definition f3_iter (R : Z) (w : cfg * st * app_iter) : Prop :=
  let '(c, s1, d) := w in
  cur_ackel s1 = false /\ R <= room s1 /\ ctl_fts_ok d /\
  let '(ob, sb, _) := w_before c s1 d in
  cur_ackel sb = true /\
  (ob = OStop \/ (ob = ODone /\ fst (start_frame c sb W_ping_frame_0_ft W_ping_frame_0_cap) = OStop)).

Definition ctl_bytes (w : cfg * st * app_iter) : Z :=
  let '(c, s1, d) := w in let '(_, sb, _) := w_before c s1 d in b_tell sb - b_tell s1.

Theorem f3_extra_bounded_thm : forall R ws, CAP_BEFORE < R -> Forall (f3_iter R) ws ->
  Zlen ws * (R - CAP_BEFORE + 1) <= zsum (map ctl_bytes ws) /\
  Zlen ws <= zsum (map ctl_bytes ws) / (R - CAP_BEFORE + 1).
Proof.
  intros R ws HR F.
  assert (M : Zlen ws * (R - CAP_BEFORE + 1) <= zsum (map ctl_bytes ws)).
  { induction F as [|[[c s1] d] t Hw _ IH]; [cbn; lia|].
    assert (L : Zlen ((c, s1, d) :: t) = Zlen t + 1) by (replace (Zlen t + 1) with (Z.of_nat (S (List.length t))) by (unfold Zlen; lia); reflexivity).
    rewrite L. cbn [map zsum fold_right].
    assert (X : R - CAP_BEFORE + 1 <= ctl_bytes (c, s1, d)).
    { unfold f3_iter in Hw. destruct Hw as (H1 & H2 & H3 & H4). unfold ctl_bytes.
      destruct (w_before c s1 d) as [[ob sb] trb] eqn:E. destruct H4 as [H4 H5].
      destruct (prestop_fills_packet_thm c s1 d ob sb trb H1 H3 E H4 H5) as (_ & _ & P). lia. }
    unfold zsum in IH. lia. }
  split; [exact M|]. apply Z.div_le_lower_bound; lia.
Qed.

(* the room of the first 1-RTT packet of a call whose budget was raised to one datagram (fresh builder, no anti-amplification
   limit): max_datagram_size - header - AEAD tag *)
Lemma raised_first_packet_room c pn s1 :
  c_max_flight c = Some (c_mds c) -> c_max_total c = None ->
  start_packet c (init_st c pn) PT_ONE_RTT = (ODone, s1) ->
  room s1 = c_mds c - header_size c PT_ONE_RTT - AEAD_TAG_SIZE /\ cur_ackel s1 = false.
Proof.
  intros Hf Ht H. split; [|eapply start_packet_fresh; exact H].
  unfold start_packet in H. remember (header_size c PT_ONE_RTT) as h.
  change (negb (valid_ptype PT_ONE_RTT)) with false in H. cbv iota in H.
  change (end_current c (init_st c pn)) with (ODone, init_st c pn) in H. cbv iota beta in H.
  assert (FC : (if b_bcap (init_st c pn) - b_tell (init_st c pn) <? DATAGRAM_MIN_SPACE
                then flush_current c (init_st c pn) else (ODone, init_st c pn)) = (ODone, init_st c pn))
    by (destruct (_ <? _); reflexivity).
  rewrite FC in H. cbv iota beta in H.
  unfold datagram_init, init_st in H. cbn [b_dginit b_bcap b_total b_flight b_tell b_cur b_hascrypto b_pn b_dgrams b_pkts g_log] in H.
  rewrite Hf, Ht in H. rewrite Z.sub_0_r, Z.ltb_irrefl in H.
  cbn [b_bcap b_fcap b_tell b_dgflight b_dginit b_dgpad b_flight b_total b_pn b_dgrams b_pkts g_hasinit g_log] in H.
  destruct (0 + h >=? c_mds c); inversion H; subst s1.
  unfold room, remaining_buffer_space, remaining_flight_space. cbn [b_bcap b_fcap b_tell]. lia.
Qed.

(* ---------- realisability: the decision of the refuting history of C08-F3 comes out of the writer model ---------- *)
Definition flood_cfg : cfg := mkCfg true 1200 8 8 0 (Some 1200) None None.
Definition flood_pending : app_iter :=
  mkAI false None false false [] [] [] [] [] (map (fun k => (4 * k, 1048576)) (map Z.of_nat (seq 0 300))) false true None [] [].

Lemma flood_realisable_lemma :
  abs_iter flood_cfg (init_st flood_cfg 0) PT_ONE_RTT flood_pending = ProbeBudgetProofs.it_flood.
Proof. vm_compute. reflexivity. Qed.

(* ... it is a C08-F3 iteration in the sense of [f3_iter], with 1173 bytes of room and more than 1119 bytes written *)
Lemma flood_is_f3 :
  exists s1, start_packet flood_cfg (init_st flood_cfg 0) PT_ONE_RTT = (ODone, s1) /\
             f3_iter 1173 (flood_cfg, s1, flood_pending) /\ 1119 < ctl_bytes (flood_cfg, s1, flood_pending).
Proof.
  eexists. split; [vm_compute; reflexivity|]. split.
  - unfold f3_iter. split; [reflexivity|]. split; [vm_compute; discriminate|]. split.
    + split; [constructor|constructor].
    + vm_compute. split; [reflexivity|left; reflexivity].
  - vm_compute. reflexivity.
Qed.
