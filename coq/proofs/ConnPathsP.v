(* C05: proofs about coq/model/ConnPaths.v -- the "update network path" block of receive_datagram never raises,
   keeps the MAX_NETWORK_PATHS bound, keeps the active path at index 0 (or promotes the packet's path to it) and never
   duplicates a path object; lifted to datagrams and to arbitrary histories of connect / receive / transmit. *)
From Coq Require Import ZArith List Bool Lia Permutation.
From AQ Require Import lib.Base lib.Tok gen.C05Paths model.ConnPaths proofs.TlsSitesP.
Import ListNotations.
Open Scope Z_scope.

(* ---------- the source pin *)
Theorem paths_sites_known : sites_eqb paths_sites paths_sites_expected = true.
Proof. vm_compute. reflexivity. Qed.

(* what the proofs need of the three source constants: the evicted entry is neither the active path (index 0) nor the
   entry that was just appended (index MAX_NETWORK_PATHS) *)
Lemma params_ok : 1 <= EVICT_INDEX < MAX_NETWORK_PATHS /\ PROMOTE_INDEX = 0.
Proof. unfold EVICT_INDEX, MAX_NETWORK_PATHS, PROMOTE_INDEX. split; [lia | reflexivity]. Qed.

(* ---------- list facts *)
Definition head_id (l : ptable) : option Z := match l with [] => None | p :: _ => Some (p_id p) end.
Definition head_is (l : ptable) (i : Z) : bool := match l with [] => false | p :: _ => p_id p =? i end.
(* the packet's path becomes the active one: it is not already, the packet is not a probe and is the newest *)
Definition promotes (tab : ptable) (cur : pent) (probing newer : bool) : bool :=
  negb (head_is tab (p_id cur)) && negb probing && newer.

Lemma Zlen_cons {A} (x : A) l : Zlen (x :: l) = Zlen l + 1.
Proof. unfold Zlen. cbn [length]. lia. Qed.
Lemma Zlen_nonneg {A} (l : list A) : 0 <= Zlen l.
Proof. unfold Zlen. lia. Qed.
Lemma Zlen_app {A} (a b : list A) : Zlen (a ++ b) = Zlen a + Zlen b.
Proof. unfold Zlen. rewrite app_length. lia. Qed.

Lemma nodup_snoc (l : list Z) x : NoDup l -> ~ In x l -> NoDup (l ++ [x]).
Proof.
  induction l as [|a l IH]; cbn [app]; intros H K.
  - constructor; [intros [] | constructor].
  - inversion H; subst. constructor.
    + rewrite in_app_iff. cbn [In]. intros [Q|[Q|[]]]; [tauto | apply K; left; symmetry; exact Q].
    + apply IH; [assumption | intros Q; apply K; right; exact Q].
Qed.

Lemma idx_id_range i l j : idx_id i l = Some j -> 0 <= j < Zlen l.
Proof.
  revert j. induction l as [|y r IH]; cbn [idx_id]; intros j H; [discriminate|].
  rewrite Zlen_cons. pose proof (Zlen_nonneg r).
  destruct (p_id y =? i).
  - inversion H. lia.
  - destruct (idx_id i r) as [j0|]; [|discriminate]. inversion H. specialize (IH j0 eq_refl). lia.
Qed.

Lemma idx_id_none i l : idx_id i l = None -> ~ In i (map p_id l).
Proof.
  induction l as [|y r IH]; cbn [idx_id map]; intros H; [intros []|].
  destruct (p_id y =? i) eqn:E; [discriminate|].
  destruct (idx_id i r); [discriminate|].
  intros [K|K]; [apply Z.eqb_neq in E; congruence | exact (IH eq_refl K)].
Qed.

Lemma idx_id_app_new i l x : idx_id i l = None -> p_id x = i -> idx_id i (l ++ [x]) = Some (Zlen l).
Proof.
  intros H Hx. induction l as [|y r IH]; cbn [idx_id app].
  - rewrite Hx, Z.eqb_refl. reflexivity.
  - cbn [idx_id] in H. destruct (p_id y =? i); [discriminate|].
    destruct (idx_id i r); [discriminate|]. rewrite (IH eq_refl), Zlen_cons. reflexivity.
Qed.

Lemma idx_id_zero i l j : idx_id i l = Some j -> (j =? 0) = head_is l i.
Proof.
  destruct l as [|y r]; cbn [idx_id head_is]; intros H; [discriminate|].
  destruct (p_id y =? i).
  - inversion H. reflexivity.
  - destruct (idx_id i r) as [j0|] eqn:E; [|discriminate]. inversion H.
    apply idx_id_range in E. apply Z.eqb_neq. lia.
Qed.

Lemma pop_at_idx i l j : idx_id i l = Some j -> exists y t, pop_nat (Z.to_nat j) l = Some (y, t) /\ p_id y = i.
Proof.
  revert j. induction l as [|x r IH]; cbn [idx_id]; intros j H; [discriminate|].
  destruct (p_id x =? i) eqn:E.
  - inversion H. exists x, r. split; [reflexivity | apply Z.eqb_eq; exact E].
  - destruct (idx_id i r) as [j0|] eqn:E0; [|discriminate]. inversion H.
    destruct (IH j0 eq_refl) as (y & t & Hp & Hy).
    apply idx_id_range in E0.
    replace (Z.to_nat (j0 + 1)) with (S (Z.to_nat j0)) by lia.
    exists y, (x :: t). cbn [pop_nat]. rewrite Hp. split; [reflexivity | exact Hy].
Qed.

Lemma pop_perm n l y t : pop_nat n l = Some (y, t) -> Permutation l (y :: t).
Proof.
  revert n y t. induction l as [|x r IH]; intros n y t H; cbn [pop_nat] in H; [discriminate|].
  destruct n as [|n].
  - inversion H. apply Permutation_refl.
  - destruct (pop_nat n r) as [[y0 r']|] eqn:E; [|discriminate]. inversion H; subst.
    apply IH in E. eapply perm_trans; [apply perm_skip; exact E | apply perm_swap].
Qed.

Lemma pop_some n l : (n < length l)%nat -> exists y t, pop_nat n l = Some (y, t).
Proof.
  revert n. induction l as [|x r IH]; intros n H; cbn [length] in H; [lia|].
  destruct n as [|n]; cbn [pop_nat]; [eauto|].
  destruct (IH n ltac:(lia)) as (y & t & E). rewrite E. eauto.
Qed.

Lemma pop_keeps_other i l : forall n j y t,
  idx_id i l = Some j -> pop_nat n l = Some (y, t) -> Z.of_nat n <> j -> exists j', idx_id i t = Some j'.
Proof.
  induction l as [|x r IH]; intros n j y t Hi Hp Hn; cbn [idx_id] in Hi; [discriminate|].
  cbn [pop_nat] in Hp.
  destruct (p_id x =? i) eqn:E.
  - inversion Hi; subst j. destruct n as [|n]; [cbn in Hn; lia|].
    destruct (pop_nat n r) as [[y0 r']|]; [|discriminate]. inversion Hp; subst.
    exists 0. cbn [idx_id]. rewrite E. reflexivity.
  - destruct (idx_id i r) as [j0|] eqn:E0; [|discriminate]. inversion Hi; subst j.
    destruct n as [|n].
    + inversion Hp; subst. eauto.
    + destruct (pop_nat n r) as [[y0 r']|] eqn:Ep; [|discriminate]. inversion Hp; subst.
      destruct (IH n j0 y r' eq_refl Ep ltac:(lia)) as (j' & Hj').
      exists (j' + 1). cbn [idx_id]. rewrite E, Hj'. reflexivity.
Qed.

Lemma pop_head n x r y t : pop_nat (S n) (x :: r) = Some (y, t) -> exists r', t = x :: r'.
Proof.
  cbn [pop_nat]. destruct (pop_nat n r) as [[y0 r']|]; [|discriminate]. intros H; inversion H. eauto.
Qed.

Lemma perm_Zlen (a b : ptable) : Permutation a b -> Zlen a = Zlen b.
Proof. intros H. unfold Zlen. rewrite (Permutation_length H). reflexivity. Qed.

Lemma perm_nodup_ids (a b : ptable) : Permutation a b -> NoDup (map p_id a) -> NoDup (map p_id b).
Proof. intros H. apply Permutation_NoDup. apply Permutation_map. exact H. Qed.

(* attribute writes keep identities, order and length *)
Lemma upd_id_ids i f l : (forall p, p_id (f p) = p_id p) -> map p_id (upd_id i f l) = map p_id l.
Proof.
  intros Hf. unfold upd_id. rewrite map_map. apply map_ext. intros p. destruct (p_id p =? i); [apply Hf | reflexivity].
Qed.
Lemma upd_id_idx i f l j : (forall p, p_id (f p) = p_id p) -> idx_id j (upd_id i f l) = idx_id j l.
Proof.
  intros Hf. induction l as [|y r IH]; [reflexivity|].
  unfold upd_id in *. cbn [map idx_id]. rewrite IH.
  destruct (p_id y =? i); [rewrite Hf|]; reflexivity.
Qed.
Lemma upd_id_len i f l : Zlen (upd_id i f l) = Zlen l.
Proof. unfold upd_id, Zlen. rewrite map_length. reflexivity. Qed.
Lemma upd_id_head_is i f l j : (forall p, p_id (f p) = p_id p) -> head_is (upd_id i f l) j = head_is l j.
Proof. intros Hf. destruct l as [|y r]; [reflexivity|]. cbn. destruct (p_id y =? i); [rewrite Hf|]; reflexivity. Qed.
Lemma upd_id_head_id i f l : (forall p, p_id (f p) = p_id p) -> head_id (upd_id i f l) = head_id l.
Proof. intros Hf. destruct l as [|y r]; [reflexivity|]. cbn. destruct (p_id y =? i); [rewrite Hf|]; reflexivity. Qed.
Lemma upd_id_nil i f l : l <> [] -> upd_id i f l <> [].
Proof. destruct l; [congruence | discriminate]. Qed.

(* ---------- stage 1: `not in` -> append, the bound and its eviction *)
Lemma stage1 M E tab cur : 1 <= E < M ->
  exists tab1 idx,
    (if mem_id (p_id cur) tab then Some tab
     else let t := tab ++ [cur] in
          if Zlen t >? M then match py_pop E t with Some (_, t') => Some t' | None => None end else Some t) = Some tab1 /\
    idx_id (p_id cur) tab1 = Some idx /\
    (Zlen tab <= M -> Zlen tab1 <= M) /\
    (tab <> [] -> head_id tab1 = head_id tab /\ head_is tab1 (p_id cur) = head_is tab (p_id cur)) /\
    (NoDup (map p_id tab) -> NoDup (map p_id tab1)).
Proof.
  intros HE. unfold mem_id. destruct (idx_id (p_id cur) tab) as [j|] eqn:Ei.
  - exists tab, j. repeat split; auto.
  - cbv zeta.
    assert (Hnew : idx_id (p_id cur) (tab ++ [cur]) = Some (Zlen tab)) by (apply idx_id_app_new; auto).
    assert (Hlen : Zlen (tab ++ [cur]) = Zlen tab + 1) by (rewrite Zlen_app; reflexivity).
    assert (Hnd : NoDup (map p_id tab) -> NoDup (map p_id (tab ++ [cur]))).
    { intros H. rewrite map_app. cbn [map]. apply nodup_snoc; [exact H | apply idx_id_none; exact Ei]. }
    destruct (Zlen (tab ++ [cur]) >? M) eqn:Eb.
    + apply Z.gtb_lt in Eb.
      unfold py_pop. replace (E <? 0) with false by (symmetry; apply Z.ltb_ge; lia).
      replace (E <? 0) with false by (symmetry; apply Z.ltb_ge; lia).
      destruct (pop_some (Z.to_nat E) (tab ++ [cur])) as (y & t & Ep).
      { unfold Zlen in *. lia. }
      rewrite Ep.
      destruct (pop_keeps_other _ _ _ _ _ _ Hnew Ep) as (j' & Hj'); [lia|].
      exists t, j'. pose proof (pop_perm _ _ _ _ Ep) as Hperm.
      split; [reflexivity|]. split; [exact Hj'|]. split; [|split].
      * intros Hb. apply perm_Zlen in Hperm. rewrite Zlen_cons in Hperm. lia.
      * intros Hne. destruct tab as [|x r]; [congruence|].
        cbn [app] in Ep. replace (Z.to_nat E) with (S (Z.to_nat (E - 1))) in Ep by lia.
        destruct (pop_head _ _ _ _ _ Ep) as (r' & ->). split; reflexivity.
      * intros H. apply Hnd in H. apply (perm_nodup_ids _ _ Hperm) in H. cbn [map] in H.
        apply NoDup_cons_iff in H. apply H.
    + rewrite Z.gtb_ltb in Eb. apply Z.ltb_ge in Eb.
      exists (tab ++ [cur]), (Zlen tab). split; [reflexivity|]. split; [exact Hnew|]. split; [lia|]. split; [|exact Hnd].
      intros Hne. destruct tab as [|x r]; [congruence|]. split; reflexivity.
Qed.

(* ---------- stage 2: `.index` and the promotion *)
Lemma stage2 P tab1 i idx pr nw cur : P = 0 -> idx_id i tab1 = Some idx -> p_id cur = i ->
  exists tab',
    (if negb (idx =? 0) && negb pr && nw
     then match py_pop idx tab1 with
          | None => URaise PEXN_IndexError
          | Some (y, t) => UOk (py_insert P y t) cur
          end
     else UOk tab1 cur) = UOk tab' cur /\
    mem_id i tab' = true /\ Zlen tab' = Zlen tab1 /\
    head_id tab' = (if negb (idx =? 0) && negb pr && nw then Some i else head_id tab1) /\
    (NoDup (map p_id tab1) -> NoDup (map p_id tab')).
Proof.
  intros HP Hi Hc. subst P.
  destruct (negb (idx =? 0) && negb pr && nw).
  - destruct (pop_at_idx _ _ _ Hi) as (y & t & Ep & Hy).
    pose proof (idx_id_range _ _ _ Hi) as Hr.
    unfold py_pop. replace (idx <? 0) with false by (symmetry; apply Z.ltb_ge; lia).
    replace (idx <? 0) with false by (symmetry; apply Z.ltb_ge; lia).
    rewrite Ep. exists (y :: t). pose proof (pop_perm _ _ _ _ Ep) as Hperm.
    split; [reflexivity|]. split; [|split; [|split]].
    + unfold mem_id. cbn [idx_id]. rewrite Hy, Z.eqb_refl. reflexivity.
    + symmetry. apply perm_Zlen. exact Hperm.
    + cbn [head_id]. rewrite Hy. reflexivity.
    + apply perm_nodup_ids. exact Hperm.
  - exists tab1. split; [reflexivity|]. split; [unfold mem_id; rewrite Hi; reflexivity|]. auto.
Qed.

Lemma update_core_total M E P tab cur pr nw : 1 <= E < M -> P = 0 ->
  exists tab',
    update_core M E P tab cur pr nw = UOk tab' cur /\
    mem_id (p_id cur) tab' = true /\
    (Zlen tab <= M -> Zlen tab' <= M) /\
    (tab <> [] -> head_id tab' = if promotes tab cur pr nw then Some (p_id cur) else head_id tab) /\
    (NoDup (map p_id tab) -> NoDup (map p_id tab')).
Proof.
  intros HE HP. unfold update_core.
  destruct (stage1 M E tab cur HE) as (tab1 & idx & Hs & Hi & Hb & Hh & Hn).
  cbv zeta in Hs. cbv zeta. rewrite Hs, Hi.
  destruct (stage2 P tab1 (p_id cur) idx pr nw cur HP Hi eq_refl) as (tab' & -> & Hm & Hl & Hhd & Hn').
  exists tab'. split; [reflexivity|]. split; [exact Hm|]. split; [|split].
  - intros H. rewrite Hl. auto.
  - intros Hne. destruct (Hh Hne) as (H1 & H2). rewrite Hhd. unfold promotes.
    rewrite (idx_id_zero _ _ _ Hi), H2, H1. reflexivity.
  - auto.
Qed.

Lemma set_val_id p : p_id (set_val p) = p_id p.
Proof. reflexivity. Qed.

Lemma update_gen_total M E P tab cur hs pr nw : 1 <= E < M -> P = 0 ->
  exists tab' cur',
    update_gen M E P tab cur hs pr nw = UOk tab' cur' /\
    p_id cur' = p_id cur /\
    mem_id (p_id cur) tab' = true /\
    (Zlen tab <= M -> Zlen tab' <= M) /\
    (tab <> [] -> head_id tab' = if promotes tab cur pr nw then Some (p_id cur) else head_id tab) /\
    (NoDup (map p_id tab) -> NoDup (map p_id tab')).
Proof.
  intros HE HP. unfold update_gen.
  destruct (negb (p_val cur) && hs).
  - destruct (update_core_total M E P (upd_id (p_id cur) set_val tab) (set_val cur) pr nw HE HP)
      as (tab' & -> & Hm & Hb & Hh & Hn).
    exists tab', (set_val cur). split; [reflexivity|]. split; [reflexivity|]. split; [exact Hm|].
    rewrite upd_id_len in Hb. rewrite (upd_id_ids _ _ _ set_val_id) in Hn.
    split; [exact Hb|]. split; [|exact Hn].
    intros Hne. rewrite (Hh (upd_id_nil _ _ _ Hne)). unfold promotes.
    rewrite (upd_id_head_is _ _ _ _ set_val_id), (upd_id_head_id _ _ _ set_val_id). reflexivity.
  - destruct (update_core_total M E P tab cur pr nw HE HP) as (tab' & -> & Hm & Hb & Hh & Hn).
    exists tab', cur. auto 10.
Qed.

(* THE STATEMENT: for every table, every path object (found in the table by its address or newly created) and every
   verdict of the payload, the "update network path" block of receive_datagram returns: `.pop(EVICT_INDEX)` and
   `.pop(idx)` are in range, `.index(network_path)` is applied to a member; the packet's path is in the table afterwards;
   the MAX_NETWORK_PATHS bound is kept; the active path (index 0) stays where it is unless the packet is the newest
   non-probing one from another path, which is then the active one; no path object is in the table twice. *)
Theorem network_path_update_total_proof : forall tab cur hs probing newer,
  exists tab' cur',
    update_network_path tab cur hs probing newer = UOk tab' cur' /\
    p_id cur' = p_id cur /\
    mem_id (p_id cur) tab' = true /\
    (Zlen tab <= MAX_NETWORK_PATHS -> Zlen tab' <= MAX_NETWORK_PATHS) /\
    (tab <> [] -> head_id tab' = if promotes tab cur probing newer then Some (p_id cur) else head_id tab) /\
    (NoDup (map p_id tab) -> NoDup (map p_id tab')).
Proof.
  intros. unfold update_network_path. apply update_gen_total; apply params_ok.
Qed.

(* an eviction that can hit the entry just appended does raise: `pop(-1)`, and the seeded "forget the oldest path that was
   never validated" on a table whose other entries are all validated (modelled as the index of the appended entry) *)
Example evict_appended_raises :
  let tab := map (fun i => mkP i (100 + i) true true 0) [0; 1; 2; 3; 4; 5; 6; 7] in
  update_gen 8 (-1) 0 tab (mkP 8 108 false false 0) false false true = URaise PEXN_ValueError /\
  update_gen 8 8 0 tab (mkP 8 108 false false 0) false false true = URaise PEXN_ValueError /\
  update_gen 8 0 0 tab (mkP 8 108 false false 0) false true false = UOk (tl tab ++ [mkP 8 108 false false 0]) (mkP 8 108 false false 0).
Proof. vm_compute. repeat split. Qed.

(* ---------- packets, datagrams, histories *)
Definition tab_ok (l : ptable) : Prop := Zlen l <= MAX_NETWORK_PATHS /\ NoDup (map p_id l).

Lemma set_rc_id n p : p_id (set_rc p n) = p_id p.
Proof. reflexivity. Qed.

Lemma validate_targets_ids ts : forall tab cur,
  map p_id (fst (validate_targets tab cur ts)) = map p_id tab /\
  p_id (snd (validate_targets tab cur ts)) = p_id cur.
Proof.
  unfold validate_targets.
  induction ts as [|t ts IH]; intros tab cur; cbn [fold_left fst snd]; [auto|].
  destruct (if t =? -1 then Some (p_id cur) else nth_id tab t) as [i|].
  - destruct (IH (upd_id i set_val tab) (if p_id cur =? i then set_val cur else cur)) as (H1 & H2).
    rewrite H1, H2. rewrite (upd_id_ids _ _ _ set_val_id). split; [reflexivity|].
    destruct (p_id cur =? i); reflexivity.
  - apply IH.
Qed.

Lemma tab_ok_ids (a b : ptable) : map p_id a = map p_id b -> tab_ok b -> tab_ok a.
Proof.
  intros H (Hl & Hn). split; [|rewrite H; exact Hn].
  unfold Zlen in *. rewrite <- (map_length p_id a), H, map_length. exact Hl.
Qed.

Lemma path_packet_total tab cur k : tab_ok tab ->
  exists tab' cur', path_packet tab cur k = UOk tab' cur' /\ tab_ok tab' /\ p_id cur' = p_id cur.
Proof.
  intros Hok. unfold path_packet.
  set (tab0 := if k_reset k then [cur] else tab).
  assert (Hok0 : tab_ok tab0).
  { unfold tab0. destruct (k_reset k); [|exact Hok]. split.
    - pose proof params_ok. unfold Zlen. cbn [length]. lia.
    - cbn [map]. constructor; [intros []|constructor]. }
  unfold queue_challenges.
  set (rc := Z.max (p_rc cur) (Z.min MAX_REMOTE_CHALLENGES (p_rc cur + Z.max 0 (k_nchal k)))).
  set (tab1 := upd_id (p_id cur) (fun p => set_rc p rc) tab0).
  set (cur1 := set_rc cur rc).
  assert (Hok1 : tab_ok tab1).
  { apply (tab_ok_ids _ tab0); [|exact Hok0]. apply upd_id_ids. intros p. reflexivity. }
  destruct (validate_targets tab1 cur1 (k_resp k)) as [tab2 cur2] eqn:Ev.
  pose proof (validate_targets_ids (k_resp k) tab1 cur1) as (Hv1 & Hv2). rewrite Ev in Hv1, Hv2. cbn [fst snd] in Hv1, Hv2.
  assert (Hok2 : tab_ok tab2) by (apply (tab_ok_ids _ tab1); assumption).
  destruct (k_reached k).
  - destruct (network_path_update_total_proof tab2 cur2 (k_hs k) (k_probing k) (k_newer k))
      as (tab' & cur' & -> & Hc & _ & Hb & _ & Hn).
    exists tab', cur'. split; [reflexivity|]. destruct Hok2 as (Hl2 & Hn2). split; [split; auto|].
    rewrite Hc, Hv2. reflexivity.
  - exists tab2, cur2. split; [reflexivity|]. split; [exact Hok2|]. rewrite Hv2. reflexivity.
Qed.

Lemma path_packets_total ks : forall tab cur, tab_ok tab ->
  exists tab' cur', path_packets tab cur ks = UOk tab' cur' /\ tab_ok tab'.
Proof.
  induction ks as [|k ks IH]; intros tab cur Hok; cbn [path_packets]; [eauto|].
  destruct (path_packet_total tab cur k Hok) as (tab' & cur' & -> & Hok' & _). apply IH. exact Hok'.
Qed.

(* receive_datagram: whatever the address, whatever the packets did *)
Theorem path_datagram_total_proof : forall s addr ks, tab_ok (ps_tab s) ->
  exists s', path_datagram s addr ks = PROk s' /\ tab_ok (ps_tab s').
Proof.
  intros s addr ks Hok. unfold path_datagram. destruct (find_network_path s addr) as [cur next].
  destruct (path_packets_total ks (ps_tab s) cur Hok) as (tab' & cur' & -> & Hok'). eauto.
Qed.

(* any history of connect / receive_datagram / datagrams_to_send: nothing raises, the table invariant is kept *)
Theorem path_run_total_proof : forall os s, tab_ok (ps_tab s) ->
  (forall k, path_run s os <> PRRaise k) /\ (forall s', path_run s os = PROk s' -> tab_ok (ps_tab s')).
Proof.
  induction os as [|o os IH]; intros s Hok; cbn [path_run].
  - split; [discriminate|]. intros s' H; inversion H; subst; exact Hok.
  - destruct o as [a|a ks|w n]; cbn [path_op].
    + unfold path_connect. apply IH. cbn [ps_tab]. split.
      * pose proof params_ok. unfold Zlen. cbn [length]. lia.
      * cbn [map]. constructor; [intros []|constructor].
    + destruct (path_datagram_total_proof s a ks Hok) as (s' & -> & Hok'). apply IH. exact Hok'.
    + unfold path_send. destruct (ps_tab s) as [|p r] eqn:Et.
      * destruct (w || (0 <? n)); [split; discriminate|]. apply IH. rewrite Et. exact Hok.
      * destruct (w && (p_val p || p_sent p)); [split; discriminate|].
        destruct ((n <? 0) || (n >? p_rc p)); [split; discriminate|].
        apply IH. cbn [ps_tab]. apply (tab_ok_ids _ (p :: r)); [reflexivity | exact Hok].
Qed.

Example tab_ok_example : tab_ok [mkP 0 7 true false 0; mkP 1 9 false true 2].
Proof. split; [unfold Zlen, MAX_NETWORK_PATHS; cbn; lia|]. cbn. repeat constructor; cbn; intuition discriminate. Qed.

(* the history of the seeded breakage on the model of the CURRENT source: 7 validated migrations, then a 9th address *)
Example nine_addresses_ok :
  let mig := fun a => [PRecv a [mkK false true false false true [] 0]; PSend true 0; PRecv a [mkK false true false true true [0] 0]] in
  match path_run (mkPS [] 0) (PConnect 0 :: flat_map mig [1; 2; 3; 4; 5; 6; 7] ++ [PRecv 8 [mkK false true false false true [] 0]]) with
  | PROk s => map p_addr (ps_tab s) = [8; 7; 5; 4; 3; 2; 1; 0] /\ map p_val (ps_tab s) = [false; true; true; true; true; true; true; true]
  | _ => False
  end.
Proof. vm_compute. split; reflexivity. Qed.

Lemma tab_ok_single cur : tab_ok [cur].
Proof.
  split.
  - pose proof params_ok. unfold Zlen. cbn [length]. lia.
  - cbn [map]. constructor; [intros []|constructor].
Qed.
