(* C14: _receive_stream_data for a unidirectional stream id, bytes a ++ b in one delivery = a, then b:
   stream table (get_or_create / put_stream) and resume pass included (model of the patched code). *)
From AQ Require Import lib.Base lib.Tok model.H3Parse proofs.H3Chunk proofs.H3Split proofs.H3Loop proofs.H3Recv proofs.H3Fin
  proofs.H3Uni proofs.H3Table proofs.H3Conn.
From Coq Require Import ZifyBool.

(* same normalised events and same connection (stream table included), or both deliveries fail (close the connection /
   raise): no events are returned by a call that fails *)
Definition cequiv (r1 r2 : rsd) : Prop :=
  match r1, r2 with
  | SVal e1 c1, SVal e2 c2 => norm e1 = norm e2 /\ c1 = c2
  | SVal _ _, _ | _, SVal _ _ => False
  | _, _ => True
  end.

Definition sbind (r : rsd) (k : conn -> rsd) : rsd :=
  match r with
  | SVal e c => match k c with SVal e2 c2 => SVal (e ++ e2) c2 | x => x end
  | x => x
  end.

Section Two.
Variable fx : fixes.
Variable O : oracle.
Hypothesis Htr : fx_trunc fx = true.
Hypothesis Hem : fx_endmark fx = true.

Lemma norm_nil_app : forall a b, norm (a ++ b) = [] -> norm a = [] /\ norm b = [].
Proof. intros a b H. rewrite norm_app in H. apply app_eq_nil in H. assumption. Qed.

Theorem recv_uni_two : forall c0 sid a b fin,
  is_uni sid = true -> ds_seq O -> enc_seq O ->
  stream_ok (fst (get_or_create c0 sid)) ->
  (fin = true -> is_ctrl (fst (get_or_create c0 sid)) (a ++ b) = false) ->
  (forall x l, o_enc O x = EUnblocked l -> ~ In sid l) ->
  cequiv (receive_stream_data0 fx O c0 sid (a ++ b) fin)
         (sbind (receive_stream_data0 fx O c0 sid a false) (fun c1 => receive_stream_data0 fx O c1 sid b fin)).
Proof.
  intros c0 sid a b fin Hu Hds Henc Hok Hc Hself.
  rewrite !(recv0_uni_full fx O c0 sid _ _ Hu).
  pose proof (goc_find_same c0 sid) as Fs. pose proof (goc_id c0 sid) as Ids.
  rewrite (goc_pair c0 sid).
  set (s0 := fst (get_or_create c0 sid)) in *. set (c := snd (get_or_create c0 sid)) in *.
  set (S := c_streams c) in *.
  pose proof (uni_two fx O s0 c a b fin Htr Hem Hok Hds Henc Hc) as T.
  destruct (uni_full fx O s0 c a false) as [e1 st1 c1 u1|k1 c1|k1] eqn:EA; cbn [ubind] in T.
  2:{ destruct (uni_full fx O s0 c (a ++ b) fin); cbn in T; try tauto. cbn. exact I. }
  2:{ destruct (uni_full fx O s0 c (a ++ b) fin); cbn in T; try tauto. cbn. exact I. }
  pose proof (uni_full_frame fx O _ _ _ _ _ _ _ _ EA) as (CL1 & ST1 & ID1 & UN1).
  assert (N1 : ~ In sid u1).
  { destruct UN1 as [-> | (_ & x & Hx)]; [intros []| eapply Hself; eassumption]. }
  assert (Key : forall cl st2 acc, s_id st2 = s_id st1 ->
            unb fx O cl (put_stream st2 S) u1 acc = tmap (put_stream st2) (tprep acc (unb fx O cl (put_stream st1 S) u1 []))).
  { intros cl st2 acc Hid. rewrite <- (put_put_same S st2 st1) by assumption.
    rewrite (unb_put_other fx O u1).
    - rewrite (unb_acc fx O u1). reflexivity.
    - rewrite Hid, ID1, Ids. assumption.
    - rewrite Hid, find_put_same. discriminate. }
  (* the first delivery: its resume pass *)
  rewrite (unblock_unb fx O u1). rewrite c_client_ss, c_streams_ss, ST1. fold S.
  rewrite (unb_acc fx O u1).
  destruct (unb fx O (c_client c1) (put_stream st1 S) u1 []) as [r1 T1|k T1|k] eqn:EU; cbn [tprep of_tres sbind].
  2:{ (* the resume pass of the first delivery fails: so does the whole delivery *)
      destruct (uni_full fx O s0 c (a ++ b) fin) as [e st2 c2 u|k2 c2|k2] eqn:EW; [|exact I|exact I].
      destruct (uni_full fx O st1 c1 b fin) as [e2 st2' c2' u2|k2 c2'|k2] eqn:EB; cbn in T; try tauto.
      destruct T as (Tn & -> & -> & ->).
      pose proof (uni_full_frame fx O _ _ _ _ _ _ _ _ EB) as (CL2 & ST2 & ID2 & UN2).
      rewrite (unblock_unb fx O (u1 ++ u2)). rewrite c_client_ss, c_streams_ss, ST2, ST1. fold S.
      rewrite (unb_app fx O). rewrite Key by congruence. rewrite CL2, EU. cbn. exact I. }
  2:{ destruct (uni_full fx O s0 c (a ++ b) fin) as [e st2 c2 u|k2 c2|k2] eqn:EW; [|exact I|exact I].
      destruct (uni_full fx O st1 c1 b fin) as [e2 st2' c2' u2|k2 c2'|k2] eqn:EB; cbn in T; try tauto.
      destruct T as (Tn & -> & -> & ->).
      pose proof (uni_full_frame fx O _ _ _ _ _ _ _ _ EB) as (CL2 & ST2 & ID2 & UN2).
      rewrite (unblock_unb fx O (u1 ++ u2)). rewrite c_client_ss, c_streams_ss, ST2, ST1. fold S.
      rewrite (unb_app fx O). rewrite Key by congruence. rewrite CL2, EU. cbn. exact I. }
  (* the second delivery finds the stream as the first one left it *)
  rewrite set_streams_twice.
  assert (F1 : find_stream sid T1 = Some st1).
  { rewrite (unb_find_other fx O _ _ _ _ _ _ sid N1 EU). rewrite <- Ids, <- ID1. apply find_put_same. }
  rewrite (recv0_uni_full fx O _ sid _ _ Hu).
  unfold get_or_create at 1. rewrite c_streams_ss, F1.
  rewrite uni_full_ss.
  destruct (uni_full fx O st1 c1 b fin) as [e2 st2 c2 u2|k2 c2|k2] eqn:EB; cbn [umap].
  2:{ destruct (uni_full fx O s0 c (a ++ b) fin); cbn in T; try tauto. exact I. }
  2:{ destruct (uni_full fx O s0 c (a ++ b) fin); cbn in T; try tauto. exact I. }
  destruct (uni_full fx O s0 c (a ++ b) fin) as [e st2' c2' u|k2 c2'|k2] eqn:EW; cbn in T; try tauto.
  destruct T as (Tn & -> & -> & ->).
  pose proof (uni_full_frame fx O _ _ _ _ _ _ _ _ EB) as (CL2 & ST2 & ID2 & UN2).
  pose proof (uni_full_frame fx O _ _ _ _ _ _ _ _ EW) as (_ & _ & _ & UNW).
  (* whole delivery: the resume pass over u1 ++ u2 *)
  rewrite (unblock_unb fx O (u1 ++ u2)). rewrite c_client_ss, c_streams_ss, ST2, ST1. fold S.
  rewrite (unb_app fx O). rewrite Key by congruence. rewrite CL2, EU. cbn [tprep tmap].
  (* split delivery: the resume pass over u2 *)
  rewrite (unblock_unb fx O u2). rewrite !c_client_ss, !c_streams_ss, CL2.
  rewrite (unb_acc fx O u2 _ _ (e ++ r1)). rewrite (unb_acc fx O u2 _ _ e2).
  destruct (unb fx O (c_client c1) (put_stream st2 T1) u2 []) as [r2 T2|k T2|k]; cbn [tprep of_tres]; try exact I.
  cbn [cequiv]. split; [|rewrite !set_streams_twice; reflexivity].
  (* events: a delivery that resumes streams has no events of its own *)
  rewrite !norm_app.
  destruct UNW as [Hnil | (-> & _)].
  - apply app_eq_nil in Hnil. destruct Hnil as (-> & ->).
    cbn [unb] in EU. injection EU as Hr1 HT1. rewrite <- Hr1.
    rewrite norm_app in Tn. rewrite Tn. cbn [norm flat_map]. rewrite !app_nil_r, app_assoc. reflexivity.
  - cbn [norm flat_map] in Tn. symmetry in Tn. apply norm_nil_app in Tn. destruct Tn as (Z1 & Z2).
    rewrite Z1, Z2. reflexivity.
Qed.

End Two.

(* The close CODE can depend on the chunking of the encoder stream (both deliveries close the connection, neither
   returns an event): encoder-stream bytes that unblock a stream whose headers are then refused, followed by bytes the
   decoder rejects.  Whole: feed_encoder fails, QPACK_ENCODER_STREAM_ERROR; split: the resumed stream is refused first,
   H3_MESSAGE_ERROR.  Replayed on the real H3Connection (docs/C14.md). *)
Definition o_corner : oracle :=
  mkO (fun _ _ => DBlocked) (fun _ => DHeaders 1) (fun _ _ => (false, None))
      (fun d => if list_eqb d [1] then EUnblocked [0] else EEncErr) (fun _ => true).

Lemma close_code_corner :
  run all_fixed (conn_init true true) [(QStream 0 [1; 1; 0] false, o_corner); (QStream 7 [2; 1; 9] false, o_corner)]
    = [Events []; Closed QPACK_ENCODER_STREAM_ERROR] /\
  run all_fixed (conn_init true true)
      [(QStream 0 [1; 1; 0] false, o_corner); (QStream 7 [2; 1] false, o_corner); (QStream 7 [9] false, o_corner)]
    = [Events []; Closed H3_MESSAGE_ERROR; Events []].
Proof. split; vm_compute; reflexivity. Qed.
