(* C07: statements that the faithful model violates, with concrete witnesses (replayed on the real
   connection by harness/props/c07.py, suite "findings"). *)
From Coq Require Import ZArith List Bool Lia.
From AQ Require Import lib.Base model.StreamRecv model.ConnLimits model.ConnLimitsSpec gen.C07Consts.

(* RESET_STREAM charges final_size - highest_offset to the connection window but leaves highest_offset
   where it was (QuicStreamReceiver.handle_reset does not touch it), so the same bytes are charged again by a
   repeated RESET_STREAM or by late STREAM data below the final size. *)
Definition w_dup_reset : list op := [ResetStream 0 100; Write; ResetStream 0 100; Write; ResetStream 4 3900].
Definition w_late_data : list op := [ResetStream 0 10; Write; StreamFrame 14 0 5 [1; 2; 3; 4; 5]; Write; ResetStream 4 30].

Lemma used_overcount_witness :
  let c := snd (run (conn_init false 4000 4000 0) [ResetStream 0 100; Write; ResetStream 0 100]) in
  l_used (c_data c) = 200 /\ peer_total (peer_init 4000 4000) [ResetStream 0 100; Write; ResetStream 0 100] = 100.
Proof. vm_compute. split; reflexivity. Qed.

Lemma accused_dup_reset : accused (conn_init false 4000 4000 0) (peer_init 4000 4000) w_dup_reset = true.
Proof. vm_compute. reflexivity. Qed.

Lemma accused_late_data : accused (conn_init false 40 40 0) (peer_init 40 40) w_late_data = true.
Proof. vm_compute. reflexivity. Qed.

Lemma accused_dup_reset_outcome :
  fst (run (conn_init false 4000 4000 0) w_dup_reset) =
  [OOk RReset; OWrote []; OOk RReset; OWrote []; OErr E_FLOW_CONTROL_ERROR FT_RESET_STREAM].
Proof. vm_compute. reflexivity. Qed.

Lemma never_accused_refuted :
  exists client msd md ops, 0 <= msd /\ 0 <= md /\ accused (conn_init client msd md 0) (peer_init msd md) ops = true.
Proof. exists false, 4000, 4000, w_dup_reset. split; [lia|]. split; [lia|]. exact accused_dup_reset. Qed.

Lemma used_accounting_refuted :
  exists client msd md ops, 0 <= msd /\ 0 <= md /\
    l_used (c_data (snd (run (conn_init client msd md 0) ops))) > peer_total (peer_init msd md) ops.
Proof.
  exists false, 4000, 4000, [ResetStream 0 100; Write; ResetStream 0 100]. split; [lia|]. split; [lia|].
  vm_compute. reflexivity.
Qed.
