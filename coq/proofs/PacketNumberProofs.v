(* Proofs about decode_packet_number: generated source = hand model; RFC 9000 A.3 closest-candidate
   property with exact tie-breaking and boundary behaviour; round trip window. *)
From AQ Require Import lib.Base model.PacketNumber gen.PnGen.

(* ---- the translated current source and the hand model are the same function ---------------- *)
Lemma gen_decode_packet_number_eq : forall t b e,
  gen_decode_packet_number t b e = decode_packet_number t b e.
Proof. intros; reflexivity. Qed.

(* ---- bit-level step: (expected & ~(window-1)) | truncated = expected - expected mod window + truncated *)
Lemma candidate_arith : forall n e t, 0 <= n -> 0 <= t < 2 ^ n ->
  Z.lor (Z.land e (Z.lnot (Z.shiftl 1 n - 1))) t = e - e mod 2 ^ n + t.
Proof.
  intros n e t Hn Ht.
  rewrite Z.shiftl_1_l.
  replace (2 ^ n - 1) with (Z.ones n) by (rewrite Z.ones_equiv; lia).
  rewrite <- Z.ldiff_land, Z.ldiff_ones_r by lia.
  rewrite Z.shiftl_mul_pow2, Z.shiftr_div_pow2 by lia.
  assert (Hp : 0 < 2 ^ n) by (apply Z.pow_pos_nonneg; lia).
  assert (Hl : Z.land (e / 2 ^ n * 2 ^ n) t = 0).
  { apply Z.bits_inj'. intros k Hk. rewrite Z.land_spec, Z.bits_0.
    destruct (Z_lt_le_dec k n) as [Hlt | Hge].
    - rewrite Z.mul_pow2_bits_low by lia. reflexivity.
    - destruct (Z.eq_dec t 0) as [-> | Hne]; [rewrite Z.bits_0; apply andb_false_r |].
      rewrite (Z.bits_above_log2 t k); [apply andb_false_r | lia |].
      apply Z.log2_lt_pow2; [lia |].
      apply Z.lt_le_trans with (2 ^ n); [lia | apply Z.pow_le_mono_r; lia]. }
  rewrite <- Z.lxor_lor by exact Hl.
  rewrite <- Z.add_nocarry_lxor by exact Hl.
  pose proof (Z.div_mod e (2 ^ n)). lia.
Qed.

Definition valid_bits (n : Z) : Prop := n = 8 \/ n = 16 \/ n = 24 \/ n = 32.

Lemma decode_arith : forall n e t, valid_bits n -> 0 <= t < 2 ^ n ->
  decode_packet_number t n e =
    let w := 2 ^ n in
    let c := e - e mod w + t in
    if (c <=? e - w / 2) && (c <? 2 ^ 62 - w) then c + w
    else if (c >? e + w / 2) && (c >=? w) then c - w else c.
Proof.
  intros n e t Hn Ht. unfold decode_packet_number.
  assert (0 <= n) by (destruct Hn as [-> | [-> | [-> | ->]]]; lia).
  cbv zeta. rewrite candidate_arith by assumption.
  rewrite !Z.shiftl_1_l. reflexivity.
Qed.

(* RFC 9000 A.3.  For every valid encoding width, 0 <= expected < 2^62, 0 <= truncated < 2^n the
   result r
     - is a packet number: 0 <= r < 2^62,
     - has the transmitted low bits: r mod 2^n = truncated,
     - is closest to expected among ALL such candidates c; when two candidates are equally close
       (expected = c + 2^(n-1)) the larger one is returned.
   The boundary conditions of the code (candidate < 2^62 - window; candidate >= window) are exactly
   what keeps r inside [0, 2^62): a candidate outside that range is not a packet number, so it is
   not a competitor. *)
Lemma pn_decode_closest_lemma : forall n e t, valid_bits n -> 0 <= e < 2 ^ 62 -> 0 <= t < 2 ^ n ->
  let r := decode_packet_number t n e in
  0 <= r < 2 ^ 62 /\ r mod 2 ^ n = t /\
  forall c, 0 <= c < 2 ^ 62 -> c mod 2 ^ n = t ->
    Z.abs (r - e) < Z.abs (c - e) \/ (Z.abs (r - e) = Z.abs (c - e) /\ c <= r).
Proof.
  intros n e t Hn He Ht r. subst r. rewrite decode_arith by assumption. cbv zeta.
  assert (Hw : 2 ^ n = 256 \/ 2 ^ n = 65536 \/ 2 ^ n = 16777216 \/ 2 ^ n = 4294967296)
    by (destruct Hn as [-> | [-> | [-> | ->]]]; cbn; auto).
  set (w := 2 ^ n) in *. change (2 ^ 62) with 4611686018427387904 in *. clearbody w. clear Hn.
  pose proof (Z.div_mod e w) as Hdm. pose proof (Z.mod_pos_bound e w) as Hmb.
  assert (Hq : 0 < w -> 0 <= e / w) by (intros; apply Z.div_pos; lia).
  assert (Hmod : forall x k, 0 <= x < w -> (w * k + x) mod w = x).
  { intros x k Hx. rewrite Z.add_comm, Z.mul_comm, Z.mod_add by lia. apply Z.mod_small; lia. }
  assert (Hc : forall c, 0 < w -> c mod w = t -> exists k, c = w * k + t).
  { intros c Hwp Hcm. exists (c / w). pose proof (Z.div_mod c w). lia. }
  set (q := e / w) in *. set (m := e mod w) in *. clearbody q m.
  destruct Hw as [-> | [-> | [-> | ->]]].
  all: specialize (Hq ltac:(lia)); specialize (Hmb ltac:(lia)); specialize (Hdm ltac:(lia)).
  all: match goal with |- context [?W / 2] => let v := eval vm_compute in (W / 2) in change (W / 2) with v end.
  all: match goal with |- context [(?a <=? ?b) && (?c <? ?d)] => destruct ((a <=? b) && (c <? d)) eqn:E1 end;
   [ apply andb_true_iff in E1 as [E1a E1b]; apply Z.leb_le in E1a; apply Z.ltb_lt in E1b
   | match goal with |- context [(?a >? ?b) && (?c >=? ?d)] => destruct ((a >? b) && (c >=? d)) eqn:E2 end;
     [ apply andb_true_iff in E2 as [E2a E2b]; apply Z.gtb_lt in E2a; apply Z.geb_le in E2b
     | apply andb_false_iff in E1; apply andb_false_iff in E2;
       rewrite Z.leb_gt, Z.ltb_ge in E1; rewrite Z.gtb_ltb, Z.ltb_ge, Z.geb_leb, Z.leb_gt in E2 ] ].
  all: (split; [lia |]); split;
   [ match goal with
     | Hd : _ = ?W * ?Q + _ |- (?X + ?W) mod ?W = _ => replace (X + W) with (W * (Q + 1) + t) by lia
     | Hd : _ = ?W * ?Q + _ |- (?X - ?W) mod ?W = _ => replace (X - W) with (W * (Q - 1) + t) by lia
     | Hd : _ = ?W * ?Q + _ |- ?X mod ?W = _ => replace X with (W * Q + t) by lia
     end; apply Hmod; lia
   | intros c Hcr Hcm; destruct (Hc c ltac:(lia) Hcm) as [k ->]; lia ].
Qed.

(* Round trip: the exact window.  A packet number pn with  expected - 2^(n-1) < pn <= expected + 2^(n-1)
   is recovered from its low n bits. *)
Lemma pn_roundtrip_lemma : forall n e pn, valid_bits n -> 0 <= e < 2 ^ 62 -> 0 <= pn < 2 ^ 62 ->
  e - 2 ^ (n - 1) < pn <= e + 2 ^ (n - 1) ->
  decode_packet_number (pn mod 2 ^ n) n e = pn.
Proof.
  intros n e pn Hn He Hp Hwin.
  assert (Hw : 0 < 2 ^ n) by (destruct Hn as [-> | [-> | [-> | ->]]]; reflexivity).
  assert (Hh : 2 * 2 ^ (n - 1) = 2 ^ n) by (destruct Hn as [-> | [-> | [-> | ->]]]; reflexivity).
  pose proof (Z.mod_pos_bound pn (2 ^ n) Hw) as Ht.
  destruct (pn_decode_closest_lemma n e (pn mod 2 ^ n) Hn He Ht) as (Hr & Hm & Hcl).
  specialize (Hcl pn Hp eq_refl).
  set (r := decode_packet_number (pn mod 2 ^ n) n e) in *.
  (* r and pn are congruent and both within the window, hence equal *)
  assert (exists k, r - pn = 2 ^ n * k) as [k Hk].
  { exists (r / 2 ^ n - pn / 2 ^ n). pose proof (Z.div_mod r (2 ^ n)). pose proof (Z.div_mod pn (2 ^ n)). lia. }
  assert (k <= -1 \/ k = 0 \/ k >= 1) as [Hk' | [-> | Hk']] by lia; [| lia |].
  - assert (2 ^ n * k <= 2 ^ n * -1) by (apply Z.mul_le_mono_nonneg_l; lia). lia.
  - assert (2 ^ n * 1 <= 2 ^ n * k) by (apply Z.mul_le_mono_nonneg_l; lia). lia.
Qed.

(* The window cannot be widened on the low side: pn = expected - 2^(n-1) is NOT recovered
   (the equally distant larger candidate wins). *)
Lemma pn_roundtrip_window_tight : exists n e pn, valid_bits n /\ 0 <= e < 2 ^ 62 /\ 0 <= pn < 2 ^ 62 /\
  pn = e - 2 ^ (n - 1) /\ decode_packet_number (pn mod 2 ^ n) n e <> pn.
Proof. exists 8, 200, 72. unfold valid_bits. repeat split; try lia; auto. vm_compute. discriminate. Qed.

Example pn_rfc_example : decode_packet_number 0x9b32 16 0xa82f30eb = 0xa82f9b32.
Proof. reflexivity. Qed.
