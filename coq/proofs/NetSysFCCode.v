(* C01: the flow-control theorems of proofs/NetSysFCP.v instantiated with what the source tree under test contains.
   gen/C01Consts.v is written by tools/gen/c01_consts.py from src/aioquic/quic/connection.py on every run of the check:
   [code_fc_base] is the base _write_application computes the per-stream send limit from
   (stream.sender.highest_offset -> BaseHighest; stream.sender.next_offset -> BaseNext), [code_raise_k] / [code_raise_m]
   the constants of the receiver's rule `if limit.used * k > value: value *= m`.
   Every proof below is by conversion / reflexivity: it type-checks exactly when the tree computes the limit from
   highest_offset and raises at used * 2 > value by doubling.  For a tree that uses next_offset the statements are FALSE
   (fair_schedule_completes_fc_next_refuted) and this file stops compiling: a proof obligation of C01 breaks. *)
From Coq Require Import ZArith List Bool Lia.
From AQ Require Import lib.Base model.RangeSet model.StreamRecv model.StreamSend model.NetSys model.NetSysLive model.NetSysFC
  gen.C01Consts proofs.NetSysP proofs.NetSysFCP.
Import ListNotations. Open Scope Z_scope.

Lemma code_base_is_highest : code_fc_base = BaseHighest.
Proof. reflexivity. Qed.

(* the model's FRaise ([raised]) is the source's rule with these constants *)
Lemma code_raise_rule s :
  raised s = if f_lused s * code_raise_k >? f_lval s then f_lval s * code_raise_m else f_lval s.
Proof. reflexivity. Qed.

Lemma retransmission_needs_no_credit_code w s ms start rstop rest :
  0 < w -> fc_reach code_fc_base w s -> 0 < ms ->
  s_pending (n_send (f_net s)) = (start, rstop) :: rest -> start < s_highest (n_send (f_net s)) ->
  exists d fin s', fc_step code_fc_base s (FEmit ms) = Some (FOk (OFrame start d fin), s') /\ 0 < Zlen d /\
    Zlen d = Z.min rstop (Z.min (start + ms) (s_highest (n_send (f_net s)) + (f_max s - f_used s))) - start /\
    (start + Zlen d <= s_highest (n_send (f_net s)) -> f_used s' = f_used s).
Proof.
  intros Hw R Hm Hp Hs.
  destruct (retransmission_needs_no_credit w s ms start rstop rest Hw R Hm Hp Hs) as (d & fin & s' & H1 & H2 & H3 & _ & H5).
  exists d, fin, s'. auto.
Qed.

Lemma no_flow_control_error_code w s op o s' : 0 < w -> fc_reach code_fc_base w s ->
  fc_step code_fc_base s op = Some (o, s') -> o <> FFlowControlError.
Proof. exact (no_flow_control_error w s op o s'). Qed.

Lemma fair_schedule_completes_fc_code w s ms : 0 < w -> fc_reach code_fc_base w s -> 0 < ms ->
  exists s', run_fc code_fc_base s (fc_complete code_fc_base ms s) = Some s' /\
    n_written (f_net s') = n_written (f_net s) /\ n_dbytes (f_net s') = n_written (f_net s) /\
    (eof (f_net s) -> n_ends (f_net s') = 1 /\ s_finished (n_send (f_net s')) = true) /\
    (~ eof (f_net s) -> n_ends (f_net s') = 0 /\ s_finished (n_send (f_net s')) = false).
Proof. exact (fair_schedule_completes_fc w s ms). Qed.
