(* Proofs about the anti-amplification ledger model (coq/model/Amplification.v). *)
From Coq Require Import ZArith List Bool Lia ZifyBool.
From AQ Require Import lib.Base lib.Tok gen.C13Consts model.Builder model.Amplification proofs.BuilderProofs.
Import ListNotations.
Open Scope Z_scope.

Section Amp.
(* the ledger invariant of one path: while it is unvalidated, sent <= 3 * received *)
Definition P (p : path) : Prop :=
  pa_valid p = false -> pa_sent p <= AMPLIFICATION_FACTOR * pa_recv p.

Lemma find_path_P a ps p : Forall P ps -> find_path a ps = Some p -> P p.
Proof.
  induction 1 as [|x l Hx Hl IH]; simpl; [discriminate|].
  destruct (pa_addr x =? a); [intros E; inversion E; subst; auto|auto].
Qed.

Lemma update_path_P q ps : Forall P ps -> P q -> Forall P (update_path q ps).
Proof.
  induction 1 as [|x l Hx Hl IH]; simpl; intros Hq; [constructor|].
  destruct (pa_addr x =? pa_addr q); constructor; auto.
Qed.

Lemma remove_path_P a ps : Forall P ps -> Forall P (remove_path a ps).
Proof.
  induction 1 as [|x l Hx Hl IH]; simpl; [constructor|].
  destruct (pa_addr x =? a); auto.
Qed.

Lemma validate_P a ps : Forall P ps -> Forall P (validate a ps).
Proof.
  unfold validate. intros H. destruct (find_path a ps); auto.
  apply update_path_P; auto. unfold P; simpl; discriminate.
Qed.

Lemma apply_fate_P ps cur f ps' cur' :
  Forall P ps -> P cur -> apply_fate ps cur f = (ps', cur') -> Forall P ps' /\ P cur'.
Proof.
  intros Hps Hc E. destruct f as [| |hs promote resp]; simpl in E.
  - inversion E; subst; auto.
  - inversion E; subst; auto.
  - set (ps1 := match resp with Some a => validate a ps | None => ps end) in *.
    assert (H1 : Forall P ps1) by (unfold ps1; destruct resp; auto using validate_P).
    set (c1 := match resp with
               | Some a => if a =? pa_addr cur then mkPath (pa_addr cur) (pa_recv cur) (pa_sent cur) true else cur
               | None => cur end) in *.
    assert (Hc1 : P c1) by (unfold c1; destruct resp; auto; destruct (_ =? _); auto; unfold P; simpl; discriminate).
    set (c2 := if negb (pa_valid c1) && hs then mkPath (pa_addr c1) (pa_recv c1) (pa_sent c1) true else c1) in *.
    assert (Hc2 : P c2) by (unfold c2; destruct (_ && _); auto; unfold P; simpl; discriminate).
    set (ps2 := match find_path (pa_addr c2) ps1 with Some _ => update_path c2 ps1 | None => ps1 ++ [c2] end) in *.
    assert (H2 : Forall P ps2).
    { unfold ps2; destruct (find_path _ _); [apply update_path_P; auto|apply Forall_app; auto]. }
    inversion E; subst; clear E. split; auto.
    destruct (head_addr ps2) as [z|]; auto. destruct (negb (z =? pa_addr c2) && promote); auto.
    constructor; auto using remove_path_P.
Qed.

Lemma apply_fates_P fs : forall ps cur, Forall P ps -> P cur -> Forall P (apply_fates ps cur fs).
Proof.
  induction fs as [|f t IH]; intros ps cur Hps Hc; simpl; auto.
  destruct (apply_fate ps cur f) as [ps' cur'] eqn:E.
  destruct (apply_fate_P _ _ _ _ _ Hps Hc E). auto.
Qed.

Lemma recv_P ps addr n fs : Forall P ps -> 0 <= n -> Forall P (recv ps addr n fs).
Proof.
  intros Hps Hn. unfold recv.
  set (c0 := match find_path addr ps with Some p => p | None => mkPath addr 0 0 false end).
  assert (H0 : P c0).
  { unfold c0. destruct (find_path addr ps) eqn:F; [eapply find_path_P; eauto|]. unfold P, AMPLIFICATION_FACTOR; cbn [pa_valid pa_sent pa_recv]; lia. }
  set (c1 := if pa_valid c0 then c0 else mkPath (pa_addr c0) (pa_recv c0 + n) (pa_sent c0) (pa_valid c0)).
  assert (H1 : P c1).
  { unfold c1. destruct (pa_valid c0) eqn:V; auto. unfold P in *; cbn [pa_valid pa_sent pa_recv]. intros _.
    specialize (H0 V). unfold AMPLIFICATION_FACTOR in *. lia. }
  apply apply_fates_P; auto. destruct (find_path addr ps); auto using update_path_P.
Qed.

Lemma send_P ps lens :
  Forall P ps ->
  (forall mt, budget ps = Some mt -> zsum lens <= Z.max 0 mt) ->
  Forall P (send_lens ps lens).
Proof.
  intros Hps Hb. destruct ps as [|p t]; simpl; auto.
  inversion Hps; subst. constructor; auto.
  unfold P in *; cbn [pa_valid pa_sent pa_recv budget] in *. intros V. rewrite V in Hb. specialize (Hb _ eq_refl).
  specialize (H1 V). unfold AMPLIFICATION_FACTOR in *. lia.
Qed.
End Amp.

(* CID / token lengths are lengths; the CryptoPair can encrypt every packet that fits a datagram (see crypto_fits) *)
Definition wf_acfg (a : acfg) : Prop :=
  0 <= a_peer a /\ 0 <= a_host a /\ 0 <= a_token a /\
  match a_cmax a with Some m => a_mds a <= m | None => True end.

Definition no_close (l : list aop) : bool := negb (existsb is_close l).

Lemma round_bound a mf mt ops :
  wf_acfg a ->
  disciplined (bcfg a mf (Some mt)) (init_st (bcfg a mf (Some mt)) 0) (ops ++ [OpFlush]) = true ->
  zsum (round_lens a mf (Some mt) ops) <= Z.max 0 mt.
Proof. intros (?&?&?&?) HD. unfold round_lens. apply total_le_budget_strict; auto; unfold wf_cfg, crypto_fits, bcfg; cbn; auto. Qed.

(* amplification_bound (strict): for every connection configuration (any max_datagram_size, CID lengths), every
   history of receive / send rounds / terminations in which send rounds respect the caller discipline and no round is
   taken through the unbudgeted _close_pending branch: every unvalidated path satisfies
   bytes_sent <= 3 * bytes_received at all times.  (Before fix e93c691 only "+ 1" held.) *)
Theorem amplification_bound_strict :
  forall (a : acfg) (l : list aop) (s : ast),
    wf_acfg a -> Forall P (as_paths s) -> aok a s l = true -> no_close l = true ->
    Forall P (as_paths (arun a s l)).
Proof.
  intros a l. induction l as [|o t IH]; intros s Hw HP Hok Hnc; simpl; auto.
  simpl in Hok. apply andb_true_iff in Hok. destruct Hok as [Ho Ht].
  unfold no_close in *. simpl in Hnc. rewrite negb_orb in Hnc. apply andb_true_iff in Hnc. destruct Hnc as [Hc Hnt].
  apply IH; auto.
  unfold astep, aop_ok in *. destruct (as_closed s); auto. simpl in Ho.
  destruct o; simpl in *; try discriminate; auto.
  - apply recv_P; auto; lia.
  - apply send_P; auto. intros mt Hb. rewrite Hb in *. apply round_bound; auto.
Qed.

(* initial states: a server has no path yet; a client starts with its (validated) connect address *)
Lemma P_nil : Forall P [].
Proof. constructor. Qed.
Lemma P_client addr : Forall P [mkPath addr 0 0 true].
Proof. constructor; [unfold P; simpl; discriminate|constructor]. Qed.

(* The history that reached received = 1200, sent = 3601 before fix e93c691 (a last 1-RTT packet carrying a single
   PING when exactly header + 1 + tag bytes of budget remain): the PING is now refused, 3572 bytes are sent. *)
Definition w_acfg : acfg := mkAcfg false 1200 8 8 0 (Some 1500).
Definition full_1rtt (n : Z) : list op := [OpStartPacket PT_ONE_RTT; OpStartFrame 8 4; OpPush n].
Definition w_hist : list aop :=
  [ARecv 1 1200 [FFirst; FProcess false false None];
   ASend None (full_1rtt 1172 ++ full_1rtt 1172 ++ full_1rtt 1144);
   ASend None [OpStartPacket PT_ONE_RTT; OpStartFrame FT_PING 1]].

Example former_amplification_witness_now_stops :
  wf_acfg w_acfg /\ aok w_acfg (mkAst [] false) w_hist = true /\ no_close w_hist = true /\
  as_paths (arun w_acfg (mkAst [] false) w_hist) = [mkPath 1 1200 3572 false].
Proof.
  split; [unfold wf_acfg; cbn; lia|]. split; [vm_compute; reflexivity|]. split; vm_compute; reflexivity.
Qed.

(* the bound is tight: a history reaching sent = 3 * received exactly *)
Example amplification_bound_tight :
  let l := [ARecv 1 1200 [FFirst; FProcess false false None];
            ASend None (full_1rtt 1172 ++ full_1rtt 1172 ++ full_1rtt 1172)] in
  aok w_acfg (mkAst [] false) l = true /\ no_close l = true /\
  as_paths (arun w_acfg (mkAst [] false) l) = [mkPath 1 1200 3600 false].
Proof. repeat split; vm_compute; reflexivity. Qed.

(* The _close_pending branch sets no budget: with it the bound fails by more than the slack. *)
Definition w_close : list aop :=
  [ARecv 1 1200 [FFirst; FProcess false false None];
   ASend None (full_1rtt 1172 ++ full_1rtt 1172 ++ full_1rtt 1172);
   AClose [OpStartPacket PT_ONE_RTT; OpStartFrame 28 4; OpPush 20]].

Theorem amplification_close_refuted :
  exists (a : acfg) (l : list aop),
    wf_acfg a /\ aok a (mkAst [] false) l = true /\
    as_paths (arun a (mkAst [] false) l) = [mkPath 1 1200 3648 false].
Proof.
  exists w_acfg, w_close. split; [unfold wf_acfg; cbn; lia|]. split; vm_compute; reflexivity.
Qed.

Example amplification_hyps_satisfiable :
  aok w_acfg (mkAst [] false) (firstn 2 w_hist) = true /\
  no_close (firstn 2 w_hist) = true /\ as_paths (arun w_acfg (mkAst [] false) (firstn 2 w_hist)) = [mkPath 1 1200 3572 false].
Proof. repeat split; vm_compute; reflexivity. Qed.
