(* Proofs about model/AckQueue.v, part 1: reachability, the soundness invariant (ack_queue and every ACK frame
   written list only recorded packet numbers; the frame decodes to exactly the ranges it was built from), and the
   writer: it never raises and the frame fits the capacity it reserved. *)
From Coq Require Import ZArith List Bool Lia ZifyBool.
From AQ Require Import lib.Base lib.Tok model.Codec model.Varint model.RangeSet model.AckFrame gen.C12Consts
  model.AckQueue proofs.CodecProofs proofs.VarintProofs proofs.RangeSetP proofs.AckFrameProofs.

(* the two behaviours probed from the source stay symbolic in every proof: all lemmas hold for both values *)
Global Opaque CAP_ACK_NOW PACING_LE.

Definition pn_ok (x : Z) : Prop := 0 <= x < 2 ^ 62.

(* what an op sequence must satisfy to be a behaviour of the code: packet numbers are what decode_packet_number
   can return, an acknowledged ACK frame is one that was written (premise from C08: delivery handlers run for
   packets that were sent), and only Initial / Handshake spaces are ever discarded *)
Definition wf_op (s : space) (o : op) : Prop :=
  match o with
  | Recv pn _ _ _ dels _ => pn_ok pn /\ forall h, In h dels -> exists q, In (q, h) (frames s)
  | Discard => app s = false
  | _ => True
  end.

Inductive reach (a : bool) : space -> Prop :=
| reach_init : reach a (init a)
| reach_step s o : reach a s -> wf_op s o -> reach a (snd (step s o)).

(* ---- cap loop ---------------------------------------------------------------------------- *)
Lemma wf_tail r t : wf (r :: t) -> wf t.
Proof. destruct r as [s e]. cbn. intros (_ & _ & H). eapply wf_from_wf; eauto. Qed.

Lemma MAX_pos : 1 <= MAX_ACK_RANGES.
Proof. unfold MAX_ACK_RANGES. lia. Qed.

Lemma cap_loop_spec fuel : forall q, (length q <= fuel)%nat -> wf q ->
  wf (cap_loop fuel q) /\ (forall x, mem x (cap_loop fuel q) -> mem x q) /\
  Zlen (cap_loop fuel q) <= MAX_ACK_RANGES /\ (q <> [] -> cap_loop fuel q <> []) /\
  (Zlen q <= MAX_ACK_RANGES -> cap_loop fuel q = q).
Proof.
  induction fuel as [|f IH]; intros q Hl W.
  - destruct q; [|cbn in Hl; lia]. cbn. pose proof MAX_pos. unfold Zlen; cbn. repeat split; auto; lia.
  - cbn [cap_loop]. destruct (Zlen q >? MAX_ACK_RANGES) eqn:E.
    + destruct q as [|r t]; [unfold Zlen in E; cbn in E; pose proof MAX_pos; lia|].
      destruct (IH t ltac:(cbn in Hl; lia) (wf_tail _ _ W)) as (A & B & C & D & _).
      repeat split; auto.
      * intros x Hx. destruct r as [s e]. cbn. right. auto.
      * intros _. apply D. intros ->. rewrite Zlen_cons in E. unfold Zlen in E; cbn in E. pose proof MAX_pos. lia.
      * intros H. lia.
    + repeat split; auto. lia.
Qed.

Lemma cap_ranges_spec q : wf q ->
  wf (cap_ranges q) /\ (forall x, mem x (cap_ranges q) -> mem x q) /\
  Zlen (cap_ranges q) <= MAX_ACK_RANGES /\ (q <> [] -> cap_ranges q <> []) /\
  (Zlen q <= MAX_ACK_RANGES -> cap_ranges q = q).
Proof. intros W. apply cap_loop_spec; auto. Qed.

(* ---- deliveries ----------------------------------------------------------------------------- *)
Lemma deliver_spec q h q' : wf q -> deliver q h = Ok q' ->
  wf q' /\ forall x, mem x q' <-> (mem x q /\ ~ (0 <= x <= h)).
Proof.
  unfold deliver. intros W. destruct (h + 1 >? 0) eqn:E; [|discriminate]. intros H; inversion H; subst; clear H.
  split; [apply subtract_wf; auto; lia|]. intros x. rewrite subtract_mem by (auto; lia). split; intros [A B]; split; auto; lia.
Qed.

Lemma delivers_spec hs : forall q q', wf q -> delivers q hs = Ok q' ->
  wf q' /\ (forall x, mem x q' -> mem x q) /\
  (forall x, mem x q -> (forall h, In h hs -> h < x) -> mem x q').
Proof.
  induction hs as [|h t IH]; intros q q' W H; cbn in H.
  - inversion H; subst. repeat split; auto.
  - destruct (deliver q h) as [q1|] eqn:E; [|discriminate]. cbn in H.
    destruct (deliver_spec _ _ _ W E) as (W1 & M1). destruct (IH _ _ W1 H) as (W2 & A & B).
    repeat split; auto.
    + intros x Hx. apply A in Hx. apply M1 in Hx. tauto.
    + intros x Hx Hh. apply B; [|intros; apply Hh; right; auto]. apply M1. split; auto.
      specialize (Hh h (or_introl eq_refl)). lia.
Qed.

Lemma delivers_ok hs : forall q, (forall h, In h hs -> 0 <= h) -> exists q', delivers q hs = Ok q'.
Proof.
  induction hs as [|h t IH]; intros q H; cbn; [eauto|].
  unfold deliver. specialize (H h (or_introl eq_refl)) as H0. destruct (h + 1 >? 0) eqn:E; [|lia]. cbn.
  apply IH. intros; apply H; right; auto.
Qed.

(* ---- the invariant ---------------------------------------------------------------------------- *)
Record Inv0 (s : space) : Prop := mkInv0 {
  i_wf : wf (aq s);
  i_sub : forall x, mem x (aq s) -> In x (rcvd s);
  i_rcvd : forall x, In x (rcvd s) -> pn_ok x /\ x <= lrp s;
  i_disc : disc s = true -> ack_at s = None;
  i_frames : forall q h, In (q, h) (frames s) -> 0 <= h <= lrp s /\ forall x, mem x q -> In x (rcvd s);
  i_lrp : -1 <= lrp s
}.
(* an armed ACK timer always has something to report (so push_ack_frame never meets an empty RangeSet) *)
Definition NonEmpty (s : space) : Prop := closing s = false -> ack_at s <> None -> aq s <> [].
Definition Inv (s : space) : Prop := Inv0 s /\ NonEmpty s.

Lemma inv_init a : Inv (init a).
Proof. split; [constructor|intros _]; cbn; try tauto; try lia; try congruence. Qed.

Lemma add_nonempty a b q : add a b q <> [].
Proof.
  destruct q as [|[s e] t]; cbn; [congruence|].
  destruct (b <? s); [congruence|]. destruct (a >? e); [congruence|]. destruct (absorb (Z.max b e) t). congruence.
Qed.

Lemma inv_record s pn elic t d : Inv0 s -> pn_ok pn -> Inv0 (record s pn elic t d).
Proof.
  intros I Hp. unfold record. destruct (disc s) eqn:D; [exact I|].
  destruct I as [W Sb R Dc Fr L].
  constructor; cbn [aq rcvd lrp ack_at disc closing frames].
  - apply add_wf; auto; lia.
  - intros x Hx. apply add_mem in Hx; auto; try lia. destruct Hx as [Hx|Hx]; [left; lia|right; auto].
  - intros x [Hx|Hx].
    + subst. split; auto. destruct (x >? lrp s) eqn:E; lia.
    + destruct (R x Hx). split; auto. destruct (pn >? lrp s) eqn:E; lia.
  - congruence.
  - intros q h Hq. destruct (Fr q h Hq) as (A & B). split; [destruct (pn >? lrp s) eqn:E; lia|]. intros x Hx; right; auto.
  - destruct (pn >? lrp s) eqn:E; lia.
Qed.

Lemma nonempty_record s pn elic t d : Inv0 s -> NonEmpty (record s pn elic t d).
Proof.
  intros I. unfold record, NonEmpty. destruct (disc s) eqn:D.
  - intros _ H. rewrite (i_disc _ I D) in H. congruence.
  - cbn. intros _ _. apply add_nonempty.
Qed.

Lemma inv_recv s pn elic t d dels ok s' : Inv s -> wf_op s (Recv pn elic t d dels ok) ->
  recv s pn elic t d dels ok = Ok s' -> Inv s'.
Proof.
  intros [I _] (Hp & Hd) H. unfold recv in H. destruct (delivers (aq s) dels) as [q|] eqn:E; [|discriminate]. cbn in H.
  inversion H; subst; clear H.
  destruct (delivers_spec _ _ _ (i_wf _ I) E) as (W & A & _).
  assert (I1 : Inv0 (set_clk (set_aq s q) t)).
  { destruct I as [W0 Sb R Dc Fr L]. constructor; cbn; auto. }
  destruct (ok && negb (closing s)).
  - split; [apply inv_record; auto|apply nonempty_record; auto].
  - split; [destruct I1; constructor; cbn; auto|]. unfold NonEmpty. cbn. congruence.
Qed.

(* a delivery never raises: the handler argument of a written frame is >= 0 *)
Lemma recv_never_raises0 s pn elic t d dels ok : Inv0 s -> wf_op s (Recv pn elic t d dels ok) ->
  exists s', recv s pn elic t d dels ok = Ok s'.
Proof.
  intros I (Hp & Hd). unfold recv.
  destruct (delivers_ok dels (aq s)) as [q E].
  { intros h Hh. destruct (Hd h Hh) as [q Hq]. destruct (i_frames _ I q h Hq). lia. }
  rewrite E. cbn. eauto.
Qed.

Lemma recv_never_raises s pn elic t d dels ok : Inv s -> wf_op s (Recv pn elic t d dels ok) ->
  exists s', recv s pn elic t d dels ok = Ok s'.
Proof. intros [I _]. apply recv_never_raises0. exact I. Qed.

(* ---- the writer -------------------------------------------------------------------------------- *)
Lemma w_chunks_flatten cs : forall cap data r, w_chunks cap data cs = Ok r ->
  exists b, flatten cs = Ok b /\ r = data ++ b.
Proof.
  induction cs as [|[bs|k] t IH]; intros cap data r H; cbn in H |- *.
  - inversion H; subst. exists []. now rewrite app_nil_r.
  - destruct (Zlen data + Zlen bs >? cap); [discriminate|].
    destruct (IH _ _ _ H) as (b & F & ->). rewrite F. cbn. exists (bs ++ b). now rewrite app_assoc.
  - discriminate.
Qed.

Lemma flatten_w_chunks cs : forall cap data b, flatten cs = Ok b -> Zlen data + Zlen b <= cap ->
  w_chunks cap data cs = Ok (data ++ b).
Proof.
  induction cs as [|[bs|k] t IH]; intros cap data b H Hl; cbn in H |- *.
  - inversion H; subst. now rewrite app_nil_r.
  - destruct (flatten t) as [r|] eqn:F; [|discriminate]. cbn in H. inversion H; subst; clear H.
    rewrite Zlen_app in Hl. pose proof (Zlen_nonneg r).
    destruct (Zlen data + Zlen bs >? cap) eqn:E; [lia|].
    rewrite (IH cap (data ++ bs) r eq_refl) by (rewrite Zlen_app; lia). now rewrite app_assoc.
  - discriminate.
Qed.

(* every chunk of the ACK encoder is a push_uint_var, and a varint is at most 8 bytes *)
Lemma push_uint_var_len v bs : push_uint_var v = Ok bs -> Zlen bs <= UINT_VAR_MAX_SIZE.
Proof.
  unfold push_uint_var, UINT_VAR_MAX_SIZE. intros H.
  repeat match type of H with (if ?c then _ else _) = _ => destruct c end; inversion H; subst;
    unfold Zlen; cbn [be_enc with_prefix length]; lia.
Qed.

Definition is_pv (c : chunk) : Prop := exists v, c = push_uint_var v.

Lemma flatten_pv_len cs : forall b, Forall is_pv cs -> flatten cs = Ok b -> Zlen b <= UINT_VAR_MAX_SIZE * Zlen cs.
Proof.
  induction cs as [|c t IH]; intros b Hf H.
  - cbn in H. inversion H. unfold Zlen; cbn. lia.
  - inversion Hf as [|? ? [v Hv] Ht]; subst. cbn in H. destruct (push_uint_var v) as [bs|] eqn:E; [|discriminate].
    destruct (flatten t) as [r|] eqn:F; [|discriminate]. cbn in H. inversion H; subst.
    rewrite Zlen_app, Zlen_cons. pose proof (push_uint_var_len _ _ E). specialize (IH r Ht eq_refl). lia.
Qed.

Lemma push_ack_ranges_pv d : forall start, Forall is_pv (push_ack_ranges start d) /\
  Zlen (push_ack_ranges start d) = 2 * Zlen d.
Proof.
  induction d as [|[s e] t IH]; intros start; cbn [push_ack_ranges].
  - split; [constructor|reflexivity].
  - destruct (IH s) as (A & B). split; [repeat constructor; auto; eexists; reflexivity|].
    rewrite !Zlen_cons, B. lia.
Qed.

Lemma push_ack_frame_pv l delay : l <> [] -> Forall is_pv (push_ack_frame l delay) /\
  Zlen (push_ack_frame l delay) = 4 + 2 * (Zlen l - 1).
Proof.
  intros N. unfold push_ack_frame.
  assert (Zl : Zlen (rev l) = Zlen l) by (unfold Zlen; now rewrite rev_length).
  destruct (rev l) as [|[s e] d] eqn:R.
  { destruct l; [congruence|]. cbn in R. destruct (rev l); discriminate. }
  destruct (push_ack_ranges_pv d s) as (A & B). split; [repeat constructor; auto; eexists; reflexivity|].
  rewrite !Zlen_cons, B. rewrite Zlen_cons in Zl. lia.
Qed.

(* wf + packet-number range = what the C17 round-trip theorem needs *)
Lemma wf_from_asc l : forall lo hi, wf_from (lo - 1) l -> (forall x, mem x l -> x < hi) -> asc lo l hi = true.
Proof.
  induction l as [|[s e] t IH]; intros lo hi W H; cbn [asc]; auto.
  cbn in W. destruct W as (A & B & C).
  assert (e - 1 < hi) by (apply H; cbn; left; lia).
  rewrite IH; [lia| |].
  - replace (e + 1 - 1) with e by lia. auto.
  - intros x Hx. apply H. cbn. right. auto.
Qed.

Lemma wf_ack_wf q : wf q -> q <> [] -> (forall x, mem x q -> pn_ok x) -> ack_wf q = true.
Proof.
  intros W N H. destruct q as [|[s e] t]; [congruence|]. unfold ack_wf.
  apply wf_from_asc.
  - cbn in W. eapply wf_from_weaken; [exact W|]. destruct W as (_ & B & _).
    assert (pn_ok s) by (apply H; cbn; left; lia). unfold pn_ok in *. lia.
  - intros x Hx. apply H in Hx. unfold pn_ok in Hx. lia.
Qed.

Lemma ft_ack_chunk : push_uint_var FT_ACK = Ok [FT_ACK].
Proof. reflexivity. Qed.

Lemma capacity_const : UINT_VAR_MAX_SIZE * 4 + 1 <= ACK_FRAME_CAPACITY /\ MIN_FRAME_CAPACITY <= ACK_FRAME_CAPACITY - 2 * UINT_VAR_MAX_SIZE.
Proof. unfold UINT_VAR_MAX_SIZE, ACK_FRAME_CAPACITY, MIN_FRAME_CAPACITY. lia. Qed.

(* the frame written for a well-formed non-empty queue: bytes, length, decoding *)
Lemma ack_frame_bytes q delay room : wf q -> q <> [] -> (forall x, mem x q -> pn_ok x) -> 0 <= delay < 2 ^ 62 ->
  ack_capacity q <= room ->
  exists body, w_chunks room [] (push_uint_var FT_ACK :: push_ack_frame q delay) = Ok (FT_ACK :: body) /\
    1 + Zlen body <= ack_capacity q /\
    forall rest, pull_ack_frame (body ++ rest) = Ok ((q, delay), rest).
Proof.
  intros W N H Hd Hr.
  destruct (ack_roundtrip q delay (wf_ack_wf _ W N H) Hd) as (body & F & P).
  destruct (push_ack_frame_pv q delay N) as (A & B).
  pose proof (flatten_pv_len _ _ A F) as Hl. rewrite B in Hl.
  pose proof capacity_const as (K1 & K2).
  assert (Hc : 1 + Zlen body <= ack_capacity q) by (unfold ack_capacity; lia).
  exists body. split; [|split; auto].
  rewrite (flatten_w_chunks _ room [] (FT_ACK :: body)).
  - reflexivity.
  - cbn [flatten]. rewrite ft_ack_chunk, F. reflexivity.
  - change (Zlen (@nil Z)) with 0. rewrite Zlen_cons. lia.
Qed.

(* ---- send preserves the invariant ------------------------------------------------------------ *)
Lemma inv0_set_aq s q : Inv0 s -> wf q -> (forall x, mem x q -> mem x (aq s)) -> Inv0 (set_aq s q).
Proof. intros [W Sb R Dc Fr L] Wq H. constructor; cbn; auto. Qed.

Lemma inv_write_ack s delay room r s' : Inv s -> write_ack s delay room = (r, s') -> Inv s'.
Proof.
  intros [I Ne] H. unfold write_ack in H.
  destruct (cap_ranges_spec (aq s) (i_wf _ I)) as (Wq & Mq & Lq & Nq & _).
  pose proof (inv0_set_aq s _ I Wq Mq) as I1.
  assert (Ne1 : NonEmpty (set_aq s (cap_ranges (aq s)))).
  { unfold NonEmpty in *. cbn. intros C A. apply Nq. auto. }
  destruct (room <? _); [inversion H; subst; split; auto|].
  destruct (w_chunks _ _ _) eqn:E; inversion H; subst; clear H; [|split; auto].
  assert (Hne : exists x, mem x (cap_ranges (aq s))).
  { destruct (cap_ranges (aq s)) as [|[s0 e0] t0] eqn:Q.
    - cbn in E. destruct (_ >? _) in E; discriminate.
    - exists s0. cbn. cbn in Wq. left. lia. }
  destruct Hne as [x0 Hx0].
  split.
  - destruct I as [W Sb R Dc Fr L]. constructor; cbn; auto.
    intros q h [Hq|Hq]; [|apply Fr; auto]. inversion Hq; subst. split.
    + destruct (R x0 (Sb _ (Mq _ Hx0))) as (P & Q). unfold pn_ok in P. lia.
    + intros x Hx. apply Sb, Mq, Hx.
  - unfold NonEmpty. cbn. congruence.
Qed.

Lemma inv_set_clk s t : Inv s -> Inv (set_clk s t).
Proof. intros [[W Sb R Dc Fr L] Ne]. split; [constructor; cbn; auto|exact Ne]. Qed.

Lemma inv_send s t delay room blocked r s' : Inv s -> send s t delay room blocked = (r, s') -> Inv s'.
Proof.
  intros I H. apply (inv_set_clk s t) in I. unfold send in H.
  destruct (closing (set_clk s t)); [inversion H; subst; auto|].
  destruct (disc (set_clk s t)); [inversion H; subst; auto|].
  destruct (app (set_clk s t)).
  - destruct (negb _ && blocked); [inversion H; subst; auto|].
    destruct (complete (set_clk s t)); [|inversion H; subst; auto].
    destruct (ack_at (set_clk s t)); [|inversion H; subst; auto].
    destruct (z <=? t); [|inversion H; subst; auto]. eapply inv_write_ack; eauto.
  - destruct (ack_at (set_clk s t)); [|inversion H; subst; auto]. eapply inv_write_ack; eauto.
Qed.

Lemma inv_step s o : Inv s -> wf_op s o -> Inv (snd (step s o)).
Proof.
  intros I Hw. destruct o; cbn [step].
  - destruct I as [[W Sb R Dc Fr L] Ne]. split; [constructor; cbn; auto|exact Ne].
  - destruct (recv_never_raises s pn elic t d dels ok I Hw) as [s' E]. rewrite E. cbn. eapply inv_recv; eauto.
  - destruct (send s t delay room blocked) as [r s'] eqn:E. cbn. eapply inv_send; eauto.
  - destruct I as [[W Sb R Dc Fr L] Ne]. split; [constructor; cbn; auto|]. unfold NonEmpty. cbn. congruence.
  - destruct I as [[W Sb R Dc Fr L] Ne]. split; [constructor; cbn; auto|]. unfold NonEmpty. cbn. congruence.
Qed.

Lemma reach_inv a s : reach a s -> Inv s.
Proof. induction 1; [apply inv_init|apply inv_step; auto]. Qed.

(* ---- C12 statements, part 1 --------------------------------------------------------------------- *)

(* ack_sound (queue): whatever the arrival order, duplicates, losses, acknowledgements of our ACKs, discards:
   the ack_queue only ever holds packet numbers that were recorded (decrypted and processed) in this space *)
Theorem ack_sound_queue_l a s : reach a s -> forall x, mem x (aq s) -> In x (rcvd s).
Proof. intros R. apply (reach_inv _ _ R). Qed.

(* no operation raises on a reachable state: deliveries (subtract's assert) ... *)
Theorem recv_total_l a s pn elic t d dels ok : reach a s -> wf_op s (Recv pn elic t d dels ok) ->
  exists s', recv s pn elic t d dels ok = Ok s'.
Proof. intros R. apply recv_never_raises. apply (reach_inv _ _ R). Qed.

(* ... and a frame that is written lists only recorded packet numbers, starts with the ACK frame type, fits the
   capacity reserved for it (hence the room checked by start_frame) and decodes -- through the C17 codec model --
   to exactly the ranges it was built from, which are the queue after the MAX_ACK_RANGES cap *)
Theorem ack_sound_frame_l a s t delay room blocked bytes q s' : reach a s -> 0 <= delay < 2 ^ 62 ->
  send s t delay room blocked = (SFrame bytes q, s') ->
  q = cap_ranges (aq s) /\ (forall x, mem x q -> In x (rcvd s)) /\ Zlen q <= MAX_ACK_RANGES /\ exists body, bytes = FT_ACK :: body /\ Zlen bytes <= ack_capacity q /\ ack_capacity q <= room /\ forall rest, pull_ack_frame (body ++ rest) = Ok ((q, delay), rest).
Proof.
  intros R Hd H. pose proof (reach_inv _ _ R) as [I Ne].
  assert (K : forall s0, aq s0 = aq s -> rcvd s0 = rcvd s -> write_ack s0 delay room = (SFrame bytes q, s') ->
    q = cap_ranges (aq s) /\ (forall x, mem x q -> In x (rcvd s)) /\ Zlen q <= MAX_ACK_RANGES /\ exists body, bytes = FT_ACK :: body /\ Zlen bytes <= ack_capacity q /\ ack_capacity q <= room /\ forall rest, pull_ack_frame (body ++ rest) = Ok ((q, delay), rest)).
  { intros s0 Ea Er Hw. unfold write_ack in Hw. rewrite Ea in Hw.
    destruct (cap_ranges_spec (aq s) (i_wf _ I)) as (Wq & Mq & Lq & Nq & _).
    pose proof capacity_const as (K1 & K2).
    destruct (room <? _) eqn:E1; [discriminate|].
    destruct (w_chunks _ _ _) as [bs|] eqn:E2; [|discriminate]. inversion Hw; subst; clear Hw.
    assert (N : cap_ranges (aq s) <> []).
    { intros E0. rewrite E0 in E2. cbn in E2. destruct (_ >? _) in E2; discriminate. }
    assert (Hr : ack_capacity (cap_ranges (aq s)) <= room) by lia.
    assert (Hp : forall x, mem x (cap_ranges (aq s)) -> pn_ok x).
    { intros x Hx. apply (i_rcvd _ I), (i_sub _ I), Mq, Hx. }
    destruct (ack_frame_bytes _ delay room Wq N Hp Hd Hr) as (body & B1 & B2 & B3).
    rewrite B1 in E2. inversion E2; subst.
    repeat split; auto.
    - intros x Hx. apply (i_sub _ I), Mq, Hx.
    - exists body. rewrite Zlen_cons. repeat split; auto. }
  unfold send in H.
  destruct (closing (set_clk s t)); [discriminate|].
  destruct (disc (set_clk s t)); [discriminate|].
  destruct (app (set_clk s t)).
  - destruct (negb _ && blocked); [discriminate|].
    destruct (complete (set_clk s t)); [|discriminate].
    destruct (ack_at (set_clk s t)); [|discriminate].
    destruct (z <=? t); [|discriminate]. apply (K (set_clk s t)); [reflexivity|reflexivity|exact H].
  - destruct (ack_at (set_clk s t)); [|discriminate]. apply (K (set_clk s t)); [reflexivity|reflexivity|exact H].
Qed.

(* ack_frame_fits / the writer never raises: on every reachable state, for every encodable delay and ANY room,
   the ACK part of datagrams_to_send ends without an exception (IndexError on an empty queue, BufferWriteError
   past the reserved capacity, ValueError of push_uint_var cannot occur) *)
Lemma send_never_raises_inv s t delay room blocked : Inv s -> 0 <= delay < 2 ^ 62 ->
  forall k, fst (send s t delay room blocked) <> SExn k.
Proof.
  intros [I Ne] Hd k.
  assert (K : forall s0, aq s0 = aq s -> aq s <> [] -> fst (write_ack s0 delay room) <> SExn k).
  { intros s0 Ea Hne. unfold write_ack. rewrite Ea.
    destruct (cap_ranges_spec (aq s) (i_wf _ I)) as (Wq & Mq & Lq & Nq & _).
    pose proof capacity_const as (K1 & K2).
    destruct (room <? _) eqn:E1; [cbn; congruence|].
    assert (Hr : ack_capacity (cap_ranges (aq s)) <= room) by lia.
    assert (Hp : forall x, mem x (cap_ranges (aq s)) -> pn_ok x).
    { intros x Hx. apply (i_rcvd _ I), (i_sub _ I), Mq, Hx. }
    destruct (ack_frame_bytes _ delay room Wq (Nq Hne) Hp Hd Hr) as (body & B1 & _).
    rewrite B1. cbn. congruence. }
  unfold send.
  destruct (closing (set_clk s t)) eqn:C; [cbn; congruence|].
  destruct (disc (set_clk s t)); [cbn; congruence|].
  destruct (app (set_clk s t)).
  - destruct (negb _ && blocked); [cbn; congruence|].
    destruct (complete (set_clk s t)); [|cbn; congruence].
    destruct (ack_at (set_clk s t)) eqn:A; [|cbn; congruence].
    destruct (z <=? t); [|cbn; congruence]. apply (K (set_clk s t)); [reflexivity|].
    apply Ne; [exact C|]. cbn in A. congruence.
  - destruct (ack_at (set_clk s t)) eqn:A; [|cbn; congruence]. apply (K (set_clk s t)); [reflexivity|].
    apply Ne; [exact C|]. cbn in A. congruence.
Qed.

Theorem ack_writer_never_raises_l a s t delay room blocked : reach a s -> 0 <= delay < 2 ^ 62 ->
  forall k, fst (send s t delay room blocked) <> SExn k.
Proof. intros R. apply send_never_raises_inv. apply (reach_inv _ _ R). Qed.

(* get_timer() never exceeds a pending ack_at (nor _close_at) *)
Lemma tmin_le cur src : tmin cur src <= cur.
Proof. unfold tmin. destruct src; [destruct (z <? cur) eqn:E; lia|lia]. Qed.

Lemma fold_tmin_le srcs : forall cur, fold_left tmin srcs cur <= cur.
Proof.
  induction srcs as [|x t IH]; intros cur; cbn; [lia|]. specialize (IH (tmin cur x)). pose proof (tmin_le cur x). lia.
Qed.

Theorem get_timer_le_l close_at srcs : get_timer close_at srcs <= close_at /\
  forall a, In (Some a) srcs -> get_timer close_at srcs <= a.
Proof.
  unfold get_timer. split; [apply fold_tmin_le|]. revert close_at.
  induction srcs as [|x t IH]; intros cur a H; [destruct H|]. cbn. destruct H as [->|H].
  - pose proof (fold_tmin_le t (tmin cur (Some a))). unfold tmin in *. destruct (a <? cur) eqn:E; lia.
  - apply IH; auto.
Qed.

(* the delay the endpoint uses is within the delay it advertises *)
Theorem ack_delay_within_advertised_l : 0 < ACK_DELAY_US <= ADV_MAX_ACK_DELAY_MS * 1000.
Proof. unfold ACK_DELAY_US, ADV_MAX_ACK_DELAY_MS. lia. Qed.

(* ---- non-vacuity ------------------------------------------------------------------------------- *)
(* packets 5, 3 (reordered), a duplicate of 5 and 9 arrive, an ACK is written, acknowledged by packet 10 *)
Definition ex_ops : list op :=
  [Complete; Recv 5 true 100 10 [] true; Recv 3 true 101 10 [] true; Recv 5 false 102 10 [] true;
   Recv 9 true 103 10 [] true; Send 110 1 1000 false; Recv 10 false 120 10 [9] true].

Fixpoint reach_run (s : space) (ops : list op) : Prop :=
  match ops with [] => True | o :: t => wf_op s o /\ reach_run (snd (step s o)) t end.

Lemma reach_run_reach a ops : forall s, reach a s -> reach_run s ops -> reach a (run s ops).
Proof.
  induction ops as [|o t IH]; intros s R H; cbn; auto. destruct H as (W & H). apply IH; auto. now apply reach_step.
Qed.

Example ex_reach : reach true (run (init true) ex_ops) /\
  aq (run (init true) [Complete; Recv 5 true 100 10 [] true; Recv 3 true 101 10 [] true; Recv 5 false 102 10 [] true;
                       Recv 9 true 103 10 [] true]) = [(3, 4); (5, 6); (9, 10)] /\
  fst (step (run (init true) [Complete; Recv 5 true 100 10 [] true; Recv 3 true 101 10 [] true;
                              Recv 5 false 102 10 [] true; Recv 9 true 103 10 [] true]) (Send 110 1 1000 false))
    = OSend (SFrame [2; 9; 1; 2; 0; 2; 0; 0; 0] [(3, 4); (5, 6); (9, 10)]) /\
  aq (run (init true) ex_ops) = [(10, 11)].
Proof.
  split; [|repeat split; reflexivity].
  apply reach_run_reach; [constructor|]. cbn. unfold pn_ok.
  repeat split; try lia; try tauto. intros h [<-|[]]. eexists. left. reflexivity.
Qed.
