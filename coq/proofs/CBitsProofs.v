(* C17: the C bit-level integer codecs (gen/C17Bits.v, generated from src/aioquic/_buffer.c) equal the
   arithmetic models of model/Codec.v / model/Varint.v; the signed intermediates of the C expressions stay
   in range (no undefined shift, conversions value-preserving). *)
From Coq Require Import ZArith List Bool Lia ZifyBool.
From AQ Require Import lib.Base model.Codec model.Varint gen.C17Bits proofs.CodecProofs proofs.VarintProofs.

(* ---- bit-level facts -------------------------------------------------------------------- *)
Lemma land_shl_small q b k : 0 <= k -> 0 <= b < 2 ^ k -> Z.land (q * 2 ^ k) b = 0.
Proof.
  intros Hk Hb. rewrite <- Z.shiftl_mul_pow2 by lia. apply Z.bits_inj'. intros n Hn.
  rewrite Z.land_spec, Z.bits_0.
  destruct (Z.ltb_spec n k).
  - rewrite Z.shiftl_spec_low by lia. reflexivity.
  - destruct (Z.eq_dec b 0) as [->|NZ]; [rewrite Z.bits_0; apply andb_false_r|].
    rewrite (Z.bits_above_log2 b n); [apply andb_false_r|lia|].
    apply Z.lt_le_trans with k; [|lia]. apply Z.log2_lt_pow2; lia.
Qed.

(* | over disjoint bit ranges is + *)
Lemma lor_add a b k q : 0 <= k -> a = q * 2 ^ k -> 0 <= b < 2 ^ k -> Z.lor a b = a + b.
Proof.
  intros Hk -> Hb. pose proof (land_shl_small q b k Hk Hb) as L.
  rewrite <- Z.lxor_lor by exact L. symmetry. apply Z.add_nocarry_lxor. exact L.
Qed.

Lemma land63 b : 0 <= b -> Z.land b 63 = b mod 64.
Proof. intros. change 63 with (Z.ones 6). rewrite Z.land_ones by lia. reflexivity. Qed.

Lemma shl_mul a k : 0 <= k -> Z.shiftl a k = a * 2 ^ k.
Proof. intros. apply Z.shiftl_mul_pow2. lia. Qed.

Lemma shr_div a k : 0 <= k -> Z.shiftr a k = a / 2 ^ k.
Proof. intros. apply Z.shiftr_div_pow2. lia. Qed.

(* byte k of v is byte k of v reduced modulo a larger power of 256 *)
Lemma byte_of_wrapped v a c : 0 < a -> 0 < c -> ((v mod (a * (256 * c))) / a) mod 256 = (v / a) mod 256.
Proof.
  intros Ha Hc. rewrite Z.rem_mul_r by lia.
  replace (v mod a + a * ((v / a) mod (256 * c))) with ((v / a) mod (256 * c) * a + v mod a) by lia.
  rewrite Z.div_add_l by lia. rewrite (Z.div_small (v mod a)) by (apply Z.mod_pos_bound; lia).
  rewrite Z.add_0_r. rewrite Z.rem_mul_r by lia.
  replace ((v / a) mod 256 + 256 * ((v / a / 256) mod c)) with ((v / a) mod 256 + ((v / a / 256) mod c) * 256) by lia.
  rewrite Z.mod_add by lia. apply Z.mod_mod. lia.
Qed.

Lemma low_byte_of_wrapped v c : 0 < c -> (v mod (256 * c)) mod 256 = v mod 256.
Proof.
  intros Hc. pose proof (byte_of_wrapped v 1 c ltac:(lia) Hc) as H.
  rewrite !Z.div_1_r, Z.mul_1_l in H. exact H.
Qed.

Lemma nth_byte bs k : bytes_ok bs -> 0 <= nth k bs 0 < 256.
Proof.
  intros H. destruct (Nat.lt_ge_cases k (length bs)) as [L|L].
  - unfold bytes_ok in H. rewrite Forall_forall in H. apply H, nth_In, L.
  - rewrite nth_overflow by exact L. lia.
Qed.

Lemma Zlen_lt_cons {A} (l : list A) n : 0 < n -> (Zlen l <? n) = false -> exists x t, l = x :: t /\ (Zlen t <? n - 1) = false.
Proof.
  intros Hn H. destruct l as [|x t]; [cbn in H; lia|]. exists x, t. split; [reflexivity|].
  unfold Zlen in *. cbn [length] in H. lia.
Qed.

(* ---- pull: the C expressions compute be_dec ------------------------------------------- *)
Ltac bytes_of H :=
  unfold bytes_ok in H;
  repeat match type of H with
         | Forall _ (_ :: _) => let Hb := fresh "Hb" in apply Forall_cons_iff in H; destruct H as [Hb H]; unfold byte_ok in Hb
         end.

Ltac pow2s :=
  change (2 ^ 6) with 64 in *; change (2 ^ 8) with 256 in *; change (2 ^ 16) with 65536 in *;
  change (2 ^ 24) with 16777216 in *; change (2 ^ 32) with 4294967296 in *;
  change (2 ^ 40) with 1099511627776 in *; change (2 ^ 48) with 281474976710656 in *;
  change (2 ^ 56) with 72057594037927936 in *; change (2 ^ 64) with 18446744073709551616 in *.

Ltac lor_to_add q k :=
  match goal with
  | |- context [Z.lor ?a ?b] =>
      lazymatch a with context [Z.lor _ _] => fail | _ => idtac end;
      rewrite (lor_add a b k q) by (pow2s; lia)
  end.

Lemma c16_value b0 b1 : 0 <= b0 < 256 -> 0 <= b1 < 256 ->
  u16 (Z.lor (Z.shiftl b0 8) b1) = (0 * 256 + b0) * 256 + b1.
Proof.
  intros. unfold u16. rewrite shl_mul by lia. lor_to_add b0 8. pow2s. rewrite Z.mod_small; lia.
Qed.

Lemma c32_value b0 b1 b2 b3 : 0 <= b0 < 256 -> 0 <= b1 < 256 -> 0 <= b2 < 256 -> 0 <= b3 < 256 ->
  Z.lor (Z.lor (Z.lor (u32 (Z.shiftl b0 24)) (u32 (Z.shiftl b1 16))) (u32 (Z.shiftl b2 8))) b3
  = (((0 * 256 + b0) * 256 + b1) * 256 + b2) * 256 + b3.
Proof.
  intros. unfold u32. rewrite !shl_mul by lia. pow2s. rewrite !Z.mod_small by lia.
  lor_to_add b0 24. lor_to_add (b0 * 256 + b1) 16. lor_to_add ((b0 * 256 + b1) * 256 + b2) 8. lia.
Qed.

Lemma c64_value b0 b1 b2 b3 b4 b5 b6 b7 :
  0 <= b0 < 256 -> 0 <= b1 < 256 -> 0 <= b2 < 256 -> 0 <= b3 < 256 ->
  0 <= b4 < 256 -> 0 <= b5 < 256 -> 0 <= b6 < 256 -> 0 <= b7 < 256 ->
  Z.lor (Z.lor (Z.lor (Z.lor (Z.lor (Z.lor (Z.lor (u64 (Z.shiftl b0 56)) (u64 (Z.shiftl b1 48)))
     (u64 (Z.shiftl b2 40))) (u64 (Z.shiftl b3 32))) (u64 (Z.shiftl b4 24))) (u64 (Z.shiftl b5 16)))
     (u64 (Z.shiftl b6 8))) b7
  = (((((((0 * 256 + b0) * 256 + b1) * 256 + b2) * 256 + b3) * 256 + b4) * 256 + b5) * 256 + b6) * 256 + b7.
Proof.
  intros. unfold u64. rewrite !shl_mul by lia. pow2s. rewrite !Z.mod_small by lia.
  lor_to_add b0 56. lor_to_add (b0 * 256 + b1) 48. lor_to_add ((b0 * 256 + b1) * 256 + b2) 40.
  lor_to_add (((b0 * 256 + b1) * 256 + b2) * 256 + b3) 32.
  lor_to_add ((((b0 * 256 + b1) * 256 + b2) * 256 + b3) * 256 + b4) 24.
  lor_to_add (((((b0 * 256 + b1) * 256 + b2) * 256 + b3) * 256 + b4) * 256 + b5) 16.
  lor_to_add ((((((b0 * 256 + b1) * 256 + b2) * 256 + b3) * 256 + b4) * 256 + b5) * 256 + b6) 8.
  lia.
Qed.

Ltac short_list bs :=
  let x := fresh "b" in destruct bs as [|x bs]; [reflexivity|].

Theorem c_pull_uint8_is_model bs : bytes_ok bs -> c_pull_uint8 bs = pull_uint8 bs.
Proof.
  intros H. unfold c_pull_uint8, pull_uint8, pull_be. change (Z.of_nat 1) with 1.
  destruct (Zlen bs <? 1) eqn:E; [reflexivity|].
  destruct bs as [|b0 t]; [discriminate|]. cbn [nth firstn skipn be_dec]. f_equal.
Qed.

Theorem c_pull_uint16_is_model bs : bytes_ok bs -> c_pull_uint16 bs = pull_uint16 bs.
Proof.
  intros H. unfold c_pull_uint16, pull_uint16, pull_be. change (Z.of_nat 2) with 2.
  destruct (Zlen bs <? 2) eqn:E; [reflexivity|].
  destruct bs as [|b0 [|b1 t]]; try discriminate. bytes_of H.
  cbn [nth firstn skipn be_dec]. rewrite c16_value by lia. reflexivity.
Qed.

Theorem c_pull_uint32_is_model bs : bytes_ok bs -> c_pull_uint32 bs = pull_uint32 bs.
Proof.
  intros H. unfold c_pull_uint32, pull_uint32, pull_be. change (Z.of_nat 4) with 4.
  destruct (Zlen bs <? 4) eqn:E; [reflexivity|].
  destruct bs as [|b0 [|b1 [|b2 [|b3 t]]]]; try discriminate. bytes_of H.
  cbn [nth firstn skipn be_dec]. rewrite c32_value by lia. reflexivity.
Qed.

Theorem c_pull_uint64_is_model bs : bytes_ok bs -> c_pull_uint64 bs = pull_uint64 bs.
Proof.
  intros H. unfold c_pull_uint64, pull_uint64, pull_be. change (Z.of_nat 8) with 8.
  destruct (Zlen bs <? 8) eqn:E; [reflexivity|].
  destruct bs as [|b0 [|b1 [|b2 [|b3 [|b4 [|b5 [|b6 [|b7 t]]]]]]]]; try discriminate. bytes_of H.
  cbn [nth firstn skipn be_dec]. rewrite c64_value by lia. reflexivity.
Qed.

(* the switch of Buffer_pull_uint_var: *pos >> 6 selects the length exactly as var_len does *)
Theorem c_pull_uint_var_is_model bs : bytes_ok bs -> c_pull_uint_var bs = pull_uint_var bs.
Proof.
  intros H. unfold c_pull_uint_var, pull_uint_var.
  destruct bs as [|b0 t]; [reflexivity|].
  assert (L1 : (Zlen (b0 :: t) <? 1) = false) by (unfold Zlen; cbn [length]; lia).
  rewrite L1. cbn [nth]. rewrite shr_div by lia. unfold var_len. pow2s. cbv zeta.
  pose proof H as H'. bytes_of H'.
  assert (M : 0 <= b0 mod 64 < 64) by (apply Z.mod_pos_bound; lia).
  destruct (b0 / 64 =? 0) eqn:E0.
  { change (Z.of_nat 1) with 1. rewrite L1. cbn [firstn skipn mask_first be_dec].
    rewrite land63 by lia. unfold u64. rewrite Z.mod_small by lia. reflexivity. }
  destruct (b0 / 64 =? 1) eqn:E1.
  { change (Z.of_nat 2) with 2. destruct (Zlen (b0 :: t) <? 2) eqn:E; [reflexivity|].
    destruct t as [|b1 t]; try discriminate. bytes_of H.
    cbn [nth firstn skipn mask_first be_dec]. rewrite land63 by lia.
    unfold u64, u16. rewrite (Z.mod_small (b0 mod 64)) by lia. rewrite shl_mul by lia.
    lor_to_add (b0 mod 64) 8. pow2s. rewrite Z.mod_small by lia. reflexivity. }
  destruct (b0 / 64 =? 2) eqn:E2.
  { change (Z.of_nat 4) with 4. destruct (Zlen (b0 :: t) <? 4) eqn:E; [reflexivity|].
    destruct t as [|b1 [|b2 [|b3 t]]]; try discriminate. bytes_of H.
    cbn [nth firstn skipn mask_first be_dec]. rewrite land63 by lia.
    replace (u32 (b0 mod 64)) with (b0 mod 64) by (unfold u32; symmetry; apply Z.mod_small; pow2s; lia).
    rewrite c32_value by lia. reflexivity. }
  change (Z.of_nat 8) with 8. destruct (Zlen (b0 :: t) <? 8) eqn:E; [reflexivity|].
  destruct t as [|b1 [|b2 [|b3 [|b4 [|b5 [|b6 [|b7 t]]]]]]]; try discriminate. bytes_of H.
  cbn [nth firstn skipn mask_first be_dec]. rewrite land63 by lia.
  replace (u64 (b0 mod 64)) with (b0 mod 64) by (unfold u64; symmetry; apply Z.mod_small; pow2s; lia).
  rewrite c64_value by lia. reflexivity.
Qed.

(* ---- push: the stored bytes are be_enc of the argument ---------------------------------- *)
Lemma be_enc_1 v : be_enc 1 v = [v mod 256].
Proof. cbn [be_enc]. change (256 ^ Z.of_nat 0) with 1. rewrite Z.div_1_r. reflexivity. Qed.

Theorem c_push_uint8_is_model v : c_push_uint8 v = push_uint8 v.
Proof. unfold c_push_uint8, push_uint8, u8. rewrite be_enc_1. reflexivity. Qed.

Theorem c_push_uint16_is_model v : c_push_uint16 v = push_uint16 v.
Proof.
  unfold c_push_uint16, push_uint16, u16, u8. cbn [be_enc]. rewrite shr_div by lia. f_equal.
  change (256 ^ Z.of_nat 1) with 256. change (256 ^ Z.of_nat 0) with 1. rewrite Z.div_1_r. pow2s.
  change 65536 with (256 * (256 * 1)) at 1. rewrite byte_of_wrapped by lia.
  change 65536 with (256 * 256). rewrite low_byte_of_wrapped by lia. reflexivity.
Qed.

Theorem c_push_uint32_is_model v : c_push_uint32 v = push_uint32 v.
Proof.
  unfold c_push_uint32, push_uint32, u32, u8. cbn [be_enc]. rewrite !shr_div by lia. f_equal.
  change (256 ^ Z.of_nat 3) with 16777216. change (256 ^ Z.of_nat 2) with 65536.
  change (256 ^ Z.of_nat 1) with 256. change (256 ^ Z.of_nat 0) with 1. rewrite Z.div_1_r. pow2s.
  change 4294967296 with (16777216 * (256 * 1)) at 1. rewrite byte_of_wrapped by lia.
  change 4294967296 with (65536 * (256 * 256)) at 1. rewrite byte_of_wrapped by lia.
  change 4294967296 with (256 * (256 * 65536)) at 1. rewrite byte_of_wrapped by lia.
  change 4294967296 with (256 * 16777216). rewrite low_byte_of_wrapped by lia. reflexivity.
Qed.

Lemma be_enc_8 v :
  be_enc 8 v = [(v / 72057594037927936) mod 256; (v / 281474976710656) mod 256; (v / 1099511627776) mod 256;
                (v / 4294967296) mod 256; (v / 16777216) mod 256; (v / 65536) mod 256; (v / 256) mod 256; v mod 256].
Proof. cbn [be_enc]. change (256 ^ Z.of_nat 0) with 1. rewrite Z.div_1_r. reflexivity. Qed.

Lemma c_bytes64 v :
  [u8 (Z.shiftr (u64 v) 56); u8 (Z.shiftr (u64 v) 48); u8 (Z.shiftr (u64 v) 40); u8 (Z.shiftr (u64 v) 32);
   u8 (Z.shiftr (u64 v) 24); u8 (Z.shiftr (u64 v) 16); u8 (Z.shiftr (u64 v) 8); u8 (u64 v)] = be_enc 8 v.
Proof.
  rewrite be_enc_8. unfold u64, u8. rewrite !shr_div by lia. pow2s.
  change 18446744073709551616 with (72057594037927936 * (256 * 1)) at 1. rewrite byte_of_wrapped by lia.
  change 18446744073709551616 with (281474976710656 * (256 * 256)) at 1. rewrite byte_of_wrapped by lia.
  change 18446744073709551616 with (1099511627776 * (256 * 65536)) at 1. rewrite byte_of_wrapped by lia.
  change 18446744073709551616 with (4294967296 * (256 * 16777216)) at 1. rewrite byte_of_wrapped by lia.
  change 18446744073709551616 with (16777216 * (256 * 4294967296)) at 1. rewrite byte_of_wrapped by lia.
  change 18446744073709551616 with (65536 * (256 * 1099511627776)) at 1. rewrite byte_of_wrapped by lia.
  change 18446744073709551616 with (256 * (256 * 281474976710656)) at 1. rewrite byte_of_wrapped by lia.
  change 18446744073709551616 with (256 * 72057594037927936). rewrite low_byte_of_wrapped by lia. reflexivity.
Qed.

Theorem c_push_uint64_is_model v : c_push_uint64 v = push_uint64 v.
Proof. unfold c_push_uint64, push_uint64. rewrite c_bytes64. reflexivity. Qed.

(* be_enc of a value already reduced modulo 2^64 (what Varint.push_uint_var encodes) *)
Lemma be_enc_small n v : 0 <= v < 256 ^ Z.of_nat n -> forall m, (n <= m)%nat ->
  be_enc m v = repeat 0 (m - n) ++ be_enc n v.
Proof.
  intros Hv m. induction m as [|m IH]; intros Hm.
  - assert (n = 0%nat) by lia. subst. reflexivity.
  - destruct (Nat.eq_dec n (S m)) as [->|NE]; [rewrite Nat.sub_diag; reflexivity|].
    replace (S m - n)%nat with (S (m - n)) by lia. cbn [be_enc repeat app]. rewrite IH by lia. f_equal.
    rewrite Z.div_small; [reflexivity|]. split; [lia|].
    apply Z.lt_le_trans with (256 ^ Z.of_nat n); [lia|]. apply Z.pow_le_mono_r; lia.
Qed.

Lemma lor_prefix x p k : 0 <= x < 2 ^ 6 -> 0 <= k < 4 -> p = k * 2 ^ 6 -> u8 (Z.lor x p) = x + p.
Proof.
  intros Hx Hk ->. rewrite Z.lor_comm. rewrite (lor_add (k * 2 ^ 6) x 6 k) by lia.
  unfold u8. pow2s. rewrite Z.mod_small by lia. lia.
Qed.

Theorem c_push_uint_var_is_model v0 : c_push_uint_var v0 = push_uint_var v0.
Proof.
  unfold c_push_uint_var, push_uint_var, UINT_VAR_MAX. change (2 ^ 62 - 1) with 4611686018427387903.
  cbv zeta. unfold u64. set (v := v0 mod 2 ^ 64).
  assert (Hv : 0 <= v < 2 ^ 64) by (apply Z.mod_pos_bound; lia).
  destruct (v <=? 63) eqn:E1.
  { unfold u8. rewrite be_enc_1. reflexivity. }
  destruct (v <=? 16383) eqn:E2.
  { f_equal. cbn [be_enc with_prefix]. change (256 ^ Z.of_nat 1) with 256. change (256 ^ Z.of_nat 0) with 1.
    rewrite Z.div_1_r, shr_div by lia. pow2s.
    assert (0 <= v / 256 < 64) by (split; [apply Z.div_pos; lia|apply Z.div_lt_upper_bound; lia]).
    rewrite (lor_prefix (v / 256) 64 1) by (pow2s; lia). rewrite (Z.mod_small (v / 256)) by lia. reflexivity. }
  destruct (v <=? 1073741823) eqn:E3.
  { f_equal. cbn [be_enc with_prefix]. change (256 ^ Z.of_nat 3) with 16777216.
    change (256 ^ Z.of_nat 2) with 65536. change (256 ^ Z.of_nat 1) with 256. change (256 ^ Z.of_nat 0) with 1.
    rewrite Z.div_1_r, !shr_div by lia. pow2s.
    assert (0 <= v / 16777216 < 64) by (split; [apply Z.div_pos; lia|apply Z.div_lt_upper_bound; lia]).
    rewrite (lor_prefix (v / 16777216) 128 2) by (pow2s; lia). rewrite (Z.mod_small (v / 16777216)) by lia.
    reflexivity. }
  destruct (v <=? 4611686018427387903) eqn:E4; [|reflexivity].
  f_equal. rewrite be_enc_8. cbn [with_prefix]. rewrite !shr_div by lia. pow2s.
  assert (0 <= v / 72057594037927936 < 64) by (split; [apply Z.div_pos; lia|apply Z.div_lt_upper_bound; lia]).
  rewrite (lor_prefix (v / 72057594037927936) 192 3) by (pow2s; lia).
  rewrite (Z.mod_small (v / 72057594037927936)) by lia. reflexivity.
Qed.

Theorem c_pull_uintN_is_model bs : bytes_ok bs ->
  c_pull_uint8 bs = pull_uint8 bs /\ c_pull_uint16 bs = pull_uint16 bs /\
  c_pull_uint32 bs = pull_uint32 bs /\ c_pull_uint64 bs = pull_uint64 bs.
Proof.
  intros H. repeat split; [apply c_pull_uint8_is_model|apply c_pull_uint16_is_model|apply c_pull_uint32_is_model|
                           apply c_pull_uint64_is_model]; exact H.
Qed.

Theorem c_push_uintN_is_model v :
  c_push_uint8 v = push_uint8 v /\ c_push_uint16 v = push_uint16 v /\
  c_push_uint32 v = push_uint32 v /\ c_push_uint64 v = push_uint64 v.
Proof.
  repeat split; [apply c_push_uint8_is_model|apply c_push_uint16_is_model|apply c_push_uint32_is_model|
                 apply c_push_uint64_is_model].
Qed.

(* ---- the signed intermediates of the C expressions are in range ------------------------------ *)
Lemma land63_range b : 0 <= b < 256 -> 0 <= Z.land b 63 < 64.
Proof. intros. rewrite land63 by lia. apply Z.mod_pos_bound. lia. Qed.

Theorem c_signed_ops_defined bs v :
  bytes_ok bs ->
  c_signed_ok_pull_uint8 bs /\ c_signed_ok_pull_uint16 bs /\ c_signed_ok_pull_uint32 bs /\
  c_signed_ok_pull_uint64 bs /\ c_signed_ok_pull_uint_var bs /\
  c_signed_ok_push_uint8 v /\ c_signed_ok_push_uint16 v /\ c_signed_ok_push_uint32 v /\
  c_signed_ok_push_uint64 v /\ c_signed_ok_push_uint_var v.
Proof.
  intros H.
  pose proof (nth_byte bs 0 H) as B0. pose proof (nth_byte bs 1 H) as B1.
  pose proof (land63_range _ B0) as M.
  unfold c_signed_ok_pull_uint8, c_signed_ok_pull_uint16, c_signed_ok_pull_uint32, c_signed_ok_pull_uint64,
    c_signed_ok_pull_uint_var, c_signed_ok_push_uint8, c_signed_ok_push_uint16, c_signed_ok_push_uint32,
    c_signed_ok_push_uint64, c_signed_ok_push_uint_var, in_signed. cbv zeta.
  change (2 ^ (32 - 1)) with 2147483648.
  set (b0 := nth 0 bs 0) in *. set (b1 := nth 1 bs 0) in *.
  assert (S0 : Z.shiftl b0 8 = b0 * 256) by (rewrite shl_mul by lia; reflexivity).
  assert (L0 : Z.lor (Z.shiftl b0 8) b1 = b0 * 256 + b1).
  { rewrite S0. rewrite (lor_add (b0 * 256) b1 8 b0) by (pow2s; lia). reflexivity. }
  assert (U : u16 (Z.land b0 63) = Z.land b0 63) by (unfold u16; rewrite Z.mod_small; pow2s; lia).
  assert (S1 : Z.shiftl (u16 (Z.land b0 63)) 8 = Z.land b0 63 * 256) by (rewrite U, shl_mul by lia; reflexivity).
  assert (L1 : Z.lor (Z.shiftl (u16 (Z.land b0 63)) 8) b1 = Z.land b0 63 * 256 + b1).
  { rewrite S1. rewrite (lor_add (Z.land b0 63 * 256) b1 8 (Z.land b0 63)) by (pow2s; lia). reflexivity. }
  rewrite ?L0, ?L1, ?S0, ?S1. repeat split; try exact I; lia.
Qed.

(* ---- consequences: the existing round-trip theorems hold of the C expressions themselves ------- *)
Corollary c_varint_roundtrip v rest : 0 <= v < 2 ^ 62 -> bytes_ok rest ->
  exists bs, c_push_uint_var v = Ok bs /\ c_pull_uint_var (bs ++ rest) = Ok (v, rest).
Proof.
  intros Hv Hr. destruct (varint_roundtrip v rest Hv) as (bs & P & Q). exists bs.
  rewrite c_push_uint_var_is_model. split; [exact P|]. rewrite c_pull_uint_var_is_model; [exact Q|].
  apply bytes_ok_app. split; [|exact Hr].
  destruct (varint_length_prefix v Hv) as (bs' & P' & _ & OK & _). rewrite P in P'. injection P' as ->. exact OK.
Qed.

Corollary c_fixed_roundtrip v rest : bytes_ok rest ->
  (0 <= v < 2 ^ 8 -> exists bs, c_push_uint8 v = Ok bs /\ c_pull_uint8 (bs ++ rest) = Ok (v, rest)) /\
  (0 <= v < 2 ^ 16 -> exists bs, c_push_uint16 v = Ok bs /\ c_pull_uint16 (bs ++ rest) = Ok (v, rest)) /\
  (0 <= v < 2 ^ 32 -> exists bs, c_push_uint32 v = Ok bs /\ c_pull_uint32 (bs ++ rest) = Ok (v, rest)) /\
  (0 <= v < 2 ^ 64 -> exists bs, c_push_uint64 v = Ok bs /\ c_pull_uint64 (bs ++ rest) = Ok (v, rest)).
Proof.
  intros Hr.
  assert (OK : forall n, bytes_ok (be_enc n v ++ rest)) by (intros; apply bytes_ok_app; split; [apply be_enc_bytes_ok|exact Hr]).
  repeat split; intros Hv.
  - destruct (uint8_roundtrip v rest Hv) as (bs & P & Q). exists bs. rewrite c_push_uint8_is_model. split; [exact P|].
    rewrite c_pull_uint8_is_model; [exact Q|]. injection P as <-. exact (OK 1%nat).
  - destruct (uint16_roundtrip v rest Hv) as (bs & P & Q). exists bs. rewrite c_push_uint16_is_model. split; [exact P|].
    rewrite c_pull_uint16_is_model; [exact Q|]. injection P as <-. exact (OK 2%nat).
  - destruct (uint32_roundtrip v rest Hv) as (bs & P & Q). exists bs. rewrite c_push_uint32_is_model. split; [exact P|].
    rewrite c_pull_uint32_is_model; [exact Q|]. injection P as <-. exact (OK 4%nat).
  - destruct (uint64_roundtrip v rest Hv) as (bs & P & Q). exists bs. rewrite c_push_uint64_is_model. split; [exact P|].
    rewrite c_pull_uint64_is_model; [exact Q|]. injection P as <-. exact (OK 8%nat).
Qed.
