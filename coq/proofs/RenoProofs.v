(* C08: RenoCongestionControl keeps the bytes_in_flight bookkeeping (cc_spec) and never lets the
   window drop below K_MINIMUM_WINDOW datagrams, for every interpretation of the float operations. *)
From AQ Require Import lib.Base model.RecBase model.Reno model.Recovery gen.C08Consts
  proofs.RecoveryProofs proofs.RecoveryPres.
From Coq Require Import ZifyBool.

Section RenoProofs.
Context {T : Type} (F : fops T).

Lemma sum_bytes_eq : forall l : list (pkt T), sum_bytes l = fold_right (fun p a => p_bytes p + a) 0 l.
Proof. reflexivity. Qed.

Lemma reno_spec : cc_spec (reno_cc F).
Proof.
  constructor; intros; cbn [reno_cc cc_bif cc_on_sent cc_on_acked cc_on_expired cc_on_lost cc_on_rtt].
  - reflexivity.
  - unfold reno_on_acked. destruct (fleb F (p_time p) (rn_start c)); [reflexivity|].
    destruct (match rn_ssthresh c with None => true | Some s => rn_cwnd c <? s end); [reflexivity|].
    destruct (_ =? 0); reflexivity.
  - reflexivity.
  - unfold reno_on_lost. destruct (fltb F (rn_start c) _); [|reflexivity].
    destruct (trunc_flag F _ _). reflexivity.
  - unfold reno_on_rtt. destruct (rn_ssthresh c); [reflexivity|].
    destruct (is_rtt_increasing F (rn_mon c) now r). reflexivity.
Qed.

(* the invariant behind the floor *)
Definition reno_P (mss : Z) (c : reno (T:=T)) : Prop :=
  rn_mss c = mss /\ K_MINIMUM_WINDOW * mss <= rn_cwnd c /\ 0 <= rn_stash c.

Lemma reno_pres : forall mss, 0 < mss -> cc_pres (reno_cc F) (reno_P mss).
Proof.
  intros mss Hm. unfold reno_P.
  constructor; intros; cbn [reno_cc cc_on_sent cc_on_acked cc_on_expired cc_on_lost cc_on_rtt].
  - exact H.
  - destruct H as (Hmss & Hc & Hs). unfold reno_on_acked.
    destruct (fleb F (p_time p) (rn_start c)); cbn [rn_mss rn_cwnd rn_stash]; [auto|].
    destruct (match rn_ssthresh c with None => true | Some s => rn_cwnd c <? s end);
      cbn [rn_mss rn_cwnd rn_stash]; [repeat split; auto; lia|].
    assert (Hk : K_MINIMUM_WINDOW = 2) by reflexivity.
    assert (Hpos : 0 < rn_cwnd c) by lia.
    set (stash := rn_stash c + p_bytes p).
    assert (Hst : 0 <= stash) by (subst stash; lia).
    pose proof (Z.div_pos stash (rn_cwnd c) Hst Hpos) as Hq.
    pose proof (Z.div_mod stash (rn_cwnd c) ltac:(lia)) as Hdm.
    pose proof (Z.mod_pos_bound stash (rn_cwnd c) Hpos) as Hmb.
    destruct (stash / rn_cwnd c =? 0) eqn:E; cbn [rn_mss rn_cwnd rn_stash].
    + repeat split; auto.
    + repeat split; auto; [nia|].
      replace (stash - stash / rn_cwnd c * rn_cwnd c) with (stash mod rn_cwnd c) by lia. lia.
  - exact H.
  - destruct H as (Hmss & Hc & Hs). unfold reno_on_lost.
    destruct (fltb F (rn_start c) _); cbn [rn_mss rn_cwnd rn_stash]; [|auto].
    destruct (trunc_flag F _ _) as [half anom]. cbn [rn_mss rn_cwnd rn_stash].
    repeat split; auto. rewrite Hmss. lia.
  - destruct H as (Hmss & Hc & Hs). unfold reno_on_rtt.
    destruct (rn_ssthresh c); [auto|].
    destruct (is_rtt_increasing F (rn_mon c) now r). cbn [rn_mss rn_cwnd rn_stash]. auto.
Qed.

Lemma reno_init_P : forall mss, 0 < mss -> reno_P mss (reno_init F mss).
Proof.
  intros mss Hm. unfold reno_P, reno_init. cbn [rn_mss rn_cwnd rn_stash].
  assert (K_MINIMUM_WINDOW <= K_INITIAL_WINDOW) by (vm_compute; discriminate).
  assert (0 <= K_MINIMUM_WINDOW) by (vm_compute; discriminate).
  repeat split; auto; nia.
Qed.

Theorem cwnd_floor_reno_gen : forall n irtt mss pcav ops st evs,
  0 < mss -> Forall (op_nn (T:=T)) ops ->
  run F (reno_cc F) (rec_init F n irtt mss pcav (reno_init F mss)) ops = (st, evs) ->
  K_MINIMUM_WINDOW * mss <= rn_cwnd (r_cc st) /\ K_MINIMUM_WINDOW = 2.
Proof.
  intros n irtt mss pcav ops st evs Hm Hn Hr.
  pose proof (run_pres F (reno_cc F) (reno_P mss) (reno_pres mss Hm) ops _ _ _
                (init_pgood F (reno_P mss) n irtt mss pcav _ (reno_init_P mss Hm)) Hn Hr) as (Pc & _).
  split; [apply Pc|reflexivity].
Qed.

End RenoProofs.
