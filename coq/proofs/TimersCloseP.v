(* C09: the close round.  datagrams_to_send with a pending close ALWAYS leaves the connection CLOSING with
   _close_at = now + 3 PTO and _close_pending = False -- whether or not a packet was written (a close round can write
   nothing: every packet type with send keys is skipped because its header leaves no room, fix 26d6ec4) -- and from
   close() every continuation whose caller fires the timer it is asked for terminates exactly once, by the first
   handle_timer at or after (time of the first datagrams_to_send after close()) + 3 PTO.
   The statements are about `send_at CLOSE_BEGIN_UNCONDITIONAL`: the position of the two statements is probed from the
   tree under check (tools/gen/c09_consts.py); with the transition under `if datagrams:` these proofs fail. *)
From Coq Require Import ZArith List Bool Lia.
From AQ Require Import lib.Base model.Timers model.TimersSpec proofs.TimersP gen.C09Consts.

(* the tree's datagrams_to_send is the model's *)
Lemma send_at_tree : forall now pto3 produced nev c,
  send_at CLOSE_BEGIN_UNCONDITIONAL now pto3 produced nev c = send now pto3 produced nev c.
Proof. intros. unfold send_at, send, CLOSE_BEGIN_UNCONDITIONAL. reflexivity. Qed.

Lemma send_at_true : forall now pto3 produced nev c, send_at true now pto3 produced nev c = send now pto3 produced nev c.
Proof. intros. reflexivity. Qed.

Lemma close_round_send : forall now pto3 produced nev c, close_round_ready c ->
  exists c', send now pto3 produced nev c = Ok (if produced then SClose else SNone, c') /\
    c_state c' = CLOSING /\ c_close_at c' = Some (now + pto3) /\ c_close_pending c' = false /\
    c_events c' = c_events c /\ c_close_event c' = c_close_event c.
Proof.
  intros now pto3 produced nev c (P & H & E). unfold send. rewrite H, E, P. simpl.
  eexists; split; [reflexivity|]. dconn c. unfold close_begin; simpl. repeat split; reflexivity.
Qed.

Lemma close_round_always_begins_lemma : forall now pto3 produced nev c, close_round_ready c ->
  exists c', send_at CLOSE_BEGIN_UNCONDITIONAL now pto3 produced nev c = Ok (if produced then SClose else SNone, c') /\
    c_state c' = CLOSING /\ c_close_at c' = Some (now + pto3) /\ c_close_pending c' = false.
Proof.
  intros now pto3 produced nev c R. rewrite send_at_tree.
  destruct (close_round_send now pto3 produced nev c R) as (c' & A & B & C & D & _). eauto.
Qed.

(* The other position: a reachable client state (connect, Retry accepted, close()) in which a close round that
   writes nothing is a no-op: close still pending, state unchanged, _close_at still the idle deadline. *)
Definition stuck_ops : list op := [OConnect 1000 60000; OReceive 1010 60000 [PRetry true 60000]; OClose].

Lemma close_round_position_matters_lemma :
  first_op true (OConnect 1000 60000) /\
  let c := snd (run (conn_init true) stuck_ops) in
  close_round_ready c /\ c_close_at c = Some 61010 /\
  (forall now pto3 nev, send_at false now pto3 false nev c = Ok (SNone, c)) /\
  (forall now pto3 nev, exists c', send_at true now pto3 false nev c = Ok (SNone, c') /\ c_state c' = CLOSING /\
                                   c_close_at c' = Some (now + pto3)).
Proof.
  split; [reflexivity|]. cbv zeta. split; [|split; [|split]].
  - vm_compute. repeat split; reflexivity.
  - vm_compute. reflexivity.
  - intros. vm_compute. reflexivity.
  - intros. eexists. split; [vm_compute; reflexivity|]. split; reflexivity.
Qed.

(* ---- between close() and the first datagrams_to_send ---- *)

Lemma ready_step : forall c o r c', close_round_ready c -> (match o with OSend _ _ _ _ => False | _ => True end) ->
  step c o = (r, c') -> close_round_ready c' \/ c_state c' = TERMINATED.
Proof.
  intros c o r c' (P & H & E) NS S. destruct o; simpl in S; try contradiction.
  - unfold connect in S. destruct (c_client c && negb (c_connect_called c)); inversion S; subst.
    + left. dconn c; unfold close_round_ready; simpl in *. auto.
    + left. unfold close_round_ready; auto.
  - inversion S; subst. left. unfold receive. rewrite E, P. unfold close_round_ready; auto.
  - inversion S; subst. left. dconn c; unfold do_close, close_round_ready; simpl in *.
    destruct (is_none ce && negb (is_end st)); simpl; auto.
  - unfold timer in S. destruct (c_close_at c); [|inversion S; subst; left; unfold close_round_ready; auto].
    destruct (now >=? z); inversion S; subst.
    + right. destruct (is_none (c_close_event c)); dconn c; reflexivity.
    + left. unfold close_round_ready; auto.
  - unfold next_event in S. destruct (c_events c) eqn:EV; inversion S; subst; left.
    + unfold close_round_ready; auto.
    + dconn c; unfold close_round_ready; simpl in *; auto.
  - unfold get_timer in S. rewrite E in S.
    destruct (fold_left _ acks _).
    + destruct (tmin pacing (tmin loss (Ok a))); inversion S; subst; left; dconn c; unfold close_round_ready; simpl in *; auto.
    + inversion S; subst. left. unfold close_round_ready; auto.
Qed.

Lemma ready_run : forall ops c, inv c -> close_round_ready c -> no_send ops ->
  close_round_ready (snd (run c ops)) \/ c_state (snd (run c ops)) = TERMINATED.
Proof.
  induction ops as [|o t IH]; intros c I R NS; simpl; auto.
  destruct (step c o) as [r c1] eqn:S.
  assert (NS1 : match o with OSend _ _ _ _ => False | _ => True end) by (destruct o; simpl in NS; auto).
  assert (NS2 : no_send t) by (destruct o; simpl in NS; auto; contradiction).
  pose proof (inv_step _ _ _ _ I S) as I1.
  destruct (ready_step _ _ _ _ R NS1 S) as [R1|T].
  - specialize (IH c1 I1 R1 NS2). destruct (run c1 t); simpl in *; auto.
  - pose proof (terminated_run t c1 I1 T). destruct (run c1 t); simpl in *; auto.
Qed.

Lemma ready_after_close : forall c, c_close_event c = None -> c_has_path c = true -> is_end (c_state c) = false ->
  close_round_ready (do_close EV_LOCAL c).
Proof.
  intros c CE H E. dconn c. unfold do_close, close_round_ready; simpl in *. subst ce. rewrite E. simpl. auto.
Qed.

(* ---- the closing period: nothing but a handle_timer at or after the deadline ends it ---- *)

Lemma closing_step_before : forall c o r c' d, inv c -> closing_state (c_state c) -> c_close_at c = Some d ->
  (forall w, o = OTimer w -> w < d) -> step c o = (r, c') ->
  c_state c' = c_state c /\ c_close_at c' = Some d.
Proof.
  intros c o r c' d I CS CA W S.
  destruct (closing_step _ _ _ _ I CS S) as [[A B]|T]; [split; congruence|].
  exfalso.
  assert (E : is_end (c_state c) = true) by (destruct CS as [H|H]; rewrite H; reflexivity).
  assert (NT : c_state c <> TERMINATED) by (destruct CS as [H|H]; rewrite H; discriminate).
  destruct o; simpl in S.
  - unfold connect in S. destruct (c_client c && negb (c_connect_called c)) eqn:G; inversion S; subst; auto.
  - inversion S; subst. unfold receive in T. rewrite E in T. auto.
  - inversion S; subst. rewrite state_do_close in T. auto.
  - unfold send in S. destruct (negb (c_has_path c)); [inversion S; subst; auto|].
    rewrite E in S. inversion S; subst; auto.
  - unfold timer in S. rewrite CA in S. specialize (W now eq_refl).
    assert (G : (now >=? d) = false) by (rewrite Z.geb_leb; apply Z.leb_gt; lia).
    rewrite G in S. inversion S; subst; auto.
  - unfold next_event in S. destruct (c_events c); inversion S; subst; auto.
  - unfold get_timer in S. rewrite E in S. inversion S; subst; auto.
Qed.

Lemma closing_run_before : forall ops c d, inv c -> closing_state (c_state c) -> c_close_at c = Some d ->
  timers_before d ops ->
  c_state (snd (run c ops)) = c_state c /\ c_close_at (snd (run c ops)) = Some d /\ inv (snd (run c ops)).
Proof.
  induction ops as [|o t IH]; intros c d I CS CA TB; simpl; auto.
  destruct (step c o) as [r c1] eqn:S.
  assert (W : forall w, o = OTimer w -> w < d) by (intros w ->; simpl in TB; tauto).
  assert (TB1 : timers_before d t) by (destruct o; simpl in TB; tauto).
  pose proof (inv_step _ _ _ _ I S) as I1.
  destruct (closing_step_before _ _ _ _ d I CS CA W S) as [A B].
  assert (CS1 : closing_state (c_state c1)) by (rewrite A; auto).
  destruct (IH c1 d I1 CS1 B TB1) as (A' & B' & I').
  destruct (run c1 t); simpl in *. split; [congruence|]. split; [exact B'|exact I'].
Qed.

Lemma get_timer_closing : forall acks loss pacing c d, is_end (c_state c) = true -> c_close_at c = Some d ->
  get_timer acks loss pacing c = (Ok (Some d), c).
Proof. intros. unfold get_timer. rewrite H, H0. reflexivity. Qed.

(* ---- from close() to the termination event ---- *)

Lemma close_terminates_within_lemma : forall client o ops pre now pto3 produced nev l1 v,
  first_op client o ->
  let c0 := snd (run (conn_init client) (o :: ops)) in
  is_end (c_state c0) = false -> c_has_path c0 = true -> c_close_event c0 = None ->
  no_send pre -> timers_before (now + pto3) l1 -> v >= now + pto3 ->
  let c1 := snd (run c0 (OClose :: pre)) in
  let c2 := after_send_at CLOSE_BEGIN_UNCONDITIONAL now pto3 produced nev c1 in
  let c3 := snd (run c2 l1) in
  (* the idle deadline passed before the application transmitted: already terminated *)
  c_state c1 = TERMINATED \/
  (* the close round, whatever it wrote *)
  (c_state c2 = CLOSING /\ c_close_at c2 = Some (now + pto3) /\ c_close_pending c2 = false /\
   (* until a handle_timer at or after the deadline: still CLOSING, and get_timer() asks for exactly the deadline *)
   c_state c3 = CLOSING /\
   (forall acks loss pacing, fst (get_timer acks loss pacing c3) = Ok (Some (now + pto3))) /\
   (* that handle_timer reports termination: one event, appended by this very call *)
   exists c4 k, timer v c3 = Ok c4 /\ c_state c4 = TERMINATED /\ c_close_at c4 = None /\ is_term_kind k /\
                c_events c4 = c_events c3 ++ [k] /\
                (* and nothing afterwards appends another one or revives the connection *)
                forall more, c_state (snd (run c4 more)) = TERMINATED).
Proof.
  intros client o ops pre now pto3 produced nev l1 v F c0 E H CE NS TB V c1 c2 c3.
  pose proof (inv_reach client o ops F) as I0. fold c0 in I0.
  assert (I0' : inv (do_close EV_LOCAL c0)) by (apply inv_do_close; auto; apply term_kind_consts).
  pose proof (ready_after_close c0 CE H E) as R0.
  assert (C1 : c1 = snd (run (do_close EV_LOCAL c0) pre)).
  { unfold c1. simpl. destruct (run (do_close EV_LOCAL c0) pre); reflexivity. }
  pose proof (inv_run pre _ I0') as I1. rewrite <- C1 in I1.
  destruct (ready_run pre _ I0' R0 NS) as [R1|T]; rewrite <- C1 in *; [right|left; exact T].
  destruct (close_round_send now pto3 produced nev c1 R1) as (c2' & S & A & B & C & _).
  assert (C2 : c2 = c2').
  { unfold c2, after_send_at. rewrite send_at_tree, S. reflexivity. }
  subst c3. rewrite C2. clear C2. clearbody c2. clear c2.
  assert (I2 : inv c2').
  { apply (inv_step c1 (OSend now pto3 produced nev) (RSent (if produced then SClose else SNone)) c2' I1).
    simpl. rewrite S. reflexivity. }
  assert (CS2 : closing_state (c_state c2')) by (left; exact A).
  destruct (closing_run_before l1 c2' (now + pto3) I2 CS2 B TB) as (A3 & B3 & I3).
  set (c3 := snd (run c2' l1)) in *.
  rewrite A in A3.
  split; [exact A|]. split; [exact B|]. split; [exact C|]. split; [exact A3|]. split.
  - intros acks loss pacing. rewrite (get_timer_closing acks loss pacing c3 (now + pto3)); auto. rewrite A3; reflexivity.
  - destruct (timer_at_deadline c3 (now + pto3) v I3 B3 V) as (c4 & k & T1 & T2 & T3 & T4 & T5).
    exists c4, k. split; [exact T1|]. split; [exact T2|]. split; [exact T3|]. split; [exact T4|]. split; [exact T5|].
    intros more. apply terminated_run; auto.
    assert (S4 : step c3 (OTimer v) = (RUnit, c4)) by (simpl; rewrite T1; reflexivity).
    exact (inv_step _ _ _ _ I3 S4).
Qed.

(* non-vacuity: the client of stuck_ops (Retry accepted, only Initial keys, then close()); the close round at 1020
   writes nothing (produced = false), the application keeps calling the API, the timer fires at the deadline *)
Example ex_zero_close_round :
  let ops := [OReceive 1010 60000 [PRetry true 60000]] in
  let c0 := snd (run (conn_init true) (OConnect 1000 60000 :: ops)) in
  let pre := [OGetTimer [None; None; None] (Some 1210) None; ONextEvent] in
  let l1 := [OGetTimer [None; None; None] (Some 1210) None; OTimer 1210; OSend 1210 600 false 0; OReceive 1300 60000 [PSkip]] in
  is_end (c_state c0) = false /\ c_has_path c0 = true /\ c_close_event c0 = None /\ no_send pre /\
  timers_before (1020 + 600) l1 /\
  let c1 := snd (run c0 (OClose :: pre)) in
  let c2 := after_send_at CLOSE_BEGIN_UNCONDITIONAL 1020 600 false 0 c1 in
  let c3 := snd (run c2 l1) in
  c_state c1 = FIRSTFLIGHT /\ c_state c2 = CLOSING /\ c_close_at c3 = Some 1620 /\
  fst (run c3 [OTimer 1620; ONextEvent; ONextEvent]) = [RUnit; REvent (Some EV_LOCAL); REvent None].
Proof. vm_compute. repeat split; try reflexivity; try lia. Qed.
