(* Proofs about the composed timer model (model/TimersFull.v): it refines model/Timers.v (so the 11 theorems of C09
   hold of it), the per-space invariant, timer_sources_sound, timer_progress, and the stale-_pacing_at refutation. *)
From AQ Require Import lib.Base lib.Tok model.Timers model.TimersSpec proofs.TimersP model.TimersFull model.TimersFullSpec.

(* ================= 1. the composed model refines model/Timers.v ================= *)

Lemma c_set_sp l f : f_c (set_sp l f) = f_c f. Proof. reflexivity. Qed.
Lemma c_upd_sp i g f : f_c (upd_sp i g f) = f_c f. Proof. reflexivity. Qed.
Lemma c_discard_epoch i f : f_c (discard_epoch i f) = f_c f.
Proof. unfold discard_epoch. destruct (nth_error (f_sp f) i); [destruct (ts_disc t)|]; reflexivity. Qed.
Lemma c_discard_all f : f_c (discard_all f) = f_c f.
Proof. unfold discard_all. now rewrite !c_discard_epoch. Qed.
Lemma c_reschedule ae f : f_c (reschedule_data ae f) = f_c f. Proof. reflexivity. Qed.
Lemma c_apply_feff sp e f : f_c (apply_feff sp e f) = f_c f.
Proof.
  destruct e as [[[n lt]|]| | |ae]; cbn [apply_feff].
  - destruct (Nat.eqb sp 1 || Nat.eqb sp 2); reflexivity.
  - destruct (Nat.eqb sp 1 || Nat.eqb sp 2); reflexivity.
  - cbn. destruct (c_client (f_c f)); [reflexivity|]. cbn. now rewrite c_discard_epoch.
  - destruct (f_confirmed f); [reflexivity|]. cbn. now rewrite c_discard_epoch.
  - reflexivity.
Qed.
Lemma c_fold_feff sp es : forall f, f_c (fold_left (fun g e => apply_feff sp e g) es f) = f_c f.
Proof. induction es; intros; cbn; [reflexivity|]. now rewrite IHes, c_apply_feff. Qed.
Lemma c_fsrv_init f : f_c (fsrv_init f) = srv_init (f_c f).
Proof. unfold fsrv_init. destruct (negb (c_client (f_c f)) && is_firstflight (c_state (f_c f))); reflexivity. Qed.
Lemma c_srv_discard_initial sp f : f_c (srv_discard_initial sp f) = f_c f.
Proof. unfold srv_discard_initial. destruct (negb (c_client (f_c f)) && Nat.eqb sp 1); [apply c_discard_epoch|reflexivity]. Qed.

Lemma c_frecv_pkts now ps : forall f, f_c (frecv_pkts now f ps) = recv_pkts now (f_c f) (map fp_base ps).
Proof.
  induction ps as [|p rest IH]; intros f; [reflexivity|].
  cbn [frecv_pkts map recv_pkts]. destruct (fp_base p) as [| |verdict idle|valid idle| |nev pc err idle].
  - reflexivity.
  - now rewrite IH, c_fsrv_init.
  - unfold vn_pkt. destruct (c_client (f_c f) && is_firstflight (c_state (f_c f)) && negb (c_vn_done (f_c f))); [|reflexivity].
    destruct (verdict =? 0); [reflexivity|]. destruct (verdict =? 1); reflexivity.
  - destruct (c_client (f_c f) && valid); reflexivity.
  - cbn. now rewrite c_fsrv_init.
  - cbv zeta. destruct (is_end (c_state (proc_pkt now nev pc err (f_c f))) || c_close_pending (proc_pkt now nev pc err (f_c f))).
    + reflexivity.
    + rewrite IH. reflexivity.
Qed.

Lemma c_whs i h f : f_c (snd (whs i h f)) = f_c f.
Proof.
  unfold whs. destruct (ts_disc (sp_at f i) || negb (hw_keys h)); [reflexivity|].
  destruct (hw_stop h =? 1); [reflexivity|]. destruct (ts_ack_at (sp_at f i)); [destruct (hw_room h)|]; reflexivity.
Qed.
Lemma c_wapp now its : forall f, f_c (wapp now its f) = f_c f.
Proof.
  induction its as [|it rest IH]; intros f; [reflexivity|]. cbn [wapp]. cbv zeta.
  set (consult := match ts_ack_at (sp_at f 2) with None => true | Some a => a >? now end).
  set (due := match ts_ack_at (sp_at f 2) with Some a => a <=? now | None => false end).
  destruct consult; cbn [andb].
  - destruct (is_some (ai_pacer it)); [reflexivity|]. destruct (ai_stop it); [reflexivity|].
    destruct (f_complete f && due && negb (ai_room it)); [reflexivity|].
    destruct (f_complete f && due); (destruct (ai_empty it); [reflexivity|rewrite IH; reflexivity]).
  - destruct (ai_stop it); [reflexivity|].
    destruct (f_complete f && due && negb (ai_room it)); [reflexivity|].
    destruct (f_complete f && due); (destruct (ai_empty it); [reflexivity|rewrite IH; reflexivity]).
Qed.
Lemma c_writers now w f : f_c (writers now w f) = f_c f.
Proof.
  unfold writers. destruct (f_confirmed f).
  - destruct (sw_appkeys w); [apply c_wapp|reflexivity].
  - destruct (whs 0 (sw_h0 w) f) as [st0 f0] eqn:E0. assert (H0 : f_c f0 = f_c f) by (change f0 with (snd (st0, f0)); rewrite <- E0; apply c_whs).
    destruct st0; [exact H0|].
    destruct (whs 1 (sw_h1 w) f0) as [st1 f1] eqn:E1. assert (H1 : f_c f1 = f_c f0) by (change f1 with (snd (st1, f1)); rewrite <- E1; apply c_whs).
    destruct st1; [congruence|]. destruct (sw_appkeys w); [rewrite c_wapp|]; congruence.
Qed.

Lemma fstep_base reset f o : fst (fstep reset f o) = fst (step (f_c f) (base_op f o)) /\
                             f_c (snd (fstep reset f o)) = snd (step (f_c f) (base_op f o)).
Proof.
  destruct o as [now idle|now idle0 ps| |now pto3 w|now te| |ptod]; cbn [fstep base_op step].
  - unfold fconnect. destruct (connect now idle (f_c f)); split; reflexivity.
  - split; [reflexivity|]. cbn [snd]. unfold freceive, receive.
    destruct (is_end (c_state (f_c f))); [reflexivity|]. destruct (c_close_pending (f_c f)); [reflexivity|].
    now rewrite c_frecv_pkts.
  - split; reflexivity.
  - unfold fsend. destruct (send now pto3 (sw_produced w) (sw_nev w) (f_c f)) as [[s c']|k]; split; try reflexivity.
    + destruct (ordinary_send (f_c f)); reflexivity.
    + destruct (ordinary_send (f_c f)); reflexivity.
  - unfold ftimer. destruct (timer now (f_c f)) as [c'|k]; [|split; reflexivity].
    destruct (fired now (f_c f)); [split; reflexivity|].
    destruct (c_loss_at (f_c f)); [destruct (now >=? z)|]; split; try reflexivity.
    unfold on_loss_detection_timeout. destruct (lspace (f_sp (set_c c' f))) as [[i lt]|]; reflexivity.
  - destruct (next_event (f_c f)); split; reflexivity.
  - unfold fget_timer. destruct (get_timer (acks_of f) (loss_time_of f ptod) (f_pacing f) (f_c f)); split; reflexivity.
Qed.

Lemma frun_base reset ops : forall f,
  fst (frun reset f ops) = fst (run (f_c f) (base_ops reset f ops)) /\
  f_c (snd (frun reset f ops)) = snd (run (f_c f) (base_ops reset f ops)).
Proof.
  induction ops as [|o t IH]; intros f; [split; reflexivity|].
  cbn [frun base_ops run]. destruct (fstep_base reset f o) as [H1 H2].
  destruct (fstep reset f o) as [r f1]. destruct (step (f_c f) (base_op f o)) as [r' c1]. cbn in H1, H2. subst.
  cbn [snd]. specialize (IH f1). destruct (frun reset f1 t) as [rs f2].
  destruct (run (f_c f1) (base_ops reset f1 t)) as [rs' c2]. cbn in IH. destruct IH; subst. split; reflexivity.
Qed.


Lemma ffirst_base client o : ffirst_op client o -> first_op client (base_op (full_init client) o).
Proof. destruct o; cbn; auto. Qed.

(* every reachable state of the composed model projects onto a reachable state of model/Timers.v (same results) *)
Lemma full_refines_timers_lemma reset client o ops : ffirst_op client o ->
  exists o' ops', first_op client o' /\
    fst (frun reset (full_init client) (o :: ops)) = fst (run (conn_init client) (o' :: ops')) /\
    f_c (snd (frun reset (full_init client) (o :: ops))) = snd (run (conn_init client) (o' :: ops')).
Proof.
  intros H. exists (base_op (full_init client) o), (base_ops reset (snd (fstep reset (full_init client) o)) ops).
  split; [now apply ffirst_base|]. exact (frun_base reset (o :: ops) (full_init client)).
Qed.

Lemma freach_inv reset client o ops : ffirst_op client o ->
  inv (f_c (snd (frun reset (full_init client) (o :: ops)))).
Proof.
  intros H. destruct (full_refines_timers_lemma reset client o ops H) as (o' & ops' & Hf & _ & Hc).
  rewrite Hc. now apply inv_reach.
Qed.

(* ================= 2. the invariant of the timer sources ================= *)



Ltac dsp s := destruct s as [aa lt ae di ow].

Lemma ok_init : sp_ok ts_init.
Proof. unfold sp_ok; cbn. repeat split; try congruence; lia. Qed.
Lemma ok_fresh : Forall sp_ok fresh_spaces.
Proof. repeat constructor; apply ok_init. Qed.
Lemma ok_discard s : sp_ok s -> sp_ok (ts_discard s).
Proof. dsp s. unfold sp_ok; cbn. intros (A & B & C & D). repeat split; try congruence; lia. Qed.
Lemma ok_record s e t d cn : sp_ok s -> sp_ok (ts_record s e t d cn).
Proof.
  dsp s. unfold sp_ok, ts_record; cbn. intros (A & B & C & D). destruct di; cbn.
  - repeat split; intros; auto; apply A; auto.
  - destruct e, cn, aa; cbn; repeat split; intros; try congruence; try lia;
      try (assert (ow > 0) by (apply B; congruence); lia); try (apply C; auto; lia).
Qed.
Lemma ok_ack_written s : sp_ok s -> sp_ok (ts_ack_written s).
Proof. dsp s. unfold sp_ok; cbn. intros (A & B & C & D). repeat split; intros; try congruence; try lia; apply A; auto. Qed.
Lemma ok_sent n s : sp_ok s -> sp_ok (ts_sent n s).
Proof. dsp s. unfold sp_ok, ts_sent; cbn. intros (A & B & C & D). destruct di; cbn; repeat split; intros; try congruence; auto; try (apply A; auto). Qed.
Lemma ok_removed n s : sp_ok s -> sp_ok (ts_removed n s).
Proof. dsp s. unfold sp_ok, ts_removed; cbn. intros (A & B & C & D). destruct di; cbn; repeat split; intros; try congruence; auto; try (apply A; auto). Qed.
Lemma ok_detect n l s : sp_ok s -> sp_ok (ts_detect n l s).
Proof. dsp s. unfold sp_ok, ts_detect; cbn. intros (A & B & C & D). destruct di; cbn; repeat split; intros; try congruence; auto; try (apply A; auto). Qed.

Lemma Forall_upd (P : tspace -> Prop) g : (forall s, P s -> P (g s)) -> forall i l, Forall P l -> Forall P (upd i g l).
Proof.
  intros Hg i l; revert i; induction l; intros i H; cbn; [destruct i; constructor|].
  inversion H; subst. destruct i; constructor; auto.
Qed.
Lemma ok_sent_all : forall ns l, Forall sp_ok l -> Forall sp_ok (sent_all ns l).
Proof.
  intros ns l; revert ns; induction l; intros ns H; [destruct ns; constructor|]. inversion H; subst.
  destruct ns; cbn; [assumption|]. constructor; [now apply ok_sent|auto].
Qed.
Lemma ok_removed_all : forall ns l, Forall sp_ok l -> Forall sp_ok (removed_all ns l).
Proof.
  intros ns l; revert ns; induction l; intros ns H; [destruct ns; constructor|]. inversion H; subst.
  destruct ns; cbn; [assumption|]. constructor; [now apply ok_removed|auto].
Qed.


Lemma oks_upd i g f : (forall s, sp_ok s -> sp_ok (g s)) -> oks f -> oks (upd_sp i g f).
Proof. intros; unfold oks, upd_sp; cbn. now apply Forall_upd. Qed.
Lemma oks_discard_epoch i f : oks f -> oks (discard_epoch i f).
Proof.
  intros H. unfold discard_epoch. destruct (nth_error (f_sp f) i); [|assumption]. destruct (ts_disc t); [assumption|].
  apply (oks_upd i ts_discard f ok_discard H).
Qed.
Lemma oks_discard_all f : oks f -> oks (discard_all f).
Proof. intros; unfold discard_all. now repeat apply oks_discard_epoch. Qed.
Lemma oks_reschedule ae f : oks f -> oks (reschedule_data ae f).
Proof. intros H. unfold oks, reschedule_data; cbn. now apply ok_removed_all. Qed.
Lemma oks_apply_feff sp e f : oks f -> oks (apply_feff sp e f).
Proof.
  intros H. destruct e as [[[n lt]|]| | |ae]; cbn [apply_feff].
  - destruct (Nat.eqb sp 1 || Nat.eqb sp 2); apply (oks_upd sp (ts_detect n lt)); auto using ok_detect.
  - destruct (Nat.eqb sp 1 || Nat.eqb sp 2); exact H.
  - cbn. destruct (c_client (f_c f)); [exact H|]. apply (oks_discard_epoch 1 (set_complete f)). exact H.
  - destruct (f_confirmed f); [exact H|]. apply (oks_discard_epoch 1 f H).
  - now apply oks_reschedule.
Qed.
Lemma oks_fold_feff sp es : forall f, oks f -> oks (fold_left (fun g e => apply_feff sp e g) es f).
Proof. induction es; intros; cbn; [assumption|]. apply IHes. now apply oks_apply_feff. Qed.
Lemma oks_fsrv_init f : oks f -> oks (fsrv_init f).
Proof. intros H. unfold fsrv_init. destruct (negb (c_client (f_c f)) && is_firstflight (c_state (f_c f))); [apply ok_fresh|exact H]. Qed.
Lemma oks_srv_discard_initial sp f : oks f -> oks (srv_discard_initial sp f).
Proof. intros H. unfold srv_discard_initial. destruct (negb (c_client (f_c f)) && Nat.eqb sp 1); [now apply oks_discard_epoch|exact H]. Qed.

Lemma oks_frecv_pkts now ps : forall f, oks f -> oks (frecv_pkts now f ps).
Proof.
  induction ps as [|p rest IH]; intros f H; [exact H|].
  cbn [frecv_pkts]. destruct (fp_base p) as [| |verdict idle|valid idle| |nev pc err idle].
  - exact H.
  - apply IH. now apply oks_fsrv_init.
  - destruct (c_client (f_c f) && is_firstflight (c_state (f_c f)) && negb (c_vn_done (f_c f))); [|exact H].
    destruct (verdict =? 0); [exact H|]. destruct (verdict =? 1); [|apply ok_fresh].
    apply (oks_discard_all f H).
  - destruct (c_client (f_c f) && valid); [apply ok_fresh|exact H].
  - apply (oks_fsrv_init f H).
  - cbv zeta.
    assert (H2 : oks (fold_left (fun g e => apply_feff (fp_space p) e g) (fp_effs p) (srv_discard_initial (fp_space p) (fsrv_init f)))).
    { apply oks_fold_feff, oks_srv_discard_initial, oks_fsrv_init, H. }
    destruct (is_end (c_state (proc_pkt now nev pc err (f_c f))) || c_close_pending (proc_pkt now nev pc err (f_c f))); [exact H2|].
    apply IH. apply oks_upd; [intros; now apply ok_record|]. exact H2.
Qed.

Lemma oks_whs i h f : oks f -> oks (snd (whs i h f)).
Proof.
  intros H. unfold whs. destruct (ts_disc (sp_at f i) || negb (hw_keys h)); [exact H|].
  destruct (hw_stop h =? 1); [exact H|]. destruct (ts_ack_at (sp_at f i)); [destruct (hw_room h)|]; cbn [snd]; try exact H.
  apply oks_upd; auto using ok_ack_written.
Qed.
Lemma oks_wapp now its : forall f, oks f -> oks (wapp now its f).
Proof.
  induction its as [|it rest IH]; intros f H; [exact H|]. cbn [wapp]. cbv zeta.
  set (consult := match ts_ack_at (sp_at f 2) with None => true | Some a => a >? now end).
  set (due := match ts_ack_at (sp_at f 2) with Some a => a <=? now | None => false end).
  assert (Hw : forall g, oks g -> oks (upd_sp 2 ts_ack_written g)) by (intros; apply oks_upd; auto using ok_ack_written).
  destruct consult; cbn [andb].
  - destruct (is_some (ai_pacer it)); [exact H|]. destruct (ai_stop it); [exact H|].
    destruct (f_complete f && due && negb (ai_room it)); [exact H|].
    destruct (f_complete f && due); (destruct (ai_empty it); [|apply IH]); try apply Hw; exact H.
  - destruct (ai_stop it); [exact H|].
    destruct (f_complete f && due && negb (ai_room it)); [exact H|].
    destruct (f_complete f && due); (destruct (ai_empty it); [|apply IH]); try apply Hw; exact H.
Qed.
Lemma oks_writers now w f : oks f -> oks (writers now w f).
Proof.
  intros H. unfold writers. destruct (f_confirmed f).
  - destruct (sw_appkeys w); [now apply oks_wapp|exact H].
  - pose proof (oks_whs 0 (sw_h0 w) f H) as H0. destruct (whs 0 (sw_h0 w) f) as [st0 f0]. cbn in H0.
    destruct st0; [exact H0|].
    pose proof (oks_whs 1 (sw_h1 w) f0 H0) as H1. destruct (whs 1 (sw_h1 w) f0) as [st1 f1]. cbn in H1.
    destruct st1; [exact H1|]. destruct (sw_appkeys w); [now apply oks_wapp|exact H1].
Qed.

Lemma oks_fstep reset f o : oks f -> oks (snd (fstep reset f o)).
Proof.
  intros H. destruct o as [now idle|now idle0 ps| |now pto3 w|now te| |ptod]; cbn [fstep].
  - unfold fconnect. destruct (connect now idle (f_c f)); [apply ok_fresh|exact H].
  - cbn [snd]. unfold freceive. destruct (is_end (c_state (f_c f))); [exact H|]. destruct (c_close_pending (f_c f)); [exact H|].
    apply oks_frecv_pkts. exact H.
  - exact H.
  - unfold fsend. destruct (send now pto3 (sw_produced w) (sw_nev w) (f_c f)) as [[s c']|k]; [|exact H].
    destruct (ordinary_send (f_c f)); [|exact H]. cbn [snd]. unfold oks. rewrite c_set_sp || idtac.
    change (oks (if sw_produced w
                 then if sw_sent_hs w && c_client (f_c f)
                      then discard_epoch 0 (set_sp (sent_all (sw_ae w) (f_sp (if sw_probe_clr w then set_probe false (writers now w (if reset then set_pacing None f else f)) else writers now w (if reset then set_pacing None f else f)))) (if sw_probe_clr w then set_probe false (writers now w (if reset then set_pacing None f else f)) else writers now w (if reset then set_pacing None f else f)))
                      else set_sp (sent_all (sw_ae w) (f_sp (if sw_probe_clr w then set_probe false (writers now w (if reset then set_pacing None f else f)) else writers now w (if reset then set_pacing None f else f)))) (if sw_probe_clr w then set_probe false (writers now w (if reset then set_pacing None f else f)) else writers now w (if reset then set_pacing None f else f))
                 else if sw_probe_clr w then set_probe false (writers now w (if reset then set_pacing None f else f)) else writers now w (if reset then set_pacing None f else f))).
    assert (Hw : oks (writers now w (if reset then set_pacing None f else f))) by (apply oks_writers; destruct reset; exact H).
    set (fw := writers now w (if reset then set_pacing None f else f)) in *.
    assert (H2 : oks (if sw_probe_clr w then set_probe false fw else fw)) by (destruct (sw_probe_clr w); exact Hw).
    set (f2 := if sw_probe_clr w then set_probe false fw else fw) in *.
    destruct (sw_produced w); [|exact H2].
    assert (H3 : oks (set_sp (sent_all (sw_ae w) (f_sp f2)) f2)) by (apply ok_sent_all; exact H2).
    destruct (sw_sent_hs w && c_client (f_c f)); [now apply oks_discard_epoch|exact H3].
  - unfold ftimer. destruct (timer now (f_c f)) as [c'|k]; [|exact H].
    destruct (fired now (f_c f)); [apply (oks_discard_all f H)|].
    assert (Ho : oks (on_loss_detection_timeout te (set_c c' f))).
    { unfold on_loss_detection_timeout. destruct (lspace (f_sp (set_c c' f))) as [[i lt]|].
      - apply oks_upd; [intros; now apply ok_detect|exact H].
      - apply oks_reschedule. exact H. }
    destruct (c_loss_at (f_c f)); [destruct (now >=? z)|]; cbn [snd]; assumption.
  - destruct (next_event (f_c f)); exact H.
  - unfold fget_timer. destruct (get_timer (acks_of f) (loss_time_of f ptod) (f_pacing f) (f_c f)); exact H.
Qed.

(* _network_paths never becomes empty again *)
Ltac ifs := repeat match goal with |- context [if ?b then _ else _] => destruct b; cbn end.

Lemma hp_do_close k c : c_has_path (do_close k c) = c_has_path c.
Proof. unfold do_close. ifs; reflexivity. Qed.
Lemma hp_srv_init c : c_has_path c = true -> c_has_path (srv_init c) = true.
Proof. unfold srv_init. ifs; auto. Qed.
Lemma hp_proc_pkt now nev pc err c : c_has_path c = true -> c_has_path (proc_pkt now nev pc err c) = true.
Proof.
  intros H. unfold proc_pkt. cbv zeta. destruct err; [rewrite hp_do_close|];
  (destruct pc; [destruct (is_none _)|]; cbn; destruct (is_firstflight _); cbn; now apply hp_srv_init).
Qed.
Lemma hp_recv_pkts now ps : forall c, c_has_path c = true -> c_has_path (recv_pkts now c ps) = true.
Proof.
  induction ps as [|p rest IH]; intros c H; [exact H|]. cbn [recv_pkts]. destruct p as [| |v idle|valid idle| |nev pc err idle].
  - exact H.
  - apply IH. now apply hp_srv_init.
  - unfold vn_pkt. ifs; auto.
  - ifs; auto.
  - rewrite hp_do_close. now apply hp_srv_init.
  - cbv zeta. pose proof (hp_proc_pkt now nev pc err c H). destruct (_ || _); [assumption|]. apply IH. exact H0.
Qed.
Lemma hp_step c o : c_has_path c = true -> c_has_path (snd (step c o)) = true.
Proof.
  intros H. destruct o; cbn [step].
  - unfold connect. ifs; auto.
  - cbn [snd]. unfold receive. destruct (is_end _); [exact H|]. destruct (c_close_pending c); [exact H|].
    apply hp_recv_pkts. destruct (is_none _); exact H.
  - cbn. now rewrite hp_do_close.
  - unfold send. rewrite H. cbn. ifs; auto.
  - unfold timer. destruct (c_close_at c); [|exact H]. ifs; auto.
  - unfold next_event. destruct (c_events c); exact H.
  - unfold get_timer. destruct (is_end _); [exact H|]. destruct (fold_left _ _ _); [|exact H].
    destruct (tmin _ _); exact H.
Qed.

(* _pacing_at is written by datagrams_to_send only *)
Lemma p_discard_epoch i f : f_pacing (discard_epoch i f) = f_pacing f.
Proof. unfold discard_epoch. destruct (nth_error (f_sp f) i); [destruct (ts_disc t)|]; reflexivity. Qed.
Lemma p_discard_all f : f_pacing (discard_all f) = f_pacing f.
Proof. unfold discard_all. now rewrite !p_discard_epoch. Qed.
Lemma p_apply_feff sp e f : f_pacing (apply_feff sp e f) = f_pacing f.
Proof.
  destruct e as [[[n lt]|]| | |ae]; cbn [apply_feff].
  - destruct (Nat.eqb sp 1 || Nat.eqb sp 2); reflexivity.
  - destruct (Nat.eqb sp 1 || Nat.eqb sp 2); reflexivity.
  - cbn. destruct (c_client (f_c f)); [reflexivity|]. cbn. now rewrite p_discard_epoch.
  - destruct (f_confirmed f); [reflexivity|]. cbn. now rewrite p_discard_epoch.
  - reflexivity.
Qed.
Lemma p_fold_feff sp es : forall f, f_pacing (fold_left (fun g e => apply_feff sp e g) es f) = f_pacing f.
Proof. induction es; intros; cbn; [reflexivity|]. now rewrite IHes, p_apply_feff. Qed.
Lemma p_fsrv_init f : f_pacing (fsrv_init f) = f_pacing f.
Proof. unfold fsrv_init. destruct (negb (c_client (f_c f)) && is_firstflight (c_state (f_c f))); reflexivity. Qed.
Lemma p_srv_discard_initial sp f : f_pacing (srv_discard_initial sp f) = f_pacing f.
Proof. unfold srv_discard_initial. destruct (negb (c_client (f_c f)) && Nat.eqb sp 1); [apply p_discard_epoch|reflexivity]. Qed.
Lemma p_frecv_pkts now ps : forall f, f_pacing (frecv_pkts now f ps) = f_pacing f.
Proof.
  induction ps as [|p rest IH]; intros f; [reflexivity|].
  cbn [frecv_pkts]. destruct (fp_base p) as [| |verdict idle|valid idle| |nev pc err idle].
  - reflexivity.
  - now rewrite IH, p_fsrv_init.
  - destruct (c_client (f_c f) && is_firstflight (c_state (f_c f)) && negb (c_vn_done (f_c f))); [|reflexivity].
    destruct (verdict =? 0); [reflexivity|]. destruct (verdict =? 1); cbn; [apply p_discard_all|reflexivity].
  - destruct (c_client (f_c f) && valid); reflexivity.
  - cbn. now rewrite p_fsrv_init.
  - cbv zeta. destruct (is_end (c_state (proc_pkt now nev pc err (f_c f))) || c_close_pending (proc_pkt now nev pc err (f_c f))).
    + cbn. now rewrite p_fold_feff, p_srv_discard_initial, p_fsrv_init.
    + rewrite IH. cbn. now rewrite p_fold_feff, p_srv_discard_initial, p_fsrv_init.
Qed.

Lemma p_fstep reset f o : (forall now pto3 w, o <> FSend now pto3 w) -> f_pacing (snd (fstep reset f o)) = f_pacing f.
Proof.
  intros Hn. destruct o as [now idle|now idle0 ps| |now pto3 w|now te| |ptod]; cbn [fstep].
  - unfold fconnect. destruct (connect now idle (f_c f)); reflexivity.
  - cbn [snd]. unfold freceive. destruct (is_end (c_state (f_c f))); [reflexivity|]. destruct (c_close_pending (f_c f)); [reflexivity|].
    now rewrite p_frecv_pkts.
  - reflexivity.
  - exfalso. eapply Hn; reflexivity.
  - unfold ftimer. destruct (timer now (f_c f)) as [c'|k]; [|reflexivity].
    destruct (fired now (f_c f)); [cbn; apply p_discard_all|].
    assert (Ho : f_pacing (on_loss_detection_timeout te (set_c c' f)) = f_pacing f).
    { unfold on_loss_detection_timeout. destruct (lspace (f_sp (set_c c' f))) as [[i lt]|]; reflexivity. }
    destruct (c_loss_at (f_c f)); [destruct (now >=? z)|]; cbn [snd]; auto.
  - destruct (next_event (f_c f)); reflexivity.
  - unfold fget_timer. destruct (get_timer (acks_of f) (loss_time_of f ptod) (f_pacing f) (f_c f)); reflexivity.
Qed.

Lemma sinv_fstep reset f o : sinv f -> sinv (snd (fstep reset f o)).
Proof.
  intros [H1 H2]. split; [now apply oks_fstep|].
  destruct (fstep_base reset f o) as [_ Hc]. rewrite Hc.
  destruct o as [now idle|now idle0 ps| |now pto3 w|now te| |ptod];
    try (rewrite p_fstep by congruence; intros Hp; apply hp_step; auto).
  intros Hp. destruct (c_has_path (f_c f)) eqn:Ehp.
  - apply hp_step; exact Ehp.
  - exfalso. cbn [fstep] in Hp. unfold fsend, send, ordinary_send in Hp. rewrite Ehp in Hp. cbn in Hp.
    apply H2 in Hp. congruence.
Qed.

Lemma sinv_init client : sinv (full_init client).
Proof. split; [constructor|cbn; congruence]. Qed.
Lemma sinv_frun reset ops : forall f, sinv f -> sinv (snd (frun reset f ops)).
Proof.
  induction ops as [|o t IH]; intros f H; [exact H|]. cbn [frun].
  pose proof (sinv_fstep reset f o H) as H1. destruct (fstep reset f o) as [r f1]. cbn in H1.
  specialize (IH f1 H1). destruct (frun reset f1 t). exact IH.
Qed.

(* ================= 3. timer_sources_sound ================= *)

Lemma fold_ack_scan l : forall i cur,
  fold_left (fun cur a => tmin a cur) (map ts_ack_at l) (Ok (Some (fst cur))) = Ok (Some (fst (ack_scan i l cur))).
Proof.
  induction l as [|s t IH]; intros i cur; [reflexivity|]. cbn [map fold_left ack_scan].
  destruct (ts_ack_at s) as [a|]; cbn [tmin].
  - rewrite <- (IH (S i)). destruct (a <? fst cur); reflexivity.
  - apply IH.
Qed.

Lemma ack_scan_spec l : forall i cur v s, ack_scan i l cur = (v, s) ->
  v <= fst cur /\ (forall sp a, In sp l -> ts_ack_at sp = Some a -> v <= a) /\
  ((v, s) = cur \/ exists j sp, s = SrcAck (i + j) /\ nth_error l j = Some sp /\ ts_ack_at sp = Some v).
Proof.
  induction l as [|h t IH]; intros i cur v s H; cbn [ack_scan] in H.
  - subst cur. cbn. repeat split; [lia|intros ? ? []|now left].
  - apply IH in H. destruct H as (H1 & H2 & H3).
    assert (Hc : fst (match ts_ack_at h with Some a => if a <? fst cur then (a, SrcAck i) else cur | None => cur end) <= fst cur
                 /\ forall a, ts_ack_at h = Some a -> fst (match ts_ack_at h with Some a => if a <? fst cur then (a, SrcAck i) else cur | None => cur end) <= a).
    { destruct (ts_ack_at h) as [a|]; [|split; [lia|congruence]].
      destruct (a <? fst cur) eqn:E; cbn; split; try lia; intros a' Ha; inversion Ha; subst; lia. }
    destruct Hc as [Hc1 Hc2]. split; [lia|]. split.
    + intros sp a [->|Hin] Ha; [specialize (Hc2 a Ha); lia|eauto].
    + destruct H3 as [H3|(j & sp & Hs & Hn & Ha)].
      * destruct (ts_ack_at h) as [a|] eqn:Ea; [|now left].
        destruct (a <? fst cur); [|now left]. right. exists O, h. inversion H3; subst. rewrite Nat.add_0_r. auto.
      * right. exists (S j), sp. rewrite Nat.add_succ_r. auto.
Qed.

Lemma lspace_from_spec l : forall i best,
  match lspace_from i l best with
  | None => best = None /\ forall sp, In sp l -> ts_loss_time sp = None
  | Some (j, lt) =>
      (forall sp x, In sp l -> ts_loss_time sp = Some x -> lt <= x) /\ (forall k b, best = Some (k, b) -> lt <= b) /\
      (best = Some (j, lt) \/ exists k sp, j = (i + k)%nat /\ nth_error l k = Some sp /\ ts_loss_time sp = Some lt)
  end.
Proof.
  induction l as [|h t IH]; intros i best; cbn [lspace_from].
  - destruct best as [[j lt]|]; [|split; [reflexivity|intros ? []]].
    repeat split; [intros ? ? []|intros k b Hb; inversion Hb; lia|now left].
  - set (best' := match ts_loss_time h, best with
                  | Some lt, None => Some (i, lt)
                  | Some lt, Some (_, b) => if lt <? b then Some (i, lt) else best
                  | None, _ => best end).
    specialize (IH (S i) best'). destruct (lspace_from (S i) t best') as [[j lt]|].
    + destruct IH as (A & B & C).
      assert (Hh : forall x, ts_loss_time h = Some x -> lt <= x).
      { intros x Hx. subst best'. rewrite Hx in B. destruct best as [[k b]|].
        - destruct (x <? b) eqn:E; [apply (B i x eq_refl)|specialize (B k b eq_refl); lia].
        - apply (B i x eq_refl). }
      assert (Hb : forall k b, best = Some (k, b) -> lt <= b).
      { intros k b ->. subst best'. destruct (ts_loss_time h) as [x|]; [|apply (B k b eq_refl)].
        destruct (x <? b) eqn:E; [specialize (B i x eq_refl); lia|apply (B k b eq_refl)]. }
      repeat split; auto.
      * intros sp x [->|Hin] Hx; eauto.
      * destruct C as [C|(k & sp & -> & Hn & Hl)].
        -- subst best'. destruct (ts_loss_time h) as [x|] eqn:Ex; [|now left].
           destruct best as [[k b]|].
           ++ destruct (x <? b); [|now left]. inversion C; subst. right. exists O, h. rewrite Nat.add_0_r. auto.
           ++ inversion C; subst. right. exists O, h. rewrite Nat.add_0_r. auto.
        -- right. exists (S k), sp. rewrite Nat.add_succ_r. auto.
    + destruct IH as [A B]. subst best'. destruct (ts_loss_time h) as [x|] eqn:Ex.
      * destruct best as [[k b]|]; [destruct (x <? b)|]; discriminate.
      * split; [exact A|]. intros sp [->|Hin]; auto.
Qed.

Lemma sum_aeif_pos l : sum_aeif l > 0 -> exists sp, In sp l /\ ts_aeif sp > 0.
Proof.
  unfold sum_aeif. induction l as [|h t IH]; cbn; [lia|]. intros H. destruct (Z_gt_le_dec (ts_aeif h) 0).
  - exists h; auto.
  - destruct IH as (sp & Hin & Hp); [lia|]. exists sp; auto.
Qed.



Lemma fget_timer_src ptod d f : is_end (c_state (f_c f)) = false -> c_close_at (f_c f) = Some d ->
  fst (fget_timer ptod f) = Ok (Some (fst (timer_src ptod d f))).
Proof.
  intros He Hd. unfold fget_timer, get_timer, acks_of. rewrite He, Hd.
  pose proof (fold_ack_scan (f_sp f) O (d, SrcClose)) as Hf. cbn [fst] in Hf. rewrite Hf. clear Hf. unfold timer_src, loss_time_of.
  set (cur := ack_scan 0 (f_sp f) (d, SrcClose)).
  destruct (lspace (f_sp f)) as [[i lt]|]; cbn [fst tmin].
  - destruct (lt <? fst cur); cbn [fst]; (destruct (f_pacing f) as [p|]; cbn [fst tmin]; [|reflexivity]).
    + destruct (p <? lt); reflexivity.
    + destruct (p <? fst cur); reflexivity.
  - destruct (negb (f_pcav f) || (sum_aeif (f_sp f) >? 0)); cbn [fst tmin].
    + destruct (ptod <? fst cur); cbn [fst]; (destruct (f_pacing f) as [p|]; cbn [fst tmin]; [|reflexivity]).
      * destruct (p <? ptod); reflexivity.
      * destruct (p <? fst cur); reflexivity.
    + destruct (f_pacing f) as [p|]; cbn [fst tmin]; [|reflexivity]. destruct (p <? fst cur); reflexivity.
Qed.

Lemma nth_error_ok l i (sp : tspace) : Forall sp_ok l -> nth_error l i = Some sp -> sp_ok sp.
Proof. intros H Hn. apply nth_error_In in Hn. rewrite Forall_forall in H. auto. Qed.

Lemma timer_src_sound ptod d f v s : oks f -> timer_src ptod d f = (v, s) ->
  src_legit ptod d f v s /\ lower_bound ptod d f v.
Proof.
  intros Hok. unfold timer_src.
  destruct (ack_scan 0 (f_sp f) (d, SrcClose)) as [v0 s0] eqn:E0.
  apply ack_scan_spec in E0. destruct E0 as (A1 & A2 & A3). cbn [fst] in *.
  assert (L0 : src_legit ptod d f v0 s0).
  { destruct A3 as [A3|(j & sp & -> & Hn & Ha)]; [inversion A3; reflexivity|]. cbn [Nat.add src_legit].
    exists sp. pose proof (nth_error_ok _ _ _ Hok Hn) as (P1 & P2 & P3 & P4). repeat split; auto.
    - destruct (ts_disc sp) eqn:Ed; [|reflexivity]. destruct (P1 eq_refl) as [Q _]. congruence.
    - apply P2. congruence. }
  pose proof (lspace_from_spec (f_sp f) O None) as Hl. fold (lspace (f_sp f)) in Hl.
  unfold lower_bound, loss_time_of.
  destruct (lspace (f_sp f)) as [[i lt]|] eqn:El.
  - destruct Hl as (B1 & B2 & B3). destruct B3 as [B3|(k & sp & -> & Hn & Hlt)]; [discriminate|]. cbn [Nat.add] in *.
    assert (L1 : src_legit ptod d f lt (SrcLossTime k)).
    { exists sp. pose proof (nth_error_ok _ _ _ Hok Hn) as (P1 & _). repeat split; auto.
      destruct (ts_disc sp) eqn:Ed; [|reflexivity]. destruct (P1 eq_refl) as (_ & Q & _). congruence. }
    destruct (lt <? v0) eqn:E1; cbn [fst].
    + destruct (f_pacing f) as [p|] eqn:Ep.
      * destruct (p <? lt) eqn:E2; intros H; inversion H; subst; (split; [cbn; auto|]);
          repeat split; try lia; intros; try (match goal with H : Some _ = Some _ |- _ => inversion H; subst end); try lia;
          try (specialize (A2 _ _ H0 H1); lia).
      * intros H; inversion H; subst. split; [exact L1|]. repeat split; try lia; intros; try discriminate;
          try (match goal with H : Some _ = Some _ |- _ => inversion H; subst end); try lia. specialize (A2 _ _ H0 H1); lia.
    + destruct (f_pacing f) as [p|] eqn:Ep.
      * destruct (p <? v0) eqn:E2; intros H; inversion H; subst; (split; [cbn; auto|]);
          repeat split; try lia; intros; try (match goal with H : Some _ = Some _ |- _ => inversion H; subst end); try lia;
          try (specialize (A2 _ _ H0 H1); lia).
      * intros H; inversion H; subst. split; [exact L0|]. repeat split; try lia; intros; try discriminate;
          try (match goal with H : Some _ = Some _ |- _ => inversion H; subst end); try lia. specialize (A2 _ _ H0 H1); lia.
  - destruct Hl as [_ Hnone].
    destruct (negb (f_pcav f) || (sum_aeif (f_sp f) >? 0)) eqn:Earm.
    + assert (L1 : src_legit ptod d f ptod SrcPto).
      { cbn. repeat split; auto. apply orb_true_iff in Earm. destruct Earm as [E|E].
        - left. now destruct (f_pcav f).
        - right. apply Z.gtb_lt in E. destruct (sum_aeif_pos (f_sp f)) as (sp & Hin & Hp); [lia|].
          exists sp. repeat split; auto. unfold oks in Hok. rewrite Forall_forall in Hok. destruct (Hok sp Hin) as (P1 & _).
          destruct (ts_disc sp); [|reflexivity]. destruct (P1 eq_refl) as (_ & _ & Q). lia. }
      destruct (ptod <? v0) eqn:E1; cbn [fst].
      * destruct (f_pacing f) as [p|] eqn:Ep.
        -- destruct (p <? ptod) eqn:E2; intros H; inversion H; subst; (split; [cbn; auto|]);
             repeat split; try lia; intros; try (match goal with H : Some _ = Some _ |- _ => inversion H; subst end); try lia;
             try (specialize (A2 _ _ H0 H1); lia).
        -- intros H; inversion H; subst. split; [exact L1|]. repeat split; try lia; intros; try discriminate;
             try (match goal with H : Some _ = Some _ |- _ => inversion H; subst end); try lia. specialize (A2 _ _ H0 H1); lia.
      * destruct (f_pacing f) as [p|] eqn:Ep.
        -- destruct (p <? v0) eqn:E2; intros H; inversion H; subst; (split; [cbn; auto|]);
             repeat split; try lia; intros; try (match goal with H : Some _ = Some _ |- _ => inversion H; subst end); try lia;
             try (specialize (A2 _ _ H0 H1); lia).
        -- intros H; inversion H; subst. split; [exact L0|]. repeat split; try lia; intros; try discriminate;
             try (match goal with H : Some _ = Some _ |- _ => inversion H; subst end); try lia. specialize (A2 _ _ H0 H1); lia.
    + cbn [fst]. destruct (f_pacing f) as [p|] eqn:Ep.
      * destruct (p <? v0) eqn:E2; intros H; inversion H; subst; (split; [cbn; auto|]);
          repeat split; try lia; intros; try discriminate; try (match goal with H : Some _ = Some _ |- _ => inversion H; subst end); try lia;
          try (specialize (A2 _ _ H0 H1); lia).
      * intros H; inversion H; subst. split; [exact L0|]. repeat split; try lia; intros; try discriminate.
        specialize (A2 _ _ H0 H1); lia.
Qed.

Lemma freach_sinv reset client o ops : sinv (snd (frun reset (full_init client) (o :: ops))).
Proof. apply sinv_frun, sinv_init. Qed.

Lemma timer_sources_sound_lemma : forall reset client o ops ptod, ffirst_op client o ->
  let f := snd (frun reset (full_init client) (o :: ops)) in
  c_state (f_c f) <> TERMINATED ->
  exists d, c_close_at (f_c f) = Some d /\
    (is_end (c_state (f_c f)) = true -> fst (fget_timer ptod f) = Ok (Some d)) /\
    (is_end (c_state (f_c f)) = false ->
       fst (fget_timer ptod f) = Ok (Some (fst (timer_src ptod d f))) /\
       src_legit ptod d f (fst (timer_src ptod d f)) (snd (timer_src ptod d f)) /\
       lower_bound ptod d f (fst (timer_src ptod d f))) /\
    Forall sp_ok (f_sp f).
Proof.
  intros reset client o ops ptod Hf f Hs.
  pose proof (freach_inv reset client o ops Hf) as Hi. fold f in Hi.
  pose proof (freach_sinv reset client o ops) as [Hok _]. fold f in Hok.
  destruct Hi as (I1 & _). destruct (c_close_at (f_c f)) as [d|] eqn:Ed; [|exfalso; apply Hs, I1; reflexivity].
  exists d. split; [reflexivity|]. split; [|split; [|exact Hok]].
  - intros He. unfold fget_timer, get_timer. rewrite He, Ed. reflexivity.
  - intros He. split; [now apply fget_timer_src|].
    apply (timer_src_sound ptod d f); [exact Hok|]. now destruct (timer_src ptod d f).
Qed.

(* ================= 4. timer_progress ================= *)


Lemma ack_scan_lt l : forall i cur v s, ack_scan i l cur = (v, s) -> (v, s) = cur \/ v < fst cur.
Proof.
  induction l as [|h t IH]; intros i cur v s H; cbn [ack_scan] in H; [left; congruence|].
  apply IH in H. destruct (ts_ack_at h) as [a|]; [|exact H]. destruct (a <? fst cur) eqn:E; [|exact H].
  apply Z.ltb_lt in E. destruct H as [H|H]; [inversion H; subst; right; exact E|cbn in H; right; lia].
Qed.

Lemma timer_src_lt ptod d f v s : timer_src ptod d f = (v, s) -> (s = SrcClose /\ v = d) \/ (s <> SrcClose /\ v < d).
Proof.
  unfold timer_src. destruct (ack_scan 0 (f_sp f) (d, SrcClose)) as [v0 s0] eqn:E0.
  assert (H0 : (s0 = SrcClose /\ v0 = d) \/ (s0 <> SrcClose /\ v0 < d)).
  { pose proof (ack_scan_spec _ _ _ _ _ E0) as (_ & _ & A3). apply ack_scan_lt in E0. cbn in E0.
    destruct E0 as [E|E]; [inversion E; auto|]. right. split; [|exact E].
    destruct A3 as [A3|(j & sp & -> & _)]; [inversion A3; lia|discriminate]. }
  cbn [fst].
  set (cur1 := match lspace (f_sp f) with
               | Some (i, lt) => if lt <? v0 then (lt, SrcLossTime i) else (v0, s0)
               | None => if negb (f_pcav f) || (sum_aeif (f_sp f) >? 0)
                         then (if ptod <? v0 then (ptod, SrcPto) else (v0, s0)) else (v0, s0) end).
  assert (H1 : (snd cur1 = SrcClose /\ fst cur1 = d) \/ (snd cur1 <> SrcClose /\ fst cur1 < d)).
  { subst cur1. destruct (lspace (f_sp f)) as [[i lt]|].
    - destruct (lt <? v0) eqn:E; [|exact H0]. apply Z.ltb_lt in E. right. cbn. split; [discriminate|]. destruct H0 as [[_ ->]|[_ H0]]; lia.
    - destruct (negb (f_pcav f) || (sum_aeif (f_sp f) >? 0)); [|exact H0].
      destruct (ptod <? v0) eqn:E; [|exact H0]. apply Z.ltb_lt in E. right. cbn. split; [discriminate|]. destruct H0 as [[_ ->]|[_ H0]]; lia. }
  destruct cur1 as [v1 s1]. cbn [fst snd] in *. destruct (f_pacing f) as [p|]; [|intros H; inversion H; subst; exact H1].
  destruct (p <? v1) eqn:E; intros H; inversion H; subst; [|exact H1].
  apply Z.ltb_lt in E. right. split; [discriminate|]. destruct H1 as [[_ ->]|[_ H1]]; lia.
Qed.

Lemma nth_upd_same g : forall l i, (i < length l)%nat -> nth i (upd i g l) ts_init = g (nth i l ts_init).
Proof. induction l; intros i H; cbn in *; [lia|]. destruct i; cbn; [reflexivity|]. apply IHl. lia. Qed.
Lemma nth_upd_other g : forall l i j, i <> j -> nth i (upd j g l) ts_init = nth i l ts_init.
Proof. induction l; intros i j H; cbn; [destruct j; reflexivity|]. destruct j, i; cbn; try reflexivity; try congruence. apply IHl. congruence. Qed.
Lemma upd_nth_error g : forall l i s, nth_error l i = Some s -> nth_error (upd i g l) i = Some (g s).
Proof. induction l; intros i s H; destruct i; cbn in *; try discriminate; [congruence|auto]. Qed.

(* the part of the firing that is common to every source other than _close_at: handle_timer does not terminate *)
Lemma fire1_not_due reset ptod v te f d : c_close_at (f_c f) = Some d -> is_end (c_state (f_c f)) = false -> v < d ->
  fire1 reset ptod v te f =
    (let f0 := set_c (set_loss_at (loss_time_of f ptod) (f_c f)) f in
     match loss_time_of f ptod with
     | Some la => if v >=? la then on_loss_detection_timeout te f0 else f0
     | None => f0
     end).
Proof.
  intros Hd He Hv. unfold fire1. cbn [fstep]. unfold fget_timer, get_timer. rewrite He.
  destruct (fold_left (fun cur a => tmin a cur) (acks_of f) (Ok (c_close_at (f_c f)))) as [cur|k] eqn:Ef.
  2:{ exfalso. rewrite Hd in Ef. unfold acks_of in Ef. pose proof (fold_ack_scan (f_sp f) O (d, SrcClose)) as Hf. cbn [fst] in Hf. congruence. }
  cbn [snd]. unfold ftimer. cbn [f_c set_c].
  assert (Ht : timer v (set_loss_at (loss_time_of f ptod) (f_c f)) = Ok (set_loss_at (loss_time_of f ptod) (f_c f))).
  { apply (timer_before_deadline _ d); [exact Hd|exact Hv]. }
  rewrite Ht. unfold fired. cbn [c_close_at set_loss_at]. rewrite Hd.
  assert (Hn : (v >=? d) = false) by (rewrite Z.geb_leb; apply Z.leb_gt; lia). rewrite Hn. cbn [c_loss_at set_loss_at].
  destruct (loss_time_of f ptod) as [la|]; [destruct (v >=? la)|]; reflexivity.
Qed.

Lemma timer_progress_close reset ptod te f d : inv (f_c f) -> c_close_at (f_c f) = Some d -> is_end (c_state (f_c f)) = false ->
  c_state (f_c (fire1 reset ptod d te f)) = TERMINATED.
Proof.
  intros Hi Hd He. unfold fire1. destruct (fstep_base reset f (FGetTimer ptod)) as [_ H0].
  set (f0 := snd (fstep reset f (FGetTimer ptod))) in *.
  assert (Hd0 : c_close_at (f_c f0) = Some d).
  { rewrite H0. cbn [base_op step]. unfold get_timer. rewrite He.
    destruct (fold_left _ _ _); [destruct (tmin _ _)|]; exact Hd. }
  assert (Hi0 : inv (f_c f0)).
  { rewrite H0. destruct (step (f_c f) (base_op f (FGetTimer ptod))) as [r c0] eqn:Es. eapply inv_step; eauto. }
  destruct (fstep_base reset f0 (FTimer d te)) as [_ H1]. rewrite H1. cbn [base_op step].
  destruct (timer_at_deadline (f_c f0) d d Hi0 Hd0 ltac:(lia)) as (c' & k & Ht & Hs & _). rewrite Ht. exact Hs.
Qed.

Lemma timer_progress_loss reset ptod te f d v i : c_close_at (f_c f) = Some d -> is_end (c_state (f_c f)) = false ->
  timer_src ptod d f = (v, SrcLossTime i) -> oks f ->
  f_sp (fire1 reset ptod v te f) = upd i (ts_detect (hd 0 (te_ae te)) (te_lt te)) (f_sp f) /\
  sp_at (fire1 reset ptod v te f) i = ts_detect (hd 0 (te_ae te)) (te_lt te) (sp_at f i) /\
  ts_disc (sp_at f i) = false.
Proof.
  intros Hd He Hs Hok. destruct (timer_src_lt _ _ _ _ _ Hs) as [[? _]|[_ Hv]]; [discriminate|].
  destruct (timer_src_sound _ _ _ _ _ Hok Hs) as [(sp & Hn & Hl & Hdi & Hls) _].
  rewrite (fire1_not_due reset ptod v te f d Hd He Hv). cbv zeta. unfold loss_time_of. rewrite Hls.
  assert (Hg : (v >=? v) = true) by (rewrite Z.geb_leb; apply Z.leb_refl). rewrite Hg.
  unfold on_loss_detection_timeout. cbn [f_sp set_c]. rewrite Hls. cbn [upd_sp set_sp f_sp].
  assert (Hlen : (i < length (f_sp f))%nat) by (apply nth_error_Some; congruence).
  assert (Hsp : sp_at f i = sp) by (unfold sp_at; now apply nth_error_nth).
  repeat split; [|rewrite Hsp; exact Hdi]. unfold sp_at, upd_sp. cbn [f_sp set_sp set_c]. rewrite nth_upd_same by exact Hlen. reflexivity.
Qed.

Lemma timer_progress_pto reset ptod te f d v : c_close_at (f_c f) = Some d -> is_end (c_state (f_c f)) = false ->
  timer_src ptod d f = (v, SrcPto) -> oks f ->
  f_pto (fire1 reset ptod v te f) = f_pto f + 1 /\ f_probe (fire1 reset ptod v te f) = true /\
  f_probes (fire1 reset ptod v te f) = f_probes f + 1.
Proof.
  intros Hd He Hs Hok. destruct (timer_src_lt _ _ _ _ _ Hs) as [[? _]|[_ Hv]]; [discriminate|].
  destruct (timer_src_sound _ _ _ _ _ Hok Hs) as [(-> & Hls & Harm) _].
  rewrite (fire1_not_due reset ptod ptod te f d Hd He Hv). cbv zeta. unfold loss_time_of. rewrite Hls.
  assert (Ha : negb (f_pcav f) || (sum_aeif (f_sp f) >? 0) = true).
  { (* the source was consulted, so it was armed *)
    revert Hs. unfold timer_src. rewrite Hls. destruct (negb (f_pcav f) || (sum_aeif (f_sp f) >? 0)); [reflexivity|].
    destruct (ack_scan 0 (f_sp f) (d, SrcClose)) as [v0 s0] eqn:E0. cbn [fst].
    pose proof (ack_scan_spec _ _ _ _ _ E0) as (_ & _ & A3).
    destruct (f_pacing f) as [p|]; [destruct (p <? v0)|]; intros H; inversion H; subst;
      destruct A3 as [A3|(j & sp & A3 & _)]; congruence. }
  rewrite Ha. assert (Hg : (ptod >=? ptod) = true) by (rewrite Z.geb_leb; apply Z.leb_refl). rewrite Hg.
  unfold on_loss_detection_timeout. cbn [f_sp set_c]. rewrite Hls. cbn. auto.
Qed.

(* ---- the pacing source ---- *)
Lemma p_whs i h f : f_pacing (snd (whs i h f)) = f_pacing f.
Proof.
  unfold whs. destruct (ts_disc (sp_at f i) || negb (hw_keys h)); [reflexivity|].
  destruct (hw_stop h =? 1); [reflexivity|]. destruct (ts_ack_at (sp_at f i)); [destruct (hw_room h)|]; reflexivity.
Qed.

Lemma p_wapp now its : forall f,
  f_pacing (wapp now its f) = f_pacing f \/ exists it, In it its /\ f_pacing (wapp now its f) = ai_pacer it.
Proof.
  induction its as [|it rest IH]; intros f; [now left|]. cbn [wapp]. cbv zeta.
  set (consult := match ts_ack_at (sp_at f 2) with None => true | Some a => a >? now end).
  set (due := match ts_ack_at (sp_at f 2) with Some a => a <=? now | None => false end).
  assert (Hrest : forall g, f_pacing g = f_pacing f \/ f_pacing g = ai_pacer it ->
            f_pacing (wapp now rest g) = f_pacing f \/ exists it0, In it0 (it :: rest) /\ f_pacing (wapp now rest g) = ai_pacer it0).
  { intros g Hg. destruct (IH g) as [E|(it0 & Hin & E)].
    - rewrite E. destruct Hg as [Hg|Hg]; [now left|]. right. exists it. split; [now left|exact Hg].
    - right. exists it0. split; [now right|exact E]. }
  assert (Hhere : forall g, f_pacing g = f_pacing f \/ f_pacing g = ai_pacer it ->
            f_pacing g = f_pacing f \/ exists it0, In it0 (it :: rest) /\ f_pacing g = ai_pacer it0).
  { intros g [Hg|Hg]; [now left|]. right. exists it. split; [now left|exact Hg]. }
  destruct consult; cbn [andb].
  - destruct (is_some (ai_pacer it)); [apply Hhere; now right|]. destruct (ai_stop it); [apply Hhere; now right|].
    destruct (f_complete f && due && negb (ai_room it)); [apply Hhere; now right|].
    destruct (f_complete f && due); (destruct (ai_empty it); [apply Hhere|apply Hrest]); now right.
  - destruct (ai_stop it); [now left|].
    destruct (f_complete f && due && negb (ai_room it)); [now left|].
    destruct (f_complete f && due); (destruct (ai_empty it); [apply Hhere|apply Hrest]); now left.
Qed.

(* when the first iteration consults the pacer, the old value does not survive *)
Lemma p_wapp_consult now it rest f : match ts_ack_at (sp_at f 2) with None => True | Some a => now < a end ->
  exists it0, In it0 (it :: rest) /\ f_pacing (wapp now (it :: rest) f) = ai_pacer it0.
Proof.
  intros Hc. cbn [wapp]. cbv zeta.
  assert (Ec : match ts_ack_at (sp_at f 2) with None => true | Some a => a >? now end = true).
  { destruct (ts_ack_at (sp_at f 2)); [apply Z.gtb_lt; lia|reflexivity]. }
  assert (Ed : match ts_ack_at (sp_at f 2) with Some a => a <=? now | None => false end = false).
  { destruct (ts_ack_at (sp_at f 2)); [apply Z.leb_gt; lia|reflexivity]. }
  rewrite Ec, Ed. cbn [andb]. rewrite !andb_false_r. cbn [andb].
  assert (Hhere : exists it0, In it0 (it :: rest) /\ f_pacing (set_pacing (ai_pacer it) f) = ai_pacer it0) by (exists it; split; [now left|reflexivity]).
  destruct (is_some (ai_pacer it)); [exact Hhere|]. destruct (ai_stop it); [exact Hhere|]. destruct (ai_empty it); [exact Hhere|].
  destruct (p_wapp now rest (set_pacing (ai_pacer it) f)) as [E|(it0 & Hin & E)].
  - exists it. split; [now left|]. rewrite E. reflexivity.
  - exists it0. split; [now right|exact E].
Qed.

Lemma sp_whs_other i j h f : i <> j -> sp_at (snd (whs j h f)) i = sp_at f i.
Proof.
  intros Hij. unfold whs. destruct (ts_disc (sp_at f j) || negb (hw_keys h)); [reflexivity|].
  destruct (hw_stop h =? 1); [reflexivity|]. destruct (ts_ack_at (sp_at f j)); [destruct (hw_room h)|]; try reflexivity.
  cbn [snd]. unfold sp_at, upd_sp. cbn [f_sp set_sp]. now apply nth_upd_other.
Qed.


Lemma p_writers now w f : f_pacing (writers now w f) = f_pacing f \/
  exists it, In it (sw_app w) /\ f_pacing (writers now w f) = ai_pacer it.
Proof.
  unfold writers. destruct (f_confirmed f).
  - destruct (sw_appkeys w); [apply p_wapp|now left].
  - pose proof (p_whs 0 (sw_h0 w) f) as P0. destruct (whs 0 (sw_h0 w) f) as [st0 f0]. cbn [snd] in P0.
    destruct st0; [now left|].
    pose proof (p_whs 1 (sw_h1 w) f0) as P1. destruct (whs 1 (sw_h1 w) f0) as [st1 f1]. cbn [snd] in P1.
    destruct st1; [left; congruence|]. destruct (sw_appkeys w); [|left; congruence].
    destruct (p_wapp now (sw_app w) f1) as [E|E]; [left; congruence|now right].
Qed.

Lemma p_writers_consult now w f : app_consults now w f ->
  exists it, In it (sw_app w) /\ f_pacing (writers now w f) = ai_pacer it.
Proof.
  intros ((Hr & Hk) & Hne & Hc). unfold writers. rewrite Hk.
  destruct (sw_app w) as [|it rest] eqn:Ea; [congruence|].
  destruct (f_confirmed f) eqn:Ecf.
  - now apply p_wapp_consult.
  - destruct Hr as [Hr|[H0 H1]]; [discriminate|].
    pose proof (sp_whs_other 2 0 (sw_h0 w) f ltac:(lia)) as S0.
    destruct (whs 0 (sw_h0 w) f) as [st0 f0]. cbn [fst snd] in *. subst st0.
    pose proof (sp_whs_other 2 1 (sw_h1 w) f0 ltac:(lia)) as S1.
    destruct (whs 1 (sw_h1 w) f0) as [st1 f1]. cbn [fst snd] in *. subst st1.
    apply p_wapp_consult. rewrite S1, S0. exact Hc.
Qed.

Lemma c_on_loss te f : f_c (on_loss_detection_timeout te f) = f_c f.
Proof. unfold on_loss_detection_timeout. destruct (lspace (f_sp f)) as [[i lt]|]; reflexivity. Qed.

Lemma timer_progress_pacing_lemma reset ptod pto3 te w f d v :
  inv (f_c f) -> sinv f -> c_close_at (f_c f) = Some d -> is_end (c_state (f_c f)) = false ->
  timer_src ptod d f = (v, SrcPacing) ->
  pacer_sane v w -> (reset = true \/ app_consults v w (fire1 reset ptod v te f)) ->
  is_end (c_state (f_c (fire2 reset ptod v pto3 te w f))) = true \/
  match f_pacing (fire2 reset ptod v pto3 te w f) with None => True | Some p => v < p end.
Proof.
  intros Hi Hsi Hd He Hs Hsane Hwhy.
  destruct (timer_src_lt _ _ _ _ _ Hs) as [[? _]|[_ Hv]]; [discriminate|].
  unfold fire2. set (f1 := fire1 reset ptod v te f) in *.
  assert (Hc1 : f_c f1 = set_loss_at (loss_time_of f ptod) (f_c f)).
  { subst f1. rewrite (fire1_not_due reset ptod v te f d Hd He Hv). cbv zeta.
    destruct (loss_time_of f ptod) as [la|]; [destruct (v >=? la)|]; try rewrite c_on_loss; reflexivity. }
  assert (Hs1 : sinv f1) by (subst f1; unfold fire1; now repeat apply sinv_fstep).
  assert (Hp1 : f_pacing f1 <> None -> c_has_path (f_c f1) = true) by apply Hs1.
  cbn [fstep]. unfold fsend, send. destruct (c_has_path (f_c f1)) eqn:Ehp; cbn [negb].
  2:{ exfalso. assert (Hpv : f_pacing f1 = Some v).
      { subst f1. unfold fire1. rewrite !p_fstep by congruence. destruct Hsi as [Hok _].
        destruct (timer_src_sound _ _ _ _ _ Hok Hs) as [L _]. exact L. }
      rewrite Hpv in Hp1. specialize (Hp1 ltac:(congruence)). congruence. }
  assert (Hst : c_state (f_c f1) = c_state (f_c f)) by (rewrite Hc1; reflexivity).
  rewrite Hst, He. destruct (c_close_pending (f_c f1)) eqn:Ecp.
  - left. unfold ordinary_send. rewrite Ehp, Hst, He, Ecp. cbn. reflexivity.
  - right. unfold ordinary_send. rewrite Ehp, Hst, He, Ecp. cbn [andb negb snd].
    set (f0 := if reset then set_pacing None f1 else f1).
    set (fw := writers v w f0).
    assert (Hpw : match f_pacing fw with None => True | Some p => v < p end).
    { assert (Hin : forall it, In it (sw_app w) -> f_pacing fw = ai_pacer it -> match f_pacing fw with None => True | Some p => v < p end).
      { intros it Hin E. rewrite E. unfold pacer_sane in Hsane. rewrite Forall_forall in Hsane. exact (Hsane it Hin). }
      destruct Hwhy as [->|Hcons].
      - subst fw f0. destruct (p_writers v w (set_pacing None f1)) as [E|(it & Hin' & E)]; [rewrite E; exact I|exact (Hin it Hin' E)].
      - destruct reset.
        + subst fw f0. destruct (p_writers v w (set_pacing None f1)) as [E|(it & Hin' & E)]; [rewrite E; exact I|exact (Hin it Hin' E)].
        + subst fw f0. destruct (p_writers_consult v w f1 Hcons) as (it & Hin' & E). exact (Hin it Hin' E). }
    cbn [f_pacing set_c]. destruct (sw_probe_clr w); (destruct (sw_produced w); [destruct (sw_sent_hs w && c_client (f_c f1))|]);
      cbn [f_pacing set_c set_sp set_probe]; try rewrite p_discard_epoch; cbn [f_pacing set_c set_sp set_probe]; exact Hpw.
Qed.



Lemma timer_progress_pacing_refuted_lemma :
  exists ops ptod d v,
    let f := snd (frun false (full_init false) ops) in
    (exists o t, ops = o :: t /\ ffirst_op false o) /\
    c_close_at (f_c f) = Some d /\ c_state (f_c f) = CONNECTED /\
    timer_src ptod d f = (v, SrcPacing) /\ pacer_sane v stale_send /\
    fst (fstep false f (FGetTimer ptod)) = RTimer (Some v) /\
    let f0 := snd (fstep false f (FGetTimer ptod)) in
    fst (frun false f0 (stale_loop ptod v)) = [RUnit; RSent SNone; RTimer (Some v)] /\
    forall n, spin false n (stale_loop ptod v) f0 = f0.
Proof.
  exists stale_history, 601, 60200, 202. cbv zeta.
  split; [eexists; eexists; split; [reflexivity|reflexivity]|].
  split; [reflexivity|]. split; [reflexivity|]. split; [reflexivity|].
  split; [repeat constructor|]. split; [reflexivity|]. split; [reflexivity|].
  assert (Hfix : snd (frun false (snd (fstep false (snd (frun false (full_init false) stale_history)) (FGetTimer 601))) (stale_loop 601 202))
                 = snd (fstep false (snd (frun false (full_init false) stale_history)) (FGetTimer 601))) by (vm_compute; reflexivity).
  induction n as [|n IH]; [reflexivity|]. cbn [spin]. rewrite Hfix. exact IH.
Qed.

(* with the reset of docs/C09-fix-1.patch the same history does not spin: after one round _pacing_at is None *)
Lemma stale_history_fixed :
  let f := snd (frun true (full_init false) stale_history) in
  let f0 := snd (fstep true f (FGetTimer 601)) in
  timer_src 601 60200 f = (202, SrcPacing) /\
  f_pacing (snd (frun true f0 (stale_loop 601 202))) = None /\
  fst (frun true f0 (stale_loop 601 202)) = [RUnit; RSent SNone; RTimer (Some 601)].
Proof. vm_compute. repeat split; reflexivity. Qed.

Lemma len_upd g : forall l i, length (upd i g l) = length l.
Proof. induction l; intros i; destruct i; cbn; auto. Qed.

Lemma whs_writes i h f a : (i < length (f_sp f))%nat -> ts_ack_at (sp_at f i) = Some a -> ts_disc (sp_at f i) = false ->
  hs_writes h -> ts_ack_at (sp_at (snd (whs i h f)) i) = None.
Proof.
  intros Hl Ha Hd (Hk & Hs & Hr). unfold whs. rewrite Hd, Hk. cbn [negb orb].
  assert (E : (hw_stop h =? 1) = false) by (apply Z.eqb_neq; exact Hs). rewrite E, Ha, Hr. cbn [snd].
  unfold sp_at, upd_sp. cbn [f_sp set_sp]. rewrite nth_upd_same by exact Hl. reflexivity.
Qed.

Lemma len_whs i h f : length (f_sp (snd (whs i h f))) = length (f_sp f).
Proof.
  unfold whs. destruct (ts_disc (sp_at f i) || negb (hw_keys h)); [reflexivity|].
  destruct (hw_stop h =? 1); [reflexivity|]. destruct (ts_ack_at (sp_at f i)); [destruct (hw_room h)|]; try reflexivity.
  cbn [snd]. unfold upd_sp. cbn [f_sp set_sp]. apply len_upd.
Qed.

Lemma complete_whs i h f : f_complete (snd (whs i h f)) = f_complete f.
Proof.
  unfold whs. destruct (ts_disc (sp_at f i) || negb (hw_keys h)); [reflexivity|].
  destruct (hw_stop h =? 1); [reflexivity|]. destruct (ts_ack_at (sp_at f i)); [destruct (hw_room h)|]; reflexivity.
Qed.

Lemma wapp_other now its : forall f i, i <> 2%nat -> sp_at (wapp now its f) i = sp_at f i.
Proof.
  induction its as [|it rest IH]; intros f i Hi; [reflexivity|]. cbn [wapp]. cbv zeta.
  set (consult := match ts_ack_at (sp_at f 2) with None => true | Some a => a >? now end).
  set (due := match ts_ack_at (sp_at f 2) with Some a => a <=? now | None => false end).
  assert (Hu : forall g, sp_at (upd_sp 2 ts_ack_written g) i = sp_at g i).
  { intros g. unfold sp_at, upd_sp. cbn [f_sp set_sp]. now apply nth_upd_other. }
  destruct consult; cbn [andb].
  - destruct (is_some (ai_pacer it)); [reflexivity|]. destruct (ai_stop it); [reflexivity|].
    destruct (f_complete f && due && negb (ai_room it)); [reflexivity|].
    destruct (f_complete f && due); (destruct (ai_empty it); [|rewrite IH by exact Hi]); try rewrite Hu; reflexivity.
  - destruct (ai_stop it); [reflexivity|].
    destruct (f_complete f && due && negb (ai_room it)); [reflexivity|].
    destruct (f_complete f && due); (destruct (ai_empty it); [|rewrite IH by exact Hi]); try rewrite Hu; reflexivity.
Qed.

Lemma wapp_keeps_none now its : forall f, ts_ack_at (sp_at f 2) = None -> ts_ack_at (sp_at (wapp now its f) 2) = None.
Proof.
  induction its as [|it rest IH]; intros f H; [exact H|]. cbn [wapp]. cbv zeta. rewrite H. cbn [andb]. rewrite !andb_false_r. cbn [andb].
  destruct (is_some (ai_pacer it)); [exact H|]. destruct (ai_stop it); [exact H|]. destruct (ai_empty it); [exact H|].
  apply IH. exact H.
Qed.

Lemma wapp_writes now it rest f a : (2 < length (f_sp f))%nat -> ts_ack_at (sp_at f 2) = Some a -> a <= now ->
  f_complete f = true -> ai_stop it = false -> ai_room it = true ->
  ts_ack_at (sp_at (wapp now (it :: rest) f) 2) = None.
Proof.
  intros Hl Ha Hle Hc Hs Hr. cbn [wapp]. cbv zeta. rewrite Ha, Hc, Hs, Hr.
  assert (E1 : (a >? now) = false) by (rewrite Z.gtb_ltb; apply Z.ltb_ge; lia).
  assert (E2 : (a <=? now) = true) by (apply Z.leb_le; lia). rewrite E1, E2. cbn [andb negb].
  assert (Hn : ts_ack_at (sp_at (upd_sp 2 ts_ack_written f) 2) = None).
  { unfold sp_at, upd_sp. cbn [f_sp set_sp]. rewrite nth_upd_same by exact Hl. reflexivity. }
  destruct (ai_empty it); [exact Hn|]. apply wapp_keeps_none. exact Hn.
Qed.

Lemma ack_sent_all : forall ns l i, ts_ack_at (nth i (sent_all ns l) ts_init) = ts_ack_at (nth i l ts_init).
Proof.
  intros ns l; revert ns; induction l as [|s t IH]; intros ns i; [destruct ns; reflexivity|].
  destruct ns as [|n ns]; [reflexivity|]. cbn [sent_all]. destruct i; cbn [nth]; [|apply IH].
  unfold ts_sent. destruct (ts_disc s); reflexivity.
Qed.

Lemma ack_none_discard j g i : ts_ack_at (sp_at g i) = None -> ts_ack_at (sp_at (discard_epoch j g) i) = None.
Proof.
  intros H. unfold discard_epoch. destruct (nth_error (f_sp g) j) as [s|] eqn:En; [|exact H]. destruct (ts_disc s); [exact H|].
  unfold sp_at, upd_sp. cbn [f_sp set_sp set_pto]. destruct (Nat.eq_dec i j) as [->|Hij].
  - rewrite nth_upd_same; [reflexivity|]. apply nth_error_Some. congruence.
  - rewrite nth_upd_other by exact Hij. exact H.
Qed.

(* what the writer chain does to the ACK of space i *)
Lemma writers_ack now w f i a : (i <= 2)%nat -> (i < length (f_sp f))%nat ->
  ts_ack_at (sp_at f i) = Some a -> a <= now -> ts_disc (sp_at f i) = false -> ack_can_send i w f ->
  ts_ack_at (sp_at (writers now w f) i) = None.
Proof.
  intros Hi Hl Ha Hle Hd [_ Hc]. unfold writers.
  destruct i as [|[|[|i]]]; [| | |lia]; cbn [ack_can_send] in Hc.
  - destruct Hc as [Hcf Hw]. rewrite Hcf.
    pose proof (whs_writes 0 (sw_h0 w) f a Hl Ha Hd Hw) as H0.
    destruct (whs 0 (sw_h0 w) f) as [st0 f0]. cbn [snd] in H0. destruct st0; [exact H0|].
    pose proof (sp_whs_other 0 1 (sw_h1 w) f0 ltac:(lia)) as S1.
    destruct (whs 1 (sw_h1 w) f0) as [st1 f1]. cbn [snd] in S1. destruct st1; [congruence|].
    destruct (sw_appkeys w); [rewrite wapp_other by lia|]; congruence.
  - destruct Hc as (Hcf & Hst & Hw). rewrite Hcf.
    pose proof (sp_whs_other 1 0 (sw_h0 w) f ltac:(lia)) as S0. pose proof (len_whs 0 (sw_h0 w) f) as L0.
    destruct (whs 0 (sw_h0 w) f) as [st0 f0]. cbn [fst snd] in *. subst st0.
    assert (H1 : ts_ack_at (sp_at (snd (whs 1 (sw_h1 w) f0)) 1) = None).
    { apply (whs_writes 1 (sw_h1 w) f0 a); [lia|congruence|congruence|exact Hw]. }
    destruct (whs 1 (sw_h1 w) f0) as [st1 f1]. cbn [snd] in H1. destruct st1; [exact H1|].
    destruct (sw_appkeys w); [rewrite wapp_other by lia|]; exact H1.
  - destruct Hc as ((Hr & Hk) & Hcp & it & rest & Hits & Hs & Hrm). rewrite Hk, Hits.
    destruct (f_confirmed f) eqn:Ecf.
    + now apply (wapp_writes now it rest f a).
    + destruct Hr as [Hr|[H0 H1]]; [discriminate|].
      pose proof (sp_whs_other 2 0 (sw_h0 w) f ltac:(lia)) as S0. pose proof (len_whs 0 (sw_h0 w) f) as L0.
      pose proof (complete_whs 0 (sw_h0 w) f) as C0.
      destruct (whs 0 (sw_h0 w) f) as [st0 f0]. cbn [fst snd] in *. subst st0.
      pose proof (sp_whs_other 2 1 (sw_h1 w) f0 ltac:(lia)) as S1. pose proof (len_whs 1 (sw_h1 w) f0) as L1.
      pose proof (complete_whs 1 (sw_h1 w) f0) as C1.
      destruct (whs 1 (sw_h1 w) f0) as [st1 f1]. cbn [fst snd] in *. subst st1.
      apply (wapp_writes now it rest f1 a); try congruence; try lia.
Qed.

Lemma len_removed_all : forall ns l, length (removed_all ns l) = length l.
Proof. intros ns l; revert ns; induction l; intros ns; destruct ns; cbn; auto. Qed.

Lemma keeps_detect n lt s : ts_ack_at (ts_detect n lt s) = ts_ack_at s /\ ts_disc (ts_detect n lt s) = ts_disc s.
Proof. unfold ts_detect. destruct (ts_disc s) eqn:E; cbn; auto. Qed.
Lemma keeps_removed n s : ts_ack_at (ts_removed n s) = ts_ack_at s /\ ts_disc (ts_removed n s) = ts_disc s.
Proof. unfold ts_removed. destruct (ts_disc s) eqn:E; cbn; auto. Qed.

Lemma keeps_upd_detect n lt : forall l j i,
  ts_ack_at (nth i (upd j (ts_detect n lt) l) ts_init) = ts_ack_at (nth i l ts_init) /\
  ts_disc (nth i (upd j (ts_detect n lt) l) ts_init) = ts_disc (nth i l ts_init).
Proof.
  intros l j i. destruct (Nat.eq_dec i j) as [->|Hij]; [|rewrite nth_upd_other by exact Hij; auto].
  destruct (Nat.lt_ge_cases j (length l)) as [Hl|Hl].
  - rewrite nth_upd_same by exact Hl. apply keeps_detect.
  - rewrite !nth_overflow; auto. rewrite len_upd. exact Hl.
Qed.

Lemma keeps_removed_all : forall ns l i,
  ts_ack_at (nth i (removed_all ns l) ts_init) = ts_ack_at (nth i l ts_init) /\
  ts_disc (nth i (removed_all ns l) ts_init) = ts_disc (nth i l ts_init).
Proof.
  intros ns l; revert ns; induction l as [|s t IH]; intros ns i; [destruct ns; auto|].
  destruct ns as [|n ns]; [auto|]. cbn [removed_all]. destruct i; cbn [nth]; [apply keeps_removed|apply IH].
Qed.

Lemma on_loss_keeps te f i :
  ts_ack_at (sp_at (on_loss_detection_timeout te f) i) = ts_ack_at (sp_at f i) /\
  ts_disc (sp_at (on_loss_detection_timeout te f) i) = ts_disc (sp_at f i) /\
  length (f_sp (on_loss_detection_timeout te f)) = length (f_sp f).
Proof.
  unfold on_loss_detection_timeout. destruct (lspace (f_sp f)) as [[j lt]|].
  - unfold sp_at, upd_sp. cbn [f_sp set_sp]. destruct (keeps_upd_detect (hd 0 (te_ae te)) (te_lt te) (f_sp f) j i). rewrite len_upd. auto.
  - unfold sp_at, reschedule_data. cbn [f_sp set_sp send_probe set_pto]. destruct (keeps_removed_all (te_ae te) (f_sp f) i). rewrite len_removed_all. auto.
Qed.


Lemma timer_progress_ack_lemma reset ptod pto3 te w f d v i :
  oks f -> c_close_at (f_c f) = Some d -> is_end (c_state (f_c f)) = false ->
  timer_src ptod d f = (v, SrcAck i) -> (i <= 2)%nat ->
  ack_can_send i w (send_state reset (fire1 reset ptod v te f)) ->
  ts_ack_at (sp_at (fire2 reset ptod v pto3 te w f) i) = None.
Proof.
  intros Hok Hd He Hs Hi Hcan.
  destruct (timer_src_lt _ _ _ _ _ Hs) as [[? _]|[_ Hv]]; [discriminate|].
  destruct (timer_src_sound _ _ _ _ _ Hok Hs) as [(sp & Hn & Ha & Hdi & _) _].
  assert (Hlen : (i < length (f_sp f))%nat) by (apply nth_error_Some; congruence).
  assert (Hsp : sp_at f i = sp) by (unfold sp_at; now apply nth_error_nth).
  unfold fire2. set (f1 := fire1 reset ptod v te f) in *.
  assert (H1 : ts_ack_at (sp_at f1 i) = Some v /\ ts_disc (sp_at f1 i) = false /\ length (f_sp f1) = length (f_sp f)).
  { subst f1. rewrite (fire1_not_due reset ptod v te f d Hd He Hv). cbv zeta.
    assert (H0 : forall g, f_sp g = f_sp f -> ts_ack_at (sp_at g i) = Some v /\ ts_disc (sp_at g i) = false /\ length (f_sp g) = length (f_sp f)).
    { intros g Hg. unfold sp_at. rewrite Hg. fold (sp_at f i). rewrite Hsp. auto. }
    destruct (loss_time_of f ptod) as [la|]; [destruct (v >=? la)|]; try (apply H0; reflexivity).
    destruct (on_loss_keeps te (set_c (set_loss_at (Some la) (f_c f)) f) i) as (K1 & K2 & K3).
    rewrite K1, K2, K3. apply H0. reflexivity. }
  destruct H1 as (A1 & D1 & L1).
  destruct Hcan as [Hord Hcan].
  assert (Hord1 : ordinary_send (f_c f1) = true) by (destruct reset; exact Hord).
  cbn [fstep]. unfold fsend.
  assert (Hsend : exists s c', send v pto3 (sw_produced w) (sw_nev w) (f_c f1) = Ok (s, c')).
  { unfold send. unfold ordinary_send in Hord1. apply andb_prop in Hord1. destruct Hord1 as [H12 H3]. apply andb_prop in H12. destruct H12 as [H1' H2'].
    rewrite H1'. cbn [negb]. destruct (is_end (c_state (f_c f1))); [discriminate|]. destruct (c_close_pending (f_c f1)); [discriminate|]. eauto. }
  destruct Hsend as (s & c' & Es). rewrite Es, Hord1. cbn [snd].
  assert (Hw : ts_ack_at (sp_at (writers v w (send_state reset f1)) i) = None).
  { apply (writers_ack v w (send_state reset f1) i v); auto; try lia.
    - destruct reset; cbn; lia.
    - destruct reset; exact A1.
    - destruct reset; exact D1.
    - split; assumption. }
  change (if reset then set_pacing None f1 else f1) with (send_state reset f1).
  set (fw := writers v w (send_state reset f1)) in *.
  assert (H2 : ts_ack_at (sp_at (if sw_probe_clr w then set_probe false fw else fw) i) = None) by (destruct (sw_probe_clr w); exact Hw).
  set (f2 := if sw_probe_clr w then set_probe false fw else fw) in *.
  destruct (sw_produced w); [|exact H2].
  assert (H3 : ts_ack_at (sp_at (set_sp (sent_all (sw_ae w) (f_sp f2)) f2) i) = None).
  { unfold sp_at. cbn [f_sp set_sp]. rewrite ack_sent_all. exact H2. }
  destruct (sw_sent_hs w && c_client (f_c f1)); [|exact H3].
  unfold sp_at. cbn [f_sp set_c]. apply (ack_none_discard 0 _ i). exact H3.
Qed.

(* ================= 6. statements over reachable states ================= *)
Lemma timer_progress_lemma : forall reset client o ops ptod pto3 te w d v s, ffirst_op client o ->
  let f := snd (frun reset (full_init client) (o :: ops)) in
  c_close_at (f_c f) = Some d -> is_end (c_state (f_c f)) = false -> timer_src ptod d f = (v, s) ->
  progress_of reset ptod pto3 te w f v s.
Proof.
  intros reset client o ops ptod pto3 te w d v s Hf f Hd He Hs.
  pose proof (freach_inv reset client o ops Hf) as Hi. fold f in Hi.
  pose proof (freach_sinv reset client o ops) as Hsi. fold f in Hsi. destruct Hsi as [Hok Hp].
  destruct s as [|i|i| |]; cbn [progress_of].
  - destruct (timer_src_lt _ _ _ _ _ Hs) as [[_ ->]|[Hn _]]; [|congruence]. now apply timer_progress_close.
  - intros Hi2 Hcan. now apply (timer_progress_ack_lemma reset ptod pto3 te w f d v i).
  - destruct (timer_progress_loss reset ptod te f d v i Hd He Hs Hok) as (_ & A & B). split; assumption.
  - now apply (timer_progress_pto reset ptod te f d v).
  - intros Hsane Hwhy. apply (timer_progress_pacing_lemma reset ptod pto3 te w f d v); auto. split; assumption.
Qed.
