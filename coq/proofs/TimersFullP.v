(* Proofs about the composed timer model (model/TimersFull.v): it refines model/Timers.v (so the 11 theorems of C09
   hold of it), the per-space invariant, timer_sources_sound, timer_progress, and the stale-_pacing_at refutation. *)
From AQ Require Import lib.Base lib.Tok model.Timers model.TimersSpec proofs.TimersP model.TimersFull.

(* ================= 1. the composed model refines model/Timers.v ================= *)

Lemma c_set_sp l f : f_c (set_sp l f) = f_c f. Proof. reflexivity. Qed.
Lemma c_upd_sp i g f : f_c (upd_sp i g f) = f_c f. Proof. reflexivity. Qed.
Lemma c_discard_epoch i f : f_c (discard_epoch i f) = f_c f.
Proof. unfold discard_epoch. destruct (nth_error (f_sp f) i); [destruct (ts_disc t)|]; reflexivity. Qed.
Lemma c_discard_all f : f_c (discard_all f) = f_c f.
Proof. unfold discard_all. now rewrite !c_discard_epoch. Qed.
Lemma c_reschedule ae f : f_c (reschedule_data ae f) = f_c f. Proof. reflexivity. Qed.
Lemma c_apply_feff sp e f : f_c (apply_feff sp e f) = f_c f.
Proof.
  destruct e as [[[n lt]|]| | |ae]; cbn [apply_feff].
  - destruct (Nat.eqb sp 1 || Nat.eqb sp 2); reflexivity.
  - destruct (Nat.eqb sp 1 || Nat.eqb sp 2); reflexivity.
  - cbn. destruct (c_client (f_c f)); [reflexivity|]. cbn. now rewrite c_discard_epoch.
  - destruct (f_confirmed f); [reflexivity|]. cbn. now rewrite c_discard_epoch.
  - reflexivity.
Qed.
Lemma c_fold_feff sp es : forall f, f_c (fold_left (fun g e => apply_feff sp e g) es f) = f_c f.
Proof. induction es; intros; cbn; [reflexivity|]. now rewrite IHes, c_apply_feff. Qed.
Lemma c_fsrv_init f : f_c (fsrv_init f) = srv_init (f_c f).
Proof. unfold fsrv_init. destruct (negb (c_client (f_c f)) && is_firstflight (c_state (f_c f))); reflexivity. Qed.
Lemma c_srv_discard_initial sp f : f_c (srv_discard_initial sp f) = f_c f.
Proof. unfold srv_discard_initial. destruct (negb (c_client (f_c f)) && Nat.eqb sp 1); [apply c_discard_epoch|reflexivity]. Qed.

Lemma c_frecv_pkts now ps : forall f, f_c (frecv_pkts now f ps) = recv_pkts now (f_c f) (map fp_base ps).
Proof.
  induction ps as [|p rest IH]; intros f; [reflexivity|].
  cbn [frecv_pkts map recv_pkts]. destruct (fp_base p) as [| |verdict idle|valid idle| |nev pc err idle].
  - reflexivity.
  - now rewrite IH, c_fsrv_init.
  - unfold vn_pkt. destruct (c_client (f_c f) && is_firstflight (c_state (f_c f)) && negb (c_vn_done (f_c f))); [|reflexivity].
    destruct (verdict =? 0); [reflexivity|]. destruct (verdict =? 1); reflexivity.
  - destruct (c_client (f_c f) && valid); reflexivity.
  - cbn. now rewrite c_fsrv_init.
  - cbv zeta. destruct (is_end (c_state (proc_pkt now nev pc err (f_c f))) || c_close_pending (proc_pkt now nev pc err (f_c f))).
    + reflexivity.
    + rewrite IH. reflexivity.
Qed.

Lemma c_whs i h f : f_c (snd (whs i h f)) = f_c f.
Proof.
  unfold whs. destruct (ts_disc (sp_at f i) || negb (hw_keys h)); [reflexivity|].
  destruct (hw_stop h =? 1); [reflexivity|]. destruct (ts_ack_at (sp_at f i)); [destruct (hw_room h)|]; reflexivity.
Qed.
Lemma c_wapp now its : forall f, f_c (wapp now its f) = f_c f.
Proof.
  induction its as [|it rest IH]; intros f; [reflexivity|]. cbn [wapp]. cbv zeta.
  set (consult := match ts_ack_at (sp_at f 2) with None => true | Some a => a >? now end).
  set (due := match ts_ack_at (sp_at f 2) with Some a => a <=? now | None => false end).
  destruct consult; cbn [andb].
  - destruct (is_some (ai_pacer it)); [reflexivity|]. destruct (ai_stop it); [reflexivity|].
    destruct (f_complete f && due && negb (ai_room it)); [reflexivity|].
    destruct (f_complete f && due); (destruct (ai_empty it); [reflexivity|rewrite IH; reflexivity]).
  - destruct (ai_stop it); [reflexivity|].
    destruct (f_complete f && due && negb (ai_room it)); [reflexivity|].
    destruct (f_complete f && due); (destruct (ai_empty it); [reflexivity|rewrite IH; reflexivity]).
Qed.
Lemma c_writers now w f : f_c (writers now w f) = f_c f.
Proof.
  unfold writers. destruct (f_confirmed f).
  - destruct (sw_appkeys w); [apply c_wapp|reflexivity].
  - destruct (whs 0 (sw_h0 w) f) as [st0 f0] eqn:E0. assert (H0 : f_c f0 = f_c f) by (change f0 with (snd (st0, f0)); rewrite <- E0; apply c_whs).
    destruct st0; [exact H0|].
    destruct (whs 1 (sw_h1 w) f0) as [st1 f1] eqn:E1. assert (H1 : f_c f1 = f_c f0) by (change f1 with (snd (st1, f1)); rewrite <- E1; apply c_whs).
    destruct st1; [congruence|]. destruct (sw_appkeys w); [rewrite c_wapp|]; congruence.
Qed.

Lemma fstep_base reset f o : fst (fstep reset f o) = fst (step (f_c f) (base_op f o)) /\
                             f_c (snd (fstep reset f o)) = snd (step (f_c f) (base_op f o)).
Proof.
  destruct o as [now idle|now idle0 ps| |now pto3 w|now te| |ptod]; cbn [fstep base_op step].
  - unfold fconnect. destruct (connect now idle (f_c f)); split; reflexivity.
  - split; [reflexivity|]. cbn [snd]. unfold freceive, receive.
    destruct (is_end (c_state (f_c f))); [reflexivity|]. destruct (c_close_pending (f_c f)); [reflexivity|].
    now rewrite c_frecv_pkts.
  - split; reflexivity.
  - unfold fsend. destruct (send now pto3 (sw_produced w) (sw_nev w) (f_c f)) as [[s c']|k]; split; try reflexivity.
    + destruct (ordinary_send (f_c f)); reflexivity.
    + destruct (ordinary_send (f_c f)); reflexivity.
  - unfold ftimer. destruct (timer now (f_c f)) as [c'|k]; [|split; reflexivity].
    destruct (fired now (f_c f)); [split; reflexivity|].
    destruct (c_loss_at (f_c f)); [destruct (now >=? z)|]; split; try reflexivity.
    unfold on_loss_detection_timeout. destruct (lspace (f_sp (set_c c' f))) as [[i lt]|]; reflexivity.
  - destruct (next_event (f_c f)); split; reflexivity.
  - unfold fget_timer. destruct (get_timer (acks_of f) (loss_time_of f ptod) (f_pacing f) (f_c f)); split; reflexivity.
Qed.

Lemma frun_base reset ops : forall f,
  fst (frun reset f ops) = fst (run (f_c f) (base_ops reset f ops)) /\
  f_c (snd (frun reset f ops)) = snd (run (f_c f) (base_ops reset f ops)).
Proof.
  induction ops as [|o t IH]; intros f; [split; reflexivity|].
  cbn [frun base_ops run]. destruct (fstep_base reset f o) as [H1 H2].
  destruct (fstep reset f o) as [r f1]. destruct (step (f_c f) (base_op f o)) as [r' c1]. cbn in H1, H2. subst.
  cbn [snd]. specialize (IH f1). destruct (frun reset f1 t) as [rs f2].
  destruct (run (f_c f1) (base_ops reset f1 t)) as [rs' c2]. cbn in IH. destruct IH; subst. split; reflexivity.
Qed.

(* how a run of the composed model may begin *)
Definition ffirst_op (client : bool) (o : fop) : Prop :=
  match o with
  | FConnect _ _ => client = true
  | FReceive _ _ _ => client = false
  | _ => False
  end.

Lemma ffirst_base client o : ffirst_op client o -> first_op client (base_op (full_init client) o).
Proof. destruct o; cbn; auto. Qed.

(* every reachable state of the composed model projects onto a reachable state of model/Timers.v (same results) *)
Lemma full_refines_timers_lemma reset client o ops : ffirst_op client o ->
  exists o' ops', first_op client o' /\
    fst (frun reset (full_init client) (o :: ops)) = fst (run (conn_init client) (o' :: ops')) /\
    f_c (snd (frun reset (full_init client) (o :: ops))) = snd (run (conn_init client) (o' :: ops')).
Proof.
  intros H. exists (base_op (full_init client) o), (base_ops reset (snd (fstep reset (full_init client) o)) ops).
  split; [now apply ffirst_base|]. exact (frun_base reset (o :: ops) (full_init client)).
Qed.

Lemma freach_inv reset client o ops : ffirst_op client o ->
  inv (f_c (snd (frun reset (full_init client) (o :: ops)))).
Proof.
  intros H. destruct (full_refines_timers_lemma reset client o ops H) as (o' & ops' & Hf & _ & Hc).
  rewrite Hc. now apply inv_reach.
Qed.
