(* C18: the builder budget of Cid.send derived from the packet-builder / frame-writer models (model/CidSend.v). *)
From Coq Require Import ZArith List Bool Lia ZifyBool.
From AQ Require Import lib.Base lib.Tok gen.C13Consts gen.C13Writers model.Builder model.Writers
  proofs.BuilderProofs proofs.WritersBase proofs.WritersFrames.
From AQ Require Import model.Cid proofs.CidP model.CidSend.
Import ListNotations.
Open Scope Z_scope.

(* ---------------------------------------------------------------- one frame, exactly *)
Lemma set_tell_tell (s : Builder.st) a b : set_tell (set_tell s a) b = set_tell s b.
Proof. reflexivity. Qed.

Lemma do_pushes_exact c ps : forall s, forallb push_okb ps = true -> b_tell s + psum ps <= c_mds c ->
  do_pushes c s ps = (ODone, set_tell s (b_tell s + psum ps), map (fun p => OpPush (psz p)) ps).
Proof.
  induction ps as [|q t IH]; intros s Hok Hfit.
  - cbn [do_pushes psum map]. replace (b_tell s + 0) with (b_tell s) by lia. destruct s; reflexivity.
  - cbn [forallb] in Hok. apply andb_true_iff in Hok. destruct Hok as [Hq Hok].
    pose proof (psum_nonneg t Hok) as Hnn. cbn [psum] in Hfit.
    assert (Hn : exists n, push_size q = Some n /\ 0 <= n /\ psz q = n).
    { unfold push_okb in Hq. unfold psz. destruct (push_size q) as [n|]; [|discriminate]. exists n. repeat split. lia. }
    destruct Hn as (n & Eq & Hn0 & Ez). rewrite Ez in Hfit.
    cbn [do_pushes map psum]. rewrite Eq, Ez.
    unfold push. destruct (n <? 0) eqn:N0; [lia|]. destruct (b_tell s + n >? c_mds c) eqn:N1; [lia|].
    rewrite IH; [|assumption|cbn [b_tell set_tell]; lia].
    cbn [b_tell set_tell]. rewrite set_tell_tell.
    replace (b_tell s + n + psum t) with (b_tell s + (n + psum t)) by lia. reflexivity.
Qed.

(* start_frame for an in-flight frame type inside an open packet: QuicPacketBuilderStop iff the room is below the declared
   capacity; otherwise the frame takes 1 + (bytes pushed) and the packet stays open *)
Lemma do_frame_exact c s ft cap ps :
  OI c s -> 0 <= ft < 64 -> zmem ft NON_IN_FLIGHT = false -> START_FRAME_EMPTY_RESERVE <= cap ->
  forallb push_okb ps = true -> 1 + psum ps <= cap ->
  (room s < cap /\ do_frame c s ft cap ps = (OStop, s, [OpStartFrame ft cap])) \/
  (cap <= room s /\ exists s', do_frame c s ft cap ps = (ODone, s', OpStartFrame ft cap :: map (fun p => OpPush (psz p)) ps) /\
      OI c s' /\ room s' = room s - (1 + psum ps)).
Proof.
  intros HOI Hft Hnif Hcap Hok Hsz.
  assert (H1 : 1 <= cap) by (unfold START_FRAME_EMPTY_RESERVE in Hcap; lia).
  assert (Hn' : zmem ft NON_IN_FLIGHT = true -> MIN_PAYLOAD <= 1 + psum ps /\ (true = false -> cur_inflight s = false))
    by (intros X; congruence).
  pose proof (do_frame_spec true c s ft cap ps HOI Hft H1 Hok (or_introl Hsz) Hn') as RFs.
  pose proof (psum_nonneg ps Hok) as Hnn.
  destruct HOI as [[[HC1 HC2] HP] [p Hc]]. destruct (HP p Hc) as (Hcr & Hge & _).
  pose proof (eq_refl : AEAD_TAG_SIZE = 16) as TG.
  unfold do_frame, start_frame in *. rewrite Hc, Hcr in *. cbn [negb] in *. rewrite Hnif in *. cbn [negb andb] in *.
  assert (Ecap : (if b_tell s - p_start p <=? p_hdr p
                  then (if cap <? START_FRAME_EMPTY_RESERVE then START_FRAME_EMPTY_RESERVE else cap) else cap) = cap).
  { destruct (_ <=? _); [|reflexivity]. destruct (cap <? START_FRAME_EMPTY_RESERVE) eqn:E; [lia|reflexivity]. }
  rewrite Ecap in *.
  destruct ((remaining_buffer_space s <? cap) || (remaining_flight_space s <? cap)) eqn:ST.
  - left. split; [unfold room; lia|reflexivity].
  - right. split; [unfold room; lia|].
    rewrite (size_small ft Hft) in *.
    assert (BW : (b_tell s + 1 >? c_mds c) = false) by (unfold remaining_buffer_space in ST; lia).
    rewrite BW in *.
    match goal with |- context [do_pushes c ?s1 ps] => set (s1' := s1) in * end.
    assert (Hfit : b_tell s1' + psum ps <= c_mds c).
    { unfold s1'. cbn [b_tell set_tell set_cur]. unfold remaining_buffer_space in ST. lia. }
    rewrite (do_pushes_exact c ps s1' Hok Hfit) in *.
    eexists. split; [reflexivity|]. destruct RFs as (_ & OIs & _). split; [exact OIs|].
    unfold room, remaining_buffer_space, remaining_flight_space, s1'. cbn [b_tell b_bcap b_fcap set_tell set_cur]. lia.
Qed.

(* ---------------------------------------------------------------- the two frame writers, exactly *)
Lemma w_ncid_exact c s cl q : OI c s -> vok q -> 0 <= cl <= CONNECTION_ID_MAX_SIZE ->
  (room s < W_new_connection_id_frame_0_cap /\
   w_new_connection_id c s q cl = (OStop, s, [OpStartFrame W_new_connection_id_frame_0_ft W_new_connection_id_frame_0_cap])) \/
  (W_new_connection_id_frame_0_cap <= room s /\ exists s',
   w_new_connection_id c s q cl = (ODone, s', ncid_ops cl q) /\ OI c s' /\ room s' = room s - ncid_size cl q).
Proof.
  intros H H1 H2. unfold w_new_connection_id, ncid_ops, ncid_size.
  assert (H0 : vok W_new_connection_id_frame_retire_prior_to) by (unfold vok, W_new_connection_id_frame_retire_prior_to; lia).
  destruct (vsz_eq q H1) as (Eq & Bq & Pq & _). destruct (vsz_eq _ H0) as (E0 & B0 & P0 & _).
  set (ps := W_new_connection_id_frame_0_pushes q W_new_connection_id_frame_retire_prior_to cl cl STATELESS_RESET_TOKEN_SIZE).
  assert (Hok : forallb push_okb ps = true).
  { unfold ps, W_new_connection_id_frame_0_pushes. norm_pushes. rewrite Pq, P0. rewrite !pok1; [reflexivity|cbv; discriminate|lia]. }
  assert (Hsum : psum ps = vsz q + vsz W_new_connection_id_frame_retire_prior_to + 1 + cl + STATELESS_RESET_TOKEN_SIZE).
  { unfold ps, W_new_connection_id_frame_0_pushes. norm_pushes. rewrite Eq, E0. lia. }
  assert (Hmap : map (fun p => OpPush (psz p)) ps =
                 map OpPush [vsz q; vsz W_new_connection_id_frame_retire_prior_to; 1; cl; STATELESS_RESET_TOKEN_SIZE]).
  { unfold ps, W_new_connection_id_frame_0_pushes. cbn [app map]. rewrite Eq, E0, !psz1, psz2. reflexivity. }
  assert (Hcap : 1 + psum ps <= W_new_connection_id_frame_0_cap).
  { rewrite Hsum. unfold W_new_connection_id_frame_0_cap, NEW_CONNECTION_ID_FRAME_CAPACITY, STATELESS_RESET_TOKEN_SIZE, CONNECTION_ID_MAX_SIZE in *. lia. }
  assert (F1 : 0 <= W_new_connection_id_frame_0_ft < 64) by (cbv; intuition congruence).
  assert (F2 : zmem W_new_connection_id_frame_0_ft NON_IN_FLIGHT = false) by reflexivity.
  assert (F3 : START_FRAME_EMPTY_RESERVE <= W_new_connection_id_frame_0_cap) by (cbv; discriminate).
  destruct (do_frame_exact c s W_new_connection_id_frame_0_ft W_new_connection_id_frame_0_cap ps H F1 F2 F3 Hok Hcap)
    as [[A B]|[A [s' [B [C D]]]]].
  - left. split; assumption.
  - right. split; [assumption|]. exists s'. rewrite B, Hmap. split; [reflexivity|]. split; [assumption|]. rewrite D, Hsum. lia.
Qed.

Lemma w_ret_exact c s q : OI c s -> vok q ->
  (room s < W_retire_connection_id_frame_0_cap /\
   w_retire_connection_id c s q = (OStop, s, [OpStartFrame W_retire_connection_id_frame_0_ft W_retire_connection_id_frame_0_cap])) \/
  (W_retire_connection_id_frame_0_cap <= room s /\ exists s',
   w_retire_connection_id c s q = (ODone, s', ret_ops q) /\ OI c s' /\ room s' = room s - ret_size q).
Proof.
  intros H H1. unfold w_retire_connection_id, ret_ops, ret_size.
  destruct (vsz_eq q H1) as (Eq & Bq & Pq & _).
  set (ps := W_retire_connection_id_frame_0_pushes q).
  assert (Hok : forallb push_okb ps = true) by (unfold ps, W_retire_connection_id_frame_0_pushes; cbn [forallb]; now rewrite Pq).
  assert (Hsum : psum ps = vsz q) by (unfold ps, W_retire_connection_id_frame_0_pushes; cbn [psum]; lia).
  assert (Hmap : map (fun p => OpPush (psz p)) ps = [OpPush (vsz q)])
    by (unfold ps, W_retire_connection_id_frame_0_pushes; cbn [map]; now rewrite Eq).
  assert (Hcap : 1 + psum ps <= W_retire_connection_id_frame_0_cap).
  { rewrite Hsum. unfold W_retire_connection_id_frame_0_cap, RETIRE_CONNECTION_ID_CAPACITY. lia. }
  assert (F1 : 0 <= W_retire_connection_id_frame_0_ft < 64) by (cbv; intuition congruence).
  assert (F2 : zmem W_retire_connection_id_frame_0_ft NON_IN_FLIGHT = false) by reflexivity.
  assert (F3 : START_FRAME_EMPTY_RESERVE <= W_retire_connection_id_frame_0_cap) by (cbv; discriminate).
  destruct (do_frame_exact c s W_retire_connection_id_frame_0_ft W_retire_connection_id_frame_0_cap ps H F1 F2 F3 Hok Hcap)
    as [[A B]|[A [s' [B [C D]]]]].
  - left. split; assumption.
  - right. split; [assumption|]. exists s'. rewrite B, Hmap. split; [reflexivity|]. split; [assumption|]. rewrite D, Hsum. lia.
Qed.

(* ---------------------------------------------------------------- a loop of such writers = fit *)
Lemma w_list_map {A B} (f : A -> B) (w : Builder.st -> B -> wres) l : forall s,
  w_list w s (map f l) = w_list (fun s a => w s (f a)) s l.
Proof.
  induction l as [|a t IH]; intros s; cbn [map w_list]; [reflexivity|].
  destruct (w s (f a)) as [[o s1] tr]. unfold wseq. destruct o; try reflexivity. now rewrite IH.
Qed.

Lemma fit_bounds cap : forall szs rm, 0 <= fst (fit cap rm szs) <= Zlen szs.
Proof.
  induction szs as [|z t IH]; intros rm; cbn [fit]; [cbn; lia|].
  rewrite zlen_cons. destruct (rm <? cap); [cbn [fst]; pose proof (zlen_nonneg t); lia|].
  specialize (IH (rm - z)). destruct (fit cap (rm - z) t). cbn [fst] in *. lia.
Qed.

Lemma w_list_fit c (Q : Z -> Prop) (w : Builder.st -> Z -> wres) (cap : Z) (size : Z -> Z) (ops : Z -> list Builder.op)
  (stop : Builder.op) :
  (forall s a, OI c s -> Q a ->
     (room s < cap /\ w s a = (OStop, s, [stop])) \/
     (cap <= room s /\ exists s', w s a = (ODone, s', ops a) /\ OI c s' /\ room s' = room s - size a)) ->
  forall l s, Forall Q l -> OI c s ->
    let n := fst (fit cap (room s) (map size l)) in
    exists s', w_list w s l = (if n <? Zlen l then OStop else ODone, s',
                               flat_map ops (firstn (Z.to_nat n) l) ++ (if n <? Zlen l then [stop] else []))
      /\ OI c s' /\ room s' = snd (fit cap (room s) (map size l)).
Proof.
  intros Hw. induction l as [|a t IH]; intros s HQ Hs.
  - cbv zeta. exists s. split; [reflexivity|split; [assumption|reflexivity]].
  - inversion HQ as [|? ? Ha Ht]; subst. cbv zeta. cbn [map fit w_list]. rewrite zlen_cons.
    destruct (Hw s a Hs Ha) as [[R E]|[R [s1 [E [O1 R1]]]]].
    + replace (room s <? cap) with true by lia. cbn [fst snd]. rewrite E. unfold wseq.
      pose proof (zlen_nonneg t). replace (0 <? 1 + Zlen t) with true by lia. cbn [Z.to_nat firstn flat_map app].
      exists s. split; [reflexivity|split; [assumption|reflexivity]].
    + replace (room s <? cap) with false by lia. rewrite E.
      specialize (IH s1 Ht O1). rewrite R1 in IH. pose proof (fit_bounds cap (map size t) (room s - size a)) as Bd.
      destruct (fit cap (room s - size a) (map size t)) as [n r]. cbn [fst snd] in *.
      destruct IH as [s2 [E2 [O2 R2]]]. unfold wseq. rewrite E2.
      replace (1 + n <? 1 + Zlen t) with (n <? Zlen t) by lia.
      replace (Z.to_nat (1 + n)) with (S (Z.to_nat n)) by lia. cbn [firstn flat_map]. rewrite <- app_assoc.
      exists s2. split; [reflexivity|split; assumption].
Qed.

(* ---------------------------------------------------------------- Cid.send writes prefixes *)
Lemma app_prefix_firstn {A} (a b l : list A) : l = a ++ b -> firstn (length a) l = a.
Proof. intros ->. rewrite firstn_app, Nat.sub_diag, firstn_all. cbn. now rewrite app_nil_r. Qed.

Lemma write_rets_firstn pd : forall b, 0 <= b -> fst (write_rets pd b) = firstn (Z.to_nat b) pd.
Proof.
  induction pd as [|q t IH]; intros b Hb; cbn [write_rets]; [now rewrite firstn_nil|].
  destruct (b <=? 0) eqn:E.
  - assert (b = 0) by lia. subst b. reflexivity.
  - specialize (IH (b - 1)). destruct (write_rets t (b - 1)) as [w r]. cbn [fst] in *.
    replace (Z.to_nat b) with (S (Z.to_nat (b - 1))) by lia. cbn [firstn]. rewrite IH by lia. reflexivity.
Qed.

(* the frame start_frame refuses when the budget does not cover everything owed *)
Definition refused_op (s : Cid.st) (b : Z) : Builder.op :=
  if b <? Zlen (unsent (hosts s))
  then OpStartFrame W_new_connection_id_frame_0_ft W_new_connection_id_frame_0_cap
  else OpStartFrame W_retire_connection_id_frame_0_ft W_retire_connection_id_frame_0_cap.

(* cid_budget_from_builder: in EVERY open-packet state of the builder model and for every connection-ID state, the CID
   loops of _write_application as the writer model (C13) runs them write exactly the frames Cid.send writes with the
   budget computed from the room -- the same sequence numbers, in the same order, NEW_CONNECTION_ID before
   RETIRE_CONNECTION_ID -- and end with QuicPacketBuilderStop iff that budget does not cover what is owed. *)
Theorem cid_budget_from_builder_l c bs cl s :
  OI c bs -> 0 <= cl <= CONNECTION_ID_MAX_SIZE -> Forall vok (unsent (hosts s)) -> Forall vok (pend s) ->
  let b := budget_of bs cl s in
  let r := fst (send s b) in
  exists bs',
    w_cid c bs cl s = (if b <? owed s then OStop else ODone, bs',
                       flat_map (ncid_ops cl) (snd (fst r)) ++ flat_map ret_ops (snd r) ++
                       (if b <? owed s then [refused_op s b] else [])) /\
    OI c bs' /\ room bs' = cid_room_after (room bs) cl (unsent (hosts s)) (pend s) /\ 0 <= b <= owed s.
Proof.
  intros Hbs Hcl Hu Hp. cbv zeta. unfold budget_of, cid_budget, cid_room_after, w_cid, w_cid_loops, cid_news_in, refused_op, owed.
  rewrite send_news. rewrite w_list_map. cbn [fst snd].
  pose proof (w_list_fit c vok (fun s q => w_new_connection_id c s q cl) W_new_connection_id_frame_0_cap (ncid_size cl) (ncid_ops cl)
                (OpStartFrame W_new_connection_id_frame_0_ft W_new_connection_id_frame_0_cap)
                (fun s a Ho Ha => w_ncid_exact c s cl a Ho Ha Hcl) (unsent (hosts s)) bs Hu Hbs) as L1.
  cbv zeta in L1.
  pose proof (fit_bounds W_new_connection_id_frame_0_cap (map (ncid_size cl) (unsent (hosts s))) (room bs)) as B1.
  rewrite zlen_map in B1.
  destruct (fit W_new_connection_id_frame_0_cap (room bs) (map (ncid_size cl) (unsent (hosts s)))) as [n1 r1].
  cbn [fst snd] in *. destruct L1 as [s1 [E1 [O1 R1]]]. rewrite E1.
  pose proof (zlen_nonneg (pend s)) as Np.
  pose proof (wn_left_spec (hosts s) n1) as Ls. pose proof (wn_unsent_split (hosts s) n1) as Sp.
  pose proof (wn_news_len (hosts s) n1) as Nl. pose proof (send_rets s n1) as Sr.
  destruct (n1 <? Zlen (unsent (hosts s))) eqn:En.
  - (* the builder stopped inside the NEW_CONNECTION_ID loop *)
    replace (n1 <? Zlen (unsent (hosts s)) + Zlen (pend s)) with true by lia.
    assert (Lf : wn_left (hosts s) n1 = None /\ Zlen (wn_news (hosts s) n1) = n1).
    { destruct (wn_left (hosts s) n1).
      - destruct Ls as [A _]. rewrite A, app_nil_r in Sp. rewrite <- Sp in Nl. lia.
      - destruct Ls as [_ A]. split; [reflexivity|lia]. }
    destruct Lf as [Lf Ln]. rewrite Lf in Sr. destruct Sr as [Sr _]. rewrite Sr.
    assert (Pf : firstn (Z.to_nat n1) (unsent (hosts s)) = wn_news (hosts s) n1).
    { rewrite <- (app_prefix_firstn _ _ _ Sp). f_equal. unfold Zlen in Ln. lia. }
    unfold wseq. rewrite Pf. cbn [flat_map app]. rewrite ?En.
    exists s1. split; [reflexivity|]. split; [assumption|]. split; [assumption|lia].
  - (* every owed NEW_CONNECTION_ID was accepted: the RETIRE_CONNECTION_ID loop runs *)
    assert (N1 : n1 = Zlen (unsent (hosts s))) by lia.
    pose proof (w_list_fit c vok (w_retire_connection_id c) W_retire_connection_id_frame_0_cap ret_size ret_ops
                  (OpStartFrame W_retire_connection_id_frame_0_ft W_retire_connection_id_frame_0_cap)
                  (fun s a Ho Ha => w_ret_exact c s a Ho Ha) (pend s) s1 Hp O1) as L2.
    cbv zeta in L2. rewrite R1 in L2.
    pose proof (fit_bounds W_retire_connection_id_frame_0_cap (map ret_size (pend s)) r1) as B2. rewrite zlen_map in B2.
    destruct (fit W_retire_connection_id_frame_0_cap r1 (map ret_size (pend s))) as [n2 r2]. cbn [fst snd] in *.
    destruct L2 as [s2 [E2 [O2 R2]]].
    assert (Hb : Zlen (unsent (hosts s)) <= n1 + n2) by lia.
    destruct (wn_enough _ _ Hb) as (Le & Lw & _).
    pose proof (send_rets s (n1 + n2)) as Sr2. rewrite Le in Sr2. destruct Sr2 as [Sr2 _].
    replace (n1 + n2 - Zlen (unsent (hosts s))) with n2 in Sr2 by lia.
    rewrite Sr2, Lw, (write_rets_firstn _ _ (proj1 B2)).
    replace (firstn (Z.to_nat n1) (unsent (hosts s))) with (unsent (hosts s)) by (symmetry; apply firstn_all2; unfold Zlen in N1; lia).
    unfold wseq. rewrite E2. rewrite app_nil_r.
    replace (n1 + n2 <? Zlen (unsent (hosts s)) + Zlen (pend s)) with (n2 <? Zlen (pend s)) by lia.
    replace (n1 + n2 <? Zlen (unsent (hosts s))) with false by lia.
    exists s2. split; [reflexivity|]. split; [assumption|]. split; [assumption|lia].
Qed.

(* ---------------------------------------------------------------- how large the budget is *)
Lemma vsz_range v : 0 <= vsz v <= 8.
Proof.
  unfold vsz, Varint.size_uint_var.
  destruct (v <=? 63); [lia|]. destruct (v <=? 16383); [lia|]. destruct (v <=? 1073741823); [lia|].
  destruct (v <=? Varint.UINT_VAR_MAX); lia.
Qed.

Lemma ncid_size_range cl q : 0 <= cl <= CONNECTION_ID_MAX_SIZE -> 0 <= ncid_size cl q <= W_new_connection_id_frame_0_cap.
Proof.
  intros H. unfold ncid_size. pose proof (vsz_range q). pose proof (vsz_range W_new_connection_id_frame_retire_prior_to).
  unfold W_new_connection_id_frame_0_cap, NEW_CONNECTION_ID_FRAME_CAPACITY, STATELESS_RESET_TOKEN_SIZE, CONNECTION_ID_MAX_SIZE in *. lia.
Qed.

Lemma ret_size_range q : 0 <= ret_size q <= W_retire_connection_id_frame_0_cap.
Proof. unfold ret_size. pose proof (vsz_range q). unfold W_retire_connection_id_frame_0_cap, RETIRE_CONNECTION_ID_CAPACITY. lia. Qed.

Lemma div_step rm cap : 0 < cap -> (rm - cap) / cap = rm / cap - 1.
Proof. intros H. replace (rm - cap) with (rm + (-1) * cap) by lia. rewrite Z.div_add by lia. lia. Qed.

(* frames no larger than their declared capacity: at least floor(room / capacity) of them are accepted (or all), and the
   room shrinks by at most capacity per accepted frame *)
Lemma fit_lower cap : 0 < cap -> forall szs rm, Forall (fun z => z <= cap) szs ->
  Z.min (Zlen szs) (rm / cap) <= fst (fit cap rm szs) /\ rm - cap * fst (fit cap rm szs) <= snd (fit cap rm szs).
Proof.
  intros Hc. induction szs as [|z t IH]; intros rm F; cbn [fit].
  - cbn [fst snd]. change (Zlen (@nil Z)) with 0. lia.
  - inversion F as [|? ? Hz Ht]; subst. rewrite zlen_cons. pose proof (zlen_nonneg t) as Nt.
    destruct (rm <? cap) eqn:E; cbn [fst snd].
    + assert (rm / cap < 1) by (apply Z.div_lt_upper_bound; lia). lia.
    + specialize (IH (rm - z) Ht). destruct (fit cap (rm - z) t) as [n r]. cbn [fst snd] in *.
      assert ((rm - cap) / cap <= (rm - z) / cap) by (apply Z.div_le_mono; lia).
      rewrite div_step in H by lia. lia.
Qed.

(* cid_budget_lower: whatever the mix of frames owed, at least floor(room / 54) of them (or all) are accepted *)
Lemma cid_budget_lower rm cl news rets : 0 <= cl <= CONNECTION_ID_MAX_SIZE ->
  Z.min (Zlen news + Zlen rets) (frames_per_room rm) <= cid_budget rm cl news rets.
Proof.
  intros Hcl. unfold cid_budget, frames_per_room.
  assert (C1 : 0 < W_new_connection_id_frame_0_cap) by reflexivity.
  assert (C2 : 0 < W_retire_connection_id_frame_0_cap) by reflexivity.
  assert (F1 : Forall (fun z => z <= W_new_connection_id_frame_0_cap) (map (ncid_size cl) news)).
  { apply Forall_forall. intros z Hz. apply in_map_iff in Hz. destruct Hz as [q [<- _]]. now apply ncid_size_range. }
  assert (F2 : Forall (fun z => z <= W_retire_connection_id_frame_0_cap) (map ret_size rets)).
  { apply Forall_forall. intros z Hz. apply in_map_iff in Hz. destruct Hz as [q [<- _]]. apply ret_size_range. }
  destruct (fit_lower _ C1 _ rm F1) as [L1 R1]. pose proof (fit_bounds W_new_connection_id_frame_0_cap (map (ncid_size cl) news) rm) as B1.
  rewrite zlen_map in *.
  destruct (fit W_new_connection_id_frame_0_cap rm (map (ncid_size cl) news)) as [n1 r1]. cbn [fst snd] in *.
  pose proof (zlen_nonneg rets) as Nr.
  destruct (n1 <? Zlen news) eqn:En; [lia|].
  destruct (fit_lower _ C2 _ r1 F2) as [L2 _]. pose proof (fit_bounds W_retire_connection_id_frame_0_cap (map ret_size rets) r1) as B2.
  rewrite zlen_map in *.
  destruct (fit W_retire_connection_id_frame_0_cap r1 (map ret_size rets)) as [n2 r2]. cbn [fst snd] in *.
  assert (N1 : n1 = Zlen news) by lia.
  destruct (Z_le_gt_dec (rm / W_new_connection_id_frame_0_cap) n1) as [Hle|Hgt]; [lia|].
  (* more room than the NEW_CONNECTION_ID frames took: the rest serves the RETIRE frames, whose capacity is smaller *)
  assert (Hr : rm / W_new_connection_id_frame_0_cap - n1 <= r1 / W_retire_connection_id_frame_0_cap).
  { assert (E : (rm - W_new_connection_id_frame_0_cap * n1) / W_new_connection_id_frame_0_cap = rm / W_new_connection_id_frame_0_cap - n1).
    { replace (rm - W_new_connection_id_frame_0_cap * n1) with (rm + (- n1) * W_new_connection_id_frame_0_cap) by lia.
      rewrite Z.div_add by lia. lia. }
    rewrite <- E.
    assert (P : 0 <= rm - W_new_connection_id_frame_0_cap * n1).
    { pose proof (Z.mul_div_le rm W_new_connection_id_frame_0_cap C1). nia. }
    transitivity ((rm - W_new_connection_id_frame_0_cap * n1) / W_retire_connection_id_frame_0_cap).
    - apply Z.div_le_compat_l; [assumption|]. unfold W_new_connection_id_frame_0_cap, W_retire_connection_id_frame_0_cap,
        NEW_CONNECTION_ID_FRAME_CAPACITY, RETIRE_CONNECTION_ID_CAPACITY. lia.
    - apply Z.div_le_mono; lia. }
  lia.
Qed.

(* a packet with room for the declared capacity of the FIRST frame owed makes progress; one without writes nothing *)
Lemma first_frame_decides rm cl news rets :
  let cap := match news with _ :: _ => W_new_connection_id_frame_0_cap | [] => W_retire_connection_id_frame_0_cap end in
  (rm < cap -> cid_budget rm cl news rets = 0) /\
  (cap <= rm -> news <> [] \/ rets <> [] -> 1 <= cid_budget rm cl news rets).
Proof.
  unfold cid_budget. destruct news as [|q t].
  - cbn [map fit Zlen length Z.of_nat Z.ltb Z.compare]. destruct rets as [|p u]; cbn [map fit].
    + cbn. split; [reflexivity|intros _ [H|H]; congruence].
    + split; intros H.
      * replace (rm <? W_retire_connection_id_frame_0_cap) with true by lia. reflexivity.
      * intros _. replace (rm <? W_retire_connection_id_frame_0_cap) with false by lia.
        pose proof (fit_bounds W_retire_connection_id_frame_0_cap (map ret_size u) (rm - ret_size p)).
        destruct (fit _ _ _) as [n r]. cbn [fst] in *. lia.
  - cbn [map fit]. rewrite zlen_cons. pose proof (zlen_nonneg t). split; intros H0.
    + replace (rm <? W_new_connection_id_frame_0_cap) with true by lia. replace (0 <? 1 + Zlen t) with true by lia. reflexivity.
    + intros _. replace (rm <? W_new_connection_id_frame_0_cap) with false by lia.
      pose proof (fit_bounds W_new_connection_id_frame_0_cap (map (ncid_size cl) t) (rm - ncid_size cl q)) as B.
      destruct (fit _ _ _) as [n r]. cbn [fst] in *.
      destruct (1 + n <? 1 + Zlen t); [lia|].
      pose proof (fit_bounds W_retire_connection_id_frame_0_cap (map ret_size rets) r). lia.
Qed.

(* ---------------------------------------------------------------- the composed model: no free budget *)
(* breach c l s: s is reachable when EVERY datagrams_to_send is a [BSend bs cl] -- its budget is computed from the builder
   state bs in which the CID loops start -- and every other op is one of Cid's except the free-budget [Send] *)
Definition blegit (s : Cid.st) (o : bop) : Prop :=
  match o with
  | BSend _ _ => True
  | BOp (Send _) => False
  | BOp o => legit s o
  end.

Inductive breach (c : bool) (l : Z) : Cid.st -> Prop :=
| breach_init : breach c l (handshake_complete (init c) l)
| breach_step s o : breach c l s -> blegit s o -> breach c l (snd (bstep s o)).

Lemma breach_reach c l s : breach c l s -> reach c l s.
Proof.
  intros R. induction R as [|s o R IH Lg]; [constructor|]. unfold bstep. apply reach_step; [exact IH|].
  destruct o as [bs cl|o]; cbn [to_op blegit legit] in *; [exact I|]. destruct o; cbn [legit] in *; tauto.
Qed.

Lemma retirement_announced_built_l c l s q : breach c l s -> In q (recvd s) ->
  q = cur s \/ In q (avail s) \/ In q (pend s) \/ In q (outs s) \/ In q (ackd s).
Proof. intros R. apply (retirement_announced_l c l). now apply breach_reach. Qed.

Lemma refused_stays_pending_built s bs cl :
  pend s = snd (fst (send_built bs cl s)) ++ pend (snd (send_built bs cl s)) /\
  outs (snd (send_built bs cl s)) = outs s ++ snd (fst (send_built bs cl s)).
Proof. apply refused_stays_pending. Qed.

(* what one composed send writes *)
Lemma send_built_progress bs cl s : 0 <= cl <= CONNECTION_ID_MAX_SIZE ->
  let b := budget_of bs cl s in
  0 <= b <= owed s /\
  Zlen (snd (fst (fst (send_built bs cl s)))) + Zlen (snd (fst (send_built bs cl s))) = b /\
  owed (snd (send_built bs cl s)) = owed s - b /\
  Z.min (owed s) (frames_per_room (room bs)) <= b.
Proof.
  intros Hcl. cbv zeta. unfold send_built.
  assert (B : 0 <= budget_of bs cl s <= owed s).
  { unfold budget_of, cid_budget, owed.
    pose proof (fit_bounds W_new_connection_id_frame_0_cap (map (ncid_size cl) (unsent (hosts s))) (room bs)) as B1.
    rewrite zlen_map in B1. destruct (fit _ _ _) as [n1 r1]. cbn [fst] in B1.
    pose proof (fit_bounds W_retire_connection_id_frame_0_cap (map ret_size (pend s)) r1) as B2. rewrite zlen_map in B2.
    pose proof (zlen_nonneg (pend s)). destruct (n1 <? Zlen (unsent (hosts s))); lia. }
  destruct (send_progress s (budget_of bs cl s)) as [P1 P2].
  pose proof (cid_budget_lower (room bs) cl (unsent (hosts s)) (pend s) Hcl) as L.
  fold (budget_of bs cl s) in L. unfold owed in *. repeat split; lia.
Qed.

Lemma send_closed_built bs cl s : closed (snd (send_built bs cl s)) = closed s.
Proof. apply send_closed. Qed.

(* fair_sends_drain for the composed model: when every datagrams_to_send starts its CID loops with room for at least k >= 1
   frames (k = floor(room / 54)), ceil(owed / k) calls leave no retirement pending and no NEW_CONNECTION_ID owed *)
Lemma fair_sends_drain_built_l k cl : 1 <= k -> 0 <= cl <= CONNECTION_ID_MAX_SIZE -> forall bss s,
  closed s = None -> Forall (fun bs => k <= frames_per_room (room bs)) bss -> owed s <= k * Zlen bss ->
  let s' := brun s (map (fun bs => BSend bs cl) bss) in pend s' = [] /\ unsent (hosts s') = [].
Proof.
  intros Hk Hcl. induction bss as [|bs bss IH]; intros s Ec F Ho; cbn [map brun].
  - change (Zlen (@nil Builder.st)) with 0 in Ho. unfold owed in Ho.
    pose proof (zlen_nonneg (pend s)). pose proof (zlen_nonneg (unsent (hosts s))).
    split; apply zlen_zero_nil; lia.
  - inversion F as [|? ? Hb Hbs]; subst. unfold bstep. cbn [to_op step]. rewrite Ec. cbn [snd].
    change (send s (budget_of bs cl s)) with (send_built bs cl s).
    apply IH; [now rewrite send_closed_built|assumption|].
    destruct (send_built_progress bs cl s Hcl) as (B & _ & P & L). rewrite P. rewrite zlen_cons in Ho.
    pose proof (zlen_nonneg bss). nia.
Qed.

(* one packet with room for the first frame owed makes progress (and one without leaves everything as it was) *)
Lemma send_built_first_frame bs cl s : owed s <> 0 ->
  let cap := match unsent (hosts s) with _ :: _ => W_new_connection_id_frame_0_cap | [] => W_retire_connection_id_frame_0_cap end in
  (room bs < cap -> budget_of bs cl s = 0 /\ owed (snd (send_built bs cl s)) = owed s) /\
  (cap <= room bs -> 1 <= budget_of bs cl s /\ owed (snd (send_built bs cl s)) < owed s).
Proof.
  intros Ho. cbv zeta. destruct (first_frame_decides (room bs) cl (unsent (hosts s)) (pend s)) as [A B].
  fold (budget_of bs cl s) in A, B. unfold send_built.
  destruct (send_progress s (budget_of bs cl s)) as [_ P]. split; intros H.
  - specialize (A H). rewrite A in *. split; [reflexivity|]. rewrite P. unfold owed.
    pose proof (zlen_nonneg (pend s)). pose proof (zlen_nonneg (unsent (hosts s))). lia.
  - assert (Hne : unsent (hosts s) <> [] \/ pend s <> []).
    { unfold owed in Ho. destruct (unsent (hosts s)); [|left; discriminate]. destruct (pend s); [|right; discriminate].
      exfalso. apply Ho. reflexivity. }
    specialize (B H Hne). split; [exact B|]. rewrite P. unfold owed in *.
    pose proof (zlen_nonneg (pend s)). pose proof (zlen_nonneg (unsent (hosts s))). lia.
Qed.

(* ---------------------------------------------------------------- a full-size empty 1-RTT packet *)
Lemma fresh_packet_room c pn :
  SMALLEST_MAX_DATAGRAM_SIZE <= c_mds c -> 0 <= c_peer c <= CONNECTION_ID_MAX_SIZE ->
  (forall m, c_max_flight c = Some m -> c_mds c <= m) -> (forall m, c_max_total c = Some m -> c_mds c <= m) ->
  exists bs, fresh_packet c pn = Some bs /\ OI c bs /\
             room bs = c_mds c - (SHORT_HEADER_FIXED + c_peer c) - AEAD_TAG_SIZE /\ 21 <= frames_per_room (room bs).
Proof.
  intros Hm Hp Hf Ht. unfold fresh_packet, start_packet, init_st, end_current. cbn [valid_ptype negb b_cur].
  change (valid_ptype PT_ONE_RTT) with true. cbn [negb b_bcap b_tell].
  unfold SMALLEST_MAX_DATAGRAM_SIZE, CONNECTION_ID_MAX_SIZE in *.
  replace (c_mds c - 0 <? DATAGRAM_MIN_SPACE) with false by (unfold DATAGRAM_MIN_SPACE; lia).
  unfold datagram_init. cbn [b_dginit b_total b_flight b_bcap b_tell b_cur b_hascrypto b_pn b_dgrams b_pkts g_log].
  assert (Eb : match c_max_total c with Some m => if m - 0 <? c_mds c then m - 0 else c_mds c | None => c_mds c end = c_mds c).
  { destruct (c_max_total c) as [m|] eqn:E; [|reflexivity]. specialize (Ht m eq_refl). destruct (m - 0 <? c_mds c) eqn:E2; lia. }
  rewrite Eb.
  assert (Ef : match c_max_flight c with Some m => if m - 0 <? c_mds c then m - 0 else c_mds c | None => c_mds c end = c_mds c).
  { destruct (c_max_flight c) as [m|] eqn:E; [|reflexivity]. specialize (Hf m eq_refl). destruct (m - 0 <? c_mds c) eqn:E2; lia. }
  rewrite Ef. cbn [b_bcap b_tell b_fcap b_dgflight b_dginit b_dgpad b_flight b_total b_cur b_hascrypto b_pn b_dgrams b_pkts g_hasinit g_log].
  unfold header_size. change (negb (PT_ONE_RTT =? PT_ONE_RTT)) with false. cbv iota.
  replace (0 + (SHORT_HEADER_FIXED + c_peer c) >=? c_mds c) with false by (unfold SHORT_HEADER_FIXED; lia).
  eexists. split; [reflexivity|]. split; [|split].
  - split; [split|eexists; reflexivity].
    + unfold caps_ok. cbn [b_fcap b_bcap]. lia.
    + intros p Hp'. cbn [b_cur] in Hp'.
      assert (Ep : p = mkPkt PT_ONE_RTT 0 (SHORT_HEADER_FIXED + c_peer c) false false false pn) by congruence.
      rewrite Ep. cbn [b_hascrypto b_tell p_start p_hdr p_inflight].
      split; [reflexivity|]. split; [lia|]. intros _. left. unfold cur_payload. cbn [b_cur b_tell p_start p_hdr]. lia.
  - unfold room, remaining_buffer_space, remaining_flight_space. cbn [b_bcap b_fcap b_tell]. lia.
  - unfold frames_per_room, room, remaining_buffer_space, remaining_flight_space. cbn [b_bcap b_fcap b_tell].
    unfold SHORT_HEADER_FIXED, AEAD_TAG_SIZE, W_new_connection_id_frame_0_cap, NEW_CONNECTION_ID_FRAME_CAPACITY.
    apply Z.div_le_lower_bound; lia.
Qed.

(* ... so with full-size empty packets 21 frames go out per call *)
Lemma full_packets_drain_l cl bss s : 0 <= cl <= CONNECTION_ID_MAX_SIZE -> closed s = None ->
  Forall (fun bs => exists c pn, SMALLEST_MAX_DATAGRAM_SIZE <= c_mds c /\ 0 <= c_peer c <= CONNECTION_ID_MAX_SIZE /\
                      (forall m, c_max_flight c = Some m -> c_mds c <= m) /\ (forall m, c_max_total c = Some m -> c_mds c <= m) /\
                      fresh_packet c pn = Some bs) bss ->
  owed s <= 21 * Zlen bss ->
  let s' := brun s (map (fun bs => BSend bs cl) bss) in pend s' = [] /\ unsent (hosts s') = [].
Proof.
  intros Hcl Ec F Ho. apply (fair_sends_drain_built_l 21); try assumption; [lia|].
  eapply Forall_impl; [|exact F]. cbn beta. intros bs (c & pn & H1 & H2 & H3 & H4 & H5).
  destruct (fresh_packet_room c pn H1 H2 H3 H4) as (bs' & E & _ & _ & K). rewrite H5 in E. inversion E; subst bs'. exact K.
Qed.

(* ---------------------------------------------------------------- the hypotheses are satisfiable *)
Definition ex_cfg : cfg := mkCfg true 1200 8 8 0 None None (Some 1500).
Definition ex_bs : Builder.st := match fresh_packet ex_cfg 7 with Some bs => bs | None => init_st ex_cfg 7 end.
(* 14 bytes already written into the packet and a congestion window that leaves 120 bytes of flight space *)
Definition ex_tight : Builder.st :=
  Builder.mkSt 25 1200 161 0 false false 0 0 (Some (mkPkt PT_ONE_RTT 0 11 true true false 7)) true 7 [] [] false [].

Example budget_examples :
  let s := Cid.run (start true 8) [RecvPacket 0; RecvNewCid 2 2 8; PacketDone] in
  fresh_packet ex_cfg 7 = Some ex_bs /\ room ex_bs = 1173 /\ owed s = 8 /\
  budget_of ex_bs 8 s = 8 /\ room ex_tight = 120 /\ budget_of ex_tight 8 s = 3 /\
  fst (send_built ex_tight 8 s) = (2, [1; 2; 3], []) /\
  (let s2 := snd (send_built ex_tight 8 s) in unsent (hosts s2) = [4; 5; 6; 7] /\ pend s2 = [0]) /\
  fst (fst (w_cid ex_cfg ex_tight 8 s)) = OStop.
Proof. vm_compute. repeat split. Qed.

(* ---------------------------------------------------------------- where the loops sit in a packet of _write_application *)
Lemma wseq_assoc (a : wres) f g : wseq (wseq a f) g = wseq a (fun s => wseq (f s) g).
Proof.
  destruct a as [[o s] tr]. destruct o; cbn [wseq]; try reflexivity.
  destruct (f s) as [[o2 s2] tr2]. destruct o2; cbn [wseq]; try reflexivity.
  destruct (g s2) as [[o3 s3] tr3]. now rewrite app_assoc.
Qed.

Lemma wseq_ext (a : wres) f g : (forall s, f s = g s) -> wseq a f = wseq a g.
Proof. intros H. destruct a as [[o s] tr]. destruct o; cbn [wseq]; try reflexivity. now rewrite H. Qed.

(* the frames written before the CID loops: ACK, PATH_CHALLENGE, HANDSHAKE_DONE, PATH_RESPONSE ... *)
Definition w_cid_prefix (c : cfg) (s : Builder.st) (d : app_iter) : wres :=
  wseq (w_opt (w_ack_in c) s (ai_ack d)) (fun s =>
  wseq (w_if (ai_challenge d) (w_path_challenge c) s) (fun s =>
  wseq (w_if (ai_hs_done d) (w_handshake_done c) s) (fun s =>
  w_list (fun s _ => w_path_response c s) s (ai_responses d)))).

(* ... and after them: STREAMS_BLOCKED, MAX_DATA / MAX_STREAMS, MAX_STREAM_DATA, PING, CRYPTO, DATAGRAM, the stream loop *)
Definition w_cid_suffix (c : cfg) (s : Builder.st) (d : app_iter) : wres :=
  wseq (w_list (fun s x => w_streams_blocked c s (fst x) (snd x)) s (ai_blocked d)) (fun s =>
  wseq (w_list (fun s x => w_conn_limit c s (fst x) (snd x)) s (ai_conn_limits d)) (fun s =>
  wseq (w_list (fun s x => w_stream_limit c s (fst x) (snd x)) s (ai_stream_limits d)) (fun s =>
  wseq (w_if (ai_ping_user d) (w_ping c) s) (fun s =>
  wseq (w_if (ai_ping_probe d) (w_ping c) s) (fun s =>
  wseq (w_opt (w_crypto c) s (ai_crypto d)) (fun s =>
  wseq (w_datagrams c s (ai_datagrams d)) (fun s =>
  w_list (w_sdec c) s (ai_streams d)))))))).

Lemma app_iter_cid_position c s d :
  w_app_iter c s d =
  wseq (w_cid_prefix c s d) (fun s1 => wseq (w_cid_loops c s1 (ai_new_cids d) (ai_retire d)) (fun s2 => w_cid_suffix c s2 d)).
Proof.
  unfold w_app_iter, w_cid_prefix. rewrite wseq_assoc. apply wseq_ext. intros s1.
  rewrite wseq_assoc. apply wseq_ext. intros s2. rewrite wseq_assoc. apply wseq_ext. intros s3.
  apply wseq_ext. intros s4. unfold w_cid_loops. rewrite wseq_assoc. reflexivity.
Qed.

(* the generated call order of _write_application: NEW_CONNECTION_ID (writer 6) directly before RETIRE_CONNECTION_ID
   (writer 11), after ACK / PATH_CHALLENGE / HANDSHAKE_DONE / PATH_RESPONSE (0, 7, 5, 8) *)
Lemma cid_order_generated : firstn 6 ORDER_write_application = [0; 7; 5; 8; 6; 11].
Proof. reflexivity. Qed.

(* one packet of _write_application in the writer model, with the CID lists of the connection-ID state cs: once the frames
   before the loops are written (builder state s1), the packet carries exactly the CID frames of Cid.send with the budget
   computed from the room of s1; when that budget does not cover what is owed the pass ends with QuicPacketBuilderStop
   right there (nothing after the refused frame), otherwise the rest of the packet follows *)
Theorem app_packet_cid_frames_l c s0 d cl cs s1 tr0 :
  ai_new_cids d = cid_news_in cl cs -> ai_retire d = pend cs ->
  0 <= cl <= CONNECTION_ID_MAX_SIZE -> Forall vok (unsent (hosts cs)) -> Forall vok (pend cs) ->
  w_cid_prefix c s0 d = (ODone, s1, tr0) -> OI c s1 ->
  let b := budget_of s1 cl cs in
  let cidtr := flat_map (ncid_ops cl) (snd (fst (fst (send cs b)))) ++ flat_map ret_ops (snd (fst (send cs b))) in
  exists s2, OI c s2 /\
    w_app_iter c s0 d =
      if b <? owed cs then (OStop, s2, tr0 ++ cidtr ++ [refused_op cs b])
      else let '(o3, s3, tr3) := w_cid_suffix c s2 d in (o3, s3, tr0 ++ cidtr ++ tr3).
Proof.
  intros En Er Hcl Hu Hp Epre O1. cbv zeta.
  destruct (cid_budget_from_builder_l c s1 cl cs O1 Hcl Hu Hp) as [s2 [E [O2 _]]]. cbv zeta in E.
  exists s2. split; [exact O2|].
  rewrite app_iter_cid_position, Epre, En, Er. cbn [wseq]. fold (w_cid c s1 cl cs). rewrite E.
  destruct (budget_of s1 cl cs <? owed cs).
  - cbn [wseq]. now rewrite <- !app_assoc.
  - cbn [wseq]. destruct (w_cid_suffix c s2 d) as [[o3 s3] tr3]. now rewrite !app_nil_r, <- !app_assoc.
Qed.

(* ---------------------------------------------------------------- the budget in closed form *)
(* frames of one real size z (e.g. all sequence numbers below 64): the count in closed form *)
Lemma fit_uniform cap z : 0 < z <= cap -> forall szs rm, Forall (fun x => x = z) szs ->
  fst (fit cap rm szs) = Z.min (Zlen szs) (if rm <? cap then 0 else (rm - cap) / z + 1).
Proof.
  intros Hz. induction szs as [|x t IH]; intros rm F; cbn [fit].
  - clear F. cbn [fst]. change (Zlen (@nil Z)) with 0. destruct (rm <? cap) eqn:E; cbv iota; [reflexivity|].
    assert (0 <= (rm - cap) / z) by (apply Z.div_pos; lia). lia.
  - inversion F as [|? ? Hx Ht]; subst. rewrite zlen_cons. pose proof (zlen_nonneg t) as Nt.
    destruct (rm <? cap) eqn:E; cbn [fst]; cbv iota; [lia|].
    specialize (IH (rm - z) Ht). destruct (fit cap (rm - z) t) as [n r]. cbn [fst] in *. rewrite IH.
    destruct (rm - z <? cap) eqn:E2; cbv iota.
    + assert ((rm - cap) / z = 0) by (apply Z.div_small; lia). lia.
    + replace (rm - cap) with ((rm - z - cap) + 1 * z) by lia. rewrite Z.div_add by lia. lia.
Qed.

Lemma fit_uniform_room cap z : forall szs rm, Forall (fun x => x = z) szs ->
  snd (fit cap rm szs) = rm - z * fst (fit cap rm szs).
Proof.
  induction szs as [|x t IH]; intros rm F; cbn [fit]; [cbn [fst snd]; lia|].
  inversion F as [|? ? Hx Ht]; subst. destruct (rm <? cap); [cbn [fst snd]; lia|].
  specialize (IH (rm - z) Ht). destruct (fit cap (rm - z) t) as [n r]. cbn [fst snd] in *. lia.
Qed.

Lemma vsz_small q : 0 <= q < 64 -> vsz q = 1.
Proof. intros H. unfold vsz, Varint.size_uint_var. destruct (q <=? 63) eqn:E; [reflexivity|lia]. Qed.

(* the budget in closed form when every owed sequence number is below 64 (one-byte varints): NEW_CONNECTION_ID frames
   take 20 + len(cid) bytes, RETIRE_CONNECTION_ID frames 2 *)
Lemma cid_budget_small_seqs rm cl news rets : 0 <= cl <= CONNECTION_ID_MAX_SIZE ->
  Forall (fun q => 0 <= q < 64) news -> Forall (fun q => 0 <= q < 64) rets ->
  let n1 := Z.min (Zlen news) (if rm <? 54 then 0 else (rm - 54) / (20 + cl) + 1) in
  let r1 := rm - (20 + cl) * n1 in
  cid_budget rm cl news rets =
    if n1 <? Zlen news then n1 else n1 + Z.min (Zlen rets) (if r1 <? 9 then 0 else (r1 - 9) / 2 + 1).
Proof.
  intros Hcl Fn Fr. cbv zeta. unfold cid_budget.
  assert (F1 : Forall (fun x => x = 20 + cl) (map (ncid_size cl) news)).
  { apply Forall_forall. intros x Hx. apply in_map_iff in Hx. destruct Hx as [q [<- Hq]].
    rewrite Forall_forall in Fn. unfold ncid_size. rewrite (vsz_small q (Fn q Hq)).
    unfold W_new_connection_id_frame_retire_prior_to, STATELESS_RESET_TOKEN_SIZE. rewrite (vsz_small 0) by lia. lia. }
  assert (F2 : Forall (fun x => x = 2) (map ret_size rets)).
  { apply Forall_forall. intros x Hx. apply in_map_iff in Hx. destruct Hx as [q [<- Hq]].
    rewrite Forall_forall in Fr. unfold ret_size. rewrite (vsz_small q (Fr q Hq)). lia. }
  change W_new_connection_id_frame_0_cap with 54. change W_retire_connection_id_frame_0_cap with 9.
  pose proof (fit_uniform 54 (20 + cl)) as U1. pose proof (fit_uniform_room 54 (20 + cl) _ rm F1) as R1.
  unfold CONNECTION_ID_MAX_SIZE in Hcl.
  specialize (U1 ltac:(lia) _ rm F1). rewrite zlen_map in U1.
  destruct (fit 54 rm (map (ncid_size cl) news)) as [n1 r1]. cbn [fst snd] in *. subst n1 r1.
  match goal with |- (if ?c then _ else _) = _ => destruct c; [reflexivity|] end.
  f_equal. pose proof (fit_uniform 9 2 ltac:(lia) _ (rm - (20 + cl) * Z.min (Zlen news) (if rm <? 54 then 0 else (rm - 54) / (20 + cl) + 1)) F2) as U2.
  rewrite zlen_map in U2. exact U2.
Qed.
