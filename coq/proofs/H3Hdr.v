(* C14: a HEADERS frame (request, response, trailers; request or push stream; client or server) whose header block waits
   for the QPACK encoder stream: the stream and the encoder stream can be delivered in either order (model of the patched
   code).  Same layout as proofs/H3Push.v (PUSH_PROMISE). *)
From AQ Require Import lib.Base lib.Tok model.H3Parse proofs.H3Chunk proofs.H3Split proofs.H3Loop proofs.H3Recv proofs.H3Fin
  proofs.H3Uni proofs.H3Table proofs.H3Push.
From Coq Require Import ZifyBool.

(* a request / push stream between two frames where a HEADERS frame is allowed (not after the trailers) *)
Definition hd_boundary (s : hstream) : Prop :=
  s_buf s = [] /\ s_cur s = None /\ s_session s = None /\ s_blocked s = false /\ s_ended s = false /\
  s_btype s = None /\ s_hstate s <> 2.

Ltac hd_nil :=
  match goal with |- context [if ?b then HErr H3_MESSAGE_ERROR else _] => destruct b end; [reflexivity|];
  cbv beta iota; rsimpl; cbn [is_nil negb]; rewrite rq_loop_nil; rsimpl;
  cbn [is_nil negb andb orb to_rsd app]; rewrite ?andb_false_r; reflexivity.

Ltac hd_cons Htr ev :=
  cbv beta iota; rsimpl; cbn [is_nil negb]; unfold rq_recv; rsimpl; rewrite app_nil_r, orb_diag; cbn [is_nil];
  rewrite ?andb_false_r; cbn [andb];
  rewrite (loop_acc _ _ _ _ _ _ _ ev);
  match goal with |- context [rq_loop ?f ?x1 ?x2 ?cl ?fi ?s ?b []] => destruct (rq_loop f x1 x2 cl fi s b []) as [e2 s3| |] end;
  cbn [prepend to_rsd]; try reflexivity; rewrite Htr; cbn [andb];
  match goal with |- context [if ?b then RErr H3_FRAME_ERROR else _] => destruct b end; cbn [to_rsd app]; reflexivity.

Section Hdr.
Variable fx : fixes.
Hypothesis Htr : fx_trunc fx = true.
Hypothesis Hem : fx_endmark fx = true.
Hypothesis Hpb : fx_pushblock fx = true.

Definition hd_state (s0 : hstream) (fin : bool) : hstream := set_cur (set_buf (set_ended s0 fin) []) None.

Definition hd_tail (O : oracle) (cl fin : bool) (st2 : hstream) (rest : list Z) (e : list event) : rres :=
  match rq_loop (rq_fuel rest) fx O cl fin st2 rest e with
  | RVal evs st' =>
      if fin && negb (s_blocked st') && (negb (is_nil (s_buf st')) || negb (is_none (s_cur st')))
      then RErr H3_FRAME_ERROR else RVal evs st'
  | r => r
  end.

(* validation, content-length bookkeeping, event, then the other frames of the delivery *)
Definition hd_decoded (O : oracle) (cl : bool) (s0 : hstream) (fin : bool) (rest : list Z) (r : dres) : rres :=
  match r with
  | DBlocked => RExn X_UNBLOCK_BLOCKED
  | DFailed => RErr QPACK_DECOMPRESSION_FAILED
  | DHeaders hid =>
      let st := hd_state s0 fin in
      let ended := fin && is_nil rest in
      let kind := if s_hstate s0 =? 0 then (if cl then 1 else 0) else 2 in
      if negb (fst (o_val O kind hid)) then RErr H3_MESSAGE_ERROR else
      let st1 := if s_hstate s0 =? 0 then set_expect st (snd (o_val O kind hid)) else st in
      if ended && negb (check_cl st1) then RErr H3_MESSAGE_ERROR else
      hd_tail O cl fin (set_hstate st1 (if s_hstate s0 =? 0 then 1 else 2)) rest [EHeaders (s_id s0) (s_push s0) hid ended]
  end.

Lemma hd_recv : forall O cl s0 data block rest fin,
  hd_boundary s0 -> frame_at data 1 block rest ->
  rq_recv fx O cl s0 data fin =
  match o_dec O (s_id s0) block with
  | DBlocked => RVal [] (set_buf (set_btype (set_blocked (hd_state s0 fin) true) (Some 1)) rest)
  | r => hd_decoded O cl s0 fin rest r
  end.
Proof.
  intros O cl s0 data block rest fin (B1 & B2 & B3 & B4 & B5 & B7 & B8) Hf.
  pose proof (frame_nonempty _ _ _ _ Hf) as Hne. assert (Hlen : Zlen rest + 2 <= Zlen data) by (eapply frame_rest_len; eauto).
  destruct Hf as (b1 & P1 & P2).
  destruct s0 as [i bf cu se bl en hs cn ex pu sy bt bp]. cbn in B1, B2, B3, B4, B5, B7, B8. subst.
  unfold rq_recv.
  rsimpl.
  rewrite Hne. rewrite andb_false_r. cbn [andb].
  unfold rq_fuel. rewrite (rq_loop_S fx O cl).
  rewrite Hne. unfold hdr_of.
  rsimpl.
  rewrite P1, P2. cbn [is_none andb Z.eqb Pos.eqb].
  unfold body.
  pose proof (Zlen_nonneg block) as Hp0. pose proof (Zlen_nonneg rest) as Hr0.
  rewrite Zlen_app.
  replace (Z.min (Zlen block) (Zlen block + Zlen rest)) with (Zlen block) by lia.
  replace (Zlen block <? Zlen block) with false by lia. rewrite andb_false_r.
  rewrite ztake_app_le, zdrop_app_le by lia. rewrite ztake_all, zdrop_all by lia. cbn [app].
  replace (Zlen block - Zlen block =? 0) with true by lia.
  rewrite Htr. cbn [negb orb is_none].
  rewrite andb_true_r.
  unfold handle_rp_frame.
  rsimpl. cbn [Z.eqb Pos.eqb andb].
  replace (hs =? 2) with false by lia.
  rewrite Hpb.
  unfold hd_decoded, hd_state.
  rsimpl.
  destruct (o_dec O i block) as [hid| |]; [| rsimpl; rewrite ?andb_false_r; reflexivity | reflexivity].
  destruct (o_val O (if hs =? 0 then if cl then 1 else 0 else 2) hid) as [ok ecl]. cbn [fst snd].
  destruct (negb ok); [reflexivity|].
  assert (Fuel : forall st e, s_cur st = None ->
            rq_loop (S (length data + length data)) fx O cl fin st rest e = rq_loop (S (S (length rest + length rest))) fx O cl fin st rest e).
  { intros st e Hc. apply (loop_fuel fx O cl Htr Hem); unfold measure; rewrite Hc; cbn [is_none]; unfold Zlen in *; lia. }
  unfold hd_tail, rq_fuel.
  match goal with |- context [if ?b then HErr H3_MESSAGE_ERROR else _] => destruct b end; [reflexivity|].
  rewrite Fuel by (destruct (hs =? 0); reflexivity). reflexivity.
Qed.

Lemma hd_unblock : forall O c s0 rest fin,
  hd_boundary s0 ->
  find_stream (s_id s0) (c_streams c) = Some (set_buf (set_btype (set_blocked (hd_state s0 fin) true) (Some 1)) rest) ->
  unblock fx O c [s_id s0] [] = to_rsd c (hd_decoded O (c_client c) s0 fin rest (o_resume O (s_id s0))).
Proof.
  intros O c s0 rest fin (B1 & B2 & B3 & B4 & B5 & B7 & B8) Hfind.
  destruct s0 as [i bf cu se bl en hs cn ex pu sy bt bp]. cbn in B1, B2, B3, B4, B5, B7, B8. subst.
  cbn [s_id] in *. cbn [unblock]. rewrite Hfind, Hpb.
  unfold hd_state.
  rsimpl.
  unfold handle_rp_frame.
  rsimpl. cbn [Z.eqb Pos.eqb andb].
  replace (hs =? 2) with false by lia.
  unfold hd_decoded, hd_state.
  rsimpl.
  destruct (o_resume O i) as [hid| |]; [| reflexivity | reflexivity].
  destruct (o_val O (if hs =? 0 then if c_client c then 1 else 0 else 2) hid) as [ok ecl]. cbn [fst snd].
  destruct (negb ok); [reflexivity|].
  unfold hd_tail, check_cl.
  destruct (hs =? 0); rsimpl; destruct rest as [|r0 rest]; cbn [is_nil]; rewrite ?andb_true_r, ?andb_false_r; cbn [andb].
  - hd_nil.
  - hd_cons Htr [EHeaders i pu hid false].
  - hd_nil.
  - hd_cons Htr [EHeaders i pu hid false].
Qed.

(* the stream [sid]: new, or between two frames where HEADERS are allowed *)
Definition hd_ready (c0 : conn) (sid : Z) : Prop :=
  match find_stream sid (c_streams c0) with Some s => hd_boundary s | None => True end.

Lemma hd_ready_goc : forall c sid, hd_ready c sid -> hd_boundary (fst (get_or_create c sid)).
Proof.
  intros c sid H. unfold hd_ready in H. unfold get_or_create.
  destruct (find_stream sid (c_streams c)); cbn [fst]; [assumption|]. repeat split. cbn. discriminate.
Qed.

(* INTERLEAVING, HEADERS: a bidirectional stream receives a HEADERS frame followed by any bytes, with or without FIN; its
   header block needs data of the encoder stream.  Either order of the two deliveries gives the same outputs. *)
Theorem hd_interleave : forall c0 sid es data block rest fin encdata encpayload OA OB O2,
  c_done c0 = false -> is_uni sid = false -> is_uni es = true ->
  hd_ready c0 sid -> enc_ready c0 es encdata encpayload ->
  frame_at data 1 block rest ->
  o_enc OA encpayload = EUnblocked [] ->
  o_dec OB sid block = DBlocked ->
  o_enc O2 encpayload = EUnblocked [sid] -> o_resume O2 sid = o_dec O2 sid block -> o_dec O2 sid block <> DBlocked ->
  run fx c0 [(QStream es encdata false, OA); (QStream sid data fin, O2)] =
  run fx c0 [(QStream sid data fin, OB); (QStream es encdata false, O2)].
Proof.
  intros c0 sid es data block rest fin encdata encpayload OA OB O2
         Hdn Hus Hue Hreq Henc Hfr HoA HoB Ho2 Hres Hnb.
  assert (Hne : sid <> es) by (intros ->; congruence).
  set (s0 := fst (get_or_create c0 sid)).
  assert (Hb0 : hd_boundary s0) by (apply hd_ready_goc; assumption).
  assert (Hid : s_id s0 = sid) by apply goc_id.
  set (R := hd_decoded O2 (c_client c0) s0 fin rest (o_dec O2 sid block)).
  assert (HA : run fx c0 [(QStream es encdata false, OA); (QStream sid data fin, O2)] = [Events []; to_hout R]).
  { cbn [run]. rewrite (he_stream fx) by assumption. unfold receive_stream_data.
    destruct (enc_step fx Htr Hem Hpb OA c0 es encdata encpayload [] Hue Henc HoA) as (c1 & E1 & C1 & D1 & SE1 & F1 & (se' & G1 & G2)).
    rewrite E1. cbn [unblock].
    rewrite (pop_not_ended c1 es se' G1 (is_ended_open _ _ G2)).
    rewrite (he_stream fx) by congruence. unfold receive_stream_data.
    rewrite (recv_bidi fx) by assumption.
    rewrite (goc_fst_ext c0 c1 sid) by (apply F1; assumption). fold s0.
    rewrite C1.
    rewrite (hd_recv O2 (c_client c0) s0 data block rest fin Hb0 Hfr). rewrite Hid.
    subst R.
    destruct (o_dec O2 sid block) as [hid| |] eqn:ED; [| exfalso; apply Hnb; reflexivity |];
      match goal with |- context [to_rsd _ ?r] => destruct r end; reflexivity. }
  assert (HB : run fx c0 [(QStream sid data fin, OB); (QStream es encdata false, O2)] = [Events []; to_hout R]).
  { cbn [run]. rewrite (he_stream fx) by assumption. unfold receive_stream_data.
    rewrite (recv_bidi fx) by assumption. fold s0.
    rewrite (hd_recv OB (c_client c0) s0 data block rest fin Hb0 Hfr). rewrite Hid, HoB.
    set (sB := set_buf (set_btype (set_blocked (hd_state s0 fin) true) (Some 1)) rest).
    assert (HsB : s_id sB = sid) by (subst sB; destruct s0; cbn in *; assumption).
    assert (HbB : s_blocked sB = true) by (subst sB; destruct s0; reflexivity).
    cbn [to_rsd].
    set (cg := snd (get_or_create c0 sid)).
    set (cB := set_streams cg (put_stream sB (c_streams cg))).
    assert (FB : find_stream sid (c_streams cB) = Some sB).
    { subst cB. cbn [c_streams set_streams]. rewrite <- HsB. apply find_put_same. }
    pose proof (goc_fields c0 sid) as (K1 & _ & K3 & _ & _ & _ & K7 & _). cbv zeta in K1, K3, K7. fold cg in K1, K3, K7.
    rewrite (pop_not_ended cB sid sB FB (is_ended_blocked _ _ HbB)).
    assert (DB : c_done cB = false) by (subst cB; cbn [c_done set_streams]; congruence).
    rewrite (he_stream fx) by assumption. unfold receive_stream_data.
    assert (HencB : enc_ready cB es encdata encpayload).
    { apply (enc_ready_ext c0); [| subst cB; cbn [c_qenc set_streams]; congruence | assumption].
      subst cB. transitivity (find_stream es (c_streams cg)).
      - cbn [c_streams set_streams]. apply find_put_other. lia.
      - subst cg. apply goc_find_other. lia. }
    destruct (enc_step fx Htr Hem Hpb O2 cB es encdata encpayload [sid] Hue HencB Ho2) as (c1 & E1 & C1 & D1 & SE1 & F1 & (se' & G1 & G2)).
    rewrite E1.
    assert (CC : c_client c1 = c_client c0) by (rewrite C1; subst cB; cbn [c_client set_streams]; congruence).
    assert (FF : find_stream (s_id s0) (c_streams c1) = Some sB) by (rewrite Hid, F1 by assumption; assumption).
    rewrite <- Hid at 1.
    rewrite (hd_unblock O2 c1 s0 rest fin Hb0 FF). rewrite Hid, Hres, CC. subst R.
    match goal with |- context [to_rsd _ ?r] => destruct r end; reflexivity. }
  rewrite HA, HB. reflexivity.
Qed.

End Hdr.

(* the hypotheses are satisfiable: the exchange of blocked_resume_example (response HEADERS + body, proofs/H3Uni.v) *)
Example hd_interleave_example :
  hd_ready (conn_init true true) 0 /\ enc_ready (conn_init true true) 7 [2; 1] [1] /\
  frame_at [1; 1; 0; 0; 2; 97; 98] 1 [0] [0; 2; 97; 98] /\
  o_enc oracle1 [1] = EUnblocked [] /\ o_dec o_wait 0 [0] = DBlocked /\
  o_enc o_arrived [1] = EUnblocked [0] /\ o_resume o_arrived 0 = o_dec o_arrived 0 [0] /\ o_dec o_arrived 0 [0] <> DBlocked.
Proof.
  repeat split; try (vm_compute; congruence).
  exists [1; 0; 0; 2; 97; 98]. split; reflexivity.
Qed.
