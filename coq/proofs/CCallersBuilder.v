(* C04 <-> C13: the generated call site of QuicPacketBuilder._end_packet read on the states of the packet builder model
   (model/Builder.v, the model C13 proves datagram_le_max about and runs against the implementation). *)
From Coq Require Import ZArith List Bool Lia ZifyBool.
From AQ Require Import lib.Base lib.Tok gen.C13Consts model.Builder
  model.CCallBase gen.CCallers proofs.CCallersP.
Import ListNotations.
Local Open Scope Z_scope.

(* the generated call site of _end_packet, read on a state of C13's builder model *)
Definition bsite (c : cfg) (s : st) (p : pkt) : bool * Z * Z :=
  end_packet_site (b_tell s) (p_start p) (p_hdr p) (c_client c) (p_ackel p) (p_type p =? PT_INITIAL) (b_dgpad s)
                  (p_type p =? PT_ONE_RTT) (remaining_flight_space s).
Definition bsize (c : cfg) (s : st) (p : pkt) : Z :=
  end_packet_size (b_tell s) (p_start p) (p_hdr p) (c_client c) (p_ackel p) (p_type p =? PT_INITIAL) (b_dgpad s)
                  (p_type p =? PT_ONE_RTT) (remaining_flight_space s).
Definition breach (c : cfg) (s : st) (p : pkt) : bool := fst (fst (bsite c s p)).

Ltac unf := unfold breach, bsite, bsize, end_packet_site, end_packet_size, end_packet, remaining_flight_space,
  AEAD_TAG_SIZE, PACKET_NUMBER_MAX_SIZE, PACKET_NUMBER_SEND_SIZE in *; cbv zeta in *; cbn [fst snd] in *.

(* no call: the packet is cancelled *)
Lemma end_packet_no_call c s p :
  breach c s p = false -> end_packet c s p = (ODone, set_cur (set_tell s (p_start p)) None).
Proof. unf. intros H. rewrite H. reflexivity. Qed.

Ltac split_E E :=
  repeat match type of E with
  | context[let '(_, _) := (if ?b then _ else _) in _] => destruct b eqn:?
  | (if ?b then _ else _) = _ => destruct b eqn:?
  | (let '(_, _) := ?X in _) = _ => destruct X eqn:?
  | (match ?o with ODone => _ | _ => _ end) = _ => destruct o eqn:?
  end.

(* a sealing that completes fits the datagram buffer: the Buffer check of buf.push_bytes(encrypted packet) *)
Lemma end_packet_done_fits c s p s' :
  breach c s p = true -> end_packet c s p = (ODone, s') ->
  p_start p + bsize c s p + 16 <= c_mds c.
Proof.
  unf. intros H E. rewrite H in E.
  split_E E; try discriminate; ifs; try lia.
Qed.

Lemma flush_current_not_crypto c s s' : flush_current c s <> (OCrypto, s').
Proof. unfold flush_current. ifs; discriminate. Qed.

(* C13's hand model and the translation agree on the size handed to encrypt_packet: with a CryptoPair limited to m
   bytes, _end_packet ends in CryptoError exactly when bsize + 16 > m (whenever the padding fits the buffer) *)
Lemma end_packet_crypto_threshold c s p m :
  breach c s p = true -> c_cmax c = Some m ->
  p_start p + bsize c s p <= c_mds c ->
  (fst (end_packet c s p) = OCrypto <-> bsize c s p + 16 > m).
Proof.
  unf. intros H Hm Hfit. rewrite H, Hm.
  split.
  - intros E.
    repeat match type of E with
    | context[let '(_, _) := (if ?b then _ else _) in _] => destruct b eqn:?
    | context[if ?b then _ else _] => destruct b eqn:?
    | context[let '(_, _) := ?X in _] => destruct X eqn:?
    | context[match ?o with ODone => _ | _ => _ end] => destruct o eqn:?
    end; cbn [fst] in E; try discriminate; subst;
    try (exfalso; eapply flush_current_not_crypto; eassumption); ifs; try lia.
  - intros G.
    repeat match goal with
    | |- context[let '(_, _) := (if ?b then _ else _) in _] => destruct b eqn:?
    | |- context[if ?b then _ else _] => destruct b eqn:?
    end; cbn [fst]; try reflexivity; exfalso; ifs; lia.
Qed.

From AQ Require Import model.CMemBase gen.CMem model.CMemSpec model.CCallSpec proofs.BuilderProofs.

Lemma header_size_ge_3 c t : wf_cfg c -> 3 <= header_size c t.
Proof.
  unfold wf_cfg, header_size, LONG_HEADER_FIXED, SHORT_HEADER_FIXED. intros (?&?&?).
  assert (0 <= match size_uint_var (c_token c) with Some s => s | None => 8 end)
    by (unfold size_uint_var; ifs; lia).
  ifs; lia.
Qed.

(* The size assumption of the sealing model (start + S + 16 <= max_datagram_size) is the builder's own Buffer check:
   every _end_packet that completes made its encrypt_packet call with sizes inside the contracts when
   max_datagram_size <= 1500 (so the C guards never fire on a packet that is actually produced). *)
Lemma builder_seal_calls_in_contract c s p s' :
  c_mds c <= 1500 -> 0 <= p_start p -> 3 <= p_hdr p ->
  breach c s p = true -> end_packet c s p = (ODone, s') ->
  Forall (ncall_in_contract end_packet_pnl0)
    (snd (seal_chain (b_tell s) (p_start p) (p_hdr p) (c_client c) (p_ackel p) (p_type p =? PT_INITIAL) (b_dgpad s)
                     (p_type p =? PT_ONE_RTT) (remaining_flight_space s) (snd (bsite c s p) + 16))).
Proof.
  intros Hm Hs Hh Hr E.
  pose proof (end_packet_done_fits c s p s' Hr E) as F.
  apply seal_chain_in_contract with (mds := c_mds c); auto.
  unfold end_packet_pnl0; lia.
Qed.

(* and whatever the sizes (any max_datagram_size, completed or not), the calls are memory safe *)
Lemma builder_seal_calls_safe c s p ret :
  Forall ncall_safe
    (snd (seal_chain (b_tell s) (p_start p) (p_hdr p) (c_client c) (p_ackel p) (p_type p =? PT_INITIAL) (b_dgpad s)
                     (p_type p =? PT_ONE_RTT) (remaining_flight_space s) ret)).
Proof. apply seal_chain_safe. Qed.

(* the hypotheses are satisfiable: a 1-RTT packet with a one-byte payload in a fresh 1200-byte datagram *)
Example builder_seal_example :
  let c := mkCfg true 1200 8 8 0 None None (Some 1500) in
  let p := mkPkt PT_ONE_RTT 0 11 true true false 0 in
  let s := mkSt 12 1200 1200 0 false false 0 0 (Some p) true 0 [] [] false [] in
  breach c s p = true /\ fst (end_packet c s p) = ODone /\ bsite c s p = (true, 11, 2) /\ bsize c s p = 13.
Proof. vm_compute. repeat split; reflexivity. Qed.
