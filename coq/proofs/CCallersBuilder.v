(* C04 <-> C13: the generated call site of QuicPacketBuilder._end_packet read on the states of the packet builder model
   (model/Builder.v, the model C13 proves datagram_le_max about and runs against the implementation). *)
From Coq Require Import ZArith List Bool Lia ZifyBool.
From AQ Require Import lib.Base lib.Tok gen.C13Consts model.Builder
  model.CCallBase gen.CCallers proofs.CCallersP.
Import ListNotations.
Local Open Scope Z_scope.

(* the generated call site of _end_packet, read on a state of C13's builder model *)
Definition bsite (c : cfg) (s : st) (p : pkt) : bool * Z * Z :=
  end_packet_site (b_tell s) (p_start p) (p_hdr p) (c_client c) (p_ackel p) (p_type p =? PT_INITIAL) (b_dgpad s)
                  (p_type p =? PT_ONE_RTT) (remaining_flight_space s).
Definition bsize (c : cfg) (s : st) (p : pkt) : Z :=
  end_packet_size (b_tell s) (p_start p) (p_hdr p) (c_client c) (p_ackel p) (p_type p =? PT_INITIAL) (b_dgpad s)
                  (p_type p =? PT_ONE_RTT) (remaining_flight_space s).
Definition breach (c : cfg) (s : st) (p : pkt) : bool := fst (fst (bsite c s p)).

Ltac unf := unfold breach, bsite, bsize, end_packet_site, end_packet_size, end_packet, remaining_flight_space,
  AEAD_TAG_SIZE, PACKET_NUMBER_MAX_SIZE, PACKET_NUMBER_SEND_SIZE in *; cbv zeta in *; cbn [fst snd] in *.

(* no call: the packet is cancelled *)
Lemma end_packet_no_call c s p :
  breach c s p = false -> end_packet c s p = (ODone, set_cur (set_tell s (p_start p)) None).
Proof. unf. intros H. rewrite H. reflexivity. Qed.

Ltac split_E E :=
  repeat match type of E with
  | context[let '(_, _) := (if ?b then _ else _) in _] => destruct b eqn:?
  | (if ?b then _ else _) = _ => destruct b eqn:?
  | (let '(_, _) := ?X in _) = _ => destruct X eqn:?
  | (match ?o with ODone => _ | _ => _ end) = _ => destruct o eqn:?
  end.

(* a sealing that completes fits the datagram buffer: the Buffer check of buf.push_bytes(encrypted packet) *)
Lemma end_packet_done_fits c s p s' :
  breach c s p = true -> end_packet c s p = (ODone, s') ->
  p_start p + bsize c s p + 16 <= c_mds c.
Proof.
  unf. intros H E. rewrite H in E.
  split_E E; try discriminate; ifs; try lia.
Qed.

Lemma flush_current_not_crypto c s s' : flush_current c s <> (OCrypto, s').
Proof. unfold flush_current. ifs; discriminate. Qed.

(* C13's hand model and the translation agree on the size handed to encrypt_packet: with a CryptoPair limited to m
   bytes, _end_packet ends in CryptoError exactly when bsize + 16 > m (whenever the padding fits the buffer) *)
Lemma end_packet_crypto_threshold c s p m :
  breach c s p = true -> c_cmax c = Some m ->
  p_start p + bsize c s p <= c_mds c ->
  (fst (end_packet c s p) = OCrypto <-> bsize c s p + 16 > m).
Proof.
  unf. intros H Hm Hfit. rewrite H, Hm.
  split.
  - intros E.
    repeat match type of E with
    | context[let '(_, _) := (if ?b then _ else _) in _] => destruct b eqn:?
    | context[if ?b then _ else _] => destruct b eqn:?
    | context[let '(_, _) := ?X in _] => destruct X eqn:?
    | context[match ?o with ODone => _ | _ => _ end] => destruct o eqn:?
    end; cbn [fst] in E; try discriminate; subst;
    try (exfalso; eapply flush_current_not_crypto; eassumption); ifs; try lia.
  - intros G.
    repeat match goal with
    | |- context[let '(_, _) := (if ?b then _ else _) in _] => destruct b eqn:?
    | |- context[if ?b then _ else _] => destruct b eqn:?
    end; cbn [fst]; try reflexivity; exfalso; ifs; lia.
Qed.

From AQ Require Import model.CMemBase gen.CMem model.CMemSpec model.CCallSpec proofs.BuilderProofs.

Lemma header_size_ge_3 c t : wf_cfg c -> 3 <= header_size c t.
Proof.
  unfold wf_cfg, header_size, LONG_HEADER_FIXED, SHORT_HEADER_FIXED. intros (?&?&?).
  assert (0 <= match size_uint_var (c_token c) with Some s => s | None => 8 end)
    by (unfold size_uint_var; ifs; lia).
  ifs; lia.
Qed.

(* The size assumption of the sealing model (start + S + 16 <= max_datagram_size) is the builder's own Buffer check:
   every _end_packet that completes made its encrypt_packet call with sizes inside the contracts when
   max_datagram_size <= 1500 (so the C guards never fire on a packet that is actually produced). *)
Lemma builder_seal_calls_in_contract c s p s' :
  c_mds c <= 1500 -> 0 <= p_start p -> 3 <= p_hdr p ->
  breach c s p = true -> end_packet c s p = (ODone, s') ->
  Forall (ncall_in_contract end_packet_pnl0)
    (snd (seal_chain (b_tell s) (p_start p) (p_hdr p) (c_client c) (p_ackel p) (p_type p =? PT_INITIAL) (b_dgpad s)
                     (p_type p =? PT_ONE_RTT) (remaining_flight_space s) (snd (bsite c s p) + 16))).
Proof.
  intros Hm Hs Hh Hr E.
  pose proof (end_packet_done_fits c s p s' Hr E) as F.
  apply seal_chain_in_contract with (mds := c_mds c); auto.
  unfold end_packet_pnl0; lia.
Qed.

(* and whatever the sizes (any max_datagram_size, completed or not), the calls are memory safe *)
Lemma builder_seal_calls_safe c s p ret :
  Forall ncall_safe
    (snd (seal_chain (b_tell s) (p_start p) (p_hdr p) (c_client c) (p_ackel p) (p_type p =? PT_INITIAL) (b_dgpad s)
                     (p_type p =? PT_ONE_RTT) (remaining_flight_space s) ret)).
Proof. apply seal_chain_safe. Qed.

(* the hypotheses are satisfiable: a 1-RTT packet with a one-byte payload in a fresh 1200-byte datagram *)
Example builder_seal_example :
  let c := mkCfg true 1200 8 8 0 None None (Some 1500) in
  let p := mkPkt PT_ONE_RTT 0 11 true true false 0 in
  let s := mkSt 12 1200 1200 0 false false 0 0 (Some p) true 0 [] [] false [] in
  breach c s p = true /\ fst (end_packet c s p) = ODone /\ bsite c s p = (true, 11, 2) /\ bsize c s p = 13.
Proof. vm_compute. repeat split; reflexivity. Qed.

(* ---------- reachable builder states: the two side conditions above are invariants of start_packet ---------- *)
Section Reach.
Variable c : cfg.
Hypothesis Hwf : wf_cfg c.

(* the open packet starts inside the buffer and its header size is the one start_packet computed *)
Definition PInv (s : st) : Prop :=
  0 <= b_tell s /\ forall p, b_cur s = Some p -> 0 <= p_start p /\ p_hdr p = header_size c (p_type p).

Lemma flush_current_P s o s' : PInv s -> flush_current c s = (o, s') -> PInv s' /\ b_cur s' = b_cur s.
Proof.
  unfold flush_current, PInv. intros [H0 H1] E.
  repeat match type of E with context[if ?b then _ else _] => destruct b eqn:? end;
    inversion E; subst; cbn; repeat split; auto; try lia; apply H1; auto.
Qed.

Lemma end_packet_P s p o s' : PInv s -> b_cur s = Some p -> end_packet c s p = (o, s') -> PInv s'.
Proof.
  intros [H0 H1] Hc E. destruct (H1 p Hc) as [Hs Hh].
  pose proof (header_size_nonneg c (p_type p) Hwf) as Hn.
  unfold end_packet in E. cbv zeta in E.
  destruct (b_tell s - p_start p >? p_hdr p) eqn:SZ.
  2:{ inversion E; subst. unfold PInv; cbn. split; [lia | intros; discriminate]. }
  match type of E with context[let '(_, _) := ?X in _] => destruct X as [padding pad2] eqn:PP end.
  destruct ((padding >? 0) && (b_tell s + padding >? c_mds c)) eqn:PE.
  { inversion E; subst. unfold PInv, set_dgpad; cbn. split; auto. }
  match type of E with context[let '(_, _) := ?X in _] => destruct X as [psz infl] eqn:PS end.
  assert (PZ : b_tell s - p_start p <= psz).
  { destruct (padding >? 0) eqn:G in PS; inversion PS; subst; lia. }
  destruct (match c_cmax c with Some m => psz + AEAD_TAG_SIZE >? m | None => false end).
  { inversion E; subst. unfold PInv; cbn. split; [lia|]. intros q Hq; inversion Hq; subst; cbn. auto. }
  destruct (p_start p + (psz + AEAD_TAG_SIZE) >? c_mds c).
  { inversion E; subst. unfold PInv; cbn. split; [lia|]. intros q Hq; inversion Hq; subst; cbn. auto. }
  unfold AEAD_TAG_SIZE in *.
  match type of E with context[if ?b then flush_current c ?s2 else _] =>
    assert (P2 : PInv s2) by (unfold PInv; cbn; split; [lia | intros q Hq; inversion Hq; subst; cbn; auto]);
    destruct b; [destruct (flush_current c s2) as [o3 s3] eqn:F; destruct (flush_current_P _ _ _ P2 F) as [[A B] C] | ]
  end.
  - destruct o3; inversion E; subst; unfold PInv; cbn; (split; [exact A |]); try (intros; discriminate); exact B.
  - inversion E; subst. unfold PInv; cbn. split; [lia | intros; discriminate].
Qed.

Lemma end_current_P s o s' : PInv s -> end_current c s = (o, s') -> PInv s'.
Proof.
  unfold end_current. intros HP E. destruct (b_cur s) eqn:Hc; [eapply end_packet_P; eauto | inversion E; subst; auto].
Qed.

Lemma datagram_init_P s : PInv s -> PInv (datagram_init c s).
Proof. unfold datagram_init, PInv. intros [H0 H1]. destruct (b_dginit s); cbn; auto. Qed.

Lemma start_packet_P s t o s' : PInv s -> start_packet c s t = (o, s') -> PInv s'.
Proof.
  unfold start_packet. intros HP E.
  destruct (negb (valid_ptype t)); [inversion E; subst; auto|].
  destruct (end_current c s) as [o1 s1] eqn:E1.
  assert (P1 : PInv s1) by (eapply end_current_P; eauto).
  destruct o1; try (inversion E; subst; exact P1).
  pose proof (header_size_nonneg c t Hwf) as Hn.
  assert (G : forall s2, PInv s2 ->
    (if b_tell s2 + header_size c t >=? b_bcap (datagram_init c s2) then (OStop, datagram_init c s2) else
      (ODone, mkSt (b_tell s2 + header_size c t) (b_bcap (datagram_init c s2)) (b_fcap (datagram_init c s2)) (b_dgflight (datagram_init c s2))
         (b_dginit (datagram_init c s2)) (b_dgpad (datagram_init c s2)) (b_flight (datagram_init c s2)) (b_total (datagram_init c s2))
         (Some (mkPkt t (b_tell s2) (header_size c t) false false false (b_pn (datagram_init c s2)))) true (b_pn (datagram_init c s2))
         (b_dgrams (datagram_init c s2)) (b_pkts (datagram_init c s2)) (g_hasinit (datagram_init c s2)) (g_log (datagram_init c s2)))) = (o, s') -> PInv s').
  { intros s2 P2 E2. pose proof (datagram_init_P s2 P2) as P3.
    destruct (_ >=? _); inversion E2; subst; auto.
    destruct P2 as [T2 _]. unfold PInv; cbn. split; [lia|]. intros q Hq; inversion Hq; subst; cbn. split; [lia | reflexivity]. }
  destruct (b_bcap s1 - b_tell s1 <? DATAGRAM_MIN_SPACE).
  - destruct (flush_current c s1) as [o2 s2] eqn:E2.
    destruct (flush_current_P _ _ _ P1 E2) as [P2 _].
    destruct o2; try (inversion E; subst; exact P2). apply (G s2 P2). exact E.
  - apply (G s1 P1). exact E.
Qed.

Lemma start_frame_P s ft cap o s' : PInv s -> start_frame c s ft cap = (o, s') -> PInv s'.
Proof.
  unfold start_frame. intros [H0 H1] E.
  destruct (b_cur s) as [p|] eqn:Hc; [|inversion E; subst; split; auto; rewrite Hc; intros; discriminate].
  destruct (H1 p eq_refl) as [Hs Hh].
  assert (SZ : forall v z, size_uint_var v = Some z -> 1 <= z) by (unfold size_uint_var; intros v z; ifs; intros X; inversion X; lia).
  repeat match type of E with
  | context[if ?b then _ else _] => destruct b eqn:?
  | context[match ?x with Some _ => _ | None => _ end] => destruct x eqn:?
  end; inversion E; subst; try (split; [exact H0 | rewrite Hc; intros q Hq; inversion Hq; subst; auto]).
  all: unfold PInv; cbn; match goal with H : size_uint_var _ = Some _ |- _ => apply SZ in H end;
    (split; [lia | intros q Hq; inversion Hq; subst; cbn; auto]).
Qed.

Lemma push_P s n o s' : PInv s -> push c s n = (o, s') -> PInv s'.
Proof.
  unfold push. intros [H0 H1] E.
  repeat match type of E with context[if ?b then _ else _] => destruct b eqn:? end; inversion E; subst; try (split; auto; fail).
  unfold PInv, set_tell; cbn. split; [lia | exact H1].
Qed.

Lemma flush_P s o s' d pk : PInv s -> flush c s = (o, s', d, pk) -> PInv s'.
Proof.
  unfold flush. intros HP E.
  destruct (end_current c s) as [o1 s1] eqn:E1.
  assert (P1 : PInv s1) by (eapply end_current_P; eauto).
  destruct o1; try (inversion E; subst; exact P1).
  destruct (flush_current c s1) as [o2 s2] eqn:E2.
  destruct (flush_current_P _ _ _ P1 E2) as [P2 _].
  destruct o2; inversion E; subst; exact P2.
Qed.

Lemma step_P s o r s' d : PInv s -> step c s o = (r, s', d) -> PInv s'.
Proof.
  intros HP E. destruct o; cbn in E.
  - destruct (start_packet c s t) eqn:F. inversion E; subst. eapply start_packet_P; eauto.
  - destruct (start_frame c s ft cap) eqn:F. inversion E; subst. eapply start_frame_P; eauto.
  - destruct (push c s n) eqn:F. inversion E; subst. eapply push_P; eauto.
  - destruct (flush c s) as [[[r0 s0] d0] p0] eqn:F. inversion E; subst. eapply flush_P; eauto.
Qed.

Lemma run_P ops : forall s, PInv s -> PInv (fst (run c s ops)).
Proof.
  induction ops as [|o t IH]; intros s HP; cbn; auto.
  destruct (step c s o) as [[r s'] d] eqn:E.
  pose proof (step_P _ _ _ _ _ HP E) as P'.
  specialize (IH s' P'). destruct (run c s' t) as [s'' d']. exact IH.
Qed.

Lemma init_P pn : PInv (init_st c pn).
Proof. unfold PInv, init_st; cbn. split; [lia | intros; discriminate]. Qed.
End Reach.


(* In every state the builder can reach (any op sequence, API misuse included) with max_datagram_size <= 1500: an
   _end_packet that completes made its native calls inside the contracts. *)
Lemma reachable_seal_calls_in_contract c pn ops p s' :
  wf_cfg c -> c_mds c <= 1500 ->
  let s := fst (run c (init_st c pn) ops) in
  b_cur s = Some p -> breach c s p = true -> end_packet c s p = (ODone, s') ->
  Forall (ncall_in_contract end_packet_pnl0)
    (snd (seal_chain (b_tell s) (p_start p) (p_hdr p) (c_client c) (p_ackel p) (p_type p =? PT_INITIAL) (b_dgpad s)
                     (p_type p =? PT_ONE_RTT) (remaining_flight_space s) (snd (bsite c s p) + 16))).
Proof.
  intros Hwf Hm s Hc Hb E.
  destruct (run_P c Hwf ops (init_st c pn) (init_P c pn)) as [_ H1].
  destruct (H1 p Hc) as [Hs Hh].
  apply builder_seal_calls_in_contract with (s' := s'); auto.
  rewrite Hh. apply header_size_ge_3. exact Hwf.
Qed.
