(* C08: any property of the congestion controller that every callback preserves (for packets with
   sent_bytes >= 0) is preserved by every recovery operation.  Used for the window floors. *)
From AQ Require Import lib.Base lib.Tok model.RangeSet model.RecBase model.Pacer model.Recovery
  proofs.RecoveryLemmas.
From Coq Require Import ZifyBool.

Record cc_pres {T C : Type} (cc : ccops T C) (P : C -> Prop) : Prop := mkCcPres {
  pres_sent : forall c p, P c -> 0 <= p_bytes p -> P (cc_on_sent cc c p);
  pres_acked : forall c now p, P c -> 0 <= p_bytes p -> P (cc_on_acked cc c now p);
  pres_expired : forall c l, P c -> P (cc_on_expired cc c l);
  pres_lost : forall c now l, P c -> P (cc_on_lost cc c now l);
  pres_rtt : forall c now r, P c -> P (cc_on_rtt cc c now r)
}.

Section Pres.
Context {T C : Type} (F : fops T) (cc : ccops T C) (P : C -> Prop) (PRES : cc_pres cc P).

Notation spaceT := (space (T:=T)).
Notation recT := (rec (T:=T) (C:=C)).

Definition nnl (l : list (pkt T)) : Prop := forall p, In p l -> 0 <= p_bytes p.
Definition nn (sps : list spaceT) : Prop := forall s, In s sps -> nnl (sp_sent s).

Lemma nnl_incl : forall l l', incl l' l -> nnl l -> nnl l'.
Proof. intros l l' I H p Hp. apply H. apply I. exact Hp. Qed.

Lemma in_upd_nth : forall {A} (f : A -> A) (l : list A) i x,
  In x (upd_nth i f l) -> In x l \/ exists y, nth_error l i = Some y /\ x = f y.
Proof.
  induction l as [|h t IH]; intros i x H; destruct i; cbn in *; try contradiction.
  - destruct H as [<-|H]; [right; exists h; auto|left; right; exact H].
  - destruct H as [<-|H]; [left; left; reflexivity|].
    destruct (IH _ _ H) as [H'|(y & Hy & ->)]; [left; right; exact H'|right; exists y; auto].
Qed.

Lemma nn_upd : forall sps i s s', nn sps -> nth_error sps i = Some s ->
  nnl (sp_sent s') -> nn (upd_nth i (fun _ => s') sps).
Proof.
  intros sps i s s' H Hn Hs x Hx. destruct (in_upd_nth _ _ _ _ Hx) as [Hx'|(y & Hy & ->)]; auto.
Qed.

Lemma del_all_incl : forall (lost sent : list (pkt T)), incl (del_all lost sent) sent.
Proof.
  induction lost as [|p lost IH]; intros sent; cbn [del_all fold_left]; [apply incl_refl|].
  change (fold_left _ lost ?x) with (del_all lost x).
  intros q Hq. apply (pop_incl (p_pn p) sent). apply IH. exact Hq.
Qed.

Lemma packets_lost_pres : forall s c pc sm now lost s' c' pc',
  packets_lost F cc s c pc sm now lost = (s', c', pc') -> P c ->
  P c' /\ incl (sp_sent s') (sp_sent s).
Proof.
  intros s c pc sm now lost s' c' pc' H Hc. unfold packets_lost in H.
  destruct (filter p_inflight lost); inversion H; subst; cbn [sp_sent]; split;
    auto using del_all_incl. apply (pres_lost cc P PRES). exact Hc.
Qed.

Lemma detect_loss_pres : forall (st : recT) s c pc now s' c' pc' es,
  detect_loss F cc st s c pc now = (s', c', pc', es) -> P c ->
  P c' /\ incl (sp_sent s') (sp_sent s).
Proof.
  intros st s c pc now s' c' pc' es H Hc. unfold detect_loss in H.
  destruct (detect_scan F _ _ _ _ (sp_sent s) None) as [lost lt].
  destruct (packets_lost F cc _ c pc _ now lost) as [[s2 c2] pc2] eqn:Ep.
  inversion H; subst. destruct (packets_lost_pres _ _ _ _ _ _ _ _ _ Ep Hc) as (A & B).
  split; [exact A|exact B].
Qed.

Lemma ack_loop_pres : forall ks la rsn now (a : ackst (T:=T) (C:=C)),
  nnl (a_sent a) -> P (a_cc a) ->
  P (a_cc (ack_loop cc ks la rsn now a)) /\ incl (a_sent (ack_loop cc ks la rsn now a)) (a_sent a).
Proof.
  induction ks as [|k t IH]; intros la rsn now a Hn Hc; cbn [ack_loop].
  - split; [exact Hc|apply incl_refl].
  - destruct (k >? la); [split; [exact Hc|apply incl_refl]|].
    destruct (contains k rsn); [|apply IH; auto].
    destruct (pop k (a_sent a)) as [[p|] sent'] eqn:Ep; [|apply IH; auto].
    destruct (pop_some _ _ _ _ Ep) as (_ & Hin & _ & _).
    assert (Hsub : incl sent' (a_sent a)).
    { intros q Hq. apply (pop_incl k (a_sent a)). rewrite Ep. exact Hq. }
    match goal with |- context [ack_loop cc t la rsn now ?a1] => destruct (IH la rsn now a1) as (A & B) end.
    + cbn [a_sent]. eapply nnl_incl; eauto.
    + cbn [a_cc]. destruct (p_inflight p); [|exact Hc]. apply (pres_acked cc P PRES); auto.
    + split; [exact A|]. cbn [a_sent] in B. eapply incl_tran; eauto.
Qed.

Definition pgood (st : recT) : Prop := P (r_cc st) /\ nn (r_spaces st).

Lemma pgood_upd : forall (st st' : recT) i s s',
  pgood st -> nth_error (r_spaces st) i = Some s -> incl (sp_sent s') (sp_sent s) ->
  r_spaces st' = upd_nth i (fun _ => s') (r_spaces st) -> P (r_cc st') -> pgood st'.
Proof.
  intros st st' i s s' (Hc & Hn) En I Es Hc'. split; [exact Hc'|]. rewrite Es.
  eapply nn_upd; eauto. eapply nnl_incl; eauto. apply Hn. eapply nth_error_In; eauto.
Qed.

Lemma on_ack_received_pres : forall st i rsn delay now st' evs status,
  pgood st -> on_ack_received F cc st i rsn delay now = (st', evs, status) -> pgood st'.
Proof.
  intros st i rsn delay now st' evs status G H. unfold on_ack_received in H.
  destruct (bounds rsn) as [[b0 stop]|]; [|inversion H; subst; exact G].
  destruct (nth_error (r_spaces st) i) as [s|] eqn:En; [|inversion H; subst; exact G].
  set (la := stop - 1) in *.
  set (s0 := mkSpace (sp_sent s) (sp_aeif s) _ (sp_loss_time s)) in *.
  set (a0 := mkAck (sp_sent s0) (sp_aeif s0) (r_cc st) false None (fofZ F 0) []) in *.
  assert (Hs : nnl (sp_sent s)) by (apply (proj2 G); eapply nth_error_In; eauto).
  destruct (ack_loop_pres (zsort (keys (sp_sent s0))) la rsn now a0 Hs (proj1 G)) as (A & B).
  set (a := ack_loop cc (zsort (keys (sp_sent s0))) la rsn now a0) in *.
  destruct (a_lna a) as [lna|].
  - set (s1 := mkSpace (a_sent a) (a_aeif a) (sp_largest_acked s0) (sp_loss_time s0)) in *.
    destruct ((la =? lna) && a_isae a).
    + destruct (rtt_update F st now (a_lst a) delay) as [st1 lrtt] eqn:Er.
      destruct (detect_loss F cc st1 s1 _ _ now) as [[[s2 c2] pc2] lost] eqn:Ed.
      inversion H; subst st' evs status.
      destruct (detect_loss_pres _ _ _ _ _ _ _ _ _ Ed) as (A2 & B2).
      { apply (pres_rtt cc P PRES). exact A. }
      eapply pgood_upd with (s' := s2); [exact G|exact En| |reflexivity|exact A2].
      eapply incl_tran; [exact B2|exact B].
    + destruct (detect_loss F cc st s1 _ _ now) as [[[s2 c2] pc2] lost] eqn:Ed.
      inversion H; subst st' evs status.
      destruct (detect_loss_pres _ _ _ _ _ _ _ _ _ Ed A) as (A2 & B2).
      eapply pgood_upd with (s' := s2); [exact G|exact En| |reflexivity|exact A2].
      eapply incl_tran; [exact B2|exact B].
  - inversion H; subst st' evs status.
    eapply pgood_upd with (s' := s0); [exact G|exact En|apply incl_refl|reflexivity|exact (proj1 G)].
Qed.

Lemma resched_one_pres : forall st i now st' evs,
  pgood st -> resched_one F cc st i now = (st', evs) -> pgood st'.
Proof.
  intros st i now st' evs G H. unfold resched_one in H.
  destruct (nth_error (r_spaces st) i) as [s|] eqn:En; [|inversion H; subst; exact G].
  destruct (filter p_crypto (sp_sent s)) as [|q l0] eqn:Ef; [inversion H; subst; exact G|].
  rewrite <- Ef in H.
  destruct (packets_lost F cc s (r_cc st) (r_pacer st) (r_smoothed st) now (filter p_crypto (sp_sent s)))
    as [[s' c] pc] eqn:Ep.
  inversion H; subst st' evs.
  destruct (packets_lost_pres _ _ _ _ _ _ _ _ _ Ep (proj1 G)) as (A & B).
  eapply pgood_upd with (s' := s'); [exact G|exact En|exact B|reflexivity|exact A].
Qed.

Lemma resched_from_pres : forall n i st now st' evs,
  pgood st -> resched_from F cc n i st now = (st', evs) -> pgood st'.
Proof.
  induction n as [|n IH]; intros i st now st' evs G H; cbn [resched_from] in H.
  - inversion H; subst. exact G.
  - destruct (resched_one F cc st i now) as [st1 e1] eqn:E1.
    destruct (resched_from F cc n (S i) st1 now) as [st2 e2] eqn:E2.
    inversion H; subst st' evs. eapply IH; [|exact E2]. eapply resched_one_pres; eauto.
Qed.

Lemma reschedule_pres : forall st now st' evs,
  pgood st -> reschedule_data F cc st now = (st', evs) -> pgood st'.
Proof.
  intros st now st' evs G H. unfold reschedule_data in H.
  destruct (resched_from F cc (length (r_spaces st)) 0 st now) as [st1 e1] eqn:E1.
  inversion H; subst st' evs. exact (resched_from_pres _ _ _ _ _ _ G E1).
Qed.

Lemma timeout_pres : forall st now st' evs,
  pgood st -> on_loss_detection_timeout F cc st now = (st', evs) -> pgood st'.
Proof.
  intros st now st' evs G H. unfold on_loss_detection_timeout in H.
  destruct (loss_space F st) as [[i lt]|].
  - destruct (nth_error (r_spaces st) i) as [s|] eqn:En; [|inversion H; subst; exact G].
    destruct (detect_loss F cc st s (r_cc st) (r_pacer st) now) as [[[s' c] pc] lost] eqn:Ed.
    inversion H; subst st' evs.
    destruct (detect_loss_pres _ _ _ _ _ _ _ _ _ Ed (proj1 G)) as (A & B).
    eapply pgood_upd with (s' := s'); [exact G|exact En|exact B|reflexivity|exact A].
  - eapply reschedule_pres; [|exact H]. exact G.
Qed.

Lemma discard_pres : forall st i, pgood st -> pgood (discard_space cc st i).
Proof.
  intros st i G. unfold discard_space.
  destruct (nth_error (r_spaces st) i) as [s|] eqn:En; [|exact G].
  eapply pgood_upd with (s' := mkSpace [] 0 (sp_largest_acked s) None); [exact G|exact En| |reflexivity|].
  - intros x [].
  - cbn [r_cc set_pto set_spaces_cc]. apply (pres_expired cc P PRES). exact (proj1 G).
Qed.

Lemma send_pres : forall st i p, pgood st -> 0 <= p_bytes p -> pgood (on_packet_sent cc st i p).
Proof.
  intros st i p G Hb. unfold on_packet_sent.
  destruct (nth_error (r_spaces st) i) as [s|] eqn:En; [|exact G].
  split; cbn [r_cc r_spaces].
  - destruct (p_inflight p); [apply (pres_sent cc P PRES); auto|]; exact (proj1 G).
  - intros x Hx. destruct (in_upd_nth _ _ _ _ Hx) as [Hx'|(y & Hy & ->)]; [apply (proj2 G); exact Hx'|].
    unfold space_sent. cbn [sp_sent]. intros q Hq. destruct (dict_set_in _ _ _ Hq) as [->|Hq']; auto.
    apply (proj2 G y); [eapply nth_error_In; eauto|exact Hq'].
Qed.

(* sent_bytes >= 0 on every send of the history *)
Definition op_nn (o : rop (T:=T)) : Prop :=
  match o with OSend _ _ _ _ _ _ b => 0 <= b | _ => True end.

Lemma step_pres : forall st o st' evs status r,
  pgood st -> op_nn o -> step F cc st o = (st', evs, status, r) -> pgood st'.
Proof.
  intros st o st' evs status r G Ho H. destruct o; cbn [step] in H.
  - inversion H; subst. apply send_pres; auto.
  - destruct (on_ack_received F cc st (Z.to_nat sp) (mk_rs ranges) delay now) as [[st1 e1] s1] eqn:E.
    inversion H; subst. eapply on_ack_received_pres; eauto.
  - destruct (on_loss_detection_timeout F cc st now) as [st1 e1] eqn:E.
    inversion H; subst. eapply timeout_pres; eauto.
  - inversion H; subst. apply discard_pres; auto.
  - destruct (reschedule_data F cc st now) as [st1 e1] eqn:E.
    inversion H; subst. eapply reschedule_pres; eauto.
  - inversion H; subst. exact G.
  - inversion H; subst. exact G.
  - destruct (next_send_time F (r_pacer st) now) as [r1 pc] eqn:E. inversion H; subst. exact G.
  - inversion H; subst. exact G.
Qed.

Lemma run_pres : forall ops st st' evs,
  pgood st -> Forall op_nn ops -> run F cc st ops = (st', evs) -> pgood st'.
Proof.
  induction ops as [|o t IH]; intros st st' evs G Hn H; cbn [run] in H.
  - inversion H; subst. exact G.
  - destruct (step F cc st o) as [[[st1 e1] s1] r1] eqn:Es.
    destruct (run F cc st1 t) as [st2 e2] eqn:Er. inversion H; subst st' evs.
    inversion Hn; subst. eapply IH; [|eassumption|exact Er]. eapply step_pres; eauto.
Qed.

Lemma init_pgood : forall n irtt mss pcav c0, P c0 -> pgood (rec_init F n irtt mss pcav c0).
Proof.
  intros n irtt mss pcav c0 H. split; [exact H|]. unfold rec_init. cbn [r_spaces].
  intros s Hs. apply repeat_spec in Hs. subst s. intros p [].
Qed.

End Pres.
