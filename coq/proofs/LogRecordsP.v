(* C20  one_record_per_packet over the generated skeletons (coq/gen/LogRecords.v). *)
From Coq Require Import String.
From AQ Require Import lib.Base model.LogRec proofs.LogRecP gen.LogRecords.
Open Scope string_scope.
Open Scope Z_scope.

(* hand-written: which encoder records which frame type (variable frame types are qualified by their writer) *)
Definition frame_enc_pairs : list (string * string) := [
  ("ACK", "encode_ack_frame"); ("PING", "encode_ping_frame");
  ("APPLICATION_CLOSE", "encode_connection_close_frame"); ("TRANSPORT_CLOSE", "encode_connection_close_frame");
  ("limit.frame_type@_write_connection_limits", "encode_connection_limit_frame");
  ("CRYPTO", "encode_crypto_frame"); ("frame_type@_write_datagram_frame", "encode_datagram_frame");
  ("HANDSHAKE_DONE", "encode_handshake_done_frame"); ("NEW_CONNECTION_ID", "encode_new_connection_id_frame");
  ("PATH_CHALLENGE", "encode_path_challenge_frame"); ("PATH_RESPONSE", "encode_path_response_frame");
  ("RESET_STREAM", "encode_reset_stream_frame"); ("RETIRE_CONNECTION_ID", "encode_retire_connection_id_frame");
  ("STOP_SENDING", "encode_stop_sending_frame"); ("frame_type@_write_stream_frame", "encode_stream_frame");
  ("MAX_STREAM_DATA", "encode_max_stream_data_frame");
  ("frame_type@_write_streams_blocked_frame", "encode_streams_blocked_frame")].

Definition pre_triggers : list string :=
  ["header_parse_error"; "initial_packet_datagram_too_small"; "unknown_connection_id"; "unsupported_version"; "unexpected_packet"].
Definition fail_triggers : list string := ["key_unavailable"; "payload_decrypt_error"].

Definition q0 : Q := (0, "").

Lemma writers_ok : forallb (fun w => unit_ok (writer_dfa frame_enc_pairs) q0 (snd w)) writers = true.
Proof. vm_compute. reflexivity. Qed.

Lemma handlers_ok : forallb (fun w => unit_ok handler_dfa q0 (snd w)) handlers = true.
Proof. vm_compute. reflexivity. Qed.

(* pin: the encoder each receive-side frame handler uses *)
Lemma handler_encs_pin : handler_encs = [
  ("_handle_ack_frame", ["encode_ack_frame"]);
  ("_handle_connection_close_frame", ["encode_connection_close_frame"]);
  ("_handle_crypto_frame", ["encode_crypto_frame"]);
  ("_handle_data_blocked_frame", ["encode_data_blocked_frame"]);
  ("_handle_datagram_frame", ["encode_datagram_frame"]);
  ("_handle_handshake_done_frame", ["encode_handshake_done_frame"]);
  ("_handle_max_data_frame", ["encode_connection_limit_frame"]);
  ("_handle_max_stream_data_frame", ["encode_max_stream_data_frame"]);
  ("_handle_max_streams_bidi_frame", ["encode_connection_limit_frame"]);
  ("_handle_max_streams_uni_frame", ["encode_connection_limit_frame"]);
  ("_handle_new_connection_id_frame", ["encode_new_connection_id_frame"]);
  ("_handle_new_token_frame", ["encode_new_token_frame"]);
  ("_handle_padding_frame", ["encode_padding_frame"]);
  ("_handle_path_challenge_frame", ["encode_path_challenge_frame"]);
  ("_handle_path_response_frame", ["encode_path_response_frame"]);
  ("_handle_ping_frame", ["encode_ping_frame"]);
  ("_handle_reset_stream_frame", ["encode_reset_stream_frame"]);
  ("_handle_retire_connection_id_frame", ["encode_retire_connection_id_frame"]);
  ("_handle_stop_sending_frame", ["encode_stop_sending_frame"]);
  ("_handle_stream_frame", ["encode_stream_frame"]);
  ("_handle_stream_data_blocked_frame", ["encode_stream_data_blocked_frame"]);
  ("_handle_streams_blocked_frame", ["encode_streams_blocked_frame"])].
Proof. reflexivity. Qed.

Lemma recv_ok : unit_ok (packet_dfa pre_triggers fail_triggers) q0 recv_iteration = true.
Proof. vm_compute. reflexivity. Qed.

Lemma vn_ok : unit_ok one_record_dfa q0 vn_handler = true.
Proof. vm_compute. reflexivity. Qed.

Lemma retry_ok : unit_ok one_record_dfa q0 retry_handler = true.
Proof. vm_compute. reflexivity. Qed.

Lemma sent_ok : unit_ok sent_dfa q0 sent_iteration = true.
Proof. vm_compute. reflexivity. Qed.

Lemma end_packet_ok : unit_ok end_packet_dfa q0 end_packet = true.
Proof. vm_compute. reflexivity. Qed.

(* SEND: in every wrun of every frame writer (all decisions: which branch, how many iterations, whether a
   start_frame raises QuicPacketBuilderStop) frames and frame records alternate frame, record, frame, record ...
   with matching kinds, so there are exactly as many records as frames, in the same order *)
Lemma writer_records_l : forall name w, In (name, w) writers ->
  forall fuel ds t ds' o, wrun fuel w ds = Some (t, ds', o) ->
  (exists q', dfa_exec (writer_dfa frame_enc_pairs) q0 t = Some q' /\ fst q' = 0) /\
  count "frame" t = count "log" t.
Proof.
  intros name w Hin fuel ds t ds' o Hr.
  pose proof writers_ok as H. rewrite forallb_forall in H. specialize (H _ Hin). simpl in H.
  destruct (unit_sound _ _ _ H _ _ _ _ _ Hr) as (q' & X & A).
  assert (Hq : fst q' = 0) by (simpl in A; apply Z.eqb_eq in A; exact A).
  split; [exists q'; split; assumption|].
  apply (proj1 (writer_trace _ _ _ _ X Hq)). reflexivity.
Qed.

(* SEND: each iteration of datagrams_to_send's loop over the packets flush() returned logs exactly one packet_sent;
   _end_packet appends a packet to that list at most once and logs the PADDING it adds first *)
Lemma sent_records_l : forall fuel ds t ds' o, wrun fuel sent_iteration ds = Some (t, ds', o) ->
  exists q', dfa_exec sent_dfa q0 t = Some q' /\ fst q' = 3.
Proof.
  intros fuel ds t ds' o Hr. destruct (unit_sound _ _ _ sent_ok _ _ _ _ _ Hr) as (q' & X & A).
  exists q'. split; [exact X|]. simpl in A. apply Z.eqb_eq in A. exact A.
Qed.

Lemma end_packet_records_l : forall fuel ds t ds' o, wrun fuel end_packet ds = Some (t, ds', o) ->
  exists q', dfa_exec end_packet_dfa q0 t = Some q' /\ fst q' <> 1.
Proof.
  intros fuel ds t ds' o Hr. destruct (unit_sound _ _ _ end_packet_ok _ _ _ _ _ Hr) as (q' & X & A).
  exists q'. split; [exact X|]. simpl in A. apply negb_true_iff in A. apply Z.eqb_neq in A. exact A.
Qed.

(* RECEIVE: every wrun of one iteration of receive_datagram's packet loop is accepted by the packet automaton and
   ends (return / continue / next iteration) in state 3 = exactly one packet record: packet_received iff the
   packet decrypted (also when the reserved-bits check then closes the connection), packet_dropped with a trigger
   of the fixed sets otherwise, or the Version Negotiation / Retry handler, which itself logs exactly one record *)
Lemma recv_records_l : forall fuel ds t ds' o, wrun fuel recv_iteration ds = Some (t, ds', o) ->
  exists q', dfa_exec (packet_dfa pre_triggers fail_triggers) q0 t = Some q' /\ fst q' = 3.
Proof.
  intros fuel ds t ds' o Hr. destruct (unit_sound _ _ _ recv_ok _ _ _ _ _ Hr) as (q' & X & A).
  exists q'. split; [exact X|]. simpl in A. apply Z.eqb_eq in A. exact A.
Qed.

Lemma recv_handlers_l : forall h, h = vn_handler \/ h = retry_handler ->
  forall fuel ds t ds' o, wrun fuel h ds = Some (t, ds', o) ->
  exists q', dfa_exec one_record_dfa q0 t = Some q' /\ fst q' = 3.
Proof.
  intros h Hh fuel ds t ds' o Hr.
  assert (Hok : unit_ok one_record_dfa q0 h = true) by (destruct Hh; subst; [exact vn_ok|exact retry_ok]).
  destruct (unit_sound _ _ _ Hok _ _ _ _ _ Hr) as (q' & X & A).
  exists q'. split; [exact X|]. simpl in A. apply Z.eqb_eq in A. exact A.
Qed.

(* RECEIVE: a frame handler appends at most one frame record, and exactly one whenever it returns normally *)
Lemma handler_records_l : forall name w, In (name, w) handlers ->
  forall fuel ds t ds' o, wrun fuel w ds = Some (t, ds', o) ->
  exists q', dfa_exec handler_dfa q0 t = Some q' /\ (o <> Exited "raise" -> fst q' = 1).
Proof.
  intros name w Hin fuel ds t ds' o Hr.
  pose proof handlers_ok as H. rewrite forallb_forall in H. specialize (H _ Hin). simpl in H.
  destruct (unit_sound _ _ _ H _ _ _ _ _ Hr) as (q' & X & A).
  exists q'. split; [exact X|]. intros Hne. simpl in A.
  destruct o as [|k].
  - simpl in A. apply Z.eqb_eq in A. exact A.
  - destruct (String.eqb k "raise") eqn:E.
    + apply String.eqb_eq in E. subst. contradiction Hne. reflexivity.
    + apply Z.eqb_eq in A. exact A.
Qed.

(* the packet automaton in terms of counts: a trace accepted from the start state into state 3 has exactly one
   record, and it is a packet_received record exactly when the packet decrypted *)
Definition records (t : list ev) : Z := count "recv" t + count "drop" t + count "handler" t.

Lemma count_cons : forall k e t, count k (e :: t) = (if String.eqb (fst e) k then 1 else 0) + count k t.
Proof.
  intros k e t. unfold count. simpl. destruct (String.eqb (fst e) k); unfold Zlen; simpl length; lia.
Qed.

Ltac ev_eqb :=
  repeat match goal with
         | |- context [String.eqb ?a ?b] => let v := eval vm_compute in (String.eqb a b) in change (String.eqb a b) with v
         end; cbv iota.

Lemma packet_trace : forall pre fl t q q', dfa_exec (packet_dfa pre fl) q t = Some q' -> fst q' = 3 ->
  (fst q = 0 -> records t = 1 /\ count "recv" t = count "decrypt_ok" t) /\
  (fst q = 1 -> records t = 1 /\ count "recv" t = 0 /\ count "decrypt_ok" t = 0) /\
  (fst q = 2 -> records t = 1 /\ count "recv" t = 1 /\ count "decrypt_ok" t = 0) /\
  (fst q = 3 -> t = []).
Proof.
  intros pre fl. induction t as [|e t IH]; intros q q' H Hq'.
  - simpl in H. inversion H; subst. repeat split; intros; try lia; reflexivity.
  - simpl in H. unfold records. rewrite !count_cons.
    destruct (String.eqb (fst e) "drop") eqn:Ed.
    { apply String.eqb_eq in Ed. rewrite Ed. ev_eqb.
      destruct ((fst q =? 0) && existsb (String.eqb (snd e)) pre) eqn:E0.
      - apply andb_true_iff in E0. destruct E0 as [E0 _]. apply Z.eqb_eq in E0.
        destruct (IH _ _ H Hq') as (_ & _ & _ & I3). specialize (I3 eq_refl). subst t.
        repeat split; intros; try lia; reflexivity.
      - destruct ((fst q =? 1) && existsb (String.eqb (snd e)) fl) eqn:E1; [|discriminate].
        apply andb_true_iff in E1. destruct E1 as [E1 _]. apply Z.eqb_eq in E1.
        destruct (IH _ _ H Hq') as (_ & _ & _ & I3). specialize (I3 eq_refl). subst t.
        repeat split; intros; try lia; reflexivity. }
    destruct (String.eqb (fst e) "decrypt_fail") eqn:Ef.
    { apply String.eqb_eq in Ef. rewrite Ef. ev_eqb.
      destruct (fst q =? 0) eqn:E0; [|discriminate]. apply Z.eqb_eq in E0.
      destruct (IH _ _ H Hq') as (_ & I1 & _ & _). specialize (I1 eq_refl). unfold records in I1.
      repeat split; intros; try lia. }
    destruct (String.eqb (fst e) "decrypt_ok") eqn:Eo.
    { apply String.eqb_eq in Eo. rewrite Eo. ev_eqb.
      destruct (fst q =? 0) eqn:E0; [|discriminate]. apply Z.eqb_eq in E0.
      destruct (IH _ _ H Hq') as (_ & _ & I2 & _). specialize (I2 eq_refl). unfold records in I2.
      repeat split; intros; try lia. }
    destruct (String.eqb (fst e) "recv") eqn:Er.
    { apply String.eqb_eq in Er. rewrite Er. ev_eqb.
      destruct (fst q =? 2) eqn:E2; [|discriminate]. apply Z.eqb_eq in E2.
      destruct (IH _ _ H Hq') as (_ & _ & _ & I3). specialize (I3 eq_refl). subst t.
      repeat split; intros; try lia; reflexivity. }
    destruct (String.eqb (fst e) "handler") eqn:Eh; [|discriminate].
    apply String.eqb_eq in Eh. try rewrite Eh. ev_eqb.
    destruct (fst q =? 0) eqn:E0; [|discriminate]. apply Z.eqb_eq in E0.
    destruct (IH _ _ H Hq') as (_ & _ & _ & I3). specialize (I3 eq_refl). subst t.
    repeat split; intros; try lia; reflexivity.
Qed.

Lemma recv_counts_l : forall fuel ds t ds' o, wrun fuel recv_iteration ds = Some (t, ds', o) ->
  records t = 1 /\ count "recv" t = count "decrypt_ok" t.
Proof.
  intros fuel ds t ds' o Hr. destruct (recv_records_l _ _ _ _ _ Hr) as (q' & X & Hq).
  apply (proj1 (packet_trace _ _ _ _ _ X Hq)). reflexivity.
Qed.

(* the runs are not vacuous: a decrypting packet with reserved bits set (first `return` after the record) *)
Example recv_reserved_bits_run : exists ds t ds',
  wrun 64 recv_iteration ds = Some (t, ds', Exited "return") /\ count "recv" t = 1 /\ count "decrypt_ok" t = 1.
Proof.
  exists [true; false; false; false; false; false; false; true; true]. eexists. eexists.
  split; [vm_compute; reflexivity|]. split; reflexivity.
Qed.
