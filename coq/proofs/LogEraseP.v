(* C20  Erasure non-interference for the Core/Log language of model/LogErase.v. *)
From Coq Require Import String.
From AQ Require Import lib.Base model.LogErase.
Open Scope string_scope.
Open Scope Z_scope.

(* two stores agree on everything that is not logger-owned *)
Definition core_eq (s1 s2 : store) : Prop := forall l, log_owned l = false -> s1 l = s2 l.

Lemma core_eq_refl : forall s, core_eq s s.
Proof. intros s l _. reflexivity. Qed.

Lemma core_eq_sym : forall a b, core_eq a b -> core_eq b a.
Proof. intros a b H l Hl. symmetry. apply H. exact Hl. Qed.

Lemma core_eq_trans : forall a b c, core_eq a b -> core_eq b c -> core_eq a c.
Proof. intros a b c H1 H2 l Hl. rewrite (H1 l Hl). apply H2. exact Hl. Qed.

Lemma core_eq_proj : forall s, core_eq s (proj_core s).
Proof. intros s l Hl. unfold proj_core. rewrite Hl. reflexivity. Qed.

Lemma root_eqb_eq : forall a b, root_eqb a b = true -> a = b.
Proof.
  intros a b H. destruct a, b; simpl in H; try discriminate; try reflexivity;
    apply String.eqb_eq in H; subst; reflexivity.
Qed.

Lemma path_eqb_eq : forall a b, path_eqb a b = true -> a = b.
Proof.
  induction a as [|x a IH]; intros [|y b] H; simpl in H; try discriminate; try reflexivity.
  apply andb_prop in H. destruct H as [H1 H2]. apply String.eqb_eq in H1. subst.
  rewrite (IH b H2). reflexivity.
Qed.

Lemma loc_eqb_eq : forall a b, loc_eqb a b = true -> a = b.
Proof.
  intros [ra pa ca] [rb pb cb] H. unfold loc_eqb in H. simpl in H.
  apply andb_prop in H. destruct H as [H H3]. apply andb_prop in H. destruct H as [H1 H2].
  apply root_eqb_eq in H1. apply path_eqb_eq in H2. apply Bool.eqb_prop in H3. subst. reflexivity.
Qed.

Lemma upd_core_eq : forall s1 s2 l v, core_eq s1 s2 -> core_eq (upd s1 l v) (upd s2 l v).
Proof.
  intros s1 s2 l v H l' Hl'. unfold upd. destruct (loc_eqb l l'); [reflexivity | apply H; exact Hl'].
Qed.

Lemma upd_owned : forall s l v l', log_owned l = true -> log_owned l' = false -> upd s l v l' = s l'.
Proof.
  intros s l v l' Ho Hn. unfold upd. destruct (loc_eqb l l') eqn:E; [|reflexivity].
  apply loc_eqb_eq in E. subst. rewrite Ho in Hn. discriminate.
Qed.

Lemma eval_core : forall e s1 s2, reads_log e = false -> core_eq s1 s2 -> eval e s1 = eval e s2.
Proof.
  induction e as [z|l|op a IHa b IHb]; intros s1 s2 Hr He; simpl in *.
  - reflexivity.
  - apply He. exact Hr.
  - apply orb_false_elim in Hr. destruct Hr as [Ha Hb].
    rewrite (IHa s1 s2 Ha He), (IHb s1 s2 Hb He). reflexivity.
Qed.

Lemma map_eval_core : forall args s1 s2,
  forallb (fun e => negb (reads_log e)) args = true -> core_eq s1 s2 ->
  map (fun e => eval e s1) args = map (fun e => eval e s2) args.
Proof.
  induction args as [|e args IH]; intros s1 s2 H He; simpl in *; [reflexivity|].
  apply andb_prop in H. destruct H as [H1 H2]. apply negb_true_iff in H1.
  rewrite (eval_core e s1 s2 H1 He), (IH s1 s2 H2 He). reflexivity.
Qed.

Section NonInterference.
  (* The callees are external code: an arbitrary environment, constrained by two hypotheses that
     become explicit premises of the closed theorems. *)
  Variable fenv : fn -> fsem.
  Variable meths : list string.

  (* callees accepted inside Log code only touch logger-owned locations and do not raise *)
  Hypothesis log_callees_confined : forall f args s, fn_log_ok meths f = true ->
    snd (fenv f args s) = false /\
    (forall l, log_owned l = false -> fst (fst (fenv f args s)) l = s l).

  (* callees used by Core code do not depend on logger-owned locations *)
  Hypothesis core_callees_blind : forall f args s1 s2, fn_reads_log f = false -> core_eq s1 s2 ->
    core_eq (fst (fst (fenv f args s1))) (fst (fst (fenv f args s2))) /\
    snd (fst (fenv f args s1)) = snd (fst (fenv f args s2)) /\
    snd (fenv f args s1) = snd (fenv f args s2).

  (* Log code never leaves its block and leaves every core location as it was *)
  Lemma log_code_confined : forall a s, log_stmt_ok meths a = true ->
    snd (run fenv a s) = false /\ core_eq (fst (run fenv a s)) s.
  Proof.
    induction a as [|l e|dst f args|c x IHx y IHy|x IHx y IHy| |x IHx]; intros s H; simpl in *.
    - split; [reflexivity | apply core_eq_refl].
    - split; [reflexivity|]. intros l' Hl'. apply upd_owned; assumption.
    - apply andb_prop in H. destruct H as [Hf Hd].
      destruct (log_callees_confined f (map (fun e => eval e s) args) s Hf) as [Hr Hs].
      destruct (fenv f (map (fun e => eval e s) args) s) as [[s' v] r]. simpl in *. subst r.
      split; [reflexivity|].
      destruct dst as [l|]; simpl.
      + intros l' Hl'. rewrite upd_owned by assumption. apply Hs. exact Hl'.
      + exact Hs.
    - apply andb_prop in H. destruct H as [Hx Hy].
      destruct (eval c s =? 0); [apply IHy | apply IHx]; assumption.
    - apply andb_prop in H. destruct H as [Hx Hy].
      destruct (IHx s Hx) as [Hr Hs].
      destruct (run fenv x s) as [s1 r1]. simpl in *. subst r1.
      destruct (IHy s1 Hy) as [Hr2 Hs2]. split; [exact Hr2|].
      eapply core_eq_trans; eassumption.
    - discriminate.
    - apply IHx. exact H.
  Qed.

  Lemma forallb_app_l : forall (A : Type) (f : A -> bool) a b, forallb f (a ++ b) = true -> forallb f a = true.
  Proof. intros A f a b H. rewrite forallb_app in H. apply andb_prop in H. tauto. Qed.
  Lemma forallb_app_r : forall (A : Type) (f : A -> bool) a b, forallb f (a ++ b) = true -> forallb f b = true.
  Proof. intros A f a b H. rewrite forallb_app in H. apply andb_prop in H. tauto. Qed.

  (* Relational form: running p and running erase p from core-equal stores ends in core-equal
     stores with the same control outcome. *)
  Theorem erasure_ni_rel : forall p s1 s2, prog_ok meths p = true -> core_eq s1 s2 ->
    core_eq (fst (run fenv p s1)) (fst (run fenv (erase p) s2)) /\
    snd (run fenv p s1) = snd (run fenv (erase p) s2).
  Proof.
    unfold prog_ok.
    induction p as [|l e|dst f args|c x IHx y IHy|x IHx y IHy| |x IHx]; intros s1 s2 H He;
      apply andb_prop in H; destruct H as [Hc Hl]; simpl in *.
    - split; [exact He | reflexivity].
    - apply negb_true_iff in Hc. rewrite (eval_core e s1 s2 Hc He).
      split; [apply upd_core_eq; exact He | reflexivity].
    - apply andb_prop in Hc. destruct Hc as [Hf Ha]. apply negb_true_iff in Hf.
      rewrite (map_eval_core args s1 s2 Ha He).
      destruct (core_callees_blind f (map (fun e => eval e s2) args) s1 s2 Hf He) as [Hs [Hv Hr]].
      destruct (fenv f (map (fun e => eval e s2) args) s1) as [[s1' v1] r1].
      destruct (fenv f (map (fun e => eval e s2) args) s2) as [[s2' v2] r2]. simpl in *. subst v2 r2.
      destruct r1; simpl; [split; [exact Hs | reflexivity]|].
      split; [|reflexivity]. destruct dst as [l|]; [apply upd_core_eq; exact Hs | exact Hs].
    - apply andb_prop in Hc. destruct Hc as [Hc Hy]. apply andb_prop in Hc. destruct Hc as [Hc Hx].
      apply negb_true_iff in Hc. rewrite (eval_core c s1 s2 Hc He).
      destruct (eval c s2 =? 0).
      + apply IHy; [|exact He]. rewrite Hy. simpl. eapply forallb_app_r. exact Hl.
      + apply IHx; [|exact He]. rewrite Hx. simpl. eapply forallb_app_l. exact Hl.
    - apply andb_prop in Hc. destruct Hc as [Hx Hy].
      assert (Hx' : core_ok x && forallb (log_stmt_ok meths) (log_blocks x) = true).
      { rewrite Hx. simpl. eapply forallb_app_l. exact Hl. }
      assert (Hy' : core_ok y && forallb (log_stmt_ok meths) (log_blocks y) = true).
      { rewrite Hy. simpl. eapply forallb_app_r. exact Hl. }
      destruct (IHx s1 s2 Hx' He) as [Hs Hr].
      destruct (run fenv x s1) as [a1 r1]. destruct (run fenv (erase x) s2) as [a2 r2]. simpl in *. subst r2.
      destruct r1; [split; [exact Hs | reflexivity]|].
      apply IHy; assumption.
    - split; [exact He | reflexivity].
    - apply andb_prop in Hl. destruct Hl as [Hl _].
      destruct (log_code_confined x s1 Hl) as [Hr Hs].
      split; [|exact Hr]. eapply core_eq_trans; eassumption.
  Qed.

  (* The form of DESIGN.md: the core projection of a run with logging equals (pointwise, on every
     location) the core projection of the run of the erased program started from the core projection. *)
  Theorem erasure_ni_proj : forall p s, prog_ok meths p = true ->
    (forall l, proj_core (fst (run fenv p s)) l = proj_core (fst (run fenv (erase p) (proj_core s))) l) /\
    snd (run fenv p s) = snd (run fenv (erase p) (proj_core s)).
  Proof.
    intros p s H. destruct (erasure_ni_rel p s (proj_core s) H (core_eq_proj s)) as [Hs Hr].
    split; [|exact Hr]. intros l.
    assert (Hp : forall a b : store, core_eq a b -> proj_core a l = proj_core b l).
    { intros a b Hab. unfold proj_core. destruct (log_owned l) eqn:E; [reflexivity | apply Hab; exact E]. }
    apply Hp. exact Hs.
  Qed.

  (* the erased program, started in a store whose logger-owned part is blank, never needs it:
     running it from s or from proj_core s makes no core difference either *)
  Corollary erased_ignores_log_state : forall p s, prog_ok meths p = true ->
    core_eq (fst (run fenv (erase p) s)) (fst (run fenv (erase p) (proj_core s))).
  Proof.
    intros p s H.
    assert (He : prog_ok meths (erase p) = true).
    { clear - H. unfold prog_ok in *. apply andb_prop in H. destruct H as [Hc _].
      assert (forall q, core_ok q = true -> core_ok (erase q) = true /\ log_blocks (erase q) = []).
      { induction q; simpl; intros Hq; try (split; [exact Hq | reflexivity]).
        - apply andb_prop in Hq. destruct Hq as [Hq Hy]. apply andb_prop in Hq. destruct Hq as [Hq Hx].
          destruct (IHq1 Hx) as [A1 B1]. destruct (IHq2 Hy) as [A2 B2].
          rewrite Hq, A1, A2, B1, B2. split; reflexivity.
        - apply andb_prop in Hq. destruct Hq as [Hx Hy].
          destruct (IHq1 Hx) as [A1 B1]. destruct (IHq2 Hy) as [A2 B2].
          rewrite A1, A2, B1, B2. split; reflexivity. }
      destruct (H p Hc) as [A B]. rewrite A, B. reflexivity. }
    assert (Hid : erase (erase p) = erase p).
    { clear. induction p; simpl; try reflexivity; congruence. }
    destruct (erasure_ni_rel (erase p) s (proj_core s) He (core_eq_proj s)) as [Hs _].
    rewrite Hid in Hs. exact Hs.
  Qed.
End NonInterference.

(* The hypotheses are satisfiable by a non-trivial environment, and the theorem is not vacuous:
   a Core/Log program that really writes a logger-owned location and a core location. *)
Definition ex_fenv : fn -> fsem := fun f args s =>
  match f with
  | FLogger _ => (upd s (L RSelf ["_quic_logger"; "_events"] true) (s (L RSelf ["_quic_logger"; "_events"] true) + 1), 7, false)
  | FOther _ => (upd s (L RSelf ["_remote_max_data"] false) (hd 0 args), 0, false)
  | _ => (s, 0, false)
  end.

Definition ex_prog : stmt :=
  SSeq (SLog (SIf (ERead (L RSelf ["_quic_logger"] false))
                  (SSeq (SCall None (FLogger "encode_ping_frame") [])
                        (SAssign (L (RLocal "context") ["quic_logger_frames"] true) (EConst 1)))
                  SSkip))
       (SCall None (FOther "core") [EConst 42]).

Example ex_prog_ok : prog_ok ["encode_ping_frame"] ex_prog = true.
Proof. vm_compute. reflexivity. Qed.

Example ex_log_confined : forall f args s, fn_log_ok ["encode_ping_frame"] f = true ->
  snd (ex_fenv f args s) = false /\ (forall l, log_owned l = false -> fst (fst (ex_fenv f args s)) l = s l).
Proof.
  intros f args s H. destruct f; simpl in *; try (split; [reflexivity | intros; reflexivity]); try discriminate.
  split; [reflexivity|]. intros l Hl. apply upd_owned; [reflexivity | exact Hl].
Qed.

Example ex_core_blind : forall f args s1 s2, fn_reads_log f = false -> core_eq s1 s2 ->
  core_eq (fst (fst (ex_fenv f args s1))) (fst (fst (ex_fenv f args s2))) /\
  snd (fst (ex_fenv f args s1)) = snd (fst (ex_fenv f args s2)) /\
  snd (ex_fenv f args s1) = snd (ex_fenv f args s2).
Proof.
  intros f args s1 s2 H He. destruct f; simpl in *; try discriminate;
    (split; [|split; reflexivity]); try exact He.
  apply upd_core_eq. exact He.
Qed.

Example ex_run_differs_only_in_log :
  let s0 : store := fun l => if loc_eqb l (L RSelf ["_quic_logger"] false) then 1 else 0 in
  fst (run ex_fenv ex_prog s0) (L RSelf ["_remote_max_data"] false) = 42 /\
  fst (run ex_fenv ex_prog s0) (L (RLocal "context") ["quic_logger_frames"] true) = 1 /\
  fst (run ex_fenv (erase ex_prog) s0) (L (RLocal "context") ["quic_logger_frames"] true) = 0 /\
  fst (run ex_fenv (erase ex_prog) s0) (L RSelf ["_remote_max_data"] false) = 42.
Proof. vm_compute. repeat split. Qed.
