(* C08: the probe allowance in bytes -- model/ProbeBudget.v's budget computation composed with proofs/FlightBudget.v
   (recovery model + C13's packet-builder model). *)
From AQ Require Import lib.Base lib.Tok model.RangeSet model.RecBase model.Pacer model.Reno model.Cubic model.Recovery
  proofs.RecoveryLemmas proofs.RecoveryProofs proofs.FlightBudget.
From AQ Require gen.C13Consts model.Builder proofs.BuilderProofs proofs.BuilderFlight.
From AQ Require Import gen.C08Probe model.ProbeBudget proofs.ProbeBudgetProofs.
From Coq Require Import ZifyBool.

(* the budget computation of datagrams_to_send, as generated: congestion_window - bytes_in_flight, raised to one datagram
   exactly when the flag is set and the base budget is below one datagram *)
Lemma dts_max_flight_eq pending cwnd bif mds :
  dts_max_flight pending cwnd bif mds = if pending && (cwnd - bif <? mds) then mds else cwnd - bif.
Proof. unfold dts_max_flight. destruct pending, (cwnd - bif <? mds); reflexivity. Qed.

Section Compose.
Context {T C : Type} (cc : ccops T C) (SPEC : cc_spec cc).
Notation recT := (rec (T:=T) (C:=C)).

(* One datagrams_to_send call with the budget of the model, any recovery state, any disciplined builder history: the ledger
   afterwards exceeds max(congestion_window, bytes_in_flight) (both read before the call) by at most one datagram when the
   probe rule fired, and by nothing otherwise. *)
Theorem probe_call_bytes_thm : forall (st : recT) sp now c pn ops pending,
  (forall t, (sp t < length (r_spaces st))%nat) ->
  Builder.c_max_flight c = Some (dts_max_flight pending (cc_cwnd cc (r_cc st)) (cc_bif cc (r_cc st)) (Builder.c_mds c)) ->
  0 <= Builder.c_mds c ->
  BuilderProofs.wf_cfg c -> BuilderProofs.crypto_fits c ->
  BuilderFlight.fl_disciplined c (Builder.init_st c pn) ops = true ->
  cc_bif cc (r_cc (register cc sp now st (built c pn ops)))
    <= Z.max (cc_cwnd cc (r_cc st)) (cc_bif cc (r_cc st))
       + (if pending && (cc_cwnd cc (r_cc st) - cc_bif cc (r_cc st) <? Builder.c_mds c) then Builder.c_mds c else 0).
Proof.
  intros st sp now c pn ops pending Hs Hmf Hm Hwf Hfit HD.
  rewrite dts_max_flight_eq in Hmf.
  destruct (flight_budget_gen cc SPEC st sp now c _ pn ops Hs Hmf Hwf Hfit HD) as [_ L].
  destruct (pending && (cc_cwnd cc (r_cc st) - cc_bif cc (r_cc st) <? Builder.c_mds c)); lia.
Qed.
End Compose.

(* Summing over a history: [xs] = per datagrams_to_send call (budget raised?, bytes by which the ledger went beyond
   max(cwnd, bytes_in_flight) as read before the call).  With the per-call bound of [probe_call_bytes_thm] the total
   is at most max_datagram_size x (number of raised calls). *)
Definition raised_calls (xs : list (bool * Z)) : Z := fold_right (fun (x : bool * Z) a => b2z (fst x) + a) 0 xs.
Definition total_excess (xs : list (bool * Z)) : Z := fold_right (fun (x : bool * Z) a => Z.max 0 (snd x) + a) 0 xs.

Theorem probe_bytes_total_thm : forall mds xs, 0 <= mds ->
  Forall (fun x : bool * Z => snd x <= if fst x then mds else 0) xs ->
  total_excess xs <= mds * raised_calls xs.
Proof.
  intros mds xs Hm H. induction H as [|[r x] t Hx _ IH]; simpl in *; [lia|].
  unfold b2z. destruct r; lia.
Qed.

Example probe_bytes_example :
  total_excess [(true, 1200); (false, -300); (true, 1186)] = 2386 /\ raised_calls [(true, 1200); (false, -300); (true, 1186)] = 2.
Proof. split; reflexivity. Qed.
