(* C03, two-party system: the client's handshake secret as a run invariant (cinv4).
   For EVERY message sequence, between an accepted ServerHello and the server Finished:
     transcript = <own hello bytes> ++ sh ++ rest  with sh one framed message that parses to v,
     (g, pk) = v.key_share, priv = one of the client's own private keys of group g, shared = DH(priv, pk),
     handshake secret = HKDF-Extract(Derive-Secret(HKDF-Extract(0, PSK or 0), "derived", ""), shared)
   and the two handshake traffic secrets are in the key log; after EncryptedExtensions _enc_key is
   Derive-Secret(handshake secret, "c hs traffic", hash(hello ++ sh)). *)
From AQ Require Import lib.Base gen.TlsDispatch model.TlsSymbolic proofs.TlsDispatchLegal.
From AQ Require Import proofs.TlsSymbolicP1 proofs.TlsSymbolicP2 proofs.TlsSymbolicP4 proofs.TlsSymbolicP5.
From AQ Require Import model.TlsTwoParty proofs.TlsTwoPartyP1.

Section P2.
Variable O : oracles.

Definition early_ikm (c : cfg) (resumed : bool) (alg : Z) : bytes :=
  if resumed then match use_ticket c with Some t => tk_secret t | None => [] end else zeros (dsize alg).
Definition hs_salt (alg : Z) (ikm : bytes) : bytes :=
  o_expand O alg (o_extract O alg (zeros (dsize alg)) ikm) L_derived (o_hash O alg []).

Definition dhshape (c : cfg) (s : tst) : Prop :=
  exists sh v rest g pk priv shared,
    k_tr (the_ks s) = client_hello_tr O c (t_resumed s) ++ sh ++ rest /\ framed sh /\ o_parse_sh O sh = POk v /\
    sh_key_share v = Some (g, pk) /\ In (g, priv) (f_privs c) /\ o_dh O g priv pk = Some shared /\
    k_secret (the_ks s) =
      o_extract O (k_alg (the_ks s)) (hs_salt (k_alg (the_ks s)) (early_ikm c (t_resumed s) (k_alg (the_ks s)))) shared /\
    In (DIR_DECRYPT, EP_HANDSHAKE, k_suite (the_ks s), t_dec s) (t_keys s) /\
    (t_state s = CLIENT_EXPECT_ENCRYPTED_EXTENSIONS -> rest = []) /\
    (post_ee (t_state s) = true ->
       t_enc s = o_expand O (k_alg (the_ks s)) (k_secret (the_ks s)) L_c_hs_traffic
                          (o_hash O (k_alg (the_ks s)) (client_hello_tr O c (t_resumed s) ++ sh)) /\
       In (DIR_ENCRYPT, EP_HANDSHAKE, k_suite (the_ks s), t_enc s) (t_keys s)).

Record cinv4 (c : cfg) (s : tst) : Prop := mkCinv4 {
  c4_client : client_state (t_state s) = true /\ t_state s <> CLIENT_HANDSHAKE_START;
  c4_proxy : forall px suite k, t_kproxy s = Some px -> proxy_select px suite = Some k ->
                                k = ks_update (ks_extract O (ks_new suite) None) (client_hello_msg O c);
  c4_kpsk : forall kp, t_kpsk s = Some kp -> exists t, use_ticket c = Some t /\ kp = fst (client_psk_schedule O c t);
  c4_res : t_resumed s = true -> t_kproxy s = None;
  c4_dh : hs_state (t_state s) = true -> dhshape c s
}.

Lemma find_priv_in : forall g l acc p, find_priv g l acc = Some p -> In (g, p) l \/ acc = Some p.
Proof.
  intros g l. induction l as [| [g' p'] r IH]; intros acc p H; simpl in H; [right; exact H |].
  destruct (IH _ _ H) as [A | A]; [left; right; exact A |].
  destruct (g' =? g) eqn:E; [| right; exact A].
  apply Z.eqb_eq in E. subst. inversion A; subst. left. left. reflexivity.
Qed.

Lemma cinv4_started : forall c, cinv4 c (client_started O c).
Proof.
  intro c. unfold client_started, client_send_hello. cbn [fst snd].
  assert (Hbase : forall s0 : tst,
            t_state s0 = CLIENT_EXPECT_SERVER_HELLO -> t_resumed s0 = false ->
            t_kpsk s0 = match use_ticket c with Some t => Some (fst (client_psk_schedule O c t)) | None => None end ->
            t_kproxy s0 = Some (proxy_map (fun k => ks_update (ks_extract O k None) (client_hello_msg O c)) (proxy_new (f_suites c) [])) ->
            cinv4 c s0).
  { intros s0 Hs Hr Hp Hx. constructor; rewrite ?Hs, ?Hr; try discriminate.
    - split; [reflexivity | discriminate].
    - intros px suite k Hpx Hsel. rewrite Hx in Hpx. inversion Hpx; subst px.
      apply proxy_select_new in Hsel. subst k. reflexivity.
    - intros kp Hkp. rewrite Hp in Hkp. destruct (use_ticket c) eqn:E; [| discriminate].
      inversion Hkp. eauto. }
  destruct (use_ticket c) as [t |] eqn:E.
  - destruct (tk_early t); apply Hbase; reflexivity.
  - apply Hbase; reflexivity.
Qed.

(* handlers after EncryptedExtensions that append d to the transcript *)
Lemma cinv4_extend : forall c s s' d x,
  cinv4 c s -> post_ee (t_state s) = true -> hs_state (t_state s) = true ->
  t_ks s' = Some (ks_update (the_ks s) d) ->
  t_kpsk s' = t_kpsk s -> t_kproxy s' = t_kproxy s -> t_resumed s' = t_resumed s ->
  t_enc s' = t_enc s -> t_dec s' = t_dec s -> t_keys s' = t_keys s -> t_state s' = x -> post_ee x = true ->
  cinv4 c s'.
Proof.
  intros c s s' d x I Hp Hh Hks Hkp Hpx Hr He Hd Hk Hx Hee.
  assert (Hthe : the_ks s' = ks_update (the_ks s) d) by (unfold the_ks at 1; rewrite Hks; reflexivity).
  constructor; rewrite ?Hx, ?Hkp, ?Hpx, ?Hr.
  - destruct x; try discriminate; (split; [reflexivity | discriminate]).
  - apply (c4_proxy c s I).
  - apply (c4_kpsk c s I).
  - apply (c4_res c s I).
  - intros _. destruct (c4_dh c s I Hh) as (sh & v & rest & g & pk & priv & shared & T & F & P & K & In1 & D & S & KD & Z0 & E).
    exists sh, v, (rest ++ d), g, pk, priv, shared. rewrite Hthe, Hr, He, Hd, Hk, Hx.
    change (k_alg (ks_update (the_ks s) d)) with (k_alg (the_ks s)).
    cbn [k_tr k_secret k_suite ks_update]. rewrite T, <- !app_assoc.
    split; [reflexivity |]. split; [exact F |]. split; [exact P |]. split; [exact K |]. split; [exact In1 |].
    split; [exact D |]. split; [exact S |]. split; [exact KD |].
    split; [intro Q; rewrite Q in Hee; discriminate |]. intros _. apply E. exact Hp.
Qed.

Lemma cinv4_same : forall c s s',
  cinv4 c s -> t_state s' = t_state s -> t_ks s' = t_ks s -> t_kpsk s' = t_kpsk s -> t_kproxy s' = t_kproxy s ->
  t_resumed s' = t_resumed s -> t_enc s' = t_enc s -> t_dec s' = t_dec s -> t_keys s' = t_keys s -> cinv4 c s'.
Proof.
  intros c s s' I A B D E F G1 G2 G3. assert (K : the_ks s' = the_ks s) by (unfold the_ks; rewrite B; reflexivity).
  constructor; rewrite ?A, ?D, ?E, ?F; try apply I.
  intro Hh. destruct (c4_dh c s I Hh) as (sh & v & rest & g & pk & priv & shared & X).
  exists sh, v, rest, g, pk, priv, shared. rewrite K, F, A, G1, G2, G3. exact X.
Qed.

Lemma cinv4_step : forall c s m o s' out0,
  cinv4 c s -> step O c s m = (o, s', out0) -> cinv4 c s'.
Proof.
  intros c s m o s' out0 I H.
  destruct (c4_client c s I) as [Hc Hn].
  unfold step in H.
  destruct (t_state s) eqn:Es; try discriminate Hc; try congruence;
    (destruct (negb (framedb m)) eqn:Fm; [inversion H; subst; exact I |]);
    rewrite dispatch_all in H; cbn [legal_next] in H;
    repeat match type of H with
    | context [if ?b then _ else _] => destruct b
    end;
    cbn [run_handler] in H; try (inversion H; subst; exact I);
    apply negb_false_iff in Fm.
  - (* ServerHello *)
    unfold client_handle_hello in H.
    destruct (o_parse_sh O m) as [v | dd | ee] eqn:P; cbn [with_parse] in H; try (inversion H; subst; exact I).
    destruct (negotiate memz (f_suites c) [sh_suite v]) as [suite |] eqn:Eneg; [| inversion H; subst; exact I].
    destruct (negb (memz (sh_comp v) (f_comp c))); [inversion H; subst; exact I |].
    destruct (negb match sh_version v with Some x => memz x (f_versions c) | None => false end);
      [inversion H; subst; exact I |].
    apply with_parse_inv in H. destruct H as [([ks psk] & Hsel & H) | [-> _]]; [| exact I].
    assert (Hk : k_tr ks = client_hello_tr O c (if psk then true else t_resumed s) /\ k_gen ks = 1 /\
                 k_secret ks = o_extract O (k_alg ks) (zeros (dsize (k_alg ks)))
                                         (early_ikm c (if psk then true else t_resumed s) (k_alg ks))).
    { destruct (sh_psk v).
      - destruct (t_kpsk s) as [kp |] eqn:Ekp; [| discriminate].
        destruct ((z =? 0) && (suite =? k_suite kp)) eqn:Ec; [| discriminate].
        inversion Hsel; subst.
        destruct (c4_kpsk c s I ks Ekp) as (t & Ht & Hks).
        unfold client_hello_tr, early_ikm. rewrite Ht, Hks. repeat split; reflexivity.
      - destruct (t_kproxy s) as [px |] eqn:Epx; [| discriminate].
        destruct (proxy_select px suite) eqn:Esel; [| discriminate].
        inversion Hsel; subst. pose proof (c4_proxy c s I px _ ks Epx Esel) as A.
        assert (Hr : t_resumed s = false).
        { destruct (t_resumed s) eqn:Er; [| reflexivity]. pose proof (c4_res c s I Er). congruence. }
        rewrite Hr. unfold client_hello_tr, early_ikm. subst ks. repeat split; reflexivity. }
    destruct Hk as (Htr & Hg & Hsec).
    assert (I1 : forall s1, t_state s1 = CLIENT_EXPECT_SERVER_HELLO -> t_kpsk s1 = None -> t_kproxy s1 = None -> cinv4 c s1).
    { intros s1 A B D. constructor; rewrite ?A, ?B, ?D; try discriminate. split; [reflexivity | discriminate].
      intros _. reflexivity. }
    destruct (sh_key_share v) as [[g pk] |] eqn:Eks; [| inversion H; subst; apply I1; fields; auto].
    destruct (o_decode O g pk =? 2); [inversion H; subst; apply I1; fields; auto |].
    destruct (if o_decode O g pk =? 1 then find_priv g (f_privs c) None else None) as [priv |] eqn:Epriv;
      [| inversion H; subst; apply I1; fields; auto].
    destruct (o_dh O g priv pk) as [shared |] eqn:Edh; [| inversion H; subst; apply I1; fields; auto].
    inversion H; subst o s' out0; clear H.
    constructor; fields; try discriminate.
    + split; [reflexivity | discriminate].
    + intros _. reflexivity.
    + intros _. exists m, v, [], g, pk, priv, shared. fields.
      cbn [k_tr k_secret k_suite ks_update ks_extract]. rewrite Htr, app_nil_r.
      split; [reflexivity |]. split; [exact Fm |]. split; [exact P |]. split; [exact Eks |].
      split.
      { destruct (o_decode O g pk =? 1); [| discriminate].
        apply find_priv_in in Epriv. destruct Epriv as [A | A]; [exact A | discriminate]. }
      split; [exact Edh |].
      split.
      { change (k_alg (ks_extract O (ks_update ks m) (Some shared))) with (k_alg ks).
        change (k_alg (ks_update ks m)) with (k_alg ks). change (k_gen (ks_update ks m)) with (k_gen ks).
        rewrite Hg. change (1 =? 0) with false. cbv iota. unfold hs_salt. rewrite Hsec. reflexivity. }
      split; [apply in_or_app; right; left; reflexivity |].
      split; [reflexivity | discriminate].
  - (* EncryptedExtensions *)
    unfold client_handle_encrypted_extensions in H.
    destruct (o_parse_ee O m) as [v | dd | ee] eqn:P; cbn [with_parse] in H; try (inversion H; subst; exact I).
    cbv zeta in H.
    destruct (f_alpn_cb c (ee_alpn v) (ee_other v)) as [code newext].
    destruct (negb (code =? 0)).
    + inversion H; subst. eapply cinv4_same; [exact I | | | | | | | |]; fields; auto.
    + inversion H; subst o s' out0; clear H.
      assert (Hh : hs_state (t_state s) = true) by (rewrite Es; reflexivity).
      destruct (c4_dh c s I Hh) as (sh & v0 & rest & g & pk & priv & shared & T & Fr & P0 & K & In1 & D & S & KD & Z0 & _).
      specialize (Z0 Es). subst rest. rewrite app_nil_r in T.
      assert (G : forall s1, post_ee (t_state s1) = true -> hs_state (t_state s1) = true ->
                           the_ks s1 = ks_update (the_ks s) m -> t_kpsk s1 = t_kpsk s ->
                           t_kproxy s1 = t_kproxy s -> t_resumed s1 = t_resumed s -> t_dec s1 = t_dec s ->
                           t_enc s1 = ks_derive O (the_ks s) L_c_hs_traffic ->
                           t_keys s1 = t_keys s ++ [(DIR_ENCRYPT, EP_HANDSHAKE, k_suite (the_ks s), ks_derive O (the_ks s) L_c_hs_traffic)] ->
                           cinv4 c s1).
      { intros s1 A A' B Dk E F Gd Ge Gk. constructor; rewrite ?Dk, ?E, ?F.
        - destruct (t_state s1); try discriminate; (split; [reflexivity | discriminate]).
        - apply (c4_proxy c s I).
        - apply (c4_kpsk c s I).
        - apply (c4_res c s I).
        - intros _. exists sh, v0, m, g, pk, priv, shared. rewrite B, F, Gd, Ge, Gk.
          change (k_alg (ks_update (the_ks s) m)) with (k_alg (the_ks s)).
          cbn [k_tr k_secret k_suite ks_update]. rewrite T, <- app_assoc.
          split; [reflexivity |]. split; [exact Fr |]. split; [exact P0 |]. split; [exact K |]. split; [exact In1 |].
          split; [exact D |]. split; [exact S |].
          split; [apply in_or_app; left; exact KD |].
          split; [intro Q; rewrite Q in A'; destruct (t_state s1); discriminate |].
          intros _. split.
          + unfold ks_derive, ks_hashval. rewrite T. reflexivity.
          + apply in_or_app; right; left; reflexivity. }
      destruct (t_resumed s) eqn:Er; apply G; try reflexivity; fields; rewrite ?Er; reflexivity.
  - (* Certificate *)
    unfold client_handle_certificate in H.
    apply with_parse_inv in H. destruct H as [(v & _ & H) | [-> _]]; [| exact I].
    assert (I1 : cinv4 c (set_ks s (ks_update (the_ks s) m))).
    { eapply (cinv4_extend c s _ m (t_state s) I); fields; rewrite ?Es; reflexivity. }
    apply with_parse_inv in H. destruct H as [(s2 & Hset & H) | [-> _]]; [| exact I1].
    inversion H; subst o s' out0; clear H.
    unfold set_peer in Hset. destruct (ct_certs v); [discriminate |].
    destruct (forallb _ _); [| discriminate]. inversion Hset; subst s2; clear Hset.
    eapply (cinv4_extend c s _ m CLIENT_EXPECT_CERTIFICATE_VERIFY I); fields; rewrite ?Es; reflexivity.
  - (* CertificateRequest *)
    unfold client_handle_certificate_request in H.
    apply with_parse_inv in H. destruct H as [(v & _ & H) | [-> _]]; [| exact I].
    inversion H; subst o s' out0; clear H.
    eapply (cinv4_extend c s _ m CLIENT_EXPECT_CERTIFICATE I); fields; rewrite ?Es; reflexivity.
  - (* Certificate (after a request) *)
    unfold client_handle_certificate in H.
    apply with_parse_inv in H. destruct H as [(v & _ & H) | [-> _]]; [| exact I].
    assert (I1 : cinv4 c (set_ks s (ks_update (the_ks s) m))).
    { eapply (cinv4_extend c s _ m (t_state s) I); fields; rewrite ?Es; reflexivity. }
    apply with_parse_inv in H. destruct H as [(s2 & Hset & H) | [-> _]]; [| exact I1].
    inversion H; subst o s' out0; clear H.
    unfold set_peer in Hset. destruct (ct_certs v); [discriminate |].
    destruct (forallb _ _); [| discriminate]. inversion Hset; subst s2; clear Hset.
    eapply (cinv4_extend c s _ m CLIENT_EXPECT_CERTIFICATE_VERIFY I); fields; rewrite ?Es; reflexivity.
  - (* CertificateVerify *)
    unfold client_handle_certificate_verify in H.
    apply with_parse_inv in H. destruct H as [(v & _ & H) | [-> _]]; [| exact I].
    destruct (check_cv O c s v SERVER_CONTEXT_STRING); [inversion H; subst; exact I |].
    destruct (negb ((if f_verify c then o_cert_ok O (verify_name c) (t_peer s) else 0) =? 0));
      [inversion H; subst; exact I |].
    inversion H; subst o s' out0; clear H.
    eapply (cinv4_extend c s _ m CLIENT_EXPECT_FINISHED I); fields; rewrite ?Es; reflexivity.
  - (* Finished *)
    unfold client_handle_finished in H.
    apply with_parse_inv in H. destruct H as [(vd & _ & H) | [-> _]]; [| exact I]. cbv zeta in H.
    destruct (negb (beqb vd (ks_finished O (the_ks s) (t_dec s)))); [inversion H; subst; exact I |].
    assert (I1 : cinv4 c (set_ks s (ks_update (the_ks s) m))).
    { eapply (cinv4_extend c s _ m (t_state s) I); fields; rewrite ?Es; reflexivity. }
    destruct (negb (k_gen (ks_update (the_ks s) m) =? 2)); [inversion H; subst; exact I1 |].
    match type of H with (let '(k3, msgs) := ?X in _) = _ => destruct X as [k3 msgs] end.
    inversion H; subst o s' out0; clear H.
    constructor; fields; try discriminate.
    + split; [reflexivity | discriminate].
    + apply (c4_proxy c s I).
    + apply (c4_kpsk c s I).
    + apply (c4_res c s I).
  - (* NewSessionTicket *)
    unfold client_handle_new_session_ticket in H.
    apply with_parse_inv in H. destruct H as [(v & _ & H) | [-> _]]; [| exact I].
    inversion H; subst; exact I.
Qed.

Lemma cinv4_run : forall c ms s, cinv4 c s -> cinv4 c (run O c s ms).
Proof.
  intros c ms. induction ms as [| m r IH]; intros s I; simpl; [exact I |].
  destruct (step O c s m) as [[o s1] out0] eqn:E. apply IH. eapply cinv4_step; eauto.
Qed.

End P2.
