(* C14: chunking independence of unidirectional streams (control, push, WebTransport, QPACK encoder / decoder,
   unknown types): _receive_stream_data_uni on a ++ b = on a, then on b (model of the patched code). *)
From AQ Require Import lib.Base lib.Tok model.H3Parse proofs.H3Chunk proofs.H3Split proofs.H3Loop proofs.H3Recv proofs.H3Fin.
From Coq Require Import ZifyBool.

(* ------------------------------------------------------------------ one iteration of the loop, named *)
Definition typed_of (st : hstream) (c : conn) (b : list Z) : option ((Z * list Z * conn) + unit) :=
  match s_stype st with
  | Some t => Some (inl (t, b, c))
  | None =>
      match pull_uint_var b with
      | None => None
      | Some (t, b1) =>
          if t =? 0 then
            (if is_none (c_ctrl c) then Some (inl (t, b1, set_ctrl c (Some (s_id st)))) else Some (inr tt))
          else if t =? 3 then
            (if is_none (c_qdec c) then Some (inl (t, b1, set_qdec c (Some (s_id st)))) else Some (inr tt))
          else if t =? 2 then
            (if is_none (c_qenc c) then Some (inl (t, b1, set_qenc c (Some (s_id st)))) else Some (inr tt))
          else Some (inl (t, b1, c))
      end
  end.

Section Uni.
Variable fx : fixes.
Variable O : oracle.

Definition uni_typed (fuel : nat) (fin : bool) (st0 : hstream) (t : Z) (c : conn) (b : list Z) (unb : list Z) : ures :=
  let st := set_stype st0 (Some t) in
  if t =? 0 then
    if fin then UErr H3_CLOSED_CRITICAL_STREAM c else
    match pull_frame b with
    | None => ULoop (set_buf st b) c unb
    | Some (ft, fd, b') =>
        match handle_control_frame fx c ft fd with
        | Val c' => uni_loop fuel fx O fin st c' b' unb
        | PErr k => UErr k c
        | Exn k => UExn k
        end
    end
  else if t =? 1 then
    match (match s_push st with
           | Some p => Some (st, b)
           | None => match pull_uint_var b with
                     | None => None
                     | Some (p, b1) => Some (set_push st (Some p), b1)
                     end
           end) with
    | None => ULoop (set_buf st b) c unb
    | Some (st, b) => URet [] (set_buf st b) c
    end
  else if t =? 84 then
    match (match s_session st with
           | Some p => Some (st, b)
           | None => match pull_uint_var b with
                     | None => None
                     | Some (p, b1) => Some (set_session st (Some p), b1)
                     end
           end) with
    | None => ULoop (set_buf st b) c unb
    | Some (st, b) =>
        let sess := match s_session st with Some p => p | None => 0 end in
        URet (if negb (is_nil b) || fin then [EWT (s_id st) sess b (s_ended st)] else []) (set_buf st []) c
    end
  else if t =? 3 then
    if o_ds O b then uni_loop fuel fx O fin st c [] unb else UErr QPACK_DECODER_STREAM_ERROR c
  else if t =? 2 then
    match o_enc O b with
    | EUnblocked l => uni_loop fuel fx O fin st c [] (unb ++ l)
    | EEncErr => UErr QPACK_ENCODER_STREAM_ERROR c
    end
  else uni_loop fuel fx O fin st c [] unb.

Lemma uni_loop_S : forall f fin st c b unb,
  uni_loop (S f) fx O fin st c b unb =
  if negb (stream_loops (s_stype st) || negb (is_nil b)) then ULoop (set_buf st b) c unb else
  match typed_of st c b with
  | None => ULoop (set_buf st b) c unb
  | Some (inr _) => UErr H3_STREAM_CREATION_ERROR c
  | Some (inl (t, b, c)) => uni_typed f fin st t c b unb
  end.
Proof. reflexivity. Qed.

(* ------------------------------------------------------------------ the control stream: a loop over whole frames *)
Inductive cres := CStop (c : conn) (rest : list Z) | CErr (k : Z) (c : conn) | CExn (k : Z).

Fixpoint ctrl_loop (f : nat) (c : conn) (b : list Z) : cres :=
  match f with
  | 0%nat => CStop c b
  | S f =>
      match pull_frame b with
      | None => CStop c b
      | Some (ft, fd, b') =>
          match handle_control_frame fx c ft fd with
          | Val c' => ctrl_loop f c' b'
          | PErr k => CErr k c
          | Exn k => CExn k
          end
      end
  end.

Lemma set_stype_same : forall st t, s_stype st = Some t -> set_stype st (Some t) = st.
Proof. intros st t H. destruct st; cbn in *. subst. reflexivity. Qed.

Lemma uni_ctrl : forall f st c b unb, s_stype st = Some 0 ->
  uni_loop f fx O false st c b unb =
  match ctrl_loop f c b with
  | CStop c' r => ULoop (set_buf st r) c' unb
  | CErr k c' => UErr k c'
  | CExn k => UExn k
  end.
Proof.
  induction f; intros st c b unb Ht; [reflexivity|].
  rewrite uni_loop_S. unfold typed_of. rewrite Ht. cbn [stream_loops Z.eqb orb negb].
  unfold uni_typed. cbn [Z.eqb]. rewrite (set_stype_same st 0 Ht). cbn [ctrl_loop].
  destruct (pull_frame b) as [[[ft fd] b']|]; [|reflexivity].
  destruct (handle_control_frame fx c ft fd); try reflexivity. apply IHf. assumption.
Qed.

Lemma pull_frame_app : forall x b ft fd r,
  pull_frame x = Some (ft, fd, r) -> pull_frame (x ++ b) = Some (ft, fd, r ++ b).
Proof.
  intros x b ft fd r. unfold pull_frame.
  destruct (pull_uint_var x) as [[t x1]|] eqn:P1; [|discriminate].
  destruct (pull_uint_var x1) as [[n x2]|] eqn:P2; [|discriminate].
  rewrite (pull_app _ b _ _ P1), (pull_app _ b _ _ P2).
  destruct (Zlen x2 <? n) eqn:E; [discriminate|]. intros H; inversion H; subst.
  rewrite Zlen_app. pose proof (Zlen_nonneg b).
  replace (Zlen x2 + Zlen b <? n) with false by lia.
  rewrite ztake_app_le, zdrop_app_le by lia. reflexivity.
Qed.

Lemma pull_frame_len : forall x ft fd r, pull_frame x = Some (ft, fd, r) -> Zlen r + 2 <= Zlen x.
Proof.
  intros x ft fd r. unfold pull_frame.
  destruct (pull_uint_var x) as [[t x1]|] eqn:P1; [|discriminate].
  destruct (pull_uint_var x1) as [[n x2]|] eqn:P2; [|discriminate].
  destruct (Zlen x2 <? n); [discriminate|]. intros H; inversion H; subst.
  apply pull_len in P1. apply pull_len in P2. pose proof (Zlen_zdrop_le n x2). lia.
Qed.

Lemma ctrl_fuel : forall f1 f2 c b, Zlen b < Z.of_nat f1 -> Zlen b < Z.of_nat f2 ->
  ctrl_loop f1 c b = ctrl_loop f2 c b.
Proof.
  induction f1; intros f2 c b H1 H2; [pose proof (Zlen_nonneg b); lia|].
  destruct f2; [pose proof (Zlen_nonneg b); lia|]. cbn [ctrl_loop].
  destruct (pull_frame b) as [[[ft fd] b']|] eqn:P; [|reflexivity].
  destruct (handle_control_frame fx c ft fd); try reflexivity.
  apply pull_frame_len in P. apply IHf1; lia.
Qed.

Lemma ctrl_rest_len : forall f c x c1 r, ctrl_loop f c x = CStop c1 r -> Zlen r <= Zlen x.
Proof.
  induction f; intros c x c1 r H; cbn [ctrl_loop] in H; [inversion H; lia|].
  destruct (pull_frame x) as [[[ft fd] x']|] eqn:P; [|inversion H; lia].
  destruct (handle_control_frame fx c ft fd) as [c'| |]; try discriminate.
  apply IHf in H. apply pull_frame_len in P. lia.
Qed.

Lemma ctrl_split : forall f c x b, Zlen (x ++ b) < Z.of_nat f ->
  ctrl_loop f c (x ++ b) =
  match ctrl_loop f c x with CStop c1 r => ctrl_loop f c1 (r ++ b) | e => e end.
Proof.
  induction f; intros c x b H; [pose proof (Zlen_nonneg (x ++ b)); lia|].
  cbn [ctrl_loop]. destruct (pull_frame x) as [[[ft fd] x']|] eqn:P.
  - rewrite (pull_frame_app _ b _ _ _ P).
    destruct (handle_control_frame fx c ft fd) as [c'| |]; try reflexivity.
    pose proof (pull_frame_len _ _ _ _ P). rewrite Zlen_app in *.
    rewrite IHf by (rewrite Zlen_app; lia).
    destruct (ctrl_loop f c' x') as [c1 r| |] eqn:E; try reflexivity.
    apply ctrl_rest_len in E.
    apply (ctrl_fuel f (S f) c1 (r ++ b)); rewrite Zlen_app; lia.
  - reflexivity.
Qed.
(* ------------------------------------------------------------------ one delivery on a unidirectional stream *)
Definition ustart (st : hstream) (data : list Z) (fin : bool) : hstream :=
  set_ended (set_buf st (s_buf st ++ data)) (s_ended st || fin).

Definition uni_step (st : hstream) (c : conn) (data : list Z) (fin : bool) : ures :=
  let st' := ustart st data fin in uni_loop (uni_fuel (s_buf st')) fx O fin st' c (s_buf st') [].

(* events, stream, connection, streams the QPACK decoder reports as unblocked *)
Inductive ufull := UF (evs : list event) (st : hstream) (c : conn) (unb : list Z) | UFErr (k : Z) (c : conn) | UFExn (k : Z).

Definition opt_is1 (o : option Z) : bool := match o with Some t => t =? 1 | None => false end.

Definition of_rres (c : conn) (r : rres) : ufull :=
  match r with RVal e st' => UF e st' c [] | RErr k => UFErr k c | RExn k => UFExn k end.

Definition upost (fin : bool) (r : ures) : ufull :=
  match r with
  | URet evs st c => if opt_is1 (s_stype st) then of_rres c (rq_recv fx O (c_client c) st [] fin) else UF evs st c []
  | ULoop st c unb => UF [] st c unb
  | UErr k c => UFErr k c
  | UExn k => UFExn k
  end.

Definition uni_full (st : hstream) (c : conn) (data : list Z) (fin : bool) : ufull := upost fin (uni_step st c data fin).

(* closed form *)
Definition push_parse (st : hstream) (b : list Z) : option (hstream * list Z) :=
  match s_push st with
  | Some p => Some (st, b)
  | None => match pull_uint_var b with None => None | Some (p, b1) => Some (set_push st (Some p), b1) end
  end.
Definition sess_parse (st : hstream) (b : list Z) : option (hstream * list Z) :=
  match s_session st with
  | Some p => Some (st, b)
  | None => match pull_uint_var b with None => None | Some (p, b1) => Some (set_session st (Some p), b1) end
  end.
Definition of_cres (st : hstream) (r : cres) : ufull :=
  match r with CStop c' r => UF [] (set_buf st r) c' [] | CErr k c' => UFErr k c' | CExn k => UFExn k end.

Definition tspec (fin : bool) (st0 : hstream) (t : Z) (c : conn) (b : list Z) : ufull :=
  let st := set_stype st0 (Some t) in
  if t =? 0 then
    if fin then UFErr H3_CLOSED_CRITICAL_STREAM c else of_cres st (ctrl_loop (S (length b)) c b)
  else if t =? 1 then
    match push_parse st b with
    | None => UF [] (set_buf st b) c []
    | Some (st2, r) => of_rres c (rq_recv fx O (c_client c) (set_buf st2 r) [] fin)
    end
  else if t =? 84 then
    match sess_parse st b with
    | None => UF [] (set_buf st b) c []
    | Some (st2, r) =>
        UF (if negb (is_nil r) || fin
            then [EWT (s_id st2) (match s_session st2 with Some p => p | None => 0 end) r (s_ended st2)] else [])
           (set_buf st2 []) c []
    end
  else if t =? 3 then
    if o_ds O b then UF [] (set_buf st []) c [] else UFErr QPACK_DECODER_STREAM_ERROR c
  else if t =? 2 then
    match o_enc O b with
    | EUnblocked l => UF [] (set_buf st []) c l
    | EEncErr => UFErr QPACK_ENCODER_STREAM_ERROR c
    end
  else UF [] (set_buf st []) c [].

Definition uni_spec (st : hstream) (c : conn) (d : list Z) (fin : bool) : ufull :=
  let buf := s_buf st ++ d in
  let st' := ustart st d fin in
  if negb (stream_loops (s_stype st) || negb (is_nil buf)) then UF [] st' c [] else
  match typed_of st' c buf with
  | None => UF [] st' c []
  | Some (inr _) => UFErr H3_STREAM_CREATION_ERROR c
  | Some (inl (t, b1, c')) => tspec fin st' t c' b1
  end.

Lemma uni_exit : forall f fin st c unb, stream_loops (s_stype st) = false ->
  uni_loop f fx O fin st c [] unb = ULoop (set_buf st []) c unb.
Proof. intros f fin st c unb H. destruct f; [reflexivity|]. rewrite uni_loop_S, H. reflexivity. Qed.

Lemma s_stype_set_stype : forall st t, s_stype (set_stype st t) = t.
Proof. destruct st; reflexivity. Qed.

Lemma typed_spec : forall (f : nat) fin st0 t c b, Zlen b < Z.of_nat f ->
  upost fin (uni_typed f fin st0 t c b []) = tspec fin st0 t c b.
Proof.
  intros f fin st0 t c b Hf. unfold uni_typed, tspec. cbv zeta.
  destruct (t =? 0) eqn:E0.
  { assert (t = 0) by lia. subst t. destruct fin; [reflexivity|]. cbn [ctrl_loop].
    destruct (pull_frame b) as [[[ft fd] b']|] eqn:P; [|reflexivity].
    destruct (handle_control_frame fx c ft fd) as [c'| |]; try reflexivity.
    rewrite uni_ctrl by apply s_stype_set_stype.
    apply pull_frame_len in P.
    rewrite (ctrl_fuel f (length b)) by (unfold Zlen in *; lia).
    destruct (ctrl_loop (length b) c' b'); reflexivity. }
  destruct (t =? 1) eqn:E1.
  { assert (t = 1) by lia. subst t. unfold push_parse.
    destruct (s_push (set_stype st0 (Some 1))) as [p|].
    - cbn [upost]. replace (s_stype (set_buf (set_stype st0 (Some 1)) b)) with (Some 1) by (destruct st0; reflexivity).
      reflexivity.
    - destruct (pull_uint_var b) as [[p b1]|]; [|reflexivity]. cbn [upost].
      replace (s_stype (set_buf (set_push (set_stype st0 (Some 1)) (Some p)) b1)) with (Some 1) by (destruct st0; reflexivity).
      reflexivity. }
  destruct (t =? 84) eqn:E84.
  { assert (t = 84) by lia. subst t. unfold sess_parse.
    destruct (s_session (set_stype st0 (Some 84))) as [p|].
    - cbn [upost]. replace (s_stype (set_buf (set_stype st0 (Some 84)) [])) with (Some 84) by (destruct st0; reflexivity).
      reflexivity.
    - destruct (pull_uint_var b) as [[p b1]|]; [|reflexivity]. cbn [upost].
      replace (s_stype (set_buf (set_session (set_stype st0 (Some 84)) (Some p)) [])) with (Some 84) by (destruct st0; reflexivity).
      reflexivity. }
  assert (Hsl : stream_loops (s_stype (set_stype st0 (Some t))) = false).
  { rewrite s_stype_set_stype. cbn [stream_loops]. lia. }
  destruct (t =? 3).
  { destruct (o_ds O b); [|reflexivity]. rewrite uni_exit by assumption. reflexivity. }
  destruct (t =? 2).
  { destruct (o_enc O b); [|reflexivity]. rewrite uni_exit by assumption. reflexivity. }
  rewrite uni_exit by assumption. reflexivity.
Qed.

Lemma uni_full_spec : forall st c d fin, uni_full st c d fin = uni_spec st c d fin.
Proof.
  intros st c d fin. unfold uni_full, uni_step, uni_spec. cbv zeta.
  replace (s_buf (ustart st d fin)) with (s_buf st ++ d) by (destruct st; reflexivity).
  unfold uni_fuel. rewrite uni_loop_S.
  replace (s_stype (ustart st d fin)) with (s_stype st) by (destruct st; reflexivity).
  replace (set_buf (ustart st d fin) (s_buf st ++ d)) with (ustart st d fin) by (destruct st; reflexivity).
  destruct (negb (stream_loops (s_stype st) || negb (is_nil (s_buf st ++ d)))); [reflexivity|].
  destruct (typed_of (ustart st d fin) c (s_buf st ++ d)) as [[[[t b1] c']|u]|] eqn:Et; try reflexivity.
  apply typed_spec.
  unfold typed_of in Et. destruct (s_stype (ustart st d fin)).
  - inversion Et; subst. unfold Zlen. lia.
  - destruct (pull_uint_var (s_buf st ++ d)) as [[t' b']|] eqn:P; [|discriminate].
    apply pull_len in P.
    assert (b1 = b').
    { destruct (t' =? 0); [destruct (is_none (c_ctrl c)); inversion Et; reflexivity|].
      destruct (t' =? 3); [destruct (is_none (c_qdec c)); inversion Et; reflexivity|].
      destruct (t' =? 2); [destruct (is_none (c_qenc c)); inversion Et; reflexivity|]. inversion Et; reflexivity. }
    subst. unfold Zlen in *. lia.
Qed.

(* ------------------------------------------------------------------ comparing outcomes *)
Definition uequiv (r1 r2 : ufull) : Prop :=
  match r1, r2 with
  | UF e1 s1 c1 u1, UF e2 s2 c2 u2 => norm e1 = norm e2 /\ s1 = s2 /\ c1 = c2 /\ u1 = u2
  | UFErr a _, UFErr b _ => a = b
  | UFExn a, UFExn b => a = b
  | _, _ => False
  end.

Definition ubind (r : ufull) (k : hstream -> conn -> ufull) : ufull :=
  match r with
  | UF e st c u => match k st c with UF e2 st2 c2 u2 => UF (e ++ e2) st2 c2 (u ++ u2) | x => x end
  | x => x
  end.

Lemma uequiv_refl : forall r, uequiv r r.
Proof. destruct r; cbn; auto. Qed.

Lemma ubind_nil : forall st c k, uequiv (ubind (UF [] st c []) k) (k st c).
Proof. intros. cbn. destruct (k st c); cbn; auto. Qed.

(* ------------------------------------------------------------------ facts about request/push parsing used for push streams *)
Lemma handle_keeps : forall cl t d st e,
  match handle_rp_frame fx O cl t (Some d) st e with
  | HVal _ st2 | HBlocked st2 => s_stype st2 = s_stype st /\ s_push st2 = s_push st
  | _ => True
  end.
Proof.
  intros cl t d st e. destruct st as [i bf cu se bl en hs cn ex pu sy bt bp].
  unfold handle_rp_frame, endmark, check_cl, set_ended, set_clen, set_expect, set_hstate, set_bpush.
  cbn [s_id s_buf s_cur s_session s_blocked s_ended s_hstate s_clen s_expect s_push s_stype s_btype s_bpush].
  brk; cbn; auto.
Qed.

Lemma rq_loop_keeps : forall f cl fin st b evs e st',
  rq_loop f fx O cl fin st b evs = RVal e st' -> s_stype st' = s_stype st /\ s_push st' = s_push st.
Proof.
  induction f; intros cl fin st b evs e st' H.
  { cbn in H. inversion H; subst. destruct st; auto. }
  rewrite (rq_loop_S fx O cl) in H.
  destruct (is_nil b); [inversion H; subst; destruct st; auto|].
  destruct (hdr_of st b) as [[[t n] b2]|]; [|inversion H; subst; destruct st; auto].
  destruct (is_none (s_cur st) && (t =? 65)); [inversion H; subst; destruct st; auto|].
  unfold body in H.
  destruct (negb (t =? 0) && (Z.min n (Zlen b2) <? n)); [inversion H; subst; destruct st; auto|].
  match type of H with (match handle_rp_frame ?a ?b ?c ?d ?e ?g ?h with _ => _ end) = _ =>
    pose proof (handle_keeps c d match e with Some x => x | None => [] end g h) as Hk;
    destruct (handle_rp_frame a b c d e g h) end; try discriminate.
  - apply IHf in H. destruct H as [H1 H2], Hk as [K1 K2]. rewrite H1, H2, K1, K2. destruct st; auto.
  - inversion H; subst. destruct Hk as [K1 K2]. destruct st0; cbn in *. rewrite K1, K2. destruct st; auto.
Qed.

Lemma rq_recv_keeps : forall cl st d fin e st',
  rq_recv fx O cl st d fin = RVal e st' -> s_stype st' = s_stype st /\ s_push st' = s_push st.
Proof.
  intros cl st d fin e st' H. unfold rq_recv in H.
  match type of H with (if ?c then _ else _) = _ => destruct c end; [inversion H; subst; destruct st; auto|].
  match type of H with (match ?c with _ => _ end) = _ => destruct c end; [inversion H; subst; destruct st; auto|].
  match type of H with (match ?c with _ => _ end) = _ => destruct c end; [inversion H; subst; destruct st; auto|].
  match type of H with (if ?c then _ else _) = _ => destruct c end.
  { match type of H with (if ?c then _ else _) = _ => destruct c end; [|discriminate]. inversion H; subst; destruct st; auto. }
  match type of H with (match ?c with _ => _ end) = _ => destruct c eqn:Hl end; try discriminate.
  apply rq_loop_keeps in Hl.
  match type of H with (if ?c then _ else _) = _ => destruct c end; [discriminate|]. inversion H; subst.
  destruct Hl as [H1 H2]. rewrite H1, H2. destruct st; auto.
Qed.

(* a delivery only sees the buffer with the new bytes appended *)
Lemma rq_recv_norm : forall cl s d fin, fin = true \/ s_ended s = false ->
  rq_recv fx O cl s d fin = rq_recv fx O cl (set_ended (set_buf s []) false) (s_buf s ++ d) fin.
Proof.
  intros cl s d fin H. unfold rq_recv. destruct s as [i bf cu se bl en hs cn ex pu sy bt bp].
  cbn [s_id s_buf s_cur s_session s_blocked s_ended s_hstate s_clen s_expect s_push s_stype s_btype s_bpush
       set_buf set_ended app orb].
  replace (en || fin) with fin; [reflexivity|]. destruct H as [->|H]; [rewrite orb_true_r; reflexivity|].
  cbn in H. subst. reflexivity.
Qed.

(* ------------------------------------------------------------------ a later delivery on a stream whose type is known *)
Lemma uni_spec_typed : forall st1 t c1 b fin, s_stype st1 = Some t -> s_ended st1 = false ->
  uni_spec st1 c1 b fin =
  let st' := set_ended (set_buf st1 (s_buf st1 ++ b)) fin in
  if negb (stream_loops (Some t) || negb (is_nil (s_buf st1 ++ b))) then UF [] st' c1 []
  else tspec fin st' t c1 (s_buf st1 ++ b).
Proof.
  intros st1 t c1 b fin Ht He. unfold uni_spec, ustart, typed_of. cbv zeta. rewrite Ht, He. cbn [orb].
  replace (s_stype (set_ended (set_buf st1 (s_buf st1 ++ b)) fin)) with (Some t) by (destruct st1; cbn in *; congruence).
  reflexivity.
Qed.

(* control stream, no FIN *)
Lemma ctrl_two : forall stb zw za c x b, s_ended stb = false ->
  uequiv (tspec false (set_ended (set_buf stb zw) false) 0 c (x ++ b))
         (ubind (tspec false (set_buf stb za) 0 c x) (fun st1 c1 => uni_spec st1 c1 b false)).
Proof.
  intros stb zw za c x b He. unfold tspec. cbn [Z.eqb].
  set (F := S (length (x ++ b))).
  assert (HF : Zlen (x ++ b) < Z.of_nat F) by (unfold F, Zlen; lia).
  rewrite (ctrl_fuel (S (length x)) F c x) by (rewrite Zlen_app in HF; pose proof (Zlen_nonneg b); unfold Zlen in *; lia).
  rewrite (ctrl_split F c x b HF).
  destruct (ctrl_loop F c x) as [c1 r| |] eqn:E; [|cbn; reflexivity..].
  pose proof (ctrl_rest_len _ _ _ _ _ E) as Hr.
  cbn [of_cres ubind].
  set (st1 := set_buf (set_stype (set_buf stb za) (Some 0)) r).
  rewrite (uni_spec_typed st1 0) by (subst st1; destruct stb; cbn in *; congruence).
  cbv zeta. cbn [stream_loops Z.eqb orb negb].
  replace (s_buf st1) with r by (subst st1; destruct stb; reflexivity).
  unfold tspec. cbn [Z.eqb].
  rewrite (ctrl_fuel (S (length (r ++ b))) F c1 (r ++ b)) by (unfold F, Zlen in *; rewrite ?app_length in *; lia).
  destruct (ctrl_loop F c1 (r ++ b)); cbn; auto.
Qed.

(* unknown stream types: everything is discarded *)
Lemma other_two : forall stb zw za t c x b fin, s_ended stb = false ->
  (t =? 0) = false -> (t =? 1) = false -> (t =? 84) = false -> (t =? 3) = false -> (t =? 2) = false ->
  uequiv (tspec fin (set_ended (set_buf stb zw) fin) t c (x ++ b))
         (ubind (tspec false (set_buf stb za) t c x) (fun st1 c1 => uni_spec st1 c1 b fin)).
Proof.
  intros stb zw za t c x b fin He E0 E1 E84 E3 E2. unfold tspec. rewrite E0, E1, E84, E3, E2. cbn [ubind].
  set (st1 := set_buf (set_stype (set_buf stb za) (Some t)) []).
  rewrite (uni_spec_typed st1 t) by (subst st1; destruct stb; cbn in *; congruence).
  cbv zeta. cbn [stream_loops]. rewrite E1, E0, E84. cbn [orb].
  replace (s_buf st1) with (@nil Z) by (subst st1; destruct stb; reflexivity). cbn [app].
  destruct (is_nil b) eqn:En; cbn [negb].
  - apply is_nil_true in En. subst b. cbn. repeat split; auto; subst st1; destruct stb; reflexivity.
  - unfold tspec. rewrite E0, E1, E84, E3, E2. cbn. repeat split; auto; subst st1; destruct stb; reflexivity.
Qed.

(* QPACK decoder stream: the bytes go to Encoder.feed_decoder; feeding x ++ y must be feeding x, then y *)
Lemma qdec_two : forall stb zw za c x b fin, s_ended stb = false ->
  (forall x y, o_ds O (x ++ y) = o_ds O x && o_ds O y) ->
  uequiv (tspec fin (set_ended (set_buf stb zw) fin) 3 c (x ++ b))
         (ubind (tspec false (set_buf stb za) 3 c x) (fun st1 c1 => uni_spec st1 c1 b fin)).
Proof.
  intros stb zw za c x b fin He Hds. unfold tspec. cbn [Z.eqb Pos.eqb].
  set (st1 := set_buf (set_stype (set_buf stb za) (Some 3)) []).
  assert (U : forall c1, uni_spec st1 c1 b fin =
              if is_nil b then UF [] (set_ended (set_buf st1 b) fin) c1 []
              else tspec fin (set_ended (set_buf st1 b) fin) 3 c1 b).
  { intros c1. rewrite (uni_spec_typed st1 3) by (subst st1; destruct stb; cbn in *; congruence).
    cbv zeta. cbn [stream_loops Z.eqb Pos.eqb orb].
    replace (s_buf st1) with (@nil Z) by (subst st1; destruct stb; reflexivity). cbn [app].
    destruct (is_nil b); reflexivity. }
  destruct (is_nil b) eqn:En.
  - apply is_nil_true in En. subst b. rewrite app_nil_r.
    destruct (o_ds O x); [|cbn; reflexivity]. cbn [ubind]. rewrite U. cbn.
    repeat split; auto; subst st1; destruct stb; cbn in *; subst; reflexivity.
  - rewrite Hds. destruct (o_ds O x); cbn [andb]; [|cbn; reflexivity]. cbn [ubind]. rewrite U.
    unfold tspec. cbn [Z.eqb Pos.eqb]. destruct (o_ds O b); cbn; auto; repeat split; auto; subst st1; destruct stb; cbn in *; subst; reflexivity.
Qed.

(* QPACK encoder stream *)
Definition enc_seq (O : oracle) : Prop :=
  forall x y, o_enc O (x ++ y) =
    match o_enc O x with
    | EEncErr => EEncErr
    | EUnblocked l1 => match o_enc O y with EEncErr => EEncErr | EUnblocked l2 => EUnblocked (l1 ++ l2) end
    end.

Lemma qenc_two : forall stb zw za c x b fin, s_ended stb = false -> enc_seq O ->
  uequiv (tspec fin (set_ended (set_buf stb zw) fin) 2 c (x ++ b))
         (ubind (tspec false (set_buf stb za) 2 c x) (fun st1 c1 => uni_spec st1 c1 b fin)).
Proof.
  intros stb zw za c x b fin He Henc. unfold tspec. cbn [Z.eqb Pos.eqb].
  set (st1 := set_buf (set_stype (set_buf stb za) (Some 2)) []).
  assert (U : forall c1, uni_spec st1 c1 b fin =
              if is_nil b then UF [] (set_ended (set_buf st1 b) fin) c1 []
              else tspec fin (set_ended (set_buf st1 b) fin) 2 c1 b).
  { intros c1. rewrite (uni_spec_typed st1 2) by (subst st1; destruct stb; cbn in *; congruence).
    cbv zeta. cbn [stream_loops Z.eqb Pos.eqb orb].
    replace (s_buf st1) with (@nil Z) by (subst st1; destruct stb; reflexivity). cbn [app].
    destruct (is_nil b); reflexivity. }
  destruct (is_nil b) eqn:En.
  - apply is_nil_true in En. subst b. rewrite app_nil_r.
    destruct (o_enc O x) as [l1|]; [|cbn; reflexivity]. cbn [ubind]. rewrite U. cbn. rewrite app_nil_r.
    repeat split; auto; subst st1; destruct stb; cbn in *; subst; reflexivity.
  - rewrite Henc. destruct (o_enc O x) as [l1|]; [|cbn; reflexivity]. cbn [ubind]. rewrite U.
    unfold tspec. cbn [Z.eqb Pos.eqb]. destruct (o_enc O b) as [l2|]; cbn; auto; repeat split; auto; subst st1; destruct stb; cbn in *; subst; reflexivity.
Qed.

(* WebTransport unidirectional stream *)
Lemma norm_wt_split : forall i p x b fin,
  norm (if negb (is_nil (x ++ b)) || fin then [EWT i p (x ++ b) fin] else []) =
  norm ((if negb (is_nil x) || false then [EWT i p x false] else []) ++
        (if negb (is_nil b) || fin then [EWT i p b fin] else [])).
Proof. intros i p [|x0 x] [|b0 b] [|]; cbn; rewrite ?app_nil_r, ?map_app, <- ?app_assoc; reflexivity. Qed.

Lemma wt_two : forall stb zw za c x b fin, s_ended stb = false ->
  uequiv (tspec fin (set_ended (set_buf stb zw) fin) 84 c (x ++ b))
         (ubind (tspec false (set_buf stb za) 84 c x) (fun st1 c1 => uni_spec st1 c1 b fin)).
Proof.
  intros stb zw za c x b fin He. unfold tspec. cbn [Z.eqb Pos.eqb]. unfold sess_parse.
  replace (s_session (set_stype (set_ended (set_buf stb zw) fin) (Some 84))) with (s_session stb) by (destruct stb; reflexivity).
  replace (s_session (set_stype (set_buf stb za) (Some 84))) with (s_session stb) by (destruct stb; reflexivity).
  (* what a later delivery does once the session id is known *)
  assert (U : forall st1 p c1, s_stype st1 = Some 84 -> s_ended st1 = false -> s_session st1 = Some p -> s_buf st1 = [] ->
              uni_spec st1 c1 b fin =
              UF (if negb (is_nil b) || fin then [EWT (s_id st1) p b fin] else []) (set_ended st1 fin) c1 []).
  { intros st1 p c1 H1 H2 H3 H4. rewrite (uni_spec_typed st1 84) by assumption.
    cbv zeta. cbn [stream_loops Z.eqb Pos.eqb orb negb]. rewrite H4. cbn [app].
    unfold tspec. cbn [Z.eqb Pos.eqb]. unfold sess_parse.
    replace (s_session (set_stype (set_ended (set_buf st1 b) fin) (Some 84))) with (Some p) by (destruct st1; cbn in *; congruence).
    f_equal; destruct st1; cbn in *; subst; reflexivity. }
  destruct (s_session stb) as [p|] eqn:Es.
  - cbn [ubind]. erewrite U; [| destruct stb; reflexivity | destruct stb; cbn in *; congruence | destruct stb; cbn in *; eassumption | destruct stb; reflexivity].
    cbn [uequiv]. repeat split; auto.
    replace (s_session (set_stype (set_ended (set_buf stb zw) fin) (Some 84))) with (Some p) by (destruct stb; cbn in *; congruence).
      replace (s_session (set_stype (set_buf stb za) (Some 84))) with (Some p) by (destruct stb; cbn in *; congruence).
      replace (s_ended (set_stype (set_ended (set_buf stb zw) fin) (Some 84))) with fin by (destruct stb; reflexivity).
      replace (s_ended (set_stype (set_buf stb za) (Some 84))) with false by (destruct stb; cbn in *; congruence).
      replace (s_id (set_stype (set_ended (set_buf stb zw) fin) (Some 84))) with (s_id stb) by (destruct stb; reflexivity).
      replace (s_id (set_stype (set_buf stb za) (Some 84))) with (s_id stb) by (destruct stb; reflexivity).
      replace (s_id (set_buf (set_stype (set_buf stb za) (Some 84)) [])) with (s_id stb) by (destruct stb; reflexivity).
      apply norm_wt_split.
  - destruct (pull_uint_var x) as [[p r]|] eqn:P.
    + rewrite (pull_app _ b _ _ P). cbn [ubind].
      erewrite U; [| destruct stb; reflexivity | destruct stb; cbn in *; congruence | destruct stb; reflexivity | destruct stb; reflexivity].
      cbn [uequiv]. repeat split; auto.
      replace (s_session (set_session (set_stype (set_ended (set_buf stb zw) fin) (Some 84)) (Some p))) with (Some p) by (destruct stb; reflexivity).
        replace (s_session (set_session (set_stype (set_buf stb za) (Some 84)) (Some p))) with (Some p) by (destruct stb; reflexivity).
        replace (s_ended (set_session (set_stype (set_ended (set_buf stb zw) fin) (Some 84)) (Some p))) with fin by (destruct stb; reflexivity).
        replace (s_ended (set_session (set_stype (set_buf stb za) (Some 84)) (Some p))) with false by (destruct stb; cbn in *; congruence).
        replace (s_id (set_session (set_stype (set_ended (set_buf stb zw) fin) (Some 84)) (Some p))) with (s_id stb) by (destruct stb; reflexivity).
        replace (s_id (set_session (set_stype (set_buf stb za) (Some 84)) (Some p))) with (s_id stb) by (destruct stb; reflexivity).
        replace (s_id (set_buf (set_session (set_stype (set_buf stb za) (Some 84)) (Some p)) [])) with (s_id stb) by (destruct stb; reflexivity).
        apply norm_wt_split.
    + (* the session id is still incomplete: the bytes wait in the buffer *)
      cbn [ubind].
      set (st1 := set_buf (set_stype (set_buf stb za) (Some 84)) x).
      rewrite (uni_spec_typed st1 84) by (subst st1; destruct stb; cbn in *; congruence).
      cbv zeta. cbn [stream_loops Z.eqb Pos.eqb orb negb].
      replace (s_buf st1) with x by (subst st1; destruct stb; reflexivity).
      unfold tspec. cbn [Z.eqb Pos.eqb]. unfold sess_parse.
      replace (s_session (set_stype (set_ended (set_buf st1 (x ++ b)) fin) (Some 84))) with (@None Z)
        by (subst st1; destruct stb; cbn in *; congruence).
      destruct (pull_uint_var (x ++ b)) as [[p r]|]; cbn; repeat split; auto;
        subst st1; destruct stb; cbn in *; subst; reflexivity.
Qed.

(* push stream: behind the push id it is a request / push stream *)
Lemma push_later : forall st1 p c b fin,
  s_stype st1 = Some 1 -> s_push st1 = Some p -> s_ended st1 = false ->
  uni_spec st1 c b fin = of_rres c (rq_recv fx O (c_client c) st1 b fin).
Proof.
  intros st1 p c b fin H1 H2 H3. rewrite (uni_spec_typed st1 1) by assumption.
  cbv zeta. cbn [stream_loops Z.eqb Pos.eqb orb negb]. unfold tspec. cbn [Z.eqb Pos.eqb]. unfold push_parse.
  replace (s_push (set_stype (set_ended (set_buf st1 (s_buf st1 ++ b)) fin) (Some 1))) with (Some p)
    by (destruct st1; cbn in *; congruence).
  f_equal.
  rewrite rq_recv_norm by (destruct fin; [left; reflexivity | right; destruct st1; reflexivity]).
  rewrite (rq_recv_norm _ st1 b) by (right; assumption).
  f_equal; destruct st1; cbn in *; subst; rewrite ?app_nil_r; reflexivity.
Qed.

Lemma push_core : forall S0 p c r b fin,
  fx_trunc fx = true -> fx_endmark fx = true ->
  stream_ok S0 -> s_stype S0 = Some 1 -> s_push S0 = Some p ->
  uequiv (of_rres c (rq_recv fx O (c_client c) S0 (r ++ b) fin))
         (ubind (of_rres c (rq_recv fx O (c_client c) S0 r false)) (fun st1 c1 => uni_spec st1 c1 b fin)).
Proof.
  intros S0 p c r b fin Htr Hem Hok H1 H2.
  pose proof (two_chunks fx O (c_client c) Htr Hem S0 r b fin Hok) as T.
  destruct (rq_recv fx O (c_client c) S0 r false) as [e1 st1| |] eqn:EA.
  - cbn [of_rres ubind].
    pose proof (rq_recv_keeps _ _ _ _ _ _ EA) as [K1 K2].
    pose proof (recv_ok fx O (c_client c) Htr Hem _ _ _ _ Hok EA) as (K3 & _).
    rewrite (push_later st1 p) by congruence.
    cbn [rbind] in T.
    destruct (rq_recv fx O (c_client c) st1 b fin) as [e2 st2| |];
      destruct (rq_recv fx O (c_client c) S0 (r ++ b) fin) as [e st| |]; cbn in *; try tauto.
  - destruct (rq_recv fx O (c_client c) S0 (r ++ b) fin); cbn in *; tauto.
  - destruct (rq_recv fx O (c_client c) S0 (r ++ b) fin); cbn in *; tauto.
Qed.

Lemma ok_push_base : forall stb y z, stream_ok stb -> stream_ok (set_ended (set_buf (set_push (set_stype stb y) z) []) false).
Proof.
  intros stb y z (K1 & K2 & K3). destruct stb; cbn in *. repeat split; cbn; auto.
Qed.

Lemma push_two : forall stb zw za c x b fin,
  fx_trunc fx = true -> fx_endmark fx = true -> stream_ok stb ->
  uequiv (tspec fin (set_ended (set_buf stb zw) fin) 1 c (x ++ b))
         (ubind (tspec false (set_buf stb za) 1 c x) (fun st1 c1 => uni_spec st1 c1 b fin)).
Proof.
  intros stb zw za c x b fin Htr Hem Hok. pose proof Hok as (He & _ & _).
  unfold tspec. cbn [Z.eqb Pos.eqb]. unfold push_parse.
  replace (s_push (set_stype (set_ended (set_buf stb zw) fin) (Some 1))) with (s_push stb) by (destruct stb; reflexivity).
  replace (s_push (set_stype (set_buf stb za) (Some 1))) with (s_push stb) by (destruct stb; reflexivity).
  destruct (s_push stb) as [p|] eqn:Ep.
  - set (S0 := set_ended (set_buf (set_push (set_stype stb (Some 1)) (Some p)) []) false).
    rewrite rq_recv_norm by (destruct fin; [left; reflexivity | right; destruct stb; reflexivity]).
    rewrite (rq_recv_norm _ (set_buf (set_stype (set_buf stb za) (Some 1)) x)) by (right; destruct stb; cbn in *; congruence).
    replace (set_ended (set_buf (set_buf (set_stype (set_ended (set_buf stb zw) fin) (Some 1)) (x ++ b)) []) false) with S0
      by (subst S0; destruct stb; cbn in *; subst; reflexivity).
    replace (set_ended (set_buf (set_buf (set_stype (set_buf stb za) (Some 1)) x) []) false) with S0
      by (subst S0; destruct stb; cbn in *; subst; reflexivity).
    rewrite !s_buf_set_buf, !app_nil_r.
    apply (push_core S0 p); auto; try (apply ok_push_base; assumption); subst S0; destruct stb; reflexivity.
  - destruct (pull_uint_var x) as [[p r]|] eqn:P.
    + rewrite (pull_app _ b _ _ P).
      set (S0 := set_ended (set_buf (set_push (set_stype stb (Some 1)) (Some p)) []) false).
      rewrite rq_recv_norm by (destruct fin; [left; reflexivity | right; destruct stb; reflexivity]).
      rewrite (rq_recv_norm _ (set_buf (set_push (set_stype (set_buf stb za) (Some 1)) (Some p)) r))
        by (right; destruct stb; cbn in *; congruence).
      replace (set_ended (set_buf (set_buf (set_push (set_stype (set_ended (set_buf stb zw) fin) (Some 1)) (Some p)) (r ++ b)) []) false)
        with S0 by (subst S0; destruct stb; cbn in *; subst; reflexivity).
      replace (set_ended (set_buf (set_buf (set_push (set_stype (set_buf stb za) (Some 1)) (Some p)) r) []) false)
        with S0 by (subst S0; destruct stb; cbn in *; subst; reflexivity).
      rewrite !s_buf_set_buf, !app_nil_r.
      apply (push_core S0 p); auto; try (apply ok_push_base; assumption); subst S0; destruct stb; reflexivity.
    + (* the push id is still incomplete *)
      cbn [ubind].
      set (st1 := set_buf (set_stype (set_buf stb za) (Some 1)) x).
      rewrite (uni_spec_typed st1 1) by (subst st1; destruct stb; cbn in *; congruence).
      cbv zeta. cbn [stream_loops Z.eqb Pos.eqb orb negb].
      replace (s_buf st1) with x by (subst st1; destruct stb; reflexivity).
      unfold tspec. cbn [Z.eqb Pos.eqb]. unfold push_parse.
      replace (s_push (set_stype (set_ended (set_buf st1 (x ++ b)) fin) (Some 1))) with (@None Z)
        by (subst st1; destruct stb; cbn in *; congruence).
      destruct (pull_uint_var (x ++ b)) as [[p r]|].
      * match goal with |- uequiv (of_rres c ?A) (match of_rres c ?B with _ => _ end) =>
          replace B with A; [destruct A; cbn; rewrite ?app_nil_r; auto|..] end;
          try (f_equal; subst st1; destruct stb; cbn in *; subst; reflexivity).
      * cbn. repeat split; auto; subst st1; destruct stb; cbn in *; subst; reflexivity.
Qed.

(* ------------------------------------------------------------------ every stream type *)
Definition ds_seq (O : oracle) : Prop := forall x y, o_ds O (x ++ y) = o_ds O x && o_ds O y.

Lemma tspec_two : forall t stb zw za c x b fin,
  fx_trunc fx = true -> fx_endmark fx = true -> stream_ok stb -> ds_seq O -> enc_seq O ->
  (fin = true -> (t =? 0) = false) ->
  uequiv (tspec fin (set_ended (set_buf stb zw) fin) t c (x ++ b))
         (ubind (tspec false (set_buf stb za) t c x) (fun st1 c1 => uni_spec st1 c1 b fin)).
Proof.
  intros t stb zw za c x b fin Htr Hem Hok Hds Henc Hc. pose proof Hok as (He & _ & _).
  destruct (t =? 0) eqn:E0.
  { assert (t = 0) by lia. subst t. destruct fin; [specialize (Hc eq_refl); discriminate|]. apply ctrl_two; assumption. }
  destruct (t =? 1) eqn:E1. { assert (t = 1) by lia. subst t. apply push_two; assumption. }
  destruct (t =? 84) eqn:E84. { assert (t = 84) by lia. subst t. apply wt_two; assumption. }
  destruct (t =? 3) eqn:E3. { assert (t = 3) by lia. subst t. apply qdec_two; assumption. }
  destruct (t =? 2) eqn:E2. { assert (t = 2) by lia. subst t. apply qenc_two; assumption. }
  apply other_two; assumption.
Qed.

Definition uspec_buf (st : hstream) (c : conn) (buf : list Z) (fin : bool) : ufull :=
  let st' := set_ended (set_buf st buf) fin in
  if negb (stream_loops (s_stype st) || negb (is_nil buf)) then UF [] st' c [] else
  match typed_of st' c buf with
  | None => UF [] st' c []
  | Some (inr _) => UFErr H3_STREAM_CREATION_ERROR c
  | Some (inl (t, b1, c')) => tspec fin st' t c' b1
  end.

Lemma uni_spec_buf : forall st c d fin, s_ended st = false ->
  uni_spec st c d fin = uspec_buf st c (s_buf st ++ d) fin.
Proof. intros st c d fin He. unfold uni_spec, uspec_buf, ustart. rewrite He. reflexivity. Qed.

Lemma uspec_buf_set : forall st x c buf fin, uspec_buf (set_buf st x) c buf fin = uspec_buf st c buf fin.
Proof.
  intros. unfold uspec_buf. rewrite set_buf_set_buf.
  replace (s_stype (set_buf st x)) with (s_stype st) by (destruct st; reflexivity). reflexivity.
Qed.

Lemma ubind_nil_eq : forall st c k, ubind (UF [] st c []) k = k st c.
Proof. intros. cbn. destruct (k st c); reflexivity. Qed.

(* the stream is (or is about to become) the control stream *)
Definition is_ctrl (st : hstream) (data : list Z) : bool :=
  match s_stype st with
  | Some t => t =? 0
  | None => match pull_uint_var (s_buf st ++ data) with Some (t, _) => t =? 0 | None => false end
  end.

Lemma uni_two_spec : forall st c a b fin,
  fx_trunc fx = true -> fx_endmark fx = true -> stream_ok st -> ds_seq O -> enc_seq O ->
  (fin = true -> is_ctrl st (a ++ b) = false) ->
  uequiv (uni_spec st c (a ++ b) fin)
         (ubind (uni_spec st c a false) (fun st1 c1 => uni_spec st1 c1 b fin)).
Proof.
  intros st c a b fin Htr Hem Hok Hds Henc Hc. pose proof Hok as (He & _ & _).
  rewrite !uni_spec_buf by assumption. rewrite app_assoc. unfold is_ctrl in Hc. rewrite app_assoc in Hc.
  set (x := s_buf st ++ a) in *.
  (* when the first delivery only buffers, the second one sees the whole buffer *)
  assert (Later : uni_spec (set_ended (set_buf st x) false) c b fin = uspec_buf st c (x ++ b) fin).
  { replace (set_ended (set_buf st x) false) with (set_buf st x) by (destruct st; cbn in *; subst; reflexivity).
    rewrite uni_spec_buf by (destruct st; cbn in *; assumption).
    rewrite uspec_buf_set, s_buf_set_buf. reflexivity. }
  unfold uspec_buf at 2. cbv zeta.
  destruct (negb (stream_loops (s_stype st) || negb (is_nil x))) eqn:EA.
  { rewrite ubind_nil_eq, Later. apply uequiv_refl. }
  unfold typed_of.
  replace (s_stype (set_ended (set_buf st x) false)) with (s_stype st) by (destruct st; reflexivity).
  replace (s_id (set_ended (set_buf st x) false)) with (s_id st) by (destruct st; reflexivity).
  assert (EW : negb (stream_loops (s_stype st) || negb (is_nil (x ++ b))) = false).
  { destruct (stream_loops (s_stype st)); [reflexivity|]. cbn [orb] in *.
    destruct x; [discriminate|reflexivity]. }
  unfold uspec_buf. cbv zeta. rewrite EW. unfold typed_of.
  replace (s_stype (set_ended (set_buf st (x ++ b)) fin)) with (s_stype st) by (destruct st; reflexivity).
  replace (s_id (set_ended (set_buf st (x ++ b)) fin)) with (s_id st) by (destruct st; reflexivity).
  replace (set_ended (set_buf st x) false) with (set_buf st x) in * by (destruct st; cbn in *; subst; reflexivity).
  destruct (s_stype st) as [t|] eqn:Et.
  { apply tspec_two; assumption. }
  destruct (pull_uint_var x) as [[t r1]|] eqn:P.
  2:{ rewrite ubind_nil_eq.
      rewrite Later. unfold uspec_buf. cbv zeta. rewrite Et, EW. unfold typed_of.
      replace (s_stype (set_ended (set_buf st (x ++ b)) fin)) with (@None Z) by (destruct st; cbn in *; congruence).
      replace (s_id (set_ended (set_buf st (x ++ b)) fin)) with (s_id st) by (destruct st; reflexivity).
      apply uequiv_refl. }
  rewrite (pull_app _ b _ _ P) in *.
  destruct (t =? 0) eqn:E0.
  { destruct (is_none (c_ctrl c)); [|cbn; reflexivity].
    apply tspec_two; try assumption. intros Hf. specialize (Hc Hf). congruence. }
  destruct (t =? 3) eqn:E3.
  { destruct (is_none (c_qdec c)); [apply tspec_two; try assumption; intros; assumption | cbn; reflexivity]. }
  destruct (t =? 2) eqn:E2.
  { destruct (is_none (c_qenc c)); [apply tspec_two; try assumption; intros; assumption | cbn; reflexivity]. }
  apply tspec_two; try assumption. intros; assumption.
Qed.

Lemma ubind_ext : forall r k1 k2, (forall s c, k1 s c = k2 s c) -> ubind r k1 = ubind r k2.
Proof. intros r k1 k2 H. destruct r; cbn; [rewrite H|..]; reflexivity. Qed.

(* chunking independence of one unidirectional stream: the bytes a ++ b in one delivery = a, then b.
   FIN on the second delivery is allowed on every stream that is not the control stream. *)
Theorem uni_two : forall st c a b fin,
  fx_trunc fx = true -> fx_endmark fx = true -> stream_ok st -> ds_seq O -> enc_seq O ->
  (fin = true -> is_ctrl st (a ++ b) = false) ->
  uequiv (uni_full st c (a ++ b) fin)
         (ubind (uni_full st c a false) (fun st1 c1 => uni_full st1 c1 b fin)).
Proof.
  intros. rewrite !uni_full_spec.
  rewrite (ubind_ext _ (fun st1 c1 => uni_full st1 c1 b fin) (fun st1 c1 => uni_spec st1 c1 b fin))
    by (intros; apply uni_full_spec).
  apply uni_two_spec; assumption.
Qed.

(* uni_full is what _receive_stream_data does for a unidirectional stream id (stream table and unblocked streams around it) *)
Lemma recv0_uni_full : forall c0 sid data fin, is_uni sid = true ->
  receive_stream_data0 fx O c0 sid data fin =
  let '(s0, c) := get_or_create c0 sid in
  match uni_full s0 c data fin with
  | UF e st' c' unb => unblock fx O (set_streams c' (put_stream st' (c_streams c'))) unb e
  | UFErr k c' => SErr k c'
  | UFExn k => SExn k
  end.
Proof.
  intros c0 sid data fin Hu. unfold receive_stream_data0. destruct (get_or_create c0 sid) as [s0 c]. rewrite Hu.
  unfold uni_full, uni_step, ustart. cbv zeta.
  destruct (uni_loop _ fx O fin _ c _ []) as [st c' unb|evs st c'|k c'|k]; cbn [upost]; try reflexivity.
  destruct (s_stype st) as [[|[q|q|]|q]|]; cbn [opt_is1 Z.eqb Pos.eqb]; try reflexivity.
  destruct (rq_recv fx O (c_client c') st [] fin); reflexivity.
Qed.

End Uni.

(* ------------------------------------------------------------------ the control stream and the FIN: the close code depends on the chunking *)
Definition o_quiet : oracle :=
  mkO (fun _ _ => DFailed) (fun _ => DFailed) (fun _ _ => (false, None)) (fun _ => EUnblocked []) (fun _ => true).

(* control stream 3 carrying a MAX_PUSH_ID frame before any SETTINGS, then the FIN *)
Lemma ctrl_fin_refuted :
  run all_fixed (conn_init false true) [(QStream 3 [0; 13; 1; 1] true, o_quiet)] = [Closed H3_CLOSED_CRITICAL_STREAM] /\
  run all_fixed (conn_init false true) [(QStream 3 [0; 13; 1; 1] false, o_quiet); (QStream 3 [] true, o_quiet)]
    = [Closed H3_MISSING_SETTINGS; Events []].
Proof. split; vm_compute; reflexivity. Qed.

(* the hypotheses on the QPACK oracle are satisfiable by oracles that look at every byte *)
Example seq_oracle_example :
  let o := mkO (fun _ _ => DFailed) (fun _ => DFailed) (fun _ _ => (false, None))
               (fun d => EUnblocked (map (fun x => 4 * x) d)) (fun d => forallb (fun x => x <? 128) d) in
  ds_seq o /\ enc_seq o /\ o_ds o [200] = false /\ o_enc o [1; 2] = EUnblocked [4; 8].
Proof.
  cbv zeta. repeat split.
  - intros x y. cbn [o_ds]. apply forallb_app.
  - intros x y. cbn [o_enc]. rewrite map_app. reflexivity.
Qed.

(* ------------------------------------------------------------------ streams reported as unblocked are processed one after the other *)
Lemma unblock_app : forall fx O l1 l2 c evs,
  unblock fx O c (l1 ++ l2) evs =
  match unblock fx O c l1 evs with SVal e c' => unblock fx O c' l2 e | r => r end.
Proof.
  intros fx O. induction l1 as [|sid l1 IH]; intros l2 c evs; [reflexivity|].
  cbn [app unblock]. destruct (find_stream sid (c_streams c)) as [s|]; [|reflexivity].
  match goal with |- (match ?h with _ => _ end) = _ => destruct h end; try reflexivity.
  match goal with |- (if ?b then _ else _) = _ => destruct b end; [|apply IH].
  match goal with |- (match ?h with _ => _ end) = _ => destruct h end; try reflexivity. apply IH.
Qed.

(* blocked / resume on a concrete exchange (model of the patched code): a response whose HEADERS block has to wait for
   the encoder stream, body and FIN arriving meanwhile, gives the events of the delivery that did not have to wait *)
Definition o_wait : oracle :=
  mkO (fun _ _ => DBlocked) (fun _ => DFailed) (fun _ _ => (true, None)) (fun _ => EUnblocked []) (fun _ => true).
Definition o_arrived : oracle :=
  mkO (fun _ _ => DHeaders 1) (fun _ => DHeaders 1) (fun _ _ => (true, None)) (fun _ => EUnblocked [0]) (fun _ => true).

Definition events_all (l : list hout) : list atom :=
  flat_map (fun o => match o with Events e => norm e | _ => [] end) l.

Lemma blocked_resume_example :
  events_all (run all_fixed (conn_init true true)
     [(QStream 0 [1; 1; 0; 0; 2; 97] false, o_wait); (QStream 0 [98] true, o_wait); (QStream 7 [2; 1] false, o_arrived)])
  = [AHeaders 0 None 1; AByte 0 None 97; AByte 0 None 98; AEnd 0] /\
  events_all (run all_fixed (conn_init true true)
     [(QStream 7 [2; 1] false, oracle1); (QStream 0 [1; 1; 0; 0; 2; 97; 98] true, oracle1)])
  = [AHeaders 0 None 1; AByte 0 None 97; AByte 0 None 98; AEnd 0].
Proof. split; vm_compute; reflexivity. Qed.
