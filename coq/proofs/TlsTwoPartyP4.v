(* C03, two-party system: FINISHED PROVENANCE DERIVED.  A client that accepts a Finished delivered by the network
   adversary, and that authenticated THIS server (certificate of the server's key) or used a PSK the adversary does
   not know, accepted the Finished the honest server emitted:
     - the CertificateVerify signature it verified is known to the adversary, so (signature unforgeability, the server's
       key unknown) it is in an honest CertificateVerify: the server's flight exists and signs the client's transcript,
       hence the ServerHello the client processed is the server's and carries the server's key share;
     - the DH secret of the client's share and the server's share is unknown (DH secrecy), hence the handshake secret
       (Extract), the server handshake traffic secret and the finished key (Expand-Label);  resumed: the early secret
       Extract(0, PSK) is unknown, hence the salt, the handshake secret, ... ;
     - the accepted verify_data is an HMAC under that key known to the adversary, so (HMAC unforgeability) an honest
       message carries it: not the ClientHello binder (label "res binder"), so the Finished of the server's flight.
   Then the one-party lemmas (equal Finished => equal transcript; parameters are functions of the transcript) give the
   agreement [agree]. *)
From AQ Require Import lib.Base gen.TlsDispatch model.TlsSymbolic proofs.TlsDispatchLegal.
From AQ Require Import proofs.TlsSymbolicP1 proofs.TlsSymbolicP2 proofs.TlsSymbolicP4 proofs.TlsSymbolicP5 proofs.TlsSymbolicP3.
From AQ Require Import model.TlsTwoParty proofs.TlsTwoPartyP1 proofs.TlsTwoPartyP2 proofs.TlsTwoPartyP3.

Section P4.
Variable O : oracles.
Variable adv : bytes -> Prop.
Variable cc sc : cfg.
Hypothesis I2 : ideal2 O.
Hypothesis Hpair : sig_pair O (hd [] (f_chain sc)) (f_key sc).

Notation K := (knows O adv).

Let Hhash : forall a x y, o_hash O a x = o_hash O a y -> x = y.
Proof. destruct (i_ideal O I2) as (A & _). exact A. Qed.
Let Hmac : forall a k m a' k' m', o_hmac O a k m = o_hmac O a' k' m' -> a = a' /\ k = k' /\ m = m'.
Proof. destruct (i_ideal O I2) as (_ & A & _). exact A. Qed.
Let Hkdf : forall a s l h a' s' l' h', o_expand O a s l h = o_expand O a' s' l' h' -> a = a' /\ s = s' /\ l = l' /\ h = h'.
Proof. destruct (i_ideal O I2) as (_ & _ & A & _). exact A. Qed.
Let Hfin : forall vd, o_parse_fin O (o_build_fin O vd) = POk vd.
Proof. destruct (i_ideal O I2) as (_ & _ & _ & A). exact A. Qed.
Let Hsh_rt : forall v, o_parse_sh O (o_build_sh O v) = POk v.
Proof. destruct (i_codec O I2) as (A & _). exact A. Qed.
Let Hee_rt : forall v, o_parse_ee O (o_build_ee O v) = POk v.
Proof. destruct (i_codec O I2) as (_ & A & _). exact A. Qed.
Let Hsh_fr : forall v, framed (o_build_sh O v).
Proof. destruct (i_codec O I2) as (_ & _ & A & _). exact A. Qed.
Let Hee_fr : forall v, framed (o_build_ee O v).
Proof. destruct (i_codec O I2) as (_ & _ & _ & A & _). exact A. Qed.
Let T20 : forall x, msg_type (o_build_fin O x) = 20.
Proof. destruct (i_codec O I2) as (_ & _ & _ & _ & A & _). exact A. Qed.

(* what the adversary must not know, for the client's authentication of THIS server to mean anything:
   full handshake - the client holds the server's certificate; the server's certificate key, the client's (EC)DHE private
   keys and the server's are unknown;  resumed - the PSK (the ticket's resumption secret) is unknown *)
Definition secure (outs : list bytes) (c : tst) : Prop :=
  (t_resumed c = false /\ hd [] (t_peer c) = hd [] (f_chain sc) /\ ~ K outs (f_key sc) /\
   (forall g p, In (g, p) (f_privs cc) -> ~ K outs p) /\ (forall g, ~ K outs (f_spriv sc g))) \/
  (t_resumed c = true /\ framed (client_hello_tr O cc true) /\ ~ K outs (early_ikm cc true 0)).

(* agreement of a completed client with the server's flight *)
Definition agree (c : tst) (chm : bytes) (ss1 : tst) (outS : out) : Prop :=
  chm = client_hello_tr O cc (t_resumed c) /\
  (exists rest, k_tr (the_ks c) = chm ++ concat (map snd outS) ++ rest) /\
  k_suite (the_ks c) = k_suite (the_ks ss1) /\ t_resumed c = t_resumed ss1 /\ t_alpn c = t_alpn ss1 /\
  t_early c = t_early ss1 /\
  exists kF eS cS keys0 finm a1 a2 a3 a4,
    server_after O ss1 keys0 kF eS cS finm /\
    In (DIR_DECRYPT, EP_HANDSHAKE, a1, eS) (t_keys c) /\ In (DIR_ENCRYPT, EP_HANDSHAKE, a2, cS) (t_keys c) /\
    In (DIR_DECRYPT, EP_ONE_RTT, a3, ks_derive O (ks_extract O (ks_update kF finm) None) L_s_ap_traffic) (t_keys c) /\
    In (DIR_ENCRYPT, EP_ONE_RTT, a4, ks_derive O (ks_extract O (ks_update kF finm) None) L_c_ap_traffic) (t_keys c).

Definition client_final (m : bytes) : Prop :=
  exists s mf s' outC, client_handle_finished O cc s mf = (OOk, s', outC) /\ In m (map snd outC).

Definition srv_t := option (bytes * tst * out).

Definition honest_msg (y : sys) (srv : srv_t) (m : bytes) : Prop :=
  m = client_hello_msg O cc \/
  (exists chm ss1 outS, srv = Some (chm, ss1, outS) /\ In m (map snd outS)) \/
  (t_state (y_c y) = CLIENT_POST_HANDSHAKE /\ client_final m).

Record SI (y : sys) (srv : srv_t) : Prop := mkSI {
  si_c : y_c y = init_client cc \/ exists ms, y_c y = run O cc (client_started O cc) ms;
  si_s : match srv with
         | None => t_state (y_s y) = SERVER_EXPECT_CLIENT_HELLO /\ (y_sdead y = false -> y_s y = init_server sc)
         | Some (chm, ss1, outS) =>
             framed chm /\ server_handle_hello O sc (init_server sc) chm = (OOk, ss1, outS) /\ srel ss1 (y_s y)
         end;
  si_out : forall m, In m (y_out y) -> honest_msg y srv m;
  si_ck : t_state (y_c y) = CLIENT_EXPECT_FINISHED -> t_resumed (y_c y) = false ->
          exists alg sg k0 cvm, K (y_out y) sg /\
            o_sig_verify O (hd [] (t_peer (y_c y))) alg (ks_cv_data O k0 SERVER_CONTEXT_STRING) sg = true /\
            the_ks (y_c y) = ks_update k0 cvm;
  si_ag : t_state (y_c y) = CLIENT_POST_HANDSHAKE ->
          exists outs_t, (forall x, K outs_t x -> K (y_out y) x) /\
            (secure outs_t (y_c y) -> exists chm ss1 outS, srv = Some (chm, ss1, outS) /\ agree (y_c y) chm ss1 outS);
  (* the flight was really emitted *)
  si_emit : match srv with
            | Some (_, _, outS) => forall m, In m (map snd outS) -> In m (y_out y)
            | None => True
            end
}.

Lemma hello_tr_framed_false : framed (client_hello_tr O cc false).
Proof. unfold client_hello_tr, client_hello_msg. destruct (use_ticket cc); apply (i_ch_fr O I2). Qed.

(* an element of the flight, by position *)
Lemma flight_in : forall chm ss1 outS shv eev auth k1 k3 g shared psk m,
  flight_facts O sc chm ss1 outS shv eev auth k1 k3 g shared psk -> In m (map snd outS) ->
  m = o_build_sh O shv \/ m = o_build_ee O eev \/ In m auth \/
  m = o_build_fin O (ks_finished O k3 (ks_derive O k1 L_s_hs_traffic)).
Proof.
  intros chm ss1 outS shv eev auth k1 k3 g shared psk m F H. rewrite (ff_out _ _ _ _ _ _ _ _ _ _ _ _ _ F) in H.
  destruct H as [H | [H | H]]; [left; auto | right; left; auto |].
  apply in_app_or in H. destruct H as [H | [H | []]]; [right; right; left; exact H | right; right; right; auto].
Qed.

(* ---------- step A (full handshake): the signature leads to the server's flight and to its key share ----------- *)
Lemma sig_to_flight : forall y srv alg k0 sg,
  (forall m, In m (y_out y) -> honest_msg y srv m) ->
  t_state (y_c y) <> CLIENT_POST_HANDSHAKE ->
  match srv with
  | None => True
  | Some (chm, ss1, outS) => server_handle_hello O sc (init_server sc) chm = (OOk, ss1, outS)
  end ->
  dy_sound O adv (y_out y) -> ~ K (y_out y) (f_key sc) ->
  K (y_out y) sg -> sg = o_sign O (f_key sc) alg (ks_cv_data O k0 SERVER_CONTEXT_STRING) ->
  exists chm ss1 outS shv eev auth k1 k3 g shared rest,
    srv = Some (chm, ss1, outS) /\ flight_facts O sc chm ss1 outS shv eev auth k1 k3 g shared false /\
    k_tr k0 = chm ++ o_build_sh O shv ++ rest.
Proof.
  intros y srv alg k0 sg Hout Hnp Hsrv DS Hk Ksg Esg. subst sg.
  destruct (ds_sig _ _ _ DS _ _ _ Ksg) as [A | (m' & Hin & Hs)]; [contradiction |].
  destruct (Hout m' Hin) as [Hm | [(chm & ss1 & outS & Es & Hm) | [Hp _]]]; [| | contradiction].
  { subst m'. rewrite client_hello_sigs in Hs by exact I2. destruct Hs. }
  subst srv.
  destruct (flight_facts_of O sc chm ss1 outS Hsrv) as (shv & eev & auth & k1 & k3 & g & shared & psk & F).
  destruct (flight_in _ _ _ _ _ _ _ _ _ _ _ _ F Hm) as [E | [E | [E | E]]].
  - subst m'. rewrite (sigs_of_other O I2) in Hs; [destruct Hs | rewrite (i_t_sh O I2); discriminate].
  - subst m'. rewrite (sigs_of_other O I2) in Hs; [destruct Hs | rewrite (i_t_ee O I2); discriminate].
  - pose proof (ff_auth _ _ _ _ _ _ _ _ _ _ _ _ _ F) as A. destruct psk; [subst auth; destruct E |].
    destruct A as (crl & ctv & kb & sigalg & A1 & A2 & A3 & A4).
    rewrite A1 in E. apply in_app_or in E. destruct E as [E | [E | [E | []]]].
    + destruct A4 as [-> | (v & ->)]; [destruct E |]. destruct E as [E | []]. subst m'.
      rewrite (sigs_of_other O I2) in Hs; [destruct Hs | rewrite (i_t_cr O I2); discriminate].
    + subst m'. rewrite (sigs_of_other O I2) in Hs; [destruct Hs | rewrite (i_t_ct O I2); discriminate].
    + subst m'. rewrite (sigs_of_cv O I2) in Hs. cbn [cv_sig] in Hs. destruct Hs as [Hs | []].
      apply (i_sign O I2) in Hs. destruct Hs as (_ & _ & Hd). apply (cv_data_inj O I2) in Hd. destruct Hd as [_ Ht].
      exists chm, ss1, outS, shv, eev, auth, k1, k3, g, shared. eexists.
      split; [reflexivity |]. split; [exact F |]. rewrite <- Ht, A2. reflexivity.
  - subst m'. rewrite (sigs_of_other O I2) in Hs; [destruct Hs | rewrite T20; discriminate].
Qed.

(* ---------- step B: the accepted MAC is the one of the server's Finished --------------------------------------------- *)
Lemma mac_to_flight : forall y srv k e h,
  (forall m, In m (y_out y) -> honest_msg y srv m) ->
  t_state (y_c y) <> CLIENT_POST_HANDSHAKE ->
  match srv with
  | None => True
  | Some (chm, ss1, outS) => server_handle_hello O sc (init_server sc) chm = (OOk, ss1, outS)
  end ->
  dy_sound O adv (y_out y) ->
  e = o_expand O (k_alg k) (k_secret k) L_s_hs_traffic h -> ~ K (y_out y) (k_secret k) ->
  K (y_out y) (ks_finished O k e) ->
  exists chm ss1 outS shv eev auth k1 k3 g shared psk,
    srv = Some (chm, ss1, outS) /\ flight_facts O sc chm ss1 outS shv eev auth k1 k3 g shared psk /\
    ks_finished O k e = ks_finished O k3 (ks_derive O k1 L_s_hs_traffic).
Proof.
  intros y srv k e h Hout Hnp Hsrv DS He Hsec Kvd.
  unfold ks_finished in Kvd.
  destruct (ds_mac _ _ _ DS _ _ _ Kvd) as [A | (m' & Hin & Hs)].
  { exfalso. apply (ds_kdf _ _ _ DS) in A. rewrite He in A. apply (ds_kdf _ _ _ DS) in A. contradiction. }
  fold (ks_finished O k e) in Hs.
  destruct (Hout m' Hin) as [Hm | [(chm & ss1 & outS & Es & Hm) | [Hp _]]]; [| | contradiction].
  { exfalso. subst m'. apply (client_hello_macs O I2) in Hs. destruct Hs as (k' & e' & h' & Hx & He').
    apply (finished_binds_transcript_lemma O Hhash Hmac Hkdf) in Hx. destruct Hx as (_ & Hx & _).
    rewrite He, He' in Hx. apply Hkdf in Hx. destruct Hx as (_ & _ & Hl & _). discriminate Hl. }
  subst srv.
  destruct (flight_facts_of O sc chm ss1 outS Hsrv) as (shv & eev & auth & k1 & k3 & g & shared & psk & F).
  destruct (flight_in _ _ _ _ _ _ _ _ _ _ _ _ F Hm) as [E | [E | [E | E]]].
  - subst m'. rewrite (macs_of_other O I2) in Hs; [destruct Hs | |]; rewrite (i_t_sh O I2); discriminate.
  - subst m'. rewrite (macs_of_other O I2) in Hs; [destruct Hs | |]; rewrite (i_t_ee O I2); discriminate.
  - exfalso. pose proof (ff_auth _ _ _ _ _ _ _ _ _ _ _ _ _ F) as A. destruct psk; [subst auth; destruct E |].
    destruct A as (crl & ctv & kb & sigalg & A1 & A2 & A3 & A4).
    rewrite A1 in E. apply in_app_or in E. destruct E as [E | [E | [E | []]]].
    + destruct A4 as [-> | (v & ->)]; [destruct E |]. destruct E as [E | []]. subst m'.
      rewrite (macs_of_other O I2) in Hs; [destruct Hs | |]; rewrite (i_t_cr O I2); discriminate.
    + subst m'. rewrite (macs_of_other O I2) in Hs; [destruct Hs | |]; rewrite (i_t_ct O I2); discriminate.
    + subst m'. rewrite (macs_of_other O I2) in Hs; [destruct Hs | |]; rewrite (i_t_cv O I2); discriminate.
  - subst m'. rewrite (macs_of_fin O I2) in Hs. destruct Hs as [Hs | []].
    exists chm, ss1, outS, shv, eev, auth, k1, k3, g, shared, psk. split; [reflexivity |]. split; [exact F |].
    symmetry. exact Hs.
Qed.

(* ---------- step C: agreement from the accepted Finished of the flight --------------------------------------------- *)
Lemma agree_from_fin : forall ms c m c' outC chm ss1 outS shv eev auth k1 k3 g shared psk,
  c = run O cc (client_started O cc) ms ->
  t_state c = CLIENT_EXPECT_FINISHED ->
  framed (client_hello_tr O cc (t_resumed c)) -> framed chm ->
  flight_facts O sc chm ss1 outS shv eev auth k1 k3 g shared psk ->
  client_handle_finished O cc c m = (OOk, c', outC) ->
  m = o_build_fin O (ks_finished O k3 (ks_derive O k1 L_s_hs_traffic)) ->
  agree c' chm ss1 outS.
Proof.
  intros ms c m c' outC chm ss1 outS shv eev auth k1 k3 g shared psk Ec Es Fch Fchm FF Hc Hm.
  pose proof (cinv2_run O cc ms _ (cinv2_started O cc)) as J2. rewrite <- Ec in J2.
  pose proof (cinv3_run O cc ms _ (cinv3_started O cc)) as J3. rewrite <- Ec in J3.
  pose proof (cinv4_run O cc ms _ (cinv4_started O cc)) as J4. rewrite <- Ec in J4.
  assert (Hh : hs_state (t_state c) = true) by (rewrite Es; reflexivity).
  assert (Hps : post_sh (t_state c) = true) by (rewrite Es; reflexivity).
  assert (Hpe : post_ee (t_state c) = true) by (rewrite Es; reflexivity).
  destruct (c2_hs O cc c J2 Hh) as [[h Hk] Hg].
  destruct FF as [F1 F2 [F3a F3b] (F4a & F4b & F4c) F5 F6 [keys0 F7] (F8a & F8b & F8c & F8d) F9 F10].
  set (eS := ks_derive O k1 L_s_hs_traffic) in *.
  destruct (transcript_agreement_client_lemma O Hhash Hmac Hkdf Hfin cc c m c' outC k3 eS Hc Hm) as (T1 & A1 & E1 & T4).
  assert (KA : k_alg k1 = k_alg k3) by (unfold k_alg; rewrite F4b; reflexivity).
  assert (HK3 : hs_key_of O k3 eS).
  { exists (ks_hashval O k1). unfold eS, ks_derive. rewrite KA, F4c. reflexivity. }
  destruct (T4 (ex_intro _ h Hk) HK3 F6) as [(Q1 & Q2 & Q3 & Q4) Hd].
  destruct (c4_dh O cc c J4 Hh) as (sh & v & rest & g' & pk & priv & shared' & T & F & P & Ks & In1 & D & Sx & KD & Z0 & E).
  destruct (E Hpe) as [Et Ie].
  assert (X : chm = client_hello_tr O cc (t_resumed c) /\ sh = o_build_sh O shv).
  { rewrite T1, F5 in T. apply framed_prefix_eq in T; [| exact Fchm | exact Fch]. destruct T as [X1 T].
    apply framed_prefix_eq in T; [| apply Hsh_fr | exact F]. destruct T as [X2 _]. auto. }
  destruct X as [X1 X2].
  destruct (c3_shape O cc c J3 Hps) as (sh2 & v2 & rest2 & T' & Fr2 & P2 & S2 & R2 & _ & Ee).
  destruct (Ee Hpe) as (ee & e & rest' & E1' & E2 & E3 & E4 & E5).
  rewrite T1, F5, E1', <- X1 in T'.
  apply app_inv_head in T'.
  apply framed_prefix_eq in T'; [| apply Hsh_fr | exact Fr2]. destruct T' as [Y1 T'].
  apply framed_prefix_eq in T'; [| apply Hee_fr | exact E2]. destruct T' as [Y2 _].
  subst sh2 ee. rewrite Hsh_rt in P2. inversion P2; subst v2. rewrite Hee_rt in E3. inversion E3; subst e.
  destruct (client_fin_frame O cc c m c' outC Hc) as ((r & Tr') & Su & Re & Al & Ea & Pe).
  destruct (client_finished_keys O cc c m c' outC Hc) as (a & b & Kk). cbv zeta in Kk.
  unfold agree. rewrite Re, Su, Al, Ea.
  split; [exact X1 |].
  split.
  { exists r. rewrite Tr', T1, F5, F1, Hm. cbn [concat]. rewrite concat_app. cbn [concat].
    rewrite app_nil_r, <- !app_assoc. reflexivity. }
  split; [rewrite S2, F3a, F8a; reflexivity |].
  split; [rewrite R2, F3b, F8b; reflexivity |].
  split; [rewrite E4, F8c; reflexivity |].
  split; [rewrite E5, F8d; reflexivity |].
  exists k3, eS, (ks_derive O k1 L_c_hs_traffic), keys0, m. do 4 eexists.
  split; [rewrite Hm; exact F7 |]. rewrite Kk.
  split; [apply in_or_app; left; rewrite <- E1; exact KD |].
  split.
  { apply in_or_app; left.
    assert (Eq : t_enc c = ks_derive O k1 L_c_hs_traffic).
    { rewrite Et. unfold ks_derive, ks_hashval. rewrite F4a, KA, F4c, <- Q1, <- Q4, X1, X2. reflexivity. }
    rewrite <- Eq. exact Ie. }
  split.
  - apply in_or_app; right. left. rewrite Hd. reflexivity.
  - apply in_or_app; right. right. left. rewrite Hd. reflexivity.
Qed.

(* ---------- Finished provenance, derived ------------------------------------------------------------------------------ *)
Lemma fin_provenance : forall y srv ms m c' outC,
  SI y srv -> dy_sound O adv (y_out y) ->
  y_c y = run O cc (client_started O cc) ms -> t_state (y_c y) = CLIENT_EXPECT_FINISHED ->
  framed m -> K (y_out y) m ->
  client_handle_finished O cc (y_c y) m = (OOk, c', outC) ->
  secure (y_out y) c' ->
  exists chm ss1 outS, srv = Some (chm, ss1, outS) /\ agree c' chm ss1 outS.
Proof.
  intros y srv ms m c' outC S DS Ec Es Fm Km Hc Hsec.
  assert (Hnp : t_state (y_c y) <> CLIENT_POST_HANDSHAKE) by (rewrite Es; discriminate).
  assert (Hsrv : match srv with
                 | None => True
                 | Some (chm, ss1, outS) => server_handle_hello O sc (init_server sc) chm = (OOk, ss1, outS)
                 end).
  { pose proof (si_s _ _ S) as X. destruct srv as [[[chm ss1] outS] |]; [tauto | exact Logic.I]. }
  pose proof (cinv2_run O cc ms _ (cinv2_started O cc)) as J2. rewrite <- Ec in J2.
  pose proof (cinv4_run O cc ms _ (cinv4_started O cc)) as J4. rewrite <- Ec in J4.
  assert (Hh : hs_state (t_state (y_c y)) = true) by (rewrite Es; reflexivity).
  destruct (c2_hs O cc _ J2 Hh) as [[h Hk] Hg].
  destruct (c4_dh O cc _ J4 Hh) as (sh & v & rest & g & pk & priv & shared & T & F & P & Ks & In1 & D & Sx & KD & Z0 & E).
  destruct (client_fin_frame O cc _ m c' outC Hc) as ((r & Tr') & Su & Re & Al & Ea & Pe).
  destruct (client_accepts_finished O cc _ m OOk c' outC Hc eq_refl) as (vd & Pf & Vd & G).
  assert (Kvd : K (y_out y) vd) by (eapply kn_parse_fin; eauto).
  (* step A: the handshake secret is unknown *)
  assert (Hs : ~ K (y_out y) (k_secret (the_ks (y_c y))) /\ framed (client_hello_tr O cc (t_resumed (y_c y)))).
  { destruct Hsec as [(R0 & Hleaf & Nk & Np & Ns) | (R1 & Fh & Npsk)].
    - rewrite Re in R0. split; [| rewrite R0; apply hello_tr_framed_false].
      intro Ksec.
      destruct (si_ck _ _ S Es R0) as (alg & sg & k0 & cvm & Ksg & Hv & Hks).
      rewrite Pe in Hleaf. rewrite Hleaf in Hv. apply Hpair in Hv.
      destruct (sig_to_flight y srv alg k0 sg (si_out _ _ S) Hnp Hsrv DS Nk Ksg Hv)
        as (chm & ss1 & outS & shv & eev & auth & k1 & k3 & g0 & shared0 & rest0 & Esrv & FF & Tk).
      subst srv. destruct (si_s _ _ S) as (Fchm & _ & _).
      rewrite Hks in T. cbn [k_tr ks_update] in T. rewrite Tk, R0, <- !app_assoc in T.
      apply framed_prefix_eq in T; [| exact Fchm | apply hello_tr_framed_false]. destruct T as [_ T].
      apply framed_prefix_eq in T; [| apply Hsh_fr | exact F]. destruct T as [X2 _]. subst sh.
      rewrite Hsh_rt in P. inversion P; subst v.
      rewrite (ff_share _ _ _ _ _ _ _ _ _ _ _ _ _ FF) in Ks. inversion Ks; subst g0 pk.
      rewrite Sx in Ksec. apply (ds_ext _ _ _ DS) in Ksec. destruct Ksec as [_ Ksh].
      destruct (ds_dh _ _ _ DS _ _ _ _ D Ksh) as [A | A]; [exact (Np _ _ In1 A) | exact (Ns _ A)].
    - rewrite Re in R1. split; [| rewrite R1; exact Fh].
      intro Ksec. rewrite Sx in Ksec. apply (ds_ext _ _ _ DS) in Ksec. destruct Ksec as [Ksalt _].
      unfold hs_salt in Ksalt. apply (ds_kdf _ _ _ DS) in Ksalt. apply (ds_ext _ _ _ DS) in Ksalt.
      destruct Ksalt as [_ Kp]. rewrite R1 in Kp. apply Npsk. exact Kp. }
  destruct Hs as [Nsec Fch].
  (* step B: the MAC is the server's *)
  rewrite Vd in Kvd.
  destruct (mac_to_flight y srv (the_ks (y_c y)) (t_dec (y_c y)) h (si_out _ _ S) Hnp Hsrv DS Hk Nsec Kvd)
    as (chm & ss1 & outS & shv & eev & auth & k1 & k3 & g0 & shared0 & psk & Esrv & FF & Ev).
  exists chm, ss1, outS. split; [exact Esrv |].
  subst srv. destruct (si_s _ _ S) as (Fchm & _ & _).
  assert (Em : m = o_build_fin O (ks_finished O k3 (ks_derive O k1 L_s_hs_traffic))).
  { rewrite <- Ev, <- Vd. apply (i_fin_canon O I2); assumption. }
  eapply (agree_from_fin ms (y_c y) m c' outC); eauto.
Qed.

End P4.
