(* C14: events of a request / push stream do not depend on how its bytes are cut into deliveries. *)
From AQ Require Import lib.Base lib.Tok model.H3Parse.
From Coq Require Import ZifyBool.

(* ------------------------------------------------------------------ normal form of an event list *)
Inductive atom :=
| AHeaders (sid : Z) (push : option Z) (hid : Z)
| APush (sid pid hid : Z)
| AByte (sid : Z) (push : option Z) (b : Z)
| AWByte (sid session b : Z)
| AEnd (sid : Z)
| ADgram (sid : Z) (d : list Z).

Definition atoms_of (e : event) : list atom :=
  match e with
  | EData sid p d f => map (AByte sid p) d ++ (if f then [AEnd sid] else [])
  | EHeaders sid p h f => AHeaders sid p h :: (if f then [AEnd sid] else [])
  | EPush sid pid h => [APush sid pid h]
  | EWT sid s d f => map (AWByte sid s) d ++ (if f then [AEnd sid] else [])
  | EDatagram sid d => [ADgram sid d]
  end.

(* adjacent data events merge, empty ones vanish, the end of stream is a marker of its own *)
Definition norm (l : list event) : list atom := flat_map atoms_of l.

Lemma norm_app : forall a b, norm (a ++ b) = norm a ++ norm b.
Proof. intros; unfold norm; apply flat_map_app. Qed.

(* ------------------------------------------------------------------ feeding a stream chunk by chunk *)
Definition prepend (e : list event) (r : rres) : rres :=
  match r with RVal e2 st => RVal (e ++ e2) st | r => r end.

Definition rbind (r : rres) (f : hstream -> rres) : rres :=
  match r with RVal e st => prepend e (f st) | r => r end.

Fixpoint feed (fx : fixes) (O : oracle) (cl : bool) (st : hstream) (chunks : list (list Z * bool)) : rres :=
  match chunks with
  | [] => RVal [] st
  | (d, f) :: rest => rbind (rq_recv fx O cl st d f) (fun st' => feed fx O cl st' rest)
  end.

(* FIN rides on the last chunk *)
Fixpoint mk_chunks (first : list Z) (parts : list (list Z)) (fin : bool) : list (list Z * bool) :=
  match parts with
  | [] => [(first, fin)]
  | p :: ps => (first, false) :: mk_chunks p ps fin
  end.

Definition requiv (r1 r2 : rres) : Prop :=
  match r1, r2 with
  | RVal e1 s1, RVal e2 s2 => norm e1 = norm e2 /\ s1 = s2
  | RErr a, RErr b => a = b
  | RExn a, RExn b => a = b
  | _, _ => False
  end.

Lemma requiv_refl : forall r, requiv r r.
Proof. destruct r; cbn; auto. Qed.
Lemma requiv_sym : forall a b, requiv a b -> requiv b a.
Proof. destruct a, b; cbn; intuition congruence. Qed.
Lemma requiv_trans : forall a b c, requiv a b -> requiv b c -> requiv a c.
Proof. destruct a, b, c; cbn; intuition congruence. Qed.

Lemma requiv_prepend : forall e1 e2 r1 r2, norm e1 = norm e2 -> requiv r1 r2 -> requiv (prepend e1 r1) (prepend e2 r2).
Proof. intros e1 e2 [] []; cbn; try tauto. intros Hn [H1 H2]. rewrite !norm_app. split; congruence. Qed.

Lemma requiv_rbind : forall r1 r2 f g, requiv r1 r2 -> (forall st, requiv (f st) (g st)) -> requiv (rbind r1 f) (rbind r2 g).
Proof.
  intros [] [] f g; cbn; try tauto. intros [Hn ->] Hfg. apply requiv_prepend; auto.
Qed.

Lemma prepend_nil : forall r, prepend [] r = r.
Proof. destruct r; reflexivity. Qed.
Lemma prepend_prepend : forall a b r, prepend a (prepend b r) = prepend (a ++ b) r.
Proof. destruct r; cbn; try reflexivity. rewrite app_assoc; reflexivity. Qed.
Lemma rbind_assoc : forall r f g, rbind (rbind r f) g = rbind r (fun st => rbind (f st) g).
Proof.
  destruct r; cbn; try reflexivity. intros f g. destruct (f st); cbn; try reflexivity.
  rewrite prepend_prepend. reflexivity.
Qed.

(* ------------------------------------------------------------------ refutation on the pinned code *)
Definition oracle1 : oracle :=
  mkO (fun _ _ => DHeaders 1) (fun _ => DFailed) (fun _ _ => (true, None)) (fun _ => EUnblocked []) (fun _ => true).

Definition hdrs : list Z := [1; 1; 0].    (* HEADERS frame, one byte of header block (the oracle decodes it) *)

(* F9: DATA frame of declared length 5 cut short by the FIN after 2 bytes *)
Definition w_data_whole := rq_recv unfixed oracle1 true (new_stream 0) (hdrs ++ [0; 5; 97; 98]) true.
Definition w_data_split := feed unfixed oracle1 true (new_stream 0) (mk_chunks (hdrs ++ [0; 5; 97]) [[98]] true).
(* stream ending right behind the header of a HEADERS frame *)
Definition w_hdr_whole := rq_recv unfixed oracle1 true (new_stream 0) (hdrs ++ [1; 5]) true.
Definition w_hdr_split := feed unfixed oracle1 true (new_stream 0) (mk_chunks (hdrs ++ [1; 5]) [[]] true).
(* last frame of an ignored type, FIN in the same delivery *)
Definition w_grease_whole := rq_recv unfixed oracle1 true (new_stream 0) (hdrs ++ [33; 0]) true.
Definition w_grease_split := feed unfixed oracle1 true (new_stream 0) (mk_chunks (hdrs ++ [33; 0]) [[]] true).

Definition events_of (r : rres) : option (list atom) :=
  match r with RVal e _ => Some (norm e) | _ => None end.

Lemma chunking_refuted :
  events_of w_data_whole = Some [AHeaders 0 None 1; AByte 0 None 97; AByte 0 None 98; AEnd 0] /\
  events_of w_data_split = Some [AHeaders 0 None 1; AByte 0 None 97; AByte 0 None 98] /\
  events_of w_hdr_whole = Some [AHeaders 0 None 1] /\
  events_of w_hdr_split = Some [AHeaders 0 None 1; AEnd 0] /\
  events_of w_grease_whole = Some [AHeaders 0 None 1] /\
  events_of w_grease_split = Some [AHeaders 0 None 1; AEnd 0].
Proof. repeat split; vm_compute; reflexivity. Qed.

(* the same inputs on the model of the patched code: every delivery gives the same outcome *)
Lemma chunking_witnesses_fixed :
  rq_recv all_fixed oracle1 true (new_stream 0) (hdrs ++ [0; 5; 97; 98]) true = RErr H3_FRAME_ERROR /\
  feed all_fixed oracle1 true (new_stream 0) (mk_chunks (hdrs ++ [0; 5; 97]) [[98]] true) = RErr H3_FRAME_ERROR /\
  rq_recv all_fixed oracle1 true (new_stream 0) (hdrs ++ [1; 5]) true = RErr H3_FRAME_ERROR /\
  feed all_fixed oracle1 true (new_stream 0) (mk_chunks (hdrs ++ [1; 5]) [[]] true) = RErr H3_FRAME_ERROR /\
  events_of (rq_recv all_fixed oracle1 true (new_stream 0) (hdrs ++ [33; 0]) true) = Some [AHeaders 0 None 1; AEnd 0] /\
  events_of (feed all_fixed oracle1 true (new_stream 0) (mk_chunks (hdrs ++ [33; 0]) [[]] true)) = Some [AHeaders 0 None 1; AEnd 0].
Proof. repeat split; vm_compute; reflexivity. Qed.

(* blocked PUSH_PROMISE: encoder stream (id 7) before / after the request stream that needs it *)
Definition o_blocked : oracle :=      (* before the encoder stream data arrived: the block has to wait *)
  mkO (fun _ _ => DBlocked) (fun _ => DFailed) (fun _ _ => (false, None)) (fun _ => EUnblocked []) (fun _ => true).
Definition o_ready : oracle :=        (* with the encoder stream data: decodes to header list 7; valid as a push promise only *)
  mkO (fun _ _ => DHeaders 7) (fun _ => DHeaders 7) (fun k _ => (k =? 3, None)) (fun _ => EUnblocked [0]) (fun _ => true).
Definition o_inorder : oracle :=      (* encoder stream first: nothing was waiting, the block decodes at once *)
  mkO (fun _ _ => DHeaders 7) (fun _ => DFailed) (fun k _ => (k =? 3, None)) (fun _ => EUnblocked []) (fun _ => true).
Definition pp_frame : list Z := [5; 2; 9; 0].     (* PUSH_PROMISE, push id 9, one byte of header block *)

Lemma push_promise_blocked_refuted :
  run unfixed (conn_init true true) [(QStream 7 [2; 1] false, o_inorder); (QStream 0 pp_frame false, o_inorder)]
    = [Events []; Events [EPush 0 9 7]] /\
  run unfixed (conn_init true true) [(QStream 0 pp_frame false, o_blocked); (QStream 7 [2; 1] false, o_ready)]
    = [Events []; Closed H3_MESSAGE_ERROR] /\
  run all_fixed (conn_init true true) [(QStream 0 pp_frame false, o_blocked); (QStream 7 [2; 1] false, o_ready)]
    = [Events []; Events [EPush 0 9 7]].
Proof. repeat split; vm_compute; reflexivity. Qed.
