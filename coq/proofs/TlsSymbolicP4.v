(* C03: run-level closure of transcript_agreement on both sides.
   - server: what _server_handle_hello emits and keeps when it succeeds (server_hello_spec): its Finished is
     ks_finished over a schedule kF of generation 2 whose handshake secret has the key-schedule form, and the keys it
     releases / stores are the derivations at ks_extract (ks_update kF fin) None;
   - client: for every message sequence, in the states between ServerHello and Finished the client's _dec_key has
     the key-schedule form and generation = 2 (cinv2);
   - together: a client run that accepts the Finished an honest server step emitted ends with a schedule equivalent
     to the server's, so both release the same four traffic secrets. *)
From AQ Require Import lib.Base gen.TlsDispatch model.TlsSymbolic proofs.TlsDispatchLegal.
From AQ Require Import proofs.TlsSymbolicP1 proofs.TlsSymbolicP2.

Section P4.
Variable O : oracles.

Ltac fields := cbn [t_state t_ks t_kpsk t_kproxy t_resumed t_alpn t_early t_creq t_peer t_enc t_dec t_next_dec t_expected
                    t_recv_ext t_ext t_kex_mode t_keys set_state set_ks add_key log_key the_ks] in *.

(* ---------- server ----------------------------------------------------------------------------------------- *)
Definition server_after (s' : tst) (keys0 : list keyev) (kF : ksched) (eS cS finm : bytes) : Prop :=
  let k5 := ks_extract O (ks_update kF finm) None in
  (exists a b d, t_keys s' = keys0 ++ [(DIR_ENCRYPT, EP_HANDSHAKE, a, eS); (DIR_DECRYPT, EP_HANDSHAKE, b, cS);
                                      (DIR_ENCRYPT, EP_ONE_RTT, d, ks_derive O k5 L_s_ap_traffic)]) /\
  t_next_dec s' = ks_derive O k5 L_c_ap_traffic /\ t_dec s' = cS.

Lemma server_flight_spec : forall c s5 sid suite comp sigalg version kex psk g pubk shared s' out,
  server_flight O c s5 sid suite comp sigalg version kex psk g pubk shared = (OOk, s', out) ->
  exists kF eS cS finm,
    In (EP_HANDSHAKE, finm) out /\ finm = o_build_fin O (ks_finished O kF eS) /\
    hs_key_of O kF eS /\ k_gen kF = 2 /\ server_after s' (t_keys s5) kF eS cS finm.
Proof.
  intros c s5 sid suite comp sigalg version kex psk g pubk shared s' out H.
  unfold server_flight in H. cbv zeta in H.
  match type of H with (let '(k3, authmsgs) := ?X in _) = _ => destruct X as [k3 authmsgs] eqn:E3 end.
  match type of H with (if negb (k_gen ?k4 =? 2) then _ else _) = _ => destruct (k_gen k4 =? 2) eqn:G end;
    cbn [negb] in H; [| destruct (f_reqcert c); discriminate].
  apply Z.eqb_eq in G.
  set (k1 := ks_extract O (ks_update (the_ks s5) (o_build_sh O (mkSH (f_random c) sid suite comp (Some (g, pubk))
                                                                 (if psk then Some 0 else None) (Some version))))
                        (Some shared)) in *.
  assert (K3 : k_alg k3 = k_alg k1 /\ k_secret k3 = k_secret k1).
  { destruct psk.
    - inversion E3. split; reflexivity.
    - destruct (f_reqcert c); inversion E3; split; reflexivity. }
  destruct K3 as [KA KS].
  exists k3, (ks_derive O k1 L_s_hs_traffic), (ks_derive O k1 L_c_hs_traffic).
  eexists.
  assert (HK : hs_key_of O k3 (ks_derive O k1 L_s_hs_traffic)).
  { exists (ks_hashval O k1). unfold ks_derive. rewrite KA, KS. reflexivity. }
  destruct (f_reqcert c); inversion H; subst s' out; clear H.
  - split; [cbn [app map]; right; right; apply in_map; apply in_or_app; right; left; reflexivity |].
    split; [fields; reflexivity |]. split; [exact HK |]. split; [exact G |].
    unfold server_after. fields. split; [| split; reflexivity].
    eexists; eexists; eexists. rewrite <- !app_assoc. reflexivity.
  - split; [cbn [app map]; right; right; apply in_map; apply in_or_app; right; left; reflexivity |].
    split; [fields; reflexivity |]. split; [exact HK |]. split; [exact G |].
    unfold server_after, server_expect_finished. fields. split; [| split; reflexivity].
    eexists; eexists; eexists. rewrite <- !app_assoc. reflexivity.
Qed.

Lemma take_slice_all : forall (m : bytes) off k, 0 <= off -> off + k = Zlen m -> ztake off m ++ slice m off k = m.
Proof.
  intros m off k H0 H1. unfold slice, ztake, zdrop.
  rewrite (firstn_all2 (skipn (Z.to_nat off) m)).
  - apply firstn_skipn.
  - rewrite skipn_length. unfold Zlen in H1. lia.
Qed.

(* the PSK branch of _server_handle_hello: when it accepts, the state is otherwise untouched, the schedule is the
   negotiated suite's, resumed, and its transcript is the WHOLE hello (the two binder-split pieces re-assemble) *)
Lemma server_select_psk_spec : forall c s2 v m suite kex x,
  server_select_psk O c s2 v m suite kex = POk (Some x) ->
  t_state x = t_state s2 /\ k_tr (the_ks x) = m /\ k_suite (the_ks x) = suite /\ t_resumed x = true.
Proof.
  intros c s2 v m suite kex x H. unfold server_select_psk in H.
  repeat match type of H with
  | context [match ?y with _ => _ end] => destruct y eqn:?
  end; try discriminate; inversion H; subst x; clear H;
  repeat match goal with |- context [dsize ?z] => let b := fresh "bl" in set (b := dsize z) in * end;
  cbv beta iota zeta delta [the_ks log_key set_ks t_ks t_state t_resumed k_tr k_suite ks_update ks_extract ks_new].
  all: split; [reflexivity |]; split; [| split; reflexivity].
  all: rewrite ?app_nil_l, <- ?app_assoc.
  all: match goal with E : (?off <? 0) = false |- _ => apply Z.ltb_ge in E; apply take_slice_all; [exact E |] end.
  all: match goal with b := dsize _ |- ?o + ?k = _ => change k with (3 + b); subst b; lia end.
Qed.

Lemma server_hello_spec : forall c s m s' out,
  server_handle_hello O c s m = (OOk, s', out) ->
  exists kF eS cS finm keys0,
    In (EP_HANDSHAKE, finm) out /\ finm = o_build_fin O (ks_finished O kF eS) /\
    hs_key_of O kF eS /\ k_gen kF = 2 /\ server_after s' keys0 kF eS cS finm.
Proof.
  intros c s m s' out H. unfold server_handle_hello in H.
  apply with_parse_inv in H. destruct H as [(v & _ & H) | [_ X]]; [| congruence].
  destruct (negotiate memz (f_suites c) (ch_suites v)) as [suite |]; [| discriminate].
  destruct (negotiate memz (f_comp c) (ch_comp v)) as [comp |]; [| discriminate].
  destruct (negotiate_opt memz (f_key_sigalgs c) (ch_sigalgs v)) as [sigalg |]; [| discriminate].
  destruct (negotiate_opt memz (f_versions c) (ch_versions v)) as [version |]; [| discriminate].
  apply with_parse_inv in H. destruct H as [(alpn & _ & H) | [_ X]]; [| congruence].
  cbv zeta in H.
  destruct (f_alpn_cb c alpn (ch_other v)) as [code newext].
  destruct (negb (code =? 0)); [discriminate |].
  apply with_parse_inv in H. destruct H as [(pskst & _ & H) | [_ X]]; [| congruence].
  apply with_parse_inv in H. destruct H as [(kx & _ & H) | [_ X]]; [| congruence].
  destruct kx as [[[g pubk] shared] |]; [| discriminate].
  apply server_flight_spec in H. destruct H as (kF & eS & cS & finm & A & B & C & D & E).
  exists kF, eS, cS, finm. eexists. split; [exact A |]. split; [exact B |]. split; [exact C |]. split; [exact D | exact E].
Qed.

(* ---------- client: key-schedule form of _dec_key as a run invariant ---------------------------------------- *)
Definition hs_state (x : State) : bool :=
  match x with
  | CLIENT_EXPECT_ENCRYPTED_EXTENSIONS | CLIENT_EXPECT_CERTIFICATE_REQUEST_OR_CERTIFICATE | CLIENT_EXPECT_CERTIFICATE
  | CLIENT_EXPECT_CERTIFICATE_VERIFY | CLIENT_EXPECT_FINISHED => true
  | _ => false
  end.

Record cinv2 (c : cfg) (s : tst) : Prop := mkCinv2 {
  c2_client : client_state (t_state s) = true /\ t_state s <> CLIENT_HANDSHAKE_START;
  c2_proxy : forall px suite k, t_kproxy s = Some px -> proxy_select px suite = Some k -> k_gen k = 1;
  c2_kpsk : forall kp, t_kpsk s = Some kp -> k_gen kp = 1;
  c2_hs : hs_state (t_state s) = true -> hs_key_of O (the_ks s) (t_dec s) /\ k_gen (the_ks s) = 2
}.

Lemma cinv2_started : forall c, cinv2 c (client_started O c).
Proof.
  intro c. unfold client_started, client_send_hello. cbn [fst snd].
  assert (Hbase : forall s0 : tst,
            t_state s0 = CLIENT_EXPECT_SERVER_HELLO ->
            t_kpsk s0 = match use_ticket c with Some t => Some (fst (client_psk_schedule O c t)) | None => None end ->
            t_kproxy s0 = Some (proxy_map (fun k => ks_update (ks_extract O k None) (client_hello_msg O c)) (proxy_new (f_suites c) [])) ->
            cinv2 c s0).
  { intros s0 Hs Hp Hx. constructor; rewrite ?Hs.
    - split; [reflexivity | discriminate].
    - intros px suite k Hpx Hsel. rewrite Hx in Hpx. inversion Hpx; subst px.
      apply proxy_select_new in Hsel. subst k. reflexivity.
    - intros kp Hkp. rewrite Hp in Hkp. destruct (use_ticket c) eqn:E; [| discriminate].
      inversion Hkp. reflexivity.
    - discriminate. }
  destruct (use_ticket c) as [t |] eqn:E.
  - destruct (tk_early t); apply Hbase; reflexivity.
  - apply Hbase; reflexivity.
Qed.

Lemma cinv2_extend : forall c s s' d x,
  cinv2 c s -> hs_state (t_state s) = true ->
  t_ks s' = Some (ks_update (the_ks s) d) -> t_kpsk s' = t_kpsk s -> t_kproxy s' = t_kproxy s ->
  t_dec s' = t_dec s -> t_state s' = x -> client_state x = true -> x <> CLIENT_HANDSHAKE_START -> hs_state x = true ->
  cinv2 c s'.
Proof.
  intros c s s' d x I Hh Hks Hkp Hpx Hd Hx Hc Hn Hhx.
  assert (Hthe : the_ks s' = ks_update (the_ks s) d) by (unfold the_ks at 1; rewrite Hks; reflexivity).
  destruct (c2_hs c s I Hh) as [[h Hk] Hg].
  constructor; rewrite ?Hx, ?Hkp, ?Hpx, ?Hd, ?Hthe.
  - split; assumption.
  - apply (c2_proxy c s I).
  - apply (c2_kpsk c s I).
  - intros _. split; [exists h; exact Hk | exact Hg].
Qed.

Lemma cinv2_same : forall c s s',
  cinv2 c s -> t_state s' = t_state s -> t_ks s' = t_ks s -> t_kpsk s' = t_kpsk s -> t_kproxy s' = t_kproxy s ->
  t_dec s' = t_dec s -> cinv2 c s'.
Proof.
  intros c s s' I A B D E F. assert (G : the_ks s' = the_ks s) by (unfold the_ks; rewrite B; reflexivity).
  constructor; rewrite ?A, ?D, ?E, ?F, ?G; apply I.
Qed.

Lemma cinv2_step : forall c s m o s' out,
  cinv2 c s -> step O c s m = (o, s', out) -> cinv2 c s'.
Proof.
  intros c s m o s' out I H.
  destruct (c2_client c s I) as [Hc Hn].
  unfold step in H.
  destruct (t_state s) eqn:Es; try discriminate Hc; try congruence;
    (destruct (negb (framedb m)); [inversion H; subst; exact I |]);
    rewrite dispatch_all in H; cbn [legal_next] in H;
    repeat match type of H with
    | context [if ?b then _ else _] => destruct b
    end;
    cbn [run_handler] in H; try (inversion H; subst; exact I).
  - (* ServerHello *)
    unfold client_handle_hello in H.
    apply with_parse_inv in H. destruct H as [(v & _ & H) | [-> _]]; [| exact I].
    destruct (negotiate memz (f_suites c) [sh_suite v]) as [suite |]; [| inversion H; subst; exact I].
    destruct (negb (memz (sh_comp v) (f_comp c))); [inversion H; subst; exact I |].
    destruct (negb match sh_version v with Some x => memz x (f_versions c) | None => false end);
      [inversion H; subst; exact I |].
    apply with_parse_inv in H. destruct H as [([ks psk] & Hsel & H) | [-> _]]; [| exact I].
    assert (Hg : k_gen ks = 1).
    { destruct (sh_psk v).
      - destruct (t_kpsk s) as [kp |] eqn:Ekp; [| discriminate].
        destruct ((z =? 0) && (suite =? k_suite kp)); [| discriminate].
        inversion Hsel; subst. eapply c2_kpsk; eauto.
      - destruct (t_kproxy s) as [px |] eqn:Epx; [| discriminate].
        destruct (proxy_select px suite) eqn:Esel; [| discriminate].
        inversion Hsel; subst. eapply c2_proxy; eauto. }
    assert (I1 : forall s1, t_state s1 = CLIENT_EXPECT_SERVER_HELLO -> t_kpsk s1 = None -> t_kproxy s1 = None -> cinv2 c s1).
    { intros s1 A B D. constructor; rewrite ?A, ?B, ?D; try discriminate. split; [reflexivity | discriminate]. }
    destruct (sh_key_share v) as [[g pk] |]; [| inversion H; subst; apply I1; fields; auto].
    destruct (o_decode O g pk =? 2); [inversion H; subst; apply I1; fields; auto |].
    destruct (if o_decode O g pk =? 1 then find_priv g (f_privs c) None else None) as [priv |];
      [| inversion H; subst; apply I1; fields; auto].
    destruct (o_dh O g priv pk) as [shared |]; [| inversion H; subst; apply I1; fields; auto].
    inversion H; subst o s' out; clear H.
    constructor; fields; try discriminate.
    + split; [reflexivity | discriminate].
    + intros _. split.
      * eexists. unfold ks_derive. reflexivity.
      * simpl. rewrite Hg. reflexivity.
  - (* EncryptedExtensions *)
    unfold client_handle_encrypted_extensions in H.
    apply with_parse_inv in H. destruct H as [(v & _ & H) | [-> _]]; [| exact I].
    destruct (f_alpn_cb c (ee_alpn v) (ee_other v)) as [code newext].
    destruct (negb (code =? 0)); [inversion H; subst; eapply cinv2_same; [exact I | | | | |]; fields; auto |].
    inversion H; subst o s' out; clear H.
    destruct (t_resumed s).
    + eapply (cinv2_extend c s _ m CLIENT_EXPECT_FINISHED I); fields; rewrite ?Es; try reflexivity; try discriminate.
    + eapply (cinv2_extend c s _ m CLIENT_EXPECT_CERTIFICATE_REQUEST_OR_CERTIFICATE I); fields; rewrite ?Es;
        try reflexivity; try discriminate.
  - (* Certificate *)
    unfold client_handle_certificate in H.
    apply with_parse_inv in H. destruct H as [(v & _ & H) | [-> _]]; [| exact I].
    assert (I1 : cinv2 c (set_ks s (ks_update (the_ks s) m))).
    { eapply (cinv2_extend c s _ m (t_state s) I); fields; rewrite ?Es; try reflexivity; try discriminate. }
    apply with_parse_inv in H. destruct H as [(s2 & Hset & H) | [-> _]]; [| exact I1].
    inversion H; subst o s' out; clear H.
    unfold set_peer in Hset. destruct (ct_certs v); [discriminate |].
    destruct (forallb _ _); [| discriminate]. inversion Hset; subst s2; clear Hset.
    eapply (cinv2_extend c s _ m CLIENT_EXPECT_CERTIFICATE_VERIFY I); fields; rewrite ?Es; try reflexivity; try discriminate.
  - (* CertificateRequest *)
    unfold client_handle_certificate_request in H.
    apply with_parse_inv in H. destruct H as [(v & _ & H) | [-> _]]; [| exact I].
    inversion H; subst o s' out; clear H.
    eapply (cinv2_extend c s _ m CLIENT_EXPECT_CERTIFICATE I); fields; rewrite ?Es; try reflexivity; try discriminate.
  - (* Certificate (after a request) *)
    unfold client_handle_certificate in H.
    apply with_parse_inv in H. destruct H as [(v & _ & H) | [-> _]]; [| exact I].
    assert (I1 : cinv2 c (set_ks s (ks_update (the_ks s) m))).
    { eapply (cinv2_extend c s _ m (t_state s) I); fields; rewrite ?Es; try reflexivity; try discriminate. }
    apply with_parse_inv in H. destruct H as [(s2 & Hset & H) | [-> _]]; [| exact I1].
    inversion H; subst o s' out; clear H.
    unfold set_peer in Hset. destruct (ct_certs v); [discriminate |].
    destruct (forallb _ _); [| discriminate]. inversion Hset; subst s2; clear Hset.
    eapply (cinv2_extend c s _ m CLIENT_EXPECT_CERTIFICATE_VERIFY I); fields; rewrite ?Es; try reflexivity; try discriminate.
  - (* CertificateVerify *)
    unfold client_handle_certificate_verify in H.
    apply with_parse_inv in H. destruct H as [(v & _ & H) | [-> _]]; [| exact I].
    destruct (check_cv O c s v SERVER_CONTEXT_STRING); [inversion H; subst; exact I |].
    destruct (negb ((if f_verify c then o_cert_ok O (verify_name c) (t_peer s) else 0) =? 0));
      [inversion H; subst; exact I |].
    inversion H; subst o s' out; clear H.
    eapply (cinv2_extend c s _ m CLIENT_EXPECT_FINISHED I); fields; rewrite ?Es; try reflexivity; try discriminate.
  - (* Finished *)
    unfold client_handle_finished in H.
    apply with_parse_inv in H. destruct H as [(vd & _ & H) | [-> _]]; [| exact I]. cbv zeta in H.
    destruct (negb (beqb vd (ks_finished O (the_ks s) (t_dec s)))); [inversion H; subst; exact I |].
    assert (I1 : cinv2 c (set_ks s (ks_update (the_ks s) m))).
    { eapply (cinv2_extend c s _ m (t_state s) I); fields; rewrite ?Es; try reflexivity; try discriminate. }
    destruct (negb (k_gen (ks_update (the_ks s) m) =? 2)); [inversion H; subst; exact I1 |].
    match type of H with (let '(k3, msgs) := ?X in _) = _ => destruct X as [k3 msgs] end.
    inversion H; subst o s' out; clear H.
    constructor; fields; try discriminate.
    + split; [reflexivity | discriminate].
    + apply (c2_proxy c s I).
    + apply (c2_kpsk c s I).
  - (* NewSessionTicket *)
    unfold client_handle_new_session_ticket in H.
    apply with_parse_inv in H. destruct H as [(v & _ & H) | [-> _]]; [| exact I].
    inversion H; subst; exact I.
Qed.

Lemma cinv2_run : forall c ms s, cinv2 c s -> cinv2 c (run O c s ms).
Proof.
  intros c ms. induction ms as [| m r IH]; intros s I; simpl; [exact I |].
  destruct (step O c s m) as [[o s1] out] eqn:E. apply IH. eapply cinv2_step; eauto.
Qed.

(* the assert `generation == 2` of _client_handle_finished can never fire, and _dec_key always has the
   key-schedule form when the server Finished is awaited *)
Lemma client_awaiting_finished : forall c ms,
  let s := run O c (client_started O c) ms in
  t_state s = CLIENT_EXPECT_FINISHED -> hs_key_of O (the_ks s) (t_dec s) /\ k_gen (the_ks s) = 2.
Proof.
  intros c ms s Hs. pose proof (cinv2_run c ms _ (cinv2_started c)) as I. fold s in I.
  apply (c2_hs c s I). rewrite Hs. reflexivity.
Qed.

End P4.

Section P4b.
Variable O : oracles.
Hypothesis Hhash : forall a x y, o_hash O a x = o_hash O a y -> x = y.
Hypothesis Hmac : forall a k m a' k' m', o_hmac O a k m = o_hmac O a' k' m' -> a = a' /\ k = k' /\ m = m'.
Hypothesis Hkdf : forall a s l h a' s' l' h',
  o_expand O a s l h = o_expand O a' s' l' h' -> a = a' /\ s = s' /\ l = l' /\ h = h'.
Hypothesis Hfin : forall vd, o_parse_fin O (o_build_fin O vd) = POk vd.

(* An honest server processed SOME ClientHello successfully and emitted its flight.  ANY client (any configuration,
   any message sequence before) that is awaiting the server Finished and accepts the Finished of that flight has the
   server's transcript, hash algorithm and handshake secret, and releases exactly the application traffic secrets the
   server released (server -> client) / stored for the client's Finished (client -> server). *)
Lemma transcript_agreement_run_lemma : forall sc ss chm ss' outS,
  server_handle_hello O sc ss chm = (OOk, ss', outS) ->
  exists finm kF eS cS keys0,
    In (EP_HANDSHAKE, finm) outS /\ server_after O ss' keys0 kF eS cS finm /\
    forall cc ms cs' outC,
      let cs := run O cc (client_started O cc) ms in
      t_state cs = CLIENT_EXPECT_FINISHED ->
      client_handle_finished O cc cs finm = (OOk, cs', outC) ->
      k_tr (the_ks cs) = k_tr kF /\ k_alg (the_ks cs) = k_alg kF /\ t_dec cs = eS /\
      exists a b,
        t_keys cs' = t_keys cs ++
          [(DIR_DECRYPT, EP_ONE_RTT, a, ks_derive O (ks_extract O (ks_update kF finm) None) L_s_ap_traffic);
           (DIR_ENCRYPT, EP_ONE_RTT, b, ks_derive O (ks_extract O (ks_update kF finm) None) L_c_ap_traffic)].
Proof.
  intros sc ss chm ss' outS H.
  destruct (server_hello_spec O sc ss chm ss' outS H) as (kF & eS & cS & finm & keys0 & A & B & C & D & E).
  exists finm, kF, eS, cS, keys0. split; [exact A |]. split; [exact E |].
  intros cc ms cs' outC cs Hs Hc.
  destruct (client_awaiting_finished O cc ms Hs) as [Hk Hg]. fold cs in Hk, Hg.
  destruct (transcript_agreement_client_lemma O Hhash Hmac Hkdf Hfin cc cs finm cs' outC kF eS Hc B)
    as (T1 & T2 & T3 & T4).
  split; [exact T1 |]. split; [exact T2 |]. split; [exact T3 |].
  destruct (T4 Hk C D) as [_ Hd].
  destruct (client_finished_keys O cc cs finm cs' outC Hc) as (a & b & K).
  exists a, b. rewrite K. rewrite !Hd. reflexivity.
Qed.

End P4b.

(* ---------- server, run level: in SERVER_EXPECT_FINISHED the state is the result of _server_expect_finished -------- *)
Section P4c.
Variable O : oracles.

Ltac fields := cbn [t_state t_ks t_kpsk t_kproxy t_resumed t_alpn t_early t_creq t_peer t_enc t_dec t_next_dec t_expected
                    t_recv_ext t_ext t_kex_mode t_keys set_state set_ks add_key log_key the_ks] in *.

Definition server_state (x : State) : bool :=
  match x with
  | SERVER_EXPECT_CLIENT_HELLO | SERVER_EXPECT_CERTIFICATE | SERVER_EXPECT_CERTIFICATE_VERIFY | SERVER_EXPECT_FINISHED
  | SERVER_POST_HANDSHAKE => true
  | _ => false
  end.

Definition sinv (s : tst) : Prop :=
  server_state (t_state s) = true /\
  (t_state s = SERVER_EXPECT_FINISHED -> exists s0, s = server_expect_finished O s0).

Lemma sef_state : forall s0, t_state (server_expect_finished O s0) = SERVER_EXPECT_FINISHED.
Proof. reflexivity. Qed.

Lemma server_flight_states : forall c s5 sid suite comp sigalg version kex psk g pubk shared o s' out,
  server_flight O c s5 sid suite comp sigalg version kex psk g pubk shared = (o, s', out) ->
  t_state s' = t_state s5 \/ t_state s' = SERVER_EXPECT_CERTIFICATE \/ exists s0, s' = server_expect_finished O s0.
Proof.
  intros c s5 sid suite comp sigalg version kex psk g pubk shared o s' out H.
  unfold server_flight in H. cbv zeta in H.
  match type of H with (let '(k3, authmsgs) := ?X in _) = _ => destruct X as [k3 authmsgs] end.
  match type of H with (if negb ?b then _ else _) = _ => destruct b end; cbn [negb] in H.
  - destruct (f_reqcert c); inversion H; subst.
    + right; left. reflexivity.
    + right; right. eexists. reflexivity.
  - inversion H; subst. left. reflexivity.
Qed.

Lemma server_hello_states : forall c s m o s' out,
  server_handle_hello O c s m = (o, s', out) ->
  t_state s' = t_state s \/ t_state s' = SERVER_EXPECT_CERTIFICATE \/ exists s0, s' = server_expect_finished O s0.
Proof.
  intros c s m o s' out H. unfold server_handle_hello in H.
  apply with_parse_inv in H. destruct H as [(v & _ & H) | [-> _]]; [| left; reflexivity].
  destruct (negotiate memz (f_suites c) (ch_suites v)) as [suite |]; [| inversion H; left; reflexivity].
  destruct (negotiate memz (f_comp c) (ch_comp v)) as [comp |]; [| inversion H; left; reflexivity].
  destruct (negotiate_opt memz (f_key_sigalgs c) (ch_sigalgs v)) as [sigalg |]; [| inversion H; left; reflexivity].
  destruct (negotiate_opt memz (f_versions c) (ch_versions v)) as [version |]; [| inversion H; left; reflexivity].
  apply with_parse_inv in H. destruct H as [(alpn & _ & H) | [-> _]]; [| left; reflexivity].
  cbv zeta in H.
  destruct (f_alpn_cb c alpn (ch_other v)) as [code newext].
  destruct (negb (code =? 0)); [inversion H; left; reflexivity |].
  apply with_parse_inv in H. destruct H as [(pskst & Hpsk & H) | [-> _]]; [| left; reflexivity].
  assert (S5 : forall x, pskst = Some x -> t_state x = t_state s).
  { intros x Hx. subst pskst. apply server_select_psk_spec in Hpsk. destruct Hpsk as [A _]. exact A. }
  apply with_parse_inv in H. destruct H as [(kx & _ & H) | [-> _]].
  - destruct kx as [[[g pubk] shared] |].
    + apply server_flight_states in H. destruct H as [H | H]; [left | right; exact H].
      rewrite H. destruct pskst; [apply S5; reflexivity | reflexivity].
    + inversion H; subst. left. destruct pskst; [apply S5; reflexivity | reflexivity].
  - left. destruct pskst; [apply S5; reflexivity | reflexivity].
Qed.

Lemma sinv_step : forall c s m o s' out, sinv s -> step O c s m = (o, s', out) -> sinv s'.
Proof.
  intros c s m o s' out I H. destruct I as [Hs Hf]. assert (I : sinv s) by (split; assumption).
  clear Hf. unfold step in H.
  destruct (t_state s) eqn:Es; try discriminate Hs;
    (destruct (negb (framedb m)); [inversion H; subst; exact I |]);
    rewrite dispatch_all in H; cbn [legal_next] in H;
    repeat match type of H with
    | context [if ?b then _ else _] => destruct b
    end;
    cbn [run_handler] in H;
    try (inversion H; subst; exact I).
  - (* ClientHello *)
    apply server_hello_states in H. rewrite Es in H. destruct H as [H | [H | [s0 ->]]].
    + split; rewrite H; [reflexivity | discriminate].
    + split; rewrite H; [reflexivity | discriminate].
    + split; [reflexivity | intros _; eexists; reflexivity].
  - (* Certificate *)
    unfold server_handle_certificate in H.
    apply with_parse_inv in H. destruct H as [(v & _ & H) | [-> _]]; [| exact I].
    cbv zeta in H. destruct (ct_certs v) as [| e r].
    + inversion H; subst. split; [reflexivity | intros _; eexists; reflexivity].
    + apply with_parse_inv in H. destruct H as [(s2 & Hset & H) | [-> _]].
      * inversion H; subst. split; [reflexivity | discriminate].
      * split; fields; rewrite Es; [reflexivity | discriminate].
  - (* CertificateVerify *)
    unfold server_handle_certificate_verify in H.
    apply with_parse_inv in H. destruct H as [(v & _ & H) | [-> _]]; [| exact I].
    destruct (check_cv O c s v CLIENT_CONTEXT_STRING); inversion H; subst.
    + exact I.
    + split; [reflexivity | intros _; eexists; reflexivity].
  - (* Finished *)
    unfold server_handle_finished in H.
    apply with_parse_inv in H. destruct H as [(v & _ & H) | [-> _]]; [| exact I].
    destruct (negb (beqb v (t_expected s))); inversion H; subst.
    + exact I.
    + split; [reflexivity | discriminate].
Qed.

Lemma sinv_run : forall c ms s, sinv s -> sinv (run O c s ms).
Proof.
  intros c ms. induction ms as [| m r IH]; intros s I; simpl; [exact I |].
  destruct (step O c s m) as [[o s1] out] eqn:E. apply IH. eapply sinv_step; eauto.
Qed.

Lemma server_awaiting_finished : forall c ms,
  let s := run O c (init_server c) ms in
  t_state s = SERVER_EXPECT_FINISHED -> exists s0, s = server_expect_finished O s0.
Proof.
  intros c ms s Hs. assert (I : sinv (init_server c)) by (split; [reflexivity | discriminate]).
  apply (sinv_run c ms) in I. fold s in I. apply I. exact Hs.
Qed.

End P4c.

Section P4d.
Variable O : oracles.
Hypothesis Hhash : forall a x y, o_hash O a x = o_hash O a y -> x = y.
Hypothesis Hmac : forall a k m a' k' m', o_hmac O a k m = o_hmac O a' k' m' -> a = a' /\ k = k' /\ m = m'.
Hypothesis Hkdf : forall a s l h a' s' l' h',
  o_expand O a s l h = o_expand O a' s' l' h' -> a = a' /\ s = s' /\ l = l' /\ h = h'.
Hypothesis Hfin : forall vd, o_parse_fin O (o_build_fin O vd) = POk vd.

(* server, every message sequence: if the server completes by accepting the Finished the honest client computed
   over its schedule kC with its "c hs traffic" secret eC, then the transcript the server held when it started to
   wait for that Finished, its hash algorithm and its client-handshake secret are the client's; hence no handshake
   message in either direction reached the server altered (first conjunct + altered_message_changes_transcript) *)
Lemma server_agreement_run_lemma : forall sc ms m ss' out kC eC,
  let ss := run O sc (init_server sc) ms in
  t_state ss = SERVER_EXPECT_FINISHED ->
  server_handle_finished O sc ss m = (OOk, ss', out) ->
  m = o_build_fin O (ks_finished O kC eC) ->
  exists s0, ss = server_expect_finished O s0 /\
             k_tr (the_ks s0) = k_tr kC /\ k_alg (the_ks s0) = k_alg kC /\ t_dec s0 = eC /\
             (forall pre a a' post post', k_tr kC = pre ++ a ++ post -> k_tr (the_ks s0) = pre ++ a' ++ post' ->
                                          framed a -> framed a' -> a = a').
Proof.
  intros sc ms m ss' out kC eC ss Hs H Hm.
  destruct (server_awaiting_finished O sc ms Hs) as [s0 E0]. fold ss in E0.
  exists s0. split; [exact E0 |]. rewrite E0 in H.
  destruct (transcript_agreement_server_lemma O Hhash Hmac Hkdf Hfin sc s0 m ss' out kC eC H Hm) as (A & B & C).
  split; [exact A |]. split; [exact B |]. split; [exact C |].
  intros pre a a' post post' T1 T2 F F'.
  rewrite T1, T2 in A. apply app_inv_head in A. apply framed_prefix_eq in A; auto. destruct A as [A _]. symmetry. exact A.
Qed.

(* client, every message sequence: the same "no altered message" conclusion for the Finished of an honest flight *)
Lemma client_no_altered_message : forall cc ms finm cs' outC kF eS,
  let cs := run O cc (client_started O cc) ms in
  client_handle_finished O cc cs finm = (OOk, cs', outC) ->
  finm = o_build_fin O (ks_finished O kF eS) ->
  forall pre a a' post post', k_tr kF = pre ++ a ++ post -> k_tr (the_ks cs) = pre ++ a' ++ post' ->
                              framed a -> framed a' -> a = a'.
Proof.
  intros cc ms finm cs' outC kF eS cs H Hm pre a a' post post' T1 T2 F F'.
  destruct (transcript_agreement_client_lemma O Hhash Hmac Hkdf Hfin cc cs finm cs' outC kF eS H Hm) as (A & _).
  rewrite T1, T2 in A. apply app_inv_head in A. apply framed_prefix_eq in A; auto. destruct A as [A _]. symmetry. exact A.
Qed.

End P4d.
