(* C04: proofs about the GENERATED caller model (gen/CCallers.v) against the generated C memory model (gen/CMem.v). *)
From Coq Require Import ZArith List Bool Lia ZifyBool.
From AQ Require Import model.CMemBase gen.CMem model.CMemSpec proofs.CMemProofs proofs.CMemCalls
  model.CCallBase gen.CCallers model.CCallSpec.
Import ListNotations.
Local Open Scope Z_scope.

(* ---------- every native call is memory safe, whatever its arguments (current C source: no contract left) ---------- *)
Lemma all_ncalls_safe : forall c, ncall_safe c.
Proof.
  destruct c; cbn [ncall_safe]; intros.
  - apply safe_AEAD_encrypt; auto; exact I.
  - apply safe_AEAD_decrypt; auto; exact I.
  - apply safe_HeaderProtection_apply; auto; exact I.
  - apply safe_HeaderProtection_remove; auto; exact I.
Qed.

Lemma crypto_safe_all :
  aead_encrypt_safe_all /\ aead_decrypt_safe_all /\ hp_apply_safe_all /\ hp_remove_safe_all.
Proof.
  unfold aead_encrypt_safe_all, aead_decrypt_safe_all, hp_apply_safe_all, hp_remove_safe_all.
  repeat split; intros.
  - apply safe_AEAD_encrypt; auto; exact I.
  - apply safe_AEAD_decrypt; auto; exact I.
  - apply safe_HeaderProtection_apply; auto; exact I.
  - apply safe_HeaderProtection_remove; auto; exact I.
Qed.

(* case analysis on every `if`, innermost condition first, in the goal and in the hypotheses *)
Ltac ifs := repeat match goal with
  | |- context[if ?b then _ else _] =>
      lazymatch b with context[if _ then _ else _] => fail | _ => let E := fresh "E" in destruct b eqn:E; rewrite ?E in * end
  | H : context[if ?b then _ else _] |- _ =>
      lazymatch b with context[if _ then _ else _] => fail | _ => let E := fresh "E" in destruct b eqn:E; rewrite ?E in * end
  end.

(* ---------- Python slice lengths ---------- *)
Lemma py_slice_len_inside n a b : 0 <= a -> a <= b -> b <= n -> py_slice_len n a b = b - a.
Proof. unfold py_slice_len, py_index. intros. ifs; lia. Qed.
Lemma py_slice_len_range n a b : 0 <= n -> 0 <= py_slice_len n a b <= n.
Proof. unfold py_slice_len, py_index. intros. ifs; lia. Qed.
Lemma py_slice_len_tail n a : 0 <= a -> 0 <= n -> py_slice_len n a n = Z.max 0 (n - a).
Proof. unfold py_slice_len, py_index. intros. ifs; lia. Qed.

Lemma c_int_of_I_small v : 0 <= v < 2147483648 -> c_int_of_I v = v.
Proof. unfold c_int_of_I. intros. rewrite Z.mod_small by lia. cbv zeta. ifs; lia. Qed.
Lemma c_int_of_I_range v : -2147483648 <= c_int_of_I v <= 2147483647.
Proof. unfold c_int_of_I. pose proof (Z.mod_pos_bound v 4294967296 ltac:(lia)). cbv zeta. ifs; lia. Qed.

(* Buffer.data_slice(start, stop) returns stop - start bytes whenever it returns (used by the translator for
   `plain = buf.data_slice(self._packet_start, self._packet_start + packet_size)`) *)
Lemma data_slice_result b p e a z r q :
  first_term (ev_Buffer_data_slice b p e a z 1) = Some (true, r, q) -> r = z - a.
Proof.
  unfold ev_Buffer_data_slice. cbn [first_term].
  repeat match goal with |- context[if ?g then _ else _] => destruct g end; intros H; inversion H; reflexivity.
Qed.
(* ---------- the generated call sites against the hand-written size models of CMemSpec ---------- *)
(* sealing: whenever _end_packet reaches the encrypt_packet call, the header argument has header_size bytes, the
   payload argument has S - header_size bytes where S = end_packet_size >= header_size + 2 (sample padding) *)
Lemma end_packet_site_sizes tell ps hs cl ae ini dg rt rfs :
  0 <= hs ->
  fst (fst (end_packet_site tell ps hs cl ae ini dg rt rfs)) = true ->
  let S := end_packet_size tell ps hs cl ae ini dg rt rfs in
  end_packet_site tell ps hs cl ae ini dg rt rfs = (true, hs, S - hs) /\ hs + 2 <= S.
Proof.
  unfold end_packet_site, end_packet_size. cbv zeta. cbn [fst]. intros Hh Hpc.
  rewrite Hpc.
  match goal with |- (_, py_slice_len ?n 0 hs, py_slice_len ?n hs ?s) = _ /\ _ =>
    assert (E : n = s) by ring; assert (hs + 2 <= s) end.
  { ifs; lia. }
  rewrite E. rewrite !py_slice_len_inside by lia. split; [f_equal; f_equal; lia | lia].
Qed.
(* opening *)
Lemma receive_datagram_site_sizes data_len t0 t1 rest pl :
  0 <= t0 -> t0 < t1 -> t1 <= data_len -> 0 <= rest ->
  pull_header_post t0 t1 rest data_len pl ->
  receive_datagram_site data_len t0 t1 pl = (pl, t1 - t0) /\ t1 - t0 <= pl /\ t0 + pl <= data_len.
Proof.
  unfold receive_datagram_site, pull_header_post. cbv zeta. intros H0 H1 H2 H3 H.
  assert (t1 - t0 <= pl /\ t0 + pl <= data_len) as [A B] by (destruct H as [H | [[H G] | H]]; lia).
  rewrite py_slice_len_inside by lia. split; [f_equal; lia | lia].
Qed.

Lemma generated_open_is_open_call data_len t0 t1 rest pl :
  0 <= t0 -> t0 < t1 -> t1 <= data_len -> 0 <= rest -> data_len <= 65535 ->
  pull_header_post t0 t1 rest data_len pl ->
  open_call (fst (receive_datagram_site data_len t0 t1 pl)) (snd (receive_datagram_site data_len t0 t1 pl)).
Proof.
  intros. destruct (receive_datagram_site_sizes data_len t0 t1 rest pl) as (E & A & B); auto.
  rewrite E. cbn [fst snd]. unfold open_call. lia.
Qed.

Lemma generated_seal_is_seal_call mds tell ps hs cl ae ini dg rt rfs :
  fst (fst (end_packet_site tell ps hs cl ae ini dg rt rfs)) = true ->
  1200 <= mds -> 0 <= ps -> 3 <= hs ->
  ps + end_packet_size tell ps hs cl ae ini dg rt rfs + 16 <= mds ->
  seal_call mds ps (snd (fst (end_packet_site tell ps hs cl ae ini dg rt rfs)))
                   (snd (fst (end_packet_site tell ps hs cl ae ini dg rt rfs)) + snd (end_packet_site tell ps hs cl ae ini dg rt rfs)).
Proof.
  intros Hpc ? ? ? ?. destruct (end_packet_site_sizes tell ps hs cl ae ini dg rt rfs ltac:(lia) Hpc) as [E G].
  rewrite E. cbn [fst snd]. unfold seal_call. lia.
Qed.

(* ---------- the library's calls, from the generated call sites ---------- *)
Lemma seal_chain_safe tell ps hs cl ae ini dg rt rfs ret :
  Forall ncall_safe (snd (seal_chain tell ps hs cl ae ini dg rt rfs ret)).
Proof. apply Forall_forall. intros c _. apply all_ncalls_safe. Qed.
Lemma open_chain_safe data_len t0 t1 pl ret :
  Forall ncall_safe (open_chain data_len t0 t1 pl ret).
Proof. apply Forall_forall. intros c _. apply all_ncalls_safe. Qed.

(* sealing calls of a packet that fits its datagram, max_datagram_size <= 1500: inside the contracts, i.e. never
   rejected by the length guards.  ret = plen + 16: GCM / ChaCha20-Poly1305 output as many bytes as they consume,
   plus the tag (C model: ERet (outlen + 16) with outlen <= data_len). *)
Lemma seal_chain_in_contract mds tell ps hs cl ae ini dg rt rfs :
  fst (fst (end_packet_site tell ps hs cl ae ini dg rt rfs)) = true ->
  0 <= ps -> end_packet_pnl0 + 1 <= hs -> mds <= 1500 ->
  ps + end_packet_size tell ps hs cl ae ini dg rt rfs + 16 <= mds ->
  let plen := snd (end_packet_site tell ps hs cl ae ini dg rt rfs) in
  Forall (ncall_in_contract end_packet_pnl0) (snd (seal_chain tell ps hs cl ae ini dg rt rfs (plen + 16))).
Proof.
  intros Hpc ? Hh ? ?. unfold end_packet_pnl0 in *.
  destruct (end_packet_site_sizes tell ps hs cl ae ini dg rt rfs ltac:(lia) Hpc) as [E G].
  unfold seal_chain. rewrite E. cbn [fst snd]. unfold encrypt_packet_calls.
  repeat constructor; cbn [ncall_in_contract]; unfold Kspec_AEAD_encrypt, Kspec_HP_apply; lia.
Qed.
(* ---------- the length guards of the C code are exactly the contracts ---------- *)
Definition len_ok (z : Z) : Prop := 0 <= z <= 2147483647.
Definition ncall_typed (pnl0 : Z) (c : ncall) : Prop :=
  0 <= pnl0 <= 3 /\
  match c with
  | NAeadEncrypt d a | NAeadDecrypt d a | NHpApply d a => len_ok d /\ len_ok a
  | NHpRemove L _ => len_ok L
  end.

(* decide a boolean take_branch by lia and take the branch *)
Ltac take_branch :=
  match goal with |- context[if ?g then _ else _] =>
    first [ replace g with true by lia | replace g with false by lia ]; cbv iota
  end.

Lemma outside_contract_rejected pnl0 c :
  ncall_typed pnl0 c -> ~ ncall_in_contract pnl0 c -> ncall_rejected pnl0 c.
Proof.
  unfold ncall_typed, len_ok. destruct c; cbn [ncall_in_contract ncall_rejected]; intros [Hp Ht] Hk; intros.
  - unfold Kspec_AEAD_encrypt in Hk. unfold ev_AEAD_encrypt, CRYPTO_ERROR. cbn [first_term]. repeat take_branch. reflexivity.
  - unfold Kacc_AEAD_decrypt in Hk. unfold ev_AEAD_decrypt, CRYPTO_ERROR. cbn [first_term]. repeat take_branch. reflexivity.
  - unfold Kspec_HP_apply in Hk. unfold ev_HeaderProtection_apply, CRYPTO_ERROR. cbn [first_term].
    take_branch.
    match goal with |- context[if ?g then _ else _] => destruct g eqn:G1; [reflexivity|] end.
    take_branch. reflexivity.
  - unfold Kspec_HP_remove in Hk. pose proof (c_int_of_I_range pn_offset).
    unfold ev_HeaderProtection_remove, CRYPTO_ERROR. cbn [first_term]. repeat take_branch. reflexivity.
Qed.
Lemma inside_contract_returns pnl0 c :
  ncall_typed pnl0 c -> ncall_in_contract pnl0 c -> ncall_returns pnl0 c.
Proof.
  unfold ncall_typed, len_ok. destruct c; cbn [ncall_in_contract ncall_returns]; intros [Hp Ht] Hk; intros.
  - unfold Kspec_AEAD_encrypt in Hk. unfold ev_AEAD_encrypt. cbn [first_term]. repeat take_branch. eexists; reflexivity.
  - unfold Kacc_AEAD_decrypt in Hk. unfold ev_AEAD_decrypt. cbn [first_term]. repeat take_branch. eexists; reflexivity.
  - unfold Kspec_HP_apply in Hk. unfold ev_HeaderProtection_apply. cbn [first_term]. repeat take_branch. reflexivity.
  - unfold Kspec_HP_remove in Hk. pose proof (c_int_of_I_range pn_offset).
    unfold ev_HeaderProtection_remove. cbn [first_term]. repeat take_branch. reflexivity.
Qed.

(* ---------- each contract is the WEAKEST one: outside it, some access of the function body is out of bounds
   once the path conditions (the guards) are ignored.  The OpenSSL output length is taken as data_len (what GCM /
   ChaCha20-Poly1305 produce). ---------- *)
Lemma existsb_true_intro {A} (f : A -> bool) l x : In x l -> f x = true -> existsb f l = true.
Proof. intros. apply existsb_exists. eauto. Qed.

Lemma encrypt_contract_weakest d a pn parsed i f1 outlen f2 f3 f4 f5 :
  len_ok d -> ~ Kspec_AEAD_encrypt d ->
  stripped_oob (ev_AEAD_encrypt d a pn parsed i f1 outlen f2 d f3 f4 f5) = true.
Proof.
  unfold len_ok, Kspec_AEAD_encrypt, stripped_oob, ev_AEAD_encrypt. intros. cbn [existsb stripped_oob_ev].
  unfold acc_okb; cbn [a_off a_len a_size]. lia.
Qed.

Lemma apply_contract_weakest h p parsed pnl0 f1 b80 i :
  len_ok h -> len_ok p -> 0 <= pnl0 <= 3 -> ~ Kspec_HP_apply h p pnl0 ->
  stripped_oob (ev_HeaderProtection_apply h p parsed pnl0 f1 b80 i) = true.
Proof.
  unfold len_ok, Kspec_HP_apply, stripped_oob, ev_HeaderProtection_apply. intros. cbn [existsb stripped_oob_ev].
  unfold acc_okb; cbn [a_off a_len a_size]. lia.
Qed.

Lemma remove_contract_weakest L e parsed f1 b80 q i :
  len_ok L -> -2147483648 <= e <= 2147483647 -> 0 <= q <= 3 -> ~ Kspec_HP_remove L e ->
  stripped_oob (ev_HeaderProtection_remove L e parsed f1 b80 q i) = true.
Proof.
  unfold len_ok, Kspec_HP_remove, stripped_oob, ev_HeaderProtection_remove. intros. cbn [existsb stripped_oob_ev].
  unfold acc_okb; cbn [a_off a_len a_size]. lia.
Qed.

(* ---------- summary: the helpers enforce their contracts themselves ---------- *)
Lemma crypto_self_enforcing_all pnl0 c :
  ncall_typed pnl0 c ->
  ncall_safe c /\ (ncall_in_contract pnl0 c -> ncall_returns pnl0 c) /\ (~ ncall_in_contract pnl0 c -> ncall_rejected pnl0 c).
Proof.
  intros T. split; [apply all_ncalls_safe | split]; [apply inside_contract_returns | apply outside_contract_rejected]; exact T.
Qed.

Lemma callers_as_modelled_all :
  (forall mds tell ps hs cl ae ini dg rt rfs,
     fst (fst (end_packet_site tell ps hs cl ae ini dg rt rfs)) = true ->
     1200 <= mds -> 0 <= ps -> 3 <= hs ->
     ps + end_packet_size tell ps hs cl ae ini dg rt rfs + 16 <= mds ->
     seal_call mds ps (snd (fst (end_packet_site tell ps hs cl ae ini dg rt rfs)))
                      (snd (fst (end_packet_site tell ps hs cl ae ini dg rt rfs)) + snd (end_packet_site tell ps hs cl ae ini dg rt rfs))) /\
  (forall data_len t0 t1 rest pl,
     0 <= t0 -> t0 < t1 -> t1 <= data_len -> 0 <= rest -> data_len <= 65535 ->
     pull_header_post t0 t1 rest data_len pl ->
     open_call (fst (receive_datagram_site data_len t0 t1 pl)) (snd (receive_datagram_site data_len t0 t1 pl))).
Proof. split; [exact generated_seal_is_seal_call | exact generated_open_is_open_call]. Qed.

Lemma library_calls_safe_all :
  (forall tell ps hs cl ae ini dg rt rfs ret, Forall ncall_safe (snd (seal_chain tell ps hs cl ae ini dg rt rfs ret))) /\
  (forall data_len t0 t1 pl ret, Forall ncall_safe (open_chain data_len t0 t1 pl ret)).
Proof. split; [exact seal_chain_safe | exact open_chain_safe]. Qed.

Lemma contracts_weakest_all :
  (forall d a pn parsed i f1 outlen f2 f3 f4 f5, len_ok d -> ~ Kspec_AEAD_encrypt d ->
     stripped_oob (ev_AEAD_encrypt d a pn parsed i f1 outlen f2 d f3 f4 f5) = true) /\
  (forall h p parsed pnl0 f1 b80 i, len_ok h -> len_ok p -> 0 <= pnl0 <= 3 -> ~ Kspec_HP_apply h p pnl0 ->
     stripped_oob (ev_HeaderProtection_apply h p parsed pnl0 f1 b80 i) = true) /\
  (forall L e parsed f1 b80 q i, len_ok L -> -2147483648 <= e <= 2147483647 -> 0 <= q <= 3 -> ~ Kspec_HP_remove L e ->
     stripped_oob (ev_HeaderProtection_remove L e parsed f1 b80 q i) = true).
Proof. repeat split; [apply encrypt_contract_weakest | apply apply_contract_weakest | apply remove_contract_weakest]. Qed.

(* the hypotheses are satisfiable by non-trivial values; the chains on concrete sizes *)
Example callers_example :
  seal_chain 1184 0 27 true true false false true 0 1173 =
    (true, [NAeadEncrypt 1157 27; NHpApply 27 1173]) /\
  open_chain 1200 0 26 1200 28 = [NHpRemove 1200 26; NAeadDecrypt 1172 28] /\
  pull_header_post 0 26 0 1200 1200 /\
  ncall_typed 1 (NHpApply 27 1173) /\ ncall_in_contract 1 (NHpApply 27 1173) /\
  ncall_typed 0 (NHpRemove 9 9) /\ ~ ncall_in_contract 0 (NHpRemove 9 9).
Proof.
  repeat split; try (vm_compute; reflexivity); try (vm_compute; intuition discriminate);
    try (unfold pull_header_post; lia); try (unfold Kspec_HP_apply; lia).
  all: cbn; unfold Kspec_HP_remove; rewrite c_int_of_I_small by lia; lia.
Qed.
