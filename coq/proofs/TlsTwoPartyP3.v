(* C03, two-party system: the structural premises (ideal2: injective hash / HMAC / HKDF / signatures, codec round trips,
   framing, message types), what a flight of the honest server looks like on the wire (flight_facts), which MAC values
   and signatures honest messages carry, and small per-handler facts used by the system invariant (TlsTwoPartyP4.v). *)
From AQ Require Import lib.Base gen.TlsDispatch model.TlsSymbolic proofs.TlsDispatchLegal.
From AQ Require Import proofs.TlsSymbolicP1 proofs.TlsSymbolicP2 proofs.TlsSymbolicP4 proofs.TlsSymbolicP5 proofs.TlsSymbolicP3.
From AQ Require Import model.TlsTwoParty proofs.TlsTwoPartyP1 proofs.TlsTwoPartyP2.

Definition psk_binders (v : ch_view) : list bytes := match ch_psk v with Some (_, bs) => bs | None => [] end.

(* structural idealisation: ideal_crypto and codec_ok of the one-party theorems, plus *)
Record ideal2 (O : oracles) : Prop := mkIdeal2 {
  i_ideal : ideal_crypto O;
  i_codec : codec_ok O;
  (* digests of different algorithms differ (their lengths do) *)
  i_hash2 : forall a x a' y, o_hash O a x = o_hash O a' y -> a = a' /\ x = y;
  (* a signature determines key, algorithm and signed data *)
  i_sign : forall k a d k' a' d', o_sign O k a d = o_sign O k' a' d' -> k = k' /\ a = a' /\ d = d';
  (* codecs (C17): round trips, framed ClientHello, Finished is canonical, message types *)
  i_ch_rt : forall v v', o_parse_ch O (o_build_ch O v) = POk v' -> psk_binders v' = psk_binders v;
  i_cv_rt : forall v, o_parse_cv O (o_build_cv O v) = POk v;
  i_ch_fr : forall v, framed (o_build_ch O v);
  i_fin_canon : forall m vd, framed m -> o_parse_fin O m = POk vd -> m = o_build_fin O vd;
  i_t_ch : forall v, msg_type (o_build_ch O v) = 1;
  i_t_sh : forall v, msg_type (o_build_sh O v) = 2;
  i_t_ee : forall v, msg_type (o_build_ee O v) = 8;
  i_t_cr : forall v, msg_type (o_build_cr O v) = 13;
  i_t_ct : forall v, msg_type (o_build_ct O v) = 11;
  i_t_cv : forall v, msg_type (o_build_cv O v) = 15;
  i_p_ch : forall m v, o_parse_ch O m = POk v -> msg_type m = 1;
  i_p_cv : forall m v, o_parse_cv O m = POk v -> msg_type m = 15;
  i_p_fin : forall m v, o_parse_fin O m = POk v -> msg_type m = 20
}.

(* (the ClientHello codec: only the binders must survive the round trip) *)
(* the certificate belongs to the key: whatever verifies under it is the signature made with that key *)
Definition sig_pair (O : oracles) (cert key : bytes) : Prop :=
  forall alg data sg, o_sig_verify O cert alg data sg = true -> sg = o_sign O key alg data.

Section P3.
Variable O : oracles.
Hypothesis I2 : ideal2 O.

Let Hhash : forall a x y, o_hash O a x = o_hash O a y -> x = y.
Proof. destruct (i_ideal O I2) as (A & _). exact A. Qed.
Let Hmac : forall a k m a' k' m', o_hmac O a k m = o_hmac O a' k' m' -> a = a' /\ k = k' /\ m = m'.
Proof. destruct (i_ideal O I2) as (_ & A & _). exact A. Qed.
Let Hkdf : forall a s l h a' s' l' h', o_expand O a s l h = o_expand O a' s' l' h' -> a = a' /\ s = s' /\ l = l' /\ h = h'.
Proof. destruct (i_ideal O I2) as (_ & _ & A & _). exact A. Qed.
Let Hfin : forall vd, o_parse_fin O (o_build_fin O vd) = POk vd.
Proof. destruct (i_ideal O I2) as (_ & _ & _ & A). exact A. Qed.
Let Hsh_rt : forall v, o_parse_sh O (o_build_sh O v) = POk v.
Proof. destruct (i_codec O I2) as (A & _). exact A. Qed.
Let Hee_rt : forall v, o_parse_ee O (o_build_ee O v) = POk v.
Proof. destruct (i_codec O I2) as (_ & A & _). exact A. Qed.
Let Hsh_fr : forall v, framed (o_build_sh O v).
Proof. destruct (i_codec O I2) as (_ & _ & A & _). exact A. Qed.
Let Hee_fr : forall v, framed (o_build_ee O v).
Proof. destruct (i_codec O I2) as (_ & _ & _ & A & _). exact A. Qed.
Let T20 : forall x, msg_type (o_build_fin O x) = 20.
Proof. destruct (i_codec O I2) as (_ & _ & _ & _ & A & _). exact A. Qed.

(* ---------- MAC values and signatures carried by honest messages ------------------------------------------------ *)
Lemma macs_of_other : forall m, msg_type m <> 1 -> msg_type m <> 20 -> macs_of O m = [].
Proof.
  intros m A B. unfold macs_of.
  destruct (o_parse_fin O m) eqn:E1; [apply (i_p_fin O I2) in E1; contradiction | |];
    (destruct (o_parse_ch O m) eqn:E2; [apply (i_p_ch O I2) in E2; contradiction | reflexivity | reflexivity]).
Qed.

Lemma macs_of_fin : forall vd, macs_of O (o_build_fin O vd) = [vd].
Proof.
  intro vd. unfold macs_of. rewrite Hfin.
  destruct (o_parse_ch O (o_build_fin O vd)) eqn:E2; [| reflexivity | reflexivity].
  apply (i_p_ch O I2) in E2. rewrite T20 in E2. discriminate.
Qed.

Lemma macs_of_ch : forall v x, In x (macs_of O (o_build_ch O v)) -> In x (psk_binders v).
Proof.
  intros v x H. unfold macs_of in H.
  destruct (o_parse_fin O (o_build_ch O v)) eqn:E1;
    [apply (i_p_fin O I2) in E1; rewrite (i_t_ch O I2) in E1; discriminate | |];
    cbn [app] in H;
    (destruct (o_parse_ch O (o_build_ch O v)) as [v' | |] eqn:E2; [| destruct H | destruct H]);
    apply (i_ch_rt O I2) in E2; rewrite <- E2; exact H.
Qed.

Lemma sigs_of_other : forall m, msg_type m <> 15 -> sigs_of O m = [].
Proof.
  intros m A. unfold sigs_of. destruct (o_parse_cv O m) eqn:E; [| reflexivity | reflexivity].
  apply (i_p_cv O I2) in E. contradiction.
Qed.

Lemma sigs_of_cv : forall v, sigs_of O (o_build_cv O v) = [cv_sig v].
Proof. intro v. unfold sigs_of. rewrite (i_cv_rt O I2). reflexivity. Qed.

(* the client's hello carries at most the binder of its own ticket *)
Lemma client_hello_macs : forall c x,
  In x (macs_of O (client_hello_msg O c)) ->
  exists k e h, x = ks_finished O k e /\ e = o_expand O (k_alg k) (k_secret k) L_res_binder h.
Proof.
  intros c x H. unfold client_hello_msg in H. destruct (use_ticket c) as [t |].
  - apply macs_of_ch in H. cbn [psk_binders hello_with_psk ch_psk] in H. destruct H as [H | []]. subst x.
    unfold client_psk_schedule. cbn [snd]. eexists. eexists. eexists. split; [reflexivity |].
    unfold ks_derive. cbn [k_alg k_suite k_secret ks_update]. reflexivity.
  - apply macs_of_ch in H. cbn [psk_binders hello_base ch_psk] in H. destruct H.
Qed.

Lemma client_hello_sigs : forall c, sigs_of O (client_hello_msg O c) = [].
Proof.
  intro c. apply sigs_of_other. unfold client_hello_msg. destruct (use_ticket c); rewrite (i_t_ch O I2); discriminate.
Qed.

Lemma cv_data_inj : forall k k' ctx, ks_cv_data O k ctx = ks_cv_data O k' ctx -> k_alg k = k_alg k' /\ k_tr k = k_tr k'.
Proof.
  intros k k' ctx H. unfold ks_cv_data in H. apply app_inv_head in H. apply app_inv_head in H. apply app_inv_head in H.
  unfold ks_hashval in H. apply (i_hash2 O I2) in H. exact H.
Qed.

(* ---------- the server's flight on the wire ------------------------------------------------------------------------ *)
Record flight_facts (sc : cfg) (chm : bytes) (ss1 : tst) (outS : out) (shv : sh_view) (eev : ee_view) (auth : list bytes)
                    (k1 k3 : ksched) (g : Z) (shared : bytes) (psk : bool) : Prop := mkFF {
  ff_out : map snd outS = o_build_sh O shv :: o_build_ee O eev :: auth ++ [o_build_fin O (ks_finished O k3 (ks_derive O k1 L_s_hs_traffic))];
  ff_share : sh_key_share shv = Some (g, o_pub O g (f_spriv sc g));
  ff_suite : sh_suite shv = k_suite k3 /\ has_psk shv = psk;
  ff_k1 : k_tr k1 = chm ++ o_build_sh O shv /\ k_suite k1 = k_suite k3 /\ k_secret k1 = k_secret k3;
  ff_tr : k_tr k3 = chm ++ o_build_sh O shv ++ o_build_ee O eev ++ concat auth;
  ff_gen : k_gen k3 = 2;
  ff_after : exists keys0,
             server_after O ss1 keys0 k3 (ks_derive O k1 L_s_hs_traffic) (ks_derive O k1 L_c_hs_traffic)
                          (o_build_fin O (ks_finished O k3 (ks_derive O k1 L_s_hs_traffic)));
  ff_params : k_suite (the_ks ss1) = k_suite k3 /\ t_resumed ss1 = psk /\ t_alpn ss1 = ee_alpn eev /\ t_early ss1 = ee_early eev;
  ff_state : t_state ss1 = SERVER_EXPECT_CERTIFICATE \/ t_state ss1 = SERVER_EXPECT_FINISHED;
  ff_auth : if psk then auth = [] else
            exists crl ctv kb sigalg,
              auth = crl ++ [o_build_ct O ctv;
                             o_build_cv O (mkCV sigalg (o_sign O (f_key sc) sigalg (ks_cv_data O kb SERVER_CONTEXT_STRING)))] /\
              k_tr kb = chm ++ o_build_sh O shv ++ o_build_ee O eev ++ concat crl ++ o_build_ct O ctv /\
              k_suite kb = k_suite k3 /\ (crl = [] \/ exists v, crl = [o_build_cr O v])
}.

Lemma flight_facts_of : forall sc chm ss1 outS,
  server_handle_hello O sc (init_server sc) chm = (OOk, ss1, outS) ->
  exists shv eev auth k1 k3 g shared psk, flight_facts sc chm ss1 outS shv eev auth k1 k3 g shared psk.
Proof.
  intros sc chm ss1 outS H.
  destruct (server_hello_detail O sc (init_server sc) chm ss1 outS eq_refl H)
    as (s5 & sid & suite & comp & sigalg & version & kex & psk & g & shared & pk & Hfl & T5 & S5 & R5 & Hdh).
  pose proof (server_flight_detail O _ _ _ _ _ _ _ _ _ _ _ _ _ _ Hfl) as D. cbv zeta in D.
  destruct D as (auth & k3 & D1 & D2 & D3 & D4 & D5 & D6 & D7 & D8 & D9 & D10 & D11 & D12).
  subst suite psk. rewrite T5 in *.
  eexists (sflight_shv sc sid (k_suite (the_ks s5)) comp version (t_resumed s5) g (o_pub O g (f_spriv sc g))).
  exists (mkEE (t_alpn s5) (t_early s5) (t_ext s5)), auth. eexists. exists k3, g, shared, (t_resumed s5).
  constructor.
  - exact D1.
  - reflexivity.
  - split; [cbn [sflight_shv sh_suite]; symmetry; exact D3 |].
    unfold has_psk. cbn [sflight_shv sh_psk]. destruct (t_resumed s5); reflexivity.
  - cbn [k_tr k_suite k_secret ks_extract ks_update]. rewrite T5. split; [reflexivity |]. split; [symmetry; exact D3 |].
    symmetry. exact D4.
  - exact D2.
  - exact D5.
  - eexists. exact D6.
  - cbn [ee_alpn ee_early]. rewrite D3. auto.
  - exact D11.
  - destruct (t_resumed s5); [exact D12 |].
    destruct D12 as (crl & ctv & kb & A1 & A2 & A3 & A4). exists crl, ctv, kb, sigalg.
    rewrite D3. auto.
Qed.

(* ---------- per-handler facts ------------------------------------------------------------------------------------------ *)
Lemma client_send_hello_eq : forall c,
  client_send_hello O c (init_client c) = (OOk, client_started O c, [(EP_INITIAL, client_hello_msg O c)]).
Proof. intro c. reflexivity. Qed.

Lemma check_cv_notok : forall c s v ctx o, check_cv O c s v ctx = Some o -> o <> OOk.
Proof.
  intros c s v ctx o H. unfold check_cv in H.
  repeat match type of H with
  | context [if ?b then _ else _] => destruct b
  end; inversion H; discriminate.
Qed.

Lemma client_cv_ok : forall c s m s',
  client_handle_certificate_verify O c s m = (OOk, s', []) ->
  exists v, o_parse_cv O m = POk v /\
    o_sig_verify O (hd [] (t_peer s)) (cv_alg v) (ks_cv_data O (the_ks s) SERVER_CONTEXT_STRING) (cv_sig v) = true /\
    the_ks s' = ks_update (the_ks s) m /\ t_peer s' = t_peer s /\ t_resumed s' = t_resumed s.
Proof.
  intros c s m s' H. unfold client_handle_certificate_verify in H.
  destruct (o_parse_cv O m) as [v | d | e] eqn:P; cbn [with_parse] in H; try discriminate.
  destruct (check_cv O c s v SERVER_CONTEXT_STRING) eqn:Ecv;
    [apply check_cv_notok in Ecv; inversion H; subst; contradiction |].
  apply check_cv_pass in Ecv. destruct Ecv as [_ Hsig].
  destruct (negb ((if f_verify c then o_cert_ok O (verify_name c) (t_peer s) else 0) =? 0)); [discriminate |].
  inversion H; subst s'. exists v. repeat split; auto.
Qed.

Lemma client_fin_frame : forall c s m s' out0,
  client_handle_finished O c s m = (OOk, s', out0) ->
  (exists r, k_tr (the_ks s') = k_tr (the_ks s) ++ m ++ r) /\ k_suite (the_ks s') = k_suite (the_ks s) /\
  t_resumed s' = t_resumed s /\ t_alpn s' = t_alpn s /\ t_early s' = t_early s /\ t_peer s' = t_peer s.
Proof.
  intros c s m s' out0 H. unfold client_handle_finished in H.
  destruct (o_parse_fin O m) as [vd | d | e] eqn:P; cbn [with_parse] in H; try discriminate. cbv zeta in H.
  destruct (negb (beqb vd (ks_finished O (the_ks s) (t_dec s)))); [discriminate |].
  destruct (negb (k_gen (ks_update (the_ks s) m) =? 2)); [discriminate |].
  match type of H with (let '(k3, msgs) := ?X in _) = _ => destruct X as [k3 msgs] eqn:E3 end.
  assert (Hk3 : k_suite k3 = k_suite (the_ks s) /\ exists r, k_tr k3 = k_tr (the_ks s) ++ m ++ r).
  { destruct (t_creq s) as [cr |].
    - destruct (match f_chain c with [] => None | _ :: _ => negotiate_opt memz (f_key_sigalgs c) (cr_sigalgs cr) end).
      + inversion E3. split; [reflexivity |]. eexists. simpl. rewrite <- !app_assoc. reflexivity.
      + inversion E3. split; [reflexivity |]. eexists. simpl. rewrite <- !app_assoc. reflexivity.
    - inversion E3. split; [reflexivity |]. exists []. simpl. rewrite app_nil_r. reflexivity. }
  destruct Hk3 as (Hsu & r & Hr3).
  inversion H; subst s' out0; clear H. fields. cbn [k_tr k_suite ks_update].
  split; [eexists; rewrite Hr3, <- !app_assoc; reflexivity |]. repeat split; auto.
Qed.

Lemma server_first_step : forall c s m o s' out0,
  t_state s = SERVER_EXPECT_CLIENT_HELLO -> step O c s m = (o, s', out0) ->
  (o = OOk /\ framed m /\ server_handle_hello O c s m = (OOk, s', out0)) \/
  (out0 = [] /\ t_state s' = t_state s /\ (s' = s \/ fatal o = true)).
Proof.
  intros c s m o s' out0 Es H. unfold step in H. rewrite Es in H.
  destruct (negb (framedb m)) eqn:Fm; [inversion H; subst; right; auto |].
  apply negb_false_iff in Fm.
  rewrite dispatch_all in H; cbn [legal_next] in H.
  destruct (msg_type m =? 1); cbn [run_handler] in H.
  - destruct o; try (right; eapply server_hello_fail; [exact H | discriminate]).
    left. auto.
  - inversion H; subst. right. auto.
Qed.

End P3.
