(* C07, the direction that F-C07-4 broke: in a tree that assigns a raised limit only next to the written frame, for EVERY history
   with cut passes, the first STREAM / RESET_STREAM frame beyond a limit written on the wire (sent by a peer that was within every
   limit and final-size consistent until then) is answered with FLOW_CONTROL_ERROR / STREAM_LIMIT_ERROR -- unless the endpoint does
   not get as far as the limit checks (malformed frame, wrong direction, state discarded: never accepted either).
   Needs, beside AdvEq: the exact accounting l_used = p_total (XInv). *)
From Coq Require Import ZArith List Bool Lia ZifyBool.
From AQ Require Import lib.Base model.RangeSet model.StreamRecv model.ConnLimits model.ConnLimitsSpec model.ConnLimitsCut gen.C07Consts
  proofs.RangeSetP proofs.ListZ proofs.ConnLimitsP proofs.ConnLimitsAdv proofs.ConnLimitsSim proofs.ConnLimitsMsd proofs.ConnLimitsCutP
  proofs.ConnLimitsCutInv proofs.ConnLimitsCutEq.

(* ---------- receiver: finished implies a final size is known ---------- *)
Definition RF (r : recv) : Prop := r_finished r = true -> r_final r <> None.

Lemma RF_init : RF recv_init.
Proof. unfold RF. cbn. discriminate. Qed.

Lemma pull_data_fin st : r_finished (snd (pull_data st)) = r_finished st.
Proof. unfold pull_data. destruct (r_ranges st) as [|[a b] t]; [reflexivity|]. destruct (a =? r_start st); reflexivity. Qed.

Lemma hf_rf st off data fin : RF st -> RF (snd (handle_frame st off data fin)).
Proof.
  intros R. unfold handle_frame.
  match goal with |- context[if ?b then (RFinalSizeError, st) else _] => destruct b end; [exact R|].
  match goal with |- context[if ?b then (RData data fin, _) else _] => destruct b end.
  { cbn [snd]. unfold RF in *. cbn [r_finished r_final]. destruct fin; [intros _; discriminate|exact R]. }
  destruct (off - r_start st <? 0);
    match goal with |- context[pull_data ?x] =>
      pose proof (pull_data_final x) as PF; pose proof (pull_data_fin x) as PG; destruct (pull_data x) as [out st1] end;
    cbn [snd r_final r_finished] in PF, PG;
    destruct out; destruct (opt_eqb (r_final st1) (r_start st1)) eqn:OE; cbn [snd]; unfold RF in *; cbn [r_finished r_final];
    intros Hf; try (destruct (r_final st1); [discriminate|cbn in OE; discriminate]);
    rewrite PF; rewrite PG in Hf; destruct fin; try discriminate; apply R, Hf.
Qed.

Lemma hr_rf st fs : RF st -> RF (snd (handle_reset st fs)).
Proof.
  intros R. unfold handle_reset. destruct (r_final st) as [f|] eqn:F; [destruct (negb (f =? fs))|]; cbn [snd]; try exact R;
    unfold RF; cbn; intros _; discriminate.
Qed.

Lemma bump_rf r fs : RF r -> RF (bump_highest r fs).
Proof. intros R. unfold bump_highest. destruct (RESET_ADVANCES_HIGHEST && (fs >? r_highest r)); [|exact R]. exact R. Qed.

(* ---------- exact accounting between the endpoint and the peer's ledger ---------- *)
Record XInv (c : conn) (p : peer) : Prop := {
  x_used : l_used (c_data c) = p_total p;
  x_count : forall sid s, sget sid (c_streams c) = Some s -> Bool.eqb (client_initiated sid) (c_client c) = false ->
              sid / 4 + 1 <= l_value (if unidirectional sid then c_uni c else c_bidi c);
  x_done : forall sid, done c sid = true -> p_final p sid <> None;
  x_pfin : forall sid f, p_final p sid = Some f -> p_hi p sid = f;
  x_rf : Forall (fun q => RF (sm_recv (snd q))) (c_streams c)
}.

Lemma XInv_init cl msd md cb : XInv (conn_init cl msd md cb) (peer_init msd md).
Proof. constructor; cbn; intros; try reflexivity; try discriminate; constructor. Qed.

Lemma XInv_same c c2 p : XInv c p -> c_streams c2 = c_streams c -> c_done c2 = c_done c -> c_client c2 = c_client c ->
  l_used (c_data c2) = l_used (c_data c) -> l_value (c_bidi c) <= l_value (c_bidi c2) -> l_value (c_uni c) <= l_value (c_uni c2) ->
  XInv c2 p.
Proof.
  intros X E1 E2 E3 U V1 V2. destruct X. constructor; unfold done in *; rewrite ?E1, ?E2, ?E3, ?U; try assumption.
  intros sid s G O. pose proof (x_count0 _ _ G O). destruct (unidirectional sid); lia.
Qed.

Lemma XInv_see c p w : XInv c p -> XInv c (peer_see p w).
Proof.
  intros X. destruct (see_ledger w p) as (A & B & C). destruct X. constructor; rewrite ?A, ?B, ?C; assumption.
Qed.

(* the ledger alone: within + final-size consistent keeps "final size known => highest = final size" *)
Lemma pfin_upd cl p lim sid e fin : (forall k f, p_final p k = Some f -> p_hi p k = f) ->
  peer_within cl p lim sid e fin = true ->
  forall k f, p_final (peer_upd p sid e fin) k = Some f -> p_hi (peer_upd p sid e fin) k = f.
Proof.
  intros X W k f. unfold peer_within in W. apply andb_prop in W. destruct W as (_ & W4).
  cbn [peer_upd p_final p_hi]. unfold fupd.
  destruct (k =? sid) eqn:E.
  - assert (k = sid) by lia. subst k. destruct (p_final p sid) as [f0|] eqn:F.
    + pose proof (X _ _ F) as Hh. destruct fin; cbv beta; rewrite ?E, ?F; intros H; inversion H; subst; lia.
    + destruct fin; cbv beta; rewrite ?E, ?F; [|discriminate]. intros H; inversion H; subst. lia.
  - destruct fin; cbv beta; rewrite ?E; apply X.
Qed.

Lemma XInv_ignored c p lim sid e fin : XInv c p -> done c sid = true ->
  peer_within (c_client c) p lim sid e fin = true -> XInv c (peer_upd p sid e fin).
Proof.
  intros X D W. pose proof (pfin_upd _ _ _ _ _ _ (x_pfin _ _ X) W) as PF.
  assert (Z0 : Z.max 0 (e - p_hi p sid) = 0).
  { pose proof (x_done _ _ X _ D) as Fn. destruct (p_final p sid) as [f|] eqn:F; [|congruence].
    pose proof (x_pfin _ _ X _ _ F). unfold peer_within in W. apply andb_prop in W. destruct W as (_ & W4). rewrite F in W4. lia. }
  destruct X. constructor; try assumption.
  - cbn [peer_upd p_total]. lia.
  - intros k Dk. cbn [peer_upd p_final]. unfold fupd. destruct fin; [|apply x_done0, Dk].
    destruct (k =? sid); [discriminate|apply x_done0, Dk].
Qed.

Lemma goc_xinv c p sid s c1 : XInv c p -> get_or_create c sid = GStream s c1 -> XInv c1 p.
Proof.
  intros X G. destruct (goc_cases _ _ _ _ G) as (Dt & Cs).
  destruct (goc_shape _ _ _ _ G) as (D & [(G1 & E)|(G1 & Es & E1 & E2 & E3 & E4 & E5 & E6 & E7)]); [subst; exact X|].
  destruct Cs as [(G2 & _)|((_ & _ & Own) & Cnt & _)]; [congruence|]. unfold stream_limit_of in Cnt.
  destruct X. constructor; unfold done in *; rewrite ?E1, ?E2, ?E3, ?E4; try assumption.
  - intros k s1. rewrite sget_app1. destruct (sget k (c_streams c)) eqn:Gk.
    + intros H O. inversion H; subst. pose proof (x_count0 _ _ Gk O). destruct (unidirectional k); lia.
    + destruct (sid =? k) eqn:E; [|discriminate]. intros _ _. assert (k = sid) by lia. subst k. destruct (unidirectional sid); lia.
  - apply Forall_app; split; [assumption|]. constructor; [|constructor]. rewrite Es. cbn. apply RF_init.
Qed.

Lemma rf_of c p sid s : XInv c p -> sget sid (c_streams c) = Some s -> RF (sm_recv s).
Proof. intros X G. pose proof (x_rf _ _ X) as F. rewrite Forall_forall in F. apply (F _ (sget_In _ _ _ G)). Qed.

(* an accepted frame: the stream's receiver is replaced, newly received bytes are charged on both sides *)
Lemma XInv_accept c1 p lim sid s r'' e fin :
  XInv c1 p -> sget sid (c_streams c1) = Some s -> RF r'' -> r_highest (sm_recv s) = p_hi p sid ->
  peer_within (c_client c1) p lim sid e fin = true ->
  XInv (add_used (set_streams c1 (sset sid (with_recv s r'') (c_streams c1))) (Z.max 0 (e - r_highest (sm_recv s)))) (peer_upd p sid e fin).
Proof.
  intros X G R Hh W. pose proof (pfin_upd _ _ _ _ _ _ (x_pfin _ _ X) W) as PF.
  destruct X. constructor; unfold done in *; cbn [add_used set_data set_limits set_streams c_data c_streams c_done c_client c_bidi c_uni l_used]; try assumption.
  - cbn [peer_upd p_total]. rewrite Hh. lia.
  - intros k s1. rewrite (sget_sset _ _ _ _ _ G). destruct (k =? sid) eqn:E; [|apply x_count0].
    intros _ O. assert (k = sid) by lia. subst k. apply (x_count0 _ _ G O).
  - intros k Dk. cbn [peer_upd p_final]. unfold fupd. destruct fin; [|apply x_done0, Dk].
    destruct (k =? sid); [discriminate|apply x_done0, Dk].
  - apply Forall_sset; [assumption|]. intros k. exact R.
Qed.

Lemma goc_done_true c sid : get_or_create c sid = GFinished -> done c sid = true.
Proof.
  unfold get_or_create, done. destruct (existsb (Z.eqb sid) (c_done c)); [reflexivity|].
  destruct (sget sid (c_streams c)); [discriminate|]. destruct (Bool.eqb _ _); [discriminate|].
  destruct (unidirectional sid); destruct (_ >? _); discriminate.
Qed.

Lemma stream_xinv c p lim ft sid off data r c' :
  CInv c -> Sim c p -> XInv c p -> handle_stream c ft sid off data = (r, c') ->
  peer_within (c_client c) p lim sid (off + Zlen data) (Z.odd ft) = true -> closes r = false ->
  XInv c' (peer_upd p sid (off + Zlen data) (Z.odd ft)).
Proof.
  intros I S X H W NC. unfold handle_stream in H. set (e := off + Zlen data) in *.
  destruct (e >? UINT_VAR_MAX); [inversion H; subst; discriminate NC|].
  destruct (negb (can_receive c sid)); [inversion H; subst; discriminate NC|].
  destruct (get_or_create c sid) as [s c1| |code] eqn:G; [| |inversion H; subst; discriminate NC].
  - destruct (goc_sim _ _ _ _ _ S G) as (S1 & G1 & L1 & L2 & Lm & D & Cl).
    pose proof (goc_xinv _ _ _ _ _ X G) as X1.
    destruct (e >? sm_msd s); [inversion H; subst; discriminate NC|].
    destruct (_ >? l_value (c_data c1)); [inversion H; subst; discriminate NC|].
    pose proof (hf_rf (sm_recv s) off data (Z.odd ft) (rf_of _ _ _ _ X1 G1)) as R.
    destruct (handle_frame (sm_recv s) off data (Z.odd ft)) as [o r']. cbn [snd] in R.
    rewrite <- Cl in W.
    destruct o; inversion H; subst; try discriminate NC; apply (XInv_accept c1 p lim sid s r' e (Z.odd ft) X1 G1 R L1 W).
  - inversion H; subst. eapply XInv_ignored; [exact X|apply goc_done_true, G|exact W].
Qed.

Lemma reset_xinv c p lim sid fs r c' :
  CInv c -> Sim c p -> XInv c p -> handle_reset_stream c sid fs = (r, c') ->
  peer_within (c_client c) p lim sid fs true = true -> closes r = false ->
  XInv c' (peer_upd p sid fs true).
Proof.
  intros I S X H W NC. unfold handle_reset_stream in H.
  destruct (negb (can_receive c sid)); [inversion H; subst; discriminate NC|].
  destruct (get_or_create c sid) as [s c1| |code] eqn:G; [| |inversion H; subst; discriminate NC].
  - destruct (goc_sim _ _ _ _ _ S G) as (S1 & G1 & L1 & L2 & Lm & D & Cl).
    pose proof (goc_xinv _ _ _ _ _ X G) as X1.
    destruct (fs >? sm_msd s); [inversion H; subst; discriminate NC|].
    destruct (_ >? l_value (c_data c1)); [inversion H; subst; discriminate NC|].
    pose proof (hr_rf (sm_recv s) fs (rf_of _ _ _ _ X1 G1)) as R.
    destruct (handle_reset (sm_recv s) fs) as [o r']. cbn [snd] in R. apply (bump_rf _ fs) in R.
    rewrite <- Cl in W.
    destruct o; inversion H; subst; try discriminate NC;
      apply (XInv_accept c1 p lim sid s (bump_highest r' fs) fs true X1 G1 R L1 W).
  - inversion H; subst. eapply XInv_ignored; [exact X|apply goc_done_true, G|exact W].
Qed.

(* ---------- write passes ---------- *)
Lemma Pass_xinv c p w c1 : XInv c p -> Pass c w c1 -> XInv c1 (peer_see p w).
Proof.
  intros X P. apply XInv_see. destruct (pa_data _ _ _ P) as (D1 & _). destruct (pa_bidi _ _ _ P) as (_ & B2).
  destruct (pa_uni _ _ _ P) as (_ & U2). pose proof (pa_streams _ _ _ P) as K. pose proof (keyed_sget _ _ K) as KS.
  pose proof (pa_done _ _ _ P) as Ed. pose proof (pa_client _ _ _ P) as Ec.
  destruct X. constructor; unfold done in *; rewrite ?Ed, ?Ec, ?D1; try assumption.
  - intros k s' G O. specialize (KS k). rewrite G in KS. destruct KS as (s & G0 & _).
    pose proof (x_count0 _ _ G0 O). destruct (unidirectional k); lia.
  - clear -K x_rf0. induction K as [|q q' t t' (H & L & _) _ IH]; [constructor|].
    inversion x_rf0; subst. constructor; [rewrite L; assumption|apply IH; assumption].
Qed.

Lemma discard_xinv c p keepl : Sim c p -> XInv c p -> XInv (discard c keepl) p.
Proof.
  intros S X. pose proof (s_nodup _ _ S) as ND. unfold discard.
  constructor; unfold done in *; cbn [c_data c_bidi c_uni c_streams c_done c_client]; try apply X.
  - intros k s'. rewrite (sget_filter _ _ _ ND). destruct (sget k (c_streams c)) as [s0|] eqn:G; [|discriminate].
    destruct (negb (discardable keepl (k, s0))); [|discriminate]. intros Hs. inversion Hs; subst. apply (x_count _ _ X _ _ G).
  - intros k. rewrite existsb_eqb_app. intros Hd. apply orb_true_iff in Hd. destruct Hd as [Hd|Hd]; [apply (x_done _ _ X), Hd|].
    destruct (existsb (Z.eqb k) (c_done c)) eqn:Dk; [apply (x_done _ _ X), Dk|].
    rewrite (existsb_keys_filter _ _ _ ND) in Hd. destruct (sget k (c_streams c)) as [s0|] eqn:G; [|discriminate].
    unfold discardable in Hd. cbn [fst snd] in Hd. apply andb_prop in Hd. destruct Hd as (Hf & _).
    unfold stream_finished in Hf. apply andb_prop in Hf. destruct Hf as (Hf & _).
    destruct (s_live _ _ S _ _ G Dk) as (_ & L2). rewrite <- L2. apply (rf_of _ _ _ _ X G), Hf.
  - apply Forall_filter, X.
Qed.

Lemma write_b_xinv c p b keepl w c' : CInv c -> Sim c p -> XInv c p -> write_b c b keepl = (OWrote w, c') ->
  XInv c' (peer_see p w).
Proof.
  intros I S X H. destruct (write_b_shape _ _ _ _ _ H) as (c1 & w1 & ro & L & Ew & E). inversion Ew; subst w1 c'.
  pose proof (limit_stages_pass _ _ _ _ _ (CInv_nonneg _ I) L) as P.
  pose proof (Pass_xinv _ _ _ _ X P) as X1. destruct ro; [|exact X1].
  apply discard_xinv; [apply (Pass_sim _ _ _ _ S P)|exact X1].
Qed.

(* ---------- the other operations ---------- *)
Lemma step_other_xinv c p o r c' :
  CInv c -> Sim c p -> AdvEq c p -> XInv c p -> frame_end o = None -> step c o = (r, c') ->
  match r with OWrote w => XInv c' (peer_see p w) | OErr _ _ | OExn => True | _ => XInv c' p end.
Proof.
  intros I S A X FE. destruct o; cbn in FE; try discriminate FE; cbn [step].
  - unfold handle_touch. destruct (negb _); [intros H; inversion H; subst; exact Logic.I|].
    destruct (get_or_create c sid) as [s c1| |code] eqn:G; intros H; inversion H; subst; try exact X; try exact Logic.I.
    apply (goc_xinv _ _ _ _ _ X G).
  - intros H; inversion H; subst. unfold local_open. destruct (negb (can_send c sid)); [exact X|].
    destruct (sget sid (c_streams c)) eqn:G; [exact X|].
    destruct (Bool.eqb (client_initiated sid) (c_client c)) eqn:Own; cbn [negb]; [|exact X].
    destruct X. constructor; unfold done in *; cbn [set_streams c_data c_streams c_done c_client c_bidi c_uni]; try assumption.
    + intros k s1. rewrite sget_app1. destruct (sget k (c_streams c)) eqn:Gk; [intros H1 O; inversion H1; subst; apply (x_count0 _ _ Gk O)|].
      destruct (sid =? k) eqn:E; [|discriminate]. intros _ O. assert (k = sid) by lia. subst k. congruence.
    + apply Forall_app; split; [assumption|]. constructor; [|constructor]. cbn. apply RF_init.
  - intros H. destruct (write_wrote _ _ _ H) as (w & Er). subst r.
    destruct (write_is_write_b c (pass_budget c) (conj (a_sent _ _ A) (a_ssent _ _ A)) (Z.le_refl _)) as (E & _).
    rewrite E in H. eapply write_b_xinv; eassumption.
  - intros H; inversion H; subst. unfold limit_lost. destruct (which =? 0); [|destruct (which =? 1)]; apply (XInv_same c _ p X); cbn; auto; lia.
  - intros H; inversion H; subst. unfold stream_limit_lost. destruct (sget sid (c_streams c)) as [s|] eqn:G; [|exact X].
    pose proof (rf_of _ _ _ _ X G) as R.
    destruct X. constructor; unfold done in *; cbn [set_streams c_data c_streams c_done c_client c_bidi c_uni]; try assumption.
    + intros k s1. rewrite (sget_sset _ _ _ _ _ G). destruct (k =? sid) eqn:E; [|apply x_count0].
      intros _ O. assert (k = sid) by lia. subst k. apply (x_count0 _ _ G O).
    + apply Forall_sset; [assumption|]. intros k. exact R.
  - unfold handle_crypto.
    destruct (_ >? UINT_VAR_MAX); [intros H; inversion H; subst; exact Logic.I|].
    destruct (_ >? MAX_PENDING_CRYPTO); [intros H; inversion H; subst; exact Logic.I|].
    destruct (handle_frame (c_crypto c) off data false) as [o r'].
    destruct o as [|d0 f0| |]; try (intros H; inversion H; subst; try exact Logic.I; apply (XInv_same c _ p X); cbn; auto; lia).
    destruct (tls_parse _ _); intros H; inversion H; subst; try exact Logic.I; apply (XInv_same c _ p X); cbn; auto; lia.
  - unfold handle_path_challenge. intros H; inversion H; subst. destruct (Zlen (c_chal c) <? MAX_REMOTE_CHALLENGES); [|exact X].
    apply (XInv_same c _ p X); cbn; auto; lia.
  - intros H; inversion H; subst. apply (XInv_same c _ p X); cbn; auto; lia.
  - unfold handle_new_cid.
    destruct (rpt >? seq); [intros H; inversion H; subst; exact Logic.I|].
    match goal with |- context[match ?x with Some _ => _ | None => _ end] => destruct x as [[active' avail3]|] end;
      [|destruct NCID_EMPTY_CLOSES; intros H; inversion H; subst; exact Logic.I].
    destruct (1 + Zlen avail3 >? LOCAL_ACTIVE_CID_LIMIT); [intros H; inversion H; subst; exact Logic.I|].
    match goal with |- context[if over_retire_cap ?q ?q2 then _ else _] => destruct (over_retire_cap q q2) end; [intros H; inversion H; subst; exact Logic.I|].
    intros H; inversion H; subst. apply (XInv_same c _ p X); cbn; auto; lia.
  - unfold handle_path_packet. destruct (pfind addr (c_paths c)); intros H; inversion H; subst; apply (XInv_same c _ p X); cbn; auto; lia.
Qed.

(* ---------- the first frame beyond a limit written on the wire ---------- *)
Lemma adv_local c p sid : AdvEq c p -> done c sid = false -> can_receive c sid = true -> p_adv_msd p sid = local_msd c sid.
Proof.
  intros A D R. unfold local_msd. destruct (sget sid (c_streams c)) as [s|] eqn:G;
    [apply (a_live _ _ A _ _ G D R)|apply (a_fresh _ _ A _ G D)].
Qed.

Lemma goc_count_ok c p sid s c1 : AdvEq c p -> XInv c p -> get_or_create c sid = GStream s c1 ->
  (Bool.eqb (client_initiated sid) (c_client c)
   || (sid / 4 + 1 <=? (if unidirectional sid then p_adv_uni p else p_adv_bidi p))) = true.
Proof.
  intros A X G. destruct (Bool.eqb (client_initiated sid) (c_client c)) eqn:Own; [reflexivity|]. cbn [orb].
  rewrite (a_bidi _ _ A), (a_uni _ _ A).
  destruct (goc_cases _ _ _ _ G) as (_ & [(G1 & _)|(_ & Cnt & _)]).
  - pose proof (x_count _ _ X _ _ G1 Own). destruct (unidirectional sid); lia.
  - unfold stream_limit_of in Cnt. destruct (unidirectional sid); lia.
Qed.

Lemma over_means c p sid s c1 e : Sim c p -> AdvEq c p -> XInv c p -> can_receive c sid = true ->
  get_or_create c sid = GStream s c1 -> within_wire_limits (c_client c) p sid e = false ->
  e > sm_msd s \/ l_used (c_data c1) + Z.max 0 (e - r_highest (sm_recv s)) > l_value (c_data c1).
Proof.
  intros S A X CR G W.
  destruct (goc_sim _ _ _ _ _ S G) as (S1 & G1 & L1 & L2 & Lm & D & Cl).
  destruct (goc_shape _ _ _ _ G) as (Dn & _).
  pose proof (adv_local _ _ _ A Dn CR) as AL.
  pose proof (goc_count_ok _ _ _ _ _ A X G) as CO.
  unfold within_wire_limits in W. rewrite CO in W. cbn [andb] in W.
  rewrite D, L1, Lm, <- AL, (x_used _ _ X), <- (a_data _ _ A). lia.
Qed.

Lemma over_stream c p ft sid off data r c' : Sim c p -> AdvEq c p -> XInv c p ->
  handle_stream c ft sid off data = (r, c') -> within_wire_limits (c_client c) p sid (off + Zlen data) = false ->
  over_ok c sid (off + Zlen data) r = true.
Proof.
  intros S A X H W. revert H. unfold handle_stream. set (e := off + Zlen data) in *. unfold over_ok, judged.
  destruct (e >? UINT_VAR_MAX) eqn:E0.
  { intros H; inversion H; subst. assert (Ef : e <=? UINT_VAR_MAX = false) by lia. rewrite Ef. reflexivity. }
  destruct (can_receive c sid) eqn:CR; cbn [negb].
  2: { intros H; inversion H; subst. rewrite andb_false_r. reflexivity. }
  destruct (get_or_create c sid) as [s c1| |code] eqn:G.
  - destruct (over_means _ _ _ _ _ _ S A X CR G W) as [O|O].
    + destruct (e >? sm_msd s) eqn:E1; [|lia]. intros H; inversion H; subst. reflexivity.
    + destruct (e >? sm_msd s) eqn:E1; [intros H; inversion H; subst; reflexivity|].
      destruct (_ >? l_value (c_data c1)) eqn:E2; [intros H; inversion H; subst; reflexivity|]. lia.
  - intros H; inversion H; subst. pose proof (goc_done_true _ _ G) as Dn. unfold done in Dn. rewrite Dn. cbn [negb].
    rewrite andb_false_r. reflexivity.
  - intros H; injection H as Hr Hc; subst r. clear Hc. unfold get_or_create in G.
    destruct (existsb (Z.eqb sid) (c_done c)) eqn:Dn; [discriminate|].
    destruct (sget sid (c_streams c)) eqn:Gs; [discriminate|].
    destruct (Bool.eqb (client_initiated sid) (c_client c)) eqn:Own.
    + inversion G; subst code. cbn [negb orb]. rewrite andb_false_r. reflexivity.
    + assert (Ec : code = E_STREAM_LIMIT_ERROR).
      { destruct (unidirectional sid);
          [destruct (sid / 4 + 1 >? l_value (c_uni c))|destruct (sid / 4 + 1 >? l_value (c_bidi c))]; congruence. }
      subst code. reflexivity.
Qed.

Lemma over_reset c p sid fs r c' : Sim c p -> AdvEq c p -> XInv c p ->
  handle_reset_stream c sid fs = (r, c') -> within_wire_limits (c_client c) p sid fs = false ->
  over_ok c sid fs r = true.
Proof.
  intros S A X H W. revert H. unfold handle_reset_stream. unfold over_ok, judged.
  destruct (can_receive c sid) eqn:CR; cbn [negb].
  2: { intros H; inversion H; subst. rewrite andb_false_r. reflexivity. }
  destruct (get_or_create c sid) as [s c1| |code] eqn:G.
  - destruct (over_means _ _ _ _ _ _ S A X CR G W) as [O|O].
    + destruct (fs >? sm_msd s) eqn:E1; [|lia]. intros H; inversion H; subst. reflexivity.
    + destruct (fs >? sm_msd s) eqn:E1; [intros H; inversion H; subst; reflexivity|].
      destruct (_ >? l_value (c_data c1)) eqn:E2; [intros H; inversion H; subst; reflexivity|]. lia.
  - intros H; inversion H; subst. pose proof (goc_done_true _ _ G) as Dn. unfold done in Dn. rewrite Dn. cbn [negb].
    rewrite andb_false_r. reflexivity.
  - intros H; injection H as Hr Hc; subst r. clear Hc. unfold get_or_create in G.
    destruct (existsb (Z.eqb sid) (c_done c)) eqn:Dn; [discriminate|].
    destruct (sget sid (c_streams c)) eqn:Gs; [discriminate|].
    destruct (Bool.eqb (client_initiated sid) (c_client c)) eqn:Own.
    + inversion G; subst code. cbn [negb orb]. rewrite andb_false_r. reflexivity.
    + assert (Ec : code = E_STREAM_LIMIT_ERROR).
      { destruct (unidirectional sid);
          [destruct (sid / 4 + 1 >? l_value (c_uni c))|destruct (sid / 4 + 1 >? l_value (c_bidi c))]; congruence. }
      subst code. reflexivity.
Qed.

Lemma xunanswered_from : RAISE_BEFORE_START_FRAME = false -> RESET_ADVANCES_HIGHEST = true ->
  forall ops c p, CInv c -> Sim c p -> MSim c p -> AdvEq c p -> XInv c p -> xunanswered c p ops = false.
Proof.
  intros Fl Flag. induction ops as [|o t IH]; intros c p I S M A X; cbn [xunanswered]; [reflexivity|].
  destruct (xstep c o) as [r c'] eqn:St. pose proof (xstep_inv _ _ _ _ I St) as I'.
  pose proof (xstep_adveq _ _ _ _ _ (or_introl Fl) I A St) as A'.
  destruct o as [o|b keepl]; cbn [xframe_end xstep] in *.
  - destruct (frame_end o) as [[[sid e] fin]|] eqn:FE.
    + destruct (peer_within (c_client c) p (p_adv_msd p sid) sid e fin) eqn:W.
      * destruct (closes r) eqn:NC; [reflexivity|].
        assert (G : good r (Sim c' (peer_upd p sid e fin) /\ MSim c' (peer_upd p sid e fin))).
        { destruct o; cbn in FE; try discriminate FE; inversion FE; subst; cbn [step] in St.
          - exact (full_stream _ _ _ _ _ _ _ _ I S M St W).
          - exact (full_reset _ _ _ _ _ _ Flag I S M St W). }
        assert (X' : XInv c' (peer_upd p sid e fin)).
        { destruct o; cbn in FE; try discriminate FE; inversion FE; subst; cbn [step] in St;
            [exact (stream_xinv _ _ _ _ _ _ _ _ _ I S X St W NC)|exact (reset_xinv _ _ _ _ _ _ _ I S X St W NC)]. }
        assert (AN : AdvEq c' p /\ not_wrote r).
        { destruct o; cbn in FE; try discriminate FE; cbn [step] in St;
            [exact (handle_stream_adveq _ _ _ _ _ _ _ _ I A St)|exact (handle_reset_stream_adveq _ _ _ _ _ _ I A St)]. }
        destruct AN as (A2 & NW).
        destruct r; cbn [good closes not_wrote] in *; try discriminate NC; try contradiction;
          destruct G as (S' & M'); apply IH; auto; apply AdvEq_upd, A2.
      * destruct (within_wire_limits (c_client c) p sid e) eqn:WW; [reflexivity|].
        assert (OK : over_ok c sid e r = true).
        { destruct o; cbn in FE; try discriminate FE; inversion FE; subst; cbn [step] in St;
            [exact (over_stream _ _ _ _ _ _ _ _ S A X St WW)|exact (over_reset _ _ _ _ _ _ S A X St WW)]. }
        rewrite OK. reflexivity.
    + pose proof (step_other _ _ _ _ _ I S FE St) as G. pose proof (step_other_msim _ _ _ _ _ I S M FE St) as GM.
      pose proof (step_other_xinv _ _ _ _ _ I S A X FE St) as GX.
      destruct r; cbn [see_outcome] in A'; auto.
  - destruct (write_b_shape _ _ _ _ _ St) as (c1 & w & ro & _ & Er & _). subst r. cbn [see_outcome] in A'.
    destruct (write_b_sims _ _ _ _ _ _ I S M St) as (S' & M'). pose proof (write_b_xinv _ _ _ _ _ _ I S X St) as X'. auto.
Qed.

Lemma xunanswered_init : RAISE_BEFORE_START_FRAME = false -> RESET_ADVANCES_HIGHEST = true ->
  forall cl msd md cb ops, 0 <= msd -> 0 <= md -> 0 <= cb ->
  xunanswered (conn_init cl msd md cb) (peer_init msd md) ops = false.
Proof.
  intros Fl Flag cl msd md cb ops H1 H2 H3.
  apply (xunanswered_from Fl Flag); [apply CInv_init; assumption|apply Sim_init|apply MSim_init|apply AdvEq_init|apply XInv_init].
Qed.

(* the statement separates the two trees: on a tree that raises before start_frame() the three F-C07-4 witnesses are unanswered;
   on a tree that raises next to the written frame the same frames close the connection (conditional on the probed flag) *)
Lemma cut_witnesses_unanswered : RAISE_BEFORE_START_FRAME = true ->
  xunanswered (conn_init false 3000 2000 0) (peer_init 3000 2000) w_cut_data = true /\
  xunanswered (conn_init false 1000 4000 0) (peer_init 1000 4000) w_cut_stream = true /\
  xunanswered (conn_init false 1000 4000 0) (peer_init 1000 4000) w_cut_count = true.
Proof. intros Flag. split; [|split]; vm_compute; first [reflexivity | discriminate Flag]. Qed.

Example cut_witnesses_answered : RAISE_BEFORE_START_FRAME = false ->
  fst (xrun (conn_init false 3000 2000 0) w_cut_data) = [OOk (RData (zeros 1001) false); OWrote []; OErr E_FLOW_CONTROL_ERROR 14] /\
  fst (xrun (conn_init false 1000 4000 0) w_cut_stream) = [OOk (RData (zeros 600) false); OWrote []; OErr E_FLOW_CONTROL_ERROR 14] /\
  fst (xrun (conn_init false 1000 4000 0) w_cut_count) = [OOk RNone; OWrote []; OErr E_STREAM_LIMIT_ERROR 10] /\
  c_data (snd (xrun (conn_init false 3000 2000 0) [Plain (StreamFrame 10 0 0 (zeros 1001)); WriteCut 0 []])) = mkLimit 2000 1001 2000.
Proof. intros Flag. split; [|split; [|split]]; vm_compute; first [reflexivity | discriminate Flag]. Qed.
