(* List lemmas over Z-indexed take / drop / nth used by the stream proofs. *)
From Coq Require Import ZArith List Bool Lia ZifyBool.
From AQ Require Import lib.Base model.StreamRecv model.StreamSpec.

Lemma Zlen_nonneg {A} (l : list A) : 0 <= Zlen l.
Proof. unfold Zlen; lia. Qed.

Lemma Zlen_app {A} (l1 l2 : list A) : Zlen (l1 ++ l2) = Zlen l1 + Zlen l2.
Proof. unfold Zlen; rewrite app_length; lia. Qed.

Lemma Zlen_nil {A} : Zlen (@nil A) = 0. Proof. reflexivity. Qed.

Lemma Zlen_zero_nil {A} (l : list A) : Zlen l = 0 -> l = [].
Proof. destruct l; unfold Zlen; cbn; [reflexivity|lia]. Qed.

Lemma Zlen_ztake {A} (n : Z) (l : list A) : Zlen (ztake n l) = Z.max 0 (Z.min n (Zlen l)).
Proof. unfold Zlen, ztake. rewrite firstn_length. lia. Qed.

Lemma Zlen_zdrop {A} (n : Z) (l : list A) : Zlen (zdrop n l) = Z.max 0 (Zlen l - Z.max 0 n).
Proof. unfold Zlen, zdrop. rewrite skipn_length. lia. Qed.

Lemma Zlen_zeros n : Zlen (zeros n) = Z.max 0 n.
Proof. unfold Zlen, zeros. rewrite repeat_length. lia. Qed.

Lemma nthZ_app_l l1 l2 i : 0 <= i < Zlen l1 -> nthZ (l1 ++ l2) i = nthZ l1 i.
Proof. unfold nthZ, Zlen. intros H. apply app_nth1. lia. Qed.

Lemma nthZ_app_r l1 l2 i : Zlen l1 <= i -> nthZ (l1 ++ l2) i = nthZ l2 (i - Zlen l1).
Proof.
  unfold nthZ, Zlen. intros H. rewrite app_nth2 by lia. f_equal. lia.
Qed.

Lemma nthZ_ztake l n i : 0 <= i < n -> nthZ (ztake n l) i = nthZ l i.
Proof.
  unfold nthZ, ztake. intros H.
  assert (E : (Z.to_nat i < Z.to_nat n)%nat) by lia. revert E.
  generalize (Z.to_nat i) (Z.to_nat n). clear. intros i n. revert i l.
  induction n as [|n IH]; intros i l E; [lia|]. destruct l as [|a l]; cbn; [destruct i; reflexivity|].
  destruct i as [|i]; [reflexivity|]. apply IH. lia.
Qed.

Lemma nthZ_zdrop l n i : 0 <= n -> 0 <= i -> nthZ (zdrop n l) i = nthZ l (i + n).
Proof.
  unfold nthZ, zdrop. intros Hn Hi. replace (Z.to_nat (i + n)) with (Z.to_nat n + Z.to_nat i)%nat by lia.
  generalize (Z.to_nat i) (Z.to_nat n). clear. intros i n. revert l.
  induction n as [|n IH]; intros l; [reflexivity|]. destruct l as [|a l]; cbn [skipn Nat.add nth]; [destruct i; reflexivity|].
  apply IH.
Qed.

Lemma ztake_all {A} (l : list A) n : Zlen l <= n -> ztake n l = l.
Proof. unfold ztake, Zlen. intros H. apply firstn_all2. lia. Qed.

Lemma zdrop_all {A} (l : list A) n : Zlen l <= n -> zdrop n l = [].
Proof. unfold zdrop, Zlen. intros H. apply skipn_all2. lia. Qed.

Lemma zdrop_0 {A} (l : list A) n : n <= 0 -> zdrop n l = l.
Proof. unfold zdrop. intros H. replace (Z.to_nat n) with 0%nat by lia. reflexivity. Qed.

(* two lists with equal length and equal nthZ everywhere are equal *)
Lemma nthZ_ext l1 l2 : Zlen l1 = Zlen l2 -> (forall i, 0 <= i < Zlen l1 -> nthZ l1 i = nthZ l2 i) -> l1 = l2.
Proof.
  unfold nthZ, Zlen. intros HL H. apply (nth_ext _ _ 0 0); [lia|].
  intros n Hn. specialize (H (Z.of_nat n)). rewrite Nat2Z.id in H. apply H. lia.
Qed.

(* ---- splice ---- *)
Lemma Zlen_splice buf pos data : 0 <= pos -> Zlen (splice buf pos data) = Z.max (Zlen buf) (pos + Zlen data).
Proof.
  intros Hp. unfold splice. pose proof (Zlen_nonneg buf). pose proof (Zlen_nonneg data).
  destruct (pos - Zlen buf >? 0) eqn:E; rewrite !Zlen_app, Zlen_ztake, Zlen_zdrop, ?Zlen_app, ?Zlen_zeros; lia.
Qed.

Lemma nthZ_splice_mid buf pos data i : 0 <= pos -> pos <= i < pos + Zlen data ->
  nthZ (splice buf pos data) i = nthZ data (i - pos).
Proof.
  intros Hp Hi. unfold splice. pose proof (Zlen_nonneg buf).
  set (b := if pos - Zlen buf >? 0 then buf ++ zeros (pos - Zlen buf) else buf).
  assert (Hb : pos <= Zlen b).
  { unfold b. destruct (pos - Zlen buf >? 0) eqn:E; rewrite ?Zlen_app, ?Zlen_zeros; lia. }
  assert (Ht : Zlen (ztake pos b) = pos) by (rewrite Zlen_ztake; lia).
  rewrite nthZ_app_r by lia. rewrite Ht. rewrite nthZ_app_l by lia. reflexivity.
Qed.

Lemma nthZ_splice_before buf pos data i : 0 <= i < pos -> i < Zlen buf ->
  nthZ (splice buf pos data) i = nthZ buf i.
Proof.
  intros Hi Hl. unfold splice.
  set (b := if pos - Zlen buf >? 0 then buf ++ zeros (pos - Zlen buf) else buf).
  assert (Hb : pos <= Zlen b /\ nthZ b i = nthZ buf i).
  { unfold b. destruct (pos - Zlen buf >? 0) eqn:E; rewrite ?Zlen_app, ?Zlen_zeros; [split; [lia|]|split; [lia|reflexivity]].
    apply nthZ_app_l. lia. }
  destruct Hb as (Hb1 & Hb2).
  rewrite nthZ_app_l by (rewrite Zlen_ztake; lia). rewrite nthZ_ztake by lia. exact Hb2.
Qed.

Lemma nthZ_splice_after buf pos data i : 0 <= pos -> pos + Zlen data <= i < Zlen buf ->
  nthZ (splice buf pos data) i = nthZ buf i.
Proof.
  intros Hp Hi. unfold splice. pose proof (Zlen_nonneg data).
  assert (E : pos - Zlen buf >? 0 = false) by lia. rewrite E.
  assert (Ht : Zlen (ztake pos buf) = pos) by (rewrite Zlen_ztake; lia).
  rewrite nthZ_app_r by lia. rewrite Ht. rewrite nthZ_app_r by lia.
  rewrite nthZ_zdrop by lia. f_equal. lia.
Qed.

(* ---- run ---- *)
Lemma run_exact m : forall l o fuel,
  (forall i, 0 <= i < Zlen l -> m (o + i) = Some (nthZ l i)) ->
  m (o + Zlen l) = None -> (length l <= fuel)%nat ->
  run m o fuel = l.
Proof.
  induction l as [|a l IH]; intros o fuel H Hn Hf.
  - destruct fuel; [reflexivity|]. cbn. rewrite Zlen_nil, Z.add_0_r in Hn. rewrite Hn. reflexivity.
  - destruct fuel as [|fuel]; [cbn in Hf; lia|]. cbn [run].
    pose proof (H 0) as H0. rewrite Z.add_0_r in H0. rewrite H0 by (unfold Zlen; cbn; lia). unfold nthZ; cbn [Z.to_nat nth].
    f_equal. apply IH.
    + intros i Hi. replace (o + 1 + i) with (o + (i + 1)) by lia. rewrite H by (unfold Zlen in *; cbn [length]; lia).
      unfold nthZ. replace (Z.to_nat (i + 1)) with (S (Z.to_nat i)) by lia. reflexivity.
    + replace (o + 1 + Zlen l) with (o + Zlen (a :: l)); [exact Hn|]. unfold Zlen; cbn [length]; lia.
    + cbn in Hf; lia.
Qed.

Lemma run_none m o fuel : m o = None -> run m o fuel = [].
Proof. intros H. destruct fuel; cbn; [reflexivity|rewrite H; reflexivity]. Qed.
