(* C15: the per-stream refinement between H3Parse's parser state and what the application has been told
   (ghost of H3EventsSpec.v), for the frame handler, the frame loop and one delivery to a request / push stream,
   with the real validators plugged in (model/H3Events.v). *)
From Coq Require Import ZArith List Bool Lia ZifyBool.
From AQ Require Import lib.Base lib.Tok model.H3Validate proofs.H3ValidateSpec proofs.H3ValidateProofs proofs.H3StreamProofs.
From AQ Require Import model.H3Parse model.H3Events proofs.H3EventsSpec.
Import ListNotations.
Open Scope Z_scope.

Ltac simp_proj :=
  cbn [g_phase g_first g_body
       s_id s_buf s_cur s_session s_blocked H3Parse.s_ended H3Parse.s_hstate s_clen s_expect s_push s_stype s_btype s_bpush
       set_buf set_cur set_session set_blocked H3Parse.set_ended set_hstate set_clen set_expect set_push set_stype
       set_btype set_bpush] in *.

Lemma Zlen_nil0 : forall A, Zlen (@nil A) = 0.
Proof. reflexivity. Qed.
Lemma Zlen_ge0 : forall A (l : list A), 0 <= Zlen l.
Proof. intros. unfold Zlen. lia. Qed.

Section Ev.
Variable hdrs : Z -> list header.
Variable client : bool.
Variable fx : fixes.

(* ---------------------------------------------------------------- the refinement relation
   parser state of a stream  <->  summary of the events the application got for it *)
Definition sinv (g : ghost) (st : hstream) : Prop :=
  H3Parse.s_hstate st = g_phase g /\ s_clen st = g_body g /\
  ((g_phase g = 0 /\ g_first g = None /\ s_expect st = None)
   \/ ((g_phase g = 1 \/ g_phase g = 2)
       /\ exists hs, g_first g = Some hs /\ validate (rolekind client) hs = VOk (s_expect st))).

(* inside a DATA frame the message headers have been received *)
Definition cur_ok (st : hstream) : Prop := forall n, s_cur st = Some (0, n) -> H3Parse.s_hstate st = 1.

Lemma sinv_core : forall g st st',
  H3Parse.s_hstate st' = H3Parse.s_hstate st -> s_clen st' = s_clen st -> s_expect st' = s_expect st ->
  sinv g st -> sinv g st'.
Proof. unfold sinv. intros g st st' E1 E2 E3. rewrite E1, E2, E3. auto. Qed.

Lemma sinv_ext : forall g g' st,
  g_phase g' = g_phase g -> g_first g' = g_first g -> g_body g' = g_body g -> sinv g st -> sinv g' st.
Proof. unfold sinv. intros g g' st E1 E2 E3. rewrite E1, E2, E3. auto. Qed.

Lemma sinv_init : forall sid, sinv ginit (new_stream sid).
Proof. intro sid. unfold sinv. cbn. split; [reflexivity|]. split; [reflexivity|]. left. auto. Qed.

Lemma rolekind_hkind : hkind (if client then 1 else 0) = rolekind client.
Proof. destruct client; reflexivity. Qed.

Lemma real_val_ok : forall k hid cl, real_val hdrs k hid = (true, cl) -> validate (hkind k) (hdrs hid) = VOk cl.
Proof.
  unfold real_val. intros k hid cl H. destruct (validate (hkind k) (hdrs hid)) as [e| |]; inversion H. reflexivity.
Qed.

Lemma real_val_fst : forall k hid, fst (real_val hdrs k hid) = true -> exists cl, validate (hkind k) (hdrs hid) = VOk cl.
Proof.
  unfold real_val. intros k hid H. destruct (validate (hkind k) (hdrs hid)) as [e| |]; cbn in H; try discriminate.
  eexists; reflexivity.
Qed.

(* the end-of-stream check of the parser implies the property's content-length clause *)
Lemma sinv_end : forall g st, sinv g st -> check_cl st = true -> end_good g.
Proof.
  intros g st (Hh & Hc & [(P & F & E) | (P & hs0 & F & V)]) Hk hs n Hf Hd.
  - congruence.
  - rewrite Hf in F. inversion F; subst hs0.
    pose proof (validate_declares client hs _ n V Hd) as E.
    unfold check_cl in Hk. rewrite E in Hk. lia.
Qed.

(* ---------------------------------------------------------------- chains of events of one stream *)
Fixpoint chain (sid : Z) (g : ghost) (evs : list event) : Prop :=
  match evs with
  | [] => True
  | e :: t => ev_sid e = sid /\ ev_ok client hdrs g e /\ chain sid (gstep hdrs g e) t
  end.
Definition gl (g : ghost) (evs : list event) : ghost := fold_left (gstep hdrs) evs g.

Lemma gl_app : forall a b g, gl g (a ++ b) = gl (gl g a) b.
Proof. intros. unfold gl. apply fold_left_app. Qed.

Lemma chain_app : forall sid a b g, chain sid g a -> chain sid (gl g a) b -> chain sid g (a ++ b).
Proof.
  intros sid. induction a as [|e a IH]; intros b g Ha Hb; [exact Hb|].
  cbn [app chain] in *. destruct Ha as (H1 & H2 & H3). split; [exact H1|]. split; [exact H2|].
  apply IH; assumption.
Qed.

Lemma gstep_data : forall g s p d f,
  gstep hdrs g (H3Parse.EData s p d f) = mkG (g_phase g) (g_first g) (g_body g + Zlen d).
Proof. reflexivity. Qed.

(* DataReceived(b"", stream_ended=True) after a passed end-of-stream check *)
Lemma endmark_ok : forall g st sid p, sinv g st -> check_cl st = true ->
  ev_ok client hdrs g (H3Parse.EData sid p [] true) /\ sinv (gstep hdrs g (H3Parse.EData sid p [] true)) st.
Proof.
  intros g st sid p Hi Hk.
  assert (S1 : sinv (gstep hdrs g (H3Parse.EData sid p [] true)) st).
  { rewrite gstep_data. eapply sinv_ext; [| | |exact Hi]; cbn [g_phase g_first g_body]; try reflexivity.
    rewrite Zlen_nil0. lia. }
  split; [|exact S1]. split.
  - intro H. contradiction.
  - intros _. eapply sinv_end; [exact S1|exact Hk].
Qed.

Lemma endmark_inv : forall st ended evs0 evs st',
  endmark fx st ended evs0 = HVal evs st' ->
  st' = st /\ (evs = evs0 \/ (evs = evs0 ++ [H3Parse.EData (s_id st) (s_push st) [] true] /\ check_cl st = true)).
Proof.
  unfold endmark. intros st ended evs0 evs st' H. destruct (fx_endmark fx && ended).
  - destruct (check_cl st) eqn:E; [|discriminate]. inversion H; subst. auto.
  - inversion H; subst. auto.
Qed.

(* ---------------------------------------------------------------- _handle_request_or_push_frame *)
Lemma handle_post : forall Q t data st ended g evs st',
  sinv g st ->
  handle_rp_frame fx (with_validators hdrs Q) client t data st ended = HVal evs st' ->
  chain (s_id st) g evs /\ sinv (gl g evs) st'.
Proof.
  intros Q t data st ended g evs st' Hi H. unfold handle_rp_frame in H.
  destruct (t =? 0) eqn:T0.
  { (* DATA *)
    destruct (negb (H3Parse.s_hstate st =? 1)) eqn:H1; [discriminate|].
    set (st1 := match data with Some d => set_clen st (s_clen st + Zlen d) | None => st end) in *.
    set (d := match data with Some d => d | None => [] end) in *.
    assert (S1 : sinv (mkG (g_phase g) (g_first g) (g_body g + Zlen d)) st1).
    { destruct Hi as (Ih & Ic & Ir). unfold sinv. subst st1 d.
      destruct data as [d0|]; simp_proj; (split; [exact Ih|]); (split; [try rewrite Zlen_nil0; lia|]); exact Ir. }
    cbv zeta in H.
    destruct (ended && negb (check_cl st1)) eqn:EC; [discriminate|].
    destruct (ended || negb (is_nil d)) eqn:EV; inversion H; subst evs st'; clear H.
    - cbn [chain gl fold_left]. rewrite gstep_data. split; [|exact S1].
      split; [reflexivity|]. split; [|exact Logic.I]. split.
      + intros _. destruct Hi as (Ih & _). lia.
      + cbn [ev_fin]. intros ->. rewrite gstep_data. eapply sinv_end; [exact S1|].
        cbn [andb] in EC. destruct (check_cl st1); [reflexivity|discriminate].
    - split; [exact Logic.I|]. cbn [gl fold_left].
      assert (d = []) by (destruct d; [reflexivity|]; cbn in EV; destruct ended; discriminate).
      eapply sinv_ext; [| | |exact S1]; cbn [g_phase g_first g_body]; try reflexivity.
      rewrite H, Zlen_nil0. lia. }
  destruct (t =? 1) eqn:T1.
  { (* HEADERS *)
    destruct (H3Parse.s_hstate st =? 2) eqn:H2; [discriminate|].
    match type of H with context [match ?x with DHeaders _ => _ | DBlocked => _ | DFailed => _ end] =>
      destruct x as [hid| |] eqn:ED end; try discriminate.
    cbn [o_val with_validators] in H.
    match type of H with context [real_val hdrs ?k hid] => destruct (real_val hdrs k hid) as [ok cl] eqn:EV end.
    destruct ok; cbn [negb] in H; [|discriminate].
    apply real_val_ok in EV.
    destruct Hi as (Ih & Ic & Ir).
    destruct (H3Parse.s_hstate st =? 0) eqn:H0.
    - (* the message headers *)
      rewrite rolekind_hkind in EV.
      assert (P0 : g_phase g = 0) by lia.
      destruct Ir as [(_ & F & E) | ([P|P] & _)]; [|lia|lia].
      assert (S1 : sinv (mkG 1 (Some (hdrs hid)) (g_body g)) (set_hstate (set_expect st cl) 1)).
      { unfold sinv. simp_proj. split; [reflexivity|]. split; [exact Ic|]. right. split; [left; reflexivity|].
        exists (hdrs hid). split; [reflexivity|exact EV]. }
      assert (G1 : forall s p f, gstep hdrs g (H3Parse.EHeaders s p hid f) = mkG 1 (Some (hdrs hid)) (g_body g)).
      { intros. cbn [gstep]. replace (g_phase g =? 0) with true by lia. reflexivity. }
      destruct (ended && negb (check_cl (set_expect st cl))) eqn:EC; [discriminate|].
      inversion H; subst evs st'; clear H.
      cbn [chain gl fold_left]. rewrite G1. split; [|exact S1].
      split; [reflexivity|]. split; [|exact Logic.I]. split.
      + left. split; [exact P0|]. eapply validated_implies_wellformed_proof. exact EV.
      + cbn [ev_fin]. intros ->. rewrite G1. eapply sinv_end; [exact S1|].
        cbn [andb] in EC. unfold check_cl in *. simp_proj. destruct cl; [|reflexivity].
        destruct (s_clen st =? z); [reflexivity|discriminate].
    - (* trailers *)
      assert (P1 : g_phase g = 1).
      { destruct Ir as [(P & _) | ([P|P] & _)]; lia. }
      destruct Ir as [(P & _) | (_ & hs0 & F & V)]; [lia|].
      replace (hkind 2) with KTrailers in EV by reflexivity.
      assert (S1 : sinv (mkG 2 (g_first g) (g_body g)) (set_hstate st 2)).
      { unfold sinv. simp_proj. split; [reflexivity|]. split; [exact Ic|]. right. split; [right; reflexivity|].
        exists hs0. split; [exact F|exact V]. }
      assert (G1 : forall s p f, gstep hdrs g (H3Parse.EHeaders s p hid f) = mkG 2 (g_first g) (g_body g)).
      { intros. cbn [gstep]. replace (g_phase g =? 0) with false by lia. reflexivity. }
      destruct (ended && negb (check_cl st)) eqn:EC; [discriminate|].
      inversion H; subst evs st'; clear H.
      cbn [chain gl fold_left]. rewrite G1. split; [|exact S1].
      split; [reflexivity|]. split; [|exact Logic.I]. split.
      + right. split; [exact P1|]. eapply validated_implies_wellformed_proof. exact EV.
      + cbn [ev_fin]. intros ->. rewrite G1. eapply sinv_end; [exact S1|].
        cbn [andb] in EC. unfold check_cl in *. simp_proj.
        destruct (s_expect st); [|reflexivity]. destruct (s_clen st =? z); [reflexivity|discriminate]. }
  (* PUSH_PROMISE and everything else: at most a promise event followed by the end marker *)
  assert (TAIL : forall st0 ended0 evs0,
            sinv g st0 -> s_id st0 = s_id st -> chain (s_id st) g evs0 -> gl g evs0 = g ->
            endmark fx st0 ended0 evs0 = HVal evs st' -> chain (s_id st) g evs /\ sinv (gl g evs) st').
  { intros st0 ended0 evs0 Hi0 Hid Hc Hg He. apply endmark_inv in He. destruct He as (-> & [->|(-> & Hk)]).
    - rewrite Hg. auto.
    - destruct (endmark_ok g st0 (s_id st0) (s_push st0) Hi0 Hk) as (O1 & O2).
      split.
      + apply chain_app; [exact Hc|]. rewrite Hg. cbn [chain]. split; [exact Hid|]. split; [exact O1|exact Logic.I].
      + rewrite gl_app, Hg. cbn [gl fold_left]. exact O2. }
  destruct ((t =? 5) && is_none (s_push st)) eqn:T5.
  { destruct (negb client) eqn:CL; [discriminate|].
    assert (client = true) by (destruct client; [reflexivity|discriminate]).
    assert (PE : forall pid hid, fst (real_val hdrs 3 hid) = true ->
              chain (s_id st) g [EPush (s_id st) pid hid] /\ gl g [EPush (s_id st) pid hid] = g).
    { intros pid hid Hv. apply real_val_fst in Hv. destruct Hv as (cl & Hv).
      replace (hkind 3) with KPushPromise in Hv by reflexivity.
      split; [|reflexivity]. cbn [chain]. split; [reflexivity|]. split; [|exact Logic.I]. split.
      - split; [assumption|]. eapply validated_implies_wellformed_proof. exact Hv.
      - cbn [ev_fin]. discriminate. }
    destruct data as [d|].
    - destruct (pull_uint_var d) as [[pid rest]|]; [|destruct (fx_pushpromise fx); discriminate].
      match type of H with context [match ?x with DHeaders _ => _ | DBlocked => _ | DFailed => _ end] =>
        destruct x as [hid| |] eqn:ED end; try discriminate.
      cbn [o_val with_validators] in H.
      destruct (negb (fst (real_val hdrs 3 hid))) eqn:EV; [discriminate|].
      assert (Hv : fst (real_val hdrs 3 hid) = true) by (destruct (fst (real_val hdrs 3 hid)); [reflexivity|discriminate]).
      destruct (PE pid hid Hv) as (C1 & G1).
      destruct (fx_pushblock fx); simp_proj.
      + eapply TAIL; [| | | |exact H]; simp_proj; try reflexivity; assumption.
      + eapply TAIL; [| | | |exact H]; simp_proj; try reflexivity; assumption.
    - destruct (fx_pushblock fx); [|destruct (fx_pushpromise fx); discriminate].
      match type of H with context [match ?x with DHeaders _ => _ | DBlocked => _ | DFailed => _ end] =>
        destruct x as [hid| |] eqn:ED end; try discriminate.
      cbn [o_val with_validators] in H.
      destruct (negb (fst (real_val hdrs 3 hid))) eqn:EV; [discriminate|].
      assert (Hv : fst (real_val hdrs 3 hid) = true) by (destruct (fst (real_val hdrs 3 hid)); [reflexivity|discriminate]).
      destruct (PE (match s_bpush st with Some p => p | None => -1 end) hid Hv) as (C1 & G1).
      eapply TAIL; [| | | |exact H]; try reflexivity; assumption. }
  destruct (unexpected_rp t); [discriminate|].
  eapply TAIL; [| | | |exact H]; try reflexivity; try assumption.
Qed.


(* ---------------------------------------------------------------- what the handler leaves alone *)
Ltac brk H :=
  repeat (match type of H with
  | context [if ?c then _ else _] => destruct c eqn:?
  | context [match ?c with Some _ => _ | None => _ end] => destruct c eqn:?
  | context [match ?c with DHeaders _ => _ | DBlocked => _ | DFailed => _ end] => destruct c eqn:?
  | context [match ?c with pair _ _ => _ end] => destruct c eqn:?
  end; try discriminate H).

Lemma handle_frame : forall O t data st ended evs st',
  handle_rp_frame fx O client t data st ended = HVal evs st' ->
  s_id st' = s_id st /\ s_cur st' = s_cur st /\ H3Parse.s_ended st' = H3Parse.s_ended st
  /\ (t = 0 -> H3Parse.s_hstate st' = 1)
  /\ s_blocked st' = s_blocked st /\ s_btype st' = s_btype st
  /\ (t <> 1 -> H3Parse.s_hstate st' = H3Parse.s_hstate st).
Proof.
  intros O t data st ended evs st' H. unfold handle_rp_frame, endmark in H.
  brk H; inversion H; subst; simp_proj; repeat split; try reflexivity; intros; lia.
Qed.

Lemma handle_blocked : forall O t data st ended st',
  handle_rp_frame fx O client t data st ended = HBlocked st' ->
  H3Parse.s_hstate st' = H3Parse.s_hstate st /\ s_clen st' = s_clen st /\ s_expect st' = s_expect st
  /\ s_id st' = s_id st /\ s_cur st' = s_cur st /\ H3Parse.s_ended st' = H3Parse.s_ended st /\ t <> 0
  /\ s_blocked st' = s_blocked st /\ s_btype st' = s_btype st.
Proof.
  intros O t data st ended st' H. unfold handle_rp_frame, endmark in H.
  brk H; inversion H; subst; simp_proj; repeat split; try reflexivity; lia.
Qed.

End Ev.
