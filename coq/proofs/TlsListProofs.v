(* Generic facts about model/TlsCodec.v used by the per-message round trips:
   - the tree encoder: enc_seq t = Ok bytes  <->  every block fits its length prefix, bytes = flat_seq t
   - pull_fold / pull_list: fuel independence (every item consumes at least one byte)
   - pull_fold / pull_list on an encoded list
   - the extension loop on an encoded extension list *)
From AQ Require Import lib.Base model.Codec model.TlsCodec proofs.CodecProofs proofs.HeaderProofs
  proofs.TlsCodecProofs.
From Coq Require Import ZifyBool.

(* ================= the tree encoder ======================================================= *)
Definition flat_seq_with (f : tv -> list Z) (l : list tv) : list Z := flat_map f l.

Fixpoint flat_tv (t : tv) : list Z :=
  match t with
  | TInt w v => be_enc w v
  | TBytes b => b
  | TBlock cap items =>
      let body := (fix go (l : list tv) : list Z :=
                     match l with [] => [] | x :: r => flat_tv x ++ go r end) items in
      be_enc cap (Zlen body) ++ body
  end.

Definition flat_seq (l : list tv) : list Z := flat_map flat_tv l.

Fixpoint fits_tv (t : tv) : bool :=
  match t with
  | TInt _ _ => true
  | TBytes _ => true
  | TBlock cap items =>
      (fix go (l : list tv) : bool := match l with [] => true | x :: r => fits_tv x && go r end) items
      && (Zlen (flat_seq items) <? 256 ^ Z.of_nat cap)
  end.

Definition fits_seq (l : list tv) : bool := forallb fits_tv l.

Lemma flat_block cap items :
  flat_tv (TBlock cap items) = be_enc cap (Zlen (flat_seq items)) ++ flat_seq items.
Proof.
  reflexivity.
Qed.

Lemma fits_block cap items :
  fits_tv (TBlock cap items) = fits_seq items && (Zlen (flat_seq items) <? 256 ^ Z.of_nat cap).
Proof.
  reflexivity.
Qed.

Lemma flat_seq_app a b : flat_seq (a ++ b) = flat_seq a ++ flat_seq b.
Proof. apply flat_map_app. Qed.

Lemma fits_seq_app a b : fits_seq (a ++ b) = fits_seq a && fits_seq b.
Proof. apply forallb_app. Qed.

Lemma flat_seq_cons x l : flat_seq (x :: l) = flat_tv x ++ flat_seq l.
Proof. reflexivity. Qed.

Lemma fits_seq_cons x l : fits_seq (x :: l) = fits_tv x && fits_seq l.
Proof. reflexivity. Qed.

Lemma flat_seq_flat_map {X} (f : X -> list tv) xs :
  flat_seq (flat_map f xs) = flat_map (fun x => flat_seq (f x)) xs.
Proof.
  induction xs as [|x t IH]; [reflexivity|]. cbn [flat_map]. now rewrite flat_seq_app, IH.
Qed.

Lemma fits_seq_flat_map {X} (f : X -> list tv) xs :
  fits_seq (flat_map f xs) = forallb (fun x => fits_seq (f x)) xs.
Proof.
  induction xs as [|x t IH]; [reflexivity|]. cbn [flat_map forallb]. now rewrite fits_seq_app, IH.
Qed.

(* nested induction over trees *)
Fixpoint tv_rect' (P : tv -> Prop) (Hi : forall w v, P (TInt w v)) (Hb : forall b, P (TBytes b))
  (Hk : forall cap items, Forall P items -> P (TBlock cap items)) (t : tv) : P t :=
  match t with
  | TInt w v => Hi w v
  | TBytes b => Hb b
  | TBlock cap items =>
      Hk cap items ((fix go (l : list tv) : Forall P l :=
                       match l with
                       | [] => Forall_nil P
                       | x :: r => Forall_cons x (tv_rect' P Hi Hb Hk x) (go r)
                       end) items)
  end.

Definition enc_spec (r : Res (list Z)) (fits : bool) (flat : list Z) : Prop :=
  r = if fits then Ok flat else Err E_OVERFLOW.

Lemma enc_seq_spec_of l : Forall (fun t => enc_spec (enc_tv t) (fits_tv t) (flat_tv t)) l ->
  enc_spec (enc_seq l) (fits_seq l) (flat_seq l).
Proof.
  unfold enc_spec. induction 1 as [|x r Hx _ IH]; [reflexivity|].
  cbn [enc_seq fits_seq forallb flat_seq flat_map]. rewrite Hx. fold (fits_seq r) (flat_seq r).
  destruct (fits_tv x); cbn [bind andb]; [|reflexivity].
  rewrite IH. destruct (fits_seq r); reflexivity.
Qed.

Lemma enc_tv_block_seq cap items :
  enc_tv (TBlock cap items) =
  (body <- enc_seq items ;;
   if Zlen body >=? 256 ^ Z.of_nat cap then Err E_OVERFLOW else Ok (be_enc cap (Zlen body) ++ body)).
Proof.
  cbn [enc_tv].
  assert (E : (fix go (l : list tv) : Res (list Z) :=
                 match l with [] => Ok [] | x :: r => a <- enc_tv x ;; b <- go r ;; Ok (a ++ b) end) items
              = enc_seq items).
  { induction items as [|x r IH]; [reflexivity|]. cbn [enc_seq]. now rewrite IH. }
  now rewrite E.
Qed.

Lemma enc_tv_spec t : enc_spec (enc_tv t) (fits_tv t) (flat_tv t).
Proof.
  induction t as [w v|b|cap items IH] using tv_rect'; [reflexivity|reflexivity|].
  unfold enc_spec. rewrite enc_tv_block_seq, fits_block, flat_block.
  rewrite (enc_seq_spec_of items IH).
  destruct (fits_seq items); cbn [bind andb]; [|reflexivity].
  destruct (Zlen (flat_seq items) >=? 256 ^ Z.of_nat cap) eqn:E1,
           (Zlen (flat_seq items) <? 256 ^ Z.of_nat cap) eqn:E2; try reflexivity; lia.
Qed.

(* the encoder succeeds iff every block fits; the bytes are the flattened tree *)
Theorem enc_seq_spec l : enc_seq l = if fits_seq l then Ok (flat_seq l) else Err E_OVERFLOW.
Proof. apply enc_seq_spec_of. apply Forall_forall. intros t _. apply enc_tv_spec. Qed.

Lemma enc_seq_ok l bytes : enc_seq l = Ok bytes -> fits_seq l = true /\ bytes = flat_seq l.
Proof.
  rewrite enc_seq_spec. destruct (fits_seq l); [|discriminate]. intros H. injection H as <-. auto.
Qed.

(* the only way the encoder fails *)
Theorem enc_seq_total l : (exists bytes, enc_seq l = Ok bytes) \/ enc_seq l = Err E_OVERFLOW.
Proof. rewrite enc_seq_spec. destruct (fits_seq l); eauto. Qed.

(* ================= consumed lengths ========================================================== *)
Lemma pull_be_len n bs v r : pull_be n bs = Ok (v, r) -> length bs = (n + length r)%nat.
Proof.
  unfold pull_be, Zlen. destruct (Z.of_nat (length bs) <? Z.of_nat n) eqn:E; [discriminate|].
  intros H. injection H as _ <-. rewrite skipn_length. lia.
Qed.

Lemma pull_bytes_len n bs v r : pull_bytes n bs = Ok (v, r) ->
  0 <= n /\ length bs = (Z.to_nat n + length r)%nat /\ Zlen v = n.
Proof.
  unfold pull_bytes, Zlen. destruct ((n <? 0) || (Z.of_nat (length bs) <? n)) eqn:E; [discriminate|].
  intros H. injection H as <- <-. unfold zdrop, ztake. rewrite skipn_length, firstn_length. lia.
Qed.

Definition mono_body {A} (body : Z -> list Z -> Res (A * list Z)) : Prop :=
  forall len b v r, body len b = Ok (v, r) -> (length r <= length b)%nat.

Ltac bind_inv H :=
  match type of H with
  | bind ?r _ = Ok _ =>
      let E := fresh "E" in destruct r as [[? ?]|?] eqn:E; cbn [bind] in H; [|discriminate H]
  end.

Lemma pull_block_shrinks {A} cap (body : Z -> list Z -> Res (A * list Z)) bs v r : mono_body body ->
  pull_block cap body bs = Ok (v, r) -> (cap + length r <= length bs)%nat.
Proof.
  intros M H. unfold pull_block in H. bind_inv H. bind_inv H.
  destruct (Zlen l - Zlen l0 =? z); [|discriminate]. injection H as _ <-.
  apply pull_be_len in E. apply M in E0. lia.
Qed.

(* ================= pull_fold: fuel independence ================================================== *)
Definition item_progress {S} (item : S -> list Z -> Res (S * list Z)) : Prop :=
  forall st bs st' bs', item st bs = Ok (st', bs') -> (length bs' < length bs)%nat.

Lemma pull_fold_fuel_eq {S} (item : S -> list Z -> Res (S * list Z)) : item_progress item ->
  forall f1 f2 rem st bs, (length bs <= f1)%nat -> (length bs <= f2)%nat ->
  pull_fold item f1 rem st bs = pull_fold item f2 rem st bs.
Proof.
  intros P. induction f1 as [|f1 IH]; intros [|f2] rem st bs L1 L2; cbn [pull_fold];
    destruct (rem <=? 0); try reflexivity.
  - destruct (item st bs) as [[st1 b1]|k] eqn:E; cbn [bind]; [|reflexivity].
    apply P in E. lia.
  - destruct (item st bs) as [[st1 b1]|k] eqn:E; cbn [bind]; [|reflexivity].
    apply P in E. lia.
  - destruct (item st bs) as [[st1 b1]|k] eqn:E; cbn [bind]; [|reflexivity].
    apply P in E. apply IH; lia.
Qed.

(* the fuel pull_list really uses (the number of bytes left) can be replaced by any larger one *)
Theorem pull_fold_fuel {S} (item : S -> list Z -> Res (S * list Z)) : item_progress item ->
  forall fuel rem st bs, (length bs <= fuel)%nat ->
  pull_fold item fuel rem st bs = pull_fold item (length bs) rem st bs.
Proof. intros P fuel rem st bs L. apply pull_fold_fuel_eq; auto. Qed.

Theorem pull_list_fuel {S} cap (item : S -> list Z -> Res (S * list Z)) : item_progress item ->
  forall fuel st bs, (length bs <= fuel)%nat ->
  pull_block cap (fun len b => pull_fold item fuel len st b) bs = pull_list cap item st bs.
Proof.
  intros P fuel st bs L. unfold pull_list, pull_block.
  destruct (pull_be cap bs) as [[len b1]|k] eqn:E; cbn [bind]; [|reflexivity].
  apply pull_be_len in E. rewrite (pull_fold_fuel item P fuel len st b1) by lia. reflexivity.
Qed.

Lemma pull_fold_shrinks {S} (item : S -> list Z -> Res (S * list Z)) : item_progress item ->
  forall fuel rem st bs st' r, pull_fold item fuel rem st bs = Ok (st', r) -> (length r <= length bs)%nat.
Proof.
  intros P. induction fuel as [|f IH]; intros rem st bs st' r; cbn [pull_fold];
    destruct (rem <=? 0).
  - intros H. injection H as _ <-. lia.
  - destruct (item st bs) as [[st1 b1]|k]; cbn [bind]; discriminate.
  - intros H. injection H as _ <-. lia.
  - destruct (item st bs) as [[st1 b1]|k] eqn:E; cbn [bind]; [|discriminate].
    intros H. apply IH in H. apply P in E. lia.
Qed.

(* every list item of tls.py consumes at least one byte *)

Lemma item_uint_progress w : (1 <= w)%nat -> item_progress (item_uint w).
Proof.
  intros Hw st bs st' bs' H. unfold item_uint in H. bind_inv H. injection H as _ <-.
  apply pull_be_len in E. lia.
Qed.

Lemma pull_opaque_shrinks cap bs d r : pull_opaque cap bs = Ok (d, r) -> (cap + length r <= length bs)%nat.
Proof.
  apply pull_block_shrinks. intros len b v r' H. apply pull_bytes_len in H. lia.
Qed.

Lemma pull_list_shrinks {S} cap (item : S -> list Z -> Res (S * list Z)) st bs st' r : item_progress item ->
  pull_list cap item st bs = Ok (st', r) -> (cap + length r <= length bs)%nat.
Proof.
  intros P. apply pull_block_shrinks. intros len b v r' H. eapply pull_fold_shrinks; eauto.
Qed.

Lemma item_key_share_progress : item_progress item_key_share.
Proof.
  intros st bs st' bs' H. unfold item_key_share, pull_uint16 in H. bind_inv H. bind_inv H.
  injection H as _ <-. apply pull_be_len in E. apply pull_opaque_shrinks in E0. lia.
Qed.

Lemma item_alpn_progress : item_progress item_alpn.
Proof.
  intros st bs st' bs' H. unfold item_alpn in H. bind_inv H.
  injection H as _ <-. apply pull_opaque_shrinks in E. lia.
Qed.

Lemma item_psk_identity_progress : item_progress item_psk_identity.
Proof.
  intros st bs st' bs' H. unfold item_psk_identity, pull_uint32 in H. bind_inv H. bind_inv H.
  injection H as _ <-. apply pull_opaque_shrinks in E. apply pull_be_len in E0. lia.
Qed.

Lemma item_opaque_progress cap : (1 <= cap)%nat -> item_progress (item_opaque cap).
Proof.
  intros Hc st bs st' bs' H. unfold item_opaque in H. bind_inv H.
  injection H as _ <-. apply pull_opaque_shrinks in E. lia.
Qed.

Lemma item_certificate_entry_progress : item_progress item_certificate_entry.
Proof.
  intros st bs st' bs' H. unfold item_certificate_entry in H. bind_inv H. bind_inv H.
  injection H as _ <-. apply pull_opaque_shrinks in E. apply pull_opaque_shrinks in E0. lia.
Qed.

(* the extension item: 4 bytes of type and length, then a known-extension parser that does not grow
   the buffer, or pull_bytes *)
Definition parse_mono (parse : Z -> Z -> list Z -> option (Res (list Z * list Z))) : Prop :=
  forall ty len b toks r, parse ty len b = Some (Ok (toks, r)) -> (length r <= length b)%nat.

Lemma ext_item_progress parse ch : parse_mono parse -> item_progress (ext_item parse ch).
Proof.
  intros M st bs st' bs' H. unfold ext_item, pull_uint16 in H.
  destruct (ch && e_psk st); [discriminate|]. bind_inv H. bind_inv H.
  apply pull_be_len in E. apply pull_be_len in E0.
  destruct (parse z z0 l0) as [r|] eqn:Ep.
  - destruct r as [[toks b3]|k]; cbn [bind] in H; [|discriminate]. injection H as _ <-.
    apply M in Ep. lia.
  - bind_inv H. injection H as _ <-. apply pull_bytes_len in E1. lia.
Qed.

Lemma list_toks_shrinks cap item bs toks r : item_progress item ->
  list_toks cap item bs = Ok (toks, r) -> (cap + length r <= length bs)%nat.
Proof.
  intros P H. unfold list_toks in H. bind_inv H. injection H as _ <-.
  apply pull_list_shrinks in E; assumption.
Qed.

Lemma parse_server_hello_ext_mono : parse_mono parse_server_hello_ext.
Proof.
  intros ty len b toks r H. unfold parse_server_hello_ext, pull_uint16 in H.
  destruct (ty =? 43); [injection H as H; bind_inv H; injection H as _ <-; apply pull_be_len in E; lia|].
  destruct (ty =? 51); [injection H as H; bind_inv H; bind_inv H; injection H as _ <-;
                        apply pull_be_len in E; apply pull_opaque_shrinks in E0; lia|].
  destruct (ty =? 41); [injection H as H; bind_inv H; injection H as _ <-; apply pull_be_len in E; lia|].
  discriminate.
Qed.

Lemma parse_nst_ext_mono : parse_mono parse_nst_ext.
Proof.
  intros ty len b toks r H. unfold parse_nst_ext, pull_uint32 in H.
  destruct (ty =? 42); [injection H as H; bind_inv H; injection H as _ <-; apply pull_be_len in E; lia|].
  discriminate.
Qed.

Lemma parse_cr_ext_mono : parse_mono parse_cr_ext.
Proof.
  intros ty len b toks r H. unfold parse_cr_ext in H.
  destruct (ty =? 13); [injection H as H; apply list_toks_shrinks in H; [lia|apply item_uint_progress; lia]|].
  discriminate.
Qed.

Lemma parse_ee_ext_mono : parse_mono parse_ee_ext.
Proof.
  intros ty len b toks r H. unfold parse_ee_ext in H.
  destruct (ty =? 16).
  { injection H as H. bind_inv H. apply pull_list_shrinks in E; [|apply item_alpn_progress].
    destruct (fst a =? 0); [discriminate|]. destruct (snd a); [discriminate|]. injection H as _ <-. lia. }
  destruct (ty =? 42); [injection H as _ <-; lia|]. discriminate.
Qed.

Lemma pull_server_name_shrinks bs d r : pull_server_name bs = Ok (d, r) -> (length r <= length bs)%nat.
Proof.
  intros H. apply pull_block_shrinks in H; [lia|].
  intros len b v r' H'. unfold pull_uint8 in H'. bind_inv H'. destruct (negb (z =? 0)); [discriminate|].
  bind_inv H'. destruct (is_ascii l0); [|discriminate]. injection H' as _ <-.
  apply pull_be_len in E. apply pull_opaque_shrinks in E0. lia.
Qed.

Lemma parse_client_hello_ext_mono : parse_mono parse_client_hello_ext.
Proof.
  intros ty len b toks r H. unfold parse_client_hello_ext in H.
  destruct (ty =? 51); [injection H as H; apply list_toks_shrinks in H; [lia|apply item_key_share_progress]|].
  destruct (ty =? 43); [injection H as H; apply list_toks_shrinks in H; [lia|apply item_uint_progress; lia]|].
  destruct (ty =? 13); [injection H as H; apply list_toks_shrinks in H; [lia|apply item_uint_progress; lia]|].
  destruct (ty =? 10); [injection H as H; apply list_toks_shrinks in H; [lia|apply item_uint_progress; lia]|].
  destruct (ty =? 45); [injection H as H; apply list_toks_shrinks in H; [lia|apply item_uint_progress; lia]|].
  destruct (ty =? 0); [injection H as H; bind_inv H; injection H as _ <-; apply pull_server_name_shrinks in E; lia|].
  destruct (ty =? 16); [injection H as H; apply list_toks_shrinks in H; [lia|apply item_alpn_progress]|].
  destruct (ty =? 42); [injection H as _ <-; lia|].
  destruct (ty =? 41).
  { injection H as H. bind_inv H. bind_inv H. injection H as _ <-.
    apply list_toks_shrinks in E; [|apply item_psk_identity_progress].
    apply list_toks_shrinks in E0; [|apply item_opaque_progress; lia]. lia. }
  discriminate.
Qed.

(* ================= pull_fold / pull_list on an encoded list ======================================== *)
Section FoldEnc.
  Context {S X : Type}.
  Variable item : S -> list Z -> Res (S * list Z).
  Variable enc : X -> list Z.
  Variable step : S -> X -> S.
  Variable ok : S -> X -> Prop.
  Hypothesis item_enc : forall st x rest, ok st x -> item st (enc x ++ rest) = Ok (step st x, rest).
  Hypothesis enc_nonempty : forall st x, ok st x -> (1 <= length (enc x))%nat.

  Fixpoint chain (st : S) (xs : list X) : Prop :=
    match xs with [] => True | x :: t => ok st x /\ chain (step st x) t end.

  Lemma pull_fold_enc xs : forall st fuel rest, chain st xs -> (length xs <= fuel)%nat ->
    pull_fold item fuel (Zlen (flat_map enc xs)) st (flat_map enc xs ++ rest) = Ok (fold_left step xs st, rest).
  Proof.
    induction xs as [|x t IH]; intros st fuel rest C L.
    - destruct fuel; reflexivity.
    - destruct C as [Cx Ct]. destruct fuel as [|f]; [cbn [length] in L; lia|].
      cbn [flat_map]. rewrite Zlen_app. pose proof (enc_nonempty st x Cx) as N.
      pose proof (Zlen_nonneg (flat_map enc t)) as Ht.
      cbn [pull_fold]. destruct (Zlen (enc x) + Zlen (flat_map enc t) <=? 0) eqn:E; [unfold Zlen in *; lia|].
      rewrite <- app_assoc. rewrite (item_enc st x _ Cx). cbn [bind fold_left].
      replace (Zlen (enc x) + Zlen (flat_map enc t) - (Zlen (enc x ++ flat_map enc t ++ rest) - Zlen (flat_map enc t ++ rest)))
        with (Zlen (flat_map enc t)) by (rewrite (Zlen_app (enc x)); lia).
      apply IH; [exact Ct|cbn [length] in L; lia].
  Qed.

  Lemma flat_map_enc_length xs st : chain st xs -> (length xs <= length (flat_map enc xs))%nat.
  Proof.
    revert st. induction xs as [|x t IH]; intros st C; [cbn; lia|].
    destruct C as [Cx Ct]. cbn [flat_map length]. rewrite app_length.
    pose proof (enc_nonempty st x Cx). specialize (IH _ Ct). lia.
  Qed.

  Lemma pull_list_enc cap xs st rest : chain st xs -> Zlen (flat_map enc xs) < 256 ^ Z.of_nat cap ->
    pull_list cap item st (be_enc cap (Zlen (flat_map enc xs)) ++ flat_map enc xs ++ rest)
    = Ok (fold_left step xs st, rest).
  Proof.
    intros C L. unfold pull_list. apply pull_block_enc; [exact L|].
    apply pull_fold_enc; [exact C|]. rewrite app_length. pose proof (flat_map_enc_length xs st C). lia.
  Qed.
End FoldEnc.

(* lists whose items add tokens to an accumulator *)
Lemma fold_acc_add {X} (tok : X -> list Z) xs : forall a,
  fold_left (fun a x => acc_add a (tok x)) xs a = (fst a + Zlen xs, snd a ++ flat_map tok xs).
Proof.
  induction xs as [|x t IH]; intros [n toks]; cbn [fold_left fst snd flat_map].
  - change (Zlen (@nil X)) with 0. now rewrite Z.add_0_r, app_nil_r.
  - rewrite IH. unfold acc_add. cbn [fst snd]. rewrite Zlen_cons, <- app_assoc. f_equal. lia.
Qed.

Section ListToks.
  Context {X : Type}.
  Variable item : acc -> list Z -> Res (acc * list Z).
  Variable tree : X -> list tv.
  Variable tok : X -> list Z.
  Variable okx : X -> Prop.
  (* the item decoder inverts the item encoder when the item's own blocks fit their prefixes *)
  Hypothesis item_enc : forall a x rest, okx x -> fits_seq (tree x) = true ->
    item a (flat_seq (tree x) ++ rest) = Ok (acc_add a (tok x), rest).
  Hypothesis tree_nonempty : forall x, (1 <= length (flat_seq (tree x)))%nat.

  Lemma chain_forall xs : Forall okx xs -> forallb (fun x => fits_seq (tree x)) xs = true -> forall a,
    chain (fun a x => acc_add a (tok x)) (fun _ x => okx x /\ fits_seq (tree x) = true) a xs.
  Proof.
    induction 1 as [|x t Hx _ IH]; intros W a; cbn [chain]; auto.
    cbn [forallb] in W. apply andb_prop in W as [W1 W2]. auto.
  Qed.

  Lemma list_toks_enc cap xs rest : Forall okx xs ->
    fits_tv (TBlock cap (flat_map tree xs)) = true ->
    list_toks cap item (flat_tv (TBlock cap (flat_map tree xs)) ++ rest) = Ok (Zlen xs :: flat_map tok xs, rest).
  Proof.
    intros F W. rewrite fits_block in W. apply andb_prop in W as [W1 W].
    rewrite fits_seq_flat_map in W1.
    rewrite flat_block, flat_seq_flat_map in *. unfold list_toks.
    rewrite <- app_assoc.
    rewrite (pull_list_enc item (fun x => flat_seq (tree x)) (fun a x => acc_add a (tok x))
                           (fun _ x => okx x /\ fits_seq (tree x) = true));
      [| intros st x r [H1 H2]; now apply item_enc | intros; apply tree_nonempty | now apply chain_forall | lia ].
    cbn [bind]. rewrite fold_acc_add. reflexivity.
  Qed.
End ListToks.

(* ---- the item encodings ----------------------------------------------------------------------------- *)
Lemma flat_opaque cap d : flat_tv (t_opaque cap d) = be_enc cap (Zlen d) ++ d.
Proof. unfold t_opaque. rewrite flat_block. cbn [flat_seq flat_map flat_tv]. now rewrite app_nil_r. Qed.

Lemma fits_opaque cap d : fits_tv (t_opaque cap d) = (Zlen d <? 256 ^ Z.of_nat cap).
Proof. unfold t_opaque. rewrite fits_block. cbn [fits_seq forallb fits_tv flat_seq flat_map flat_tv]. now rewrite app_nil_r. Qed.

Lemma pull_opaque_enc cap d rest : Zlen d < 256 ^ Z.of_nat cap ->
  pull_opaque cap (be_enc cap (Zlen d) ++ d ++ rest) = Ok (d, rest).
Proof. intros L. unfold pull_opaque. apply pull_block_enc; [exact L|]. apply pull_bytes_app. Qed.

(* push_opaque read by pull_opaque, in tree form *)
Lemma pull_opaque_tv cap d rest : fits_tv (t_opaque cap d) = true ->
  pull_opaque cap (flat_tv (t_opaque cap d) ++ rest) = Ok (d, rest).
Proof. rewrite fits_opaque, flat_opaque, <- app_assoc. intros W. apply pull_opaque_enc. lia. Qed.

Definition u_ok (w : nat) (v : Z) : Prop := 0 <= v < 256 ^ Z.of_nat w.

Lemma item_uint_enc w a v rest : u_ok w v ->
  item_uint w a (flat_seq [TInt w v] ++ rest) = Ok (acc_add a [v], rest).
Proof.
  intros Hv. cbn [flat_seq flat_map flat_tv]. rewrite app_nil_r. unfold item_uint.
  rewrite pull_be_roundtrip by exact Hv. reflexivity.
Qed.

(* push_list(buf, cap, push_uintW, l) read by pull_list(buf, cap, pull_uintW) *)
Lemma uints_enc cap w l rest : (1 <= w)%nat -> Forall (u_ok w) l -> fits_tv (t_uints cap w l) = true ->
  list_toks cap (item_uint w) (flat_tv (t_uints cap w l) ++ rest) = Ok (dump_ints l, rest).
Proof.
  intros Hw F W. unfold t_uints, dump_ints, dump_list.
  apply (list_toks_enc (item_uint w) (fun v => [TInt w v]) (fun v => [v]) (u_ok w)); auto.
  - intros a x r Hx _. now apply item_uint_enc.
  - intros x. cbn [flat_seq flat_map flat_tv]. rewrite app_nil_r, be_enc_length. exact Hw.
Qed.

Lemma fits_single t : fits_seq [t] = fits_tv t.
Proof. cbn [fits_seq forallb]. apply andb_true_r. Qed.

Lemma flat_single t : flat_seq [t] = flat_tv t.
Proof. cbn [flat_seq flat_map]. apply app_nil_r. Qed.

Lemma item_opaque_enc cap a d rest : fits_seq [t_opaque cap d] = true ->
  item_opaque cap a (flat_seq [t_opaque cap d] ++ rest) = Ok (acc_add a (out_bytes d), rest).
Proof.
  rewrite fits_single, flat_single. intros W. unfold item_opaque.
  rewrite pull_opaque_tv by exact W. reflexivity.
Qed.

Lemma opaque_nonempty cap d : (1 <= cap)%nat -> (1 <= length (flat_seq [t_opaque cap d]))%nat.
Proof. intros Hc. rewrite flat_single, flat_opaque, app_length, be_enc_length. lia. Qed.

Lemma opaques_enc cap lcap l rest : (1 <= lcap)%nat -> fits_tv (t_opaques cap lcap l) = true ->
  list_toks cap (item_opaque lcap) (flat_tv (t_opaques cap lcap l) ++ rest) = Ok (dump_list out_bytes l, rest).
Proof.
  intros Hc W. unfold t_opaques, dump_list.
  apply (list_toks_enc (item_opaque lcap) (fun d => [t_opaque lcap d]) out_bytes (fun _ => True)); auto.
  - intros a x r _ Hx. now apply item_opaque_enc.
  - intros x. now apply opaque_nonempty.
  - apply Forall_forall. auto.
Qed.

(* ALPN protocol names: ASCII (str.encode("ascii") in push), else the decoder skips the item *)
Definition alpn_ok (d : list Z) : Prop := is_ascii d = true.

Lemma item_alpn_enc a d rest : alpn_ok d -> fits_seq [t_opaque 1 d] = true ->
  item_alpn a (flat_seq [t_opaque 1 d] ++ rest) = Ok (acc_add a (out_bytes d), rest).
Proof.
  rewrite fits_single, flat_single. intros Ha W. unfold item_alpn.
  rewrite pull_opaque_tv by exact W. cbn [bind]. unfold alpn_ok in Ha. now rewrite Ha.
Qed.

Lemma alpns_enc l rest : Forall alpn_ok l -> fits_tv (t_opaques 2 1 l) = true ->
  list_toks 2 item_alpn (flat_tv (t_opaques 2 1 l) ++ rest) = Ok (dump_list out_bytes l, rest).
Proof.
  intros F W. unfold t_opaques, dump_list.
  apply (list_toks_enc item_alpn (fun d => [t_opaque 1 d]) out_bytes alpn_ok); auto.
  - intros a x r Hx Hf. now apply item_alpn_enc.
  - intros x. apply opaque_nonempty. lia.
Qed.

Definition ks_ok (k : ext) : Prop := 0 <= fst k < 65536.

Lemma flat_ks k : flat_seq (t_ks k) = be_enc 2 (fst k) ++ flat_tv (t_opaque 2 (snd k)).
Proof. unfold t_ks. cbn [flat_seq flat_map]. rewrite app_nil_r. reflexivity. Qed.

Lemma fits_ks k : fits_seq (t_ks k) = fits_tv (t_opaque 2 (snd k)).
Proof. unfold t_ks. cbn [fits_seq forallb]. rewrite andb_true_r. reflexivity. Qed.

(* push_key_share read by pull_key_share *)
Lemma pull_key_share_enc k rest : ks_ok k -> fits_seq (t_ks k) = true ->
  ('(g, b1) <- pull_uint16 (flat_seq (t_ks k) ++ rest) ;; '(d, b2) <- pull_opaque 2 b1 ;; Ok (g :: out_bytes d, b2))
  = Ok (dump_ext k, rest).
Proof.
  intros Hg W. rewrite fits_ks in W. rewrite flat_ks, <- app_assoc. unfold pull_uint16.
  rewrite pull_be_roundtrip by exact Hg. cbn [bind].
  rewrite pull_opaque_tv by exact W. reflexivity.
Qed.

Lemma item_key_share_enc a k rest : ks_ok k -> fits_seq (t_ks k) = true ->
  item_key_share a (flat_seq (t_ks k) ++ rest) = Ok (acc_add a (dump_ext k), rest).
Proof.
  intros Hg W. rewrite fits_ks in W. rewrite flat_ks, <- app_assoc. unfold item_key_share, pull_uint16.
  rewrite pull_be_roundtrip by exact Hg. cbn [bind].
  rewrite pull_opaque_tv by exact W. reflexivity.
Qed.

Lemma key_shares_enc l rest : Forall ks_ok l -> fits_tv (TBlock 2 (flat_map t_ks l)) = true ->
  list_toks 2 item_key_share (flat_tv (TBlock 2 (flat_map t_ks l)) ++ rest) = Ok (dump_list dump_ext l, rest).
Proof.
  intros F W. unfold dump_list.
  apply (list_toks_enc item_key_share t_ks dump_ext ks_ok); auto.
  - intros a x r Hx Hf. now apply item_key_share_enc.
  - intros x. rewrite flat_ks, app_length, be_enc_length. lia.
Qed.

Definition pskid_ok (i : list Z * Z) : Prop := 0 <= snd i < 2 ^ 32.

Lemma flat_pskid i : flat_seq (t_psk_identity i) = flat_tv (t_opaque 2 (fst i)) ++ be_enc 4 (snd i).
Proof. unfold t_psk_identity. cbn [flat_seq flat_map flat_tv]. now rewrite app_nil_r. Qed.

Lemma fits_pskid i : fits_seq (t_psk_identity i) = fits_tv (t_opaque 2 (fst i)).
Proof. unfold t_psk_identity. cbn [fits_seq forallb fits_tv]. now rewrite !andb_true_r. Qed.

Lemma item_psk_identity_enc a i rest : pskid_ok i -> fits_seq (t_psk_identity i) = true ->
  item_psk_identity a (flat_seq (t_psk_identity i) ++ rest) = Ok (acc_add a (dump_psk_identity i), rest).
Proof.
  intros Ha W. rewrite fits_pskid in W. rewrite flat_pskid, <- app_assoc. unfold item_psk_identity.
  rewrite pull_opaque_tv by exact W. cbn [bind].
  rewrite pull_uint32_enc by exact Ha. reflexivity.
Qed.

Lemma psk_identities_enc l rest : Forall pskid_ok l -> fits_tv (TBlock 2 (flat_map t_psk_identity l)) = true ->
  list_toks 2 item_psk_identity (flat_tv (TBlock 2 (flat_map t_psk_identity l)) ++ rest)
  = Ok (dump_list dump_psk_identity l, rest).
Proof.
  intros F W. unfold dump_list.
  apply (list_toks_enc item_psk_identity t_psk_identity dump_psk_identity pskid_ok); auto.
  - intros a x r Hx Hf. now apply item_psk_identity_enc.
  - intros x. rewrite flat_pskid, !app_length, be_enc_length. lia.
Qed.

Lemma flat_cert_entry e :
  flat_seq (t_cert_entry e) = flat_tv (t_opaque 3 (fst e)) ++ flat_tv (t_opaque 2 (snd e)).
Proof. unfold t_cert_entry. cbn [flat_seq flat_map]. now rewrite app_nil_r. Qed.

Lemma fits_cert_entry e :
  fits_seq (t_cert_entry e) = fits_tv (t_opaque 3 (fst e)) && fits_tv (t_opaque 2 (snd e)).
Proof. unfold t_cert_entry. cbn [fits_seq forallb]. now rewrite andb_true_r. Qed.

Lemma item_certificate_entry_enc a e rest : fits_seq (t_cert_entry e) = true ->
  item_certificate_entry a (flat_seq (t_cert_entry e) ++ rest) = Ok (acc_add a (dump_cert_entry e), rest).
Proof.
  rewrite fits_cert_entry, flat_cert_entry, <- app_assoc. intros W. apply andb_prop in W as [W1 W2].
  unfold item_certificate_entry.
  rewrite pull_opaque_tv by exact W1. cbn [bind].
  rewrite pull_opaque_tv by exact W2. reflexivity.
Qed.

Lemma cert_entries_enc l rest : fits_tv (TBlock 3 (flat_map t_cert_entry l)) = true ->
  list_toks 3 item_certificate_entry (flat_tv (TBlock 3 (flat_map t_cert_entry l)) ++ rest)
  = Ok (dump_list dump_cert_entry l, rest).
Proof.
  intros W. unfold dump_list.
  apply (list_toks_enc item_certificate_entry t_cert_entry dump_cert_entry (fun _ => True)); auto.
  - intros a x r _ Hf. now apply item_certificate_entry_enc.
  - intros x. rewrite flat_cert_entry, flat_opaque, !app_length, be_enc_length. lia.
  - apply Forall_forall. auto.
Qed.
