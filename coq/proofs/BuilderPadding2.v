(* initial_padded, part 2: the remaining operations and the theorem. *)
From Coq Require Import ZArith List Bool Lia ZifyBool.
From AQ Require Import lib.Base lib.Tok gen.C13Consts model.Builder proofs.BuilderProofs proofs.BuilderPadding.
Import ListNotations.
Open Scope Z_scope.

Section Pad2.
Variable c : cfg.
Hypothesis Hwf : wf_cfg c.

Lemma datagram_init_Q s : Q s -> Q (datagram_init c s).
Proof.
  unfold datagram_init. intros (H0&H1&H2&H3). destruct (b_dginit s); [|unfold Q; finQ H1].
  unfold Q; simpl. finQ H1.
Qed.

Lemma step_Q s o r s' dg : Q s -> step c s o = (r, s', dg) -> r <> OBufferWrite -> r <> OCrypto -> Q s'.
Proof.
  intros HQ E NE NC. destruct o; simpl in E.
  - destruct (start_packet c s t) as [r0 s0] eqn:F. inversion E; subst; clear E.
    unfold start_packet in F.
    destruct (negb (valid_ptype t)); [inversion F; subst; auto|].
    destruct (end_current c s) as [o1 s1] eqn:E1.
    destruct o1; try (inversion F; subst; eapply end_current_Q; eauto; congruence).
    assert (Q1 : Q s1) by (eapply end_current_Q; eauto; discriminate).
    assert (TL : forall s2, Q s2 ->
       (let packet_start := b_tell s2 in let s3 := datagram_init c s2 in let h := header_size c t in
        if packet_start + h >=? b_bcap s3 then (OStop, s3) else
        (ODone, mkSt (packet_start + h) (b_bcap s3) (b_fcap s3) (b_dgflight s3) (b_dginit s3) (b_dgpad s3) (b_flight s3)
           (b_total s3) (Some (mkPkt t packet_start h false false false (b_pn s3))) true (b_pn s3)
           (b_dgrams s3) (b_pkts s3) (g_hasinit s3) (g_log s3))) = (r, s') -> Q s').
    { intros s2 Q2 G. cbv zeta in G. pose proof (datagram_init_Q s2 Q2) as (I0&I1&I2&I3).
      assert (b_tell (datagram_init c s2) = b_tell s2) by (unfold datagram_init; destruct (b_dginit s2); reflexivity).
      pose proof (header_size_nonneg c t Hwf).
      destruct (_ >=? _) in G; inversion G; subst; clear G; [unfold Q; finQ I1|].
      unfold Q; simpl. finQ I1. }
    destruct (b_bcap s1 - b_tell s1 <? DATAGRAM_MIN_SPACE).
    + destruct (flush_current c s1) as [o2 s2] eqn:E2.
      destruct o2; try (inversion F; subst; eapply flush_current_Q; eauto; congruence).
      apply (TL s2); auto. eapply flush_current_Q; eauto; discriminate.
    + apply (TL s1); auto.
  - destruct (start_frame c s ft cap) as [r0 s0] eqn:F. inversion E; subst; clear E.
    destruct HQ as (H0&H1&H2&H3). unfold start_frame in F.
    destruct (b_cur s) as [p|] eqn:Hc in F; [|inversion F; subst; unfold Q; finQ H1].
    cbv zeta in F.
    destruct (negb (b_hascrypto s)); [inversion F; subst; unfold Q; finQ H1|].
    destruct (_ || _) in F; [inversion F; subst; unfold Q; finQ H1|].
    destruct (size_uint_var _) as [sz|] eqn:SZ; [|inversion F; subst; unfold Q; finQ H1].
    assert (1 <= sz) by (unfold size_uint_var in SZ; revert SZ; destr; intros SZ; inversion SZ; lia).
    destruct (_ >? _) in F; [inversion F; subst; unfold Q; finQ H1|].
    destruct (H1 p Hc) as [Pa Pb]. inversion F; subst; clear F. unfold Q, set_cur, set_tell; simpl. finQ H1.
  - destruct (push c s n) as [r0 s0] eqn:F. inversion E; subst; clear E.
    destruct HQ as (H0&H1&H2&H3). unfold push in F.
    destruct (n <? 0) eqn:N0; [inversion F; subst; unfold Q; finQ H1|].
    destruct (_ >? _) in F; inversion F; subst; [unfold Q; finQ H1|].
    unfold Q, set_tell; simpl. finQ H1.
  - destruct (flush c s) as [[[r0 s0] d0] p0] eqn:F. inversion E; subst; clear E.
    unfold flush in F.
    destruct (end_current c s) as [o1 s1] eqn:E1.
    destruct o1; try (inversion F; subst; eapply end_current_Q; eauto; congruence).
    assert (Q1 : Q s1) by (eapply end_current_Q; eauto; discriminate).
    destruct (flush_current c s1) as [o2 s2] eqn:E2.
    destruct o2; try (inversion F; subst; eapply flush_current_Q; eauto; congruence).
    assert (Q2 : Q s2) by (eapply flush_current_Q; eauto; discriminate).
    inversion F; subst; clear F. destruct Q2 as (I0&I1&I2&I3). unfold Q; simpl. finQ I1.
Qed.

Lemma run_Q ops : forall s, Q s -> no_buffer_error c s ops = true -> Q (fst (run c s ops)).
Proof.
  induction ops as [|o t IH]; intros s HQ HN; simpl; auto.
  simpl in HN. destruct (step c s o) as [[r s'] dg] eqn:E.
  apply andb_true_iff in HN. destruct HN as [N1 N2].
  assert (Q s') by (eapply step_Q; eauto; destruct r; discriminate).
  specialize (IH s' H N2). destruct (run c s' t); simpl in *; auto.
Qed.

Lemma init_Q pn : Q (init_st c pn).
Proof. unfold Q, init_st; simpl. repeat split; auto; try lia; try discriminate. Qed.
End Pad2.

(* initial_padded (characterisation).  For every configuration and every op history without BufferWriteError:
   a datagram that contains a completed Initial packet of a client, or an ack-eliciting Initial packet of a server,
   has length  max(bytes written, _flight_capacity at flush).  Hence it is >= 1200 iff the flight capacity or
   the packets themselves reach 1200. *)
Theorem initial_padded_char :
  forall (c : cfg) (pn : Z) (ops : list op),
    wf_cfg c -> no_buffer_error c (init_st c pn) ops = true ->
    Forall (fun d => d_init d = true ->
                     d_len d = Z.max (d_raw d) (d_fcap d) /\
                     (SMALLEST_MAX_DATAGRAM_SIZE <= d_len d <->
                      SMALLEST_MAX_DATAGRAM_SIZE <= d_fcap d \/ SMALLEST_MAX_DATAGRAM_SIZE <= d_raw d))
           (g_log (fst (run c (init_st c pn) ops))).
Proof.
  intros c pn ops Hwf HN.
  destruct (run_Q c Hwf ops (init_st c pn) (init_Q c pn) HN) as (_&_&_&HL).
  eapply Forall_impl; [|exact HL]. unfold padded_ok. intros d Hd HI. specialize (Hd HI). split; auto.
  unfold SMALLEST_MAX_DATAGRAM_SIZE. lia.
Qed.

(* where _flight_capacity comes from: set when the datagram is started, from the budgets and the bytes already used *)
Lemma ifmin a b : (if a <? b then a else b) = Z.min a b.
Proof. destruct (a <? b) eqn:E; lia. Qed.

Lemma flight_capacity_at_init :
  forall (c : cfg) (s : st), b_dginit s = true ->
    let bcap := match c_max_total c with Some m => Z.min (m - b_total s) (b_bcap s) | None => b_bcap s end in
    b_bcap (datagram_init c s) = bcap /\
    b_fcap (datagram_init c s) = match c_max_flight c with Some m => Z.min (m - b_flight s) bcap | None => bcap end.
Proof.
  intros c s DI. unfold datagram_init. rewrite DI. cbv iota beta zeta.
  destruct (c_max_total c), (c_max_flight c); cbn [b_bcap b_fcap]; rewrite ?ifmin; split; reflexivity.
Qed.

(* The 1200-byte floor fails in the model exactly in those states; two witnesses (client, max_datagram_size 1200):
   a congestion budget of 500 bytes gives a 500-byte Initial datagram, an exhausted one an unpadded 55-byte datagram. *)
Theorem initial_padded_refuted :
  exists (c : cfg) (ops : list op),
    wf_cfg c /\ c_mds c = 1200 /\ c_client c = true /\ disciplined c (init_st c 0) ops = true /\
    no_buffer_error c (init_st c 0) ops = true /\
    exists d, In d (g_log (fst (run c (init_st c 0) ops))) /\ d_init d = true /\ d_len d = 55.
Proof.
  exists (mkCfg true 1200 8 8 0 (Some (-5)) None (Some 1500)), [OpStartPacket PT_INITIAL; OpStartFrame FT_ACK 1; OpPush 10; OpFlush].
  split; [unfold wf_cfg; cbn; lia|]. split; [reflexivity|]. split; [reflexivity|].
  split; [vm_compute; reflexivity|]. split; [vm_compute; reflexivity|].
  eexists. split; [vm_compute; left; reflexivity|]. split; reflexivity.
Qed.

Example initial_padded_500 :
  let c := mkCfg true 1200 8 8 0 (Some 500) None (Some 1500) in
  map d_len (g_log (fst (run c (init_st c 0) [OpStartPacket PT_INITIAL; OpStartFrame FT_ACK 1; OpPush 10; OpFlush]))) = [500].
Proof. vm_compute. reflexivity. Qed.
