(* C11: the handler skeletons the hand-written model coq/model/TlsSM.v was transcribed from.
   [skeleton] is re-extracted from the current tls.py on every check; this file pins the version the
   model corresponds to.  Any change to the order of parse / check / raise / key installation /
   state transition events in a handler, or to the `if` structure around them, makes
   [skeleton_as_modelled] fail, so the model (and the theorems about it) cannot silently go stale.

   Legend: SkPull n = pull_* call (n indexes the parser), SkNegotiate a = negotiate(..., Alert a),
   SkCheckSig = _check_certificate_verify_signature, SkCheckCert = verify_certificate,
   SkKey d e = _setup_traffic_protection / update_traffic_key_cb (Direction d, Epoch e),
   SkSet s = _set_state(State.s), SkAssign a v = watched attribute a := v
   (1 _session_resumed, 2 _certificate_request, 3 _peer_certificate, 4 early_data_accepted,
    5 _key_schedule_psk, 6 _key_schedule_proxy; v: 1 True, 0 False, -1 None, 2 other),
   SkRaise a = raise Alert a, SkIf cond then else. *)
From AQ Require Import lib.Base gen.TlsDispatch model.TlsSM.

Definition modelled_skeleton (h : handler) : list sk :=
  match h with
  | H_client_handle_hello =>
      [SkPull 0;
       SkNegotiate 40;
       SkIf (C_other 1) [SkRaise 47] [];
       SkIf (C_other 2) [SkRaise 47] [];
       SkIf C_hello_psk [SkIf (C_other 3) [SkRaise 47] []; SkAssign 1 (1)] [];
       SkAssign 5 (-1);
       SkAssign 6 (-1);
       SkIf (C_other 4) [SkRaise 47] [];
       SkIf (C_other 5) [SkRaise 47] [];
       SkIf (C_other 6) [SkRaise 47] [];
       SkKey DIR_DECRYPT EP_HANDSHAKE;
       SkSet CLIENT_EXPECT_ENCRYPTED_EXTENSIONS]
  | H_client_handle_encrypted_extensions =>
      [SkPull 1;
       SkAssign 4 (2);
       SkKey DIR_ENCRYPT EP_HANDSHAKE;
       SkIf C_resumed [SkSet CLIENT_EXPECT_FINISHED] [SkSet CLIENT_EXPECT_CERTIFICATE_REQUEST_OR_CERTIFICATE]]
  | H_client_handle_certificate_request =>
      [SkPull 2;
       SkAssign 2 (2);
       SkSet CLIENT_EXPECT_CERTIFICATE]
  | H_client_handle_certificate =>
      [SkPull 3;
       SkIf (C_other 1) [SkRaise 50] [];
       SkAssign 3 (2);
       SkIf (C_other 2) [SkRaise 42] [];
       SkSet CLIENT_EXPECT_CERTIFICATE_VERIFY]
  | H_client_handle_certificate_verify =>
      [SkPull 4;
       SkCheckSig;
       SkIf C_verify_mode [SkCheckCert] [];
       SkSet CLIENT_EXPECT_FINISHED]
  | H_client_handle_finished =>
      [SkPull 5;
       SkIf C_mac_mismatch [SkRaise 51] [];
       SkAssert;
       SkKey DIR_DECRYPT EP_ONE_RTT;
       SkKey DIR_ENCRYPT EP_ONE_RTT;
       SkSet CLIENT_POST_HANDSHAKE]
  | H_client_handle_new_session_ticket =>
      [SkPull 6]
  | H_server_handle_hello =>
      [SkPull 7;
       SkNegotiate 40;
       SkNegotiate 40;
       SkNegotiate 40;
       SkNegotiate 70;
       SkIf (C_other 1) [SkNegotiate 40] [];
       SkIf (C_other 4) [SkIf (C_other 3) [SkIf (C_other 2) [SkRaise 40] []; SkAssign 1 (1); SkIf C_hello_early [SkAssign 4 (1); SkKey DIR_DECRYPT EP_ZERO_RTT] []] []] [];
       SkIf (C_other 5) [SkRaise 47] [];
       SkIf (C_other 6) [SkRaise 40] [];
       SkKey DIR_ENCRYPT EP_HANDSHAKE;
       SkKey DIR_DECRYPT EP_HANDSHAKE;
       SkAssert;
       SkKey DIR_ENCRYPT EP_ONE_RTT;
       SkIf C_request_client_cert [SkSet SERVER_EXPECT_CERTIFICATE] [SkSet SERVER_EXPECT_FINISHED]]
  | H_server_handle_certificate =>
      [SkPull 3;
       SkIf C_certs_nonempty [SkIf (C_other 1) [SkRaise 50] []; SkAssign 3 (2); SkIf (C_other 2) [SkRaise 42] []; SkSet SERVER_EXPECT_CERTIFICATE_VERIFY] [SkSet SERVER_EXPECT_FINISHED]]
  | H_server_handle_certificate_verify =>
      [SkPull 4;
       SkCheckSig;
       SkSet SERVER_EXPECT_FINISHED]
  | H_server_handle_finished =>
      [SkPull 5;
       SkIf C_mac_mismatch [SkRaise 51] [];
       SkKey DIR_DECRYPT EP_ONE_RTT;
       SkSet SERVER_POST_HANDSHAKE]
  | H_client_send_hello =>
      [SkAssert;
       SkIf C_ticket_valid [SkAssign 5 (2); SkIf C_hello_early [SkKey DIR_ENCRYPT EP_ZERO_RTT] []] [];
       SkAssign 6 (2);
       SkSet CLIENT_EXPECT_SERVER_HELLO]
  end.

Lemma skeleton_as_modelled : forall h, skeleton h = modelled_skeleton h.
Proof. destruct h; reflexivity. Qed.

(* ---------- the model handlers follow their skeletons -------------------------------------------
   for every handler, configuration, state and oracle valuation: the key installations of the model
   handler are an ordered subsequence of the skeleton's SkKey events, and the state it ends in is
   the state it started in or the target of one of the skeleton's SkSet events. *)
Fixpoint sk_keys (x : sk) : list key :=
  match x with
  | SkKey d e => [(d, e)]
  | SkIf _ a b => flat_map sk_keys a ++ flat_map sk_keys b
  | _ => []
  end.
Fixpoint sk_sets (x : sk) : list State :=
  match x with
  | SkSet s => [s]
  | SkIf _ a b => flat_map sk_sets a ++ flat_map sk_sets b
  | _ => []
  end.
Definition handler_keys (h : handler) : list key := flat_map sk_keys (skeleton h).
Definition handler_sets (h : handler) : list State := flat_map sk_sets (skeleton h).

Definition key_eqb (a b : key) : bool := (fst a =? fst b) && (snd a =? snd b).
Fixpoint subseq (l big : list key) : bool :=
  match l, big with
  | [], _ => true
  | _ :: _, [] => false
  | x :: l', y :: big' => if key_eqb x y then subseq l' big' else subseq l big'
  end.
Definition follows (h : handler) (s : st) (r : result) : bool :=
  let '(o, s', ks) := r in
  subseq ks (handler_keys h) &&
  (state_eqb (s_state s') (s_state s) || existsb (state_eqb (s_state s')) (handler_sets h)).

Lemma state_eqb_refl : forall x, state_eqb x x = true.
Proof. intro x. unfold state_eqb. apply Z.eqb_refl. Qed.

Lemma model_follows_skeleton : forall h c s m, follows h s (run_handler h c s m) = true.
Proof.
  intros h c [x r kp kx cq] m.
  destruct h; cbn [run_handler];
    unfold client_handle_hello, client_handle_encrypted_extensions, client_handle_certificate_request,
      client_handle_certificate, client_handle_certificate_verify, client_handle_finished,
      client_handle_new_session_ticket, server_handle_hello, server_handle_certificate,
      server_handle_certificate_verify, server_handle_finished, client_send_hello, check_cv, parsed, set_state;
    cbn [s_state s_resumed s_kpsk s_kproxy s_creq];
    repeat match goal with
    | |- context [if ?b then _ else _] => destruct b
    end;
    unfold follows; apply andb_true_iff; (split; [reflexivity |]);
    apply orb_true_iff; cbn [s_state];
    first [left; apply state_eqb_refl | right; reflexivity].
Qed.
