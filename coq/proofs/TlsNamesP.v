(* C03: which name the server certificate is validated for; the identity check is never skipped.

   1. tie to the current source (gen/TlsNames.v is re-extracted by tools/gen/c03_names.py on every run):
        gen_name_flow = modelled_name_flow, and under the semantics of name expressions (eval_nexpr) the flow stores the
        constructor's server_name unchanged, hands THAT to verify_certificate (verify_name), and hands the
        IP-stripped value to the ClientHello only (sni_of_name);
        gen_verify_certificate, interpreted over the oracles (vc_interp), IS vc_decide of model/TlsVerifyCert.v;
   2. identity_check_never_skipped: CERT_REQUIRED and a configured name (DNS or IP literal): on every path of
      verify_certificate that returns normally the matcher FOR THAT KIND OF NAME was consulted about
      (leaf, configured name) and accepted, the chain was verified, the dates were checked; lifted to every run of the
      client that reaches CLIENT_POST_HANDSHAKE without resumption.
   Examples at the end: non-vacuity (an IP-literal client completes when the IP matcher accepts, is refused when only
   the hostname matcher would have accepted, sends no SNI). *)
From Coq Require Import ZArith List Bool Lia.
From AQ Require Import lib.Base gen.TlsDispatch gen.TlsNames model.TlsSymbolic model.TlsVerifyCert.
From AQ Require Import proofs.TlsDispatchLegal proofs.TlsSymbolicP1 proofs.TlsSymbolicP2 proofs.TlsSymbolicP4 proofs.TlsSymbolicP5 proofs.TlsSymbolicP3.
Import ListNotations.
Open Scope Z_scope.

(* ---------- 1a. the name flow ---------------------------------------------------------------------------------- *)
Definition modelled_name_flow : name_flow :=
  mkFlow [(0, NParam)]                 (* Context.__init__: self._server_name = server_name, unconditionally, the only store *)
         (NIfIp NAttr NAttr NNone)     (* _client_send_hello: SNI = None if ip_address(self._server_name) succeeds else self._server_name *)
         NAttr 2 1 1 2                 (* verify_certificate(server_name=self._server_name) under `_verify_mode != CERT_NONE` only *)
         NAttr 1.

Lemma gen_name_flow_as_modelled : gen_name_flow = modelled_name_flow.
Proof. reflexivity. Qed.

Fixpoint eval_nexpr (O : oracles) (param attr : option bytes) (e : nexpr) : option bytes :=
  match e with
  | NParam => param
  | NAttr => attr
  | NNone => None
  | NIfIp s a b => if name_is_ip O (eval_nexpr O param attr s) then eval_nexpr O param attr b else eval_nexpr O param attr a
  end.

(* self._server_name once __init__ has run: defined only for ONE store that is an unconditional statement of __init__
   (self._server_name does not exist yet while it is evaluated: attr = None) *)
Definition flow_attr (O : oracles) (F : name_flow) (param : option bytes) : option (option bytes) :=
  match nf_assigns F with
  | [(0, e)] => Some (eval_nexpr O param None e)
  | _ => None
  end.
Definition flow_read (O : oracles) (F : name_flow) (param : option bytes) (e : nexpr) : option (option bytes) :=
  match flow_attr O F param with Some a => Some (eval_nexpr O param a e) | None => None end.

Lemma name_flow_as_modelled_lemma : forall (O : oracles) (c : cfg),
  flow_attr O gen_name_flow (f_server_name c) = Some (attr_server_name c) /\
  flow_read O gen_name_flow (f_server_name c) (nf_verify gen_name_flow) = Some (verify_name c) /\
  flow_read O gen_name_flow (f_server_name c) (nf_sni gen_name_flow) = Some (ch_server_name (hello_base O c)) /\
  flow_read O gen_name_flow (f_server_name c) (nf_ticket gen_name_flow) = Some (f_server_name c) /\
  verify_name c = f_server_name c /\
  ch_server_name (hello_base O c) = sni_of_name O (f_server_name c) /\
  (nf_verify_guard gen_name_flow = 2 /\ nf_trust_passthrough gen_name_flow = 1 /\
   nf_verify_mode_default gen_name_flow = 1 /\ nf_quic_passthrough gen_name_flow = 1).
Proof.
  intros O c. rewrite gen_name_flow_as_modelled.
  repeat split.
Qed.

(* the verdict computed by _client_handle_certificate_verify is the answer to cert_query *)
Lemma cert_query_verdict : forall (O : oracles) (c : cfg) (p : list bytes),
  (if f_verify c then o_cert_ok O (verify_name c) p else 0) =
  match cert_query c with Some n => o_cert_ok O n p | None => 0 end.
Proof. intros O c p. unfold cert_query. destruct (f_verify c); reflexivity. Qed.

(* ---------- 1b. verify_certificate: the generated statement list interpreted over the oracles -------------------- *)
Definition modelled_verify_certificate : list vstmt :=
  [VNow; VDate 0 45; VDate 1 45;
   VSubject [VIsIp 2; VMatch (1, 1, 2) (2, 1, 2) [(1, 42); (2, 42)]];
   VNewStore; VTrust 0; VTrust 1; VTrust 2; VStoreCtx 1 3; VChain 42].

Lemma gen_verify_certificate_as_modelled : gen_verify_certificate = modelled_verify_certificate.
Proof. reflexivity. Qed.

(* argument ids of the generator: 1 = certificate, 2 = server_name, anything else = not a byte string we know *)
Definition vc_arg (cert name : bytes) (a : Z) : bytes := if a =? 1 then cert else if a =? 2 then name else [].

(* the first handler (in source order) that catches an exception of kind r (1 = CertificateError / VerificationError,
   also caught by `except Exception`; anything else = another Exception); -1 = it escapes *)
Definition vc_handler (hs : list (Z * Z)) (r : Z) : Z :=
  match find (fun p => (fst p =? 2) || ((fst p =? 1) && (r =? 1))) hs with Some p => snd p | None => -1 end.

Definition vc_interp_match (V : vc_oracles) (cert name : bytes) (isip : bool) (ipm hostm : Z * Z * Z) (hs : list (Z * Z))
  : Z * list vc_ev :=
  let '(fn, a1, a2) := if isip then ipm else hostm in
  let cb := vc_arg cert name a1 in
  let nb := vc_arg cert name a2 in
  if fn =? 1 then (let r := v_ip V cb nb in if r =? 0 then 0 else vc_handler hs r, [EvIp cb nb])
  else if fn =? 2 then (let r := v_host V cb nb in if r =? 0 then 0 else vc_handler hs r, [EvHost cb nb])
  else (-1, []).

(* state: stopped with an outcome? | trace | arguments of the pending X509StoreContext *)
Definition vc_interp_step (V : vc_oracles) (cert : bytes) (chain : list bytes) (name : option bytes)
  (st : option Z * list vc_ev * option (Z * Z)) (x : vstmt) : option Z * list vc_ev * option (Z * Z) :=
  let '(stop, tr, sctx) := st in
  match stop with
  | Some _ => st
  | None =>
    match x with
    | VNow | VNewStore | VTrust _ => st
    | VDate which a =>
        if which =? 0 then (if v_not_yet V cert then (Some a, tr, sctx) else st)
        else if which =? 1 then (if v_expired V cert then (Some a, tr, sctx) else st)
        else (Some (-1), tr, sctx)
    | VSubject body =>
        match name with
        | None => st
        | Some n =>
            match body with
            | [VIsIp a; VMatch ipm hostm hs] =>
                let '(o, ev) := vc_interp_match V cert n (v_is_ip V (vc_arg cert n a)) ipm hostm hs in
                (if o =? 0 then None else Some o, tr ++ ev, sctx)
            | _ => (Some (-1), tr, sctx)
            end
        end
    | VStoreCtx l c => (None, tr, Some (l, c))
    | VChain a =>
        match sctx with
        | Some (1, 3) => (if v_chain V cert chain then None else Some a, tr ++ [EvChain cert chain], sctx)
        | _ => (Some (-1), tr, sctx)
        end
    | _ => (Some (-1), tr, sctx)
    end
  end.

Definition vc_interp (V : vc_oracles) (cert : bytes) (chain : list bytes) (name : option bytes) (l : list vstmt) : Z * list vc_ev :=
  let '(stop, tr, _) := fold_left (vc_interp_step V cert chain name) l (None, [], None) in
  (match stop with Some a => a | None => 0 end, tr).

Lemma verify_certificate_as_modelled_lemma : forall V cert chain name,
  vc_interp V cert chain name gen_verify_certificate = vc_decide V cert chain name.
Proof.
  intros V cert chain name. rewrite gen_verify_certificate_as_modelled.
  unfold vc_interp, vc_decide, modelled_verify_certificate. cbn.
  destruct (v_not_yet V cert); cbn; [reflexivity |].
  destruct (v_expired V cert); cbn; [reflexivity |].
  destruct name as [n |]; cbn.
  - destruct (v_is_ip V n); cbn.
    + destruct (v_ip V cert n =? 0) eqn:E; cbn.
      * destruct (v_chain V cert chain); reflexivity.
      * unfold vc_handler; cbn. destruct (v_ip V cert n =? 1); cbn; reflexivity.
    + destruct (v_host V cert n =? 0) eqn:E; cbn.
      * destruct (v_chain V cert chain); reflexivity.
      * unfold vc_handler; cbn. destruct (v_host V cert n =? 1); cbn; reflexivity.
  - destruct (v_chain V cert chain); reflexivity.
Qed.

(* ---------- 2. the identity check is never skipped ---------------------------------------------------------------- *)
Lemma vc_decide_ok : forall V cert chain name tr,
  vc_decide V cert chain name = (0, tr) ->
  v_not_yet V cert = false /\ v_expired V cert = false /\
  v_chain V cert chain = true /\ In (EvChain cert chain) tr /\
  forall n, name = Some n ->
    (if v_is_ip V n then In (EvIp cert n) tr /\ v_ip V cert n = 0 else In (EvHost cert n) tr /\ v_host V cert n = 0).
Proof.
  intros V cert chain name tr H. unfold vc_decide in H.
  destruct (v_not_yet V cert); [inversion H |].
  destruct (v_expired V cert); [inversion H |].
  destruct (vc_subject V cert name) as [a tr0] eqn:Es.
  destruct (negb (a =? 0)) eqn:Ea.
  - inversion H; subst. discriminate.
  - apply negb_false_iff in Ea. apply Z.eqb_eq in Ea. subst a.
    destruct (v_chain V cert chain) eqn:Ec; [| inversion H].
    inversion H; subst tr; clear H.
    repeat split; try reflexivity.
    + apply in_or_app. right. left. reflexivity.
    + intros n ->. unfold vc_subject in Es.
      destruct (v_is_ip V n).
      * destruct (v_ip V cert n =? 0) eqn:E; inversion Es; subst.
        split; [apply in_or_app; left; left; reflexivity | apply Z.eqb_eq; exact E].
      * destruct (v_host V cert n =? 0) eqn:E; inversion Es; subst.
        split; [apply in_or_app; left; left; reflexivity | apply Z.eqb_eq; exact E].
Qed.

Lemma identity_check_never_skipped_lemma :
  forall (O : oracles) (V : vc_oracles) (c : cfg) (ms : list bytes),
    let O' := with_vc O V in
    let s := run O' c (client_started O' c) ms in
    t_state s = CLIENT_POST_HANDSHAKE -> t_resumed s = false -> f_verify c = true ->
    let leaf := hd [] (t_peer s) in
    let chain := tl (t_peer s) in
    exists tr,
      vc_decide V leaf chain (f_server_name c) = (0, tr) /\
      v_not_yet V leaf = false /\ v_expired V leaf = false /\
      v_chain V leaf chain = true /\ In (EvChain leaf chain) tr /\
      forall n, f_server_name c = Some n ->
        (if v_is_ip V n then In (EvIp leaf n) tr /\ v_ip V leaf n = 0 else In (EvHost leaf n) tr /\ v_host V leaf n = 0) /\
        ch_server_name (hello_base O' c) = (if v_is_ip V n then None else Some n).
Proof.
  intros O V c ms O' s Hst Hres Hv leaf chain.
  pose proof (client_completion_authenticated_lemma O' c ms) as H. cbv zeta in H. fold s in H.
  specialize (H Hst). destruct H as [[_ H] | [H _]]; [| fold s in H; rewrite Hres in H; discriminate].
  destruct H as (alg & sg & k0 & _ & _ & Hc & _).
  specialize (Hc Hv). unfold O' in Hc. cbn [with_vc o_cert_ok] in Hc. unfold vc_cert_ok in Hc.
  fold s in Hc. fold leaf chain in Hc. unfold verify_name, attr_server_name in Hc.
  destruct (vc_decide V leaf chain (f_server_name c)) as [a tr] eqn:Ed. cbn [fst] in Hc. subst a.
  exists tr. split; [reflexivity |].
  destruct (vc_decide_ok _ _ _ _ _ Ed) as (A & B & C & D & E).
  repeat split; try assumption.
  - apply E. assumption.
  - unfold hello_base. cbn [ch_server_name]. unfold sni_of_name, name_is_ip, attr_server_name.
    rewrite H. unfold O'. cbn [with_vc o_is_ip]. destruct (v_is_ip V n); reflexivity.
Qed.

(* ---------- non-vacuity -------------------------------------------------------------------------------------------- *)
(* toy matchers: the name [49] is an IP literal; the two matchers answer what the parameters say *)
Definition toyV (ip_verdict host_verdict : Z) : vc_oracles :=
  mkV (fun _ => false) (fun _ => false) (fun n => beqb n [49]) (fun _ _ => host_verdict) (fun _ _ => ip_verdict) (fun _ _ => true).

Definition names_client (n : option bytes) : cfg :=
  mkCfg [0x1301] [0] [0x0304] [0x0403] [1] (Some [[104; 51]]) [] [] [] [] [1]
        [(29, [5])] n true None false []
        false false (fun _ => None) (fun _ => []) no_cb.

Definition names_run (V : vc_oracles) (n : option bytes) : tst :=
  let O := with_vc toyO V in
  let c := names_client n in
  let '(_, flight) := run_out O toy_server (init_server toy_server) [client_hello_msg O c] in
  fst (run_out O c (client_started O c) flight).

Example ip_literal_name_is_matched_as_ip :
  (* the IP matcher accepts (the hostname matcher would refuse): completes, and no SNI was sent *)
  t_state (names_run (toyV 0 1) (Some [49])) = CLIENT_POST_HANDSHAKE /\
  ch_server_name (hello_base (with_vc toyO (toyV 0 1)) (names_client (Some [49]))) = None /\
  (* only the hostname matcher would accept: refused at CertificateVerify *)
  t_state (names_run (toyV 1 0) (Some [49])) = CLIENT_EXPECT_CERTIFICATE_VERIFY /\
  (* a DNS name: the other way round, and the SNI carries the name *)
  t_state (names_run (toyV 1 0) (Some [101])) = CLIENT_POST_HANDSHAKE /\
  t_state (names_run (toyV 0 1) (Some [101])) = CLIENT_EXPECT_CERTIFICATE_VERIFY /\
  ch_server_name (hello_base (with_vc toyO (toyV 1 0)) (names_client (Some [101]))) = Some [101] /\
  (* no name requested: no matcher is consulted, the chain still is *)
  t_state (names_run (toyV 1 1) None) = CLIENT_POST_HANDSHAKE /\
  vc_decide (toyV 1 1) [77] [] None = (0, [EvChain [77] []]).
Proof. vm_compute. repeat split; reflexivity. Qed.
