(* C05: facts about the byte readers of model/Frames.v: every successful read returns a suffix that
   is no longer than its input (strictly shorter for the varint / uint8 readers) -- "a Buffer
   never reads past its end and never moves backwards". *)
From AQ Require Import lib.Base model.Frames.
From Coq Require Import Lia.

Lemma zdrop_len : forall (A : Type) n (l : list A), (length (zdrop n l) <= length l)%nat.
Proof. intros. unfold zdrop. rewrite skipn_length. lia. Qed.

Lemma zdrop_len_exact : forall (A : Type) n (l : list A), 0 <= n -> n <= Zlen l ->
  Z.of_nat (length (zdrop n l)) = Zlen l - n.
Proof. intros. unfold zdrop, Zlen in *. rewrite skipn_length. lia. Qed.

Lemma pull_uint8_len : forall b v r, pull_uint8 b = POk v r -> (length r < length b)%nat.
Proof. intros b v r H. destruct b; simpl in H; inversion H; subst. simpl. lia. Qed.

Lemma pull_bytes_len : forall n b v r, pull_bytes n b = POk v r -> (length r <= length b)%nat.
Proof.
  intros n b v r H. unfold pull_bytes in H.
  destruct (n <? 0); try discriminate. destruct (Zlen b <? n); try discriminate.
  inversion H; subst. apply zdrop_len.
Qed.

Lemma pull_bytes_len_exact : forall n b v r, pull_bytes n b = POk v r ->
  0 <= n /\ Zlen r = Zlen b - n.
Proof.
  intros n b v r H. unfold pull_bytes in H.
  destruct (n <? 0) eqn:E1; try discriminate. destruct (Zlen b <? n) eqn:E2; try discriminate.
  inversion H; subst. apply Z.ltb_ge in E1. apply Z.ltb_ge in E2.
  split; [lia|]. unfold Zlen at 1. apply zdrop_len_exact; lia.
Qed.

Lemma pull_uint_var_len : forall b v r, pull_uint_var b = POk v r -> (length r < length b)%nat.
Proof.
  intros b v r H. destruct b as [|b0 t]; simpl in H; try discriminate.
  destruct (Zlen t <? varint_extra b0); try discriminate.
  inversion H; subst. pose proof (zdrop_len Z (varint_extra b0) t). simpl. lia.
Qed.

Lemma skip_zeros_len : forall b, (length (skip_zeros b) <= length b)%nat.
Proof.
  induction b as [|x r IH]; simpl; [lia|]. destruct (x =? 0); simpl; lia.
Qed.

Lemma pull_ack_ranges_len : forall fuel count b r,
  pull_ack_ranges fuel count b = POk tt r -> (length r <= length b)%nat.
Proof.
  induction fuel as [|f IH]; intros count b r H; simpl in H.
  - destruct (count <=? 0); inversion H; subst; lia.
  - destruct (count <=? 0); [inversion H; subst; lia|].
    unfold pbind in H.
    destruct (pull_uint_var b) as [g b1|] eqn:E1; try discriminate.
    destruct (pull_uint_var b1) as [l b2|] eqn:E2; try discriminate.
    apply pull_uint_var_len in E1. apply pull_uint_var_len in E2. apply IH in H. lia.
Qed.

Lemma pull_ack_frame_len : forall ecn b r, pull_ack_frame ecn b = POk tt r -> (length r < length b)%nat.
Proof.
  intros ecn b r H. unfold pull_ack_frame, pbind in H.
  destruct (pull_uint_var b) as [v1 b1|] eqn:E1; try discriminate.
  destruct (pull_uint_var b1) as [v2 b2|] eqn:E2; try discriminate.
  destruct (pull_uint_var b2) as [v3 b3|] eqn:E3; try discriminate.
  destruct (pull_uint_var b3) as [v4 b4|] eqn:E4; try discriminate.
  destruct (pull_ack_ranges (length b4) v3 b4) as [[] b5|] eqn:E5; try discriminate.
  apply pull_uint_var_len in E1, E2, E3, E4. apply pull_ack_ranges_len in E5.
  destruct ecn.
  - destruct (pull_uint_var b5) as [v6 b6|] eqn:E6; try discriminate.
    destruct (pull_uint_var b6) as [v7 b7|] eqn:E7; try discriminate.
    destruct (pull_uint_var b7) as [v8 b8|] eqn:E8; try discriminate.
    apply pull_uint_var_len in E6, E7, E8. inversion H; subst. lia.
  - inversion H; subst. lia.
Qed.

(* RangeSet.add's `assert stop > start` inside pull_ack_frame: every call is
   add(end - ack_count, end + 1) with ack_count a varint, hence >= 0. *)
Lemma ack_add_guard : forall e count, 0 <= count -> e - count < e + 1.
Proof. intros. lia. Qed.

(* varints are non-negative when the bytes are *)
Lemma be_value_nonneg : forall l acc, 0 <= acc -> Forall (fun x => 0 <= x) l -> 0 <= be_value acc l.
Proof.
  induction l as [|x r IH]; intros acc Ha Hl; simpl; [lia|].
  inversion Hl; subst. apply IH; [lia|assumption].
Qed.
