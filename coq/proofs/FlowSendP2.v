(* Send-side flow control, part 2 (model/FlowSend.v): the credit counter IS the sum of the highest offsets for
   EVERY operation sequence (no parameter guard, no legitimacy of delivery outcomes), and what a STREAM frame
   that straddles the previous highest offset (starts inside already-sent bytes -- a lost range coalesced in the
   pending RangeSet with fresh, never-sent bytes -- and ends above it) is charged: exactly the part above the old
   highest offset; neither nothing ("it is a retransmission") nor its whole length ("it is new data"). *)
From Coq Require Import ZArith List Bool Lia ZifyBool.
From AQ Require Import lib.Base model.RangeSet model.StreamSend model.FlowSend
  proofs.RangeSetP proofs.ListZ proofs.StreamSendP proofs.FlowSendP.

(* ================= E. used = sum of highest offsets, for all op sequences ================= *)
Lemma credit_sum_run ops : forall c, c_used c = sum_high (c_streams c) ->
  c_used (frun c ops) = sum_high (c_streams (frun c ops)).
Proof.
  induction ops as [|op r IH]; intros c H; cbn [frun fold_left]; [exact H|].
  apply IH. apply credit_sum_step. exact H.
Qed.

Lemma credit_is_sum_of_highest_l cl ops :
  c_used (frun (conn_init cl) ops) = sum_high (c_streams (frun (conn_init cl) ops)).
Proof. apply credit_sum_run. reflexivity. Qed.

(* one _write_stream_frame call, in ANY state: the charge is the rise of that stream's highest offset, it is
   never negative and the other streams' highest offsets do not move *)
Lemma get_charge_l c sid ms t :
  find_strm sid (c_streams c) = Some t ->
  let c' := snd (fstep c (OGet sid ms)) in
  exists t', find_strm sid (c_streams c') = Some t' /\
    c_used c' - c_used c = s_highest (t_send t') - s_highest (t_send t) /\ 0 <= c_used c' - c_used c /\
    forall sid', sid' <> sid -> find_strm sid' (c_streams c') = find_strm sid' (c_streams c).
Proof.
  intros Hf. cbn [fstep]. rewrite Hf.
  destruct (s_reset_pending (t_send t) || t_blocked t || s_empty (t_send t)).
  - cbn [snd]. exists t. repeat split; try lia; auto.
  - destruct (get_frame (t_send t) ms (Some (max_offset c t))) as [o s'] eqn:Ew. cbn [snd c_used c_streams].
    exists (set_send s' t). split; [apply find_upd_same; [reflexivity|exact Hf]|].
    pose proof (get_highest_mono (t_send t) ms (max_offset c t)) as Hm. rewrite Ew in Hm. cbn [snd] in Hm.
    cbn [set_send t_send]. repeat split; try lia.
    intros sid' Hne. apply find_upd_other; [reflexivity|exact Hne].
Qed.

(* ================= F. frames that straddle the previous highest offset ================= *)
Lemma straddling_frame_charged_l c gm sid ms mo off data fin c' t g :
  freach c gm -> find_strm sid (c_streams c) = Some t -> reach (t_send t) g ->
  fstep c (OGet sid ms) = (FGet mo (SFrame off data fin), c') ->
  off < s_highest (t_send t) < off + Zlen data ->
  c_used c' = c_used c + (off + Zlen data - s_highest (t_send t)) /\
  0 < c_used c' - c_used c < Zlen data /\
  sum_high (c_streams c') = c_used c' /\ c_used c' <= c_max_data c' /\
  off + Zlen data <= mo.
Proof.
  intros R Hf RS H Hs.
  destruct (frames_within_limit_l _ _ _ _ _ _ _ _ _ _ _ R Hf RS H) as (_ & _ & Hu & Hm & _).
  assert (R' : freach c' gm).
  { change gm with (gstep gm (OGet sid ms)). replace c' with (snd (fstep c (OGet sid ms))) by (rewrite H; reflexivity).
    apply freach_step; [exact R|exact Logic.I]. }
  destruct (connection_within_limit_l _ _ R') as (Hsum & _).
  assert (Hmo : off + Zlen data <= mo).
  { cbn [fstep] in H. rewrite Hf in H.
    destruct (s_reset_pending (t_send t) || t_blocked t || s_empty (t_send t)) eqn:Eg; [discriminate|].
    assert (He : s_empty (t_send t) = false) by (destruct (s_empty (t_send t)); [rewrite orb_true_r in Eg; discriminate|reflexivity]).
    assert (Hr : s_reset (t_send t) = None).
    { destruct (s_reset (t_send t)) eqn:Er; [|reflexivity]. pose proof (v_reset_empty _ _ (reach_inv _ _ RS)) as X.
      rewrite Er in X. rewrite X in He; [discriminate|discriminate]. }
    destruct (get_frame (t_send t) ms (Some (max_offset c t))) as [o s'] eqn:Ew. inversion H; subst o c' mo. clear H.
    pose proof (get_frame_highest_exact _ _ _ _ _ _ _ _ RS Hr Ew) as Hx.
    pose proof (get_highest (t_send t) ms (max_offset c t)) as Hh. rewrite Ew in Hh. cbn [snd] in Hh. lia. }
  repeat split; try lia.
Qed.

(* ---------- witness: such frames exist, and the two "simpler" charging rules are wrong on them ---------- *)
(* legitimate sender histories as a computable check, to discharge [reach] on concrete states *)
Fixpoint legit_all (st : send) (g : ghost) (ops : list sop) : Prop :=
  match ops with
  | [] => True
  | op :: r => legit st g op /\ legit_all (snd (send_step st op)) (ghost_step st g op (fst (send_step st op))) r
  end.
Fixpoint srun (st : send) (g : ghost) (ops : list sop) : send * ghost :=
  match ops with
  | [] => (st, g)
  | op :: r => srun (snd (send_step st op)) (ghost_step st g op (fst (send_step st op))) r
  end.
Lemma reach_srun ops : forall st g, reach st g -> legit_all st g ops ->
  reach (fst (srun st g ops)) (snd (srun st g ops)).
Proof.
  induction ops as [|op r IH]; intros st g R L; cbn [srun]; [exact R|].
  destruct L as (L1 & L2). apply IH; [apply reach_step; assumption|exact L2].
Qed.

(* peer: MAX_DATA 200, ample stream limits.  Stream 0: 40 bytes sent, the packet is lost, 40 more bytes are written
   BEFORE the retransmission is cut: pending = [0,80) with highest_offset = 40.  Stream 4: 150 bytes. *)
Definition ops_straddle_pre : list fop :=
  [OParams (Some 200) (Some 1000) (Some 1000) (Some 1000) (Some 4) (Some 4); OHandshakeDone;
   OSend 0 (zeros 40) false; OGet 0 1000; ODeliv 0 false 0 40 false; OSend 0 (zeros 40) false; OSend 4 (zeros 150) false].
Definition ops_straddle : list fop := ops_straddle_pre ++ [OGet 0 1000; OGet 4 100; OGet 4 100; OGet 4 100].
Definition sops_straddle : list sop :=
  [WWrite (zeros 40) false; WGet 1000 (Some 200); WDeliv false 0 40 false; WWrite (zeros 40) false].

Lemma straddle_witness_l :
  let c := frun (conn_init true) ops_straddle_pre in
  guards (conn_init true) ops_straddle /\
  (exists t, find_strm 0 (c_streams c) = Some t /\ s_highest (t_send t) = 40 /\ s_pending (t_send t) = [(0, 80)] /\
             reach (t_send t) (snd (srun (send_init true) ghost_init sops_straddle))) /\
  c_used c = 40 /\
  (exists c1, fstep c (OGet 0 1000) = (FGet 200 (SFrame 0 (zeros 80) false), c1) /\ c_used c1 = 80) /\
  let c2 := frun (conn_init true) ops_straddle in
  c_used c2 = 200 /\ c_max_data c2 = 200 /\
  map (fun t => (t_id t, s_highest (t_send t))) (c_streams c2) = [(0, 80); (4, 120)].
Proof.
  cbv zeta. split; [cbv; repeat split; discriminate|]. split.
  - eexists. split; [vm_compute; reflexivity|]. split; [reflexivity|]. split; [reflexivity|].
    change (reach (fst (srun (send_init true) ghost_init sops_straddle)) (snd (srun (send_init true) ghost_init sops_straddle))).
    apply reach_srun; [constructor|]. vm_compute. repeat split; auto.
  - split; [vm_compute; reflexivity|]. split; [eexists; split; vm_compute; reflexivity|].
    vm_compute. auto.
Qed.
