(* C05: the close branch of datagrams_to_send (model/ConnClose.v over C13's Builder.v).
   - the tree as it is: QuicPacketBuilderStop escapes when the Initial header (Retry token) leaves no room for the
     CONNECTION_CLOSE frame -- concrete witnesses for both raise sites (start_packet, start_frame);
   - with docs/C05-fix-10.patch: for ALL configurations (any max_datagram_size, connection-ID lengths, token length,
     close event, key availability) the round returns normally: no BufferWriteError / AssertionError / ValueError /
     CryptoError site of the builder is reachable from it. *)
From Coq Require Import ZArith List Bool Lia ZifyBool.
From AQ Require Import lib.Base lib.Tok gen.C13Consts model.Builder proofs.BuilderProofs model.ConnClose.
Import ListNotations.
Open Scope Z_scope.

(* ---------- witnesses (finding R1): a client whose peer_token is the 1300 / 1140-byte token of a Retry packet, only
   Initial keys, close event FRAME_ENCODING_ERROR / frame type 0x1f / "Unknown frame type" *)
Definition r1_cfg (token : Z) : cfg := mkCfg true 1200 8 8 token None None (Some 1500).
Definition r1_keys : keys := mkKeys false true false false.
Definition r1_ev : closeev := mkEv 7 (Some 31) 18 0.

Lemma close_send_refuted :
  close_send false (r1_cfg 1300) 0 r1_keys r1_ev = (OStop, []) /\        (* start_packet: header does not fit *)
  close_send false (r1_cfg 1140) 0 r1_keys r1_ev = (OStop, []) /\        (* start_frame: 15 bytes left, 25 needed *)
  close_send false (r1_cfg 1130) 0 r1_keys r1_ev = (ODone, [1200]) /\    (* the largest token that still works *)
  close_send true (r1_cfg 1300) 0 r1_keys r1_ev = (ODone, []) /\
  close_send true (r1_cfg 1140) 0 r1_keys r1_ev = (ODone, []).
Proof. repeat split; vm_compute; reflexivity. Qed.

(* ---------- totality of the patched round *)
Section Close.
Variable c : cfg.
Hypothesis Hwf : wf_cfg c.
Hypothesis Hfit : crypto_fits c.
Hypothesis Hmf : c_max_flight c = None.
Hypothesis Hmt : c_max_total c = None.

Definition K (s : st) : Prop :=
  0 <= b_tell s /\ b_bcap s = c_mds c /\ b_fcap s = c_mds c /\
  match b_cur s with
  | None => b_tell s = 0 \/ b_tell s <= c_mds c
  | Some p =>
      b_hascrypto s = true /\ 0 <= p_start p /\ 0 <= p_hdr p /\ p_start p + p_hdr p < c_mds c /\
      p_start p + p_hdr p <= b_tell s /\
      (b_tell s = p_start p + p_hdr p \/
       (b_tell s + AEAD_TAG_SIZE <= c_mds c /\ p_start p + p_hdr p + 2 + AEAD_TAG_SIZE <= c_mds c))
  end.

Lemma init_K pn : K (init_st c pn).
Proof. unfold K, init_st. cbn. repeat split; try lia. Qed.

Lemma flush_current_zero s o s' :
  0 <= b_tell s -> b_fcap s = c_mds c -> (b_tell s = 0 \/ b_tell s <= c_mds c) -> flush_current c s = (o, s') ->
  o = ODone /\ b_tell s' = 0 /\ b_bcap s' = b_bcap s /\ b_fcap s' = b_fcap s /\ b_cur s' = b_cur s /\
  b_hascrypto s' = b_hascrypto s.
Proof.
  unfold flush_current. intros H0 H2 H3 E.
  destruct (b_tell s =? 0) eqn:T0.
  { inversion E; subst. repeat split; auto; lia. }
  cbv zeta in E.
  destruct (b_dgpad s); [destruct (b_fcap s - b_tell s >? 0) eqn:X|];
    match type of E with context [if ?b then _ else _] => destruct b eqn:G end;
    cbn in G; inversion E; subst; clear E; cbn; try lia; repeat split; auto; lia.
Qed.

Lemma flush_current_K s o s' :
  K s -> b_cur s = None -> flush_current c s = (o, s') -> o = ODone /\ K s' /\ b_cur s' = None.
Proof.
  unfold K. intros (H0 & H1 & H2 & H3) Hc E. rewrite Hc in H3.
  apply flush_current_zero in E; auto. destruct E as (-> & E0 & E1 & E2 & E3 & E4).
  rewrite E3, Hc, E0, E1, E2. repeat split; auto; lia.
Qed.

Lemma crypto_ok n : n <= c_mds c -> (match c_cmax c with Some m => n >? m | None => false end) = false.
Proof. unfold crypto_fits in Hfit. destruct (c_cmax c); [lia|reflexivity]. Qed.

(* the tail of _end_packet once the padding is known: encrypt, push, (1-RTT: flush), packet number *)
Ltac end_tail E :=
  rewrite crypto_ok in E by lia;
  match type of E with context [if ?b then (OBufferWrite, _) else _] => destruct b eqn:?; [lia|] end;
  match type of E with context [if ?t then flush_current _ _ else _] => destruct t eqn:? end;
  [ match type of E with context [flush_current c ?s2] =>
      let F := fresh "F" in let o3 := fresh "o3" in let s3 := fresh "s3" in
      destruct (flush_current c s2) as [o3 s3] eqn:F;
      apply flush_current_zero in F; [|cbn [b_tell b_fcap]; lia..];
      let F0 := fresh in let F1 := fresh in let F2 := fresh in let F3 := fresh in let F4 := fresh in
      destruct F as (-> & F0 & F1 & F2 & F3 & F4); cbn [b_tell b_fcap b_bcap b_cur b_hascrypto] in F1, F2, F3, F4;
      inversion E; subst; clear E; cbn [b_tell b_fcap b_bcap b_cur b_hascrypto]; rewrite F0, F1, F2; repeat split; auto; lia
    end
  | inversion E; subst; clear E; cbn [b_tell b_fcap b_bcap b_cur b_hascrypto]; repeat split; auto; lia ].

Lemma end_packet_K s p o s' :
  K s -> b_cur s = Some p -> end_packet c s p = (o, s') -> o = ODone /\ K s' /\ b_cur s' = None.
Proof.
  unfold K. intros (H0 & H1 & H2 & H3) Hc E. rewrite Hc in H3.
  destruct H3 as (Hh & P0 & P1 & P2 & P3 & P4).
  unfold end_packet in E. cbv zeta in E.
  destruct (b_tell s - p_start p >? p_hdr p) eqn:NE.
  2:{ inversion E; subst. cbn. repeat split; auto; try lia. }
  destruct P4 as [P4|[P4 P5]]; [lia|]. unfold AEAD_TAG_SIZE, PACKET_NUMBER_MAX_SIZE, PACKET_NUMBER_SEND_SIZE in *.
  set (pad0 := 4 - 2 + p_hdr p - (b_tell s - p_start p)) in *.
  assert (Hpad : pad0 = 2 + p_hdr p - (b_tell s - p_start p)) by (unfold pad0; lia). clearbody pad0.
  set (isinit := (c_client c || p_ackel p) && (p_type p =? PT_INITIAL)) in *. clearbody isinit.
  destruct ((b_dgpad s || isinit) && (p_type p =? PT_ONE_RTT)) eqn:PD; cbv beta iota zeta in E.
  - (* 1-RTT packet in a datagram that needs padding: padded up to the flight capacity *)
    unfold remaining_flight_space, AEAD_TAG_SIZE in E. rewrite H2 in E.
    set (padding := if c_mds c - b_tell s - 16 >? pad0 then c_mds c - b_tell s - 16 else pad0) in *.
    assert (Hp : (padding = pad0 \/ padding = c_mds c - b_tell s - 16) /\ pad0 <= padding).
    { unfold padding. destruct (c_mds c - b_tell s - 16 >? pad0) eqn:Q; lia. }
    clearbody padding.
    destruct ((padding >? 0) && (b_tell s + padding >? c_mds c)) eqn:B1; [lia|].
    destruct (padding >? 0) eqn:PP; cbv beta iota zeta in E; end_tail E.
  - destruct ((pad0 >? 0) && (b_tell s + pad0 >? c_mds c)) eqn:B1; [lia|].
    destruct (pad0 >? 0) eqn:PP; cbv beta iota zeta in E; end_tail E.
Qed.

Lemma end_current_K s o s' : K s -> end_current c s = (o, s') -> o = ODone /\ K s' /\ b_cur s' = None.
Proof.
  unfold end_current. intros HK E. destruct (b_cur s) as [p|] eqn:Hc.
  - eapply end_packet_K; eauto.
  - inversion E; subst. auto.
Qed.

Lemma datagram_init_K s : K s -> b_cur s = None -> K (datagram_init c s) /\ b_cur (datagram_init c s) = None /\
  b_tell (datagram_init c s) = b_tell s.
Proof.
  unfold K, datagram_init. intros (H0 & H1 & H2 & H3) Hc. rewrite Hc in H3. rewrite Hmf, Hmt.
  destruct (b_dginit s); cbn; rewrite ?Hc; repeat split; auto.
Qed.

(* start_packet: a fresh, empty packet -- or QuicPacketBuilderStop with no current packet *)
Lemma start_packet_K s t o s' :
  K s -> valid_ptype t = true -> start_packet c s t = (o, s') ->
  (o = ODone /\ K s' /\ exists p, b_cur s' = Some p /\ b_tell s' = p_start p + p_hdr p) \/
  (o = OStop /\ K s' /\ b_cur s' = None).
Proof.
  intros HK Hv E. unfold start_packet in E. rewrite Hv in E. cbn [negb] in E.
  destruct (end_current c s) as [o1 s1] eqn:E1. apply end_current_K in E1; auto.
  destruct E1 as (-> & K1 & C1).
  set (r := if b_bcap s1 - b_tell s1 <? DATAGRAM_MIN_SPACE then flush_current c s1 else (ODone, s1)) in *.
  assert (R : exists s2, r = (ODone, s2) /\ K s2 /\ b_cur s2 = None).
  { unfold r. destruct (b_bcap s1 - b_tell s1 <? DATAGRAM_MIN_SPACE).
    - destruct (flush_current c s1) as [o2 s2] eqn:F. apply flush_current_K in F; auto.
      destruct F as (-> & F1 & F2). eauto.
    - eauto. }
  destruct R as (s2 & -> & K2 & C2). cbv beta iota zeta in E.
  destruct (datagram_init_K s2 K2 C2) as (K3 & C3 & T3).
  pose proof (header_size_nonneg c t Hwf) as Hh.
  destruct (b_tell s2 + header_size c t >=? b_bcap (datagram_init c s2)) eqn:G.
  - inversion E; subst. right. auto.
  - inversion E; subst; clear E. left. split; [reflexivity|].
    destruct K3 as (A0 & A1 & A2 & A3). rewrite C3 in A3. rewrite T3 in *.
    split.
    + unfold K. cbn. repeat split; auto; lia.
    + eexists. split; [reflexivity|]. cbn. reflexivity.
Qed.

(* ---------- writing the frame: [lim] = the position the declared capacity allows the frame to reach *)
Definition W (s : st) (lim : Z) : Prop :=
  exists p, b_cur s = Some p /\ b_hascrypto s = true /\ 0 <= p_start p /\ 0 <= p_hdr p /\
    p_start p + p_hdr p < c_mds c /\ p_start p + p_hdr p < b_tell s /\ b_tell s <= lim /\
    lim + AEAD_TAG_SIZE <= c_mds c /\ p_start p + p_hdr p + 2 + AEAD_TAG_SIZE <= c_mds c /\
    b_bcap s = c_mds c /\ b_fcap s = c_mds c.

Lemma W_K s lim : W s lim -> K s.
Proof.
  intros (p & Hc & Hh & A & B & C & D & E & F & G & H1 & H2). unfold K. rewrite Hc. unfold AEAD_TAG_SIZE in *.
  repeat split; auto; lia.
Qed.

Lemma push_W s lim n :
  W s lim -> 0 <= n -> b_tell s + n <= lim -> exists s', push c s n = (ODone, s') /\ W s' lim /\ b_tell s' = b_tell s + n.
Proof.
  intros (p & Hc & Hh & A & B & C & D & E & F & G & H1 & H2) Hn Hl. unfold push, AEAD_TAG_SIZE in *.
  destruct (n <? 0) eqn:N; [lia|]. destruct (b_tell s + n >? c_mds c) eqn:M; [lia|].
  eexists. split; [reflexivity|]. split; [|reflexivity].
  exists p. cbn. unfold AEAD_TAG_SIZE. repeat split; auto; lia.
Qed.

Lemma size_uint_var_range v : 0 <= v < 4611686018427387904 -> exists n, size_uint_var v = Some n /\ 1 <= n <= 8.
Proof.
  intros Hv. unfold size_uint_var.
  destruct (v <? 64); [exists 1; split; [reflexivity|lia]|].
  destruct (v <? 16384); [exists 2; split; [reflexivity|lia]|].
  destruct (v <? 1073741824); [exists 4; split; [reflexivity|lia]|].
  destruct (v <? 4611686018427387904) eqn:E; [exists 8; split; [reflexivity|lia]|lia].
Qed.

Lemma push_var_W s lim v :
  W s lim -> 0 <= v < 4611686018427387904 -> b_tell s + 8 <= lim ->
  exists s', push_var c s v = (ODone, s') /\ W s' lim /\ b_tell s' <= b_tell s + 8.
Proof.
  intros HW Hv Hl. unfold push_var. destruct (size_uint_var_range v Hv) as (n & -> & Hn).
  destruct (push_W s lim n HW) as (s' & E & W' & T); try lia. exists s'. repeat split; auto. lia.
Qed.

(* start_frame for a CONNECTION_CLOSE frame in a packet that is still empty *)
Lemma start_frame_W s p ft cap o s' :
  K s -> b_cur s = Some p -> b_tell s = p_start p + p_hdr p -> (ft = FT_TRANSPORT_CLOSE \/ ft = FT_APPLICATION_CLOSE) ->
  0 <= cap -> start_frame c s ft cap = (o, s') ->
  (o = OStop /\ s' = s) \/ (o = ODone /\ W s' (b_tell s + cap) /\ b_tell s' = b_tell s + 1 /\ 2 <= cap \/
                           o = ODone /\ W s' (b_tell s + 2) /\ b_tell s' = b_tell s + 1 /\ cap < 2).
Proof.
  unfold K. intros (H0 & H1 & H2 & H3) Hc Ht Hft Hcap E. rewrite Hc in H3.
  destruct H3 as (Hh & P0 & P1 & P2 & P3 & _).
  unfold start_frame in E. rewrite Hc in E.
  replace (b_tell s - p_start p <=? p_hdr p) with true in E by lia.
  rewrite Hh in E. cbn [negb] in E. unfold START_FRAME_EMPTY_RESERVE, remaining_buffer_space, remaining_flight_space, AEAD_TAG_SIZE in *.
  assert (Hnif : zmem ft NON_IN_FLIGHT = true) by (destruct Hft as [-> | ->]; reflexivity).
  assert (Hsz : size_uint_var (ft mod 18446744073709551616) = Some 1) by (destruct Hft as [-> | ->]; reflexivity).
  rewrite Hnif, Hsz in E. cbn [negb andb orb] in E. rewrite Bool.orb_false_r in E.
  destruct (cap <? 2) eqn:C2.
  - destruct (b_bcap s - b_tell s - 16 <? 2) eqn:R; [inversion E; subst; left; auto|].
    destruct (b_tell s + 1 >? c_mds c) eqn:B; [lia|]. inversion E; subst; clear E. right. right.
    split; [reflexivity|]. split; [|cbn [b_cur b_hascrypto b_tell b_bcap b_fcap p_start p_hdr set_cur set_tell]; lia].
    eexists. split; [cbn [b_cur b_hascrypto b_tell b_bcap b_fcap p_start p_hdr set_cur set_tell]; reflexivity|]. cbn [b_cur b_hascrypto b_tell b_bcap b_fcap p_start p_hdr set_cur set_tell]. unfold AEAD_TAG_SIZE. repeat split; auto; lia.
  - destruct (b_bcap s - b_tell s - 16 <? cap) eqn:R; [inversion E; subst; left; auto|].
    destruct (b_tell s + 1 >? c_mds c) eqn:B; [lia|]. inversion E; subst; clear E. right. left.
    split; [reflexivity|]. split; [|cbn [b_cur b_hascrypto b_tell b_bcap b_fcap p_start p_hdr set_cur set_tell]; lia].
    eexists. split; [cbn [b_cur b_hascrypto b_tell b_bcap b_fcap p_start p_hdr set_cur set_tell]; reflexivity|]. cbn [b_cur b_hascrypto b_tell b_bcap b_fcap p_start p_hdr set_cur set_tell]. unfold AEAD_TAG_SIZE. repeat split; auto; lia.
Qed.

(* the close event: codes and frame types are varint-sized, lengths non-negative *)
Definition ev_ok (ev : closeev) : Prop :=
  0 <= e_code ev < 4611686018427387904 /\
  match e_ft ev with Some f => 0 <= f < 4611686018427387904 | None => True end /\
  0 <= e_reason ev < 4611686018427387904 /\ 0 <= e_slack ev.

Lemma write_close_K s p lng ev o s' :
  K s -> b_cur s = Some p -> b_tell s = p_start p + p_hdr p -> ev_ok ev ->
  write_close c s lng ev = (o, s') -> (o = ODone \/ o = OStop) /\ K s'.
Proof.
  intros HK Hc Ht (Hcode & Hft & Hreason & Hslack) E. unfold write_close in E.
  set (convert := match e_ft ev with None => true | Some _ => false end && lng) in *.
  set (code := if convert then EC_APPLICATION_ERROR else e_code ev) in *.
  set (ft := if convert then Some FT_PADDING else e_ft ev) in *.
  set (reason := if convert then 0 else e_reason ev) in *.
  set (maxr := Z.max 0 (remaining_buffer_space s - TRANSPORT_CLOSE_FRAME_CAPACITY)) in *.
  set (rl := if reason >? maxr then Z.max 0 (maxr - e_slack ev) else reason) in *.
  assert (Hc2 : 0 <= code < 4611686018427387904) by (unfold code, EC_APPLICATION_ERROR; destruct convert; lia).
  assert (Hr2 : 0 <= reason < 4611686018427387904) by (unfold reason; destruct convert; lia).
  assert (Hrl : 0 <= rl < 4611686018427387904) by (unfold rl; destruct (reason >? maxr) eqn:Q; lia).
  assert (Hf2 : match ft with Some f => 0 <= f < 4611686018427387904 | None => True end).
  { unfold ft, FT_PADDING. destruct convert; [lia|exact Hft]. }
  clearbody rl code ft. clear reason Hr2 maxr convert.
  unfold TRANSPORT_CLOSE_FRAME_CAPACITY, APPLICATION_CLOSE_FRAME_CAPACITY in E.
  destruct ft as [f|].
  - destruct (start_frame c s FT_TRANSPORT_CLOSE (25 + rl)) as [o1 s1] eqn:SF.
    apply (start_frame_W s p) in SF; auto; try lia.
    destruct SF as [[-> ->]|[(-> & HW & T1 & _)|(_ & _ & _ & X)]]; [inversion E; subst; auto| |lia].
    cbn [andthen] in E.
    destruct (push_var_W s1 _ code HW Hc2) as (s2 & E2 & W2 & T2); [lia|]. rewrite E2 in E. cbn [andthen] in E.
    destruct (push_var_W s2 _ f W2 Hf2) as (s3 & E3 & W3 & T3); [lia|]. rewrite E3 in E. cbn [andthen] in E.
    destruct (push_var_W s3 _ rl W3 Hrl) as (s4 & E4 & W4 & T4); [lia|]. rewrite E4 in E. cbn [andthen] in E.
    destruct (push_W s4 _ rl W4) as (s5 & E5 & W5 & T5); try lia. rewrite E5 in E. inversion E; subst.
    split; [auto|]. eapply W_K; eauto.
  - destruct (start_frame c s FT_APPLICATION_CLOSE (17 + rl)) as [o1 s1] eqn:SF.
    apply (start_frame_W s p) in SF; auto; try lia.
    destruct SF as [[-> ->]|[(-> & HW & T1 & _)|(_ & _ & _ & X)]]; [inversion E; subst; auto| |lia].
    cbn [andthen] in E.
    destruct (push_var_W s1 _ code HW Hc2) as (s2 & E2 & W2 & T2); [lia|]. rewrite E2 in E. cbn [andthen] in E.
    destruct (push_var_W s2 _ rl W2 Hrl) as (s4 & E4 & W4 & T4); [lia|]. rewrite E4 in E. cbn [andthen] in E.
    destruct (push_W s4 _ rl W4) as (s5 & E5 & W5 & T5); try lia. rewrite E5 in E. inversion E; subst.
    split; [auto|]. eapply W_K; eauto.
Qed.

Lemma close_packet_K s t lng ev o s' :
  K s -> valid_ptype t = true -> ev_ok ev -> close_packet true c s t lng ev = (o, s') -> o = ODone /\ K s'.
Proof.
  intros HK Hv Hev E. unfold close_packet in E.
  destruct (start_packet c s t) as [o1 s1] eqn:SP. apply start_packet_K in SP; auto.
  destruct SP as [(-> & K1 & p & Hc & Ht)|(-> & K1 & _)]; cbn [andthen] in E.
  - destruct (write_close c s1 lng ev) as [o2 s2] eqn:WC.
    apply (write_close_K s1 p) in WC; auto. destruct WC as ([-> | ->] & K2); inversion E; subst; auto.
  - inversion E; subst; auto.
Qed.

Lemma close_packets_K l : forall s ev o s',
  K s -> Forall (fun x => valid_ptype (fst (fst x)) = true) l -> ev_ok ev ->
  close_packets true c s l ev = (o, s') -> o = ODone /\ K s'.
Proof.
  induction l as [|[[t valid] lng] r IH]; intros s ev o s' HK Hl Hev E; cbn [close_packets] in E.
  - inversion E; subst; auto.
  - inversion Hl as [|x y Hx Hy]; subst. cbn in Hx. destruct valid.
    + destruct (close_packet true c s t lng ev) as [o1 s1] eqn:CP. apply close_packet_K in CP; auto.
      destruct CP as (-> & K1). cbn [andthen] in E. eapply IH; eauto.
    + eapply IH; eauto.
Qed.

Lemma flush_K s o s' d pk : K s -> flush c s = (o, s', d, pk) -> o = ODone.
Proof.
  intros HK E. unfold flush in E. destruct (end_current c s) as [o1 s1] eqn:E1.
  apply end_current_K in E1; auto. destruct E1 as (-> & K1 & C1).
  destruct (flush_current c s1) as [o2 s2] eqn:E2. apply flush_current_K in E2; auto.
  destruct E2 as (-> & _). inversion E; subst; reflexivity.
Qed.

Theorem close_send_total_sec pn k ev : ev_ok ev -> fst (close_send true c pn k ev) = ODone.
Proof.
  intros Hev. unfold close_send.
  destruct (close_packets true c (init_st c pn) (packet_plan k) ev) as [o s] eqn:E.
  apply close_packets_K in E; auto using init_K.
  - destruct E as (-> & HK). destruct (flush c s) as [[[o2 s2] d] pk] eqn:F.
    apply flush_K in F; [|exact HK]. subst o2. reflexivity.
  - unfold packet_plan. destruct (k_confirmed k); repeat constructor.
Qed.
End Close.

(* ---------- closed statements *)
Theorem close_send_total : forall c pn k ev,
  wf_cfg c -> crypto_fits c -> c_max_flight c = None -> c_max_total c = None -> ev_ok ev ->
  fst (close_send true c pn k ev) = ODone.
Proof. intros. apply close_send_total_sec; assumption. Qed.

(* the hypotheses are satisfiable: the default configuration of finding R1, where the unpatched round raises *)
Example close_send_hyps :
  wf_cfg (r1_cfg 1300) /\ crypto_fits (r1_cfg 1300) /\ ev_ok r1_ev /\
  fst (close_send false (r1_cfg 1300) 0 r1_keys r1_ev) = OStop.
Proof. unfold wf_cfg, crypto_fits, ev_ok. cbn. repeat split; try lia. Qed.
