(* C12, timeliness on the COMPOSED receive model (model/RecvAck.v): the timeliness sentence of the property restated on
   whole runs of the connection-level operations -- packets with arbitrary decryption verdicts and payload effects
   (in-payload ACK-of-ACK prunes, handshake completion, discards of any space, CONNECTION_CLOSE, connection errors),
   sends in any space at any time with any room / pacer verdict, completions, discards, close(), _initialize() --
   with a monotone clock and acknowledgement delays d <= dmax.

   Plan: the timeliness invariant of proofs/AckQueueP2.v (TInv) without its two space-kind clauses and WITHOUT the guard
   `closing = false` (TI below) holds in every space of every state of a timed run; every payload effect keeps it
   (FxAck: a handler argument is below every owed packet number; FxComplete / FxPeerClose / FxError: flags only;
   FxDiscard j: the space is gone, nothing is owed there); the recording tail is AckQueue.record (tail_record), for which
   tinv_recv0 is re-used; sends re-use tinv_send / write_ack_all. *)
From Coq Require Import ZArith List Bool Lia ZifyBool.
From AQ Require Import lib.Base lib.Tok model.Codec model.Varint model.RangeSet model.AckFrame gen.C12Consts gen.C12RecvOrder
  model.AckQueue model.RecvAck proofs.RangeSetP proofs.AckQueueP proofs.AckQueueP2 proofs.RecvAckP.

(* ---- timed runs of the composed model ------------------------------------------------------------------------------------ *)
(* [now] = the time of the last API call.  Premises per op: the clock does not go back, the acknowledgement delay
   d = fl(now + _ack_delay) - now is within dmax, the encoded delay field is encodable, and -- as in reach_t -- at most
   MAX_ACK_RANGES ranges are queued when a send is made (beyond that: finding F2, ack_timely_cap_refuted) *)
Definition wf_cop_t (dmax : Z) (c : rconn) (now : Z) (o : cop) : Prop :=
  wf_cop o /\
  match o with
  | CPacket _ _ _ t d => now <= t /\ 0 <= d <= dmax
  | CSend i t delay _ _ => now <= t /\ 0 <= delay < 2 ^ 62 /\ Zlen (aq (spc c i)) <= MAX_ACK_RANGES
  | _ => True
  end.

Definition cop_time (now : Z) (o : cop) : Z :=
  match o with CPacket _ _ _ t _ => t | CSend _ t _ _ _ => t | _ => now end.

Inductive creach_t (dmax : Z) : rconn -> Z -> Prop :=
| crt_init now : 0 <= now -> creach_t dmax rinit now
| crt_step c now o : creach_t dmax c now -> wf_cop_t dmax c now o -> creach_t dmax (snd (cstep c o)) (cop_time now o).

Lemma creach_t_creach dmax c now : creach_t dmax c now -> creach c.
Proof. induction 1; [constructor|]. apply creach_step; auto. destruct H0; auto. Qed.

Fixpoint crun_t (dmax : Z) (c : rconn) (now : Z) (ops : list cop) : Prop :=
  match ops with
  | [] => True
  | o :: r => wf_cop_t dmax c now o /\ crun_t dmax (snd (cstep c o)) (cop_time now o) r
  end.
Fixpoint clock_after (now : Z) (ops : list cop) : Z :=
  match ops with [] => now | o :: r => clock_after (cop_time now o) r end.

Lemma crun_t_reach dmax ops : forall c now, creach_t dmax c now -> crun_t dmax c now ops ->
  creach_t dmax (crun c ops) (clock_after now ops).
Proof.
  induction ops as [|o r IH]; intros c now R H; cbn; [exact R|]. destruct H as (H1 & H2).
  apply IH; [|exact H2]. apply crt_step; auto.
Qed.

(* ---- the per-space invariant ---------------------------------------------------------------------------------------------- *)
Record TI (dmax : Z) (s : space) : Prop := mkTI {
  ti_armed : forall x, ack_at s = Some x -> x <= clk s + dmax;
  ti_owed : disc s = false -> forall L t, In (L, t) (owed s) ->
      mem L (aq s) /\ (exists x, ack_at s = Some x /\ x <= t + dmax) /\ t <= clk s /\
      (forall q h, In (q, h) (frames s) -> h < L) /\ (app s = true -> complete s = true)
}.

Lemma ti_tinv dmax s : disc s = false -> TI dmax s -> TInv dmax (app s) s.
Proof. intros D [A O]. constructor; auto. Qed.

Lemma tinv_ti dmax a s : closing s = false -> TInv dmax a s -> TI dmax s.
Proof. intros C [A N R O]. constructor; auto. Qed.

Lemma ti_clk dmax s t : TI dmax s -> clk s <= t -> TI dmax (set_clk s t).
Proof.
  intros [R O] H. constructor; cbn.
  - intros x Hx. specialize (R x Hx). lia.
  - intros D L t0 Hin. destruct (O D L t0 Hin) as (M & E & T & F & K). repeat split; auto. lia.
Qed.

Lemma ti_set_complete dmax s : TI dmax s -> TI dmax (set_complete s).
Proof.
  intros [R O]. constructor; cbn; auto.
  intros D L t0 Hin. destruct (O D L t0 Hin) as (M & E & T & F & K). repeat split; auto.
Qed.

Lemma ti_set_closing dmax s : TI dmax s -> TI dmax (set_closing s).
Proof. intros [R O]. constructor; cbn; auto. Qed.

Lemma ti_discard dmax s : TI dmax (discard s).
Proof. constructor; cbn; congruence. Qed.

Lemma ti_reinit dmax r : TI dmax (sp (reinit r)).
Proof. constructor; cbn; [congruence|]. intros _ L t []. Qed.

Lemma ti_init dmax a : TI dmax (init a).
Proof. constructor; cbn; [congruence|]. intros _ L t []. Qed.

(* an acknowledgement of one of our ACK frames, in the middle of a payload: the handler argument of a frame that was
   written is below every owed packet number, so the pruning keeps every owed packet *)
Lemma ti_ack_of dmax s h s' : Inv0 s -> TI dmax s -> ack_of s h = Ok s' -> TI dmax s'.
Proof.
  intros I [R O] H. unfold ack_of in H. destruct (known_handler s h) eqn:K; [|inversion H; subst; constructor; auto].
  destruct (deliver (aq s) h) as [q|] eqn:E; [|discriminate]. cbn in H. inversion H; subst; clear H.
  destruct (deliver_spec _ _ _ (i_wf _ I) E) as (_ & M).
  unfold known_handler in K. apply existsb_exists in K. destruct K as ([q0 h0] & Hin0 & E0). cbn in E0.
  assert (h0 = h) by lia. subst h0.
  constructor; cbn; auto.
  intros D L t0 Hin. destruct (O D L t0 Hin) as (M0 & E1 & T & F & K). repeat split; auto.
  apply M. split; auto. specialize (F q0 h Hin0). lia.
Qed.

(* what no payload effect touches *)
Definition same_static (s s' : space) : Prop :=
  app s' = app s /\ lrp s' = lrp s /\ owed s' = owed s /\ frames s' = frames s /\ clk s' = clk s.

Lemma same_static_refl s : same_static s s.
Proof. repeat split. Qed.
Lemma same_static_trans s1 s2 s3 : same_static s1 s2 -> same_static s2 s3 -> same_static s1 s3.
Proof. unfold same_static. intros (A1 & A2 & A3 & A4 & A5) (B1 & B2 & B3 & B4 & B5). repeat split; congruence. Qed.

Lemma ack_of_static s h s' : ack_of s h = Ok s' -> same_static s s'.
Proof.
  unfold ack_of. destruct (known_handler s h); [|intros H; inversion H; subst; apply same_static_refl].
  destruct (deliver (aq s) h); [|discriminate]. cbn. intros H; inversion H; subst. repeat split.
Qed.

Lemma fx_apply_static c i f c' : fx_apply c i f = Ok c' -> forall j, same_static (spc c j) (spc c' j).
Proof.
  intros H. destruct f; cbn [fx_apply] in H.
  - destruct (ack_of (spc c i) h) as [s'|] eqn:E; [|discriminate]. cbn in H. inversion H; subst; clear H.
    intros j. rewrite spc_rupd. destruct (sid_eqb i j) eqn:E1; [|apply same_static_refl].
    apply sid_eqb_eq in E1. subst j. eapply ack_of_static; eauto.
  - inversion H; subst. intros j. rewrite spc_rall. repeat split.
  - inversion H; subst. intros k. rewrite spc_rupd. destruct (sid_eqb j k) eqn:E1; [|apply same_static_refl].
    apply sid_eqb_eq in E1. subst k. repeat split.
  - inversion H; subst. intros j. rewrite spc_rall. repeat split.
  - inversion H; subst. intros; apply same_static_refl.
  - inversion H; subst. intros; apply same_static_refl.
Qed.

Lemma payload_loop_static i fs : forall c e f c' elic raised, payload_loop c i fs e f = Ok (c', elic, raised) ->
  forall j, same_static (spc c j) (spc c' j).
Proof.
  induction fs as [|fx0 r IH]; intros c e f c' elic raised H; cbn [payload_loop] in H.
  - inversion H; subst. intros; apply same_static_refl.
  - assert (K : forall c1, fx_apply c i fx0 = Ok c1 -> payload_loop c1 i r e f = Ok (c', elic, raised) ->
              forall j, same_static (spc c j) (spc c' j)).
    { intros c1 E1 H1 j. eapply same_static_trans; [eapply fx_apply_static; eauto|eapply IH; eauto]. }
    destruct fx0.
    + destruct (fx_apply c i (FxAck h)) as [c1|] eqn:E1; [|discriminate]. cbn [bind] in H. eapply K; eauto.
    + destruct (fx_apply c i FxComplete) as [c1|] eqn:E1; [|discriminate]. cbn [bind] in H. eapply K; eauto.
    + destruct (fx_apply c i (FxDiscard j)) as [c1|] eqn:E1; [|discriminate]. cbn [bind] in H. eapply K; eauto.
    + destruct (fx_apply c i FxPeerClose) as [c1|] eqn:E1; [|discriminate]. cbn [bind] in H. eapply K; eauto.
    + eapply IH; eauto.
    + inversion H; subst. intros; apply same_static_refl.
Qed.

Lemma fx_apply_ti dmax c i f c' : PInv i c -> (forall j, TI dmax (spc c j)) -> fx_apply c i f = Ok c' ->
  forall j, TI dmax (spc c' j).
Proof.
  intros [I0 _] T H. destruct f; cbn [fx_apply] in H.
  - destruct (ack_of (spc c i) h) as [s'|] eqn:E; [|discriminate]. cbn in H. inversion H; subst; clear H.
    intros j; rewrite spc_rupd; destruct (sid_eqb i j) eqn:E1; auto. eapply ti_ack_of; eauto.
  - inversion H; subst; clear H. intros j; rewrite spc_rall; apply ti_set_complete; auto.
  - inversion H; subst; clear H. intros k; rewrite spc_rupd; destruct (sid_eqb j k) eqn:E1; auto. apply ti_discard.
  - inversion H; subst; clear H. intros j; rewrite spc_rall; apply ti_set_closing; auto.
  - inversion H; subst. auto.
  - inversion H; subst. auto.
Qed.

Lemma payload_loop_ti dmax i fs : forall c e f c' elic raised, PInv i c -> (forall j, TI dmax (spc c j)) ->
  payload_loop c i fs e f = Ok (c', elic, raised) -> forall j, TI dmax (spc c' j).
Proof.
  induction fs as [|fx0 r IH]; intros c e f c' elic raised P T H; cbn [payload_loop] in H.
  - inversion H; subst. auto.
  - assert (K : forall c1, fx_apply c i fx0 = Ok c1 -> payload_loop c1 i r e f = Ok (c', elic, raised) ->
              forall j, TI dmax (spc c' j)).
    { intros c1 E1 H1. destruct (fx_apply_spec _ _ _ _ P E1) as (P1 & _).
      pose proof (fx_apply_ti dmax _ _ _ _ P T E1) as T1. eapply IH; eauto. }
    destruct fx0.
    + destruct (fx_apply c i (FxAck h)) as [c1|] eqn:E1; [|discriminate]. cbn [bind] in H. eapply K; eauto.
    + destruct (fx_apply c i FxComplete) as [c1|] eqn:E1; [|discriminate]. cbn [bind] in H. eapply K; eauto.
    + destruct (fx_apply c i (FxDiscard j)) as [c1|] eqn:E1; [|discriminate]. cbn [bind] in H. eapply K; eauto.
    + destruct (fx_apply c i FxPeerClose) as [c1|] eqn:E1; [|discriminate]. cbn [bind] in H. eapply K; eauto.
    + eapply IH; eauto.
    + inversion H; subst. auto.
Qed.

(* the recording tail *)
Lemma set_clk_same s t : clk s = t -> set_clk s t = s.
Proof. destruct s; cbn; intros ->; reflexivity. Qed.

Lemma ti_record dmax s pn elic t d : Inv0 s -> TI dmax s -> closing s = false -> clk s = t -> pn_ok pn -> 0 <= d <= dmax ->
  TI dmax (record s pn elic t d).
Proof.
  intros I T C K Hp Hd. destruct (disc s) eqn:D.
  - unfold record. rewrite D. exact T.
  - assert (E : recv s pn elic t d [] true = Ok (record s pn elic t d)).
    { unfold recv. cbn [delivers bind]. rewrite set_aq_same, (set_clk_same _ _ K), C. reflexivity. }
    apply (tinv_ti dmax (app s)).
    + unfold record. rewrite D. cbn. exact C.
    + eapply (tinv_recv0 dmax (app s) s pn elic t d [] true); [exact I|apply ti_tinv; auto| |exact E].
      split; [split; [exact Hp|intros h []]|]. split; [lia|exact Hd].
Qed.

Lemma record_static s pn elic t d : app (record s pn elic t d) = app s /\ clk (record s pn elic t d) = clk s /\
  closing (record s pn elic t d) = closing s /\ (forall x, In x (owed s) -> In x (owed (record s pn elic t d))).
Proof.
  unfold record. destruct (disc s); [repeat split; auto|]. cbn. repeat split; auto.
  intros x Hx. destruct (elic && _ && _); [right|]; exact Hx.
Qed.

(* sends *)
Lemma write_ack_static s delay room r s' : write_ack s delay room = (r, s') ->
  app s' = app s /\ clk s' = clk s /\ closing s' = closing s /\ disc s' = disc s.
Proof.
  unfold write_ack. destruct (room <? _); [intros H; inversion H; subst; repeat split|].
  destruct (w_chunks _ _ _); intros H; inversion H; subst; repeat split.
Qed.

Lemma send_static s t delay room blocked r s' : send s t delay room blocked = (r, s') ->
  app s' = app s /\ clk s' = t /\ closing s' = closing s /\ disc s' = disc s.
Proof.
  intros H. unfold send in H.
  assert (K : forall r s', write_ack (set_clk s t) delay room = (r, s') ->
            app s' = app s /\ clk s' = t /\ closing s' = closing s /\ disc s' = disc s).
  { intros r0 s0 H0. apply write_ack_static in H0. exact H0. }
  destruct (closing (set_clk s t)); [inversion H; subst; repeat split|].
  destruct (disc (set_clk s t)); [inversion H; subst; repeat split|].
  destruct (app (set_clk s t)).
  - destruct (negb _ && blocked); [inversion H; subst; repeat split|].
    destruct (complete (set_clk s t)); [|inversion H; subst; repeat split].
    destruct (ack_at (set_clk s t)); [|inversion H; subst; repeat split].
    destruct (z <=? t); [|inversion H; subst; repeat split]. eapply K; eauto.
  - destruct (ack_at (set_clk s t)); [|inversion H; subst; repeat split]. eapply K; eauto.
Qed.

Lemma ti_send dmax s t delay room blocked r s' : Inv s -> TI dmax s -> clk s <= t -> Zlen (aq s) <= MAX_ACK_RANGES ->
  send s t delay room blocked = (r, s') -> TI dmax s'.
Proof.
  intros I T Hc Hq H.
  destruct (closing s) eqn:C.
  { unfold send in H. cbn [closing set_clk] in H. rewrite C in H. inversion H; subst. apply ti_clk; auto. }
  destruct (disc s) eqn:D.
  { unfold send in H. cbn [closing disc set_clk] in H. rewrite C, D in H. inversion H; subst. apply ti_clk; auto. }
  apply (tinv_ti dmax (app s)).
  - destruct (send_static _ _ _ _ _ _ _ H) as (_ & _ & E & _). congruence.
  - eapply tinv_send; eauto. apply ti_tinv; auto.
Qed.

(* ---- the invariant of timed runs ------------------------------------------------------------------------------------------- *)
Definition is_app (j : sid) : bool := match j with SApp => true | _ => false end.

Record TC (dmax : Z) (c : rconn) (now : Z) : Prop := mkTC {
  tc_inv : CInv c;
  tc_ti : forall j, TI dmax (spc c j);
  tc_clk : forall j, clk (spc c j) <= now;
  tc_app : forall j, app (spc c j) = is_app j
}.

Lemma tc_init dmax now : 0 <= now -> TC dmax rinit now.
Proof.
  intros H. constructor; [apply cinv_init| | |]; intros j; destruct j; cbn; try apply ti_init; auto.
Qed.

Lemma spc_bump c i pn j : spc (rupd c i (bump pn)) j = spc c j.
Proof. unfold spc. rewrite rget_rupd. destruct (sid_eqb i j) eqn:E; [|reflexivity]. apply sid_eqb_eq in E. subst. reflexivity. Qed.

Lemma tc_packet dmax c now i v fs t d c' : TC dmax c now -> pn_ok_v v -> now <= t -> 0 <= d <= dmax ->
  recv_closed c i v fs t d = Ok c' -> TC dmax c' t.
Proof.
  intros [I T K A] Hp Ht Hd H.
  assert (I' : CInv c') by (eapply recv_closed_inv; eauto).
  assert (Keep : TC dmax c t) by (constructor; auto; intros j; specialize (K j); lia).
  unfold recv_closed in H.
  destruct (closing (spc c i)) eqn:C0; [inversion H; subst; exact Keep|].
  destruct v as [| |pn rsv]; [inversion H; subst; exact Keep|inversion H; subst; exact Keep|].
  destruct rsv.
  { inversion H; subst. constructor; auto; intros j; rewrite spc_rall; cbn; [apply ti_set_closing; auto|specialize (K j); lia|auto]. }
  fold (pre_payload c i pn t) in H.
  destruct (payload_received (pre_payload c i pn t) i fs) as [[[c2 elic] raised]|k] eqn:EP; [|discriminate].
  cbn [bind] in H.
  assert (P0 : PInv i (pre_payload c i pn t)) by (apply pre_payload_pinv; exact I).
  assert (T0 : forall j, TI dmax (spc (pre_payload c i pn t) j)).
  { intros j. rewrite spc_pre_payload. destruct (sid_eqb i j); auto. apply ti_clk; auto. specialize (K i). lia. }
  destruct (payload_loop_spec _ _ _ _ _ _ _ _ P0 EP) as (P2 & _).
  pose proof (payload_loop_ti dmax _ _ _ _ _ _ _ _ P0 T0 EP) as T2.
  pose proof (payload_loop_static _ _ _ _ _ _ _ _ EP) as S2.
  assert (K2 : forall j, clk (spc c2 j) <= t /\ app (spc c2 j) = is_app j /\ (j = i -> clk (spc c2 j) = t)).
  { intros j. destruct (S2 j) as (Sa & _ & _ & _ & Sc). rewrite Sa, Sc, spc_pre_payload.
    destruct (sid_eqb i j) eqn:E1.
    - apply sid_eqb_eq in E1. subst j. cbn. repeat split; auto. lia.
    - repeat split; auto; [specialize (K j); lia|]. intros ->. rewrite sid_eqb_refl in E1. discriminate. }
  set (c3 := if raised then rall c2 (on_sp set_closing) else c2) in *.
  assert (T3 : forall j, TI dmax (spc c3 j)).
  { intros j. subst c3. destruct raised; auto. rewrite spc_rall. apply ti_set_closing; auto. }
  assert (K3 : forall j, clk (spc c3 j) <= t /\ app (spc c3 j) = is_app j /\ (j = i -> clk (spc c3 j) = t)).
  { intros j. subst c3. destruct raised; auto. rewrite spc_rall. cbn. apply K2. }
  assert (I3 : forall j, Inv0 (spc c3 j)).
  { intros j. subst c3. destruct raised; [rewrite spc_rall; apply inv0_set_closing|]; apply (proj1 P2). }
  destruct (closing (spc c3 i)) eqn:C3; inversion H; subst; clear H.
  - constructor; auto; intros j; apply K3.
  - constructor; auto; intros j; rewrite spc_rupd; destruct (sid_eqb i j) eqn:E1; try apply K3; auto.
    + rewrite tail_record. apply ti_record; auto. apply K3; reflexivity.
    + rewrite tail_record. destruct (record_static (spc c3 i) pn elic t d) as (_ & -> & _). apply K3.
    + rewrite tail_record. destruct (record_static (spc c3 i) pn elic t d) as (-> & _).
      apply sid_eqb_eq in E1. subst j. apply K3.
Qed.

Lemma tc_step dmax c now o : TC dmax c now -> wf_cop_t dmax c now o -> TC dmax (snd (cstep c o)) (cop_time now o).
Proof.
  intros X (Hw & Ht).
  assert (I' : CInv (snd (cstep c o))) by (apply cinv_step; [apply X|exact Hw]).
  destruct o; cbn [cstep cstep_ord cop_time] in *.
  - change (recv_ord code_order) with recv_packet in *. rewrite recv_packet_closed in *.
    destruct (recv_closed c i v fs t d) as [c'|k] eqn:E; cbn [snd] in *.
    + eapply tc_packet; eauto; tauto.
    + destruct X as [I T K A]. constructor; auto. intros j. specialize (K j). lia.
  - destruct X as [I T K A]. destruct Ht as (Hn & Hd & Hq).
    destruct (send (spc c i) t delay room blocked) as [r s'] eqn:E. cbn [snd] in *.
    destruct (send_static _ _ _ _ _ _ _ E) as (Sa & Sc & _).
    assert (Ki : clk (spc c i) <= t) by (specialize (K i); lia).
    pose proof (ti_send dmax _ _ _ _ _ _ _ (I i) (T i) Ki Hq E) as Ts.
    constructor; [exact I'| | |]; intros j; rewrite spc_rupd; destruct (sid_eqb i j) eqn:E1.
    + exact Ts.
    + apply T.
    + lia.
    + specialize (K j). lia.
    + apply sid_eqb_eq in E1. subst j. rewrite Sa. apply A.
    + apply A.
  - destruct X as [I T K A]. cbn [snd] in *. constructor; auto; intros j; rewrite spc_rall; cbn; auto. apply ti_set_complete; auto.
  - destruct X as [I T K A]. cbn [snd] in *. constructor; auto; intros k; rewrite spc_rupd; destruct (sid_eqb j k) eqn:E1; auto.
    + apply ti_discard.
    + cbn. apply sid_eqb_eq in E1. subst k. auto.
    + cbn. apply sid_eqb_eq in E1. subst k. auto.
  - destruct X as [I T K A]. cbn [snd] in *. constructor; auto; intros j; rewrite spc_rall; cbn; auto. apply ti_set_closing; auto.
  - destruct X as [I T K A]. cbn [snd] in *. constructor; auto; intros j; unfold spc; rewrite rget_rall.
    + apply ti_reinit.
    + cbn. apply K.
    + cbn. apply A.
Qed.

Lemma creach_t_tc dmax c now : creach_t dmax c now -> TC dmax c now.
Proof. induction 1; [apply tc_init; auto|apply tc_step; auto]. Qed.

(* ---- statements -------------------------------------------------------------------------------------------------------------- *)

(* how a packet becomes owed in the composed model: it decrypts (clear reserved bits) on a live connection, its payload
   -- whatever it acknowledges, completes or discards on the way -- runs to its end without a connection error, is
   ack-eliciting, does not close the connection nor discard the packet's own space; the packet number is above everything
   recorded so far in the space; application space: the handshake is complete when the payload ends *)
Theorem owed_recorded_composed_l c i pn fs t d c2 : creach c -> closing (spc c i) = false ->
  payload_received (pre_payload c i pn t) i fs = Ok (c2, true, false) ->
  closing (spc c2 i) = false -> disc (spc c2 i) = false -> lrp (spc c i) < pn ->
  (i = SApp -> complete (spc c2 i) = true) -> app (spc c i) = is_app i ->
  exists c', recv_packet c i (VPlain pn false) fs t d = Ok c' /\ In (pn, t) (owed (spc c' i)) /\ lrp (spc c' i) = pn.
Proof.
  intros R C0 EP C2 D2 Hl Hc Ha. pose proof (creach_inv _ R) as I.
  rewrite recv_packet_closed. unfold recv_closed. rewrite C0. fold (pre_payload c i pn t). rewrite EP. cbn [bind].
  rewrite C2. eexists. split; [reflexivity|]. rewrite spc_rupd, sid_eqb_refl, tail_record. unfold record. rewrite D2.
  cbn [owed lrp].
  assert (S : lrp (spc c2 i) = lrp (spc c i) /\ app (spc c2 i) = app (spc c i)).
  { destruct (payload_loop_static _ _ _ _ _ _ _ _ EP i) as (Sa & Sl & _). rewrite Sa, Sl, spc_pre_payload, sid_eqb_refl.
    split; reflexivity. }
  destruct S as (Sl & Sa). rewrite Sl, Sa, Ha.
  destruct (pn >? lrp (spc c i)) eqn:E; [|lia]. cbn [andb].
  destruct i; cbn [is_app negb orb]; try (split; [left; reflexivity|reflexivity]).
  rewrite (Hc eq_refl). split; [left; reflexivity|reflexivity].
Qed.

(* ack_timely, the timer, on the composed model: in every state of a timed run, in every space that still exists, an owed
   packet (L, t) is still queued and the ACK timer is armed no later than t + dmax.  No premise `closing = false`: a
   connection error / CONNECTION_CLOSE in a later packet does not remove it either (the connection then stops sending
   anything but CONNECTION_CLOSE: closing_sends_nothing) *)
Theorem ack_timely_pending_composed_l dmax c now i L t : creach_t dmax c now -> disc (spc c i) = false ->
  In (L, t) (owed (spc c i)) -> mem L (aq (spc c i)) /\ exists x, ack_at (spc c i) = Some x /\ x <= t + dmax.
Proof. intros R D H. destruct (ti_owed _ _ (tc_ti _ _ _ (creach_t_tc _ _ _ R) i) D L t H) as (M & E & _). auto. Qed.

(* an owed packet leaves the list of space i only through an ACK frame written by a send of space i that covers it, or
   when _initialize() replaces the spaces (Retry / version negotiation: a new connection attempt).  ALL operations, NO
   premise: neither an in-payload prune of the same or a later packet, nor an error, nor a completion, nor a discard *)
Lemma recv_closed_owed c i v fs t d c' j x : CInv c -> recv_closed c i v fs t d = Ok c' ->
  In x (owed (spc c j)) -> In x (owed (spc c' j)).
Proof.
  intros I H Hin. unfold recv_closed in H.
  destruct (closing (spc c i)) eqn:C0; [inversion H; subst; exact Hin|].
  destruct v as [| |pn rsv]; [inversion H; subst; exact Hin|inversion H; subst; exact Hin|].
  destruct rsv. { inversion H; subst. rewrite spc_rall. exact Hin. }
  fold (pre_payload c i pn t) in H.
  destruct (payload_received (pre_payload c i pn t) i fs) as [[[c2 elic] raised]|k] eqn:EP; [|discriminate].
  cbn [bind] in H.
  assert (S2 : owed (spc c2 j) = owed (spc c j)).
  { destruct (payload_loop_static _ _ _ _ _ _ _ _ EP j) as (_ & _ & So & _). rewrite So, spc_pre_payload.
    destruct (sid_eqb i j) eqn:E; [|reflexivity]. apply sid_eqb_eq in E. subst. reflexivity. }
  set (c3 := if raised then rall c2 (on_sp set_closing) else c2) in *.
  assert (S3 : owed (spc c3 j) = owed (spc c j)).
  { subst c3. destruct raised; [rewrite spc_rall|]; exact S2. }
  destruct (closing (spc c3 i)); inversion H; subst; clear H; [congruence|].
  rewrite spc_rupd. destruct (sid_eqb i j) eqn:E1; [|congruence].
  apply sid_eqb_eq in E1. subst j. rewrite tail_record. apply record_static. congruence.
Qed.

Theorem owed_leaves_only_composed_l c o i x : creach c -> In x (owed (spc c i)) -> ~ In x (owed (spc (snd (cstep c o)) i)) ->
  o = CReinit \/
  exists t delay room blocked bytes q, o = CSend i t delay room blocked /\ fst (cstep c o) = CSent (SFrame bytes q) /\ mem (fst x) q.
Proof.
  intros R Hin Hout. pose proof (creach_inv _ R) as I. destruct o; cbn [cstep cstep_ord] in *.
  - exfalso. apply Hout. change (recv_ord code_order) with recv_packet. rewrite recv_packet_closed.
    destruct (recv_closed c i0 v fs t d) as [c'|k] eqn:E; cbn [snd]; [|exact Hin]. eapply recv_closed_owed; eauto.
  - destruct (send (spc c i0) t delay room blocked) as [r s'] eqn:E. cbn [snd fst] in *. rewrite spc_rupd in Hout.
    destruct (sid_eqb i0 i) eqn:E1; [|tauto]. apply sid_eqb_eq in E1. subst i0. right.
    destruct (owed_leaves_only_by_ack_l (spc c i) (Send t delay room blocked) x Hin) as (bytes & q & E2 & M).
    { cbn [step]. rewrite E. exact Hout. }
    cbn [step] in E2. rewrite E in E2. cbn in E2. inversion E2; subst. exists t, delay, room, blocked, bytes, q. auto.
  - exfalso. apply Hout. cbn [snd]. rewrite spc_rall. exact Hin.
  - exfalso. apply Hout. cbn [snd]. rewrite spc_rupd. destruct (sid_eqb j i) eqn:E1; [|exact Hin].
    apply sid_eqb_eq in E1. subst j. exact Hin.
  - exfalso. apply Hout. cbn [snd]. rewrite spc_rall. exact Hin.
  - left. reflexivity.
Qed.

(* the send that is due writes the frame.  Application space: a datagrams_to_send at u >= ack_at -- strictly later, or
   the pacer lets a packet through, or the tree skips pacing when ack_at <= now (PACING_LE, docs/C12-fix-2.patch) -- whose
   packet has room for the frame.  Initial / Handshake: ANY send that starts a packet of the space with room, at any time. *)
Theorem ack_due_send_composed_l dmax c now i L t0 x u delay room blocked : creach_t dmax c now ->
  closing (spc c i) = false -> disc (spc c i) = false -> In (L, t0) (owed (spc c i)) -> ack_at (spc c i) = Some x ->
  now <= u -> Zlen (aq (spc c i)) <= MAX_ACK_RANGES -> ack_capacity (aq (spc c i)) <= room -> 0 <= delay < 2 ^ 62 ->
  (i = SApp -> x <= u /\ (x < u \/ blocked = false \/ PACING_LE = true)) ->
  exists bytes c', cstep c (CSend i u delay room blocked) = (CSent (SFrame bytes (aq (spc c i))), c') /\
    mem L (aq (spc c i)) /\ x <= t0 + dmax /\ owed (spc c' i) = [] /\ ack_at (spc c' i) = None.
Proof.
  intros R C D Hin Ea Hu Hq Hr Hd Happ. pose proof (creach_t_tc _ _ _ R) as [I T K A].
  destruct (ti_owed _ _ (T i) D L t0 Hin) as (M & (x' & Ea' & Bx) & _ & _ & Kc).
  rewrite Ea in Ea'. inversion Ea'; subst x'. clear Ea'.
  pose proof (K i) as Ki. pose proof (A i) as Ai. pose proof (I i) as Ii. pose proof (T i) as Ti.
  set (s := spc c i) in *.
  assert (Is : Inv (set_clk s u)) by (apply inv_set_clk, Ii).
  assert (Ts : TInv dmax (app s) (set_clk s u)).
  { apply tinv_clk; [apply ti_tinv; auto|]. lia. }
  destruct (write_ack_all dmax (app s) (set_clk s u) delay room Is Ts C D) as (bytes & s' & E & O1 & O2 & _); auto.
  { cbn. intros E0. rewrite E0 in Hin. destruct Hin. }
  cbn [aq set_clk] in E.
  assert (Es : send s u delay room blocked = (SFrame bytes (aq s), s')).
  { unfold send. cbn [closing disc app complete ack_at set_clk]. rewrite C, D, Ea.
    destruct (app s) eqn:Ap.
    - assert (H : i = SApp) by (destruct i; cbn in Ai; congruence).
      destruct (Happ H) as (Hx & Hp). rewrite (Kc eq_refl).
      replace (negb (if PACING_LE then x <=? u else x <? u) && blocked) with false.
      + destruct (x <=? u) eqn:E2; [exact E|lia].
      + destruct Hp as [Hp|[Hp|Hp]].
        * destruct PACING_LE; [destruct (x <=? u) eqn:E1|destruct (x <? u) eqn:E1]; try reflexivity; lia.
        * subst. symmetry. apply andb_false_r.
        * rewrite Hp. destruct (x <=? u) eqn:E1; [reflexivity|lia].
    - exact E. }
  exists bytes, (rupd c i (on_sp (fun _ => s'))). cbn [cstep cstep_ord]. fold s. rewrite Es.
  split; [reflexivity|]. rewrite spc_rupd, sid_eqb_refl. auto.
Qed.

(* a discarded space owes nothing: its keys are gone, no packet of the space can be started, no timer is armed *)
Theorem discarded_owes_nothing_l c i : creach c -> disc (spc c i) = true ->
  ack_at (spc c i) = None /\ forall t delay room blocked, exists w, fst (send (spc c i) t delay room blocked) = SNothing w.
Proof.
  intros R D. destruct (creach_inv _ R i) as [I0 _]. split; [apply (i_disc _ I0 D)|].
  intros t delay room blocked. unfold send. cbn [closing disc set_clk]. rewrite D.
  destruct (closing (spc c i)); eexists; reflexivity.
Qed.

(* a closing connection sends no ACK frame (only CONNECTION_CLOSE) *)
Theorem closing_sends_nothing_l c i t delay room blocked : closing (spc c i) = true ->
  fst (send (spc c i) t delay room blocked) = SNothing 0.
Proof. intros C. unfold send. cbn [closing set_clk]. rewrite C. reflexivity. Qed.

(* ---- whole runs ---------------------------------------------------------------------------------------------------------------- *)
(* one of the sends of the run wrote an ACK frame of space i that covers L *)
Fixpoint acked_in (i : sid) (L : Z) (c : rconn) (ops : list cop) : Prop :=
  match ops with
  | [] => False
  | o :: r =>
      (exists t delay room blocked bytes q,
         o = CSend i t delay room blocked /\ fst (cstep c o) = CSent (SFrame bytes q) /\ mem L q)
      \/ acked_in i L (snd (cstep c o)) r
  end.

Lemma zz_dec (a b : Z * Z) : {a = b} + {a <> b}.
Proof. decide equality; apply Z.eq_dec. Qed.

Lemma crun_t_wf dmax ops : forall c now, crun_t dmax c now ops -> wf_cops ops.
Proof. induction ops as [|o r IH]; intros c now H; cbn in *; [exact I|]. destruct H as ((H1 & _) & H2). split; eauto. Qed.

Lemma owed_run i x ops : forall c, creach c -> wf_cops ops -> In x (owed (spc c i)) ->
  acked_in i (fst x) c ops \/ In CReinit ops \/ In x (owed (spc (crun c ops) i)).
Proof.
  induction ops as [|o r IH]; intros c R H Hin; cbn [crun crun_ord acked_in]; [auto|].
  destruct H as (H1 & H2).
  destruct (in_dec zz_dec x (owed (spc (snd (cstep c o)) i))) as [Y|N].
  - destruct (IH _ (creach_step _ _ R H1) H2 Y) as [Q|[Q|Q]]; [left; right; exact Q|right; left; right; exact Q|right; right; exact Q].
  - destruct (owed_leaves_only_composed_l c o i x R Hin N) as [->|Q]; [right; left; left; reflexivity|].
    left. left. exact Q.
Qed.

(* ack_timely_composed: the timeliness sentence on whole runs of the composed model.  From any state of a timed run in
   which (L, t) is owed in space i (an ack-eliciting packet that carried the highest packet number of its space when it
   was recorded at time t; application space: with the handshake complete -- owed_recorded_composed), for EVERY timed
   continuation [ops] -- packets of any space with any verdict and any payload effects, sends, completions, discards,
   close() --: either one of the sends of the continuation wrote an ACK frame of space i that covers L; or _initialize()
   started a new connection attempt; or space i was discarded (then no ACK is owed: discarded_owes_nothing); or L is
   STILL queued, the timer is armed at some x <= t + dmax, and -- unless the connection is closing -- the next send of
   space i at any u >= now with room for the frame (application space: u >= x, and u > x or an open pacer or PACING_LE)
   writes an ACK frame that covers L: at u = x, i.e. when the caller fires the timer when asked, no later than t + dmax;
   Initial / Handshake: whatever the time *)
Theorem ack_timely_composed_l dmax c now i L t ops u delay room blocked : creach_t dmax c now ->
  In (L, t) (owed (spc c i)) -> crun_t dmax c now ops ->
  let c' := crun c ops in
  acked_in i L c ops \/ In CReinit ops \/ disc (spc c' i) = true \/
  (mem L (aq (spc c' i)) /\ exists x, ack_at (spc c' i) = Some x /\ x <= t + dmax /\
     (closing (spc c' i) = false -> clock_after now ops <= u -> Zlen (aq (spc c' i)) <= MAX_ACK_RANGES ->
      ack_capacity (aq (spc c' i)) <= room -> 0 <= delay < 2 ^ 62 ->
      (i = SApp -> x <= u /\ (x < u \/ blocked = false \/ PACING_LE = true)) ->
      exists bytes c'', cstep c' (CSend i u delay room blocked) = (CSent (SFrame bytes (aq (spc c' i))), c'') /\
        owed (spc c'' i) = [] /\ ack_at (spc c'' i) = None)).
Proof.
  intros R Hin H c'.
  destruct (owed_run i (L, t) ops c (creach_t_creach _ _ _ R) (crun_t_wf _ _ _ _ H) Hin) as [Q|[Q|Q]]; [left; exact Q|right; left; exact Q|].
  right. right. destruct (disc (spc c' i)) eqn:D; [left; reflexivity|right].
  pose proof (crun_t_reach dmax ops c now R H) as R'. fold c' in R'.
  destruct (ack_timely_pending_composed_l dmax c' _ i L t R' D Q) as (M & x & Ea & Bx).
  split; [exact M|]. exists x. split; [exact Ea|]. split; [exact Bx|].
  intros C Hu Hq Hr Hd Happ.
  destruct (ack_due_send_composed_l dmax c' _ i L t x u delay room blocked R' C D Q Ea Hu Hq Hr Hd Happ)
    as (bytes & c'' & E1 & _ & _ & E2 & E3).
  exists bytes, c''. auto.
Qed.

(* ---- non-vacuity: a run with a mid-payload Handshake discard and an in-payload prune --------------------------------------- *)
(* Handshake packet 0 (ack-eliciting) is acknowledged by the next Handshake send; application packet 5 carries the
   completion of the handshake and the discard of the Handshake space in its payload and is owed (deadline 110); the send
   at 105 writes nothing, the send at 110 acknowledges it (handler argument 5); packet 7 (ack-eliciting, largest) is owed,
   deadline 130; packet 8 acknowledges our ACK frame in its payload (prune subtract(0, 6)) and discards the Initial space;
   packet 9 fails to decrypt; the send at 130 = 120 + 10 <= 120 + 25 writes {7, 8} *)
Definition ex_c_pre : list cop :=
  [CPacket SHandshake (VPlain 0 false) [FxFrame true] 90 10;
   CSend SHandshake 91 0 1200 true;
   CPacket SApp (VPlain 5 false) [FxComplete; FxDiscard SHandshake; FxFrame true] 100 10;
   CSend SApp 105 0 1200 false;
   CSend SApp 110 0 1200 false;
   CPacket SApp (VPlain 7 false) [FxFrame true] 120 10].
Definition ex_c_post : list cop :=
  [CPacket SApp (VPlain 8 false) [FxAck 5; FxFrame false; FxDiscard SInitial] 121 10;
   CPacket SApp VCryptoError [] 122 10;
   CSend SApp 125 0 1200 false].

(* a boolean checker for the premises of a concrete run *)
Definition wf_cop_tb (dmax : Z) (c : rconn) (now : Z) (o : cop) : bool :=
  match o with
  | CPacket _ v _ t d =>
      (match v with VPlain pn _ => (0 <=? pn) && (pn <? 2 ^ 62) | _ => true end) && (now <=? t) && (0 <=? d) && (d <=? dmax)
  | CSend i t delay _ _ => (now <=? t) && (0 <=? delay) && (delay <? 2 ^ 62) && (Zlen (aq (spc c i)) <=? MAX_ACK_RANGES)
  | _ => true
  end.
Fixpoint crun_tb (dmax : Z) (c : rconn) (now : Z) (ops : list cop) : bool :=
  match ops with
  | [] => true
  | o :: r => wf_cop_tb dmax c now o && crun_tb dmax (snd (cstep c o)) (cop_time now o) r
  end.

Lemma wf_cop_tb_sound dmax c now o : wf_cop_tb dmax c now o = true -> wf_cop_t dmax c now o.
Proof.
  unfold wf_cop_tb, wf_cop_t, wf_cop, pn_ok_v, pn_ok. destruct o; auto.
  - destruct v; intros H; repeat (apply andb_true_iff in H; destruct H as (H & ?)); repeat split; auto; lia.
  - intros H; repeat (apply andb_true_iff in H; destruct H as (H & ?)); repeat split; auto; lia.
Qed.

Lemma crun_tb_sound dmax ops : forall c now, crun_tb dmax c now ops = true -> crun_t dmax c now ops.
Proof.
  induction ops as [|o r IH]; intros c now H; cbn in *; [exact I|].
  apply andb_true_iff in H. destruct H as (H1 & H2). split; [apply wf_cop_tb_sound; exact H1|apply IH; exact H2].
Qed.

Example ex_composed :
  crun_t 25 rinit 0 (ex_c_pre ++ ex_c_post) /\
  (let c := crun rinit ex_c_pre in
   creach_t 25 c 120 /\ owed (spc c SApp) = [(7, 120)] /\ disc (spc c SHandshake) = true /\
   map snd (frames (spc c SApp)) = [5] /\ map snd (frames (spc c SHandshake)) = [0] /\
   crun_t 25 c 120 ex_c_post) /\
  (let c' := crun rinit (ex_c_pre ++ ex_c_post) in
   aq (spc c' SApp) = [(7, 9)] /\ ack_at (spc c' SApp) = Some 130 /\ disc (spc c' SInitial) = true /\
   closing (spc c' SApp) = false /\ owed (spc c' SApp) = [(7, 120)] /\
   exists bytes c'', cstep c' (CSend SApp 130 0 1200 false) = (CSent (SFrame bytes [(7, 9)]), c'') /\ owed (spc c'' SApp) = []).
Proof.
  split; [apply crun_tb_sound; vm_compute; reflexivity|]. split.
  - cbv zeta. split.
    + change 120 with (clock_after 0 ex_c_pre). apply crun_t_reach; [constructor; lia|].
      apply crun_tb_sound. vm_compute. reflexivity.
    + repeat (split; [vm_compute; reflexivity|]). apply crun_tb_sound. vm_compute. reflexivity.
  - cbv zeta. repeat (split; [vm_compute; reflexivity|]). eexists _, _. split; vm_compute; reflexivity.
Qed.
