(* C15: the refinement of H3EventsProofs.v / H3EventsLoop.v carried to the whole connection:
   stream table, unidirectional streams, the QPACK "unblocked streams" resume pass, handle_event, run. *)
From Coq Require Import ZArith List Bool Lia ZifyBool.
From AQ Require Import lib.Base lib.Tok model.H3Validate proofs.H3ValidateSpec.
From AQ Require Import model.H3Parse model.H3Events proofs.H3EventsSpec proofs.H3EventsProofs proofs.H3EventsLoop.
Import ListNotations.
Open Scope Z_scope.

(* ---------------------------------------------------------------- the stream table *)
Definition ids (l : list hstream) : list Z := map s_id l.

Lemma find_id : forall l sid s, find_stream sid l = Some s -> s_id s = sid.
Proof.
  induction l as [|a l IH]; cbn [find_stream]; intros sid s H; [discriminate|].
  destruct (s_id a =? sid) eqn:E; [inversion H; subst; lia|eauto].
Qed.

Lemma find_none_notin : forall l sid, find_stream sid l = None -> ~ In sid (ids l).
Proof.
  induction l as [|a l IH]; cbn [find_stream ids map]; intros sid H; [intros []|].
  destruct (s_id a =? sid) eqn:E; [discriminate|]. intros [F|F]; [lia|]. exact (IH sid H F).
Qed.

Lemma find_put_same : forall l s, find_stream (s_id s) (put_stream s l) = Some s.
Proof.
  induction l as [|a l IH]; intro s; cbn [put_stream find_stream].
  - rewrite Z.eqb_refl. reflexivity.
  - destruct (s_id a =? s_id s) eqn:E; cbn [find_stream].
    + rewrite Z.eqb_refl. reflexivity.
    + rewrite E. apply IH.
Qed.

Lemma find_put_other : forall l s sid, sid <> s_id s -> find_stream sid (put_stream s l) = find_stream sid l.
Proof.
  induction l as [|a l IH]; intros s sid H; cbn [put_stream find_stream].
  - destruct (s_id s =? sid) eqn:E; [lia|reflexivity].
  - destruct (s_id a =? s_id s) eqn:E; cbn [find_stream].
    + destruct (s_id s =? sid) eqn:E1; [lia|]. destruct (s_id a =? sid) eqn:E2; [lia|reflexivity].
    + destruct (s_id a =? sid); [reflexivity|apply IH; exact H].
Qed.

Lemma find_app : forall l sid s,
  find_stream sid (l ++ [s]) =
  match find_stream sid l with Some x => Some x | None => if s_id s =? sid then Some s else None end.
Proof.
  induction l as [|a l IH]; intros sid s; cbn [app find_stream]; [reflexivity|].
  destruct (s_id a =? sid); [reflexivity|apply IH].
Qed.

Lemma in_ids_put : forall l s x, In x (ids (put_stream s l)) -> x = s_id s \/ In x (ids l).
Proof.
  induction l as [|a l IH]; intros s x; cbn [put_stream ids map In].
  - intros [H|[]]; auto.
  - destruct (s_id a =? s_id s) eqn:E; cbn [ids map In].
    + intros [H|H]; auto.
    + intros [H|H]; auto. destruct (IH s x H); auto.
Qed.

Lemma nodup_put : forall l s, NoDup (ids l) -> NoDup (ids (put_stream s l)).
Proof.
  induction l as [|a l IH]; intros s H; cbn [put_stream ids map].
  - constructor; [intros []|constructor].
  - inversion H as [|x y N1 N2]; subst. destruct (s_id a =? s_id s) eqn:E; cbn [ids map].
    + constructor; [|exact N2]. replace (s_id s) with (s_id a) by lia. exact N1.
    + constructor; [|apply IH; exact N2]. intro F. destruct (in_ids_put _ _ _ F); [lia|contradiction].
Qed.

Lemma nodup_snoc : forall (l : list Z) x, NoDup l -> ~ In x l -> NoDup (l ++ [x]).
Proof.
  induction l as [|a l IH]; intros x H N; cbn [app].
  - constructor; [intros []|constructor].
  - inversion H; subst. constructor.
    + intro F. apply in_app_or in F. destruct F as [F|[F|[]]]; [contradiction|]. apply N. left. auto.
    + apply IH; [assumption|]. intro F. apply N. right. exact F.
Qed.

Lemma find_remove_other : forall l sid x, x <> sid -> find_stream x (remove_stream sid l) = find_stream x l.
Proof.
  induction l as [|a l IH]; intros sid x H; cbn [remove_stream find_stream]; [reflexivity|].
  destruct (s_id a =? sid) eqn:E; cbn [find_stream].
  - destruct (s_id a =? x) eqn:E1; [lia|reflexivity].
  - destruct (s_id a =? x); [reflexivity|apply IH; exact H].
Qed.

Lemma in_ids_remove : forall l sid x, In x (ids (remove_stream sid l)) -> In x (ids l).
Proof.
  induction l as [|a l IH]; intros sid x; cbn [remove_stream ids map In]; [auto|].
  destruct (s_id a =? sid); cbn [ids map In]; [auto|]. intros [H|H]; [auto|right; eapply IH; exact H].
Qed.

Lemma find_notin : forall l sid, ~ In sid (ids l) -> find_stream sid l = None.
Proof.
  induction l as [|a l IH]; intros sid H; cbn [find_stream]; [reflexivity|].
  cbn [ids map In] in H. destruct (s_id a =? sid) eqn:E; [exfalso; apply H; left; lia|].
  apply IH. intro F. apply H. right. exact F.
Qed.

Lemma find_remove_same : forall l sid, NoDup (ids l) -> find_stream sid (remove_stream sid l) = None.
Proof.
  induction l as [|a l IH]; intros sid H; cbn [remove_stream]; [reflexivity|].
  inversion H as [|x y N1 N2]; subst. destruct (s_id a =? sid) eqn:E; cbn [find_stream].
  - apply find_notin. replace sid with (s_id a) by lia. exact N1.
  - rewrite E. apply IH. exact N2.
Qed.

Lemma nodup_remove : forall l sid, NoDup (ids l) -> NoDup (ids (remove_stream sid l)).
Proof.
  induction l as [|a l IH]; intros sid H; cbn [remove_stream]; [exact H|].
  inversion H as [|x y N1 N2]; subst. destruct (s_id a =? sid); [exact N2|].
  cbn [ids map]. constructor; [|apply IH; exact N2]. intro F. apply N1. eapply in_ids_remove. exact F.
Qed.

(* ---------------------------------------------------------------- trace facts *)
Lemma no_stream_tail : forall sid q l, no_stream sid (q :: l) -> no_stream sid l.
Proof. intros sid q l H x Hx. apply H. right. exact Hx. Qed.
Lemma no_local_tail : forall sid q l, no_local sid (q :: l) -> no_local sid l.
Proof. intros sid q l H x Hx. apply H. right. exact Hx. Qed.

(* ---------------------------------------------------------------- unidirectional streams: what the type loop leaves alone *)
Definition same_all (st st' : hstream) : Prop :=
  H3Parse.s_hstate st' = H3Parse.s_hstate st /\ s_clen st' = s_clen st /\ s_expect st' = s_expect st
  /\ s_cur st' = s_cur st /\ s_id st' = s_id st /\ H3Parse.s_ended st' = H3Parse.s_ended st
  /\ s_blocked st' = s_blocked st /\ s_btype st' = s_btype st.
Definition cframe (c c' : conn) : Prop :=
  c_streams c' = c_streams c /\ c_client c' = c_client c /\ c_sent_end c' = c_sent_end c /\ c_done c' = c_done c.
Definition is_wt (sid : Z) (e : event) : Prop := exists s d f, e = EWT sid s d f.
Definition uni_frame (st : hstream) (c : conn) (r : ures) : Prop :=
  match r with
  | ULoop st' c' _ => same_all st st' /\ cframe c c'
  | URet evs st' c' => same_all st st' /\ cframe c c' /\ Forall (is_wt (s_id st)) evs
  | _ => True
  end.

Lemma same_all_refl : forall st, same_all st st.
Proof. intro. repeat split; reflexivity. Qed.
Lemma same_all_trans : forall a b c, same_all a b -> same_all b c -> same_all a c.
Proof.
  intros a b c (A1 & A2 & A3 & A4 & A5 & A6 & A7 & A8) (B1 & B2 & B3 & B4 & B5 & B6 & B7 & B8).
  repeat split; congruence.
Qed.
Lemma cframe_refl : forall c, cframe c c.
Proof. intro. repeat split; reflexivity. Qed.
Lemma cframe_trans : forall a b c, cframe a b -> cframe b c -> cframe a c.
Proof. intros a b c (A1 & A2 & A3 & A4) (B1 & B2 & B3 & B4). repeat split; congruence. Qed.

Lemma uni_frame_trans : forall st st2 c c2 r, same_all st st2 -> cframe c c2 -> uni_frame st2 c2 r -> uni_frame st c r.
Proof.
  intros st st2 c c2 r S C H. destruct r as [st' c' u|evs st' c'|k c'|k]; cbn [uni_frame] in *; auto.
  - destruct H as (H1 & H2). split; [eapply same_all_trans; eauto|eapply cframe_trans; eauto].
  - destruct H as (H1 & H2 & H3). split; [eapply same_all_trans; eauto|]. split; [eapply cframe_trans; eauto|].
    replace (s_id st) with (s_id st2); [exact H3|]. destruct S as (_ & _ & _ & _ & E & _). exact E.
Qed.

Section Uni.
Variable fx : fixes.
Variable O : oracle.

Definition u_typed (st : hstream) (c : conn) (b : list Z) : option ((Z * list Z * conn) + unit) :=
  match s_stype st with
  | Some t => Some (inl (t, b, c))
  | None =>
      match pull_uint_var b with
      | None => None
      | Some (t, b1) =>
          if t =? 0 then
            (if is_none (c_ctrl c) then Some (inl (t, b1, set_ctrl c (Some (s_id st)))) else Some (inr tt))
          else if t =? 3 then
            (if is_none (c_qdec c) then Some (inl (t, b1, set_qdec c (Some (s_id st)))) else Some (inr tt))
          else if t =? 2 then
            (if is_none (c_qenc c) then Some (inl (t, b1, set_qenc c (Some (s_id st)))) else Some (inr tt))
          else Some (inl (t, b1, c))
      end
  end.

Definition u_push (st : hstream) (b : list Z) : option (hstream * list Z) :=
  match s_push st with
  | Some p => Some (st, b)
  | None => match pull_uint_var b with
            | None => None
            | Some (p, b1) => Some (set_push st (Some p), b1)
            end
  end.

Definition u_sess (st : hstream) (b : list Z) : option (hstream * list Z) :=
  match s_session st with
  | Some p => Some (st, b)
  | None => match pull_uint_var b with
            | None => None
            | Some (p, b1) => Some (set_session st (Some p), b1)
            end
  end.

Lemma uni_loop_S : forall f fin st c b unb,
  uni_loop (S f) fx O fin st c b unb =
  if negb (stream_loops (s_stype st) || negb (is_nil b)) then ULoop (set_buf st b) c unb else
  match u_typed st c b with
  | None => ULoop (set_buf st b) c unb
  | Some (inr _) => UErr H3_STREAM_CREATION_ERROR c
  | Some (inl (t, b, c)) =>
    let st := set_stype st (Some t) in
    if t =? 0 then
      if fin then UErr H3_CLOSED_CRITICAL_STREAM c else
      match pull_frame b with
      | None => ULoop (set_buf st b) c unb
      | Some (ft, fd, b') =>
          match handle_control_frame fx c ft fd with
          | Val c' => uni_loop f fx O fin st c' b' unb
          | H3Parse.PErr k => UErr k c
          | H3Parse.Exn k => UExn k
          end
      end
    else if t =? 1 then
      match u_push st b with
      | None => ULoop (set_buf st b) c unb
      | Some (st, b) => URet [] (set_buf st b) c
      end
    else if t =? 84 then
      match u_sess st b with
      | None => ULoop (set_buf st b) c unb
      | Some (st, b) =>
          let sess := match s_session st with Some p => p | None => 0 end in
          URet (if negb (is_nil b) || fin then [EWT (s_id st) sess b (H3Parse.s_ended st)] else []) (set_buf st []) c
      end
    else if t =? 3 then
      if o_ds O b then uni_loop f fx O fin st c [] unb else UErr QPACK_DECODER_STREAM_ERROR c
    else if t =? 2 then
      match o_enc O b with
      | EUnblocked l => uni_loop f fx O fin st c [] (unb ++ l)
      | EEncErr => UErr QPACK_ENCODER_STREAM_ERROR c
      end
    else uni_loop f fx O fin st c [] unb
  end.
Proof. reflexivity. Qed.

Lemma u_typed_frame : forall st c b t b1 c1, u_typed st c b = Some (inl (t, b1, c1)) -> cframe c c1.
Proof.
  unfold u_typed. intros st c b t b1 c1 H.
  destruct (s_stype st); [inversion H; subst; apply cframe_refl|].
  destruct (pull_uint_var b) as [[t0 b0]|]; [|discriminate].
  destruct (t0 =? 0); [destruct (is_none (c_ctrl c)); inversion H; subst; repeat split; reflexivity|].
  destruct (t0 =? 3); [destruct (is_none (c_qdec c)); inversion H; subst; repeat split; reflexivity|].
  destruct (t0 =? 2); [destruct (is_none (c_qenc c)); inversion H; subst; repeat split; reflexivity|].
  inversion H; subst. apply cframe_refl.
Qed.

Lemma u_push_frame : forall st b st1 b1, u_push st b = Some (st1, b1) -> same_all st st1.
Proof.
  unfold u_push. intros st b st1 b1 H. destruct (s_push st); [inversion H; subst; apply same_all_refl|].
  destruct (pull_uint_var b) as [[p0 b0]|]; [|discriminate]. inversion H; subst. repeat split; reflexivity.
Qed.

Lemma u_sess_frame : forall st b st1 b1, u_sess st b = Some (st1, b1) -> same_all st st1.
Proof.
  unfold u_sess. intros st b st1 b1 H. destruct (s_session st); [inversion H; subst; apply same_all_refl|].
  destruct (pull_uint_var b) as [[p0 b0]|]; [|discriminate]. inversion H; subst. repeat split; reflexivity.
Qed.

Lemma hcf_cframe : forall c t d c', handle_control_frame fx c t d = Val c' -> cframe c c'.
Proof.
  unfold handle_control_frame. intros c t d c' H.
  destruct (negb (t =? 4) && is_none (c_settings c)); [discriminate|].
  destruct (t =? 4).
  { destruct (negb (is_none (c_settings c))); [discriminate|].
    destruct (parse_settings (S (length d)) fx d []) as [s| |]; try discriminate.
    destruct (validate_settings (c_dgram c) s); [|discriminate]. inversion H; subst. repeat split; reflexivity. }
  destruct (t =? 13).
  { destruct (c_client c); [discriminate|]. destruct (parse_max_push_id fx d) as [v| |]; try discriminate.
    inversion H; subst. repeat split; reflexivity. }
  destruct ((t =? 0) || (t =? 1) || (t =? 5) || (t =? 14)); [discriminate|]. inversion H; subst. apply cframe_refl.
Qed.

Lemma uni_loop_frame : forall fuel fin st c b unb, uni_frame st c (uni_loop fuel fx O fin st c b unb).
Proof.
  induction fuel as [|f IH]; intros fin st c b unb.
  - cbn [uni_loop uni_frame]. split; [repeat split; reflexivity|apply cframe_refl].
  - rewrite uni_loop_S.
    assert (STOP : forall st', same_all st st' -> forall c', cframe c c' -> forall u, uni_frame st c (ULoop (set_buf st' b) c' u)).
    { intros st' S c' C u. cbn [uni_frame]. split; [|exact C]. eapply same_all_trans; [exact S|]. repeat split; reflexivity. }
    destruct (negb (stream_loops (s_stype st) || negb (is_nil b))); [apply STOP; [apply same_all_refl|apply cframe_refl]|].
    destruct (u_typed st c b) as [[[[t b1] c1]|u]|] eqn:TY; [| exact Logic.I | apply STOP; [apply same_all_refl|apply cframe_refl]].
    pose proof (u_typed_frame _ _ _ _ _ _ TY) as C1.
    cbv zeta.
    assert (S1 : same_all st (set_stype st (Some t))) by (repeat split; reflexivity).
    set (st1 := set_stype st (Some t)) in *. clearbody st1.
    assert (REC : forall c2 b2 u2, cframe c1 c2 -> uni_frame st c (uni_loop f fx O fin st1 c2 b2 u2)).
    { intros c2 b2 u2 C2. eapply uni_frame_trans; [exact S1|eapply cframe_trans; [exact C1|exact C2]|apply IH]. }
    destruct (t =? 0).
    { destruct fin; [exact Logic.I|].
      destruct (pull_frame b1) as [[[ft fd] b']|].
      2:{ cbn [uni_frame]. split; [|exact C1]. eapply same_all_trans; [exact S1|]. repeat split; reflexivity. }
      destruct (handle_control_frame fx c1 ft fd) as [c'| |] eqn:HC; try exact Logic.I.
      apply REC. eapply hcf_cframe. exact HC. }
    destruct (t =? 1).
    { destruct (u_push st1 b1) as [[st2 b2]|] eqn:UP.
      2:{ cbn [uni_frame]. split; [|exact C1]. eapply same_all_trans; [exact S1|]. repeat split; reflexivity. }
      pose proof (u_push_frame _ _ _ _ UP) as S2. cbn [uni_frame].
      split; [|split; [exact C1|constructor]].
      eapply same_all_trans; [exact S1|]. eapply same_all_trans; [exact S2|]. repeat split; reflexivity. }
    destruct (t =? 84).
    { destruct (u_sess st1 b1) as [[st2 b2]|] eqn:US.
      2:{ cbn [uni_frame]. split; [|exact C1]. eapply same_all_trans; [exact S1|]. repeat split; reflexivity. }
      pose proof (u_sess_frame _ _ _ _ US) as S2. cbv zeta. cbn [uni_frame].
      assert (S3 : same_all st st2) by (eapply same_all_trans; eauto).
      split; [eapply same_all_trans; [exact S3|repeat split; reflexivity]|]. split; [exact C1|].
      destruct (negb (is_nil b2) || fin); [|constructor]. constructor; [|constructor].
      destruct S3 as (_ & _ & _ & _ & E & _). rewrite E. eexists _, _, _. reflexivity. }
    destruct (t =? 3).
    { destruct (o_ds O b1); [|exact Logic.I]. apply REC. apply cframe_refl. }
    destruct (t =? 2).
    { destruct (o_enc O b1); [|exact Logic.I]. apply REC. apply cframe_refl. }
    apply REC. apply cframe_refl.
Qed.

End Uni.

Section Conn.
Variable hdrs : Z -> list header.
Variable client : bool.
Variable fx : fixes.
Hypothesis Hpb : fx_pushblock fx = true.
Local Notation sinv := (H3EventsProofs.sinv client).
Local Notation chain := (H3EventsProofs.chain hdrs client).
Local Notation gl := (H3EventsProofs.gl hdrs).
Local Notation all_ok := (H3EventsSpec.all_ok client hdrs).
Local Notation ghost_of := (H3EventsSpec.ghost_of hdrs).

(* ---------------------------------------------------------------- ghosts along the history *)
Lemma ghost_app : forall hist evs sid,
  ghost_of (hist ++ evs) sid = fold_left (estep hdrs sid) evs (ghost_of hist sid).
Proof. intros. unfold H3EventsSpec.ghost_of. apply fold_left_app. Qed.

Lemma chain_fold_same : forall sid evs g, chain sid g evs -> fold_left (estep hdrs sid) evs g = gl g evs.
Proof.
  intros sid. induction evs as [|e t IH]; intros g H; [reflexivity|].
  cbn [H3EventsProofs.chain] in H. destruct H as (E & _ & C).
  unfold H3EventsProofs.gl. cbn [fold_left].
  replace (estep hdrs sid g e) with (gstep hdrs g e).
  - apply IH. exact C.
  - destruct e; cbn [ev_sid] in E; cbn [estep]; try reflexivity; subst; rewrite Z.eqb_refl; reflexivity.
Qed.

Lemma chain_fold_other : forall sid sid' evs g g',
  chain sid' g' evs -> sid <> sid' -> fold_left (estep hdrs sid) evs g = g.
Proof.
  intros sid sid'. induction evs as [|e t IH]; intros g g' H N; [reflexivity|].
  cbn [H3EventsProofs.chain] in H. destruct H as (E & _ & C). cbn [fold_left].
  replace (estep hdrs sid g e) with g.
  - eapply IH; eauto.
  - destruct e; cbn [ev_sid] in E; cbn [estep]; try reflexivity; subst;
      (destruct (sid' =? sid) eqn:Q; [lia|reflexivity]).
Qed.

Lemma chain_all_ok : forall sid evs hist, chain sid (ghost_of hist sid) evs -> all_ok hist evs.
Proof.
  intros sid. induction evs as [|e t IH]; intros hist H; [exact Logic.I|].
  cbn [H3EventsProofs.chain] in H. destruct H as (E & K & C). cbn [H3EventsSpec.all_ok].
  split; [rewrite E; exact K|]. apply IH.
  rewrite ghost_app. rewrite (chain_fold_same sid [e] (ghost_of hist sid)).
  - exact C.
  - cbn [H3EventsProofs.chain]. auto.
Qed.

Lemma all_ok_app : forall a b hist, all_ok hist a -> all_ok (hist ++ a) b -> all_ok hist (a ++ b).
Proof.
  induction a as [|e a IH]; intros b hist Ha Hb; cbn [app].
  - rewrite app_nil_r in Hb. exact Hb.
  - cbn [H3EventsSpec.all_ok] in *. destruct Ha as (H1 & H2). split; [exact H1|].
    apply IH; [exact H2|]. rewrite <- app_assoc. exact Hb.
Qed.

(* ---------------------------------------------------------------- the connection invariant *)
Definition SI (hist : list event) (rest : list qevent) (sid : Z) (s : hstream) : Prop :=
  sinv (ghost_of hist sid) s /\ cur_ok s /\ kinv s /\ (H3Parse.s_ended s = true -> no_stream sid rest).

Definition CI (c : conn) (hist : list event) (rest : list qevent) : Prop :=
  (forall sid s, find_stream sid (c_streams c) = Some s -> SI hist rest sid s)
  /\ (forall sid, find_stream sid (c_streams c) = None ->
        ghost_of hist sid = ginit \/ (no_stream sid rest /\ no_local sid rest))
  /\ (forall sid, H3Parse.memz sid (c_sent_end c) = true -> no_local sid rest)
  /\ c_client c = client
  /\ NoDup (ids (c_streams c)).

Lemma CI_same : forall c c' hist rest,
  c_streams c' = c_streams c -> c_sent_end c' = c_sent_end c -> c_client c' = c_client c ->
  CI c hist rest -> CI c' hist rest.
Proof. unfold CI. intros c c' hist rest E1 E2 E3. rewrite E1, E2, E3. auto. Qed.

Lemma CI_tail : forall c hist q rest, CI c hist (q :: rest) -> CI c hist rest.
Proof.
  intros c hist q rest (A & B & C & D & E). split; [|split; [|split; [|split]]]; auto.
  - intros sid s F. destruct (A sid s F) as (A1 & A2 & A3 & A4).
    split; [exact A1|]. split; [exact A2|]. split; [exact A3|].
    intro H. eapply no_stream_tail. apply A4. exact H.
  - intros sid F. destruct (B sid F) as [G|(G1 & G2)]; [left; exact G|right].
    split; [eapply no_stream_tail; exact G1|eapply no_local_tail; exact G2].
  - intros sid F. eapply no_local_tail. apply C. exact F.
Qed.

(* a stream's entry is replaced after the application was handed evs for it *)
Lemma CI_put : forall c hist rest st' evs sid,
  CI c hist rest -> s_id st' = sid ->
  chain sid (ghost_of hist sid) evs -> sinv (gl (ghost_of hist sid) evs) st' -> cur_ok st' -> kinv st' ->
  (H3Parse.s_ended st' = true -> no_stream sid rest) ->
  CI (set_streams c (put_stream st' (c_streams c))) (hist ++ evs) rest /\ all_ok hist evs.
Proof.
  intros c hist rest st' evs sid (A & B & C & D & E) Hid Hch Hs Hc Hk He.
  split; [|eapply chain_all_ok; exact Hch].
  assert (Oth : forall x, x <> sid -> ghost_of (hist ++ evs) x = ghost_of hist x).
  { intros x N. rewrite ghost_app. eapply chain_fold_other; eauto. }
  split; [|split; [|split; [|split]]]; cbn [c_streams c_sent_end c_client set_streams].
  - intros x s F. destruct (Z.eq_dec x sid) as [->|N].
    + rewrite <- Hid in F. rewrite find_put_same in F. inversion F; subst s.
      unfold SI. rewrite ghost_app, (chain_fold_same _ _ _ Hch). auto.
    + rewrite find_put_other in F by (rewrite Hid; exact N).
      destruct (A x s F) as (A1 & A2 & A3 & A4). unfold SI. rewrite (Oth x N). auto.
  - intros x F. destruct (Z.eq_dec x sid) as [->|N].
    + rewrite <- Hid in F. rewrite find_put_same in F. discriminate.
    + rewrite find_put_other in F by (rewrite Hid; exact N). rewrite (Oth x N). apply B. exact F.
  - exact C.
  - exact D.
  - apply nodup_put. exact E.
Qed.

Definition touches (sid : Z) (q : qevent) : Prop := is_stream sid q \/ is_local sid q.

Lemma CI_goc : forall c hist q rest sid s c1,
  CI c hist (q :: rest) -> touches sid q -> get_or_create c sid = (s, c1) ->
  CI c1 hist (q :: rest) /\ find_stream sid (c_streams c1) = Some s
  /\ c_sent_end c1 = c_sent_end c /\ c_done c1 = c_done c.
Proof.
  intros c hist q rest sid s c1 HC T G. unfold get_or_create in G.
  destruct (find_stream sid (c_streams c)) as [s0|] eqn:F.
  - inversion G; subst. auto.
  - inversion G; subst; clear G. destruct HC as (A & B & C & D & E).
    assert (G0 : ghost_of hist sid = ginit).
    { destruct (B sid F) as [G|(G1 & G2)]; [exact G|]. exfalso.
      destruct T as [T|T]; [apply (G1 q); [left; reflexivity|exact T]|apply (G2 q); [left; reflexivity|exact T]]. }
    split; [|split; [|split; reflexivity]]; cbn [c_streams set_streams].
    + split; [|split; [|split; [|split]]]; cbn [c_streams c_sent_end c_client set_streams].
      * intros x s F1. rewrite find_app in F1. destruct (find_stream x (c_streams c)) as [s1|] eqn:F2.
        { inversion F1; subst. apply A. exact F2. }
        cbn [s_id new_stream] in F1. destruct (sid =? x) eqn:Q; [|discriminate]. inversion F1; subst s.
        assert (x = sid) by lia. subst x. unfold SI. rewrite G0.
        split; [apply sinv_init|]. split; [intros n H; discriminate|].
        split; [split; [reflexivity|intro H; discriminate]|intro H; discriminate].
      * intros x F1. rewrite find_app in F1. destruct (find_stream x (c_streams c)) eqn:F2; [discriminate|].
        apply B. exact F2.
      * exact C.
      * exact D.
      * unfold ids. rewrite map_app. cbn [map]. apply nodup_snoc; [exact E|]. apply find_none_notin. exact F.
    + rewrite find_app, F. cbn [s_id new_stream]. rewrite Z.eqb_refl. reflexivity.
Qed.

Lemma CI_pop : forall c hist rest sid, CI c hist rest -> CI (pop_if_ended c sid) hist rest.
Proof.
  intros c hist rest sid HC. unfold pop_if_ended.
  destruct (find_stream sid (c_streams c)) as [s|] eqn:F; [|exact HC].
  destruct (is_ended c s) eqn:IE; [|exact HC].
  destruct HC as (A & B & C & D & E). unfold is_ended in IE.
  pose proof (find_id _ _ _ F) as Hid.
  assert (Q1 : no_stream sid rest).
  { destruct (A sid s F) as (_ & _ & _ & A4). apply A4. destruct (H3Parse.s_ended s); [reflexivity|].
    rewrite andb_false_r in IE. discriminate. }
  assert (Q2 : no_local sid rest).
  { apply C. rewrite <- Hid. destruct (H3Parse.memz (s_id s) (c_sent_end c)); [reflexivity|discriminate]. }
  split; [|split; [|split; [|split]]]; cbn [c_streams c_sent_end c_client set_streams].
  - intros x s1 F1. destruct (Z.eq_dec x sid) as [->|N].
    + rewrite find_remove_same in F1 by exact E. discriminate.
    + rewrite find_remove_other in F1 by exact N. apply A. exact F1.
  - intros x F1. destruct (Z.eq_dec x sid) as [->|N]; [right; auto|].
    rewrite find_remove_other in F1 by exact N. apply B. exact F1.
  - exact C.
  - exact D.
  - apply nodup_remove. exact E.
Qed.


(* ---------------------------------------------------------------- the resume pass over the unblocked streams *)
Lemma wt_chain : forall sid g evs, Forall (is_wt sid) evs -> chain sid g evs /\ gl g evs = g.
Proof.
  intros sid g. induction evs as [|e t IH]; intro H; [split; [exact Logic.I|reflexivity]|].
  inversion H as [|x y H1 H2]; subst. destruct H1 as (s & d & f & ->). destruct (IH H2) as (I1 & I2).
  cbn [H3EventsProofs.chain]. unfold H3EventsProofs.gl in *. cbn [fold_left gstep ev_sid].
  split; [|exact I2]. split; [reflexivity|]. split; [|exact I1]. split; [exact Logic.I|cbn [ev_fin]; discriminate].
Qed.

Lemma unblock_post : forall Q unb c evs0 hist rest evs c',
  CI c hist rest -> unblock fx (with_validators hdrs Q) c unb evs0 = SVal evs c' ->
  exists e1, evs = evs0 ++ e1 /\ all_ok hist e1 /\ CI c' (hist ++ e1) rest.
Proof.
  intros Q. induction unb as [|sid u IH]; intros c evs0 hist rest evs c' HC H; cbn [unblock] in H.
  - inversion H; subst. exists []. rewrite !app_nil_r. split; [reflexivity|]. split; [exact Logic.I|exact HC].
  - destruct (find_stream sid (c_streams c)) as [s|] eqn:F; [|discriminate].
    pose proof HC as (A & _ & _ & D & _). destruct (A sid s F) as (S1 & S2 & S3 & S4).
    pose proof (find_id _ _ _ F) as Hid.
    rewrite Hpb, D in H.
    set (g := ghost_of hist sid) in *.
    assert (STEP : forall sF eF, chain sid g eF -> sinv (gl g eF) sF -> cur_ok sF -> kinv sF -> s_id sF = sid ->
              (H3Parse.s_ended sF = true -> H3Parse.s_ended s = true) ->
              unblock fx (with_validators hdrs Q) (set_streams c (put_stream sF (c_streams c))) u (evs0 ++ eF) = SVal evs c' ->
              exists e1, evs = evs0 ++ e1 /\ all_ok hist e1 /\ CI c' (hist ++ e1) rest).
    { intros sF eF C1 I1 K1 K2 I2 E1 HU.
      destruct (CI_put c hist rest sF eF sid HC I2 C1 I1 K1 K2 (fun e => S4 (E1 e))) as (HC2 & OK2).
      destruct (IH _ _ _ _ _ _ HC2 HU) as (e1 & E2 & O3 & HC3).
      exists (eF ++ e1). split; [rewrite E2, app_assoc; reflexivity|].
      split; [apply all_ok_app; assumption|]. rewrite app_assoc. exact HC3. }
    match type of H with context [handle_rp_frame ?a ?b ?c0 ?d ?e ?f ?g'] =>
      destruct (handle_rp_frame a b c0 d e f g') as [e1 s1|s1|code|k] eqn:HH end; try discriminate.
    destruct (handle_post hdrs client fx Q _ _ _ _ g e1 s1 S1 HH) as (C1 & I1). rewrite Hid in C1.
    destruct (handle_frame _ _ _ _ _ _ _ _ _ HH) as (F1 & F2 & F3 & _ & F5 & F6 & F7).
    assert (K1 : cur_ok s1).
    { intros n E. rewrite F2 in E. destruct S3 as (K3 & K4). destruct (s_blocked s) eqn:B.
      - rewrite (K4 eq_refl) in E. discriminate.
      - rewrite (K3 eq_refl) in F7. rewrite F7 by lia. exact (S2 n E). }
    set (s2 := set_btype (set_blocked s1 false) None) in *.
    assert (I2 : sinv (gl g e1) s2) by (eapply sinv_core; [| | |exact I1]; reflexivity).
    assert (K2 : cur_ok s2) by (intros n E; exact (K1 n E)).
    assert (K3 : kinv s2) by (split; [reflexivity|intro E; discriminate]).
    assert (Hid2 : s_id s2 = sid) by (unfold s2; simp_proj; congruence).
    assert (En2 : H3Parse.s_ended s2 = H3Parse.s_ended s) by (unfold s2; simp_proj; congruence).
    destruct (negb (is_nil (s_buf s2))).
    + match type of H with context [rq_recv ?a ?b ?c0 ?d ?e ?f] =>
        destruct (rq_recv a b c0 d e f) as [e2 s3|code|k] eqn:HR end; try discriminate.
      destruct (rq_recv_post hdrs client fx Q _ _ _ (gl g e1) e2 s3 I2 K2 HR) as (C2 & I3 & K4 & Hid3 & En3).
      pose proof (rq_recv_k _ _ _ _ _ _ _ _ K3 HR) as K5.
      eapply (STEP s3 (e1 ++ e2)); [| | | | | |exact H]; try assumption.
      * apply chain_app; [exact C1|rewrite <- Hid2; exact C2].
      * rewrite H3EventsProofs.gl_app. exact I3.
      * congruence.
      * rewrite En3, En2. destruct (H3Parse.s_ended s); auto.
    + eapply (STEP s2 e1); [| | | | | |exact H]; try assumption. congruence.
Qed.

(* ---------------------------------------------------------------- _receive_stream_data *)
Lemma recv0_post : forall Q c sid data fin hist rest evs c',
  CI c hist (QStream sid data fin :: rest) -> (fin = true -> no_stream sid rest) ->
  receive_stream_data0 fx (with_validators hdrs Q) c sid data fin = SVal evs c' ->
  all_ok hist evs /\ CI c' (hist ++ evs) rest.
Proof.
  intros Q c sid data fin hist rest evs c' HC0 Hfin H. unfold receive_stream_data0 in H.
  destruct (get_or_create c sid) as [s0 c1] eqn:G.
  assert (T : touches sid (QStream sid data fin)) by (left; eexists _, _; reflexivity).
  destruct (CI_goc _ _ _ _ _ _ _ HC0 T G) as (HC1' & F & _ & _).
  pose proof (CI_tail _ _ _ _ HC1') as HC1. clear HC1' HC0 G.
  pose proof HC1 as (A & _ & _ & D & _). destruct (A sid s0 F) as (S1 & S2 & S3 & S4).
  pose proof (find_id _ _ _ F) as Hid.
  set (g := ghost_of hist sid) in *.
  assert (PUT : forall c2 sF eF, cframe c1 c2 -> chain sid g eF -> sinv (gl g eF) sF -> cur_ok sF -> kinv sF -> s_id sF = sid ->
            (H3Parse.s_ended sF = true -> H3Parse.s_ended s0 = true \/ fin = true) ->
            CI (set_streams c2 (put_stream sF (c_streams c2))) (hist ++ eF) rest /\ all_ok hist eF).
  { intros c2 sF eF (Q1 & Q2 & Q3 & _) C1 I1 K1 K2 I2 E1.
    assert (HC2 : CI c2 hist rest) by (eapply CI_same; [exact Q1|exact Q3|exact Q2|exact HC1]).
    eapply CI_put; eauto. intro E. destruct (E1 E) as [E2|E2]; auto. }
  destruct (is_uni sid).
  - set (st := H3Parse.set_ended (set_buf s0 (s_buf s0 ++ data)) (H3Parse.s_ended s0 || fin)) in *.
    assert (SA : same_all s0 st \/ True) by (right; exact Logic.I). clear SA.
    match type of H with context [uni_loop ?f ?a ?b ?c0 ?d ?e ?b0 ?u] =>
      pose proof (uni_loop_frame a b f c0 d e b0 u) as UF;
      destruct (uni_loop f a b c0 d e b0 u) as [st' c2 unb|evs1 st' c2|k c2|k] eqn:UL end;
      try discriminate; cbn [uni_frame] in UF.
    + (* the loop ended: resume the streams the encoder stream unblocked *)
      destruct UF as ((U1 & U2 & U3 & U4 & U5 & U6 & U7 & U8) & CF).
      destruct (PUT c2 st' [] CF Logic.I) as (HC2 & _).
      * eapply sinv_core; [| | |exact S1]; assumption.
      * intros n E. rewrite U4 in E. rewrite U1. exact (S2 n E).
      * destruct S3 as (K3 & K4). split; [rewrite U7, U8; exact K3|rewrite U7, U4; exact K4].
      * rewrite U5. exact Hid.
      * rewrite U6. unfold st. simp_proj. intro E. destruct (H3Parse.s_ended s0); auto.
      * rewrite app_nil_r in HC2. destruct (unblock_post Q _ _ _ _ _ _ _ HC2 H) as (e1 & E1 & O1 & HC3).
        cbn [app] in E1. subst e1. auto.
    + destruct UF as ((U1 & U2 & U3 & U4 & U5 & U6 & U7 & U8) & CF & WT).
      assert (I0 : sinv g st') by (eapply sinv_core; [| | |exact S1]; assumption).
      assert (K0 : cur_ok st') by (intros n E; rewrite U4 in E; rewrite U1; exact (S2 n E)).
      assert (K1 : kinv st').
      { destruct S3 as (K3 & K4). split; [rewrite U7, U8; exact K3|rewrite U7, U4; exact K4]. }
      assert (I1 : s_id st' = sid) by (rewrite U5; exact Hid).
      assert (E0 : H3Parse.s_ended st' = true -> H3Parse.s_ended s0 = true \/ fin = true).
      { rewrite U6. unfold st. simp_proj. intro E. destruct (H3Parse.s_ended s0); auto. }
      assert (ELSE : SVal evs1 (set_streams c2 (put_stream st' (c_streams c2))) = SVal evs c' ->
                     all_ok hist evs /\ CI c' (hist ++ evs) rest).
      { intro HE. inversion HE; subst evs c'. unfold st in WT. simp_proj. rewrite Hid in WT.
        destruct (wt_chain sid g evs1 WT) as (W1 & W2).
        destruct (PUT c2 st' evs1 CF W1) as (P1 & P2); auto. rewrite W2. exact I0. }
      assert (PUSH : match rq_recv fx (with_validators hdrs Q) (c_client c2) st' [] fin with
                     | RVal e st'' => SVal e (set_streams c2 (put_stream st'' (c_streams c2)))
                     | RErr k => SErr k c2
                     | RExn k => SExn k
                     end = SVal evs c' -> all_ok hist evs /\ CI c' (hist ++ evs) rest).
      { intro HE. destruct CF as (Q1 & Q2 & Q3 & Q4). rewrite Q2, D in HE.
        destruct (rq_recv fx (with_validators hdrs Q) client st' [] fin) as [e st''|code|k] eqn:HR; try discriminate.
        inversion HE; subst e c'.
        destruct (rq_recv_post hdrs client fx Q _ _ _ g evs st'' I0 K0 HR) as (C2 & I3 & K4 & Hid3 & En3).
        pose proof (rq_recv_k _ _ _ _ _ _ _ _ K1 HR) as K5.
        destruct (PUT c2 st'' evs (conj Q1 (conj Q2 (conj Q3 Q4)))) as (P1 & P2); auto.
        - rewrite <- I1. exact C2.
        - congruence.
        - rewrite En3. intro E. destruct (H3Parse.s_ended st') eqn:E2; [apply E0; reflexivity|]. right. exact E. }
      destruct (s_stype st') as [[|[p|p|]|p]|]; auto.
  - rewrite D in H.
    destruct (rq_recv fx (with_validators hdrs Q) client s0 data fin) as [e st'|code|k] eqn:HR; try discriminate.
    inversion H; subst e c'.
    destruct (rq_recv_post hdrs client fx Q _ _ _ g evs st' S1 S2 HR) as (C2 & I3 & K4 & Hid3 & En3).
    pose proof (rq_recv_k _ _ _ _ _ _ _ _ S3 HR) as K5.
    destruct (PUT c1 st' evs (cframe_refl c1)) as (P1 & P2); auto.
    + rewrite <- Hid. exact C2.
    + congruence.
    + rewrite En3. intro E. destruct (H3Parse.s_ended s0); auto.
Qed.


(* ---------------------------------------------------------------- handle_event *)
Lemma CI_hist_ext : forall c h h' rest, (forall x, ghost_of h' x = ghost_of h x) -> CI c h rest -> CI c h' rest.
Proof.
  intros c h h' rest E (A & B & C & D & N). split; [|split; [|split; [|split]]]; auto.
  - intros sid s F. destruct (A sid s F) as (A1 & A2 & A3 & A4). unfold SI. rewrite E. auto.
  - intros sid F. rewrite E. apply B. exact F.
Qed.

Lemma CI_local_end : forall c hist sid rest,
  CI c hist (QLocalEnd sid :: rest) -> no_local sid rest -> CI (local_end c sid) hist rest.
Proof.
  intros c hist sid rest HC0 NL. unfold local_end.
  destruct (get_or_create c sid) as [s0 c1] eqn:G.
  assert (T : touches sid (QLocalEnd sid)) by (right; reflexivity).
  destruct (CI_goc _ _ _ _ _ _ _ HC0 T G) as (HC1' & F & _ & _).
  pose proof (CI_tail _ _ _ _ HC1') as HC1. apply CI_pop.
  destruct (H3Parse.memz sid (c_sent_end c1)) eqn:M; [exact HC1|].
  destruct HC1 as (A & B & C & D & N). split; [|split; [|split; [|split]]]; auto.
  cbn [c_sent_end set_sent_end]. intros x Hx. cbn [H3Parse.memz] in Hx.
  destruct (x =? sid) eqn:Q; [replace x with sid by lia; exact NL|]. apply C. exact Hx.
Qed.

Lemma local_end_done : forall c sid, c_done (local_end c sid) = c_done c.
Proof.
  intros c sid. unfold local_end, get_or_create, pop_if_ended.
  destruct (find_stream sid (c_streams c)); cbn [c_done set_streams];
    repeat match goal with |- context [if ?b then _ else _] => destruct b
                      | |- context [match ?o with Some _ => _ | None => _ end] => destruct o end; reflexivity.
Qed.

Definition step_ok (hist : list event) (rest : list qevent) (o : hout) (c' : conn) : Prop :=
  match o with
  | Events evs => all_ok hist evs /\ CI c' (hist ++ evs) rest
  | Closed _ => c_done c' = true
  | Raised _ => True
  end.

Lemma handle_event_post : forall Q c q rest hist o c',
  CI c hist (q :: rest) -> trace_ok (q :: rest) ->
  handle_event fx (with_validators hdrs Q) c q = (o, c') -> step_ok hist rest o c'.
Proof.
  intros Q c q rest hist o c' HC (T1 & T2) H. unfold handle_event in H.
  assert (NOP : (Events [], c) = (o, c') -> step_ok hist rest o c').
  { intro E. inversion E; subst. cbn [step_ok]. rewrite app_nil_r. split; [exact Logic.I|eapply CI_tail; exact HC]. }
  destruct q as [sid data fin|d| |sid].
  - destruct (c_done c); [auto|].
    unfold receive_stream_data in H.
    destruct (receive_stream_data0 fx (with_validators hdrs Q) c sid data fin) as [evs c1|k c1|k] eqn:R;
      inversion H; subst; cbn [step_ok]; auto.
    assert (Hfin : fin = true -> no_stream sid rest) by (intros ->; exact T1).
    destruct (recv0_post Q _ _ _ _ _ _ _ _ HC Hfin R) as (O1 & HC1). split; [exact O1|apply CI_pop; exact HC1].
  - destruct (c_done c); [auto|].
    unfold receive_datagram in H. destruct (pull_uint_var d) as [[qq r]|]; inversion H; subst; cbn [step_ok]; auto.
    split.
    + cbn [H3EventsSpec.all_ok]. split; [|exact Logic.I]. split; [exact Logic.I|cbn [ev_fin]; discriminate].
    + eapply CI_hist_ext; [|eapply CI_tail; exact HC]. intro x. rewrite ghost_app. reflexivity.
  - destruct (c_done c); auto.
  - inversion H; subst. cbn [step_ok]. rewrite app_nil_r. split; [exact Logic.I|]. apply CI_local_end; assumption.
Qed.

Lemma run_done : forall tr c, c_done c = true -> events_of (run fx c tr) = [].
Proof.
  induction tr as [|[q O] tr IH]; intros c Hd; [reflexivity|]. cbn [run]. unfold handle_event.
  destruct q as [sid data fin|d| |sid]; rewrite ?Hd; cbn [events_of flat_map app]; try (apply IH; exact Hd).
  apply IH. rewrite local_end_done. exact Hd.
Qed.

Lemma run_post : forall tr c hist,
  CI c hist (map fst tr) -> trace_ok (map fst tr) ->
  all_ok hist (events_of (run fx c (with_validators_tr hdrs tr))).
Proof.
  induction tr as [|[q Q] tr IH]; intros c hist HC HT; [exact Logic.I|].
  cbn [with_validators_tr map fst snd run] in *.
  destruct (handle_event fx (with_validators hdrs Q) c q) as [o c'] eqn:HE.
  pose proof (handle_event_post Q c q _ hist o c' HC HT HE) as P.
  destruct o as [evs|k|k]; cbn [step_ok] in P.
  - destruct P as (P1 & P2). cbn [events_of flat_map]. apply all_ok_app; [exact P1|].
    apply IH; [exact P2|exact (proj2 HT)].
  - cbn [events_of flat_map app]. fold (events_of (run fx c' (with_validators_tr hdrs tr))).
    unfold with_validators_tr. rewrite run_done by exact P. exact Logic.I.
  - exact Logic.I.
Qed.

End Conn.

(* ---------------------------------------------------------------- the theorem over whole connections *)
Lemma CI_init : forall hdrs client dgram rest, CI hdrs client (conn_init client dgram) [] rest.
Proof.
  intros. split; [|split; [|split; [|split]]]; cbn.
  - intros sid s F. discriminate.
  - intros sid _. left. reflexivity.
  - intros sid F. discriminate.
  - destruct client; reflexivity.
  - constructor.
Qed.

Lemma events_respect_spec_proof : forall fx hdrs client dgram tr,
  fx_pushblock fx = true -> trace_ok (map fst tr) ->
  all_ok client hdrs [] (events_of (h3_run fx hdrs (conn_init client dgram) tr)).
Proof.
  intros fx hdrs client dgram tr Hpb HT. unfold h3_run. apply run_post; [exact Hpb|apply CI_init|exact HT].
Qed.
